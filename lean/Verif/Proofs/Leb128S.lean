import Verif.Proofs.Leb128
/-! Helper lemmas for C35 (LEB128), signed part. -/
namespace Verif.Proofs.Leb128
open Verif.Model.Leb128 Verif.Spec.Leb128

/-! ### two's-complement wrap-around as congruence modulo 2^w -/

theorem wrapS_eq_sub (w : Nat) (x : Int) :
    wrapS w x = x + 2 ^ w * (-((x + 2 ^ (w - 1)) / 2 ^ w)) := by
  unfold wrapS
  rw [Int.emod_def]
  rw [Int.mul_neg]
  omega

theorem wrapS_add_mul (w : Nat) (x t : Int) : wrapS w (x + 2 ^ w * t) = wrapS w x := by
  unfold wrapS
  have : x + 2 ^ w * t + 2 ^ (w - 1) = (x + 2 ^ (w - 1)) + 2 ^ w * t := by omega
  rw [this, Int.add_mul_emod_self_left]

theorem wrapS_add_wrapS (w : Nat) (a b : Int) : wrapS w (a + wrapS w b) = wrapS w (a + b) := by
  rw [wrapS_eq_sub w b, ← Int.add_assoc, wrapS_add_mul]

theorem wrapS_wrapS_add (w : Nat) (a b : Int) : wrapS w (wrapS w a + b) = wrapS w (a + b) := by
  rw [Int.add_comm, wrapS_add_wrapS, Int.add_comm]

theorem wrapS_wrapS_mul (w : Nat) (a c : Int) : wrapS w (wrapS w a * c) = wrapS w (a * c) := by
  rw [wrapS_eq_sub w a, Int.add_mul, Int.mul_assoc, wrapS_add_mul]

theorem two_pow_succ_pred (w : Nat) (hw : 1 ≤ w) : (2 : Int) ^ w = 2 * 2 ^ (w - 1) := by
  have : w = (w - 1) + 1 := by omega
  conv => lhs; rw [this, Int.pow_succ]
  omega

theorem wrapS_of_inRange (w : Nat) (hw : 1 ≤ w) (x : Int) (h1 : -(2 ^ (w - 1)) ≤ x) (h2 : x < 2 ^ (w - 1)) :
    wrapS w x = x := by
  unfold wrapS
  have hM := two_pow_succ_pred w hw
  rw [Int.emod_eq_of_lt (by omega) (by omega)]
  omega

/-! ### signed digit strings -/

def sdigits (v : Int) : List Nat :=
  if -64 ≤ v ∧ v < 64 then [(v % 128).toNat] else (v % 128).toNat :: sdigits (v / 128)
termination_by v.natAbs
decreasing_by omega

theorem sdigits_ne_nil (v : Int) : sdigits v ≠ [] := by
  unfold sdigits; split <;> simp

theorem sleb_eq_enc (v : Int) : sleb v = encDigits (sdigits v) := by
  fun_induction sdigits v with
  | case1 v h => unfold sleb; simp [h, encDigits, u8]
  | case2 v h ih =>
    unfold sleb
    simp only [h, if_false]
    rw [ih]
    have hne := sdigits_ne_nil (v / 128)
    cases hd : sdigits (v / 128) with
    | nil => exact absurd hd hne
    | cons e ds => simp [encDigits, u8]

theorem sdigits_lt (v : Int) : ∀ d ∈ sdigits v, d < 128 := by
  fun_induction sdigits v with
  | case1 v h => intro d hd; simp at hd; omega
  | case2 v h ih =>
    intro d hd
    simp at hd
    rcases hd with rfl | hd
    · omega
    · exact ih d hd

set_option maxRecDepth 100000 in
theorem and_40 : ∀ r, r < 128 → ((r &&& 0x40 = 0) ↔ r < 64) := by decide

theorem moreS_iff (v : Int) :
    moreS (v >>> 7) ((v % 128).toNat &&& 0x40) = true ↔ ¬ (-64 ≤ v ∧ v < 64) := by
  have hr : (v % 128).toNat < 128 := by omega
  have h40 := and_40 _ hr
  unfold moreS
  rw [Int.shiftRight_eq_div_pow]
  simp only [Bool.not_eq_true', decide_eq_false_iff_not]
  have hp : (2 : Int) ^ 7 = 128 := by decide
  have hp' : ((2 : Nat) ^ 7 : Nat) = 128 := by decide
  simp only [hp']
  constructor
  · intro h hc
    apply h
    by_cases hv : 0 ≤ v
    · left; exact ⟨by omega, h40.mpr (by omega)⟩
    · right; exact ⟨by omega, fun h0 => by have := h40.mp h0; omega⟩
  · intro h hc
    apply h
    rcases hc with ⟨h1, h2⟩ | ⟨h1, h2⟩
    · have := h40.mp h2; omega
    · have : ¬ (v % 128).toNat < 64 := fun hlt => h2 (h40.mpr hlt)
      omega

theorem appendIntLoop_eq (v : Int) : ∀ data, appendIntLoop data v = data ++ sleb v := by
  fun_induction sdigits v with
  | case1 v h =>
    intro data
    unfold appendIntLoop
    have : ¬ moreS (v >>> 7) ((v % 128).toNat &&& 0x40) = true := by rw [moreS_iff]; simpa using h
    simp only [this, dif_neg, not_false_eq_true]
    unfold sleb
    simp [h, u8]
  | case2 v h ih =>
    intro data
    unfold appendIntLoop
    have : moreS (v >>> 7) ((v % 128).toNat &&& 0x40) = true := by rw [moreS_iff]; exact h
    simp only [this, dif_pos]
    have hp : v >>> 7 = v / 128 := by rw [Int.shiftRight_eq_div_pow]; rfl
    rw [hp, ih]
    conv => rhs; unfold sleb
    simp only [h, if_false]
    rw [or_80 _ (by omega)]
    simp [u8]

/-- value and size of the canonical signed digit string -/
theorem sdigits_spec (v : Int) :
    -(2 ^ (7 * (sdigits v).length - 1) : Int) ≤ v ∧ v < 2 ^ (7 * (sdigits v).length - 1) ∧
    ((digitsValue (sdigits v) : Nat) : Int) = v % 2 ^ (7 * (sdigits v).length) := by
  fun_induction sdigits v with
  | case1 v h =>
    simp only [List.length_cons, List.length_nil, digitsValue]
    have h6 : (2 : Int) ^ (7 * (0 + 1) - 1) = 64 := by decide
    have h7 : (2 : Int) ^ (7 * (0 + 1)) = 128 := by decide
    rw [h6, h7]
    omega
  | case2 v h ih =>
    obtain ⟨ih1, ih2, ih3⟩ := ih
    have hn : 1 ≤ (sdigits (v / 128)).length := by
      have := sdigits_ne_nil (v / 128)
      cases hd : sdigits (v / 128) with
      | nil => exact absurd hd this
      | cons _ _ => simp
    simp only [List.length_cons, digitsValue]
    generalize (sdigits (v / 128)).length = n at *
    have e1 : (2 : Int) ^ (7 * (n + 1) - 1) = 128 * 2 ^ (7 * n - 1) := by
      have : 7 * (n + 1) - 1 = (7 * n - 1) + 7 := by omega
      rw [this, Int.pow_add]; have : (2 : Int) ^ 7 = 128 := by decide
      omega
    have e2 : (2 : Int) ^ (7 * (n + 1)) = 128 * 2 ^ (7 * n) := by
      have : 7 * (n + 1) = 7 * n + 7 := by omega
      rw [this, Int.pow_add]; have : (2 : Int) ^ 7 = 128 := by decide
      omega
    rw [e1, e2]
    generalize hP : (2 : Int) ^ (7 * n - 1) = P at *
    generalize hQ : (2 : Int) ^ (7 * n) = Q at *
    generalize hV : digitsValue (sdigits (v / 128)) = V at *
    have hQpos : 0 < Q := by rw [← hQ]; exact Int.pow_pos (by decide)
    refine ⟨by omega, by omega, ?_⟩
    -- (128 q + r) % (128 Q) = 128 (q % Q) + r
    have hv : v = 128 * (v / 128) + v % 128 := by omega
    have hq : v / 128 = Q * (v / 128 / Q) + (v / 128) % Q := (Int.mul_ediv_add_emod _ _).symm
    have hlt : (v / 128) % Q < Q := Int.emod_lt_of_pos _ hQpos
    have hge : 0 ≤ (v / 128) % Q := Int.emod_nonneg _ (by omega)
    have key : v = (128 * ((v / 128) % Q) + v % 128) + 128 * Q * (v / 128 / Q) := by
      have : 128 * Q * (v / 128 / Q) = 128 * (Q * (v / 128 / Q)) := by rw [Int.mul_assoc]
      omega
    have hmod : v % (128 * Q) = 128 * ((v / 128) % Q) + v % 128 := by
      conv => lhs; rw [key]
      rw [Int.add_mul_emod_self_left]
      exact Int.emod_eq_of_lt (by omega) (by omega)
    rw [hmod, ← ih3]
    have : ((v % 128).toNat : Int) = v % 128 := by omega
    push_cast
    omega

/-- the canonical signed digit string is the shortest one whose two's-complement range contains `v` -/
theorem sdigits_minimal (k : Nat) : ∀ v : Int, 1 ≤ k →
    -(2 ^ (7 * k - 1) : Int) ≤ v → v < 2 ^ (7 * k - 1) → (sdigits v).length ≤ k := by
  induction k with
  | zero => intro v h; omega
  | succ k ih =>
    intro v _ h1 h2
    unfold sdigits
    split
    · simp
    · rename_i hout
      rcases Nat.eq_zero_or_pos k with rfl | hk
      · exfalso
        have h6 : (2 : Int) ^ (7 * (0 + 1) - 1) = 64 := by decide
        rw [h6] at h1 h2
        omega
      · have e1 : (2 : Int) ^ (7 * (k + 1) - 1) = 128 * 2 ^ (7 * k - 1) := by
          have : 7 * (k + 1) - 1 = (7 * k - 1) + 7 := by omega
          rw [this, Int.pow_add]; have : (2 : Int) ^ 7 = 128 := by decide
          omega
        rw [e1] at h1 h2
        have := ih (v / 128) hk (by omega) (by omega)
        simp only [List.length_cons]
        omega

/-! ### reading a signed digit string -/

theorem int_mul_split (d V P : Int) : (d + 128 * V) * P = d * P + V * (P * 128) := by
  rw [Int.add_mul, Int.mul_comm 128 V, Int.mul_assoc, Int.mul_comm 128 P]

theorem readIntLoop_digits (w : Nat) (ds : List Nat) :
    ∀ (k i b : Nat) (result signBits : Int) (pre rest : Bytes), ds ≠ [] → (∀ d ∈ ds, d < 128) →
      ds.length ≤ k → pre.length = i → b &&& 0x80 = 0x80 →
      readIntLoop w (pre ++ (encDigits ds ++ rest)) k i b result signBits i
        = .ok (wrapS w (result + (digitsValue ds : Nat) * 2 ^ (7 * i)),
               wrapS w (signBits * 2 ^ (7 * ds.length)), i + ds.length) := by
  induction ds with
  | nil => intro _ _ _ _ _ _ _ h; exact absurd rfl h
  | cons d ds ih =>
    intro k i b result signBits pre rest _ hlt hk hpre hb
    have hd : d < 128 := hlt d (by simp)
    cases k with
    | zero => simp at hk
    | succ k =>
      subst hpre
      have h7 : pre.length * 7 = 7 * pre.length := Nat.mul_comm _ _
      cases ds with
      | nil =>
        simp only [encDigits, List.cons_append, List.nil_append, readIntLoop, hb, if_true, getElem?_mid]
        have hbd : (u8 d).toNat = d := u8_toNat d (by omega)
        simp only [hbd, and_7f, Nat.mod_eq_of_lt hd, Int.shiftLeft_eq, h7, wrapS_add_wrapS]
        have hstop : ¬ (d &&& 0x80 = 0x80) := by rw [and_80_small d hd]; decide
        cases k with
        | zero => simp [readIntLoop, digitsValue]
        | succ k => simp [readIntLoop, hstop, digitsValue]
      | cons e ds =>
        simp only [encDigits, List.cons_append, readIntLoop, hb, if_true, getElem?_mid]
        have hbd : (u8 (d + 128)).toNat = d + 128 := u8_toNat _ (by omega)
        have hmod : (d + 128) % 128 = d := by omega
        simp only [hbd, and_7f, hmod, Int.shiftLeft_eq, h7, wrapS_add_wrapS]
        have hih := ih k (pre.length + 1) (d + 128) (wrapS w (result + (d : Int) * 2 ^ (7 * pre.length)))
          (wrapS w (signBits * 2 ^ 7)) (pre ++ [u8 (d + 128)]) rest
          (by simp) (fun x hx => hlt x (by simp [hx])) (by simp at hk ⊢; omega) (by simp)
          (and_80_big (d + 128) (by omega) (by omega))
        simp only [List.append_assoc, List.singleton_append] at hih
        rw [hih, wrapS_wrapS_add, wrapS_wrapS_mul]
        have hV : digitsValue (d :: e :: ds) = d + 128 * digitsValue (e :: ds) := rfl
        have hP : (2 : Int) ^ (7 * (pre.length + 1)) = 2 ^ (7 * pre.length) * 128 := by
          have : 7 * (pre.length + 1) = 7 * pre.length + 7 := by omega
          rw [this, Int.pow_add]; rfl
        have hL : (2 : Int) ^ (7 * (d :: e :: ds).length) = 2 ^ 7 * 2 ^ (7 * (e :: ds).length) := by
          have : 7 * (d :: e :: ds).length = 7 + 7 * (e :: ds).length := by simp; omega
          rw [this, Int.pow_add]
        rw [hV, hP, hL]
        have e1 : result + ((d : Int)) * 2 ^ (7 * pre.length)
              + ((digitsValue (e :: ds) : Nat) : Int) * (2 ^ (7 * pre.length) * 128)
            = result + ((d + 128 * digitsValue (e :: ds) : Nat) : Int) * 2 ^ (7 * pre.length) := by
          push_cast
          rw [int_mul_split]
          omega
        have e2 : signBits * 2 ^ 7 * 2 ^ (7 * (e :: ds).length)
            = signBits * (2 ^ 7 * 2 ^ (7 * (e :: ds).length)) := Int.mul_assoc _ _ _
        rw [e1, e2]
        simp only [List.length_cons]
        have hc : pre.length + 1 + (ds.length + 1) = pre.length + (ds.length + 1 + 1) := by omega
        rw [hc]

/-! ### the sign-extension test `((signBits >> 1) & result) != 0` -/

theorem testBit_high (w m i : Nat) (hm : m ≤ w) :
    (2 ^ w - 2 ^ m).testBit i = (decide (i < w) && !decide (i < m)) := by
  have hlt : 2 ^ m - 1 < 2 ^ w := by
    have : 2 ^ m ≤ 2 ^ w := Nat.pow_le_pow_right (by decide) hm
    have : 0 < 2 ^ m := Nat.pow_pos (by decide)
    omega
  have h := Nat.testBit_two_pow_sub_succ hlt i
  have hpos : 0 < 2 ^ m := Nat.pow_pos (by decide)
  have : 2 ^ w - (2 ^ m - 1 + 1) = 2 ^ w - 2 ^ m := by omega
  rw [this] at h
  rw [h, Nat.testBit_two_pow_sub_one]

theorem land_high_eq_zero_iff (w m U : Nat) (hm : m < w) (hU : U < 2 ^ (m + 1)) :
    ((2 ^ w - 2 ^ m) &&& U = 0) ↔ U < 2 ^ m := by
  constructor
  · intro h
    apply Nat.lt_of_not_le
    intro hge
    obtain ⟨i, hi, hbit⟩ := Nat.exists_ge_and_testBit_of_ge_two_pow hge
    have hile : i ≤ m := by
      apply Nat.le_of_not_lt
      intro hgt
      have : U < 2 ^ i := Nat.lt_of_lt_of_le hU (Nat.pow_le_pow_right (by decide) hgt)
      rw [Nat.testBit_lt_two_pow this] at hbit
      exact Bool.noConfusion hbit
    have him : i = m := by omega
    subst him
    have : ((2 ^ w - 2 ^ i) &&& U).testBit i = true := by
      rw [Nat.testBit_and, testBit_high w i i (by omega), hbit]
      simp [hm]
    rw [h] at this
    simp at this
  · intro h
    apply Nat.eq_of_testBit_eq
    intro i
    rw [Nat.testBit_and, testBit_high w m i (by omega), Nat.zero_testBit]
    by_cases him : i < m
    · simp [him]
    · have : U < 2 ^ i := Nat.lt_of_lt_of_le h (Nat.pow_le_pow_right (by decide) (by omega))
      rw [Nat.testBit_lt_two_pow this]
      simp

theorem wrapS_zero (w : Nat) (hw : 1 ≤ w) : wrapS w 0 = 0 :=
  wrapS_of_inRange w hw 0 (by have : (0 : Int) < 2 ^ (w - 1) := Int.pow_pos (by decide); omega)
    (Int.pow_pos (by decide))

theorem natCast_two_pow (n : Nat) : (((2 : Nat) ^ n : Nat) : Int) = (2 : Int) ^ n := by
  push_cast; rfl

/-- the final step of `ReadInt32/64` on the canonical digit string of `v` -/
theorem readInt_sleb (w maxCount : Nat) (hw : 1 ≤ w) (v : Int)
    (h1 : -(2 ^ (w - 1) : Int) ≤ v) (h2 : v < 2 ^ (w - 1))
    (hlen : (sdigits v).length ≤ maxCount) (rest : Bytes) :
    readInt w maxCount (sleb v ++ rest) = .ok (v, (sdigits v).length) := by
  unfold readInt
  rw [sleb_eq_enc]
  have hloop := readIntLoop_digits w (sdigits v) maxCount 0 0x80 0 (-1) [] rest (sdigits_ne_nil v)
    (sdigits_lt v) hlen rfl (by decide)
  simp only [List.nil_append, Nat.mul_zero, Int.pow_zero, Int.mul_one, Int.zero_add, Nat.zero_add] at hloop
  rw [hloop]
  simp only []
  obtain ⟨s1, s2, s3⟩ := sdigits_spec v
  have hn : 1 ≤ (sdigits v).length := by
    have := sdigits_ne_nil v
    cases hd : sdigits v with
    | nil => exact absurd hd this
    | cons _ _ => simp
  have hUlt := digitsValue_lt (sdigits v) (sdigits_lt v)
  generalize (sdigits v).length = n at *
  generalize hU : digitsValue (sdigits v) = U at *
  have h128 : (128 : Nat) ^ n = 2 ^ (7 * n) := by
    rw [show (128 : Nat) = 2 ^ 7 by decide, ← Nat.pow_mul]
  rw [h128] at hUlt
  have hM := two_pow_succ_pred w hw
  have hneg : (-1 : Int) * 2 ^ (7 * n) = -(2 ^ (7 * n)) := by omega
  rw [hneg]
  by_cases hcase : 7 * n < w
  · -- no wrap-around: signBits = -2^(7n), result = U
    have hle : (2 : Int) ^ (7 * n) ≤ 2 ^ (w - 1) := by
      have : (2 : Nat) ^ (7 * n) ≤ 2 ^ (w - 1) := Nat.pow_le_pow_right (by decide) (by omega)
      have := Int.ofNat_le.mpr this
      rwa [natCast_two_pow, natCast_two_pow] at this
    have hUi : (U : Int) < 2 ^ (7 * n) := by
      have := Int.ofNat_lt.mpr hUlt
      rwa [natCast_two_pow] at this
    have hpos : (0 : Int) < 2 ^ (7 * n) := Int.pow_pos (by decide)
    rw [wrapS_of_inRange w hw (U : Int) (by omega) (by omega),
      wrapS_of_inRange w hw (-(2 ^ (7 * n))) (by omega) (by omega)]
    -- signBits >> 1
    have hsplit : (2 : Int) ^ (7 * n) = 2 * 2 ^ (7 * n - 1) := two_pow_succ_pred (7 * n) (by omega)
    have hshr : (-(2 ^ (7 * n)) : Int) >>> 1 = -(2 ^ (7 * n - 1)) := by
      rw [Int.shiftRight_eq_div_pow]
      have : (((2 : Nat) ^ 1 : Nat) : Int) = 2 := by decide
      rw [this, hsplit]
      omega
    rw [hshr]
    -- the bit patterns
    have hPle : (2 : Nat) ^ (7 * n - 1) ≤ 2 ^ w := Nat.pow_le_pow_right (by decide) (by omega)
    have hPpos : 0 < (2 : Nat) ^ (7 * n - 1) := Nat.pow_pos (by decide)
    have hpat1 : patS w (-(2 ^ (7 * n - 1))) = 2 ^ w - 2 ^ (7 * n - 1) := by
      unfold patS
      have hP : ((2 : Int) ^ (7 * n - 1)) = (((2 : Nat) ^ (7 * n - 1) : Nat) : Int) := (natCast_two_pow _).symm
      have hW : ((2 : Int) ^ w) = (((2 : Nat) ^ w : Nat) : Int) := (natCast_two_pow _).symm
      rw [hP, hW]
      generalize (2 : Nat) ^ (7 * n - 1) = P at *
      generalize (2 : Nat) ^ w = M at *
      have : (-(P : Int)) % (M : Int) = (M : Int) - P := by
        have h := Int.add_mul_emod_self_left (-(P : Int)) (M : Int) 1
        rw [← h, Int.emod_eq_of_lt (by omega) (by omega)]
        omega
      rw [this]
      omega
    have hUw : U < 2 ^ w := Nat.lt_of_lt_of_le hUlt (Nat.pow_le_pow_right (by decide) (by omega))
    have hpat2 : patS w (U : Int) = U := by
      unfold patS
      have hW : ((2 : Int) ^ w) = (((2 : Nat) ^ w : Nat) : Int) := (natCast_two_pow _).symm
      rw [hW, Int.emod_eq_of_lt (by omega) (by omega)]
      omega
    have hU1 : U < 2 ^ (7 * n - 1 + 1) := by
      have : 7 * n - 1 + 1 = 7 * n := by omega
      rw [this]; exact hUlt
    have hiff := land_high_eq_zero_iff w (7 * n - 1) U (by omega) hU1
    have hland_le : (2 ^ w - 2 ^ (7 * n - 1)) &&& U ≤ U := Nat.and_le_right
    have hlandv : landS w (-(2 ^ (7 * n - 1))) (U : Int)
        = (((2 ^ w - 2 ^ (7 * n - 1)) &&& U : Nat) : Int) := by
      unfold landS
      rw [hpat1, hpat2]
      apply wrapS_of_inRange w hw
      · have : (0 : Int) < 2 ^ (w - 1) := Int.pow_pos (by decide)
        omega
      · have : (((2 ^ w - 2 ^ (7 * n - 1)) &&& U : Nat) : Int) ≤ U := Int.ofNat_le.mpr hland_le
        omega
    rw [hlandv]
    have hPi : (2 : Int) ^ (7 * n - 1) = (((2 : Nat) ^ (7 * n - 1) : Nat) : Int) := (natCast_two_pow _).symm
    by_cases hneg' : U < 2 ^ (7 * n - 1)
    · have hz := hiff.mpr hneg'
      rw [hz]
      simp only [Int.natCast_zero, ne_eq, not_true_eq_false, if_false]
      -- v = U
      have hUi' : (U : Int) < 2 ^ (7 * n - 1) := by rw [hPi]; exact Int.ofNat_lt.mpr hneg'
      have : v % 2 ^ (7 * n) = v := by
        by_cases hv0 : 0 ≤ v
        · exact Int.emod_eq_of_lt hv0 (by omega)
        · exfalso
          have h := Int.add_mul_emod_self_left v (2 ^ (7 * n)) 1
          rw [Int.emod_eq_of_lt (a := v + 2 ^ (7 * n) * 1) (by omega) (by omega)] at h
          omega
      rw [this] at s3
      rw [s3]
    · have hnz : (2 ^ w - 2 ^ (7 * n - 1)) &&& U ≠ 0 := fun h => hneg' (hiff.mp h)
      have : ((((2 ^ w - 2 ^ (7 * n - 1)) &&& U : Nat) : Int) ≠ 0) := by omega
      simp only [this, ne_eq, not_false_eq_true, if_true]
      have hUge : (2 : Int) ^ (7 * n - 1) ≤ (U : Int) := by
        rw [hPi]; exact Int.ofNat_le.mpr (by omega)
      -- v = U - 2^(7n)
      have hv : v = (U : Int) - 2 ^ (7 * n) := by
        have h := Int.add_mul_emod_self_left v (2 ^ (7 * n)) 1
        by_cases hv0 : 0 ≤ v
        · exfalso
          rw [Int.emod_eq_of_lt hv0 (by omega)] at s3
          omega
        · rw [Int.emod_eq_of_lt (a := v + 2 ^ (7 * n) * 1) (by omega) (by omega)] at h
          omega
      rw [wrapS_of_inRange w hw _ (by omega) (by omega)]
      rw [hv, Int.sub_eq_add_neg]
  · -- the last digit reaches beyond bit w-1: everything is modulo 2^w, signBits wraps to 0
    have hexp : 7 * n = w + (7 * n - w) := by omega
    have hsb : wrapS w (-(2 ^ (7 * n))) = 0 := by
      have : (-(2 ^ (7 * n)) : Int) = 0 + 2 ^ w * (-(2 ^ (7 * n - w))) := by
        rw [hexp, Int.pow_add]
        have : w + (7 * n - w) - w = 7 * n - w := by omega
        rw [this, Int.mul_neg]
        omega
      rw [this, wrapS_add_mul, wrapS_zero w hw]
    rw [hsb]
    have hl0 : landS w ((0 : Int) >>> 1) (wrapS w (U : Int)) = 0 := by
      unfold landS patS
      simp [wrapS_zero w hw]
    rw [hl0]
    simp only [ne_eq, not_true_eq_false, if_false]
    have hUv : (U : Int) = v + 2 ^ w * (-(2 ^ (7 * n - w) * (v / 2 ^ (7 * n)))) := by
      rw [s3, Int.emod_def]
      have : (2 : Int) ^ (7 * n) = 2 ^ w * 2 ^ (7 * n - w) := by
        conv => lhs; rw [hexp, Int.pow_add]
      rw [this, Int.mul_neg, Int.mul_assoc]
      omega
    rw [hUv, wrapS_add_mul, wrapS_of_inRange w hw v h1 h2]

/-! ### fixed-length unsigned encoding -/

def fdigits (v : Nat) : Nat → List Nat
  | 0 => []
  | n + 1 => v % 128 :: fdigits (v / 128) n

theorem fdigits_length (v n : Nat) : (fdigits v n).length = n := by
  induction n generalizing v with
  | zero => rfl
  | succ n ih => simp [fdigits, ih]

theorem fdigits_lt (v n : Nat) : ∀ d ∈ fdigits v n, d < 128 := by
  induction n generalizing v with
  | zero => intro d hd; simp [fdigits] at hd
  | succ n ih =>
    intro d hd
    simp [fdigits] at hd
    rcases hd with rfl | hd
    · omega
    · exact ih _ d hd

theorem fdigits_value (n : Nat) : ∀ v, v < 128 ^ n → digitsValue (fdigits v n) = v := by
  induction n with
  | zero => intro v hv; simp at hv; subst hv; rfl
  | succ n ih =>
    intro v hv
    have : v / 128 < 128 ^ n := by rw [Nat.pow_succ] at hv; omega
    simp only [fdigits, digitsValue, ih _ this]
    omega

theorem ulebFixed_eq_enc (n : Nat) : ∀ v, ulebFixed v n = encDigits (fdigits v n) := by
  induction n using Nat.strongRecOn with
  | _ n ih =>
    intro v
    match n with
    | 0 => rfl
    | 1 => simp [ulebFixed, fdigits, encDigits, u8]
    | n + 2 =>
      simp only [ulebFixed, fdigits, encDigits]
      rw [ih (n + 1) (by omega)]
      simp [fdigits, u8]

theorem appendFixedLoop_eq (length : Int) (k : Nat) :
    ∀ (i v : Nat) (data : Bytes), 1 ≤ k → ((i + k : Nat) : Int) = length →
      appendFixedLoop length k i data v = (data ++ encDigits (fdigits v k), v / 128 ^ k) := by
  induction k with
  | zero => intro _ _ _ h; omega
  | succ k ih =>
    intro i v data _ hlen
    cases k with
    | zero =>
      have : ¬ ((i : Int) < length - 1) := by omega
      simp [appendFixedLoop, this, and_7f, shr_7, fdigits, encDigits, u8]
    | succ k =>
      have hc : (i : Int) < length - 1 := by omega
      have hrec := ih (i + 1) (v / 128) (data ++ [u8 (v % 128 + 128)]) (by omega) (by omega)
      simp only [appendFixedLoop, and_7f, shr_7, hc, if_true] at hrec ⊢
      rw [or_80 _ (by omega), hrec]
      simp only [fdigits, encDigits, List.append_assoc, List.singleton_append, Nat.pow_succ]
      congr 1
      rw [Nat.div_div_eq_div_mul, Nat.mul_comm]

end Verif.Proofs.Leb128
