/-
C08 helper lemmas, base: the two top-level unfoldings of the rule interpreter (`isSub_rule`,
`isSub_norule`) and small generic facts shared by the other `Sub*` proof files.
-/
import Verif.Model.Types.Wf
import Verif.Model.Types.RulesPinned
namespace Verif.Proofs.SubUnfold
open Verif.Model.Types Verif.Model.Types.Struct Verif.Model.Auth

abbrev R : List Rule := RulesPinned.rules

theorem isSub_rule (m : Nat) (a b : Ty) (r : Rule)
    (h : R.find? (fun r => if r.complex then b.isKind r.super else b == .prim r.super) = some r) :
    isSub R (m + 2) a b = (a == b || (a == never || evalPred R m { sub := .ty a, super := .ty b } r.pred)) := by
  simp only [isSub, check, h]
  by_cases hn : a == never <;> simp [hn]

theorem isSub_norule (m : Nat) (a b : Ty)
    (h : R.find? (fun r => if r.complex then b.isKind r.super else b == .prim r.super) = none) :
    isSub R (m + 2) a b = (a == b || a == never) := by
  simp only [isSub, check, h]
  by_cases hn : a == never <;> simp [hn]

theorem le_add (c n : Nat) (h : c ≤ n) : ∃ m, n = m + c := ⟨n - c, by omega⟩

def NonPrim (a : Ty) : Prop := ∀ x, a ≠ .prim x

theorem chkPrim_other (a : Ty) (hnp : NonPrim a) (p : String)
    (h : (p == "Any" || p == "AnyStruct" || p == "AnyResource" || p == "AnyResourceAttachment" ||
          p == "AnyStructAttachment" || p == "HashableStruct") = false) : chkPrim a p = false := by
  simp only [Bool.or_eq_false_iff] at h
  obtain ⟨⟨⟨⟨⟨h1, h2⟩, h3⟩, h4⟩, h5⟩, h6⟩ := h
  cases a <;> first | exact absurd rfl (hnp _) | simp [chkPrim, h1, h2, h3, h4, h5, h6]

theorem np_ne (a : Ty) (hnp : NonPrim a) (x : String) : (a == Ty.prim x) = false := by
  simpa using hnp x
theorem np_never (a : Ty) (hnp : NonPrim a) : (a == never) = false := np_ne a hnp _

theorem ty_beq (a b : Ty) : (a == b) = decide (a = b) := by
  by_cases h : a = b <;> simp [h]

theorem size_pos (t : Ty) : 1 ≤ t.size := by cases t <;> simp [Ty.size] <;> omega

theorem prim_or_not (a : Ty) : (∃ x, a = .prim x) ∨ NonPrim a := by
  cases a <;> first | exact Or.inl ⟨_, rfl⟩ | exact Or.inr (fun _ h => by cases h)

theorem fn_or_not (a : Ty) : (∃ v p r, a = .fn v p r) ∨ ∀ v p r, a ≠ .fn v p r := by
  cases a <;> first | exact Or.inl ⟨_, _, _, rfl⟩ | exact Or.inr (fun _ _ _ h => by cases h)

end Verif.Proofs.SubUnfold
