import Verif.Model.Front.Layout
import Verif.Model.Front.Trivia
/-! Lemmas for C39. -/
namespace Verif.Proofs.Layout
open Verif.Model.Front.Layout Verif.Model.Front.Trivia

theorem size_pos (d : Doc) : 0 < size d := by
  cases d <;> simp [size] <;> omega

theorem size_flatten (d : Doc) : size (flatten d) ≤ size d := by
  induction d with
  | cat a b iha ihb => simp [flatten, size]; omega
  | indent d ih => simp [flatten, size]; omega
  | dedent d ih => simp [flatten, size]; omega
  | group d ih => simp [flatten, size]; omega
  | _ => simp [flatten, size]

theorem nonWs_append (a b : List Char) : nonWs (a ++ b) = nonWs a ++ nonWs b := by
  simp [nonWs]

theorem nonWs_texts_flatten (d : Doc) : nonWs (texts (flatten d)) = nonWs (texts d) := by
  induction d with
  | cat a b iha ihb => simp [flatten, texts, nonWs_append, iha, ihb]
  | indent d ih => simpa [flatten, texts] using ih
  | dedent d ih => simpa [flatten, texts] using ih
  | group d ih => simpa [flatten, texts] using ih
  | line => simp [flatten, texts, nonWs, isWs]
  | _ => simp [flatten, texts]

def stackTexts : List (Nat × Doc) → List Char
  | [] => []
  | (_, d) :: rest => texts d ++ stackTexts rest

theorem nonWs_indent (indent : List Char) (h : ∀ c ∈ indent, isWs c = true) (i : Nat) :
    nonWs (List.replicate i indent).flatten = [] := by
  induction i with
  | zero => simp [nonWs]
  | succ n ih =>
    simp only [List.replicate_succ, List.flatten_cons, nonWs_append, ih, List.append_nil]
    simp only [nonWs, List.filter_eq_nil_iff]
    intro c hc
    simp [h c hc]

theorem best_tokens (w iw : Nat) (indent : List Char) (h : ∀ c ∈ indent, isWs c = true) :
    ∀ (f lw : Nat) (stack : List (Nat × Doc)), stackSize stack ≤ f →
      nonWs (layout indent (best w iw f lw stack)) = nonWs (stackTexts stack) := by
  intro f
  induction f with
  | zero =>
    intro lw stack hs
    cases stack with
    | nil => simp [best, layout, stackTexts]
    | cons p rest =>
      obtain ⟨i, d⟩ := p
      have := size_pos d
      simp [stackSize] at hs
      omega
  | succ f ih =>
    intro lw stack hs
    cases stack with
    | nil => simp [best, layout, stackTexts]
    | cons p rest =>
      obtain ⟨i, d⟩ := p
      cases d with
      | nil =>
        simp only [best, stackTexts, texts, List.nil_append]
        exact ih lw rest (by simp [stackSize, size] at hs; omega)
      | text s =>
        simp only [best, layout, stackTexts, texts, nonWs_append]
        rw [ih _ rest (by simp [stackSize, size] at hs; omega)]
      | line =>
        simp only [best, layout, stackTexts, texts, List.nil_append]
        rw [show ('\n' :: (List.replicate i indent).flatten ++ layout indent (best w iw f (i * iw) rest))
              = ['\n'] ++ ((List.replicate i indent).flatten ++ layout indent (best w iw f (i * iw) rest)) by simp]
        rw [nonWs_append, nonWs_append, nonWs_indent indent h, ih _ rest (by simp [stackSize, size] at hs; omega)]
        simp [nonWs, isWs]
      | softline =>
        simp only [best, layout, stackTexts, texts, List.nil_append]
        rw [show ('\n' :: (List.replicate i indent).flatten ++ layout indent (best w iw f (i * iw) rest))
              = ['\n'] ++ ((List.replicate i indent).flatten ++ layout indent (best w iw f (i * iw) rest)) by simp]
        rw [nonWs_append, nonWs_append, nonWs_indent indent h, ih _ rest (by simp [stackSize, size] at hs; omega)]
        simp [nonWs, isWs]
      | hardline =>
        simp only [best, layout, stackTexts, texts, List.nil_append]
        rw [show ('\n' :: (List.replicate i indent).flatten ++ layout indent (best w iw f (i * iw) rest))
              = ['\n'] ++ ((List.replicate i indent).flatten ++ layout indent (best w iw f (i * iw) rest)) by simp]
        rw [nonWs_append, nonWs_append, nonWs_indent indent h, ih _ rest (by simp [stackSize, size] at hs; omega)]
        simp [nonWs, isWs]
      | cat a b =>
        simp only [best]
        rw [ih lw _ (by simp [stackSize, size] at hs ⊢; omega)]
        simp [stackTexts, texts]
      | indent d =>
        simp only [best]
        rw [ih lw _ (by simp [stackSize, size] at hs ⊢; omega)]
        simp [stackTexts, texts]
      | dedent d =>
        simp only [best]
        rw [ih lw _ (by simp [stackSize, size] at hs ⊢; omega)]
        simp [stackTexts, texts]
      | group d =>
        simp only [best]
        have hflat := ih lw ((i, flatten d) :: rest)
          (by have := size_flatten d; simp [stackSize, size] at hs ⊢; omega)
        have horig := ih lw ((i, d) :: rest) (by simp [stackSize, size] at hs ⊢; omega)
        split
        · rw [hflat]; simp [stackTexts, texts, nonWs_append, nonWs_texts_flatten]
        · rw [horig]; simp [stackTexts, texts]

/-! ### line-level facts about the post-passes -/

theorem collapseLines_nonBlank (max : Nat) : ∀ (c : Nat) (ls : List Bytes),
    (collapseLines max c ls).filter (fun l => !blank l) = ls.filter (fun l => !blank l) := by
  intro c ls
  induction ls generalizing c with
  | nil => simp [collapseLines]
  | cons l ls ih =>
    by_cases hb : blank l = true
    · by_cases hc : c + 1 > max
      · simp [collapseLines, hb, hc, ih]
      · simp [collapseLines, hb, hc, ih]
    · simp [collapseLines, hb, ih]

theorem collapseLines_id (max : Nat) : ∀ (c : Nat) (ls : List Bytes), (∀ l ∈ ls, blank l = false) →
    collapseLines max c ls = ls := by
  intro c ls
  induction ls generalizing c with
  | nil => simp [collapseLines]
  | cons l ls ih =>
    intro h
    have hl := h l (by simp)
    simp [collapseLines, hl]
    exact ih 0 (fun x hx => h x (by simp [hx]))

def stripLines (ls : List Bytes) : List Bytes := ls.map fun l => if l.all isSpaceTab then [] else l

theorem all_spaceTab_blank (l : Bytes) (h : l.all isSpaceTab = true) : blank l = true := by
  simp only [blank, List.all_eq_true] at h ⊢
  intro b hb
  have := h b hb
  simp only [isSpaceTab, Bool.or_eq_true, decide_eq_true_eq] at this
  simp only [isAsciiSpace, Bool.or_eq_true, decide_eq_true_eq]
  rcases this with h1 | h1 <;> simp [h1]

theorem stripLines_cons (l : Bytes) (ls : List Bytes) :
    stripLines (l :: ls) = (if l.all isSpaceTab then [] else l) :: stripLines ls := rfl

theorem stripLines_nonBlank (ls : List Bytes) :
    (stripLines ls).filter (fun l => !blank l) = ls.filter (fun l => !blank l) := by
  induction ls with
  | nil => rfl
  | cons l ls ih =>
    rw [stripLines_cons]
    by_cases h : l.all isSpaceTab = true
    · have hb := all_spaceTab_blank l h
      have hnil : blank ([] : Bytes) = true := rfl
      rw [if_pos h, List.filter_cons, List.filter_cons]
      simp only [hb, hnil, Bool.not_true, Bool.false_eq_true, if_false]
      exact ih
    · rw [if_neg h, List.filter_cons, List.filter_cons, ih]

theorem stripLines_id (ls : List Bytes) (h : ∀ l ∈ ls, blank l = false) : stripLines ls = ls := by
  induction ls with
  | nil => rfl
  | cons l ls ih =>
    have hl := h l (by simp)
    have hn : ¬ (l.all isSpaceTab = true) := fun hh => by
      have := all_spaceTab_blank l hh; simp [hl] at this
    rw [stripLines_cons, if_neg hn, ih (fun x hx => h x (by simp [hx]))]

end Verif.Proofs.Layout
