import Verif.Model.Str
import Verif.Spec.Str
/-! Lemmas for C19 (core only). -/
namespace Verif.Proofs.Str
open Verif.Model.Str

theorem hexVal_hexDigitChar : ∀ n : Fin 16, hexVal (hexDigitChar n.val) = some n.val := by decide

theorem byte_split (b : UInt8) : UInt8.ofNat (b.toNat / 16 * 16 + b.toNat % 16) = b := by
  have : b.toNat / 16 * 16 + b.toNat % 16 = b.toNat := by omega
  rw [this]; exact UInt8.ofNat_toNat

theorem decode_encode : ∀ bs : Bytes, decodeHex (encodeHex bs) = .ok bs
  | [] => rfl
  | b :: bs => by
    have h1 : b.toNat / 16 < 16 := by have := b.toNat_lt; omega
    have h2 : b.toNat % 16 < 16 := by omega
    have e1 := hexVal_hexDigitChar ⟨b.toNat / 16, h1⟩
    have e2 := hexVal_hexDigitChar ⟨b.toNat % 16, h2⟩
    simp only at e1 e2
    simp only [encodeHex, decodeHex, e1, e2, decode_encode bs, byte_split]

/-- `startOf` of consecutive indices: the bytes between are the clusters between -/
theorem flatten_take_drop (cs : List Bytes) : ∀ (i j : Nat), i ≤ j → j ≤ cs.length →
    (cs.flatten.drop (startOf cs i)).take (startOf cs j - startOf cs i) = ((cs.drop i).take (j - i)).flatten := by
  induction cs with
  | nil => intro i j _ hj; simp at hj; subst hj; simp [startOf]
  | cons c cs ih =>
    intro i j hij hj
    cases i with
    | zero =>
      simp only [startOf, List.take_zero, List.flatten_nil, List.length_nil, List.drop_zero, Nat.sub_zero]
      have : ((c :: cs).take j).flatten ++ ((c :: cs).drop j).flatten = (c :: cs).flatten := by
        rw [← List.flatten_append, List.take_append_drop]
      rw [← this, List.take_left']
      rfl
    | succ i =>
      cases j with
      | zero => omega
      | succ j =>
        have hj' : j ≤ cs.length := by simpa using hj
        have := ih i j (by omega) hj'
        simp only [startOf, List.take_succ_cons, List.flatten_cons, List.length_append, List.drop_succ_cons] at this ⊢
        rw [show c.length + (List.take j cs).flatten.length - (c.length + (List.take i cs).flatten.length)
              = (List.take j cs).flatten.length - (List.take i cs).flatten.length by omega]
        rw [show j + 1 - (i + 1) = j - i by omega]
        rw [← this, ← List.drop_drop, List.drop_left']
        rfl

end Verif.Proofs.Str

namespace Verif.Proofs.Str
open Verif.Model.Str
open Verif.Spec.Str (alignedPrefix)

theorem indexFrom_some (bytes needle : Bytes) : ∀ (fuel s abs : Nat),
    indexFrom bytes needle fuel s = some abs → s ≤ abs ∧ occursAt bytes needle abs = true
  | 0, _, _, h => by simp [indexFrom] at h
  | fuel + 1, s, abs, h => by
    simp only [indexFrom] at h
    split at h
    · simp at h
    · split at h
      · rename_i ho; simp at h; subst h; exact ⟨Nat.le_refl _, ho⟩
      · have := indexFrom_some bytes needle fuel (s + 1) abs h
        exact ⟨by omega, this.2⟩

theorem seekStart_some : ∀ (cs : List Bytes) (cur off ci i : Nat) (rest : List Bytes),
    seekStart cs cur off ci = some (i, rest) →
    ∃ k, k < cs.length ∧ i = ci + k ∧ rest = cs.drop k ∧ off = cur + (cs.take k).flatten.length
  | [], _, _, _, _, _, h => by simp [seekStart] at h
  | c :: cs, cur, off, ci, i, rest, h => by
    simp only [seekStart] at h
    split at h
    · rename_i he
      simp at h
      exact ⟨0, by simp, by omega, by simp [h.2], by simp [he]⟩
    · split at h
      · simp at h
      · obtain ⟨k, hk, hi, hr, ho⟩ := seekStart_some cs (cur + c.length) off (ci + 1) i rest h
        refine ⟨k + 1, by simp; omega, by omega, by simp [hr], ?_⟩
        simp [ho]; omega

theorem isEnd_true : ∀ (rest : List Bytes) (cur e : Nat), isEnd rest cur e = true →
    ∃ m, e = cur + (rest.take m).flatten.length
  | [], _, _, h => by simp [isEnd] at h
  | c :: cs, cur, e, h => by
    simp only [isEnd] at h
    split at h
    · rename_i he; exact ⟨1, by simp [he]⟩
    · split at h
      · simp at h
      · obtain ⟨m, hm⟩ := isEnd_true cs (cur + c.length) e h
        exact ⟨m + 1, by simp [hm]; omega⟩

theorem aligned_of_take : ∀ (rest : List Bytes) (m : Nat) (needle : Bytes),
    (rest.take m).flatten = needle → alignedPrefix rest needle = true
  | rest, _, [], _ => by cases rest <;> simp [alignedPrefix]
  | [], m, n :: ns, h => by simp at h
  | c :: cs, 0, n :: ns, h => by simp at h
  | c :: cs, m + 1, n :: ns, h => by
    simp only [List.take_succ_cons, List.flatten_cons] at h
    have hp : c.isPrefixOf (n :: ns) = true := by
      rw [List.isPrefixOf_iff_prefix]; exact ⟨_, h⟩
    have hd : (n :: ns).drop c.length = (cs.take m).flatten := by
      rw [← h]; exact List.drop_left' rfl
    simp only [alignedPrefix, hp, if_true, hd]
    exact aligned_of_take cs m _ rfl

theorem drop_startOf (cs : List Bytes) (k : Nat) : cs.flatten.drop (startOf cs k) = (cs.drop k).flatten := by
  have : (cs.take k).flatten ++ (cs.drop k).flatten = cs.flatten := by
    rw [← List.flatten_append, List.take_append_drop]
  rw [← this]; exact List.drop_left' rfl

theorem loop_some (cs : List Bytes) (bytes needle : Bytes) : ∀ (fuel s i abs : Nat),
    indexOfLoop cs bytes needle fuel s = some (i, abs) →
    occursAt bytes needle abs = true ∧
    ∃ rest, seekStart cs 0 abs 0 = some (i, rest) ∧ isEnd rest abs (abs + needle.length) = true
  | 0, _, _, _, h => by simp [indexOfLoop] at h
  | fuel + 1, s, i, abs, h => by
    simp only [indexOfLoop] at h
    split at h
    · simp at h
    · split at h
      · simp at h
      · rename_i a ha
        split at h
        · rename_i ci rest hs
          split at h
          · rename_i he
            simp at h
            obtain ⟨h1, h2⟩ := h
            subst h1; subst h2
            exact ⟨(indexFrom_some _ _ _ _ _ ha).2, rest, hs, he⟩
          · exact loop_some cs bytes needle fuel (s + 1) i abs h
        · exact loop_some cs bytes needle fuel (s + 1) i abs h

/-- soundness of `indexOf`: a reported match starts at the start of cluster `i` and covers a whole
number of clusters whose bytes are exactly the needle -/
theorem indexOf_sound (s : Str) (needle : Bytes) (hn : needle ≠ []) (i off : Nat)
    (h : s.indexOf needle = some (i, off)) :
    i < s.clusters.length ∧ off = startOf s.clusters i ∧ alignedPrefix (s.clusters.drop i) needle = true := by
  unfold Str.indexOf at h
  have hl : needle.length ≠ 0 := by simpa using hn
  simp only [hl, if_false] at h
  split at h
  · simp at h
  · obtain ⟨hocc, rest, hs, he⟩ := loop_some _ _ _ _ _ _ _ h
    obtain ⟨k, hk, hi, hr, ho⟩ := seekStart_some _ _ _ _ _ _ hs
    have hi' : i = k := by omega
    subst hi'
    have hoff : off = startOf s.clusters i := by simp [startOf, ho]
    refine ⟨hk, hoff, ?_⟩
    obtain ⟨m, hm⟩ := isEnd_true _ _ _ he
    subst hr
    -- the needle and the first m clusters are prefixes of the same list, of the same length
    have hpre : needle <+: (s.clusters.drop i).flatten := by
      have := hocc
      unfold occursAt Str.bytes at this
      rw [hoff, drop_startOf] at this
      exact List.isPrefixOf_iff_prefix.mp this
    have hpre2 : ((s.clusters.drop i).take m).flatten <+: (s.clusters.drop i).flatten := by
      refine ⟨((s.clusters.drop i).drop m).flatten, ?_⟩
      rw [← List.flatten_append, List.take_append_drop]
    have hlen : ((s.clusters.drop i).take m).flatten.length = needle.length := by omega
    have heq : ((s.clusters.drop i).take m).flatten = needle :=
      List.prefix_of_prefix_length_le hpre2 hpre (by omega) |>.eq_of_length hlen
    exact aligned_of_take _ m _ heq

end Verif.Proofs.Str
