import Verif.Model.Str
import Verif.Spec.Str
/-! Lemmas for C19 (core only). -/
namespace Verif.Proofs.Str
open Verif.Model.Str

theorem hexVal_hexDigitChar : ∀ n : Fin 16, hexVal (hexDigitChar n.val) = some n.val := by decide

theorem byte_split (b : UInt8) : UInt8.ofNat (b.toNat / 16 * 16 + b.toNat % 16) = b := by
  have : b.toNat / 16 * 16 + b.toNat % 16 = b.toNat := by omega
  rw [this]; exact UInt8.ofNat_toNat

theorem decode_encode : ∀ bs : Bytes, decodeHex (encodeHex bs) = .ok bs
  | [] => rfl
  | b :: bs => by
    have h1 : b.toNat / 16 < 16 := by have := b.toNat_lt; omega
    have h2 : b.toNat % 16 < 16 := by omega
    have e1 := hexVal_hexDigitChar ⟨b.toNat / 16, h1⟩
    have e2 := hexVal_hexDigitChar ⟨b.toNat % 16, h2⟩
    simp only at e1 e2
    simp only [encodeHex, decodeHex, e1, e2, decode_encode bs, byte_split]

/-- `startOf` of consecutive indices: the bytes between are the clusters between -/
theorem flatten_take_drop (cs : List Bytes) : ∀ (i j : Nat), i ≤ j → j ≤ cs.length →
    (cs.flatten.drop (startOf cs i)).take (startOf cs j - startOf cs i) = ((cs.drop i).take (j - i)).flatten := by
  induction cs with
  | nil => intro i j _ hj; simp at hj; subst hj; simp [startOf]
  | cons c cs ih =>
    intro i j hij hj
    cases i with
    | zero =>
      simp only [startOf, List.take_zero, List.flatten_nil, List.length_nil, List.drop_zero, Nat.sub_zero]
      have : ((c :: cs).take j).flatten ++ ((c :: cs).drop j).flatten = (c :: cs).flatten := by
        rw [← List.flatten_append, List.take_append_drop]
      rw [← this, List.take_left']
      rfl
    | succ i =>
      cases j with
      | zero => omega
      | succ j =>
        have hj' : j ≤ cs.length := by simpa using hj
        have := ih i j (by omega) hj'
        simp only [startOf, List.take_succ_cons, List.flatten_cons, List.length_append, List.drop_succ_cons] at this ⊢
        rw [show c.length + (List.take j cs).flatten.length - (c.length + (List.take i cs).flatten.length)
              = (List.take j cs).flatten.length - (List.take i cs).flatten.length by omega]
        rw [show j + 1 - (i + 1) = j - i by omega]
        rw [← this, ← List.drop_drop, List.drop_left']
        rfl

end Verif.Proofs.Str
