/- Helper lemmas for C09. -/
import Verif.Model.Cast
namespace Verif.Proofs.Cast
open Verif.Model.Types Verif.Model.Auth Verif.Model.Cast

theorem strip_noRef (t : Ty) (h : noRef t = true) : stripEntitlements t = t := by
  induction t <;> simp_all [noRef, stripEntitlements]

theorem apply_noRef (t : Ty) (h : noRef t = true) : ∀ u, applyTargetAuth t u = t := by
  induction t with
  | varArr a ih =>
    intro u; simp only [noRef] at h; unfold applyTargetAuth
    split
    · simp [ih h]
    · split <;> simp [ih h]
  | constArr a n ih =>
    intro u; simp only [noRef] at h; unfold applyTargetAuth
    split
    · simp [ih h]
    · split <;> simp [ih h]
  | dict k v ihk ihv =>
    intro u; simp only [noRef, Bool.and_eq_true] at h
    unfold applyTargetAuth
    split
    · simp [ihk h.1, ihv h.2]
    · split <;> simp [ihk h.1, ihv h.2]
  | opt a ih =>
    intro u; simp only [noRef] at h; unfold applyTargetAuth
    split
    · simp [ih h]
    · split <;> simp [ih h]
  | fn v p r _ ihr =>
    intro u; simp only [noRef, Bool.and_eq_true] at h
    unfold applyTargetAuth
    split
    · simp [ihr h.2]
    · split <;> simp [ihr h.2]
  | ref a t _ => simp [noRef] at h
  | cap t _ => simp [noRef] at h
  | prim n => intro u; simp [applyTargetAuth]
  | comp a b c d => intro u; simp [applyTargetAuth]
  | iface i => intro u; simp [applyTargetAuth]
  | inter i => intro u; simp [applyTargetAuth]
  | nilT => intro u; simp [applyTargetAuth]
  | consT a b _ _ => intro u; simp [applyTargetAuth]
  | capAny => intro u; simp [applyTargetAuth]
  | range a _ => intro u; simp [applyTargetAuth]

end Verif.Proofs.Cast
