/- Helper lemmas for C09. -/
import Verif.Model.Cast
namespace Verif.Proofs.Cast
open Verif.Model.Types Verif.Model.Auth Verif.Model.Cast

theorem strip_noRef (t : Ty) (h : noRef t = true) : stripEntitlements t = t := by
  induction t <;> simp_all [noRef, stripEntitlements]

theorem apply_noRef (t : Ty) (h : noRef t = true) : ∀ u, applyTargetAuth t u = t := by
  induction t with
  | varArr a ih =>
    intro u; simp only [noRef] at h; unfold applyTargetAuth
    split
    · simp [ih h]
    · split <;> simp [ih h]
  | constArr a n ih =>
    intro u; simp only [noRef] at h; unfold applyTargetAuth
    split
    · simp [ih h]
    · split <;> simp [ih h]
  | dict k v ihk ihv =>
    intro u; simp only [noRef, Bool.and_eq_true] at h
    unfold applyTargetAuth
    split
    · simp [ihk h.1, ihv h.2]
    · split <;> simp [ihk h.1, ihv h.2]
  | opt a ih =>
    intro u; simp only [noRef] at h; unfold applyTargetAuth
    split
    · simp [ih h]
    · split <;> simp [ih h]
  | fn v p r _ ihr =>
    intro u; simp only [noRef, Bool.and_eq_true] at h
    unfold applyTargetAuth
    split
    · simp [ihr h.2]
    · split <;> simp [ihr h.2]
  | ref a t _ => simp [noRef] at h
  | cap t _ => simp [noRef] at h
  | prim n => intro u; simp [applyTargetAuth]
  | comp a b c d => intro u; simp [applyTargetAuth]
  | iface i => intro u; simp [applyTargetAuth]
  | inter i => intro u; simp [applyTargetAuth]
  | nilT => intro u; simp [applyTargetAuth]
  | consT a b _ _ => intro u; simp [applyTargetAuth]
  | capAny => intro u; simp [applyTargetAuth]
  | range a _ => intro u; simp [applyTargetAuth]

theorem unbox_someN (n : Nat) (v : DVal) : unbox (someN n v) = unbox v := by
  induction n with
  | zero => rfl
  | succ k ih => simpa [someN, unbox] using ih

theorem depth_someN_atom (n : Nat) (ty : Ty) (r : String) : (someN n (.atom ty r)).depth = n := by
  induction n with
  | zero => rfl
  | succ k ih => simp [someN, DVal.depth, ih]

theorem dynType_someN (n : Nat) (v : DVal) : dynType (someN n v) = optN n (dynType v) := by
  induction n with
  | zero => rfl
  | succ k ih => simp [someN, dynType, optN, ih]

theorem unwrap_optN (n : Nat) (u : Ty) (hu : ∀ x, u ≠ .opt x) : unwrapOptionalType (optN n u) = u := by
  induction n with
  | zero => cases u <;> first | rfl | exact absurd rfl (hu _)
  | succ k ih => simpa [optN, unwrapOptionalType] using ih

theorem optDepth_optN (n : Nat) (u : Ty) (hu : ∀ x, u ≠ .opt x) : optDepth (optN n u) = n := by
  induction n with
  | zero => cases u <;> first | rfl | exact absurd rfl (hu _)
  | succ k ih => simp [optN, optDepth, ih]

/-- `BoxOptional` on a non-nil value: as many layers are added as the target has more than the value -/
theorem box_someN (ty : Ty) (r : String) (u : Ty) (hu : ∀ x, u ≠ .opt x) :
    ∀ m k j, boxOptional (someN k (.atom ty r)) (someN j (.atom ty r)) (optN m u) = someN (k + (m - j)) (.atom ty r) := by
  intro m
  induction m with
  | zero =>
    intro k j
    have : optN 0 u = u := rfl
    rw [this]
    cases u <;> first | exact absurd rfl (hu _) | (simp [boxOptional])
  | succ m ih =>
    intro k j
    cases j with
    | zero =>
      have h := ih (k + 1) 0
      simp only [someN, optN, boxOptional] at h ⊢
      rw [h]
      congr 1
      omega
    | succ j =>
      have h := ih k j
      simp only [someN, optN, boxOptional] at h ⊢
      rw [h]
      congr 1
      omega

theorem convert_someN_noRef (t : Ty) (n : Nat) (ty : Ty) (r : String) (hnr : noRef ty = true) :
    convertForTarget t (someN n (.atom ty r)) = someN n (.atom ty r) := by
  induction n with
  | zero =>
    simp only [someN, convertForTarget, strip_noRef ty hnr, apply_noRef ty hnr]
    split
    · rfl
    · split <;> rfl
  | succ k ih => simp [someN, convertForTarget, ih]

end Verif.Proofs.Cast
