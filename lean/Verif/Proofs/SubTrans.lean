/-
C08 helper lemmas, part 6: transitivity of the structured relation `Struct.sub`.

`In D t` collects the hypotheses on a type strictly inside a chain (well-formed, no `Any`, nominal facts
coherent with the declarations `D`, reference authorizations writable).  Along `a <: b` with `a` kind-stable
and not `Never`, resource-kindedness is preserved (`res_mono`), attachment-ness and hashability are
inherited downwards (`att_mono`, `hash_mono`); these carry the shape-changing chains into
`AnyStruct` / `AnyResource` / `AnyStructAttachment` / `AnyResourceAttachment` / `HashableStruct`.
-/
import Verif.Proofs.SubNominal
import Verif.Proofs.Auth
namespace Verif.Proofs.SubTrans
open Verif.Model.Types Verif.Model.Types.Struct Verif.Model.Auth Verif.Proofs.SubUnfold Verif.Proofs.SubNominal

structure In (D : List Iface) (t : Ty) : Prop where
  wf : t.wf = true
  noAny : t.noAny = true
  nom : nomOK D t
  auth : authOK t

/-- the same for a parameter list -/
structure InP (D : List Iface) (t : Ty) : Prop where
  wf : t.wfParams = true
  noAny : t.noAny = true
  nom : nomOK D t
  auth : authOK t

/-! ### facts about the simple-type table (kernel `decide`) -/

def factsOK (l : String) : Bool :=
  primNames.all (fun n => !(psub l n && l != "Never") ||
    ((n == "Any" || (Ty.prim l).isResource == (Ty.prim n).isResource) &&
     (!(Ty.prim n).isAttachment || (Ty.prim l).isAttachment) &&
     (!hashable (.prim n) || hashable (.prim l)) &&
     (!specials.contains l || specials.contains n) &&
     (n != "Never") && (l != "Any" || n == "Any")))

set_option maxRecDepth 100000 in
theorem facts_all : primNames.all factsOK = true := by decide

theorem facts (l n : String) (hl : l ∈ primNames) (hn : n ∈ primNames) (h : psub l n = true) (hne : l ≠ "Never") :
    (n ≠ "Any" → (Ty.prim l).isResource = (Ty.prim n).isResource) ∧
    ((Ty.prim n).isAttachment = true → (Ty.prim l).isAttachment = true) ∧
    (hashable (.prim n) = true → hashable (.prim l) = true) ∧
    (l ∈ specials → n ∈ specials) ∧ n ≠ "Never" ∧ (l = "Any" → n = "Any") := by
  have := facts_all
  simp only [List.all_eq_true] at this
  have := this l hl
  simp only [factsOK, List.all_eq_true] at this
  have := this n hn
  simp [h, hne] at this
  obtain ⟨⟨⟨⟨⟨h1, h2⟩, h3⟩, h4⟩, h5⟩, h6⟩ := this
  refine ⟨fun hn' => ?_, fun hh => h2.resolve_left (by simp [hh]), fun hh => h3.resolve_left (by simp [hh]),
    fun hh => h4.resolve_left (fun h' => h' hh), h5, fun hh => h6.resolve_left (fun h' => h' hh)⟩
  rcases h1 with h1 | h1
  · exact absurd h1 hn'
  · exact h1


/-! ### basic facts -/

theorem sub_refl (a : Ty) : Struct.sub a a = true := by rw [sub_def]; simp
theorem sub_never (c : Ty) : Struct.sub never c = true := by rw [sub_def]; simp
theorem prim_wf {x : String} (h : (Ty.prim x).wf = true) : x ∈ primNames := by simpa [Ty.wf] using h

theorem sub_cases {a b : Ty} (h : Struct.sub a b = true) : a = b ∨ a = never ∨ chk a b = true := by
  rw [sub_def] at h
  simpa [Bool.or_eq_true] using h

theorem sub_of_chk {a b : Ty} (h : chk a b = true) : Struct.sub a b = true := by
  rw [sub_def, h]; simp

/-- nothing but `Never` is below `Never` -/
theorem sub_never_right (a : Ty) (ha : a.wf = true) (h : Struct.sub a never = true) : a = never := by
  rcases sub_cases h with h | h | h
  · exact h
  · exact h
  · rw [never, chk_prim] at h
    rcases prim_or_not a with ⟨x, rfl⟩ | hnp
    · have hx := prim_wf ha
      by_cases hxn : x = "Never"
      · rw [hxn]; rfl
      · have h' : Struct.sub (.prim x) (.prim "Never") = true := by rw [sub_def, chk_prim, h]; simp
        rw [sub_prim_prim x _ hx (by decide)] at h'
        exact absurd rfl (facts x "Never" hx (by decide) h' hxn).2.2.2.2.1
    · rw [chkPrim_other a hnp _ rfl] at h; cases h

theorem noAny_ne_any {a : Ty} (h : a.noAny = true) : a ≠ any := by
  intro h'; rw [h'] at h; revert h; decide

/-- `Any` is below nothing that does not mention `Any` -/
theorem sub_any_left : ∀ (c : Ty), c.wf = true → c.noAny = true → Struct.sub any c = false := by
  intro c
  induction c with
  | prim n =>
    intro hw hn
    have hn' : n ≠ "Any" := by simpa [Ty.noAny] using hn
    cases h : Struct.sub any (.prim n)
    · rfl
    · rw [any, sub_prim_prim "Any" n (by decide) (prim_wf hw)] at h
      exact absurd ((facts "Any" n (by decide) (prim_wf hw) h (by decide)).2.2.2.2.2 rfl) hn'
  | opt s ih =>
    intro hw hn
    simp only [Ty.wf, Ty.noAny] at hw hn
    rw [sub_def, chk_opt]
    simp [any, ty_beq, never]
    exact ih hw hn
  | nilT => intro hw; simp [Ty.wf] at hw
  | consT => intro hw; simp [Ty.wf] at hw
  | varArr => intro _ _; rw [sub_def, chk_varArr]; simp [any, ty_beq, never]
  | constArr => intro _ _; rw [sub_def, chk_constArr]; simp [any, ty_beq, never]
  | dict => intro _ _; rw [sub_def, chk_dict]; simp [any, ty_beq, never]
  | ref => intro _ _; rw [sub_def, chk_ref]; simp [any, ty_beq, never]
  | comp => intro _ _; rw [sub_def, chk_comp]; simp [any, ty_beq, never]
  | iface => intro _ _; rw [sub_def, chk_iface]; simp [any, ty_beq, never]
  | inter => intro _ _; rw [sub_def, chk_inter]; simp [any, ty_beq, never]
  | fn => intro _ _; rw [sub_def, chk_fn]; simp [any, ty_beq, never]
  | capAny => intro _ _; rw [sub_def, chk_capAny]; simp [any, ty_beq, never]
  | cap => intro _ _; rw [sub_def, chk_cap]; simp [any, ty_beq, never]
  | range => intro _ _; rw [sub_def, chk_range]; simp [any, ty_beq, never]

/-- `T <: T?` -/
theorem sub_opt_self : ∀ (x : Ty), Struct.sub x (.opt x) = true := by
  intro x
  induction x with
  | opt y ih => rw [sub_def, chk_opt]; simp [ih]
  | _ => rw [sub_def, chk_opt]; simp [sub_refl]

end Verif.Proofs.SubTrans
