import Verif.Proofs.PrattRT
/-!
C38 — the printed form of a well-formed expression contains no two adjacent `&` tokens, so the lexer's
merging of `& &` into `&&` (`mergeAmp`) leaves it unchanged.  (`&(&x)` is the recorded finding
`ref-of-ref-prints-logical-and`; well-formedness excludes it.)
-/
set_option linter.unusedSimpArgs false
namespace Verif.Proofs.PrattAmp
open Verif.Model.Front.Syn Verif.Proofs.PrattTy Verif.Proofs.PrattRT Verif.Gen.PrecTables

def badPair (a b : Tok) : Bool := isSym "&" a && isSym "&" b && !b.sp

/-- no `&` is directly followed by an adjacent `&` -/
def ampSafe : List Tok → Bool
  | a :: b :: rest => !badPair a b && ampSafe (b :: rest)
  | _ => true

/-- the first token is an `&` not preceded by white space -/
def startsAmpU : List Tok → Bool
  | b :: _ => isSym "&" b && !b.sp
  | [] => false

theorem mergeAmp_of_safe : ∀ ts : List Tok, ampSafe ts = true → mergeAmp ts = ts
  | [], _ => rfl
  | [_], _ => rfl
  | a :: b :: rest, h => by
    simp only [ampSafe, Bool.and_eq_true, Bool.not_eq_true'] at h
    have ih := mergeAmp_of_safe (b :: rest) h.2
    have hb : (isSym "&" a && isSym "&" b && !b.sp) = false := h.1
    rw [mergeAmp, hb]
    simp only [Bool.false_eq_true, if_false, ih]

theorem ampSafe_cons (a : Tok) (ys : List Tok) (h : ampSafe ys = true) (hb : isSym "&" a = false ∨ startsAmpU ys = false) :
    ampSafe (a :: ys) = true := by
  cases ys with
  | nil => rfl
  | cons b rest =>
    simp only [ampSafe, Bool.and_eq_true, Bool.not_eq_true', h, and_true, badPair]
    rcases hb with hb | hb
    · simp [hb]
    · simp only [startsAmpU] at hb
      cases h1 : isSym "&" a <;> cases h2 : isSym "&" b <;> cases h3 : b.sp <;> simp_all

theorem ampSafe_tail (a : Tok) (ys : List Tok) (h : ampSafe (a :: ys) = true) : ampSafe ys = true := by
  cases ys with
  | nil => rfl
  | cons b rest => simp only [ampSafe, Bool.and_eq_true] at h; exact h.2

theorem ampSafe_append (xs ys : List Tok) (hx : ampSafe xs = true) (hy : ampSafe ys = true)
    (hb : startsAmpU ys = false) : ampSafe (xs ++ ys) = true := by
  induction xs with
  | nil => exact hy
  | cons a xs ih =>
    cases xs with
    | nil => exact ampSafe_cons a ys hy (Or.inr hb)
    | cons a' xs' =>
      simp only [ampSafe, Bool.and_eq_true] at hx
      have := ih hx.2
      simp only [List.cons_append, ampSafe, Bool.and_eq_true]
      exact ⟨hx.1, this⟩

theorem startsAmpU_append (xs ys : List Tok) (h : xs ≠ []) : startsAmpU (xs ++ ys) = startsAmpU xs := by
  cases xs with
  | nil => exact absurd rfl h
  | cons a xs => rfl

theorem ampSafe_spaced (xs : List Tok) (h : ampSafe xs = true) : ampSafe (spaced xs) = true := by
  match xs, h with
  | [], _ => rfl
  | [_], _ => rfl
  | a :: b :: rest, h =>
    simp only [ampSafe, Bool.and_eq_true, spaced] at h ⊢
    refine ⟨?_, h.2⟩
    have := h.1
    simp only [badPair, isSym] at this ⊢
    exact this

theorem startsAmpU_spaced (xs : List Tok) : startsAmpU (spaced xs) = false := by
  cases xs with
  | nil => rfl
  | cons a xs => simp [spaced, startsAmpU]

theorem ampSafe_of_noAmp (xs : List Tok) (h : ∀ x ∈ xs, isSym "&" x = false) : ampSafe xs = true := by
  induction xs with
  | nil => rfl
  | cons a xs ih =>
    exact ampSafe_cons a xs (ih (fun x hx => h x (by simp [hx]))) (Or.inl (h a (by simp)))

/-! ## types -/

theorem mergeQ_ne_nil : ∀ ts : List Tok, ts ≠ [] → mergeQ ts ≠ []
  | [], h => absurd rfl h
  | [_], _ => by simp [mergeQ]
  | a :: b :: rest, _ => by rw [mergeQ]; split <;> simp

/-- merging `? ?` keeps the list free of `& &` pairs, and an `&` at the head was at the head before -/
theorem mergeQ_safe : ∀ (n : Nat) (ts : List Tok), ts.length ≤ n → ampSafe ts = true →
    ampSafe (mergeQ ts) = true ∧ (startsAmpU (mergeQ ts) = true → startsAmpU ts = true) := by
  intro n
  induction n with
  | zero =>
    intro ts hn _
    have : ts = [] := List.eq_nil_of_length_eq_zero (by omega)
    subst this; exact ⟨rfl, id⟩
  | succ n ih =>
    intro ts hn hs
    match ts, hn, hs with
    | [], _, _ => exact ⟨rfl, id⟩
    | [a], _, _ => exact ⟨rfl, id⟩
    | a :: b :: rest, hn, hs =>
      rw [mergeQ]
      split
      · next hm =>
        have hrest : ampSafe rest = true := ampSafe_tail b rest (ampSafe_tail a (b :: rest) hs)
        have ih' := ih rest (by simp at hn; omega) hrest
        refine ⟨ampSafe_cons _ _ ih'.1 (Or.inl (by simp [isSym])), ?_⟩
        intro h; simp [startsAmpU, isSym] at h
      · have ih' := ih (b :: rest) (by simp at hn ⊢; omega) (ampSafe_tail a _ hs)
        refine ⟨?_, fun h => h⟩
        by_cases ha : isSym "&" a = true
        · refine ampSafe_cons a _ ih'.1 (Or.inr ?_)
          cases hst : startsAmpU (mergeQ (b :: rest)) with
          | false => rfl
          | true =>
            have hb := ih'.2 hst
            simp only [ampSafe, Bool.and_eq_true, Bool.not_eq_true', badPair] at hs
            simp only [startsAmpU, Bool.and_eq_true, Bool.not_eq_true'] at hb
            have := hs.1
            simp [ha, hb.1, hb.2] at this
        · exact ampSafe_cons a _ ih'.1 (Or.inl (by simpa using ha))

theorem dots_noAmp (p : List String) : ∀ x ∈ dots p, isSym "&" x = false := by
  induction p with
  | nil => simp [dots]
  | cons a r ih =>
    intro x hx
    simp only [dots, List.mem_cons] at hx
    rcases hx with rfl | rfl | hx
    · decide
    · simp [isSym]
    · exact ih x hx

theorem nominalToks_noAmp (p : List String) : ∀ x ∈ nominalToks p, isSym "&" x = false := by
  cases p with
  | nil => simp [nominalToks]
  | cons n p' =>
    rw [nominalToks_cons]; intro x hx
    rcases List.mem_cons.1 hx with rfl | hx
    · simp [isSym]
    · exact dots_noAmp p' x hx

theorem ampSafe_parens (X : List Tok) (h : ampSafe X = true) : ampSafe (parens X) = true := by
  unfold parens
  exact ampSafe_cons _ _ (ampSafe_append X [sym ")"] h rfl rfl) (Or.inl (by decide))

theorem ampSafe_printTy (t : Ty) : ampSafe (printTy t) = true := by
  induction t with
  | nominal p => exact ampSafe_of_noAmp _ (nominalToks_noAmp p)
  | optional t' ih => rw [printTy_optional]; exact ampSafe_append _ _ ih rfl rfl
  | reference t' ih =>
    cases t' with
    | nominal p =>
      rw [printTy_ref_nominal]
      refine ampSafe_cons _ _ (ampSafe_of_noAmp _ (nominalToks_noAmp p)) (Or.inr ?_)
      cases p with
      | nil => rfl
      | cons n p' => rw [nominalToks_cons]; simp [startsAmpU, isSym]
    | optional t'' => rw [printTy_ref_optional]; exact ampSafe_cons _ _ (ampSafe_parens _ ih) (Or.inr rfl)
    | reference t'' => rw [printTy_ref_ref]; exact ampSafe_cons _ _ (ampSafe_parens _ ih) (Or.inr rfl)

theorem ampSafe_printAnn (res : Bool) (t : Ty) : ampSafe (printAnn res t) = true := by
  have := (mergeQ_safe _ (printTy t) (Nat.le_refl _) (ampSafe_printTy t)).1
  unfold printAnn
  cases res
  · simpa using this
  · simp only [if_true]; exact ampSafe_cons _ _ this (Or.inl (by decide))

/-! ## expressions -/

/-- the invariant: no `& &` pair, and a printed form starting with an adjacent `&` belongs to a reference
    expression or to an expression of precedence below the unary prefix level -/
def A (e : Expr) : Prop :=
  ampSafe (printExpr e) = true ∧ (startsAmpU (printExpr e) = true → e.isRef = true ∨ e.prec < 14)

theorem isRef_prec (c : Expr) (h : c.isRef = true) : c.prec = 14 := by
  cases c <;> simp [Expr.isRef] at h
  exact precUnaryPrefix_eq

theorem A_doc (p : Bool) (c : Expr) (hc : A c) :
    ampSafe (doc p c) = true ∧ (startsAmpU (doc p c) = true → p = false ∧ (c.isRef = true ∨ c.prec < 14)) := by
  cases p
  · exact ⟨hc.1, fun h => ⟨rfl, hc.2 h⟩⟩
  · exact ⟨ampSafe_parens _ hc.1, fun h => by simp [doc, parens, startsAmpU, isSym, sym] at h⟩

/-- a sub-document that is bare only at precedence ≥ 15 does not start with an adjacent `&` -/
theorem doc_noAmpStart (p : Bool) (c : Expr) (hc : A c) (hp : p = false → 15 ≤ c.prec) :
    startsAmpU (doc p c) = false := by
  cases hst : startsAmpU (doc p c) with
  | false => rfl
  | true =>
    obtain ⟨h1, h2⟩ := (A_doc p c hc).2 hst
    have := hp h1
    rcases h2 with h2 | h2
    · have := isRef_prec c h2; omega
    · omega

theorem pP_false_ge (sub parent : Nat) (h : pP sub parent = false) (hpar : parent ≠ 16) : parent ≤ sub := by
  simp [pP, precAccess_eq] at h
  by_cases hle : parent ≤ sub
  · exact hle
  · exact absurd (h (by omega)).1 hpar

theorem pP_false_access (sub : Nat) (h : pP sub precAccess = false) : 15 ≤ sub := by
  simp [pP, precAccess_eq, precUnaryPostfix_eq] at h
  by_cases hle : 16 ≤ sub
  · omega
  · have := h (by omega); omega

theorem pM_false_ge (c : Expr) (h : pM c = false) : 15 ≤ c.prec := by
  cases c <;> first | exact pP_false_access _ h | simp [pM] at h

/-- argument lists: no `& &` pair -/
def AArgs (args : Expr) : Prop := ampSafe (printArgs args) = true

theorem wf_A_both (e : Expr) : (e.wf = true → A e) ∧ (e.wfArgs = true → AArgs e) := by
  induction e with
  | ident n =>
    refine ⟨fun hwf => ?_, fun h => by simp [Expr.wfArgs] at h⟩
    exact ⟨rfl, fun h => by simp [printExpr, startsAmpU, isSym] at h⟩
  | int neg l =>
    refine ⟨fun hwf => ?_, fun h => by simp [Expr.wfArgs] at h⟩
    cases neg <;> exact ⟨by simp [printExpr, ampSafe, badPair, isSym, sym], fun h => by simp [printExpr, startsAmpU, isSym, sym] at h⟩
  | fix neg l =>
    refine ⟨fun hwf => ?_, fun h => by simp [Expr.wfArgs] at h⟩
    cases neg <;> exact ⟨by simp [printExpr, ampSafe, badPair, isSym, sym], fun h => by simp [printExpr, startsAmpU, isSym, sym] at h⟩
  | bool v =>
    refine ⟨fun hwf => ?_, fun h => by simp [Expr.wfArgs] at h⟩
    exact ⟨rfl, fun h => by simp [printExpr, startsAmpU, isSym] at h⟩
  | nil =>
    refine ⟨fun hwf => ?_, fun h => by simp [Expr.wfArgs] at h⟩
    exact ⟨rfl, fun h => by simp [printExpr, startsAmpU, isSym] at h⟩
  | void =>
    refine ⟨fun hwf => ?_, fun h => by simp [Expr.wfArgs] at h⟩
    exact ⟨by decide, fun h => by simp [printExpr, startsAmpU, isSym, sym] at h⟩
  | unary op c ih =>
    refine ⟨fun hwf => ?_, fun h => by simp [Expr.wfArgs] at h⟩
    simp only [Expr.wf, Bool.and_eq_true] at hwf
    have hd := A_doc (pP c.prec op.prec) c (ih.1 hwf.1)
    have hno : isSym "&" (sym op.sym) = false := by cases op <;> decide
    rw [A, print_unary]
    refine ⟨ampSafe_cons _ _ ?_ (Or.inl hno), fun h => ?_⟩
    · split
      · exact ampSafe_spaced _ hd.1
      · exact hd.1
    · simp only [startsAmpU, hno, Bool.false_and] at h; exact absurd h (by simp)
  | ref c ih =>
    refine ⟨fun hwf => ?_, fun h => by simp [Expr.wfArgs] at h⟩
    simp only [Expr.wf, Bool.and_eq_true, Bool.not_eq_true'] at hwf
    have hd := A_doc (pP c.prec precUnaryPrefix) c (ih.1 hwf.1)
    rw [A, print_ref]
    refine ⟨ampSafe_cons _ _ hd.1 (Or.inr ?_), fun _ => Or.inl rfl⟩
    cases hst : startsAmpU (doc (pP c.prec precUnaryPrefix) c) with
    | false => rfl
    | true =>
      obtain ⟨h1, h2⟩ := hd.2 hst
      have := pP_false_ge _ _ h1 (by rw [precUnaryPrefix_eq]; omega)
      rw [precUnaryPrefix_eq] at this
      rcases h2 with h2 | h2
      · rw [hwf.2] at h2; exact absurd h2 (by simp)
      · omega
  | force c ih =>
    refine ⟨fun hwf => ?_, fun h => by simp [Expr.wfArgs] at h⟩
    have hc := ih.1 (by simpa [Expr.wf] using hwf)
    have hd := A_doc (pP c.prec precUnaryPostfix) c hc
    have hns := doc_noAmpStart _ c hc (fun h => by
      have := pP_false_ge c.prec precUnaryPostfix h (by rw [precUnaryPostfix_eq]; omega)
      rwa [precUnaryPostfix_eq] at this)
    rw [A, print_force]
    refine ⟨ampSafe_append _ _ hd.1 rfl rfl, fun h => ?_⟩
    rw [startsAmpU_append _ _ (doc_ne_nil _ _), hns] at h; exact absurd h (by simp)
  | binary op l r ihl ihr =>
    refine ⟨fun hwf => ?_, fun h => by simp [Expr.wfArgs] at h⟩
    simp only [Expr.wf, Bool.and_eq_true] at hwf
    have hdl := A_doc (pL op l) l (ihl.1 hwf.1.1)
    have hdr := A_doc (pR op r) r (ihr.1 hwf.1.2)
    have hops : ampSafe (opToks op) = true ∧ startsAmpU (opToks op) = false ∧ opToks op ≠ [] := by
      unfold opToks; split
      · exact ⟨by decide, by decide, by simp⟩
      · exact ⟨rfl, by simp [startsAmpU, symSp], by simp⟩
    rw [A, print_binary, List.append_assoc]
    refine ⟨ampSafe_append _ _ hdl.1 (ampSafe_append _ _ hops.1 (ampSafe_spaced _ hdr.1) (startsAmpU_spaced _)) ?_,
      fun _ => Or.inr ?_⟩
    · rw [startsAmpU_append _ _ hops.2.2]; exact hops.2.1
    · rw [prec_binary]; have := prec_range op; omega
  | cast op c res t ih =>
    refine ⟨fun hwf => ?_, fun h => by simp [Expr.wfArgs] at h⟩
    simp only [Expr.wf, Bool.and_eq_true] at hwf
    have hd := A_doc (pP c.prec precCasting) c (ih.1 hwf.1)
    rw [A, print_cast]
    refine ⟨ampSafe_append _ _ hd.1 (ampSafe_cons _ _ (ampSafe_spaced _ (ampSafe_printAnn res t))
      (Or.inr (startsAmpU_spaced _))) ?_, fun _ => Or.inr (by rw [prec_cast]; omega)⟩
    cases op <;> simp [startsAmpU, symSp]
  | cond c t e ihc iht ihe =>
    refine ⟨fun hwf => ?_, fun h => by simp [Expr.wfArgs] at h⟩
    simp only [Expr.wf, Bool.and_eq_true] at hwf
    have hdc := A_doc (decide (precTernary ≥ c.prec)) c (ihc.1 hwf.1.1)
    have hdt := A_doc (decide (precTernary ≥ t.prec)) t (iht.1 hwf.1.2)
    have hde := A_doc (decide (precTernary > e.prec)) e (ihe.1 hwf.2)
    rw [A, print_cond]
    simp only [List.append_assoc, List.cons_append]
    refine ⟨ampSafe_append _ _ hdc.1 (ampSafe_cons _ _ (ampSafe_append _ _ (ampSafe_spaced _ hdt.1)
      (ampSafe_cons _ _ (ampSafe_spaced _ hde.1) (Or.inr (startsAmpU_spaced _))) (by simp [startsAmpU, symSp]))
      (Or.inr ?_)) (by simp [startsAmpU, symSp]), fun _ => Or.inr (by rw [prec_cond]; omega)⟩
    rw [startsAmpU_append _ _ (by
      cases hd : doc (decide (precTernary ≥ t.prec)) t with
      | nil => exact absurd hd (doc_ne_nil _ _)
      | cons a X => simp [spaced])]
    exact startsAmpU_spaced _
  | member o c n ih =>
    refine ⟨fun hwf => ?_, fun h => by simp [Expr.wfArgs] at h⟩
    have hc := ih.1 (by simpa [Expr.wf] using hwf)
    have hd := A_doc (pM c) c hc
    have hns := doc_noAmpStart _ c hc (pM_false_ge c)
    rw [A, print_member]
    refine ⟨ampSafe_append _ _ hd.1 (by cases o <;> simp [ampSafe, badPair, isSym, sym]) (by cases o <;> simp [startsAmpU, isSym, sym]),
      fun h => ?_⟩
    rw [startsAmpU_append _ _ (doc_ne_nil _ _), hns] at h; exact absurd h (by simp)
  | index c i ihc ihi =>
    refine ⟨fun hwf => ?_, fun h => by simp [Expr.wfArgs] at h⟩
    simp only [Expr.wf, Bool.and_eq_true] at hwf
    have hc := ihc.1 hwf.1
    have hd := A_doc (pP c.prec precAccess) c hc
    have hns := doc_noAmpStart _ c hc (pP_false_access c.prec)
    rw [A, print_index]
    simp only [List.append_assoc, List.cons_append]
    refine ⟨ampSafe_append _ _ hd.1 (ampSafe_cons _ _ (ampSafe_append _ _ (ihi.1 hwf.2).1 rfl rfl) (Or.inl (by decide)))
      (by simp [startsAmpU, isSym, sym]), fun h => ?_⟩
    rw [startsAmpU_append _ _ (doc_ne_nil _ _), hns] at h; exact absurd h (by simp)
  | invoke c args ihc iha =>
    refine ⟨fun hwf => ?_, fun h => by simp [Expr.wfArgs] at h⟩
    simp only [Expr.wf, Bool.and_eq_true] at hwf
    have hc := ihc.1 hwf.1
    have hd := A_doc (pP c.prec precAccess) c hc
    have hns := doc_noAmpStart _ c hc (pP_false_access c.prec)
    have hargs : ampSafe (printArgs args) = true := iha.2 hwf.2
    rw [A, print_invoke]
    simp only [List.append_assoc, List.cons_append]
    refine ⟨ampSafe_append _ _ hd.1 (ampSafe_cons _ _ (ampSafe_append _ _ hargs rfl rfl) (Or.inl (by decide)))
      (by simp [startsAmpU, isSym, sym]), fun h => ?_⟩
    rw [startsAmpU_append _ _ (doc_ne_nil _ _), hns] at h; exact absurd h (by simp)
  | argsNil => exact ⟨fun hwf => by simp [Expr.wf] at hwf, fun _ => rfl⟩
  | argsCons label a rest iha ihr =>
    refine ⟨fun hwf => by simp [Expr.wf] at hwf, fun h => ?_⟩
    simp only [Expr.wfArgs, Bool.and_eq_true] at h
    have ha := (iha.1 h.1.2).1
    have hr : ampSafe (printArgs rest) = true := ihr.2 h.2
    show ampSafe (printArgs (.argsCons label a rest)) = true
    rw [printArgs_cons]
    refine ampSafe_append _ _ ?_ ?_ ?_
    · split
      · exact ha
      · exact ampSafe_cons _ _ (ampSafe_cons _ _ (ampSafe_spaced _ ha) (Or.inl (by decide))) (Or.inl (by simp [isSym]))
    · split
      · exact ampSafe_cons _ _ (ampSafe_spaced _ hr) (Or.inl (by decide))
      · rfl
    · split <;> simp [startsAmpU, isSym, sym]

theorem wf_A (e : Expr) (hwf : e.wf = true) : A e := (wf_A_both e).1 hwf

/-- the lexer's `& &` merging leaves the printed form of a well-formed expression unchanged -/
theorem printE_eq (e : Expr) (hwf : e.wf = true) : printE e = printExpr e :=
  mergeAmp_of_safe _ (wf_A e hwf).1

/-- **expression round trip** on the ports -/
theorem expr_roundtrip (e : Expr) (hwf : e.wf = true) : parseAll (printE e) = some e := by
  rw [printE_eq e hwf]
  have hpos : 0 < topLbp e := by have := topLbp_ge e; simp only [lvl] at this; omega
  have := parse_print e hwf 0 [] 1 (e, []) (4 * (printExpr e).length + 4) hpos (by simp [exprLbp]) rfl
    (loop_stop 0 0 _ _ (by simp [exprLbp])) (by omega)
  rw [List.append_nil] at this
  unfold parseAll
  rw [this]

end Verif.Proofs.PrattAmp
