import Verif.Model.ExecStore
import Verif.Proofs.Exec
/-! Lemmas about the executor with a register map (C24 `commit_complete`). -/
namespace Verif.Proofs.ExecStore
open Verif.Model.Exec Verif.Model.ExecStore

variable {K V : Type} [DecidableEq K]

theorem applyWrites_filter (L : Ledger K V) (k k' : K) (h : k' ≠ k) (ws : List (K × Option V)) :
    applyWrites L (ws.filter (fun e => e.1 ≠ k)) k' = applyWrites L ws k' := by
  induction ws with
  | nil => rfl
  | cons w ws ih =>
    obtain ⟨kw, vw⟩ := w
    by_cases hk : kw = k
    · subst hk
      simp only [List.filter, ne_eq, not_true_eq_false, decide_false, applyWrites, update, h, if_false]
      exact ih
    · simp only [List.filter, ne_eq, hk, not_false_eq_true, decide_true, applyWrites, update]
      split
      · rfl
      · exact ih

/-- the commit's writes bring exactly the dirty entries (latest value per key) into the ledger -/
theorem applyWrites_commitWrites (L : Ledger K V) (d : List (K × Option V)) (k : K) :
    applyWrites L (commitWrites d) k = (match lookup d k with | some v => v | none => L k) := by
  induction d with
  | nil => rfl
  | cons w ws ih =>
    obtain ⟨kw, vw⟩ := w
    simp only [commitWrites, applyWrites, update, lookup]
    by_cases hk : k = kw
    · simp [hk]
    · simp only [hk, if_false]
      rw [applyWrites_filter L kw k hk]
      exact ih

/-- the commit writes every dirty key exactly once -/
theorem commitWrites_nodup (d : List (K × Option V)) : ((commitWrites d).map (·.1)).Nodup := by
  induction d with
  | nil => simp [commitWrites]
  | cons w ws ih =>
    obtain ⟨kw, vw⟩ := w
    simp only [commitWrites, List.map_cons, List.nodup_cons]
    constructor
    · intro hmem
      rw [List.mem_map] at hmem
      obtain ⟨e, he, hk⟩ := hmem
      simp [List.mem_filter] at he
      exact he.2 hk
    · have : ((commitWrites ws).filter (fun e => e.1 ≠ kw)).map (·.1) =
          ((commitWrites ws).map (·.1)).filter (fun k => k ≠ kw) := by
        rw [List.filter_map]; rfl
      rw [this]
      exact ih.filter _

/-- every entry of the read cache is the ledger's value (the cache is filled from the ledger, and the
ledger does not change while the execution runs) -/
def CacheOk (L : Ledger K V) (m : Mem K V) : Prop := ∀ k v, lookup m.cache k = some v → v = L k

theorem cacheOk_empty (L : Ledger K V) : CacheOk L ({} : Mem K V) := by
  intro k v h; simp [lookup] at h

theorem view_of_cacheOk (L : Ledger K V) (m : Mem K V) (h : CacheOk L m) (k : K) :
    m.view L k = (match lookup m.deltas k with | some v => v | none => L k) := by
  unfold Mem.view
  cases hd : lookup m.deltas k with
  | some v => rfl
  | none =>
    simp only []
    cases hc : lookup m.cache k with
    | some v => exact h k v hc
    | none => rfl

theorem opStep_get (L : Ledger K V) (m : Mem K V) (h : CacheOk L m) (k : K) :
    (opStep L m (.get k)).2 = some (m.view L k) ∧ CacheOk L (opStep L m (.get k)).1 ∧
    (opStep L m (.get k)).1.deltas = m.deltas := by
  refine ⟨rfl, ?_, ?_⟩
  · simp only [opStep]
    split
    · intro k' v' hl
      simp only [lookup] at hl
      split at hl
      · rename_i hk; cases hl; rw [hk]
      · exact h k' v' hl
    · exact h
  · simp only [opStep]
    split <;> rfl

theorem opStep_set (L : Ledger K V) (m : Mem K V) (h : CacheOk L m) (k : K) (v : Option V) :
    (opStep L m (.set k v)).2 = none ∧ CacheOk L (opStep L m (.set k v)).1 ∧
    (opStep L m (.set k v)).1.deltas = (k, v) :: m.deltas := ⟨rfl, h, rfl⟩

/-- the program reads, through deltas / cache / ledger, exactly what it would read of one in-memory
state; and its view at the end is that state's end -/
theorem runOps_ideal (L : Ledger K V) (os : List (Op K V)) : ∀ (m : Mem K V), CacheOk L m →
    (runOps L m os).2 = (idealOps (m.view L) os).2 ∧
    (runOps L m os).1.view L = (idealOps (m.view L) os).1 ∧
    CacheOk L (runOps L m os).1 := by
  induction os with
  | nil => intro m h; exact ⟨rfl, rfl, h⟩
  | cons o os ih =>
    intro m h
    cases o with
    | get k =>
      obtain ⟨h1, h2, h3⟩ := opStep_get L m h k
      have hv : (opStep L m (.get k)).1.view L = m.view L := by
        funext k'
        rw [view_of_cacheOk L _ h2, view_of_cacheOk L m h, h3]
      have := ih _ h2
      rw [hv] at this
      simp only [runOps, idealOps]
      rcases hs : opStep L m (.get k) with ⟨m1, r⟩
      rw [hs] at h1 this
      simp only [] at h1 this
      subst h1
      exact ⟨by simp only []; rw [this.1], this.2.1, this.2.2⟩
    | set k v =>
      obtain ⟨h1, h2, h3⟩ := opStep_set L m h k v
      have hv : (opStep L m (.set k v)).1.view L = update (m.view L) k v := by
        funext k'
        rw [view_of_cacheOk L _ h2, h3]
        simp only [lookup, update]
        by_cases hk : k' = k
        · simp [hk]
        · simp only [hk, if_false]
          exact (view_of_cacheOk L m h k').symm
      have := ih _ h2
      rw [hv] at this
      simp only [runOps, idealOps]
      rcases hs : opStep L m (.set k v) with ⟨m1, r⟩
      rw [hs] at h1 this
      simp only [] at h1 this
      subst h1
      exact this

theorem view_empty (L : Ledger K V) : ({} : Mem K V).view L = L := by
  funext k; simp [Mem.view, lookup]

theorem execStep_eq_idealStep (L : Ledger K V) (s : Step K V) : execStep L s = idealStep L s := by
  obtain ⟨h1, h2, h3⟩ := runOps_ideal L s.prog {} (cacheOk_empty L)
  rw [view_empty] at h1 h2
  unfold execStep idealStep
  rcases hr : runOps L {} s.prog with ⟨m, rs⟩
  rcases hi : idealOps L s.prog with ⟨M1, rs'⟩
  rw [hr, hi] at h1 h2
  rw [hr] at h3
  simp only [] at h1 h2 h3 ⊢
  subst h1
  cases s.commits with
  | false => rfl
  | true =>
    simp only [if_true]
    congr 1
    rw [← h2]
    funext k
    rw [applyWrites_commitWrites, view_of_cacheOk L m h3]

theorem execHistory_eq_idealHistory (ss : List (Step K V)) : ∀ (L : Ledger K V),
    execHistory L ss = idealHistory L ss := by
  induction ss with
  | nil => intro L; rfl
  | cons s ss ih =>
    intro L
    simp only [execHistory, idealHistory, execStep_eq_idealStep, ih]

end Verif.Proofs.ExecStore
