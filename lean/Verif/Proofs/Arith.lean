/-
Proof automation for C11 / C12 (and reusable for C13): tactics that unfold the *generated*
definitions of `Verif.Gen.NumGo` and the spec of `Verif.Spec.Arith`, split every `if`, and close
the leaves with `omega`.  Nothing here depends on the shape of a particular generated definition.
-/
import Verif.Gen.NumGo
import Verif.Spec.Arith
namespace Verif.Proofs.Arith
open Verif.Model.Num Verif.Spec.Arith

/-- unfold spec + wrap functions everywhere, evaluate the numerals -/
macro "num_unfold" : tactic => `(tactic|
  (simp only [inRange, specChecked, specNeg, specWord, classify, exact, Op.divides, wrapS, wrapU,
      Verif.Gen.NumConsts.sema_Int128TypeMinIntBig, Verif.Gen.NumConsts.sema_Int128TypeMaxIntBig,
      Verif.Gen.NumConsts.sema_Int256TypeMinIntBig, Verif.Gen.NumConsts.sema_Int256TypeMaxIntBig,
      Verif.Gen.NumConsts.sema_UInt128TypeMinIntBig, Verif.Gen.NumConsts.sema_UInt128TypeMaxIntBig,
      Verif.Gen.NumConsts.sema_UInt256TypeMinIntBig, Verif.Gen.NumConsts.sema_UInt256TypeMaxIntBig,
      Verif.Gen.NumConsts.sema_Word128TypeMaxIntBig, Verif.Gen.NumConsts.sema_Word128TypeMaxIntPlusOneBig,
      Verif.Gen.NumConsts.sema_Word256TypeMaxIntBig, Verif.Gen.NumConsts.sema_Word256TypeMaxIntPlusOneBig,
      Verif.Gen.NumConsts.sema_UIntTypeMin] at *;
   try simp only [Int.reducePow, Nat.reducePow, Nat.reduceSub, Int.reduceSub, Int.reduceNeg, Int.reduceAdd, Int.reduceMul,
     Int.reduceMod, Int.reduceTDiv, Int.reduceTMod, Int.reduceEq, Int.reduceNe, Int.reduceLT, Int.reduceLE, Int.reduceGT,
     Int.reduceGE, true_and, false_and, and_true, and_false, if_true, if_false, ite_true, ite_false, ↓reduceIte,
     Bool.false_eq_true, reduceCtorEq, ne_eq, gt_iff_lt, ge_iff_le, not_true_eq_false, not_false_eq_true] at *))

/-- split every `if`; each leaf is an equation between `Except` values under linear hypotheses -/
macro "num_finish" : tactic => `(tactic|
  all_goals ((repeat' split) <;>
   (first | rfl | omega | (simp only [Except.ok.injEq, Except.error.injEq, reduceCtorEq]; omega))))

end Verif.Proofs.Arith
