import Verif.Model.Lang2.Eval
/- Environment lemmas for the L2 evaluator (used by Properties/C02, C04). -/
namespace Verif.Model.Lang2

theorem lookup_update (env env' : Env) (x : String) (v : Val) (h : env.update x v = some env') :
    env'.lookup x = some v := by
  induction env generalizing env' with
  | nil => simp [Env.update] at h
  | cons q rest ih =>
    obtain ⟨y, w⟩ := q
    simp only [Env.update] at h
    split at h
    · next hy => cases h; simp [Env.lookup, List.find?]
    · next hy =>
      simp only [Option.map_eq_some_iff] at h
      obtain ⟨e, he, rfl⟩ := h
      have := ih e he
      simp only [Env.lookup, List.find?] at this ⊢
      have hy' : ((y, w).1 == x) = false := by simpa using hy
      simp only [hy']
      exact this

theorem update_of_lookup (env : Env) (x : String) (v w : Val) (h : env.lookup x = some v) :
    ∃ env', env.update x w = some env' := by
  induction env with
  | nil => simp [Env.lookup] at h
  | cons q rest ih =>
    obtain ⟨y, u⟩ := q
    simp only [Env.update]
    by_cases hy : (y == x) = true
    · simp [hy]
    · simp only [hy, Bool.false_eq_true, if_false]
      have : Env.lookup rest x = some v := by
        simp only [Env.lookup, List.find?] at h ⊢
        have hy' : ((y, u).1 == x) = false := by simpa using hy
        simpa [hy'] using h
      obtain ⟨e, he⟩ := ih this
      exact ⟨(y, u) :: e, by simp [he]⟩

end Verif.Model.Lang2
