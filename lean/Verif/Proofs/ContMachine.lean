/-
Lemmas about the machine of the `cont` stream (Verif.Model.Cont): keys stay distinct along every step.
-/
import Verif.Proofs.Containers
import Verif.Model.Cont
namespace Verif.Proofs.ContMachine
open Verif.Spec.Containers Verif.Proofs.Containers Verif.Model.Cont

/-- the dictionary of a container is well-formed -/
def CWF : Cont → Prop
  | .arr _ => True
  | .dict d => DWF d

theorem step_wf (c c' : Cont) (op : Op) (o : Obs) (hw : CWF c) (h : stepT c op = .ok (c', o)) : CWF c' := by
  cases c with
  | arr xs =>
    simp only [stepT, step] at h
    cases hx : arrStep xs op with
    | none => simp [hx] at h; rw [← h.1]; trivial
    | some r =>
      cases r with
      | error e => simp [hx, Except.map] at h
      | ok p => simp [hx, Except.map] at h; rw [← h.1]; trivial
  | dict d =>
    simp only [stepT, step] at h
    cases op with
    | dInsert k v => simp [dictStep] at h; obtain ⟨rfl, _⟩ := h; exact dwf_put d _ _ hw
    | dRemove k => simp [dictStep] at h; obtain ⟨rfl, _⟩ := h; exact dwf_erase d _ hw
    | dWrite k v =>
      simp [dictStep] at h; obtain ⟨rfl, _⟩ := h
      cases v with
      | none => exact dwf_erase d _ hw
      | some v => exact dwf_put d _ _ hw
    | _ => simp [dictStep] at h <;> (obtain ⟨rfl, _⟩ := h; exact hw)


theorem execOps_wf (c c' : Cont) (ops : List Op) (logs : List Obs) (hw : CWF c)
    (h : execOps stepT c ops = (.ok c', logs)) : CWF c' := by
  induction ops generalizing c logs with
  | nil => simp [execOps] at h; exact h.1 ▸ hw
  | cons op rest ih =>
    simp only [execOps] at h
    split at h
    · simp at h
    · rename_i c1 o hs
      have h1 : (execOps stepT c1 rest).1 = .ok c' := by simpa using congrArg Prod.fst h
      exact ih c1 (execOps stepT c1 rest).2 (step_wf c c1 op o hw hs) (Prod.ext h1 rfl)

theorem runTx_wf (c : Cont) (tx : List Op) (hw : CWF c) : CWF (runTx stepT c tx).1 := by
  unfold runTx
  split
  · rename_i s' logs h; exact execOps_wf c s' tx logs hw h
  · exact hw

theorem runHist_wf (c : Cont) (h : List (List Op)) (hw : CWF c) : CWF (runHist stepT c h).1 := by
  induction h generalizing c with
  | nil => exact hw
  | cons tx rest ih => exact ih _ (runTx_wf c tx hw)

end Verif.Proofs.ContMachine
