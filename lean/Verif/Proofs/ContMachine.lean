/-
Lemmas about the machine of the `cont` stream (Verif.Model.Cont): keys stay distinct along every step.
-/
import Verif.Proofs.Containers
import Verif.Model.Cont
namespace Verif.Proofs.ContMachine
open Verif.Spec.Containers Verif.Proofs.Containers Verif.Model.Cont

/-- the dictionary of a container is well-formed -/
def CWF : Cont → Prop
  | .arr _ => True
  | .dict d => DWF d

theorem applyMutT_wf (c c' : Cont) (m : Op) (hw : CWF c) (h : applyMutT c m = .ok c') : CWF c' := by
  unfold applyMutT applyMut at h
  split at h
  · simp at h; exact h ▸ hw
  · cases c with
    | arr xs =>
      cases hx : arrStep xs m with
      | none => simp [hx] at h; exact h ▸ hw
      | some r =>
        cases r with
        | error e => simp [hx, Except.map] at h
        | ok p => simp [hx, Except.map] at h; rw [← h]; trivial
    | dict d =>
      cases m with
      | dInsert k v => simp [dictStep] at h; subst h; exact dwf_put d _ _ hw
      | dRemove k => simp [dictStep] at h; subst h; exact dwf_erase d _ hw
      | dWrite k v =>
        simp [dictStep] at h; subst h
        cases v with
        | none => exact dwf_erase d _ hw
        | some v => exact dwf_put d _ _ hw
      | _ => simp [dictStep] at h <;> (subst h; exact hw)

theorem iterStep_wf (c c' : Cont) (nest : Nat) (w : When) (m : Op) (o : Obs) (hw : CWF c)
    (h : iterStep c nest w m = some (.ok (c', o))) : CWF c' := by
  unfold iterStep at h
  split at h
  · cases h
  · simp only [Option.some.injEq] at h
    cases hr : runProg applyMutT size 0 c (iterProg nest w m) with
    | error e => simp [hr, Except.map] at h
    | ok c1 =>
      simp [hr, Except.map] at h
      rw [← h.1]
      exact runProg_invariant applyMutT size CWF (fun c m c' => applyMutT_wf c c' m) _ 0 c c1 hw hr

theorem step_wf (c c' : Cont) (op : Op) (o : Obs) (hw : CWF c) (h : stepT c op = .ok (c', o)) : CWF c' := by
  by_cases hi : ∃ outer nest w m, op = .iter outer nest w m
  · obtain ⟨outer, nest, w, m, rfl⟩ := hi
    have hs : step c (.iter outer nest w m) = iterStep c nest w m := by cases c <;> rfl
    simp only [stepT, hs] at h
    cases hr : iterStep c nest w m with
    | none => simp [hr] at h; exact h.1 ▸ hw
    | some r =>
      cases r with
      | error e => simp [hr] at h
      | ok p =>
        simp [hr] at h
        exact iterStep_wf c c' nest w m o hw (by rw [hr, h])
  cases c with
  | arr xs =>
    have hs : step (.arr xs) op = (arrStep xs op).map fun r => r.map fun p => (.arr p.1, p.2) := by
      cases op <;> first | rfl | exact absurd ⟨_, _, _, _, rfl⟩ hi
    simp only [stepT, hs] at h
    cases hx : arrStep xs op with
    | none => simp [hx] at h; rw [← h.1]; trivial
    | some r =>
      cases r with
      | error e => simp [hx, Except.map] at h
      | ok p => simp [hx, Except.map] at h; rw [← h.1]; trivial
  | dict d =>
    have hs : step (.dict d) op = (dictStep d op).map fun p => .ok (.dict p.1, p.2) := by
      cases op <;> first | rfl | exact absurd ⟨_, _, _, _, rfl⟩ hi
    simp only [stepT, hs] at h
    cases op with
    | iter outer nest w m => exact absurd ⟨_, _, _, _, rfl⟩ hi
    | dInsert k v => simp [dictStep] at h; obtain ⟨rfl, _⟩ := h; exact dwf_put d _ _ hw
    | dRemove k => simp [dictStep] at h; obtain ⟨rfl, _⟩ := h; exact dwf_erase d _ hw
    | dWrite k v =>
      simp [dictStep] at h; obtain ⟨rfl, _⟩ := h
      cases v with
      | none => exact dwf_erase d _ hw
      | some v => exact dwf_put d _ _ hw
    | _ => simp [dictStep] at h <;> (obtain ⟨rfl, _⟩ := h; exact hw)


theorem execOps_wf (c c' : Cont) (ops : List Op) (logs : List Obs) (hw : CWF c)
    (h : execOps stepT c ops = (.ok c', logs)) : CWF c' := by
  induction ops generalizing c logs with
  | nil => simp [execOps] at h; exact h.1 ▸ hw
  | cons op rest ih =>
    simp only [execOps] at h
    split at h
    · simp at h
    · rename_i c1 o hs
      have h1 : (execOps stepT c1 rest).1 = .ok c' := by simpa using congrArg Prod.fst h
      exact ih c1 (execOps stepT c1 rest).2 (step_wf c c1 op o hw hs) (Prod.ext h1 rfl)

theorem runTx_wf (c : Cont) (tx : List Op) (hw : CWF c) : CWF (runTx stepT c tx).1 := by
  unfold runTx
  split
  · rename_i s' logs h; exact execOps_wf c s' tx logs hw h
  · exact hw

theorem runHist_wf (c : Cont) (h : List (List Op)) (hw : CWF c) : CWF (runHist stepT c h).1 := by
  induction h generalizing c with
  | nil => exact hw
  | cons tx rest ih => exact ih _ (runTx_wf c tx hw)

end Verif.Proofs.ContMachine
