import Verif.Proofs.Update
/-! C27: from one compared pair of declarations to the whole tree and to stored values (core Lean only).

* the by-identifier maps (`OldMap`) and the three loops of `checkNestedDeclarations`;
* `pathCompat_of_ok`: an accepted comparison of the roots makes every pair of declarations with the same
  path compatible (induction over the path);
* `iface_live`: an interface nested in the old root is still declared in the new root;
* `conforms_pres`, `hasType_pres`: transitive conformance and typing of stored values are preserved
  (induction over the conformance derivation / over the value). -/
namespace Verif.Proofs.Update
open Verif.Model.Update Verif.Spec.Update

/-! ## `OldMap` -/

theorem find_map_replace (k' k : String) (v : Decl) :
    ∀ (m : OldMap), OldMap.find (m.map fun (p : String × Decl) => if p.1 == k' then (p.1, v) else (p.1, p.2)) k =
      if k' = k then (if m.any (·.1 == k') then some v else none) else m.find k
  | [] => by simp [OldMap.find]
  | (a, b) :: rest => by
    have ih := find_map_replace k' k v rest
    by_cases hak' : a = k'
    · subst hak'
      by_cases hk : a = k
      · subst hk
        simp [OldMap.find]
      · have hk2 : (a == k) = false := by simpa using hk
        simp only [List.map_cons, beq_self_eq_true, if_true, OldMap.find, hk2, Bool.false_eq_true, if_false, hk]
        simpa [hk] using ih
    · have hak2 : (a == k') = false := by simpa using hak'
      simp only [List.map_cons, hak2, Bool.false_eq_true, if_false, OldMap.find, List.any_cons, Bool.false_or]
      by_cases hk : a = k
      · subst hk
        have : ¬ k' = a := fun h => hak' h.symm
        simp [this]
      · have hk2 : (a == k) = false := by simpa using hk
        simp only [hk2, Bool.false_eq_true, if_false]
        exact ih

theorem find_append_single (k' k : String) (v : Decl) :
    ∀ (m : OldMap), OldMap.find (m ++ [(k', v)]) k =
      match m.find k with
      | some d => some d
      | none => if k' = k then some v else none
  | [] => by simp [OldMap.find]
  | (a, b) :: rest => by
    have ih := find_append_single k' k v rest
    by_cases hk : a = k
    · subst hk; simp [OldMap.find]
    · have hk2 : (a == k) = false := by simpa using hk
      simp only [List.cons_append, OldMap.find, hk2, Bool.false_eq_true, if_false]
      exact ih

theorem find_none_of_any_false (k : String) :
    ∀ (m : OldMap), m.any (·.1 == k) = false → m.find k = none
  | [], _ => by simp [OldMap.find]
  | (a, b) :: rest, h => by
    simp only [List.any_cons, Bool.or_eq_false_iff] at h
    simp only [OldMap.find, h.1, Bool.false_eq_true, if_false]
    exact find_none_of_any_false k rest h.2

theorem find_insert (m : OldMap) (k' k : String) (v : Decl) :
    (m.insert k' v).find k = if k' = k then some v else m.find k := by
  unfold OldMap.insert
  by_cases hany : m.any (·.1 == k') = true
  · simp only [hany, if_true]
    have := find_map_replace k' k v m
    simp only [hany, if_true] at this
    exact this
  · have hany' : m.any (·.1 == k') = false := Bool.eq_false_iff.2 hany
    simp only [hany', Bool.false_eq_true, if_false]
    rw [find_append_single]
    by_cases hk : k' = k
    · subst hk
      simp [find_none_of_any_false k' m hany']
    · simp only [hk, if_false]
      cases m.find k <;> rfl

theorem find_erase (k x : String) : ∀ (m : OldMap), (m.erase k).find x = if k = x then none else m.find x
  | [] => by simp [OldMap.erase, OldMap.find]
  | (a, b) :: rest => by
    have ih := find_erase k x rest
    unfold OldMap.erase at ih ⊢
    by_cases hak : a = k
    · subst hak
      simp only [List.filter_cons, bne_self_eq_false, Bool.false_eq_true, if_false]
      rw [ih]
      by_cases hx : a = x
      · simp [hx]
      · have : (a == x) = false := by simpa using hx
        simp [OldMap.find, this, hx]
    · have hak2 : (a != k) = true := by simpa using hak
      simp only [List.filter_cons, hak2, if_true, OldMap.find]
      by_cases hx : a = x
      · subst hx
        have : ¬ k = a := fun h => hak h.symm
        simp [this]
      · have : (a == x) = false := by simpa using hx
        simp only [this, Bool.false_eq_true, if_false]
        exact ih

theorem find_mem (x : String) : ∀ (m : OldMap) (d : Decl), m.find x = some d → (x, d) ∈ m
  | [], d, h => by simp [OldMap.find] at h
  | (a, b) :: rest, d, h => by
    simp only [OldMap.find] at h
    split at h
    · rename_i hax
      simp at hax h
      subst hax h
      exact List.mem_cons_self
    · exact List.mem_cons_of_mem _ (find_mem x rest d h)

/-- the by-identifier map of a list of declarations: the last declaration with the identifier wins -/
theorem find_foldl_insert (k : String) :
    ∀ (l : List Decl) (m : OldMap),
      (l.foldl (fun m x => m.insert x.name x) m).find k =
        match l.reverse.find? (fun x => x.name == k) with
        | some d => some d
        | none => m.find k
  | [], m => by simp
  | x :: l, m => by
    rw [List.foldl_cons, find_foldl_insert k l (m.insert x.name x), find_insert]
    simp only [List.reverse_cons, List.find?_append]
    cases hl : l.reverse.find? (fun x => x.name == k) with
    | some d => simp
    | none =>
      by_cases hx : x.name = k
      · simp [hx]
      · have : (x.name == k) = false := by simpa using hx
        simp [hx, this]

theorem child_some {d c : Decl} {x : String} (h : child d x = some c) :
    c ∈ d.composites ++ d.attachments ++ d.interfaces ∧ c.name = x := by
  unfold child nestedNominalTypeDecls at h
  rw [find_foldl_insert] at h
  split at h
  · rename_i d' hd'
    simp at h
    subst h
    have := List.find?_some hd'
    have hm := List.mem_of_find?_eq_some hd'
    rw [List.mem_reverse] at hm
    exact ⟨hm, by simpa using this⟩
  · simp [OldMap.find] at h

theorem child_none {d : Decl} {x : String} (h : child d x = none) :
    ∀ c ∈ d.composites ++ d.attachments ++ d.interfaces, c.name ≠ x := by
  unfold child nestedNominalTypeDecls at h
  rw [find_foldl_insert] at h
  split at h
  · simp at h
  · rename_i hnone
    intro c hc
    have := List.find?_eq_none.1 hnone c (List.mem_reverse.2 hc)
    simpa using this

/-! ## the loops over the new nested declarations -/

theorem checkNews_cons_none (c : Cmp) (removed : List String) (n : Decl) (ns : List Decl) (m : OldMap)
    (h : m.find n.name = none) :
    checkNews c removed (n :: ns) m =
      ((if removed.contains n.name then [Err.useOfRemovedType] else []) ++ (checkNews c removed ns m).1,
        (checkNews c removed ns m).2) := by
  rw [checkNews]
  simp [h]

theorem checkNews_cons_some (c : Cmp) (removed : List String) (n : Decl) (ns : List Decl) (m : OldMap) (o : Decl)
    (h : m.find n.name = some o) :
    checkNews c removed (n :: ns) m =
      ((if removed.contains n.name then [Err.useOfRemovedType] else []) ++ checkDecl c o n ++
          (checkNews c removed ns (m.erase n.name)).1,
        (checkNews c removed ns (m.erase n.name)).2) := by
  rw [checkNews]
  simp [h]

theorem checkNews_find_other (c : Cmp) (removed : List String) (x : String) :
    ∀ (ns : List Decl) (m : OldMap), (∀ n ∈ ns, n.name ≠ x) → (checkNews c removed ns m).2.find x = m.find x
  | [], m, _ => by simp [checkNews]
  | n :: ns, m, h => by
    have hn : n.name ≠ x := h n List.mem_cons_self
    have hrest : ∀ n' ∈ ns, n'.name ≠ x := fun n' hn' => h n' (List.mem_cons_of_mem _ hn')
    cases hf : m.find n.name with
    | none =>
      rw [checkNews_cons_none c removed n ns m hf]
      exact checkNews_find_other c removed x ns m hrest
    | some o =>
      rw [checkNews_cons_some c removed n ns m o hf]
      simp only
      rw [checkNews_find_other c removed x ns _ hrest, find_erase]
      simp [hn]

theorem checkNews_pair (c : Cmp) (removed : List String) :
    ∀ (ns : List Decl) (m : OldMap), (checkNews c removed ns m).1 = [] → (ns.map (·.name)).Nodup →
      ∀ nc ∈ ns, ∀ oc, m.find nc.name = some oc → checkDecl c oc nc = []
  | [], _, _, _ => by simp
  | n :: ns, m, h, hnd => by
    simp only [List.map_cons, List.nodup_cons] at hnd
    intro nc hnc oc hoc
    cases hf : m.find n.name with
    | none =>
      rw [checkNews_cons_none c removed n ns m hf] at h
      simp only [List.append_eq_nil_iff] at h
      rcases List.mem_cons.1 hnc with heq | hmem
      · subst heq; rw [hf] at hoc; simp at hoc
      · exact checkNews_pair c removed ns m h.2 hnd.2 nc hmem oc hoc
    | some o =>
      rw [checkNews_cons_some c removed n ns m o hf] at h
      simp only [List.append_eq_nil_iff] at h
      rcases List.mem_cons.1 hnc with heq | hmem
      · subst heq; rw [hf] at hoc; simp at hoc; subst hoc; exact h.1.2
      · have hne : n.name ≠ nc.name := by
          intro he
          exact hnd.1 (by rw [he]; exact List.mem_map_of_mem hmem)
        refine checkNews_pair c removed ns (m.erase n.name) h.2 hnd.2 nc hmem oc ?_
        rw [find_erase]; simp [hne, hoc]

/-- the pair (old child `x`, new child `x`) has been compared -/
theorem child_pair_ok (c : Cmp) (o n : Decl) (h : DeclOk c o n)
    (hnd : ((n.composites ++ n.attachments ++ n.interfaces).map (·.name)).Nodup)
    (x : String) (oc nc : Decl) (ho : child o x = some oc) (hn : child n x = some nc) :
    checkDecl c oc nc = [] := by
  obtain ⟨hmem, hname⟩ := child_some hn
  have ho' : (nestedNominalTypeDecls o).find nc.name = some oc := by rw [hname]; exact ho
  simp only [List.map_append, List.append_assoc] at hnd
  rw [List.nodup_append] at hnd
  obtain ⟨hnd1, hnd23, hdis1⟩ := hnd
  rw [List.nodup_append] at hnd23
  obtain ⟨hnd2, hnd3, hdis2⟩ := hnd23
  have h1 := h.loop1
  have h2 := h.loop2
  have h3 := h.loop3
  simp only [loops] at h1 h2 h3
  simp only [List.append_assoc, List.mem_append] at hmem
  rcases hmem with hm | hm | hm
  · exact checkNews_pair c _ _ _ h1 hnd1 nc hm oc ho'
  · refine checkNews_pair c _ _ _ h2 hnd2 nc hm oc ?_
    rw [checkNews_find_other]
    · exact ho'
    · intro n' hn' he
      exact hdis1 _ (List.mem_map_of_mem hn') _ (List.mem_append_left _ (List.mem_map_of_mem hm)) he
  · refine checkNews_pair c _ _ _ h3 hnd3 nc hm oc ?_
    rw [checkNews_find_other, checkNews_find_other]
    · exact ho'
    · intro n' hn' he
      exact hdis1 _ (List.mem_map_of_mem hn') _ (List.mem_append_right _ (List.mem_map_of_mem hm)) he
    · intro n' hn' he
      exact hdis2 _ (List.mem_map_of_mem hn') _ (List.mem_map_of_mem hm) he

/-- an old nested declaration without a new counterpart is among the missing ones -/
theorem child_missing (c : Cmp) (o n : Decl) (x : String) (oc : Decl) (ho : child o x = some oc)
    (hn : child n x = none) : oc ∈ (loops c o n).2.2.2.map (·.2) := by
  have hno := child_none hn
  simp only [List.append_assoc, List.mem_append] at hno
  have hfind : (loops c o n).2.2.2.find x = some oc := by
    simp only [loops]
    rw [checkNews_find_other, checkNews_find_other, checkNews_find_other]
    · exact ho
    · intro n' hn'; exact hno n' (Or.inl hn')
    · intro n' hn'; exact hno n' (Or.inr (Or.inl hn'))
    · intro n' hn'; exact hno n' (Or.inr (Or.inr hn'))
  exact List.mem_map.2 ⟨(x, oc), find_mem x _ _ hfind, rfl⟩

theorem shapeOf_interface (k : Kind) : shapeOf k = .interface ↔ k.isInterface = true := by
  cases k <;> simp [shapeOf, Kind.isInterface]

/-- interfaces are never removed -/
theorem iface_live (c : Cmp) (o n : Decl) (h : DeclOk c o n) (x : String) (j : Decl)
    (ho : child o x = some j) (hj : j.kind.isInterface = true) : ∃ j', child n x = some j' := by
  cases hn : child n x with
  | some j' => exact ⟨j', rfl⟩
  | none =>
    have hm := h.missing j (child_missing c o n x j ho hn)
    unfold checkRemoval at hm
    split at hm
    · rename_i hc
      simp [hj] at hc
    · simp at hm

/-! ## every pair of declarations with the same path is compatible -/

theorem lookupPath_cons {d : Decl} {x : String} {p : List String} {r : Decl}
    (h : lookupPath d (x :: p) = some r) : ∃ c, child d x = some c ∧ lookupPath c p = some r := by
  simp only [lookupPath] at h
  split at h
  · rename_i c hc; exact ⟨c, hc, h⟩
  · simp at h

theorem lookupPath_child {d c : Decl} {x : String} {p : List String} (h : child d x = some c) :
    lookupPath d (x :: p) = lookupPath c p := by
  simp [lookupPath, h]

theorem noDup_child {n nc : Decl} {x : String} (hnd : NoDupNames n) (h : child n x = some nc) : NoDupNames nc := by
  intro p d hp
  exact hnd (x :: p) d (by rw [lookupPath_child h]; exact hp)

theorem pathOk_of_ok (c : Cmp) :
    ∀ (p : List String) (o n : Decl), checkDecl c o n = [] → NoDupNames n →
      ∀ od nd, lookupPath o p = some od → lookupPath n p = some nd → checkDecl c od nd = []
  | [], o, n, h, _, od, nd, ho, hn => by
    simp [lookupPath] at ho hn
    subst ho hn
    exact h
  | x :: p, o, n, h, hnd, od, nd, ho, hn => by
    obtain ⟨oc, hoc, ho'⟩ := lookupPath_cons ho
    obtain ⟨nc, hnc, hn'⟩ := lookupPath_cons hn
    have hpair := child_pair_ok c o n (checkDecl_nil c o n h) (hnd [] n rfl) x oc nc hoc hnc
    exact pathOk_of_ok c p oc nc hpair (noDup_child hnd hnc) od nd ho' hn'

/-- a declaration disappears only under a `#removedType` pragma -/
theorem live_of_notRemoved (c : Cmp) :
    ∀ (p : List String) (o n : Decl), checkDecl c o n = [] → NoDupNames n →
      ∀ od, lookupPath o p = some od → NotRemoved n p → ∃ nd, lookupPath n p = some nd
  | [], _, n, _, _, _, _, _ => ⟨n, rfl⟩
  | x :: p, o, n, h, hnd, od, ho, hnr => by
    obtain ⟨oc, hoc, ho'⟩ := lookupPath_cons ho
    obtain ⟨hx, hrest⟩ := hnr
    cases hn : child n x with
    | none =>
      exfalso
      have hm := (checkDecl_nil c o n h).missing oc (child_missing c o n x oc hoc hn)
      unfold checkRemoval at hm
      split at hm
      · rename_i hc
        simp only [Bool.and_eq_true, List.contains_iff_mem] at hc
        rw [(child_some hoc).2] at hc
        exact hx hc.1
      · simp at hm
    | some nc =>
      have hpair := child_pair_ok c o n (checkDecl_nil c o n h) (hnd [] n rfl) x oc nc hoc hn
      obtain ⟨nd, hnd'⟩ := live_of_notRemoved c p oc nc hpair (noDup_child hnd hn) od ho' (hrest nc hn)
      exact ⟨nd, by rw [lookupPath_child hn]; exact hnd'⟩

theorem pathCompat_of_ok (c : Cmp) (R : String) (hroot : c.root = some R)
    (himp : ∀ x, lookupLast x c.expImports = lookupLast x c.foundImports)
    (o n : Decl) (h : checkDecl c o n = []) (hnd : NoDupNames n) :
    PathCompat ⟨R, c.expImports⟩ ⟨R, c.foundImports⟩ o n := by
  intro p od nd ho hn
  exact nodeCompat_of_ok c R hroot himp od nd (checkDecl_nil c od nd (pathOk_of_ok c p o n h hnd od nd ho hn))

/-! ## conformance and typing of stored values -/

section pres
variable (eo en : Env)
variable (hpc : PathCompat eo.scope en.scope eo.root en.root)
variable (hlive : ∀ x j, child eo.root x = some j → j.kind.isInterface = true → ∃ j', child en.root x = some j')

include hpc hlive in
theorem conforms_pres {od : Decl} {i : CName} (hc : Conforms eo od i) :
    ∀ nd, NodeCompat eo.scope en.scope od nd → od.shape ≠ .attachment → Conforms en nd i := by
  induction hc with
  | direct c hmem hcan =>
    intro nd hnc hs
    obtain ⟨nc, hncm, heq⟩ := hnc.confs hs c hmem
    exact .direct nc hncm (by rw [← heq]; exact hcan)
  | via c x j hmem hcan hchild hshape _ ih =>
    intro nd hnc hs
    obtain ⟨nc, hncm, heq⟩ := hnc.confs hs c hmem
    have hji : j.kind.isInterface = true := (shapeOf_interface _).1 hshape
    obtain ⟨j', hj'⟩ := hlive x j hchild hji
    have hcompat : NodeCompat eo.scope en.scope j j' :=
      hpc [x] j j' (by simp [lookupPath, hchild]) (by simp [lookupPath, hj'])
    have hshape' : j'.shape = .interface := by
      unfold Decl.shape at hshape ⊢
      rw [← hcompat.kind]; exact hshape
    exact .via nc x j' hncm (by rw [← heq]; exact hcan) hj' hshape'
      (ih j' hcompat (by rw [hshape]; simp))

theorem valueKind_congr {a b : Kind} (h : a = b) : valueKind a = valueKind b := by rw [h]

include hpc hlive in
set_option linter.unusedSectionVars false in
mutual
theorem hasType_pres : ∀ (v : Val) (t : CTy), hasType eo v t → pathsLive en.root v → hasType en v t
  | .prim n, t, h, _ => by simpa [hasType] using h
  | .extv l x rest, t, h, _ => by simpa [hasType] using h
  | .none_, t, h, _ => by simpa [hasType] using h
  | .some_ v, t, h, hl => by
    simp only [hasType] at h ⊢
    obtain ⟨u, hu, hv⟩ := h
    exact ⟨u, hu, hasType_pres v u hv (by simpa [pathsLive] using hl)⟩
  | .arr vs, t, h, hl => by
    simp only [hasType] at h ⊢
    simp only [pathsLive] at hl
    rcases h with ⟨u, hu, hv⟩ | ⟨u, n, b, hu, hn, hv⟩
    · exact Or.inl ⟨u, hu, allTyped_pres vs u hv hl⟩
    · exact Or.inr ⟨u, n, b, hu, hn, allTyped_pres vs u hv hl⟩
  | .dict ks vs, t, h, hl => by
    simp only [hasType] at h ⊢
    simp only [pathsLive] at hl
    obtain ⟨k, u, ht, hk, hv⟩ := h
    exact ⟨k, u, ht, allTyped_pres ks k hk hl.1, allTyped_pres vs u hv hl.2⟩
  | .comp p names vals, t, h, hl => by
    simp only [hasType] at h ⊢
    simp only [pathsLive] at hl
    obtain ⟨od, hod, hvk, hfields, ht⟩ := h
    obtain ⟨hlp, hlv⟩ := hl
    cases hnd : lookupPath en.root p with
    | none => exact absurd hnd hlp
    | some nd =>
      have hnc : NodeCompat eo.scope en.scope od nd := hpc p od nd hod hnd
      refine ⟨nd, rfl, ?_, ?_, ?_⟩
      · rw [← hnc.kind]; exact hvk
      · intro nf hnf
        obtain ⟨of, hof, hname, hden⟩ := hnc.fields nf hnf
        have := hfields of hof
        rw [hname, hden] at this
        exact fieldTyped_pres names vals nf.name _ this hlv
      · rcases ht with ht | ⟨is, ht, hshape, hall⟩
        · exact Or.inl ht
        · refine Or.inr ⟨is, ht, ?_, ?_⟩
          · unfold Decl.shape at hshape ⊢
            rw [← hnc.kind]; exact hshape
          · intro i hi
            exact conforms_pres eo en hpc hlive (hall i hi) nd hnc (by rw [hshape]; simp)
  | .enumv p raw, t, h, hl => by
    simp only [hasType] at h ⊢
    simp only [pathsLive] at hl
    obtain ⟨od, hod, hk, hraw, ht⟩ := h
    cases hnd : lookupPath en.root p with
    | none => exact absurd hnd hl
    | some nd =>
      have hnc : NodeCompat eo.scope en.scope od nd := hpc p od nd hod hnd
      refine ⟨nd, rfl, by rw [← hnc.kind]; exact hk, ?_, ht⟩
      exact Nat.lt_of_lt_of_le hraw hnc.cases.length_le
theorem fieldTyped_pres : ∀ (ns : List String) (vs : List Val) (name : String) (t : CTy),
    fieldTyped eo ns vs name t → allLive en.root vs → fieldTyped en ns vs name t
  | [], _, _, _, h, _ => by simp [fieldTyped] at h
  | _ :: _, [], _, _, h, _ => by simp [fieldTyped] at h
  | n :: ns, v :: vs, name, t, h, hl => by
    simp only [fieldTyped] at h ⊢
    simp only [allLive] at hl
    rcases h with ⟨hn, hv⟩ | h
    · exact Or.inl ⟨hn, hasType_pres v t hv hl.1⟩
    · exact Or.inr (fieldTyped_pres ns vs name t h hl.2)
theorem allTyped_pres : ∀ (vs : List Val) (t : CTy), allTyped eo vs t → allLive en.root vs → allTyped en vs t
  | [], _, _, _ => by simp [allTyped]
  | v :: vs, t, h, hl => by
    simp only [allTyped] at h ⊢
    simp only [allLive] at hl
    exact ⟨hasType_pres v t h.1 hl.1, allTyped_pres vs t h.2 hl.2⟩
end

end pres

end Verif.Proofs.Update
