import Verif.Proofs.LangVM4
/-
Forward simulation (C34), fourth stage: invocations.  Built-ins `log` / `assert`, calls of compiled
user functions (a new activation, arguments bound to parameter slots, `return`), in programs whose
invocations stand in statement position (value of a declaration / assignment / return, expression
statement, condition) with call-free arguments.
-/
namespace Verif.Model.Lang.VM
open Verif.Model.Lang

/-! ### built-ins -/

/-- the (name, arguments) combinations handled as built-ins, by the evaluator (`callNamed`) and by the
machine (`invoke`) alike -/
def isBuiltin : String → List Value → Bool
  | "log", [_] => true
  | "panic", [_] => true
  | "assert", [.bool true] => true
  | "assert", [.bool true, _] => true
  | "assert", [.bool false] => true
  | "assert", [.bool false, _] => true
  | _, _ => false

theorem callNamed_user (p : Program) (n : Nat) (f : String) (vs : List Value) (h : isBuiltin f vs = false)
    (fd : FunDecl) (hf : p.findFun f = some fd) :
    callNamed p (n + 1) f vs = (callBody p n fd.params fd.ret fd.body vs none >>= fun r => pure r.1) := by
  rw [callNamed]
  simp only [hf]
  all_goals first | rfl | (intros; subst_vars; simp [isBuiltin] at h)

theorem callNamed_unbound (p : Program) (n : Nat) (f : String) (vs : List Value) (h : isBuiltin f vs = false)
    (hf : p.findFun f = none) (hs : p.findStruct f = none) :
    callNamed p (n + 1) f vs = M.internalErr .unbound := by
  rw [callNamed]
  simp only [hf, hs]
  all_goals first | rfl | (intros; subst_vars; simp [isBuiltin] at h)

theorem take_rev (vs stk : List Value) : (vs.reverse ++ stk).take vs.length = vs.reverse := by
  rw [← List.length_reverse]; exact List.take_left' rfl

theorem drop_rev (vs stk : List Value) : (vs.reverse ++ stk).drop vs.length = stk := by
  rw [← List.length_reverse]; exact List.drop_left' rfl

theorem step_invoke_user (tbl : Table) (code : List Instr) (pc : Nat) (f : String) (vs stk : List Value)
    (locals : Locals) (hi : code[pc]? = some (.invoke f vs.length)) (h : isBuiltin f vs = false) :
    VM.step tbl ⟨code, pc, vs.reverse ++ stk, locals⟩ =
      (match tbl.find f with
       | some cf => .call ⟨code, pc + 1, stk, locals⟩ cf vs
       | none => .internalErr .unbound) := by
  simp only [VM.step, hi]
  rw [if_neg (by simp)]
  simp only [take_rev, drop_rev, List.reverse_reverse]
  cases tbl.find f <;> (split <;> first | (simp [isBuiltin] at h; done) | rfl)

/-! ### call-free argument lists -/

theorem sim_args (p : Program) (tbl : Table) : ∀ (es : List Expr) (n : Nat) (s : State) (vs : List Value)
    (s1 : State) (tr : List String), evalArgs p n es s = ⟨.ok vs, s1, tr⟩ → es.all noCall = true →
    ∀ (sc : Scope) (c : List Instr), compileExpr.compileArgs sc es = some c →
    ∀ (locals : Locals), AgreeS sc s.env locals →
    ∀ (code pre post : List Instr) (stk : List Value), code = pre ++ c ++ post →
      s = s1 ∧ tr = [] ∧ vs.length = es.length ∧
      Reach tbl code locals (pre.length, stk) (pre.length + c.length, vs.reverse ++ stk)
  | [], n, s, vs, s1, tr, h, _, sc, c, hc, locals, _, code, pre, post, stk, hcode => by
    cases n with
    | zero => simp [evalArgs, M.outOfFuel] at h
    | succ n =>
      simp only [compileExpr.compileArgs, Option.some.injEq] at hc; subst hc
      have : (⟨.ok [], s, []⟩ : Res (List Value)) = ⟨.ok vs, s1, tr⟩ := h
      simp only [Res.mk.injEq, Outcome.ok.injEq] at this
      obtain ⟨h1, h2, h3⟩ := this; subst h1 h2 h3
      exact ⟨rfl, rfl, rfl, by simpa using Reach.refl _⟩
  | e :: es, n, s, vs, s1, tr, h, hn, sc, c, hc, locals, hag, code, pre, post, stk, hcode => by
    simp only [List.all_cons, Bool.and_eq_true] at hn
    cases n with
    | zero => simp [evalArgs, M.outOfFuel] at h
    | succ n =>
      cases he : compileExpr sc e with
      | none => simp [compileExpr.compileArgs, he] at hc
      | some ce =>
        cases hes : compileExpr.compileArgs sc es with
        | none => simp [compileExpr.compileArgs, he, hes] at hc
        | some ces =>
          simp only [compileExpr.compileArgs, he, hes, Option.bind_eq_bind, Option.bind_some, Option.some.injEq] at hc
          subst hc
          simp only [evalArgs] at h
          obtain ⟨v, sa, tra, trb, hev, hk, htr⟩ := bind_eq_ok h
          obtain ⟨hv, hsa, hta⟩ := eval_eq_pure hn.1 hev
          subst hsa hta
          obtain ⟨vs', sb, trc, trd, hevs, hk2, htr2⟩ := bind_eq_ok hk
          have r1 := sim_expr_ok p tbl n e s v hn.1 hv sc ce he locals hag.agree code pre (ces ++ post) stk
            (by simp [hcode])
          obtain ⟨hsb, htc, hlen, r2⟩ := sim_args p tbl es n s vs' sb trc hevs hn.2 sc ces hes locals hag code
            (pre ++ ce) post (v :: stk) (by simp [hcode])
          subst hsb htc
          have : (⟨.ok (v :: vs'), s, []⟩ : Res (List Value)) = ⟨.ok vs, s1, trd⟩ := hk2
          simp only [Res.mk.injEq, Outcome.ok.injEq] at this
          obtain ⟨h1, h2, h3⟩ := this; subst h1 h2 h3
          refine ⟨rfl, by simp [htr, htr2], by simp [hlen], ?_⟩
          simp only [List.length_append] at r2
          have := r1.trans r2
          simpa [Nat.add_assoc] using this

/-! ### `break` / `continue` do not escape a body without them outside loops -/

mutual
/-- no `break` / `continue` outside a loop -/
def noBCS : Stmt → Bool
  | .ite _ t e => noBCB t && (match e with | none => true | some eb => noBCB eb)
  | .break_ | .continue_ => false
  | _ => true
def noBCB : List Stmt → Bool
  | [] => true
  | s :: r => noBCS s && noBCB r
end

def isBC : Flow → Bool
  | .brk | .cont => true
  | _ => false

theorem flows_noBC (p : Program) : ∀ n,
    (∀ retTy st s flow s' tr, exec p n retTy st s = ⟨.ok flow, s', tr⟩ → noBCS st = true → isBC flow = false) ∧
    (∀ retTy ss s flow s' tr, execBlock p n retTy ss s = ⟨.ok flow, s', tr⟩ → noBCB ss = true → isBC flow = false) ∧
    (∀ retTy ss s flow s' tr, execStmts p n retTy ss s = ⟨.ok flow, s', tr⟩ → noBCB ss = true → isBC flow = false)
  | 0 => by
    refine ⟨?_, ?_, ?_⟩
    · intro retTy st s flow s' tr h; simp [exec, M.outOfFuel] at h
    · intro retTy ss s flow s' tr h; simp [execBlock, M.outOfFuel] at h
    · intro retTy ss s flow s' tr h; simp [execStmts, M.outOfFuel] at h
  | n + 1 => by
    obtain ⟨ihS, ihB, ihL⟩ := flows_noBC p n
    refine ⟨?_, ?_, ?_⟩
    · intro retTy st s flow s' tr h hn
      cases st with
      | decl isLet x ty e =>
        simp only [exec] at h
        obtain ⟨_, _, _, _, _, h, _⟩ := bind_eq_ok h
        obtain ⟨_, _, _, _, _, h, _⟩ := bind_eq_ok h
        obtain ⟨hf, _, _⟩ := pure_inv h; subst hf; rfl
      | assign tgt ty e =>
        simp only [exec] at h
        obtain ⟨_, _, _, _, _, h, _⟩ := bind_eq_ok h
        obtain ⟨_, _, _, _, _, h, _⟩ := bind_eq_ok h
        obtain ⟨_, _, _, _, _, h, _⟩ := bind_eq_ok h
        obtain ⟨hf, _, _⟩ := pure_inv h; subst hf; rfl
      | swap l lty r rty =>
        simp only [exec] at h
        obtain ⟨_, _, _, _, _, h, _⟩ := bind_eq_ok h
        obtain ⟨_, _, _, _, _, h, _⟩ := bind_eq_ok h
        obtain ⟨_, _, _, _, _, h, _⟩ := bind_eq_ok h
        obtain ⟨_, _, _, _, _, h, _⟩ := bind_eq_ok h
        obtain ⟨_, _, _, _, _, h, _⟩ := bind_eq_ok h
        obtain ⟨_, _, _, _, _, h, _⟩ := bind_eq_ok h
        obtain ⟨hf, _, _⟩ := pure_inv h; subst hf; rfl
      | expr e =>
        simp only [exec] at h
        obtain ⟨_, _, _, _, _, h, _⟩ := bind_eq_ok h
        obtain ⟨hf, _, _⟩ := pure_inv h; subst hf; rfl
      | break_ => simp [noBCS] at hn
      | continue_ => simp [noBCS] at hn
      | ret oe =>
        cases oe with
        | none =>
          simp only [exec] at h
          obtain ⟨hf, _, _⟩ := pure_inv h; subst hf; rfl
        | some e =>
          simp only [exec] at h
          obtain ⟨_, _, _, _, _, h, _⟩ := bind_eq_ok h
          obtain ⟨hf, _, _⟩ := pure_inv h; subst hf; rfl
      | ite c t oe =>
        simp only [exec] at h
        obtain ⟨vc, _, _, _, _, h, _⟩ := bind_eq_ok h
        cases oe with
        | none =>
          simp only [noBCS, Bool.and_eq_true, and_true] at hn
          cases vc with
          | bool b =>
            cases b with
            | true => exact ihB _ _ _ _ _ _ h hn
            | false => obtain ⟨hf, _, _⟩ := pure_inv h; subst hf; rfl
          | _ => simp [M.internalErr] at h
        | some eb =>
          simp only [noBCS, Bool.and_eq_true] at hn
          cases vc with
          | bool b =>
            cases b with
            | true => exact ihB _ _ _ _ _ _ h hn.1
            | false => exact ihB _ _ _ _ _ _ h hn.2
          | _ => simp [M.internalErr] at h
      | «while» c body =>
        simp only [exec] at h
        obtain ⟨vc, _, _, _, _, h, _⟩ := bind_eq_ok h
        cases vc with
        | bool b =>
          cases b with
          | false => obtain ⟨hf, _, _⟩ := pure_inv h; subst hf; rfl
          | true =>
            obtain ⟨fb, _, _, _, _, h, _⟩ := bind_eq_ok h
            cases fb with
            | brk => obtain ⟨hf, _, _⟩ := pure_inv h; subst hf; rfl
            | ret v => obtain ⟨hf, _, _⟩ := pure_inv h; subst hf; rfl
            | normal => exact ihS _ _ _ _ _ _ h rfl
            | cont => exact ihS _ _ _ _ _ _ h rfl
        | _ => simp [M.internalErr] at h
    · intro retTy ss s flow s' tr h hn
      simp only [execBlock, Res.mk.injEq] at h
      exact ihL retTy ss s flow _ _ (Res.eta_ok h.1) hn
    · intro retTy ss s flow s' tr h hn
      cases ss with
      | nil =>
        have : (⟨.ok .normal, s, []⟩ : Res Flow) = ⟨.ok flow, s', tr⟩ := h
        obtain ⟨hf, _, _⟩ := pure_inv this; subst hf; rfl
      | cons st rest =>
        simp only [noBCB, Bool.and_eq_true] at hn
        simp only [execStmts] at h
        obtain ⟨f1, _, _, _, h1, h, _⟩ := bind_eq_ok h
        have := ihS _ _ _ _ _ _ h1 hn.1
        cases f1 with
        | normal => exact ihL _ _ _ _ _ _ h hn.2
        | brk => simp [isBC] at this
        | cont => simp [isBC] at this
        | ret v => obtain ⟨hf, _, _⟩ := pure_inv h; subst hf; rfl

/-! ### user functions -/

/-- what the simulation needs to know about a program and its compiled table: no struct declarations;
every function has at most one parameter, a body in the fragment (invocations in statement position
with call-free arguments), no `break` / `continue` outside loops, and the table holds its compiled code
(free of unresolved loop placeholders) under its name -/
def TableOk (p : Program) (tbl : Table) : Prop :=
  p.structs = [] ∧ ∀ f fd, p.findFun f = some fd →
    fd.params.length ≤ 1 ∧ okB simpleE fd.body = true ∧ noBCB fd.body = true ∧
    ∃ c cs', compileBlock fd.ret ⟨paramScope fd.params 0, fd.params.length⟩ fd.body = some (c, cs') ∧
      noMarks c = true ∧ tbl.find f = some ⟨fd.name, fd.params.map (·.ty), c⟩

def CallSim (p : Program) (tbl : Table) (n : Nat) : Prop :=
  ∀ f vs s v s1 tr, callNamed p n f vs s = ⟨.ok v, s1, tr⟩ →
  ∀ code pc stk locals, code[pc]? = some (.invoke f vs.length) →
    s = s1 ∧ Exec tbl ⟨code, pc, vs.reverse ++ stk, locals⟩ tr (.at ⟨code, pc + 1, v :: stk, locals⟩)

def BodySim (p : Program) (tbl : Table) (n : Nat) : Prop :=
  ∀ (fd : FunDecl) vs s r s1 tr, callBody p n fd.params fd.ret fd.body vs none s = ⟨.ok r, s1, tr⟩ →
    fd.params.length ≤ 1 → okB simpleE fd.body = true → noBCB fd.body = true →
    ∀ c cs', compileBlock fd.ret ⟨paramScope fd.params 0, fd.params.length⟩ fd.body = some (c, cs') →
    noMarks c = true →
    ∃ l0, bindSlots (fd.params.map (·.ty)) vs 0 = some l0 ∧ s = s1 ∧ Exec tbl ⟨c, 0, [], l0⟩ tr (.ret r.1)

/-- binding at most one argument: the evaluator's environment and the machine's parameter slots -/
theorem bind_rel (params : List Param) (vs : List Value) (env : Env) (hlen : params.length ≤ 1)
    (h : bindParams params vs = some env) :
    ∃ l0, bindSlots (params.map (·.ty)) vs 0 = some l0 ∧ Rel l0 params.length (paramScope params 0) env := by
  cases params with
  | nil =>
    cases vs with
    | nil =>
      simp only [bindParams, Option.some.injEq] at h; subst h
      exact ⟨[], rfl, .nil 0⟩
    | cons v vs => simp [bindParams] at h
  | cons p1 ps =>
    cases ps with
    | nil =>
      cases vs with
      | nil => simp [bindParams] at h
      | cons v vs =>
        cases vs with
        | nil =>
          simp only [bindParams, Option.map_some, Option.some.injEq] at h; subst h
          exact ⟨[(0, box p1.ty v)], rfl, .cons (.nil 0) rfl (by simp)⟩
        | cons w ws => simp [bindParams] at h
    | cons p2 ps => simp at hlen

theorem body_step (p : Program) (tbl : Table) (n : Nat) (hB : BlockSim simpleE p tbl n) : BodySim p tbl (n + 1) := by
  intro fd vs s r s1 tr h hlen hok hbc c cs' hc hnm
  cases hbp : bindParams fd.params vs with
  | none => simp [callBody, hbp, M.internalErr] at h
  | some env =>
    obtain ⟨l0, hbs, hrel⟩ := bind_rel fd.params vs env hlen hbp
    refine ⟨l0, hbs, ?_⟩
    simp only [callBody, hbp] at h
    cases hro : (execBlock p n fd.ret fd.body ⟨env⟩).out with
    | ok flow =>
      have hfl := (flows_noBC p n).2.1 _ _ _ _ _ _ (Res.eta_ok hro) hbc
      have hex := sim_body_gen simpleE p tbl n hB fd.ret fd.body ⟨env⟩ _ flow _ (Res.eta_ok hro) hok
        (by cases flow <;> simp [isBC] at hfl ⊢) ⟨paramScope fd.params 0, fd.params.length⟩ cs' c hc hnm l0 hrel
      cases flow <;> simp only [hro, Res.mk.injEq, Outcome.ok.injEq] at h <;>
        (obtain ⟨h1, h2, h3⟩ := h; subst h1 h2 h3; exact ⟨rfl, hex⟩)
    | userErr k => simp [hro] at h
    | internalErr k => simp [hro] at h
    | outOfFuel => simp [hro] at h

theorem call_step (p : Program) (tbl : Table) (hT : TableOk p tbl) (n : Nat) (hBd : BodySim p tbl n) :
    CallSim p tbl (n + 1) := by
  intro f vs s v s1 tr h code pc stk locals hi
  cases hb : isBuiltin f vs with
  | false =>
    cases hf : p.findFun f with
    | none =>
      rw [callNamed_unbound p n f vs hb hf (by simp [Program.findStruct, hT.1])] at h
      simp [M.internalErr] at h
    | some fd =>
      rw [callNamed_user p n f vs hb fd hf] at h
      obtain ⟨r, sa, tra, trb, hbody, hk, htr⟩ := bind_eq_ok h
      obtain ⟨hlen, hok, hbc, c, cs', hc, hnm, hfind⟩ := hT.2 f fd hf
      obtain ⟨l0, hbs, hsa, hex⟩ := hBd fd vs s r sa tra hbody hlen hok hbc c cs' hc hnm
      subst hsa
      have : (⟨.ok r.1, s, []⟩ : Res Value) = ⟨.ok v, s1, trb⟩ := hk
      simp only [Res.mk.injEq, Outcome.ok.injEq] at this
      obtain ⟨h1, h2, h3⟩ := this; subst h1 h2 h3 htr
      have hs := step_invoke_user tbl code pc f vs stk locals hi hb
      rw [hfind] at hs
      exact ⟨rfl, Exec.call hs hbs hex (.refl _)⟩
  | true =>
    unfold isBuiltin at hb
    split at hb
    · next w =>
      have : (⟨.ok .void, s, [w.logStr] ++ []⟩ : Res Value) = ⟨.ok v, s1, tr⟩ := by rw [← h]; rfl
      simp only [Res.mk.injEq, Outcome.ok.injEq] at this
      obtain ⟨h1, h2, h3⟩ := this; subst h1 h2 h3
      exact ⟨rfl, Exec.one (by simp [VM.step, hi])⟩
    · have : (⟨.userErr .panic, s, []⟩ : Res Value) = ⟨.ok v, s1, tr⟩ := by rw [← h]; rfl
      simp at this
    · have : (⟨.ok .void, s, []⟩ : Res Value) = ⟨.ok v, s1, tr⟩ := by rw [← h]; rfl
      simp only [Res.mk.injEq, Outcome.ok.injEq] at this
      obtain ⟨h1, h2, h3⟩ := this; subst h1 h2 h3
      exact ⟨rfl, Exec.one (by simp [VM.step, hi])⟩
    · have : (⟨.ok .void, s, []⟩ : Res Value) = ⟨.ok v, s1, tr⟩ := by rw [← h]; rfl
      simp only [Res.mk.injEq, Outcome.ok.injEq] at this
      obtain ⟨h1, h2, h3⟩ := this; subst h1 h2 h3
      exact ⟨rfl, Exec.one (by simp [VM.step, hi])⟩
    · have : (⟨.userErr .assertion, s, []⟩ : Res Value) = ⟨.ok v, s1, tr⟩ := by rw [← h]; rfl
      simp at this
    · have : (⟨.userErr .assertion, s, []⟩ : Res Value) = ⟨.ok v, s1, tr⟩ := by rw [← h]; rfl
      simp at this
    · simp at hb

theorem top_step (p : Program) (tbl : Table) (n : Nat) (hC : CallSim p tbl n) : TopSim simpleE p tbl (n + 1) := by
  intro e s v s1 tr h hs sc c hc locals hag code pre post stk hcode
  cases e with
  | call f args =>
    simp only [simpleE] at hs
    cases ha : compileExpr.compileArgs sc args with
    | none => simp [compileExpr, ha] at hc
    | some cas =>
      simp only [compileExpr, ha, Option.bind_eq_bind, Option.bind_some, Option.some.injEq] at hc
      subst hc
      simp only [eval] at h
      obtain ⟨vs, sa, tra, trb, hargs, hcall, htr⟩ := bind_eq_ok h
      obtain ⟨hsa, hta, hlen, r1⟩ := sim_args p tbl args n s vs sa tra hargs hs sc cas ha locals hag code pre
        ([.invoke f args.length] ++ post) stk (by simp [hcode])
      subst hsa hta
      have hi : code[pre.length + cas.length]? = some (.invoke f vs.length) := by rw [hlen]; locate hcode
      obtain ⟨hs1, e2⟩ := hC f vs s v s1 trb hcall code (pre.length + cas.length) stk locals hi
      refine ⟨hs1, ?_⟩
      have := (Exec.of_reach r1).trans e2
      simpa [htr, Nat.add_assoc] using this
  | _ => exact topSim_noCall p tbl (n + 1) _ s v s1 tr h (by simpa [simpleE] using hs) sc c hc locals hag code pre post stk hcode

/-- **Forward simulation, value case, programs with invocations in statement position** -/
theorem all_calls (p : Program) (tbl : Table) (hT : TableOk p tbl) : ∀ n,
    StmtSim simpleE p tbl n ∧ BlockSim simpleE p tbl n ∧ StmtsSim simpleE p tbl n ∧
    TopSim simpleE p tbl n ∧ CallSim p tbl n ∧ BodySim p tbl n
  | 0 => by
    refine ⟨?_, ?_, ?_, ?_, ?_, ?_⟩
    · intro retTy st s flow s' tr h; simp [exec, M.outOfFuel] at h
    · intro retTy ss s flow s' tr h; simp [execBlock, M.outOfFuel] at h
    · intro retTy ss s flow s' tr h; simp [execStmts, M.outOfFuel] at h
    · intro e s v s1 tr h; simp [eval, M.outOfFuel] at h
    · intro f vs s v s1 tr h; simp [callNamed, M.outOfFuel] at h
    · intro fd vs s r s1 tr h; simp [callBody, M.outOfFuel] at h
  | n + 1 => by
    obtain ⟨a, b, c, d, e, f⟩ := all_calls p tbl hT n
    exact ⟨stmt_step simpleE (fun e sc c => simpleE_noMarks sc e c) p tbl n d b a, block_step simpleE p tbl n c,
      stmts_step simpleE p tbl n a c, top_step p tbl n e, call_step p tbl hT n f, body_step p tbl n b⟩

/-- whole programs: if the evaluator's `run` yields a value, so does the machine's `runVM` on the
compiled table, with the same trace -/
theorem sim_program (p : Program) (tbl : Table) (hT : TableOk p tbl) (n : Nat) (v : Value) (s1 : State)
    (tr : List String) (h : run p n = ⟨.ok v, s1, tr⟩) : ∃ m, runVM tbl m = ⟨.ok v, ⟨[]⟩, tr⟩ := by
  unfold run at h
  cases n with
  | zero => simp [callNamed, M.outOfFuel] at h
  | succ n =>
    have hb : isBuiltin "main" [] = false := rfl
    cases hf : p.findFun "main" with
    | none =>
      rw [callNamed_unbound p n "main" [] hb hf (by simp [Program.findStruct, hT.1])] at h
      simp [M.internalErr] at h
    | some fd =>
      rw [callNamed_user p n "main" [] hb fd hf] at h
      obtain ⟨r, sa, tra, trb, hbody, hk, htr⟩ := bind_eq_ok h
      obtain ⟨hlen, hok, hbc, c, cs', hc, hnm, hfind⟩ := hT.2 "main" fd hf
      obtain ⟨l0, hbs, hsa, hex⟩ := (all_calls p tbl hT n).2.2.2.2.2 fd [] _ r sa tra hbody hlen hok hbc c cs' hc hnm
      have : (⟨.ok r.1, sa, []⟩ : Res Value) = ⟨.ok v, s1, trb⟩ := hk
      simp only [Res.mk.injEq, Outcome.ok.injEq] at this
      obtain ⟨h1, h2, h3⟩ := this; subst h1 h2 h3 htr
      have hl0 : l0 = [] := by
        cases hps : fd.params with
        | nil => simp [hps, bindSlots] at hbs; exact hbs
        | cons p1 ps => simp [hps, bindSlots] at hbs
      subst hl0
      obtain ⟨m, hm⟩ := hex.run [] [] 0
      refine ⟨m, ?_⟩
      simp only [runVM, hfind]
      simpa [finish] using hm

/-! ### the table of a compiled program -/

/-- decidable side conditions on a function of the fragment -/
def funOk (fd : FunDecl) : Bool :=
  decide (fd.params.length ≤ 1) && okB simpleE fd.body && noBCB fd.body &&
  (match compileFun fd with | some cf => noMarks cf.code | none => false)

/-- decidable side conditions on a program of the fragment -/
def progOk (p : Program) : Bool := p.structs.isEmpty && p.funs.all funOk

theorem compileFun_inv {fd : FunDecl} {cf : CompiledFun} (h : compileFun fd = some cf) :
    ∃ c cs', compileBlock fd.ret ⟨paramScope fd.params 0, fd.params.length⟩ fd.body = some (c, cs') ∧
      cf = ⟨fd.name, fd.params.map (·.ty), c⟩ := by
  unfold compileFun at h
  cases hc : compileBlock fd.ret ⟨paramScope fd.params 0, fd.params.length⟩ fd.body with
  | none => simp [hc] at h
  | some r =>
    obtain ⟨c, cs'⟩ := r
    simp only [hc, Option.bind_eq_bind, Option.bind_some, Option.some.injEq] at h
    exact ⟨c, cs', rfl, h.symm⟩

theorem mapM_find : ∀ (funs : List FunDecl) (tbl : Table), funs.mapM compileFun = some tbl →
    ∀ f fd, funs.find? (·.name == f) = some fd →
    ∃ cf, compileFun fd = some cf ∧ tbl.find? (·.name == f) = some cf
  | [], _, _, f, fd, hf => by simp at hf
  | g :: gs, tbl, h, f, fd, hf => by
    rw [List.mapM_cons] at h
    cases hg : compileFun g with
    | none => simp [hg] at h
    | some cg =>
      cases hgs : gs.mapM compileFun with
      | none => simp [hg, hgs] at h
      | some cgs =>
        simp only [hg, hgs, bind, Option.bind_some, pure, Option.some.injEq] at h
        subst h
        obtain ⟨c, cs', _, hcg⟩ := compileFun_inv hg
        have hname : cg.name = g.name := by rw [hcg]
        rw [List.find?_cons] at hf ⊢
        rw [hname]
        cases hgf : g.name == f with
        | true =>
          simp only [hgf, Option.some.injEq] at hf; subst hf
          exact ⟨cg, hg, rfl⟩
        | false =>
          simp only [hgf] at hf
          exact mapM_find gs cgs hgs f fd hf

theorem compile_tableOk (p : Program) (tbl : Table) (hc : compile p = some tbl) (hok : progOk p = true) :
    TableOk p tbl := by
  simp only [progOk, Bool.and_eq_true, List.isEmpty_iff, List.all_eq_true] at hok
  obtain ⟨hst, hall⟩ := hok
  refine ⟨hst, ?_⟩
  intro f fd hf
  have hmem : fd ∈ p.funs := List.mem_of_find?_eq_some hf
  have hfd := hall fd hmem
  simp only [funOk, Bool.and_eq_true, decide_eq_true_eq] at hfd
  obtain ⟨⟨⟨hlen, hokb⟩, hbc⟩, hnm⟩ := hfd
  simp only [compile, hst, List.isEmpty_nil, if_true] at hc
  obtain ⟨cf, hcf, hfind⟩ := mapM_find p.funs tbl hc f fd hf
  obtain ⟨c, cs', hcb, hcfe⟩ := compileFun_inv hcf
  rw [hcf] at hnm
  refine ⟨hlen, hokb, hbc, c, cs', hcb, by rw [hcfe] at hnm; exact hnm, ?_⟩
  rw [← hcfe]; exact hfind

end Verif.Model.Lang.VM

namespace Verif.Model.Lang.VM
open Verif.Model.Lang
/-- example program: `fun f(x: Int): Int { log(x); return x + 1 }`, `fun small(x: Int): Bool { return x < 2 }`,
`fun main(): Int { var i = 0; while small(i) { i = f(i) }; log(i); return i }` -/
def exProg : Program :=
  ⟨[⟨"f", [⟨"x", .int .int⟩], .int .int,
      [.expr (.call "log" [.var "x"]), .ret (some (.binary .add (.var "x") (.intLit .int 1)))]⟩,
    ⟨"small", [⟨"x", .int .int⟩], .bool, [.ret (some (.binary .lt (.var "x") (.intLit .int 2)))]⟩,
    ⟨"main", [], .int .int,
      [.decl false "i" (.int .int) (.intLit .int 0),
       .while (.call "small" [.var "i"]) [.assign (.var "i") (.int .int) (.call "f" [.var "i"])],
       .expr (.call "log" [.var "i"]),
       .ret (some (.var "i"))]⟩], []⟩

end Verif.Model.Lang.VM
