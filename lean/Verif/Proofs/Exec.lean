import Verif.Model.Exec
/-! Lemmas about the executor-protocol acceptor (C24). -/
namespace Verif.Proofs.Exec
open Verif.Model.Exec

theorem runFrom_done (kind : Kind) (st st' : St) (tr : List Ev) (hp : st.phase = .done)
    (h : runFrom kind st tr = .ok st') : tr = [] := by
  cases tr with
  | nil => rfl
  | cons e es => simp [runFrom, stepSt, hp] at h

/-- `flushed` is monotone along a run. -/
theorem stepSt_flushed (kind : Kind) (st st' : St) (e : Ev) (h : stepSt kind st e = .ok st')
    (hf : st.flushed = true) : st'.flushed = true := by
  unfold stepSt at h
  split at h <;> (try (split at h)) <;> simp_all <;> (subst h; simp_all)

theorem runFrom_flushed (kind : Kind) (tr : List Ev) : ∀ (st st' : St), runFrom kind st tr = .ok st' →
    st.flushed = true → st'.flushed = true := by
  induction tr with
  | nil => intro st st' h hf; simp [runFrom] at h; subst h; exact hf
  | cons e es ih =>
    intro st st' h hf
    simp only [runFrom] at h
    split at h
    · rename_i st1 hs
      exact ih st1 st' h (stepSt_flushed kind st st1 e hs hf)
    · cases h

theorem endsErr_cons (e : Ev) (es : List Ev) (he : (e == Ev.endErr) = false) (h : endsErr es = false) :
    endsErr (e :: es) = false := by
  cases es with
  | nil => simp [endsErr, he]
  | cons a as => simpa [endsErr] using h

/-- From the commit phase, a run that never flushes sees no program activity, never ends a script,
    and never ends with an error. -/
theorem commit_phase (kind : Kind) (tr : List Ev) : ∀ (st st' : St), st.phase = .commit →
    runFrom kind st tr = .ok st' → st'.flushed = false →
    tr.any Ev.isProg = false ∧ endsErr tr = false ∧ (st'.phase = .done → kind ≠ .script) ∧
    (st'.phase = .commit ∨ st'.phase = .done) := by
  induction tr with
  | nil =>
    intro st st' hp h _
    simp [runFrom] at h; subst h
    simp [endsErr, hp]
  | cons e es ih =>
    intro st st' hp h hf
    simp only [runFrom] at h
    split at h
    · rename_i st1 hs
      by_cases hk : kind = .script <;> cases e <;> simp [stepSt, hp, hk] at hs
      case pos.read | neg.read | pos.write | neg.write =>
        subst hs
        have := ih st st' hp h hf
        exact ⟨by simp [Ev.isProg, this.1], endsErr_cons _ _ (by simp) this.2.1, this.2.2.1, this.2.2.2⟩
      case pos.flushQuery | neg.flushQuery =>
        subst hs
        have := runFrom_flushed kind es _ st' h rfl
        simp [this] at hf
      case neg.endOk =>
        subst hs
        have hes := runFrom_done kind _ st' es rfl h
        subst hes
        simp [runFrom] at h; subst h
        simp [Ev.isProg, endsErr, hk]
    · cases h

/-- From the run (or pre) phase, a run that never flushes has all its writes after the last program
    activity; if it wrote at all, it is not a script that ended and it did not end with an error. -/
theorem run_phase (kind : Kind) (tr : List Ev) : ∀ (st st' : St), (st.phase = .run ∨ st.phase = .pre) →
    runFrom kind st tr = .ok st' → st'.flushed = false →
    writesAfterRun tr = true ∧
    (hasWrite tr = true → endsErr tr = false ∧ (st'.phase = .done → kind ≠ .script)) := by
  induction tr with
  | nil => intro st st' _ h _; simp [writesAfterRun, hasWrite]
  | cons e es ih =>
    intro st st' hp h hf
    simp only [runFrom] at h
    split at h
    · rename_i st1 hs
      by_cases hw : e.isWrite = true
      · -- a write: only possible in the run phase; the rest is a commit phase
        cases e <;> simp [Ev.isWrite] at hw
        rcases hp with hp | hp
        · simp [stepSt, hp] at hs
          subst hs
          have := commit_phase kind es _ st' rfl h hf
          refine ⟨by simp [writesAfterRun, Ev.isWrite, this.1], fun _ => ⟨?_, this.2.2.1⟩⟩
          cases es with
          | nil => simp [endsErr]
          | cons a as => simpa [endsErr] using this.2.1
        · simp [stepSt, hp] at hs
      · -- not a write: the state stays in pre / run, or the run is over
        have hw' : e.isWrite = false := by simpa using hw
        have hphase : st1.phase = .run ∨ st1.phase = .pre ∨ st1.phase = .done := by
          rcases hp with hp | hp <;> cases e <;> simp_all [stepSt, Ev.isWrite] <;> (subst hs; simp)
        rcases hphase with h1 | h1 | h1
        · have := ih st1 st' (.inl h1) h hf
          refine ⟨by simp [writesAfterRun, hw', this.1], fun hh => ?_⟩
          have hh' : hasWrite es = true := by simpa [hasWrite, hw'] using hh
          have := this.2 hh'
          refine ⟨?_, this.2⟩
          cases es with
          | nil => simp [hasWrite] at hh'
          | cons a as => simpa [endsErr] using this.1
        · have := ih st1 st' (.inr h1) h hf
          refine ⟨by simp [writesAfterRun, hw', this.1], fun hh => ?_⟩
          have hh' : hasWrite es = true := by simpa [hasWrite, hw'] using hh
          have := this.2 hh'
          refine ⟨?_, this.2⟩
          cases es with
          | nil => simp [hasWrite] at hh'
          | cons a as => simpa [endsErr] using this.1
        · have hes := runFrom_done kind st1 st' es h1 h
          subst hes
          simp [writesAfterRun, hw', hasWrite]
    · cases h

theorem runFrom_append (k : Kind) (a b : List Ev) : ∀ st, runFrom k st (a ++ b) =
    (match runFrom k st a with | .ok st1 => runFrom k st1 b | .error r => .error r) := by
  induction a with
  | nil => intro st; simp [runFrom]
  | cons e es ih =>
    intro st
    simp only [List.cons_append, runFrom]
    cases stepSt k st e with
    | ok st1 => simpa using ih st1
    | error r => simp

theorem run_hosts (k : Kind) (f : Bool) (n : Nat) : runFrom k ⟨.pre, f⟩ (List.replicate n Ev.host) = .ok ⟨.pre, f⟩ := by
  induction n with
  | zero => simp [runFrom]
  | succ n ih => simp [List.replicate_succ, runFrom, stepSt, ih]

theorem run_runEvs (k : Kind) (f : Bool) (l : List RunEv) : runFrom k ⟨.run, f⟩ (l.map RunEv.ev) = .ok ⟨.run, f⟩ := by
  induction l with
  | nil => simp [runFrom]
  | cons e es ih => cases e <;> simp [runFrom, stepSt, RunEv.ev, ih]

theorem run_writes_commit (k : Kind) (f : Bool) (ws : List Ev) (hw : ∀ e ∈ ws, e.isWrite = true) :
    runFrom k ⟨.commit, f⟩ ws = .ok ⟨.commit, f⟩ := by
  induction ws with
  | nil => simp [runFrom]
  | cons e es ih =>
    have he := hw e (by simp)
    cases e <;> simp [Ev.isWrite] at he
    simp only [runFrom, stepSt]
    exact ih (fun x hx => hw x (by simp [hx]))

theorem run_writes_run (k : Kind) (f : Bool) (ws : List Ev) (hw : ∀ e ∈ ws, e.isWrite = true) :
    runFrom k ⟨.run, f⟩ ws = .ok ⟨if ws.isEmpty then .run else .commit, f⟩ := by
  cases ws with
  | nil => simp [runFrom]
  | cons e es =>
    have he := hw e (by simp)
    cases e <;> simp [Ev.isWrite] at he
    simp only [runFrom, stepSt, List.isEmpty_cons]
    exact run_writes_commit k f es (fun x hx => hw x (by simp [hx]))

theorem commitEvents_run (k : Kind) (hk : k ≠ .script) (b : Behaviour) :
    runFrom k ⟨.run, false⟩ (commitEvents b ++ [Ev.endOk]) = .ok ⟨.done, false⟩ := by
  unfold commitEvents
  rw [List.append_assoc, List.append_assoc, runFrom_append, run_runEvs]
  simp only []
  rw [← List.append_assoc, runFrom_append]
  have hw : ∀ e ∈ (b.acctWrites.map (fun o => Ev.write o false 0) ++ b.slabWrites.map (fun (o, i) => Ev.write o true i)),
      e.isWrite = true := by
    intro e he
    simp only [List.mem_append, List.mem_map] at he
    rcases he with ⟨_, _, rfl⟩ | ⟨⟨_, _⟩, _, rfl⟩ <;> rfl
  rw [run_writes_run k false _ hw]
  simp only []
  split <;> simp [runFrom, stepSt, hk]

theorem exec_accepted_aux (kind : Kind) (b : Behaviour) :
    accept kind (exec ⟨false, false⟩ kind b) = .ok ⟨.done, false⟩ := by
  unfold accept exec
  rw [List.append_assoc, runFrom_append, run_hosts]
  simp only [List.singleton_append, runFrom, stepSt]
  cases hpre : b.preOk with
  | false => simp [runFrom, stepSt]
  | true =>
    simp only [Bool.not_true, Bool.false_eq_true, if_false]
    rw [runFrom_append, run_runEvs]
    simp only []
    cases hok : b.ok with
    | false => simp [runFrom, stepSt]
    | true =>
      simp only [if_true, Bool.not_false, Bool.and_true]
      by_cases hk : kind = .script
      · simp [hk, runFrom, stepSt]
      · have := commitEvents_run kind hk b
        simp [hk, this]

end Verif.Proofs.Exec
