import Verif.Model.Exec
/-! Lemmas about the executor-protocol acceptor (C24). -/
namespace Verif.Proofs.Exec
open Verif.Model.Exec

theorem runFrom_done (kind : Kind) (st st' : St) (tr : List Ev) (hp : st.phase = .done)
    (h : runFrom kind st tr = .ok st') : tr = [] := by
  cases tr with
  | nil => rfl
  | cons e es => simp [runFrom, stepSt, hp] at h

/-- `flushed` is monotone along a run. -/
theorem stepSt_flushed (kind : Kind) (st st' : St) (e : Ev) (h : stepSt kind st e = .ok st')
    (hf : st.flushed = true) : st'.flushed = true := by
  unfold stepSt at h
  split at h <;> (try (split at h)) <;> simp_all <;> (subst h; simp_all)

theorem runFrom_flushed (kind : Kind) (tr : List Ev) : ∀ (st st' : St), runFrom kind st tr = .ok st' →
    st.flushed = true → st'.flushed = true := by
  induction tr with
  | nil => intro st st' h hf; simp [runFrom] at h; subst h; exact hf
  | cons e es ih =>
    intro st st' h hf
    simp only [runFrom] at h
    split at h
    · rename_i st1 hs
      exact ih st1 st' h (stepSt_flushed kind st st1 e hs hf)
    · cases h

theorem endsErr_cons (e : Ev) (es : List Ev) (he : (e == Ev.endErr) = false) (h : endsErr es = false) :
    endsErr (e :: es) = false := by
  cases es with
  | nil => simp [endsErr, he]
  | cons a as => simpa [endsErr] using h

/-- From the commit phase, a run that never flushes sees no program activity, never ends a script,
    and never ends with an error. -/
theorem commit_phase (kind : Kind) (tr : List Ev) : ∀ (st st' : St), st.phase = .commit →
    runFrom kind st tr = .ok st' → st'.flushed = false →
    tr.any Ev.isProg = false ∧ endsErr tr = false ∧ (st'.phase = .done → kind ≠ .script) ∧
    (st'.phase = .commit ∨ st'.phase = .done) := by
  induction tr with
  | nil =>
    intro st st' hp h _
    simp [runFrom] at h; subst h
    simp [endsErr, hp]
  | cons e es ih =>
    intro st st' hp h hf
    simp only [runFrom] at h
    split at h
    · rename_i st1 hs
      by_cases hk : kind = .script <;> cases e <;> simp [stepSt, hp, hk] at hs
      case pos.read | neg.read | pos.write | neg.write =>
        subst hs
        have := ih st st' hp h hf
        exact ⟨by simp [Ev.isProg, this.1], endsErr_cons _ _ (by simp) this.2.1, this.2.2.1, this.2.2.2⟩
      case pos.flushQuery | neg.flushQuery =>
        subst hs
        have := runFrom_flushed kind es _ st' h rfl
        simp [this] at hf
      case neg.endOk =>
        subst hs
        have hes := runFrom_done kind _ st' es rfl h
        subst hes
        simp [runFrom] at h; subst h
        simp [Ev.isProg, endsErr, hk]
    · cases h

/-- From the run (or pre) phase, a run that never flushes has all its writes after the last program
    activity; if it wrote at all, it is not a script that ended and it did not end with an error. -/
theorem run_phase (kind : Kind) (tr : List Ev) : ∀ (st st' : St), (st.phase = .run ∨ st.phase = .pre) →
    runFrom kind st tr = .ok st' → st'.flushed = false →
    writesAfterRun tr = true ∧
    (hasWrite tr = true → endsErr tr = false ∧ (st'.phase = .done → kind ≠ .script)) := by
  induction tr with
  | nil => intro st st' _ h _; simp [writesAfterRun, hasWrite]
  | cons e es ih =>
    intro st st' hp h hf
    simp only [runFrom] at h
    split at h
    · rename_i st1 hs
      by_cases hw : e.isWrite = true
      · -- a write: only possible in the run phase; the rest is a commit phase
        cases e <;> simp [Ev.isWrite] at hw
        rcases hp with hp | hp
        · simp [stepSt, hp] at hs
          subst hs
          have := commit_phase kind es _ st' rfl h hf
          refine ⟨by simp [writesAfterRun, Ev.isWrite, this.1], fun _ => ⟨?_, this.2.2.1⟩⟩
          cases es with
          | nil => simp [endsErr]
          | cons a as => simpa [endsErr] using this.2.1
        · simp [stepSt, hp] at hs
      · -- not a write: the state stays in pre / run, or the run is over
        have hw' : e.isWrite = false := by simpa using hw
        have hphase : st1.phase = .run ∨ st1.phase = .pre ∨ st1.phase = .done := by
          rcases hp with hp | hp <;> cases e <;> simp_all [stepSt, Ev.isWrite] <;> (subst hs; simp)
        rcases hphase with h1 | h1 | h1
        · have := ih st1 st' (.inl h1) h hf
          refine ⟨by simp [writesAfterRun, hw', this.1], fun hh => ?_⟩
          have hh' : hasWrite es = true := by simpa [hasWrite, hw'] using hh
          have := this.2 hh'
          refine ⟨?_, this.2⟩
          cases es with
          | nil => simp [hasWrite] at hh'
          | cons a as => simpa [endsErr] using this.1
        · have := ih st1 st' (.inr h1) h hf
          refine ⟨by simp [writesAfterRun, hw', this.1], fun hh => ?_⟩
          have hh' : hasWrite es = true := by simpa [hasWrite, hw'] using hh
          have := this.2 hh'
          refine ⟨?_, this.2⟩
          cases es with
          | nil => simp [hasWrite] at hh'
          | cons a as => simpa [endsErr] using this.1
        · have hes := runFrom_done kind st1 st' es h1 h
          subst hes
          simp [writesAfterRun, hw', hasWrite]
    · cases h

end Verif.Proofs.Exec
