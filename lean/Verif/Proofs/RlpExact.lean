/-
Helper lemmas for the exactness half of C46: big-endian round trips, a declarative characterisation
`RS` of a successful `readSize`, and from it the exact behaviour of `decodeString` / `decodeList` and
of the executable oracles of `Verif.Spec.Rlp`.
-/
import Verif.Proofs.Rlp
namespace Verif.Proofs.RlpExact
open Verif.Model.Rlp Verif.Spec.Rlp Verif.Proofs.Rlp

@[simp] theorem ok_bind {α β} (a : α) (f : α → Out β) : (Out.ok a >>= f) = f a := rfl
@[simp] theorem err_bind {α β} (e : Err) (f : α → Out β) : ((Out.err e : Out α) >>= f) = .err e := rfl
@[simp] theorem pure_eq_ok {α} (a : α) : (pure a : Out α) = .ok a := rfl

theorem idx_eq (inp : Bytes) (i : Nat) (h : i < inp.length) : idx inp i = .ok inp[i] := by
  simp [idx, h]

theorem slice_eq (inp : Bytes) (a b : Nat) (h1 : a ≤ b) (h2 : b ≤ inp.length) :
    slice inp a b = .ok ((inp.take b).drop a) := by
  simp [slice, h1, h2]

theorem beNat_append_single (xs : Bytes) (b : UInt8) : beNat (xs ++ [b]) = beNat xs * 256 + b.toNat := by
  simp [beNat, List.foldl_append]

@[simp] theorem beNat_nil : beNat [] = 0 := rfl

theorem beBytes_zero : beBytes 0 = [] := by
  unfold beBytes; simp

theorem beBytes_pos (n : Nat) (h : n ≠ 0) : beBytes n = beBytes (n / 256) ++ [UInt8.ofNat (n % 256)] := by
  rw [beBytes]; simp [h]

theorem beNat_beBytes (n : Nat) : beNat (beBytes n) = n := by
  induction n using Nat.strongRecOn with
  | _ n ih =>
    by_cases h : n = 0
    · subst h; simp [beBytes_zero]
    · rw [beBytes_pos n h, beNat_append_single, ih (n / 256) (by omega)]
      simp
      omega

theorem beBytes_length_le (k n : Nat) (h : n < 256 ^ k) : (beBytes n).length ≤ k := by
  induction k generalizing n with
  | zero => 
    have : n = 0 := by simpa using h
    subst this; simp [beBytes_zero]
  | succ k ih =>
    by_cases h0 : n = 0
    · subst h0; simp [beBytes_zero]
    · rw [beBytes_pos n h0]
      have := ih (n / 256) (by rw [Nat.pow_succ] at h; omega)
      simp; omega

theorem beBytes_length_pos (n : Nat) (h : n ≠ 0) : 1 ≤ (beBytes n).length := by
  rw [beBytes_pos n h]; simp

/-- no leading zero byte -/
def NoLeadZero (bs : Bytes) : Prop := bs.head? ≠ some 0

theorem beBytes_beNat_aux (n : Nat) : ∀ bs : Bytes, bs.length = n → NoLeadZero bs → beBytes (beNat bs) = bs := by
  induction n with
  | zero => intro bs hl _; have : bs = [] := List.eq_nil_of_length_eq_zero hl; subst this; simp [beBytes_zero]
  | succ n ih =>
    intro bs hl h
    rcases List.eq_nil_or_concat bs with h0 | ⟨xs, b, rfl⟩
    · subst h0; simp at hl
    rw [List.concat_eq_append] at *
    have hx : NoLeadZero xs := by
      unfold NoLeadZero at *
      cases xs with
      | nil => simp
      | cons x xs => simpa using h
    have ih := ih xs (by simpa using hl) hx
    rw [beNat_append_single]
    have hb := b.toNat_lt
    have hne : beNat xs * 256 + b.toNat ≠ 0 := by
      intro h0
      have h1 : beNat xs = 0 := by omega
      have h2 : b.toNat = 0 := by omega
      rw [h1, beBytes_zero] at ih
      subst ih
      have : b = 0 := by
        apply UInt8.toNat_inj.mp; simpa using h2
      subst this
      simp [NoLeadZero] at h
    rw [beBytes_pos _ hne]
    have e1 : (beNat xs * 256 + b.toNat) / 256 = beNat xs := by omega
    have e2 : (beNat xs * 256 + b.toNat) % 256 = b.toNat := by omega
    rw [e1, e2, ih]
    simp

theorem beBytes_beNat (bs : Bytes) (h : NoLeadZero bs) : beBytes (beNat bs) = bs :=
  beBytes_beNat_aux bs.length bs rfl h

theorem noLeadZero_beBytes (n : Nat) : NoLeadZero (beBytes n) := by
  induction n using Nat.strongRecOn with
  | _ n ih =>
    by_cases h : n = 0
    · subst h; simp [beBytes_zero, NoLeadZero]
    · rw [beBytes_pos n h]
      by_cases h2 : n / 256 = 0
      · rw [h2, beBytes_zero]
        simp only [NoLeadZero, List.nil_append, List.head?_cons, ne_eq, Option.some.injEq]
        intro h3
        have := congrArg UInt8.toNat h3
        simp at this
        omega
      · have := ih (n / 256) (by omega)
        have hl := beBytes_length_pos _ h2
        unfold NoLeadZero at *
        cases hb : beBytes (n / 256) with
        | nil => simp [hb] at hl
        | cons x xs => simpa [hb] using this

theorem getElem?_of_drop_eq {inp : Bytes} {st : Nat} {h r : Bytes} (hd : inp.drop st = h ++ r) (i : Nat)
    (hi : i < h.length) : inp[st + i]? = h[i]? := by
  rw [← List.getElem?_drop, hd, List.getElem?_append_left hi]

theorem length_of_drop_eq {inp : Bytes} {st : Nat} {h r : Bytes} (hd : inp.drop st = h ++ r) :
    st + h.length + r.length = inp.length ∨ (h = [] ∧ r = []) := by
  have := congrArg List.length hd
  simp at this
  by_cases h0 : h.length + r.length = 0
  · right; constructor <;> apply List.eq_nil_of_length_eq_zero <;> omega
  · left; omega

/-- the long-form part of `readSize` (`st` = index after the first byte), as a plain expression -/
def readLong (inp : Bytes) (st : Nat) (isString : Bool) (L : Nat) : Out (Bool × Nat × Nat) :=
  if st ≥ inp.length then .err .incompleteInput else
  if L = 1 then
    if inp[st]!.toNat ≤ 55 then .err .nonCanonical else .ok (isString, st+1, inp[st]!.toNat)
  else
    if inp[st]!.toNat = 0 then .err .nonCanonical else
    if st + L > inp.length then .err .incompleteInput else
    if beNat ((inp.take (st+L)).drop st) > maxLongLength then .err .dataSizeTooLarge else
    .ok (isString, st+L, beNat ((inp.take (st+L)).drop st))

theorem readSize_eq (inp : Bytes) (st : Nat) (h : st < inp.length) : readSize inp st =
    if inp[st].toNat ≤ 0x7f then .ok (true, st, 1) else
    if inp[st].toNat ≤ 0xb7 then .ok (true, st+1, inp[st].toNat - 0x80) else
    if inp[st].toNat ≥ 0xc0 ∧ inp[st].toNat ≤ 0xf7 then .ok (false, st+1, inp[st].toNat - 0xc0) else
    readLong inp (st+1) (decide (inp[st].toNat ≥ 0xb8 ∧ inp[st].toNat ≤ 0xbf))
      (if inp[st].toNat ≥ 0xf8 then inp[st].toNat - 0xf7 else inp[st].toNat - 0xb7) := by
  unfold readSize
  rw [idx_eq inp st h]
  simp only [ok_bind]
  generalize inp[st].toNat = fb
  have h1 : ¬ inp.length = 0 := by omega
  have h2 : ¬ st ≥ inp.length := by omega
  rw [if_neg h1, if_neg h2]
  simp only [Nat.add_sub_cancel, pure_eq_ok]
  split
  · rfl
  split
  · rfl
  split
  · rfl
  unfold readLong
  generalize (if fb ≥ 0xf8 then fb - 0xf7 else fb - 0xb7) = L
  split
  · rfl
  rename_i hlt
  have hlt : st + 1 < inp.length := by omega
  rw [idx_eq inp (st+1) hlt]
  have : inp[st+1]! = inp[st+1] := by simp [hlt]
  rw [this]
  simp only [ok_bind]
  split
  · rfl
  split
  · rfl
  split
  · rfl
  rename_i hle
  rw [slice_eq inp _ _ (by omega) (by omega)]
  rfl
  

theorem drop_eq_cons (inp : Bytes) (i : Nat) (h : i < inp.length) : inp.drop i = inp[i] :: inp.drop (i+1) := by
  exact List.drop_eq_getElem_cons h

theorem take_one_drop (inp : Bytes) (i : Nat) (h : i < inp.length) : (inp.drop i).take 1 = [inp[i]] := by
  rw [drop_eq_cons inp i h]; rfl

theorem beNat_single (b : UInt8) : beNat [b] = b.toNat := by simp [beNat]

theorem pow8 : (256:Nat)^8 = 18446744073709551616 := by decide

theorem readLong_ok_iff (inp : Bytes) (st : Nat) (isStr : Bool) (L : Nat) (hL : 1 ≤ L) (b : Bool) (ds sz : Nat) :
    readLong inp st isStr L = .ok (b, ds, sz) ↔
      (b = isStr ∧ ds = st + L ∧ 55 < sz ∧ sz ≤ maxLongLength ∧ (beBytes sz).length = L ∧
        ∃ rest, inp.drop st = beBytes sz ++ rest) := by
  constructor
  · intro h
    unfold readLong at h
    split at h
    · cases h
    rename_i hlt
    have hlt : st < inp.length := by omega
    have hget : inp[st]! = inp[st] := by simp [hlt]
    rw [hget] at h
    -- the length bytes
    have key : ∀ (lb : Bytes), lb = (inp.drop st).take L → L ≤ inp.length - st → inp[st].toNat ≠ 0 →
        beBytes (beNat lb) = lb ∧ lb.length = L ∧ inp.drop st = lb ++ (inp.drop st).drop L := by
      intro lb hlb hlen hne
      have hlen2 : lb.length = L := by subst hlb; simp; omega
      refine ⟨?_, hlen2, by subst hlb; exact (List.take_append_drop L _).symm⟩
      apply beBytes_beNat
      unfold NoLeadZero
      subst hlb
      rw [drop_eq_cons inp st hlt]
      cases L with
      | zero => omega
      | succ L => 
        simp only [List.take_succ_cons, List.head?_cons, ne_eq, Option.some.injEq]
        intro h0; apply hne; rw [h0]; rfl
    split at h
    · rename_i h1
      subst h1
      split at h
      · cases h
      rename_i hgt
      simp only [Out.ok.injEq, Prod.mk.injEq] at h
      obtain ⟨rfl, rfl, rfl⟩ := h
      obtain ⟨k1, k2, k3⟩ := key _ rfl (by omega) (by omega)
      have e : (inp.drop st).take 1 = [inp[st]] := take_one_drop inp st hlt
      rw [e] at k1 k2 k3
      rw [beNat_single] at k1
      have := inp[st].toNat_lt
      refine ⟨rfl, rfl, by omega, by unfold maxLongLength; omega, by rw [k1]; rfl, _, by rw [k1]; exact k3⟩
    · rename_i h1
      split at h
      · cases h
      rename_i hne
      split at h
      · cases h
      rename_i hle
      split at h
      · cases h
      rename_i hmax
      simp only [Out.ok.injEq, Prod.mk.injEq] at h
      obtain ⟨rfl, rfl, rfl⟩ := h
      rw [List.drop_take] at hmax ⊢
      have e : st + L - st = L := by omega
      rw [e] at hmax ⊢
      obtain ⟨k1, k2, k3⟩ := key _ rfl (by omega) hne
      refine ⟨rfl, rfl, ?_, by omega, by rw [k1]; exact k2, _, by rw [k1]; exact k3⟩
      apply Nat.lt_of_not_le
      intro hc
      have := beBytes_length_le 1 (beNat ((inp.drop st).take L)) (by omega)
      rw [k1, k2] at this
      omega
  · rintro ⟨rfl, rfl, h55, hmax, hlen, rest, hd⟩
    have hne : sz ≠ 0 := by omega
    have hlt : st < inp.length := by
      have := congrArg List.length hd
      simp at this; omega
    have hL8 : L ≤ 8 := by
      rw [← hlen]; apply beBytes_length_le; rw [pow8]; unfold maxLongLength at hmax; omega
    have htake : (inp.drop st).take L = beBytes sz := by
      rw [hd, ← hlen]; simp
    have hlen2 : st + L ≤ inp.length := by
      have := congrArg List.length hd
      simp at this; omega
    have hget : inp[st]! = inp[st] := by simp [hlt]
    have hhead : (beBytes sz).head? = some inp[st] := by
      rw [← htake, drop_eq_cons inp st hlt]
      cases L with
      | zero => omega
      | succ L => rfl
    unfold readLong
    rw [hget, if_neg (by omega)]
    split
    · rename_i h1
      subst h1
      have e : (inp.drop st).take 1 = [inp[st]] := take_one_drop inp st hlt
      rw [e] at htake
      have : inp[st].toNat = sz := by
        rw [← beNat_single, htake, beNat_beBytes]
      rw [this, if_neg (by omega)]
    · have hnz : ¬ inp[st].toNat = 0 := by
        intro h0
        have := noLeadZero_beBytes sz
        unfold NoLeadZero at this
        rw [hhead] at this
        apply this
        congr
        apply UInt8.toNat_inj.mp
        simpa using h0
      rw [if_neg hnz, if_neg (by omega)]
      rw [List.drop_take]
      have e : st + L - st = L := by omega
      rw [e, htake, beNat_beBytes, if_neg (by omega)]


def hbase (isStr : Bool) : Nat := if isStr then 0x80 else 0xc0

/-- declarative description of a successful `readSize inp st = (isStr, ds, sz)` -/
inductive RS (inp : Bytes) (st : Nat) : Bool → Nat → Nat → Prop
  | byte (b : UInt8) (rest : Bytes) : inp.drop st = b :: rest → b.toNat ≤ 0x7f → RS inp st true st 1
  | hdr (isStr : Bool) (n : Nat) (rest : Bytes) : n ≤ maxLongLength →
      inp.drop st = header (hbase isStr) n ++ rest →
      RS inp st isStr (st + (header (hbase isStr) n).length) n

theorem readSize_err_of_ge (inp : Bytes) (st : Nat) (h : inp.length ≤ st) : ∃ e, readSize inp st = .err e := by
  unfold readSize
  split
  all_goals first | exact ⟨_, rfl⟩ | (rw [if_pos (by omega)]; exact ⟨_, rfl⟩)

theorem hbase_true : hbase true = 128 := rfl
theorem hbase_false : hbase false = 192 := rfl
theorem header_short (base n : Nat) (h : n ≤ 55) : header base n = [UInt8.ofNat (base + n)] := by
  unfold header; rw [if_pos h]
theorem header_long (base n : Nat) (h : ¬ n ≤ 55) :
    header base n = UInt8.ofNat (base + 55 + (beBytes n).length) :: beBytes n := by
  unfold header; rw [if_neg h]

theorem beBytes_length_le8 (n : Nat) (h : n ≤ maxLongLength) : (beBytes n).length ≤ 8 := by
  apply beBytes_length_le; rw [pow8]; unfold maxLongLength at h; omega

theorem ofNat_eq_of_toNat_eq (b : UInt8) (n : Nat) (h : b.toNat = n) : UInt8.ofNat n = b := by
  subst h; simp

theorem readSize_RS (inp : Bytes) (st : Nat) (isStr : Bool) (ds sz : Nat)
    (h : readSize inp st = .ok (isStr, ds, sz)) : RS inp st isStr ds sz := by
  have hlt : st < inp.length := by
    apply Nat.lt_of_not_le
    intro hc
    obtain ⟨e, he⟩ := readSize_err_of_ge inp st hc
    rw [he] at h; cases h
  rw [readSize_eq inp st hlt] at h
  have hd := drop_eq_cons inp st hlt
  have hb := inp[st].toNat_lt
  split at h
  · rename_i c
    simp only [Out.ok.injEq, Prod.mk.injEq] at h
    obtain ⟨rfl, rfl, rfl⟩ := h
    exact RS.byte _ _ hd c
  split at h
  · rename_i c1 c
    simp only [Out.ok.injEq, Prod.mk.injEq] at h
    obtain ⟨rfl, rfl, rfl⟩ := h
    have hh : header (hbase true) (inp[st].toNat - 128) = [inp[st]] := by
      rw [hbase_true, header_short _ _ (by omega)]
      rw [ofNat_eq_of_toNat_eq inp[st] _ (by omega)]
    have := RS.hdr (inp := inp) (st := st) true (inp[st].toNat - 128) (inp.drop (st+1))
      (by unfold maxLongLength; omega) (by rw [hh]; exact hd)
    rw [hh] at this
    exact this
  split at h
  · rename_i c1 c2 c
    simp only [Out.ok.injEq, Prod.mk.injEq] at h
    obtain ⟨rfl, rfl, rfl⟩ := h
    have hh : header (hbase false) (inp[st].toNat - 192) = [inp[st]] := by
      rw [hbase_false, header_short _ _ (by omega)]
      rw [ofNat_eq_of_toNat_eq inp[st] _ (by omega)]
    have := RS.hdr (inp := inp) (st := st) false (inp[st].toNat - 192) (inp.drop (st+1))
      (by unfold maxLongLength; omega) (by rw [hh]; exact hd)
    rw [hh] at this
    exact this
  rename_i c1 c2 c3
  rw [readLong_ok_iff] at h
  · obtain ⟨rfl, rfl, h55, hmax, hlen, rest, hdr⟩ := h
    have hh : header (hbase (decide (inp[st].toNat ≥ 184 ∧ inp[st].toNat ≤ 191))) sz = inp[st] :: beBytes sz := by
      rw [header_long _ _ (by omega)]
      refine congrArg (· :: beBytes sz) ?_
      apply ofNat_eq_of_toNat_eq
      rw [hlen]
      unfold hbase
      split <;> rename_i c4 <;> simp at c4 <;> split <;> omega
    have := RS.hdr (inp := inp) (st := st) (decide (inp[st].toNat ≥ 184 ∧ inp[st].toNat ≤ 191)) sz rest hmax
      (by rw [hh, hd, hdr]; rfl)
    rw [hh] at this
    simp only [List.length_cons, hlen] at this
    have e : st + 1 + (if inp[st].toNat ≥ 248 then inp[st].toNat - 247 else inp[st].toNat - 183) =
       st + ((if inp[st].toNat ≥ 248 then inp[st].toNat - 247 else inp[st].toNat - 183) + 1) := by omega
    rw [e]; exact this
  · split <;> omega

theorem RS_readSize (inp : Bytes) (st : Nat) (isStr : Bool) (ds sz : Nat)
    (h : RS inp st isStr ds sz) : readSize inp st = .ok (isStr, ds, sz) := by
  cases h with
  | byte b rest hd hb =>
    have h0 : inp[st]? = some b := by
      have := List.getElem?_drop (xs := inp) (i := st) (j := 0)
      rw [hd] at this; simpa using this.symm
    obtain ⟨hlt, hv⟩ := List.getElem?_eq_some_iff.mp h0
    rw [readSize_eq inp st hlt, hv, if_pos hb]
  | hdr _ _ rest hn hd =>
    by_cases h55 : sz ≤ 55
    · have hh : header (hbase isStr) sz = [UInt8.ofNat (hbase isStr + sz)] := by first | exact header_short _ _ h55 | exact header_long _ _ h55
      rw [hh] at hd ⊢
      have h0 : inp[st]? = some (UInt8.ofNat (hbase isStr + sz)) := by
        have := List.getElem?_drop (xs := inp) (i := st) (j := 0)
        rw [hd] at this; simpa using this.symm
      obtain ⟨hlt, hv⟩ := List.getElem?_eq_some_iff.mp h0
      rw [readSize_eq inp st hlt, hv]
      cases isStr
      · have : (UInt8.ofNat (hbase false + sz)).toNat = 192 + sz := by
          simp [hbase]; omega
        rw [this, if_neg (by omega), if_neg (by omega), if_pos (by omega)]
        simp
      · have : (UInt8.ofNat (hbase true + sz)).toNat = 128 + sz := by
          simp [hbase]; omega
        rw [this, if_neg (by omega), if_pos (by omega)]
        simp
    · have hh : header (hbase isStr) sz = UInt8.ofNat (hbase isStr + 55 + (beBytes sz).length) :: beBytes sz := by
        simp [header, h55]
      rw [hh] at hd ⊢
      have h0 : inp[st]? = some (UInt8.ofNat (hbase isStr + 55 + (beBytes sz).length)) := by
        have := List.getElem?_drop (xs := inp) (i := st) (j := 0)
        rw [hd] at this; simpa using this.symm
      obtain ⟨hlt, hv⟩ := List.getElem?_eq_some_iff.mp h0
      have hd1 : inp.drop (st + 1) = beBytes sz ++ rest := by
        have := congrArg (List.drop 1) hd
        simpa [Nat.add_comm] using this
      have hL1 := beBytes_length_pos sz (by omega)
      have hL8 := beBytes_length_le8 sz hn
      rw [readSize_eq inp st hlt, hv]
      generalize hL : (beBytes sz).length = L at *
      cases isStr
      · have : (UInt8.ofNat (hbase false + 55 + L)).toNat = 247 + L := by
          simp [hbase]; omega
        rw [this, if_neg (by omega), if_neg (by omega), if_neg (by omega)]
        rw [readLong_ok_iff _ _ _ _ (by split <;> omega)]
        refine ⟨by simp; omega, ?_, by omega, hn, ?_, rest, hd1⟩
        · rw [List.length_cons, hL]; split <;> omega
        · rw [hL]; split <;> omega
      · have : (UInt8.ofNat (hbase true + 55 + L)).toNat = 183 + L := by
          simp [hbase]; omega
        rw [this, if_neg (by omega), if_neg (by omega), if_neg (by omega)]
        rw [readLong_ok_iff _ _ _ _ (by split <;> omega)]
        refine ⟨by simp; omega, ?_, by omega, hn, ?_, rest, hd1⟩
        · rw [List.length_cons, hL]; split <;> omega
        · rw [hL]; split <;> omega

/-! ### strings -/

theorem bind_eq_ok {α β} (x : Out α) (f : α → Out β) (b : β) :
    (x >>= f) = .ok b ↔ ∃ a, x = .ok a ∧ f a = .ok b := by
  cases x with
  | ok a => simp
  | err e => simp
  | goPanic => exact ⟨(fun h => nomatch h), (fun h => match h with | ⟨_, h, _⟩ => nomatch h)⟩
  | diverge => exact ⟨(fun h => nomatch h), (fun h => match h with | ⟨_, h, _⟩ => nomatch h)⟩

theorem encodeString_single_low (b : UInt8) (h : b.toNat ≤ 0x7f) : encodeString [b] = [b] := by
  simp [encodeString, h]

theorem encodeString_single_high (b : UInt8) (h : ¬ b.toNat ≤ 0x7f) :
    encodeString [b] = header 0x80 1 ++ [b] := by
  simp [encodeString, h]

theorem encodeString_other (s : Bytes) (h : s.length ≠ 1) : encodeString s = header 0x80 s.length ++ s := by
  unfold encodeString
  split
  · simp at h
  · rfl

theorem header_length_pos (base n : Nat) : 1 ≤ (header base n).length := by
  unfold header; split <;> simp

theorem header_length_le (base n : Nat) (h : n ≤ maxLongLength) : (header base n).length ≤ 9 := by
  unfold header; split
  · simp
  · have := beBytes_length_le8 n h; simp; omega

/-- `decodeString` on `header ++ payload ++ rest` where the payload is not a lone byte below 0x80 -/
theorem decodeString_hdr (s rest : Bytes) (hs : s.length ≤ maxLongLength)
    (h1 : ∀ b, s = [b] → ¬ b.toNat ≤ 0x7f) :
    decodeString (header 0x80 s.length ++ s ++ rest) 0 = .ok (s, (header 0x80 s.length).length + s.length) := by
  have hrs := RS_readSize (header 0x80 s.length ++ s ++ rest) 0 true _ _
    (RS.hdr true s.length (s ++ rest) hs (by simp [hbase_true]))
  rw [hbase_true] at hrs
  have hp := header_length_pos 0x80 s.length
  generalize hH : header 0x80 s.length = H at *
  unfold decodeString
  rw [hrs]
  simp only [ok_bind, Nat.zero_add, Bool.not_true, Bool.false_eq_true, if_false]
  rw [if_neg (by simp), if_neg (by omega)]
  have hsl : slice (H ++ s ++ rest) H.length (H.length + s.length) = .ok s := by
    rw [slice_eq _ _ _ (by omega) (by simp)]
    simp [List.take_append]
  by_cases hl : s.length = 1
  · obtain ⟨b, rfl⟩ := List.length_eq_one_iff.mp hl
    have hb := h1 b rfl
    rw [if_pos hl, idx_eq _ _ (by simp)]
    simp only [ok_bind]
    have : (H ++ [b] ++ rest)[H.length] = b := by simp
    rw [this, if_neg (by simp [hb]), hsl]
    rfl
  · rw [if_neg hl]
    simp only [pure_eq_ok, ok_bind]
    rw [if_neg (by simp [hl]), hsl]
    rfl

theorem decodeString_byte (b : UInt8) (rest : Bytes) (hb : b.toNat ≤ 0x7f) :
    decodeString (b :: rest) 0 = .ok ([b], 1) := by
  have hrs := RS_readSize (b :: rest) 0 true _ _ (RS.byte b rest (by simp) hb)
  unfold decodeString
  rw [hrs]
  simp [idx]

theorem rlpDecodeString_encodeString (s : Bytes) (hs : s.length ≤ maxLongLength) :
    rlpDecodeString (encodeString s) = .ok s := by
  unfold rlpDecodeString
  by_cases h : ∃ b, s = [b] ∧ b.toNat ≤ 0x7f
  · obtain ⟨b, rfl, hb⟩ := h
    rw [encodeString_single_low b hb, decodeString_byte b [] hb]
    simp
  · have h1 : ∀ b, s = [b] → ¬ b.toNat ≤ 0x7f := fun b hb hc => h ⟨b, hb, hc⟩
    have e : encodeString s = header 0x80 s.length ++ s ++ [] := by
      by_cases hl : s.length = 1
      · obtain ⟨b, rfl⟩ := List.length_eq_one_iff.mp hl
        rw [encodeString_single_high b (h1 b rfl)]; simp
      · rw [encodeString_other s hl]; simp
    rw [e, decodeString_hdr s [] hs h1]
    simp


theorem decodeString_inv (inp s : Bytes) (n : Nat) (h : decodeString inp 0 = .ok (s, n)) :
    inp.take n = encodeString s ∧ n ≤ inp.length ∧ s.length ≤ maxLongLength ∧ n = (encodeString s).length := by
  unfold decodeString at h
  rw [bind_eq_ok] at h
  obtain ⟨⟨isStr, ds, sz⟩, hrs, h⟩ := h
  have hRS := readSize_RS _ _ _ _ _ hrs
  simp only [] at h
  cases hRS with
  | byte b rest hd hb =>
    simp only [List.drop_zero] at hd
    subst hd
    simp [idx] at h
    obtain ⟨rfl, rfl⟩ := h
    rw [encodeString_single_low b hb]
    simp [maxLongLength]
  | hdr _ _ rest hn hd =>
    simp only [List.drop_zero] at hd
    have hp := header_length_pos (hbase isStr) sz
    cases isStr with
    | false => simp at h
    | true =>
    rw [hbase_true] at hd hp h
    generalize hH : header 128 sz = H at *
    subst hd
    simp only [Bool.not_true, Bool.false_eq_true, if_false, Nat.zero_add] at h
    split at h
    · cases h
    rename_i hb
    simp only [List.length_append] at hb
    rw [if_neg (by omega)] at h
    have hsl : slice (H ++ rest) H.length (H.length + sz) = .ok (rest.take sz) := by
      rw [slice_eq _ _ _ (by omega) (by simp; omega)]
      simp [List.take_append]
    have fin : ∀ s n, Out.ok (rest.take sz, H.length + sz - 0) = Out.ok (s, n) → 
        (sz = 1 → ∀ b, rest.take sz = [b] → ¬ b.toNat ≤ 0x7f) →
        (H ++ rest).take n = encodeString s ∧ n ≤ (H ++ rest).length ∧ s.length ≤ maxLongLength ∧ n = (encodeString s).length := by
      intro s n h h1
      simp only [Out.ok.injEq, Prod.mk.injEq] at h
      obtain ⟨rfl, rfl⟩ := h
      have hl : (rest.take sz).length = sz := by simp; omega
      have e : encodeString (rest.take sz) = H ++ rest.take sz := by
        by_cases hl1 : sz = 1
        · obtain ⟨b, hb⟩ := List.length_eq_one_iff.mp (hl.trans hl1)
          rw [hb, encodeString_single_high b (h1 hl1 b hb), ← hH, hl1]
        · rw [encodeString_other _ (by omega), hl, hH]
      rw [e]
      refine ⟨by simp [List.take_append, List.take_of_length_le], by simp; omega, by omega, by simp; omega⟩
    by_cases hl : sz = 1
    · rw [if_pos hl, idx_eq _ _ (by simp; omega)] at h
      simp only [ok_bind] at h
      split at h
      · cases h
      rename_i hc
      rw [hsl] at h
      apply fin _ _ h
      intro _ b hb
      have : (H ++ rest)[H.length]'(by simp; omega) = b := by
        rw [List.getElem_append_right (by omega)]
        have := congrArg (·[0]?) hb
        simp [hl] at this
        obtain ⟨_, this⟩ := List.getElem?_eq_some_iff.mp this
        simpa using this
      rw [this] at hc
      omega
    · rw [if_neg hl] at h
      simp only [pure_eq_ok, ok_bind] at h
      rw [if_neg (by simp [hl]), hsl] at h
      exact fin _ _ h (fun h => absurd h hl)

theorem rlpDecodeString_inv (inp s : Bytes) (h : rlpDecodeString inp = .ok s) :
    inp = encodeString s ∧ s.length ≤ maxLongLength := by
  unfold rlpDecodeString at h
  rw [bind_eq_ok] at h
  obtain ⟨⟨s', n⟩, hd, h⟩ := h
  simp only [] at h
  split at h
  · cases h
  rename_i hn
  simp only [pure_eq_ok, Out.ok.injEq] at h
  subst h
  have hn : n = inp.length := by simpa using hn
  obtain ⟨h1, _, h3, _⟩ := decodeString_inv inp s' n hd
  rw [hn, List.take_length] at h1
  exact ⟨h1, h3⟩

/-! ### lists of frames -/

theorem isFrame_length_pos (f : Bytes) (h : IsFrame f) : 1 ≤ f.length := by
  rcases h with ⟨b, rfl, _⟩ | ⟨p, _, rfl | rfl⟩
  · simp
  · have := header_length_pos 0x80 p.length; simp; omega
  · have := header_length_pos 0xc0 p.length; simp; omega

/-- reading the header of a frame that sits at `st` -/
theorem frame_readSize (inp : Bytes) (st : Nat) (f rest : Bytes) (hf : IsFrame f)
    (hd : inp.drop st = f ++ rest) :
    ∃ isStr ds sz, readSize inp st = .ok (isStr, ds, sz) ∧ ds + sz = st + f.length ∧ st ≤ ds := by
  rcases hf with ⟨b, rfl, hb⟩ | ⟨p, hp, rfl | rfl⟩
  · exact ⟨true, st, 1, RS_readSize _ _ _ _ _ (RS.byte b rest (by simpa using hd) hb), by simp, Nat.le_refl _⟩
  · refine ⟨true, _, _, RS_readSize _ _ _ _ _ (RS.hdr true p.length (p ++ rest) hp (by simpa [hbase_true] using hd)), ?_, by omega⟩
    simp [hbase_true]; omega
  · refine ⟨false, _, _, RS_readSize _ _ _ _ _ (RS.hdr false p.length (p ++ rest) hp (by simpa [hbase_false] using hd)), ?_, by omega⟩
    simp [hbase_false]; omega

/-- a successful `readSize` whose announced payload fits describes a frame -/
theorem RS_frame (inp : Bytes) (st : Nat) (isStr : Bool) (ds sz : Nat) (h : RS inp st isStr ds sz)
    (hb : ¬ (ds > inp.length ∨ sz > inp.length - ds)) :
    IsFrame ((inp.drop st).take (ds + sz - st)) ∧ st < ds + sz ∧ ds + sz ≤ inp.length ∧ st ≤ ds ∧
      sz ≤ maxLongLength := by
  cases h with
  | byte b rest hd hb1 =>
    refine ⟨?_, by omega, by omega, by omega, by simp [maxLongLength]⟩
    rw [hd]
    have : st + 1 - st = 1 := by omega
    rw [this]
    exact .inl ⟨b, rfl, hb1⟩
  | hdr _ _ rest hn hd =>
    have hlen := congrArg List.length hd
    simp only [List.length_drop, List.length_append] at hlen
    have hp := header_length_pos (hbase isStr) sz
    refine ⟨?_, by omega, by omega, by omega, hn⟩
    rw [hd]
    have : st + (header (hbase isStr) sz).length + sz - st = (header (hbase isStr) sz).length + sz := by omega
    rw [this, List.take_append, List.take_of_length_le (by omega)]
    have e : (header (hbase isStr) sz).length + sz - (header (hbase isStr) sz).length = sz := by omega
    rw [e]
    have hl : (rest.take sz).length = sz := by simp; omega
    right
    refine ⟨rest.take sz, by omega, ?_⟩
    rw [hl]
    cases isStr
    · right; rfl
    · left; rfl

theorem slice_eq' (inp : Bytes) (a b : Nat) (h1 : a ≤ b) (h2 : b ≤ inp.length) :
    slice inp a b = .ok ((inp.drop a).take (b - a)) := by
  rw [slice_eq inp a b h1 h2, List.drop_take]

/-- forward: the loop walks over a sequence of frames -/
theorem decodeListLoop_frames (inp : Bytes) (lds : Nat) (items : List Bytes) :
    ∀ (fuel : Nat) (pre post : Bytes) (itemEnd read : Nat) (acc : List Bytes),
    (∀ f ∈ items, IsFrame f) → inp = pre ++ items.flatten ++ post → lds = read + items.flatten.length →
    items.length < fuel →
    decodeListLoop inp lds fuel pre.length itemEnd read acc =
      .ok (acc ++ items, if items = [] then itemEnd else pre.length + items.flatten.length, lds) := by
  induction items with
  | nil =>
    intro fuel pre post itemEnd read acc _ _ hl hfuel
    cases fuel with
    | zero => simp at hfuel
    | succ fuel =>
      unfold decodeListLoop
      simp at hl
      rw [if_neg (by omega)]
      simp [hl]
  | cons f tl ih =>
    intro fuel pre post itemEnd read acc hfr hinp hl hfuel
    cases fuel with
    | zero => simp at hfuel
    | succ fuel =>
      have hf := hfr f (by simp)
      have hfp := isFrame_length_pos f hf
      have hd : inp.drop pre.length = f ++ (tl.flatten ++ post) := by
        rw [hinp]; simp
      obtain ⟨isStr, ds, sz, hrs, hsum, hle⟩ := frame_readSize inp pre.length f _ hf hd
      have hlen : inp.length = pre.length + f.length + tl.flatten.length + post.length := by
        rw [hinp]; simp; omega
      simp only [List.flatten_cons, List.length_append] at hl
      unfold decodeListLoop
      rw [if_pos (by omega), hrs]
      simp only [ok_bind]
      rw [if_neg (by omega), slice_eq' _ _ _ (by omega) (by omega)]
      simp only [ok_bind]
      have e1 : ds + sz - pre.length = f.length := by omega
      have e2 : (inp.drop pre.length).take f.length = f := by rw [hd]; simp
      rw [e1, e2, hsum]
      have := ih fuel (pre ++ f) post (pre.length + f.length) (read + f.length) (acc ++ [f])
        (fun g hg => hfr g (by simp [hg])) (by rw [hinp]; simp) (by omega) (by simpa using hfuel)
      simp only [List.length_append] at this
      rw [this]
      simp only [List.append_assoc, List.singleton_append, reduceCtorEq, if_false, List.flatten_cons,
        List.length_append, Out.ok.injEq, Prod.mk.injEq, true_and, and_true]
      split
      · rename_i h; subst h; simp
      · omega


theorem decodeList_encodeList (items : List Bytes) (rest : Bytes) (hfr : ∀ f ∈ items, IsFrame f)
    (hlen : items.flatten.length ≤ maxLongLength) :
    decodeList (encodeList items ++ rest) 0 = .ok (items, (encodeList items).length) := by
  unfold encodeList
  have hrs := RS_readSize (header 0xc0 items.flatten.length ++ items.flatten ++ rest) 0 false _ _
    (RS.hdr false items.flatten.length (items.flatten ++ rest) hlen (by simp [hbase_false]))
  rw [hbase_false] at hrs
  have hp := header_length_pos 0xc0 items.flatten.length
  generalize hH : header 0xc0 items.flatten.length = H at *
  unfold decodeList
  rw [hrs]
  simp only [ok_bind, Nat.zero_add, Bool.false_eq_true, if_false]
  by_cases h0 : items.flatten.length = 0
  · rw [if_pos h0]
    have : items = [] := by
      cases items with
      | nil => rfl
      | cons f tl =>
        have := isFrame_length_pos f (hfr f (by simp))
        simp only [List.flatten_cons, List.length_append] at h0; omega
    subst this
    rw [← hH]
    simp [header]
  · rw [if_neg h0, if_neg (by simp)]
    have := decodeListLoop_frames (H ++ items.flatten ++ rest) items.flatten.length items
      ((H ++ items.flatten ++ rest).length + 1) H rest 0 0 [] hfr rfl (by simp) (by
        have : items.length ≤ items.flatten.length := by
          clear hrs hH h0 hlen
          induction items with
          | nil => simp
          | cons f tl ih =>
            have := isFrame_length_pos f (hfr f (by simp))
            have := ih (fun g hg => hfr g (by simp [hg]))
            simp only [List.flatten_cons, List.length_append, List.length_cons]; omega
        simp only [List.length_append]; omega)
    rw [this]
    simp only [ok_bind, List.nil_append]
    rw [if_neg (by simp)]
    have : items ≠ [] := by rintro rfl; simp at h0
    simp [this]

theorem rlpDecodeList_encodeList (items : List Bytes) (hfr : ∀ f ∈ items, IsFrame f)
    (hlen : items.flatten.length ≤ maxLongLength) :
    rlpDecodeList (encodeList items) = .ok items := by
  unfold rlpDecodeList
  have := decodeList_encodeList items [] hfr hlen
  rw [List.append_nil] at this
  rw [this]
  simp

/-- inversion: whatever the loop returns is a sequence of frames read consecutively -/
theorem decodeListLoop_inv (inp : Bytes) (lds : Nat) :
    ∀ (fuel itemStart itemEnd read : Nat) (acc items : List Bytes) (ie rd : Nat),
    decodeListLoop inp lds fuel itemStart itemEnd read acc = .ok (items, ie, rd) →
    ∃ new : List Bytes, items = acc ++ new ∧ (∀ f ∈ new, IsFrame f) ∧ rd = read + new.flatten.length ∧
      ie = (if new = [] then itemEnd else itemStart + new.flatten.length) ∧
      new.flatten = (inp.drop itemStart).take new.flatten.length ∧
      (new ≠ [] → itemStart + new.flatten.length ≤ inp.length) ∧ ¬ rd < lds := by
  intro fuel
  induction fuel with
  | zero => intro _ _ _ _ _ _ _ h; unfold decodeListLoop at h; cases h
  | succ fuel ih =>
    intro itemStart itemEnd read acc items ie rd h
    unfold decodeListLoop at h
    split at h
    · rw [bind_eq_ok] at h
      obtain ⟨⟨isStr, ds, sz⟩, hrs, h⟩ := h
      have hRS := readSize_RS _ _ _ _ _ hrs
      simp only [] at h
      split at h
      · cases h
      rename_i hb
      obtain ⟨hfr, h1, h2, h3, _⟩ := RS_frame inp itemStart isStr ds sz hRS hb
      rw [slice_eq' _ _ _ (by omega) (by omega)] at h
      simp only [ok_bind] at h
      obtain ⟨new, hitems, hnew, hrd, hie, hflat, hlen, hdone⟩ := ih _ _ _ _ _ _ _ h
      generalize hitem : (inp.drop itemStart).take (ds + sz - itemStart) = item at *
      have hil : item.length = ds + sz - itemStart := by subst hitem; simp; omega
      refine ⟨item :: new, by simp [hitems], ?_, ?_, ?_, ?_, ?_, hdone⟩
      · intro f hf
        rcases List.mem_cons.mp hf with rfl | hf
        · exact hfr
        · exact hnew f hf
      · simp only [List.flatten_cons, List.length_append]; omega
      · simp only [reduceCtorEq, if_false, List.flatten_cons, List.length_append]
        rw [hie]; split
        · rename_i hn; subst hn; simp; omega
        · omega
      · simp only [List.flatten_cons, List.length_append]
        rw [List.take_add, List.drop_drop, hil]
        have : itemStart + (ds + sz - itemStart) = ds + sz := by omega
        rw [this, ← hflat, hitem]
      · intro _
        simp only [List.flatten_cons, List.length_append]
        by_cases hn : new = []
        · subst hn; simp; omega
        · have := hlen hn; omega
    · rename_i hdone
      simp only [Out.ok.injEq, Prod.mk.injEq] at h
      obtain ⟨rfl, rfl, rfl⟩ := h
      exact ⟨[], by simp, by simp, by simp, by simp, by simp, by simp, hdone⟩


theorem decodeList_inv (inp : Bytes) (items : List Bytes) (n : Nat) (h : decodeList inp 0 = .ok (items, n)) :
    inp.take n = encodeList items ∧ n ≤ inp.length ∧ (∀ f ∈ items, IsFrame f) ∧
      items.flatten.length ≤ maxLongLength ∧ n = (encodeList items).length := by
  unfold decodeList at h
  rw [bind_eq_ok] at h
  obtain ⟨⟨isStr, ds, sz⟩, hrs, h⟩ := h
  have hRS := readSize_RS _ _ _ _ _ hrs
  simp only [] at h
  cases hRS with
  | byte b rest hd hb => simp at h
  | hdr _ _ rest hn hd =>
    simp only [List.drop_zero] at hd
    have hp := header_length_pos (hbase isStr) sz
    cases isStr with
    | true => simp at h
    | false =>
    rw [hbase_false] at hd hp h
    simp only [Bool.false_eq_true, if_false, Nat.zero_add] at h
    unfold encodeList
    split at h
    · rename_i h0
      subst h0
      simp only [pure_eq_ok, Out.ok.injEq, Prod.mk.injEq] at h
      obtain ⟨rfl, rfl⟩ := h
      have hh : header 192 0 = [0xc0] := by simp [header]
      rw [hh] at hd
      subst hd
      simp [hh, maxLongLength]
    rename_i h0
    generalize hH : header 192 sz = H at *
    subst hd
    split at h
    · cases h
    rename_i hb
    simp only [List.length_append] at hb
    rw [bind_eq_ok] at h
    obtain ⟨⟨items', ie, rd⟩, hloop, h⟩ := h
    simp only [] at h
    split at h
    · cases h
    rename_i hrd
    simp only [pure_eq_ok, Out.ok.injEq, Prod.mk.injEq] at h
    obtain ⟨rfl, rfl⟩ := h
    obtain ⟨new, hitems, hnew, hrd2, hie, hflat, hlen, _⟩ := decodeListLoop_inv _ _ _ _ _ _ _ _ _ _ hloop
    simp only [List.nil_append] at hitems
    subst hitems
    have hrd : rd = sz := by simpa using hrd
    have hne : items' ≠ [] := by rintro rfl; simp at hrd2; omega
    rw [if_neg hne] at hie
    have hlen := hlen hne
    simp only [List.length_append] at hlen
    have hfl : items'.flatten.length = sz := by omega
    rw [hfl] at hflat hie ⊢
    subst hie
    have e : (H ++ rest).drop H.length = rest := by simp
    rw [e] at hflat
    rw [hflat, ← hH]
    rw [hH]
    refine ⟨?_, by simp only [List.length_append]; omega, hnew, hn, ?_⟩
    · simp [List.take_append, List.take_of_length_le]
    · have : (rest.take sz).length = sz := by rw [← hflat]; exact hfl
      simp only [List.length_append, this]; omega

theorem rlpDecodeList_inv (inp : Bytes) (items : List Bytes) (h : rlpDecodeList inp = .ok items) :
    inp = encodeList items ∧ (∀ f ∈ items, IsFrame f) ∧ items.flatten.length ≤ maxLongLength := by
  unfold rlpDecodeList at h
  rw [bind_eq_ok] at h
  obtain ⟨⟨xs, n⟩, hd, h⟩ := h
  simp only [] at h
  split at h
  · cases h
  rename_i hn
  simp only [pure_eq_ok, Out.ok.injEq] at h
  subst h
  have hn : n = inp.length := by simpa using hn
  obtain ⟨h1, _, h3, h4, _⟩ := decodeList_inv inp xs n hd
  rw [hn, List.take_length] at h1
  exact ⟨h1, h3, h4⟩

/-! ### the executable oracles of `Verif.Spec.Rlp` agree with the declarative statements -/

theorem encodeString_inj (s t : Bytes) (hs : s.length ≤ maxLongLength) (ht : t.length ≤ maxLongLength)
    (h : encodeString s = encodeString t) : s = t := by
  have h1 := rlpDecodeString_encodeString s hs
  have h2 := rlpDecodeString_encodeString t ht
  rw [h, h2] at h1
  cases h1; rfl

theorem encodeList_inj (xs ys : List Bytes) (hx : ∀ f ∈ xs, IsFrame f) (hy : ∀ f ∈ ys, IsFrame f)
    (hxl : xs.flatten.length ≤ maxLongLength) (hyl : ys.flatten.length ≤ maxLongLength)
    (h : encodeList xs = encodeList ys) : xs = ys := by
  have h1 := rlpDecodeList_encodeList xs hx hxl
  have h2 := rlpDecodeList_encodeList ys hy hyl
  rw [h, h2] at h1
  cases h1; rfl

/-- the encoding of a string is a prefix of at most nine bytes followed by the string -/
theorem encodeString_suffix (s : Bytes) (hs : s.length ≤ maxLongLength) :
    ∃ pre, encodeString s = pre ++ s ∧ pre.length ≤ 9 := by
  unfold encodeString
  split
  · split
    · exact ⟨[], rfl, by simp⟩
    · exact ⟨_, rfl, header_length_le _ _ (by simp [maxLongLength])⟩
  · exact ⟨_, rfl, header_length_le _ _ hs⟩

theorem specDecodeString_sound (inp s : Bytes) (h : specDecodeString inp = some s) :
    inp = encodeString s ∧ s.length ≤ maxLongLength := by
  unfold specDecodeString at h
  obtain ⟨k, _, hk⟩ := List.exists_of_findSome?_eq_some h
  simp only [] at hk
  split at hk
  · rename_i hc
    simp only [Bool.and_eq_true, decide_eq_true_eq, beq_iff_eq] at hc
    cases hk
    exact ⟨hc.2.symm, hc.1.2⟩
  · cases hk

theorem specDecodeString_iff (inp s : Bytes) :
    specDecodeString inp = some s ↔ (inp = encodeString s ∧ s.length ≤ maxLongLength) := by
  constructor
  · exact specDecodeString_sound inp s
  · rintro ⟨rfl, hs⟩
    obtain ⟨pre, hpre, hl⟩ := encodeString_suffix s hs
    have hsome : (specDecodeString (encodeString s)).isSome := by
      unfold specDecodeString
      rw [List.findSome?_isSome_iff]
      refine ⟨pre.length, by simp; omega, ?_⟩
      simp only []
      rw [hpre]
      have : (pre ++ s).drop pre.length = s := by simp
      rw [this, ← hpre]
      have : pre.length ≤ (encodeString s).length := by rw [hpre]; simp
      simp [hs, this]
    obtain ⟨s', hs'⟩ := Option.isSome_iff_exists.mp hsome
    obtain ⟨h1, h2⟩ := specDecodeString_sound _ _ hs'
    rw [hs', encodeString_inj s s' hs h2 h1]

theorem isFrameB_iff (f : Bytes) : isFrameB f = true ↔ IsFrame f := by
  unfold isFrameB IsFrame
  rw [Bool.or_eq_true]
  constructor
  · rintro (h | h)
    · left
      split at h
      · rename_i b; exact ⟨b, rfl, by simpa using h⟩
      · cases h
    · right
      rw [List.any_eq_true] at h
      obtain ⟨k, _, hk⟩ := h
      simp only [Bool.and_eq_true, Bool.or_eq_true, decide_eq_true_eq, beq_iff_eq] at hk
      obtain ⟨⟨hk1, hk2⟩, hn, hh⟩ := hk
      refine ⟨f.drop k, by rw [List.length_drop]; exact hn, ?_⟩
      have : (f.drop k).length = f.length - k := by simp
      rw [this]
      rcases hh with hh | hh
      · left; rw [← hh]; simp
      · right; rw [← hh]; simp
  · rintro (⟨b, rfl, hb⟩ | ⟨p, hp, hh⟩)
    · left; simpa using hb
    · right
      rw [List.any_eq_true]
      have key : ∀ base, f = header base p.length ++ p →
          (f.take (header base p.length).length = header base p.length) ∧
          f.length - (header base p.length).length = p.length ∧ (header base p.length).length ≤ f.length := by
        intro base hf
        subst hf
        simp
      rcases hh with hh | hh
      · obtain ⟨k1, k2, k3⟩ := key _ hh
        refine ⟨(header 0x80 p.length).length, ?_, ?_⟩
        · have := header_length_le 0x80 p.length hp
          simp; omega
        · have := header_length_pos 0x80 p.length
          simp only [Bool.and_eq_true, Bool.or_eq_true, decide_eq_true_eq, beq_iff_eq]
          rw [k2]
          exact ⟨⟨this, k3⟩, hp, .inl k1⟩
      · obtain ⟨k1, k2, k3⟩ := key _ hh
        refine ⟨(header 0xc0 p.length).length, ?_, ?_⟩
        · have := header_length_le 0xc0 p.length hp
          simp; omega
        · have := header_length_pos 0xc0 p.length
          simp only [Bool.and_eq_true, Bool.or_eq_true, decide_eq_true_eq, beq_iff_eq]
          rw [k2]
          exact ⟨⟨this, k3⟩, hp, .inr k1⟩


theorem length_le_flatten_length (items : List Bytes) (hfr : ∀ f ∈ items, IsFrame f) :
    items.length ≤ items.flatten.length := by
  induction items with
  | nil => simp
  | cons f tl ih =>
    have := isFrame_length_pos f (hfr f (by simp))
    have := ih (fun g hg => hfr g (by simp [hg]))
    simp only [List.flatten_cons, List.length_append, List.length_cons]; omega

theorem splitFrames_nil (fuel : Nat) : splitFrames fuel [] = some [] := by
  cases fuel <;> rfl

theorem splitFrames_zero_cons (a : UInt8) (p : Bytes) : splitFrames 0 (a :: p) = none := rfl

theorem splitFrames_succ_cons (fuel : Nat) (a : UInt8) (p : Bytes) :
    splitFrames (fuel + 1) (a :: p) =
      (List.range ((a :: p).length + 1)).findSome? fun l =>
        if decide (1 ≤ l) && isFrameB ((a :: p).take l) then
          (splitFrames fuel ((a :: p).drop l)).map ((a :: p).take l :: ·)
        else none := rfl

theorem splitFrames_sound : ∀ (fuel : Nat) (p : Bytes) (items : List Bytes),
    splitFrames fuel p = some items → items.flatten = p ∧ ∀ f ∈ items, IsFrame f := by
  intro fuel
  induction fuel with
  | zero =>
    intro p items h
    cases p with
    | nil => rw [splitFrames_nil] at h; cases h; simp
    | cons a p => rw [splitFrames_zero_cons] at h; cases h
  | succ fuel ih =>
    intro p items h
    cases p with
    | nil => rw [splitFrames_nil] at h; cases h; simp
    | cons a p =>
      rw [splitFrames_succ_cons] at h
      generalize a :: p = q at h ⊢
      obtain ⟨l, _, hl⟩ := List.exists_of_findSome?_eq_some h
      split at hl
      · rename_i hc
        simp only [Bool.and_eq_true, decide_eq_true_eq] at hc
        rw [Option.map_eq_some_iff] at hl
        obtain ⟨tl, htl, rfl⟩ := hl
        obtain ⟨h1, h2⟩ := ih _ _ htl
        refine ⟨by simp [h1], ?_⟩
        intro f hf
        rcases List.mem_cons.mp hf with rfl | hf
        · exact (isFrameB_iff _).mp hc.2
        · exact h2 f hf
      · cases hl

theorem splitFrames_isSome (items : List Bytes) (hfr : ∀ f ∈ items, IsFrame f) :
    ∀ fuel, items.length ≤ fuel → (splitFrames fuel items.flatten).isSome := by
  induction items with
  | nil => intro fuel _; simp [splitFrames_nil]
  | cons f tl ih =>
    intro fuel hfuel
    have hf := hfr f (by simp)
    have hfp := isFrame_length_pos f hf
    cases fuel with
    | zero => simp at hfuel
    | succ fuel =>
      simp only [List.flatten_cons]
      have e1 : (f ++ tl.flatten).take f.length = f := by simp
      have e2 : (f ++ tl.flatten).drop f.length = tl.flatten := by simp
      generalize hq : f ++ tl.flatten = q at *
      have hlen : f.length ≤ q.length := by rw [← hq]; simp
      cases q with
      | nil => simp only [List.length_nil] at hlen; omega
      | cons a p =>
        rw [splitFrames_succ_cons, List.findSome?_isSome_iff]
        refine ⟨f.length, by simp only [List.mem_range]; omega, ?_⟩
        rw [e1, e2, (isFrameB_iff f).mpr hf]
        have := ih (fun g hg => hfr g (by simp [hg])) fuel (by simpa using hfuel)
        simp [hfp, this]

theorem specDecodeList_sound (inp : Bytes) (items : List Bytes) (h : specDecodeList inp = some items) :
    inp = encodeList items ∧ (∀ f ∈ items, IsFrame f) ∧ items.flatten.length ≤ maxLongLength := by
  unfold specDecodeList at h
  obtain ⟨k, _, hk⟩ := List.exists_of_findSome?_eq_some h
  simp only [] at hk
  split at hk
  · rename_i hc
    simp only [Bool.and_eq_true, decide_eq_true_eq, beq_iff_eq] at hc
    obtain ⟨h1, h2⟩ := splitFrames_sound _ _ _ hk
    refine ⟨?_, h2, by rw [h1]; exact hc.1.2⟩
    unfold encodeList
    rw [h1, ← hc.2]
    simp
  · cases hk

theorem specDecodeList_iff (inp : Bytes) (items : List Bytes) :
    specDecodeList inp = some items ↔
      (inp = encodeList items ∧ (∀ f ∈ items, IsFrame f) ∧ items.flatten.length ≤ maxLongLength) := by
  constructor
  · exact specDecodeList_sound inp items
  · rintro ⟨rfl, hfr, hlen⟩
    have hsome : (specDecodeList (encodeList items)).isSome := by
      unfold specDecodeList
      rw [List.findSome?_isSome_iff]
      have hp := header_length_pos 0xc0 items.flatten.length
      have hl := header_length_le 0xc0 items.flatten.length hlen
      refine ⟨(header 0xc0 items.flatten.length).length, by simp only [List.mem_range]; omega, ?_⟩
      unfold encodeList
      generalize hH : header 0xc0 items.flatten.length = H at *
      have e1 : (H ++ items.flatten).drop H.length = items.flatten := by simp
      have e2 : (H ++ items.flatten).take H.length = H := by simp
      rw [e1, e2]
      have := splitFrames_isSome items hfr items.flatten.length (length_le_flatten_length items hfr)
      simp [-List.length_flatten, hp, hlen, this, hH]
    obtain ⟨xs, hxs⟩ := Option.isSome_iff_exists.mp hsome
    obtain ⟨h1, h2, h3⟩ := specDecodeList_sound _ _ hxs
    rw [hxs, encodeList_inj items xs hfr h2 hlen h3 h1]

/-! ### deep (recursive) decoding built from the model's wrappers -/

def mapOpt (g : Bytes → Option Item) : List Bytes → Option (List Item)
  | [] => some []
  | f :: fs =>
    match g f, mapOpt g fs with
    | some x, some xs => some (x :: xs)
    | _, _ => none

/-- Full (deep) decoding built from the model's wrappers: an input accepted by `rlpDecodeString` is a
    string item; otherwise it must be accepted by `rlpDecodeList`, and each returned frame is decoded
    in turn.  Every nested frame is shorter than its enclosing input, so fuel = input length suffices. -/
def decodeItem : Nat → Bytes → Option Item
  | 0, _ => none
  | fuel + 1, inp =>
    match rlpDecodeString inp with
    | .ok s => some (.str s)
    | _ =>
      match rlpDecodeList inp with
      | .ok frames => (mapOpt (decodeItem fuel) frames).map .list
      | _ => none


theorem encode_str (s : Bytes) : encode (.str s) = encodeString s := by simp [encode]
theorem encode_list (xs : List Item) : encode (.list xs) = encodeList (encodeItems xs) := by simp [encode]
theorem encodeItems_nil : encodeItems [] = [] := by simp [encodeItems]
theorem encodeItems_cons (x : Item) (xs : List Item) : encodeItems (x :: xs) = encode x :: encodeItems xs := by
  simp [encodeItems]

theorem mapOpt_cons_eq_some (g : Bytes → Option Item) (f : Bytes) (fs : List Bytes) (ys : List Item)
    (h : mapOpt g (f :: fs) = some ys) : ∃ x xs, g f = some x ∧ mapOpt g fs = some xs ∧ ys = x :: xs := by
  unfold mapOpt at h
  split at h
  · rename_i x xs h1 h2
    cases h
    exact ⟨x, xs, h1, h2, rfl⟩
  · cases h

theorem mapOpt_exact (g : Bytes → Option Item) (hg : ∀ f x, g f = some x → f = encode x) :
    ∀ (fs : List Bytes) (xs : List Item), mapOpt g fs = some xs → fs = encodeItems xs := by
  intro fs
  induction fs with
  | nil => intro xs h; unfold mapOpt at h; cases h; exact encodeItems_nil.symm
  | cons f fs ih =>
    intro ys h
    obtain ⟨x, xs, h1, h2, rfl⟩ := mapOpt_cons_eq_some g f fs ys h
    rw [encodeItems_cons, ← hg f x h1, ← ih xs h2]

theorem decodeItem_exact : ∀ (fuel : Nat) (inp : Bytes) (it : Item), decodeItem fuel inp = some it → inp = encode it := by
  intro fuel
  induction fuel with
  | zero => intro inp it h; cases h
  | succ fuel ih =>
    intro inp it h
    unfold decodeItem at h
    split at h
    · rename_i s hs
      cases h
      rw [encode_str]
      exact (rlpDecodeString_inv inp s hs).1
    · split at h
      · rename_i frames hl
        rw [Option.map_eq_some_iff] at h
        obtain ⟨xs, hxs, rfl⟩ := h
        rw [encode_list, ← mapOpt_exact (decodeItem fuel) ih frames xs hxs]
        exact (rlpDecodeList_inv inp frames hl).1
      · cases h

theorem rlpDecodeString_encodeList (items : List Bytes) (hlen : items.flatten.length ≤ maxLongLength) :
    rlpDecodeString (encodeList items) = .err .typeMismatch := by
  unfold encodeList
  have hrs := RS_readSize (header 0xc0 items.flatten.length ++ items.flatten) 0 false _ _
    (RS.hdr false items.flatten.length items.flatten hlen (by simp [hbase_false]))
  unfold rlpDecodeString decodeString
  rw [hrs]
  rfl

theorem encodeString_length_ge (s : Bytes) : s.length ≤ (encodeString s).length ∧ 1 ≤ (encodeString s).length := by
  unfold encodeString
  split
  · split <;> simp
  · have := header_length_pos 0x80 s.length
    simp only [List.length_append]; omega

theorem encodeList_length (items : List Bytes) :
    (encodeList items).length = (header 0xc0 items.flatten.length).length + items.flatten.length := by
  unfold encodeList; simp only [List.length_append]

theorem encode_isFrame (it : Item) (h : (encode it).length ≤ maxLongLength) : IsFrame (encode it) := by
  cases it with
  | str s =>
    rw [encode_str] at h ⊢
    have hs : s.length ≤ maxLongLength := by have := (encodeString_length_ge s).1; omega
    by_cases hb : ∃ b, s = [b] ∧ b.toNat ≤ 0x7f
    · obtain ⟨b, rfl, hb⟩ := hb
      rw [encodeString_single_low b hb]
      exact .inl ⟨b, rfl, hb⟩
    · right
      refine ⟨s, hs, .inl ?_⟩
      by_cases hl : s.length = 1
      · obtain ⟨b, rfl⟩ := List.length_eq_one_iff.mp hl
        exact encodeString_single_high b (fun hc => hb ⟨b, rfl, hc⟩)
      · exact encodeString_other s hl
  | list xs =>
    rw [encode_list] at h ⊢
    rw [encodeList_length] at h
    exact .inr ⟨(encodeItems xs).flatten, by omega, .inr rfl⟩

theorem mem_encodeItems (xs : List Item) (f : Bytes) (hf : f ∈ encodeItems xs) : ∃ x ∈ xs, f = encode x := by
  induction xs with
  | nil => rw [encodeItems_nil] at hf; cases hf
  | cons x xs ih =>
    rw [encodeItems_cons] at hf
    rcases List.mem_cons.mp hf with rfl | hf
    · exact ⟨x, by simp, rfl⟩
    · obtain ⟨y, hy, rfl⟩ := ih hf
      exact ⟨y, by simp [hy], rfl⟩

theorem length_le_flatten_of_mem (fs : List Bytes) (f : Bytes) (hf : f ∈ fs) : f.length ≤ fs.flatten.length := by
  induction fs with
  | nil => cases hf
  | cons g gs ih =>
    simp only [List.flatten_cons, List.length_append]
    rcases List.mem_cons.mp hf with rfl | hf
    · omega
    · have := ih hf; omega

theorem mapOpt_roundtrip (g : Bytes → Option Item) (xs : List Item) (hg : ∀ x ∈ xs, g (encode x) = some x) :
    mapOpt g (encodeItems xs) = some xs := by
  induction xs with
  | nil => rw [encodeItems_nil]; rfl
  | cons x xs ih =>
    rw [encodeItems_cons]
    unfold mapOpt
    rw [hg x (by simp), ih (fun y hy => hg y (by simp [hy]))]

theorem decodeItem_roundtrip : ∀ (fuel : Nat) (it : Item), (encode it).length ≤ fuel →
    (encode it).length ≤ maxLongLength → decodeItem fuel (encode it) = some it := by
  intro fuel
  induction fuel with
  | zero =>
    intro it h _
    cases it with
    | str s => rw [encode_str] at h; have := (encodeString_length_ge s).2; omega
    | list xs =>
      rw [encode_list, encodeList_length] at h
      have := header_length_pos 0xc0 (encodeItems xs).flatten.length; omega
  | succ fuel ih =>
    intro it hfuel hmax
    cases it with
    | str s =>
      rw [encode_str] at hmax ⊢
      have hs : s.length ≤ maxLongLength := by have := (encodeString_length_ge s).1; omega
      unfold decodeItem
      rw [rlpDecodeString_encodeString s hs]
    | list xs =>
      have hfr : ∀ f ∈ encodeItems xs, IsFrame f ∧ f.length ≤ fuel ∧ f.length ≤ maxLongLength := by
        intro f hf
        have hle := length_le_flatten_of_mem _ f hf
        rw [encode_list, encodeList_length] at hfuel hmax
        have := header_length_pos 0xc0 (encodeItems xs).flatten.length
        obtain ⟨x, _, rfl⟩ := mem_encodeItems xs f hf
        exact ⟨encode_isFrame x (by omega), by omega, by omega⟩
      rw [encode_list] at hfuel hmax ⊢
      have hlen : (encodeItems xs).flatten.length ≤ maxLongLength := by
        rw [encodeList_length] at hmax; omega
      unfold decodeItem
      rw [rlpDecodeString_encodeList _ hlen, rlpDecodeList_encodeList _ (fun f hf => (hfr f hf).1) hlen]
      simp only []
      rw [mapOpt_roundtrip]
      · rfl
      · intro x hx
        have hmem : encode x ∈ encodeItems xs := by
          clear hfr hfuel hmax hlen ih
          induction xs with
          | nil => cases hx
          | cons y ys ih2 =>
            rw [encodeItems_cons]
            rcases List.mem_cons.mp hx with rfl | hx
            · simp
            · simp [ih2 hx]
        exact ih x (hfr _ hmem).2.1 (hfr _ hmem).2.2

end Verif.Proofs.RlpExact
