import Verif.Model.Lang2.Heap
/-
Reference invalidation on the L2 heap: `bumpVal` (performed by every transfer and destroy of a
resource) strictly increases the generation of the resource's cell and of every resource-kinded cell
nested in it through resource-kinded cells, and changes nothing else.  Used by Properties/C04.
-/
namespace Verif.Model.Lang2

/-- `h'` is `h` with some generations increased (nothing else changed) -/
structure BumpRel (h h' : Heap) : Prop where
  len : h'.length = h.length
  same : ∀ (id : Nat) (c : Cell), h[id]? = some c →
    ∃ c' : Cell, h'[id]? = some c' ∧ c'.obj = c.obj ∧ c'.res = c.res ∧ c'.alive = c.alive ∧ c'.ty = c.ty ∧ c.gen ≤ c'.gen

theorem BumpRel.refl (h : Heap) : BumpRel h h :=
  ⟨rfl, fun _ c hc => ⟨c, hc, rfl, rfl, rfl, rfl, Nat.le_refl _⟩⟩

theorem BumpRel.trans {h1 h2 h3 : Heap} (a : BumpRel h1 h2) (b : BumpRel h2 h3) : BumpRel h1 h3 := by
  refine ⟨by rw [b.len, a.len], fun id c hc => ?_⟩
  obtain ⟨c2, h2c, o2, r2, a2, t2, g2⟩ := a.same id c hc
  obtain ⟨c3, h3c, o3, r3, a3, t3, g3⟩ := b.same id c2 h2c
  exact ⟨c3, h3c, o3.trans o2, r3.trans r2, a3.trans a2, t3.trans t2, Nat.le_trans g2 g3⟩

theorem bumpCell_rel (h : Heap) (id : Nat) : BumpRel h (bumpCell h id) := by
  unfold bumpCell
  cases hget : h[id]? with
  | none => exact BumpRel.refl h
  | some c =>
    refine ⟨by simp, fun i ci hi => ?_⟩
    by_cases e : id = i
    · subst e
      have hlt := (List.getElem?_eq_some_iff.mp hget).1
      rw [hget] at hi; cases hi
      exact ⟨_, List.getElem?_set_self hlt, rfl, rfl, rfl, rfl, Nat.le_succ _⟩
    · exact ⟨ci, by rw [List.getElem?_set_ne e]; exact hi, rfl, rfl, rfl, rfl, Nat.le_refl _⟩

theorem bumpCell_gen (h : Heap) (id : Nat) (c : Cell) (hc : h[id]? = some c) :
    cellGen (bumpCell h id) id = c.gen + 1 := by
  have hlt := (List.getElem?_eq_some_iff.mp hc).1
  simp [bumpCell, hc, cellGen, List.getElem?_set_self hlt]

mutual
theorem bumpVal_rel : ∀ (n : Nat) (h : Heap) (v : Val), BumpRel h (bumpVal n h v)
  | 0, h, _ => by simpa [bumpVal] using BumpRel.refl h
  | n + 1, h, v => by
    cases v with
    | some w => simpa [bumpVal] using bumpVal_rel n h w
    | ptr id =>
      simp only [bumpVal]
      cases hget : h[id]? with
      | none => exact BumpRel.refl h
      | some c =>
        simp only
        split
        · exact (bumpVals_rel n h c.obj.vals).trans (bumpCell_rel _ id)
        · exact BumpRel.refl h
    | int _ _ | bool _ | str _ | void | nil | ref _ _ | sref _ _ | invalid | account =>
      simpa [bumpVal] using BumpRel.refl h
theorem bumpVals_rel : ∀ (n : Nat) (h : Heap) (vs : List Val), BumpRel h (bumpVals n h vs)
  | 0, h, _ => by simpa [bumpVals] using BumpRel.refl h
  | _ + 1, h, [] => by simpa [bumpVals] using BumpRel.refl h
  | n + 1, h, v :: vs => by
    simp only [bumpVals]
    exact (bumpVal_rel n h v).trans (bumpVals_rel n _ vs)
end

theorem BumpRel.gen_le {h h' : Heap} (r : BumpRel h h') (id : Nat) : cellGen h id ≤ cellGen h' id := by
  unfold cellGen
  cases hget : h[id]? with
  | none => simp
  | some c =>
    obtain ⟨c', hc', _, _, _, _, hg⟩ := r.same id c hget
    simp [hc', hg]

mutual
/-- `resReach n h v id`: `id` is the cell of `v`, or a resource-kinded cell nested in `v` through
    resource-kinded cells, found by the traversal within fuel `n` (the traversal spends one unit per
    optional, per cell and per list element, exactly as `bumpVal` does) -/
def resReach : Nat → Heap → Val → Nat → Prop
  | 0, _, _, _ => False
  | n + 1, h, .some v, id => resReach n h v id
  | n + 1, h, .ptr j, id => ∃ c, h[j]? = some c ∧ c.res = true ∧ (j = id ∨ resReachL n h c.obj.vals id)
  | _ + 1, _, _, _ => False
def resReachL : Nat → Heap → List Val → Nat → Prop
  | 0, _, _, _ => False
  | _ + 1, _, [], _ => False
  | n + 1, h, v :: vs, id => resReach n h v id ∨ resReachL n h vs id
end

mutual
theorem resReach_mono : ∀ (n : Nat) (h h' : Heap) (v : Val) (id : Nat), BumpRel h h' →
    resReach n h v id → resReach n h' v id
  | 0, _, _, _, _, _, hr => by simp [resReach] at hr
  | n + 1, h, h', v, id, r, hr => by
    cases v with
    | some w => simp only [resReach] at hr ⊢; exact resReach_mono n h h' w id r hr
    | ptr j =>
      simp only [resReach] at hr ⊢
      obtain ⟨c, hc, hres, hor⟩ := hr
      obtain ⟨c', hc', ho, hr', _, _, _⟩ := r.same j c hc
      refine ⟨c', hc', by rw [hr']; exact hres, ?_⟩
      rcases hor with e | hl
      · exact Or.inl e
      · exact Or.inr (by rw [ho]; exact resReachL_mono n h h' _ id r hl)
    | int _ _ | bool _ | str _ | void | nil | ref _ _ | sref _ _ | invalid | account =>
      simp [resReach] at hr
theorem resReachL_mono : ∀ (n : Nat) (h h' : Heap) (vs : List Val) (id : Nat), BumpRel h h' →
    resReachL n h vs id → resReachL n h' vs id
  | 0, _, _, _, _, _, hr => by simp [resReachL] at hr
  | _ + 1, _, _, [], _, _, hr => by simp [resReachL] at hr
  | n + 1, h, h', v :: vs, id, r, hr => by
    simp only [resReachL] at hr ⊢
    rcases hr with a | b
    · exact Or.inl (resReach_mono n h h' v id r a)
    · exact Or.inr (resReachL_mono n h h' vs id r b)
end

mutual
/-- the traversal strictly increases the generation of every cell it reaches -/
theorem bumpVal_gen_lt : ∀ (n : Nat) (h : Heap) (v : Val) (id : Nat),
    resReach n h v id → cellGen h id < cellGen (bumpVal n h v) id
  | 0, _, _, _, hr => by simp [resReach] at hr
  | n + 1, h, v, id, hr => by
    cases v with
    | some w => simp only [resReach] at hr; simp only [bumpVal]; exact bumpVal_gen_lt n h w id hr
    | ptr j =>
      simp only [resReach] at hr
      obtain ⟨c, hc, hres, hor⟩ := hr
      simp only [bumpVal, hc, hres, if_true]
      have rel := bumpVals_rel n h c.obj.vals
      rcases hor with e | hl
      · subst e
        obtain ⟨c', hc', _, _, _, _, hg⟩ := rel.same j c hc
        rw [bumpCell_gen _ j c' hc']
        have : cellGen h j = c.gen := by simp [cellGen, hc]
        omega
      · have := bumpVals_gen_lt n h c.obj.vals id hl
        exact Nat.lt_of_lt_of_le this ((bumpCell_rel _ j).gen_le id)
    | int _ _ | bool _ | str _ | void | nil | ref _ _ | sref _ _ | invalid | account =>
      simp [resReach] at hr
theorem bumpVals_gen_lt : ∀ (n : Nat) (h : Heap) (vs : List Val) (id : Nat),
    resReachL n h vs id → cellGen h id < cellGen (bumpVals n h vs) id
  | 0, _, _, _, hr => by simp [resReachL] at hr
  | _ + 1, _, [], _, hr => by simp [resReachL] at hr
  | n + 1, h, v :: vs, id, hr => by
    simp only [resReachL] at hr
    simp only [bumpVals]
    rcases hr with a | b
    · exact Nat.lt_of_lt_of_le (bumpVal_gen_lt n h v id a) ((bumpVals_rel n _ vs).gen_le id)
    · have b' := resReachL_mono n h _ vs id (bumpVal_rel n h v) b
      exact Nat.lt_of_le_of_lt ((bumpVal_rel n h v).gen_le id) (bumpVals_gen_lt n _ vs id b')
end

theorem BumpRel.same_rev {h h' : Heap} (r : BumpRel h h') (id : Nat) (c' : Cell) (hc' : h'[id]? = some c') :
    ∃ c : Cell, h[id]? = some c ∧ c'.obj = c.obj ∧ c'.res = c.res := by
  have hlt : id < h.length := by
    have := (List.getElem?_eq_some_iff.mp hc').1
    rw [r.len] at this; exact this
  obtain ⟨c2, h2, o, rr, _, _, _⟩ := r.same id h[id] (List.getElem?_eq_getElem hlt)
  rw [hc'] at h2; cases h2
  exact ⟨h[id], List.getElem?_eq_getElem hlt, o, rr⟩

mutual
theorem resReach_mono_rev : ∀ (n : Nat) (h h' : Heap) (v : Val) (id : Nat), BumpRel h h' →
    resReach n h' v id → resReach n h v id
  | 0, _, _, _, _, _, hr => by simp [resReach] at hr
  | n + 1, h, h', v, id, r, hr => by
    cases v with
    | some w => simp only [resReach] at hr ⊢; exact resReach_mono_rev n h h' w id r hr
    | ptr j =>
      simp only [resReach] at hr ⊢
      obtain ⟨c', hc', hres, hor⟩ := hr
      obtain ⟨c, hc, ho, hr'⟩ := r.same_rev j c' hc'
      refine ⟨c, hc, by rw [← hr']; exact hres, ?_⟩
      rcases hor with e | hl
      · exact Or.inl e
      · exact Or.inr (by rw [← ho]; exact resReachL_mono_rev n h h' _ id r hl)
    | int _ _ | bool _ | str _ | void | nil | ref _ _ | sref _ _ | invalid | account =>
      simp [resReach] at hr
theorem resReachL_mono_rev : ∀ (n : Nat) (h h' : Heap) (vs : List Val) (id : Nat), BumpRel h h' →
    resReachL n h' vs id → resReachL n h vs id
  | 0, _, _, _, _, _, hr => by simp [resReachL] at hr
  | _ + 1, _, _, [], _, _, hr => by simp [resReachL] at hr
  | n + 1, h, h', v :: vs, id, r, hr => by
    simp only [resReachL] at hr ⊢
    rcases hr with a | b
    · exact Or.inl (resReach_mono_rev n h h' v id r a)
    · exact Or.inr (resReachL_mono_rev n h h' vs id r b)
end

theorem bumpCell_gen_ne (h : Heap) (j id : Nat) (hne : j ≠ id) : cellGen (bumpCell h j) id = cellGen h id := by
  unfold bumpCell
  cases hget : h[j]? with
  | none => rfl
  | some c => simp [cellGen, List.getElem?_set_ne hne]

mutual
/-- the traversal leaves the generation of every cell it does not reach unchanged -/
theorem bumpVal_gen_eq : ∀ (n : Nat) (h : Heap) (v : Val) (id : Nat),
    ¬ resReach n h v id → cellGen (bumpVal n h v) id = cellGen h id
  | 0, _, _, _, _ => by simp [bumpVal]
  | n + 1, h, v, id, hr => by
    cases v with
    | some w => simp only [resReach] at hr; simp only [bumpVal]; exact bumpVal_gen_eq n h w id hr
    | ptr j =>
      simp only [bumpVal]
      cases hc : h[j]? with
      | none => rfl
      | some c =>
        simp only
        split
        · next hres =>
          simp only [resReach, hc, Option.some.injEq, exists_eq_left', hres, true_and, not_or] at hr
          rw [bumpCell_gen_ne _ j id hr.1]
          exact bumpVals_gen_eq n h c.obj.vals id hr.2
        · rfl
    | int _ _ | bool _ | str _ | void | nil | ref _ _ | sref _ _ | invalid | account =>
      simp [bumpVal]
theorem bumpVals_gen_eq : ∀ (n : Nat) (h : Heap) (vs : List Val) (id : Nat),
    ¬ resReachL n h vs id → cellGen (bumpVals n h vs) id = cellGen h id
  | 0, _, _, _, _ => by simp [bumpVals]
  | _ + 1, _, [], _, _ => by simp [bumpVals]
  | n + 1, h, v :: vs, id, hr => by
    simp only [resReachL, not_or] at hr
    simp only [bumpVals]
    have hb : ¬ resReachL n (bumpVal n h v) vs id :=
      fun hx => hr.2 (resReachL_mono_rev n h _ vs id (bumpVal_rel n h v) hx)
    rw [bumpVals_gen_eq n _ vs id hb]
    exact bumpVal_gen_eq n h v id hr.1
end

/-- cells outside the traversal keep their generation: the traversal only touches resource-kinded
    cells reachable from the value -/
theorem refValid_of_gen {h : Heap} {id g : Nat} {c : Cell} (hc : h[id]? = some c) :
    refValid h (.ptr id) g = (c.alive && c.gen == g) := by
  simp [refValid, hc]

end Verif.Model.Lang2
