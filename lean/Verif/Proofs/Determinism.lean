import Verif.Model.Determinism
import Mathlib.Data.List.Sort
import Mathlib.Data.List.Nodup
namespace Verif.Proofs.Determinism
open Verif.Model.Determinism

theorem leKey_trans {β : Type} (a b c : Nat × β) : leKey a b → leKey b c → leKey a c := by
  simp only [leKey, decide_eq_true_eq]; omega

theorem leKey_total {β : Type} (a b : Nat × β) : (leKey a b || leKey b a) = true := by
  simp only [leKey, Bool.or_eq_true, decide_eq_true_eq]; omega

theorem sortByKey_perm {β : Type} (l : List (Nat × β)) : (sortByKey l).Perm l := List.mergeSort_perm l leKey

theorem sortByKey_sorted {β : Type} (l : List (Nat × β)) : (sortByKey l).Pairwise (fun a b => leKey a b = true) :=
  List.pairwise_mergeSort leKey_trans leKey_total l

theorem sort_canonical_aux {β : Type} (l1 l2 : List (Nat × β)) (hp : l1.Perm l2)
    (hk : (l1.map Prod.fst).Nodup) : sortByKey l1 = sortByKey l2 := by
  have p1 := sortByKey_perm l1
  have p2 := sortByKey_perm l2
  have hperm : (sortByKey l1).Perm (sortByKey l2) := p1.trans (hp.trans p2.symm)
  refine List.Perm.eq_of_pairwise ?_ (sortByKey_sorted l1) (sortByKey_sorted l2) hperm
  intro a b ha hb hab hba
  have ha1 : a ∈ l1 := p1.subset ha
  have hb1 : b ∈ l1 := hp.symm.subset (p2.subset hb)
  have hkey : a.1 = b.1 := by
    simp only [leKey, decide_eq_true_eq] at hab hba; omega
  exact List.inj_on_of_nodup_map hk ha1 hb1 hkey

end Verif.Proofs.Determinism
