/-
Generic bound lemmas for multiplication and truncated division (C11 / C12 / C13), and the final
tactic `num_arith`.
-/
import Verif.Proofs.Arith
namespace Verif.Proofs.Arith
open Verif.Model.Num Verif.Spec.Arith

/-- the whole C11 / C12 script: unfold, split, decide the leaves -/
macro "num_arith" : tactic => `(tactic| (num_unfold; num_finish))

end Verif.Proofs.Arith
