/-
Generic bound lemmas for truncated division / remainder and for multiplication (C11 / C12, reusable
for C13), and the tactics that feed them to `omega` as facts about the atoms `Int.tdiv a b`,
`Int.tmod a b`, `a * b`, `Int.tdiv c a` of a goal.  Nothing here mentions a generated definition.
-/
import Mathlib.Tactic.Linarith
import Verif.Proofs.Arith

namespace Verif.Proofs.Arith
open Verif.Model.Num Verif.Spec.Arith

theorem tmod_facts (a b : Int) :
    (0 ≤ a → 0 ≤ Int.tmod a b ∧ Int.tmod a b ≤ a) ∧ (a ≤ 0 → a ≤ Int.tmod a b ∧ Int.tmod a b ≤ 0) := by
  have key : ∀ x : Int, 0 ≤ x → 0 ≤ Int.tmod x b ∧ Int.tmod x b ≤ x := by
    intro x hx
    refine ⟨Int.tmod_nonneg b hx, ?_⟩
    have h1 : (Int.tmod x b).natAbs = x.natAbs % b.natAbs := Int.natAbs_tmod x b
    have h2 : x.natAbs % b.natAbs ≤ x.natAbs := Nat.mod_le _ _
    have h3 := Int.tmod_nonneg b hx
    omega
  refine ⟨key a, ?_⟩
  intro ha
  have := key (-a) (by omega)
  rw [Int.neg_tmod] at this
  omega

theorem tdiv_facts (a b : Int) :
    (0 ≤ a → 0 < b → 0 ≤ Int.tdiv a b ∧ Int.tdiv a b ≤ a) ∧
    (0 ≤ a → b < 0 → -a ≤ Int.tdiv a b ∧ Int.tdiv a b ≤ 0) ∧
    (a ≤ 0 → 0 < b → a ≤ Int.tdiv a b ∧ Int.tdiv a b ≤ 0) ∧
    (a ≤ 0 → b < 0 → 0 ≤ Int.tdiv a b ∧ Int.tdiv a b ≤ -a) ∧
    (b = -1 → Int.tdiv a b = -a) ∧ (b = 1 → Int.tdiv a b = a) ∧
    (a ≤ 0 → b ≤ -2 → 2 * Int.tdiv a b ≤ -a) := by
  have key : ∀ x y : Int, 0 ≤ x → 0 < y → 0 ≤ Int.tdiv x y ∧ Int.tdiv x y ≤ x := by
    intro x y hx hy
    exact ⟨Int.tdiv_nonneg hx (by omega), Int.tdiv_le_self y hx⟩
  refine ⟨key a b, ?_, ?_, ?_, ?_, ?_, ?_⟩
  · intro ha hb
    have := key a (-b) ha (by omega)
    rw [Int.tdiv_neg] at this; omega
  · intro ha hb
    have := key (-a) b (by omega) hb
    rw [Int.neg_tdiv] at this; omega
  · intro ha hb
    have := key (-a) (-b) (by omega) (by omega)
    rw [Int.neg_tdiv_neg] at this; omega
  · intro hb; subst hb
    have : Int.tdiv a (-1) = -(Int.tdiv a 1) := Int.tdiv_neg a 1
    rw [this, Int.tdiv_one]
  · intro hb; subst hb; exact Int.tdiv_one a
  · intro ha hb
    have h := key (-a) (-b) (by omega) (by omega)
    rw [Int.neg_tdiv_neg] at h
    have e := Int.mul_tdiv_add_tmod a b
    have r := (tmod_facts a b).2 ha
    nlinarith [h.1, r.1, r.2]

/-- `y > c / x` (truncated) iff `y * x > c`, for a positive divisor and a non-negative numerator -/
theorem gt_tdiv_iff_pos (c x y : Int) (hx : 0 < x) (hc : 0 ≤ c) : Int.tdiv c x < y ↔ c < y * x := by
  have e := Int.mul_tdiv_add_tmod c x
  have r0 := Int.tmod_nonneg x hc
  have r1 := Int.tmod_lt_of_pos c hx
  constructor
  · intro h; nlinarith
  · intro h
    by_contra hn
    have : y ≤ Int.tdiv c x := by omega
    nlinarith

/-- `y < c / x` (truncated) iff `y * x < c`, for a positive divisor and a non-positive numerator -/
theorem lt_tdiv_iff_pos (c x y : Int) (hx : 0 < x) (hc : c ≤ 0) : y < Int.tdiv c x ↔ y * x < c := by
  have e := Int.mul_tdiv_add_tmod c x
  have r := (tmod_facts c x).2 hc
  have r1 := Int.lt_tmod_of_pos c hx
  constructor
  · intro h; nlinarith
  · intro h
    by_contra hn
    have : Int.tdiv c x ≤ y := by omega
    nlinarith

/-- `y < c / x` (truncated) iff `y * x > c`, for a negative divisor and a non-negative numerator -/
theorem lt_tdiv_iff_neg (c x y : Int) (hx : x < 0) (hc : 0 ≤ c) : y < Int.tdiv c x ↔ c < y * x := by
  have h := gt_tdiv_iff_pos c (-x) (-y) (by omega) hc
  rw [Int.tdiv_neg] at h
  have : -y * -x = y * x := Int.neg_mul_neg y x
  rw [this] at h
  constructor
  · intro h'; exact h.1 (by omega)
  · intro h'; have := h.2 h'; omega


/-- sign and zero facts about a product (so that `omega` can treat `a * b` as an atom) -/
theorem mul_facts (a b : Int) :
    (0 ≤ a → 0 ≤ b → 0 ≤ a * b) ∧ (a ≤ 0 → b ≤ 0 → 0 ≤ a * b) ∧
    (0 ≤ a → b ≤ 0 → a * b ≤ 0) ∧ (a ≤ 0 → 0 ≤ b → a * b ≤ 0) ∧
    (a = 0 → a * b = 0) ∧ (b = 0 → a * b = 0) ∧ b * a = a * b := by
  refine ⟨Int.mul_nonneg, ?_, ?_, ?_, ?_, ?_, Int.mul_comm b a⟩
  · intro ha hb; nlinarith
  · intro ha hb; nlinarith
  · intro ha hb; nlinarith
  · intro ha; subst ha; simp
  · intro hb; subst hb; simp

/-- Facts about the atoms of a multiplication-overflow test (INT32-C / INT30-C), by the sign of the
    divisor: bounds of the quotients `hi / x`, `lo / x` and the meaning of the comparisons against
    them as statements about the product `a * b`. -/
theorem mul_cases_left (hi lo a b : Int) (hhi : 0 ≤ hi) (hlo : lo ≤ 0) :
    (a < 0 ∧ -hi ≤ Int.tdiv hi a ∧ Int.tdiv hi a ≤ 0 ∧ (b < Int.tdiv hi a ↔ hi < a * b)) ∨
    (a = 0 ∧ a * b = 0) ∨
    (0 < a ∧ lo ≤ Int.tdiv lo a ∧ Int.tdiv lo a ≤ 0 ∧ (b < Int.tdiv lo a ↔ a * b < lo)) := by
  have c : b * a = a * b := Int.mul_comm b a
  rcases Int.lt_trichotomy a 0 with h | h | h
  · left
    have q := (tdiv_facts hi a).2.1 hhi h
    have t := lt_tdiv_iff_neg hi a b h hhi
    rw [c] at t
    exact ⟨h, q.1, q.2, t⟩
  · right; left; subst h; simp
  · right; right
    have q := (tdiv_facts lo a).2.2.1 hlo h
    have t := lt_tdiv_iff_pos lo a b h hlo
    rw [c] at t
    exact ⟨h, q.1, q.2, t⟩

theorem mul_cases_right (hi lo a b : Int) (hhi : 0 ≤ hi) (hlo : lo ≤ 0) :
    (b < 0) ∨ (b = 0 ∧ a * b = 0) ∨
    (0 < b ∧ 0 ≤ Int.tdiv hi b ∧ Int.tdiv hi b ≤ hi ∧ lo ≤ Int.tdiv lo b ∧ Int.tdiv lo b ≤ 0 ∧
      (Int.tdiv hi b < a ↔ hi < a * b) ∧ (a < Int.tdiv lo b ↔ a * b < lo)) := by
  rcases Int.lt_trichotomy b 0 with h | h | h
  · left; exact h
  · right; left; subst h; simp
  · right; right
    have q1 := (tdiv_facts hi b).1 hhi h
    have q2 := (tdiv_facts lo b).2.2.1 hlo h
    exact ⟨h, q1.1, q1.2, q2.1, q2.2, gt_tdiv_iff_pos hi b a h hhi, lt_tdiv_iff_pos lo b a h hlo⟩

theorem mul_sign (a b : Int) :
    (0 ≤ a → 0 ≤ b → 0 ≤ a * b) ∧ (a ≤ 0 → b ≤ 0 → 0 ≤ a * b) ∧
    (0 ≤ a → b ≤ 0 → a * b ≤ 0) ∧ (a ≤ 0 → 0 ≤ b → a * b ≤ 0) :=
  let m := mul_facts a b
  ⟨m.1, m.2.1, m.2.2.1, m.2.2.2.1⟩

/-- + − negate and everything linear: unfold, split, `omega` -/
macro "num_arith" : tactic => `(tactic| (num_unfold <;> num_finish))

/-- `/`: as `num_arith`, with the bounds of `Int.tdiv a b` as extra facts -/
macro "num_div" a:ident b:ident : tactic => `(tactic|
  (num_unfold <;>
   (have hq := tdiv_facts $a $b
    num_finish)))

/-- `%`: as `num_arith`, with the bounds of `Int.tmod a b` as extra facts -/
macro "num_mod" a:ident b:ident : tactic => `(tactic|
  (num_unfold <;>
   (have hr := tmod_facts $a $b
    num_finish)))

/-- `*`: as `num_arith`, after a case split on the signs of the operands that brings the product
    facts and the meaning of the division-based overflow tests for the bounds `hi`, `lo` of the type -/
macro "num_mul" a:ident b:ident hi:term:max lo:term:max : tactic => `(tactic|
  (num_unfold <;>
   (have hs := mul_sign $a $b
    rcases mul_cases_left $hi $lo $a $b (by decide) (by decide) with hl | hl | hl <;>
    rcases mul_cases_right $hi $lo $a $b (by decide) (by decide) with hr | hr | hr <;>
    num_finish)))

end Verif.Proofs.Arith
