import Verif.Proofs.Lang2Own
/-
Single-owner invariant through the resource-moving core of the L2 evaluator (C02): locations
(guarded write, read + vacate), the source expressions that produce an owned value (move out of a
variable, `create`, `load`, array `remove*`), `destroy`, `save`, and the statements built from them.
Core Lean only.
-/
namespace Verif.Model.Lang2

/-! ### actions that do not change the state -/

def Quiet {α} (m : M α) : Prop := ∀ s, (m s).st = s

theorem Quiet.pure {α} (a : α) : Quiet (pure a : M α) := fun _ => rfl
theorem Quiet.userErr {α} (k : ErrKind) : Quiet (M.userErr k : M α) := fun _ => rfl
theorem Quiet.internalErr {α} (k : ErrKind) : Quiet (M.internalErr k : M α) := fun _ => rfl
theorem Quiet.get : Quiet M.get := fun _ => rfl

theorem Quiet.bind {α β} {m : M α} {f : α → M β} (hm : Quiet m) (hf : ∀ a, Quiet (f a)) : Quiet (m >>= f) := by
  intro s
  simp only [Bind.bind, M.bind]
  have := hm s
  cases h : (m s).out <;> simp [this, hf _ s]

theorem Quiet.getVar (x : String) : Quiet (getVar x) := by
  intro s; unfold Lang2.getVar; split <;> rfl

theorem Quiet.getCell (id : Nat) : Quiet (getCell id) := by
  intro s; unfold Lang2.getCell; split <;> rfl

theorem Quiet.deref (v : Val) : Quiet (deref v) := by
  intro s; unfold Lang2.deref
  split
  · split <;> rfl
  · split
    · split <;> rfl
    · rfl
  · rfl

theorem Quiet.memberOf (id : Nat) (f : String) : Quiet (memberOf id f) := by
  unfold Lang2.memberOf
  refine Quiet.bind (Quiet.getCell id) fun c => ?_
  split
  · exact Quiet.userErr _
  · split
    · split
      · exact Quiet.pure _
      · exact Quiet.userErr _
    · exact Quiet.internalErr _

theorem Quiet.elemOf (id : Nat) (i : Int) : Quiet (elemOf id i) := by
  unfold Lang2.elemOf
  refine Quiet.bind (Quiet.getCell id) fun c => ?_
  split
  · split
    · exact Quiet.userErr _
    · split
      · exact Quiet.pure _
      · exact Quiet.userErr _
  · exact Quiet.internalErr _

theorem Quiet.keyOf (id : Nat) (k : Val) : Quiet (keyOf id k) := by
  unfold Lang2.keyOf
  refine Quiet.bind (Quiet.getCell id) fun c => ?_
  split
  · exact Quiet.pure _
  · exact Quiet.internalErr _

theorem Quiet.readLoc (l : Loc) : Quiet (readLoc l) := by
  cases l with
  | var x => exact Quiet.getVar x
  | field id f => exact Quiet.memberOf id f
  | elem id i => exact Quiet.elemOf id i
  | key id k => exact Quiet.keyOf id k
  | temp v => exact Quiet.pure v

theorem Quiet.peekLoc (l : Loc) : Quiet (peekLoc l) := by
  intro s; unfold Lang2.peekLoc
  cases l <;> simp <;> repeat (first | rfl | split)

theorem Quiet.checkLoss (v : Val) : Quiet (checkLoss v) := by
  intro s; unfold Lang2.checkLoss; split <;> rfl

theorem Quiet.storageGet (path : String) : Quiet (storageGet path) := fun _ => rfl

/-- inversion of a bind whose first action is quiet -/
theorem bind_quiet_inv {α β} {m : M α} {f : α → M β} {s : State} {b : β} (hq : Quiet m)
    (h : ((m >>= f) s).out = .ok b) :
    ∃ a, (m s).out = .ok a ∧ (f a s).out = .ok b ∧ ((m >>= f) s).st = (f a s).st := by
  obtain ⟨a, ha, hb, hst⟩ := bind_inv h
  rw [hq s] at hb hst
  exact ⟨a, ha, hb, hst⟩

/-! ### locations -/

theorem getCell_ok {id : Nat} {s : State} {c : Cell} (h : (getCell id s).out = .ok c) : s.heap[id]? = some c := by
  unfold getCell at h
  split at h
  · next c' hc => cases h; exact hc
  · cases h

/-- raw write: the value in flight goes into the slot; what the slot held is dropped -/
theorem writeLocRaw_sub (l : Loc) (v : Val) (s : State) (fl : List Val)
    (hok : (writeLocRaw l v s).out = .ok ()) : Sub s (v :: fl) (writeLocRaw l v s).st fl := by
  cases l with
  | var x =>
    simp only [writeLocRaw, setVarRaw] at hok ⊢
    split at hok
    · next env' hu => exact sub_setVar fl hu
    · cases hok
  | field id f =>
    simp only [writeLocRaw] at hok ⊢
    obtain ⟨c, hc, hb, hst⟩ := bind_quiet_inv (Quiet.getCell id) hok
    rw [hst]
    have hc' := getCell_ok hc
    cases ho : c.obj with
    | comp n fs =>
      simp only [ho] at hb ⊢
      rw [setObj_eq hc']
      refine sub_setObj hc' _ _ _ fun j => ?_
      have := occ_fieldSet_le j fs f v
      simp only [Obj.vals, ho, occ_cons] at this ⊢; omega
    | arr es => simp [ho, M.internalErr] at hb
    | dict kvs => simp [ho, M.internalErr] at hb
  | elem id i =>
    simp only [writeLocRaw] at hok ⊢
    obtain ⟨c, hc, hb, hst⟩ := bind_quiet_inv (Quiet.getCell id) hok
    rw [hst]
    have hc' := getCell_ok hc
    cases ho : c.obj with
    | arr es =>
      simp only [ho] at hb ⊢
      split at hb
      · simp [M.userErr] at hb
      · next hcond =>
        rw [if_neg hcond, setObj_eq hc']
        refine sub_setObj hc' _ _ _ fun j => ?_
        have := occ_set_le j es i.toNat v
        simp only [Obj.vals, ho, occ_cons] at this ⊢; omega
    | comp n fs => simp [ho, M.internalErr] at hb
    | dict kvs => simp [ho, M.internalErr] at hb
  | key id k =>
    simp only [writeLocRaw] at hok ⊢
    obtain ⟨c, hc, hb, hst⟩ := bind_quiet_inv (Quiet.getCell id) hok
    rw [hst]
    have hc' := getCell_ok hc
    cases ho : c.obj with
    | dict kvs =>
      simp only [ho] at hb ⊢
      cases v with
      | nil =>
        simp only at hb ⊢
        rw [setObj_eq hc']
        refine sub_setObj hc' _ _ _ fun j => ?_
        have := occ_filter_snd_le j kvs (fun kv => !Val.beq kv.1 k)
        simp only [Obj.vals, ho, occ_cons, dictRemove] at this ⊢; omega
      | some w =>
        simp only at hb ⊢
        rw [setObj_eq hc']
        refine sub_setObj hc' _ _ _ fun j => ?_
        have := occ_dictInsert_le j kvs k w
        simp only [Obj.vals, ho, occ_cons, occ_some] at this ⊢; omega
      | invalid =>
        simp only at hb ⊢
        rw [setObj_eq hc']
        refine sub_setObj hc' _ _ _ fun j => ?_
        have := occ_filter_snd_le j kvs (fun kv => !Val.beq kv.1 k)
        simp only [Obj.vals, ho, occ_cons, dictRemove] at this ⊢; omega
      | _ => simp [M.internalErr] at hb
    | comp n fs => simp [ho, M.internalErr] at hb
    | arr es => simp [ho, M.internalErr] at hb
  | temp w =>
    simp only [writeLocRaw, Pure.pure, M.pure]
    exact Sub.drop s v fl

/-- guarded write (`writeLoc`) -/
theorem writeLoc_sub (l : Loc) (v : Val) (s : State) (fl : List Val)
    (hok : (writeLoc l v s).out = .ok ()) : Sub s (v :: fl) (writeLoc l v s).st fl := by
  unfold writeLoc at hok ⊢
  obtain ⟨old, _, hb, hst⟩ := bind_quiet_inv (Quiet.peekLoc l) hok
  obtain ⟨_, _, hb2, hst2⟩ := bind_quiet_inv (Quiet.checkLoss old) hb
  rw [hst, hst2]
  exact writeLocRaw_sub l v s fl hb2

theorem getVar_ok {x : String} {s : State} {v : Val} (h : (getVar x s).out = .ok v) :
    s.env.lookup x = some v ∧ v ≠ .invalid := by
  unfold getVar at h
  cases hl : s.env.lookup x with
  | none => simp [hl] at h
  | some w => cases w <;> simp_all <;> (subst h; simp)

theorem mem_occ_le {id : Nat} {v : Val} {l : List Val} (hm : v ∈ l) : occ1 id v ≤ occ id l := by
  obtain ⟨a, b, hab⟩ := List.append_of_mem hm
  rw [hab]; simp only [occ_append, occ_cons]; omega

def Loc.isTemp : Loc → Bool
  | .temp _ => true
  | _ => false

/-- the content of a (non-temporary) location is owned by a slot -/
theorem readLoc_le {l : Loc} {s : State} {old : Val} (hl : l.isTemp = false)
    (h : (readLoc l s).out = .ok old) (id : Nat) : occ1 id old ≤ occ id s.slots := by
  rw [occ_slots]
  cases l with
  | var x =>
    have := occ_lookup_le (getVar_ok h).1 id; omega
  | field i f =>
    simp only [readLoc, memberOf] at h
    obtain ⟨c, hc, hb, _⟩ := bind_quiet_inv (Quiet.getCell i) h
    have hc' := getCell_ok hc
    have hle := occ_cell_le s.heap i c hc' id
    split at hb
    · simp [M.userErr] at hb
    · cases ho : c.obj with
      | comp n fs =>
        simp only [ho] at hb
        cases hw : fieldGet? fs f with
        | none => simp [hw, M.userErr] at hb
        | some w =>
          simp only [hw, Pure.pure, M.pure] at hb; cases hb
          simp only [fieldGet?, Option.map_eq_some_iff] at hw
          obtain ⟨q, hq, rfl⟩ := hw
          have hm : q.2 ∈ c.slots := by
            simp only [Cell.slots, ho, Obj.vals]; exact List.mem_map.mpr ⟨q, List.mem_of_find?_eq_some hq, rfl⟩
          have := mem_occ_le (id := id) hm
          omega
      | arr es => simp [ho, M.internalErr] at hb
      | dict kvs => simp [ho, M.internalErr] at hb
  | elem i k =>
    simp only [readLoc, elemOf] at h
    obtain ⟨c, hc, hb, _⟩ := bind_quiet_inv (Quiet.getCell i) h
    have hc' := getCell_ok hc
    have hle := occ_cell_le s.heap i c hc' id
    cases ho : c.obj with
    | arr es =>
      simp only [ho] at hb
      split at hb
      · simp [M.userErr] at hb
      · cases hw : es[k.toNat]? with
        | none => simp [hw, M.userErr] at hb
        | some w =>
          simp only [hw, Pure.pure, M.pure] at hb; cases hb
          have hm : old ∈ c.slots := by
            simp only [Cell.slots, ho, Obj.vals]; exact List.mem_of_getElem? hw
          have := mem_occ_le (id := id) hm
          omega
    | comp n fs => simp [ho, M.internalErr] at hb
    | dict kvs => simp [ho, M.internalErr] at hb
  | key i k =>
    simp only [readLoc, keyOf] at h
    obtain ⟨c, hc, hb, _⟩ := bind_quiet_inv (Quiet.getCell i) h
    have hc' := getCell_ok hc
    have hle := occ_cell_le s.heap i c hc' id
    cases ho : c.obj with
    | dict kvs =>
      simp only [ho, Pure.pure, M.pure] at hb; cases hb
      cases hw : dictGet? kvs k with
      | none => simp
      | some w =>
        simp only [dictGet?, Option.map_eq_some_iff] at hw
        obtain ⟨q, hq, rfl⟩ := hw
        have hm : q.2 ∈ c.slots := by
          simp only [Cell.slots, ho, Obj.vals]; exact List.mem_map.mpr ⟨q, List.mem_of_find?_eq_some hq, rfl⟩
        have := mem_occ_le (id := id) hm
        simp only [occ_some]; omega
    | comp n fs => simp [ho, M.internalErr] at hb
    | arr es => simp [ho, M.internalErr] at hb
  | temp v => cases hl


/-- writing `.invalid` into the location that was just read releases what it held -/
theorem release_sub {l : Loc} {s : State} {old : Val} (fl : List Val) (hl : l.isTemp = false)
    (hr : (readLoc l s).out = .ok old) (hw : (writeLocRaw l .invalid s).out = .ok ()) :
    Sub s fl (writeLocRaw l .invalid s).st (old :: fl) := by
  cases l with
  | var x =>
    have hl := (getVar_ok hr).1
    simp only [writeLocRaw, setVarRaw] at hw ⊢
    split at hw
    · next env' hu => exact sub_vacateVar fl hl hu
    · cases hw
  | field i f =>
    simp only [readLoc, memberOf] at hr
    obtain ⟨c, hc, hb, _⟩ := bind_quiet_inv (Quiet.getCell i) hr
    have hc' := getCell_ok hc
    simp only [writeLocRaw] at hw ⊢
    obtain ⟨c2, hc2, hb2, hst⟩ := bind_quiet_inv (Quiet.getCell i) hw
    rw [hc] at hc2; cases hc2
    rw [hst]
    split at hb
    · simp [M.userErr] at hb
    · cases ho : c.obj with
      | comp n fs =>
        simp only [ho] at hb hb2 ⊢
        cases hw : fieldGet? fs f with
        | none => simp [hw, M.userErr] at hb
        | some w =>
          simp only [hw, Pure.pure, M.pure] at hb; cases hb
          rw [setObj_eq hc']
          refine sub_setObj hc' _ _ _ fun j => ?_
          have := occ_fieldSet_invalid j fs f old hw
          simp only [Obj.vals, ho, occ_cons] at this ⊢; omega
      | arr es => simp [ho, M.internalErr] at hb
      | dict kvs => simp [ho, M.internalErr] at hb
  | elem i k =>
    simp only [readLoc, elemOf] at hr
    obtain ⟨c, hc, hb, _⟩ := bind_quiet_inv (Quiet.getCell i) hr
    have hc' := getCell_ok hc
    simp only [writeLocRaw] at hw ⊢
    obtain ⟨c2, hc2, hb2, hst⟩ := bind_quiet_inv (Quiet.getCell i) hw
    rw [hc] at hc2; cases hc2
    rw [hst]
    cases ho : c.obj with
    | arr es =>
      simp only [ho] at hb hb2 ⊢
      split at hb
      · simp [M.userErr] at hb
      · cases hw : es[k.toNat]? with
        | none => simp [hw, M.userErr] at hb
        | some w =>
          simp only [hw, Pure.pure, M.pure] at hb; cases hb
          split at hb2
          · simp [M.userErr] at hb2
          · next hcond =>
            rw [if_neg hcond, setObj_eq hc']
            refine sub_setObj hc' _ _ _ fun j => ?_
            have := occ_set_invalid j es k.toNat old hw
            simp only [Obj.vals, ho, occ_cons] at this ⊢; omega
    | comp n fs => simp [ho, M.internalErr] at hb
    | dict kvs => simp [ho, M.internalErr] at hb
  | key i k =>
    simp only [readLoc, keyOf] at hr
    obtain ⟨c, hc, hb, _⟩ := bind_quiet_inv (Quiet.getCell i) hr
    have hc' := getCell_ok hc
    simp only [writeLocRaw] at hw ⊢
    obtain ⟨c2, hc2, hb2, hst⟩ := bind_quiet_inv (Quiet.getCell i) hw
    rw [hc] at hc2; cases hc2
    rw [hst]
    cases ho : c.obj with
    | dict kvs =>
      simp only [ho, Pure.pure, M.pure] at hb hb2 ⊢; cases hb
      rw [setObj_eq hc']
      refine sub_setObj hc' _ _ _ fun j => ?_
      cases hw : dictGet? kvs k with
      | none =>
        have := occ_filter_snd_le j kvs (fun kv => !Val.beq kv.1 k)
        simp only [Obj.vals, ho, occ_cons, dictRemove, occ_nilv] at this ⊢; omega
      | some w =>
        simp only [dictGet?, Option.map_eq_some_iff] at hw
        obtain ⟨q, hq, rfl⟩ := hw
        have := occ_filter_not_find j kvs (fun kv => Val.beq kv.1 k) q hq
        simp only [Obj.vals, ho, occ_cons, dictRemove, occ_some] at this ⊢; omega
    | comp n fs => simp [ho, M.internalErr] at hb
    | arr es => simp [ho, M.internalErr] at hb
  | temp v => cases hl

/-- read a location and vacate it (`vacate` after `readLoc`: second-value declaration, swap): what the
location held is now in flight -/
theorem vacate_held {l : Loc} {s : State} {old : Val} {fl : List Val} (hl : l.isTemp = false)
    (hr : (readLoc l s).out = .ok old) (hv : (vacate l old s).out = .ok ()) (h : Held s fl) :
    Held (vacate l old s).st (old :: fl) := by
  unfold vacate at hv ⊢
  by_cases hres : isResVal s.heap old = true
  · simp only [hres, if_true] at hv ⊢
    have key : (writeLocRaw l .invalid s).out = .ok () → Held (writeLocRaw l .invalid s).st (old :: fl) :=
      fun hw => h.sub (release_sub fl hl hr hw)
    cases l with
    | temp v => cases hl
    | var x => exact key hv
    | field i f => exact key hv
    | elem i k => exact key hv
    | key i k => exact key hv
  · simp only [hres] at hv ⊢
    refine h.dup_nonres (by simpa using hres) fun id => ?_
    have := readLoc_le hl hr id
    simp only [occ_append]; omega

/-- vacating a variable after its value was consumed (`destroy x`): nothing new is owned -/
theorem sub_setVar_invalid {s : State} {x : String} {env' : Env} (fl : List Val)
    (h : s.env.update x .invalid = some env') : Sub s fl { s with env := env' } fl := by
  obtain ⟨old, _, ho⟩ := occ_update h
  exact Sub.of_env fun id => by have := ho id; rw [occ_invalid] at this; omega

end Verif.Model.Lang2
