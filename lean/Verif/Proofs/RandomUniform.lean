/-
C47: exact uniformity for a source of any length (all draws, not only the first one).
-/
import Verif.Proofs.Random
namespace Verif.Proofs.Random
open Verif.Model.Random

/-- the value returned, if any -/
def Out.value : Out → Option Nat
  | .ok v _ _ => some v
  | _ => none

theorem value_bump (o : Out) : Out.value o.bump = Out.value o := by
  cases o <;> rfl

theorem allBytes_add (a b : Nat) :
    allBytes (a + b) = (allBytes a).flatMap (fun x => (allBytes b).map (fun y => x ++ y)) := by
  induction a with
  | zero => simp [allBytes]
  | succ a ih =>
    have : a + 1 + b = (a + b) + 1 := by omega
    rw [this, allBytes, ih, allBytes]
    simp only [List.map_flatMap, List.flatMap_map, List.flatMap_assoc, List.map_map]
    rfl

theorem countP_flatMap_split {α β} (xs : List α) (f : α → List β) (P : β → Bool) (Q1 Q2 : α → Bool)
    (n1 n2 : Nat)
    (h1 : ∀ x ∈ xs, Q1 x = true → (f x).countP P = n1)
    (h2 : ∀ x ∈ xs, Q1 x = false → Q2 x = true → (f x).countP P = n2)
    (h0 : ∀ x ∈ xs, Q1 x = false → Q2 x = false → (f x).countP P = 0) :
    (xs.flatMap f).countP P = xs.countP Q1 * n1 + (xs.filter (fun x => !Q1 x)).countP Q2 * n2 := by
  induction xs with
  | nil => simp
  | cons x xs ih =>
    have ih' := ih (fun y hy => h1 y (by simp [hy])) (fun y hy => h2 y (by simp [hy]))
      (fun y hy => h0 y (by simp [hy]))
    rw [List.flatMap_cons, List.countP_append, ih']
    cases hq1 : Q1 x
    · cases hq2 : Q2 x
      · rw [h0 x (by simp) hq1 hq2]
        simp [hq1, hq2]
      · rw [h2 x (by simp) hq1 hq2]
        simp [hq1, hq2, Nat.add_mul]
        omega
    · rw [h1 x (by simp) hq1]
      simp [hq1, Nat.add_mul]
      omega

/-- the call with fixed sampler parameters -/
def rr (b mask max : Nat) (src : Bytes) : Out := sample b mask max (src.length + 1) src 0

theorem rr_accept (b mask max : Nat) (x rest : Bytes) (hl : x.length = b) (h : candidate mask x ≤ max) :
    rr b mask max (x ++ rest) = .ok (candidate mask x) 1 b := by
  unfold rr sample
  rw [readRandom_append x rest hl]
  simp [h]

theorem rr_reject (b mask max : Nat) (x rest : Bytes) (hl : x.length = b) (h : ¬ candidate mask x ≤ max) :
    rr b mask max (x ++ rest) = (rr b mask max rest).bump :=
  sample_reject b mask max x rest hl h

theorem rr_short (b mask max : Nat) (src : Bytes) (h : src.length < b) : rr b mask max src = .exhausted 0 := by
  unfold rr sample readRandom
  rw [if_neg (by omega)]

/-- number of sources of length `L` for which the call returns `v` -/
def hits (b mask max L v : Nat) : Nat :=
  (allBytes L).countP (fun src => Out.value (rr b mask max src) == some v)

/-- recurrence: a source of length `b + L'` returns `v` iff its first draw is `v`, or its first draw
    is rejected and the rest returns `v` -/
theorem hits_step (b mask max L' v : Nat) (hv : v ≤ max) :
    hits b mask max (b + L') v
      = (allBytes b).countP (fun x => candidate mask x == v) * 256 ^ L'
        + ((allBytes b).filter (fun x => !(candidate mask x == v))).countP (fun x => decide (max < candidate mask x))
          * hits b mask max L' v := by
  unfold hits
  rw [allBytes_add]
  apply countP_flatMap_split
  · intro x hx hq
    have hl := length_of_mem_allBytes hx
    have hc : candidate mask x = v := by simpa using hq
    rw [List.countP_map, ← length_allBytes L']
    rw [List.countP_eq_length]
    intro y _
    simp [Function.comp, rr_accept b mask max x y hl (by omega), Out.value, hc]
  · intro x hx hq1 hq2
    have hl := length_of_mem_allBytes hx
    have hrej : ¬ candidate mask x ≤ max := by simp at hq2; omega
    rw [List.countP_map]
    apply List.countP_congr
    intro y _
    simp [Function.comp, rr_reject b mask max x y hl hrej, value_bump]
  · intro x hx hq1 hq2
    have hl := length_of_mem_allBytes hx
    have hacc : candidate mask x ≤ max := by simp at hq2; omega
    have hne : ¬ candidate mask x = v := by simpa using hq1
    rw [List.countP_map, List.countP_eq_zero]
    intro y _
    simp [Function.comp, rr_accept b mask max x y hl hacc, Out.value, hne]

/-- the rejected-draw count does not depend on which accepted value is excluded -/
theorem rejected_count (b mask max v : Nat) (hv : v ≤ max) :
    ((allBytes b).filter (fun x => !(candidate mask x == v))).countP (fun x => decide (max < candidate mask x))
      = (allBytes b).countP (fun x => decide (max < candidate mask x)) := by
  rw [List.countP_filter]
  apply List.countP_congr
  intro x _
  by_cases h : max < candidate mask x
  · have : ¬ candidate mask x = v := by omega
    simp [h, this]
  · simp [h]

/-- **Exact uniformity for every source length**: with mask `2^k − 1` covered by `b` bytes and
    `max < 2^k`, any two values `v, w ≤ max` are returned for exactly the same number of the `256^L`
    sources of length `L`. -/
theorem hits_eq (b k max : Nat) (hk : k ≤ 8 * b) (hmax : max < 2 ^ k) (v w : Nat) (hv : v ≤ max) (hw : w ≤ max) :
    ∀ L, hits b (2 ^ k - 1) max L v = hits b (2 ^ k - 1) max L w := by
  intro L
  induction L using Nat.strongRecOn with
  | _ L ih =>
    by_cases hb : b = 0
    · -- no bytes are drawn: k = 0, max = 0, v = w
      subst hb
      have : k = 0 := by omega
      subst this
      have : v = w := by simp at hmax; omega
      rw [this]
    · by_cases hL : L < b
      · unfold hits
        have h0 : ∀ u, (allBytes L).countP (fun src => Out.value (rr b (2 ^ k - 1) max src) == some u) = 0 := by
          intro u
          rw [List.countP_eq_zero]
          intro y hy
          simp [rr_short b _ max y (by rw [length_of_mem_allBytes hy]; exact hL), Out.value]
        rw [h0 v, h0 w]
      · obtain ⟨L', rfl⟩ : ∃ L', L = b + L' := ⟨L - b, by omega⟩
        rw [hits_step _ _ _ _ v hv, hits_step _ _ _ _ w hw, rejected_count _ _ _ v hv, rejected_count _ _ _ w hw]
        rw [ih L' (by omega)]
        have ha : ∀ u, u ≤ max → (allBytes b).countP (fun x => candidate (2 ^ k - 1) x == u) = 2 ^ (8 * b - k) := by
          intro u hu
          rw [← count_candidates b k u hk (by omega)]
          apply List.countP_congr
          intro x _
          simp
        rw [ha v hv, ha w hw]

end Verif.Proofs.Random
