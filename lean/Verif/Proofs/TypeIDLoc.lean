/- Helper lemmas for C45: hex and split round trips, `decodeTypeID ∘ typeID`. -/
import Verif.Model.Types.Location
namespace Verif.Proofs.TypeIDLoc
open Verif.Model.Types.Loc

theorem fromHex_hexChar : ∀ n : Fin 16, fromHexChar (hexChar n.val) = some n.val := by decide

theorem hexChar_ne_dot : ∀ n : Fin 16, (hexChar n.val != '.') = true := by decide

theorem hexDecode_hexEncode (bs : List UInt8) : hexDecode (hexEncode bs) = some bs := by
  induction bs with
  | nil => rfl
  | cons b bs ih =>
    have h1 : b.toNat / 16 < 16 := by have := b.toNat_lt; omega
    have h2 : b.toNat % 16 < 16 := Nat.mod_lt _ (by decide)
    have e1 := fromHex_hexChar ⟨_, h1⟩
    have e2 := fromHex_hexChar ⟨_, h2⟩
    simp only at e1 e2
    simp only [hexEncode, hexDecode, e1, e2, ih]
    have : b.toNat / 16 * 16 + b.toNat % 16 = b.toNat := by omega
    rw [this]
    simp

theorem noDot_hexEncode (bs : List UInt8) : noDot (hexEncode bs) = true := by
  induction bs with
  | nil => rfl
  | cons b bs ih =>
    have h1 : b.toNat / 16 < 16 := by have := b.toNat_lt; omega
    have h2 : b.toNat % 16 < 16 := Nat.mod_lt _ (by decide)
    have e1 := hexChar_ne_dot ⟨_, h1⟩
    have e2 := hexChar_ne_dot ⟨_, h2⟩
    simp only at e1 e2
    simp only [noDot] at ih
    simp [noDot, hexEncode, List.all_cons, e1, e2, ih]

theorem breakDot_append (a rest : Str) (h : noDot a = true) : breakDot (a ++ '.' :: rest) = some (a, rest) := by
  induction a with
  | nil => simp [breakDot]
  | cons c cs ih =>
    simp only [noDot, List.all_cons, Bool.and_eq_true, bne_iff_ne, ne_eq] at h
    have ih' := ih (by simpa [noDot] using h.2)
    simp [breakDot, h.1, ih']

theorem breakDot_noDot (s : Str) (h : noDot s = true) : breakDot s = none := by
  induction s with
  | nil => rfl
  | cons c cs ih =>
    simp only [noDot, List.all_cons, Bool.and_eq_true, bne_iff_ne, ne_eq] at h
    have ih' := ih (by simpa [noDot] using h.2)
    simp [breakDot, h.1, ih']

theorem breakDot_some_eq (s a r : Str) (h : breakDot s = some (a, r)) : s = a ++ '.' :: r := by
  induction s generalizing a with
  | nil => simp [breakDot] at h
  | cons c cs ih =>
    simp only [breakDot] at h
    split at h
    · next hc => simp at h; obtain ⟨rfl, rfl⟩ := h; simp [hc]
    · split at h
      · next a' r' hb =>
        simp at h; obtain ⟨rfl, rfl⟩ := h
        simp [ih a' hb]
      · simp at h

theorem breakDot_some_noDot (s a r : Str) (h : breakDot s = some (a, r)) : noDot a = true := by
  induction s generalizing a with
  | nil => simp [breakDot] at h
  | cons c cs ih =>
    simp only [breakDot] at h
    split at h
    · simp at h; obtain ⟨rfl, rfl⟩ := h; rfl
    · next hc =>
      split at h
      · next a' r' hb =>
        simp at h; obtain ⟨rfl, rfl⟩ := h
        have := ih a' hb
        simp only [noDot] at this
        simp [noDot, hc, this]
      · simp at h

theorem split_head (s : Str) : ∃ tl, split s = headPiece s :: tl := by
  unfold split headPiece splitN
  cases breakDot s with
  | none => exact ⟨[], rfl⟩
  | some p => exact ⟨_, rfl⟩

theorem headPiece_append (a rest : Str) (h : noDot a = true) : headPiece (a ++ '.' :: rest) = a := by
  simp [headPiece, breakDot_append a rest h]


theorem splitN_prefix (pre rest : Str) (n : Nat) (hp : noDot pre = true) :
    splitN (pre ++ '.' :: rest) (n + 2) = pre :: splitN rest (n + 1) := by
  simp [splitN, breakDot_append pre rest hp]

theorem splitN_id3 (pre s qid : Str) (hp : noDot pre = true) (hs : noDot s = true) :
    splitN (idLocationTypeID pre s qid) 3 = [pre, s, qid] := by
  show splitN (pre ++ '.' :: (s ++ '.' :: qid)) (1 + 2) = _
  rw [splitN_prefix pre _ 1 hp, splitN_prefix s _ 0 hs]
  rfl

theorem decodeId_roundtrip (pre : Str) (mk : Str → Location) (s qid : Str)
    (hp : noDot pre = true) (hs : noDot s = true) :
    decodeIdLocationTypeID pre mk (idLocationTypeID pre s qid) = .ok (mk s, qid) := by
  have hne : idLocationTypeID pre s qid ≠ [] := by simp [idLocationTypeID]
  simp [decodeIdLocationTypeID, hne, splitN_id3 pre s qid hp hs]

theorem copyInto32_id (i : List UInt8) (h : i.length = 32) : copyInto32 i = i := by
  have : i.take 32 = i := by rw [← h]; exact List.take_length
  simp [copyInto32, this, h]

theorem decodeHex_roundtrip (pre : Str) (mk : List UInt8 → Location) (i : List UInt8) (qid : Str)
    (hp : noDot pre = true) (hi : i.length = 32) :
    decodeHexLocationTypeID pre mk (idLocationTypeID pre (hexEncode i) qid) = .ok (mk i, qid) := by
  have hne : idLocationTypeID pre (hexEncode i) qid ≠ [] := by simp [idLocationTypeID]
  simp [decodeHexLocationTypeID, hne, splitN_id3 pre _ qid hp (noDot_hexEncode i), hexDecode_hexEncode,
    copyInto32_id i hi]

theorem splitN_addr4 (a : List UInt8) (qid : Str) :
    splitN (idLocationTypeID addressPrefix (hexEncode a) qid) 4 = addressPrefix :: hexEncode a :: splitN qid 2 := by
  show splitN (addressPrefix ++ '.' :: (hexEncode a ++ '.' :: qid)) (2 + 2) = _
  rw [splitN_prefix addressPrefix _ 2 (by decide), splitN_prefix (hexEncode a) _ 1 (noDot_hexEncode a)]

theorem decodeAddress_roundtrip (a : List UInt8) (n qid : Str) (ha : a.length = 8) (hn : n = headPiece qid) :
    decodeAddressLocationTypeID (idLocationTypeID addressPrefix (hexEncode a) qid) = .ok (.address a n, qid) := by
  have hne : idLocationTypeID addressPrefix (hexEncode a) qid ≠ [] := by simp [idLocationTypeID]
  have hb : bytesToAddress a = some a := by simp [bytesToAddress, ha]
  subst hn
  cases hq : breakDot qid with
  | none =>
    simp only [decodeAddressLocationTypeID, if_neg hne, splitN_addr4]
    simp [splitN, hq, hexDecode_hexEncode, hb, headPiece]
  | some p =>
    obtain ⟨x, r⟩ := p
    have := breakDot_some_eq qid x r hq
    subst this
    simp only [decodeAddressLocationTypeID, if_neg hne, splitN_addr4]
    simp [splitN, hq, hexDecode_hexEncode, hb, headPiece]

theorem decodeREPL_roundtrip (qid : Str) :
    decodeREPLLocationTypeID (replPrefix ++ '.' :: qid) = .ok (.repl, qid) := by
  have hs : splitN (replPrefix ++ '.' :: qid) 2 = [replPrefix, qid] := by
    show splitN (replPrefix ++ '.' :: qid) (0 + 2) = _
    rw [splitN_prefix replPrefix _ 0 (by decide)]; rfl
  have hne : replPrefix ++ '.' :: qid ≠ [] := by simp [replPrefix]
  simp [decodeREPLLocationTypeID, hne, hs]

theorem split_head_prefix (pre rest : Str) (hp : noDot pre = true) : ∃ tl, split (pre ++ '.' :: rest) = pre :: tl := by
  obtain ⟨tl, h⟩ := split_head (pre ++ '.' :: rest)
  exact ⟨tl, by rw [h, headPiece_append pre rest hp]⟩

/-- `decodeTypeID (typeID loc qid) = (loc, qid)` for every decodable location -/
theorem decode_roundtrip (loc : Option Location) (qid : Str) (h : decodable loc qid = true) :
    decodeTypeID (typeID loc qid) = .ok (loc, qid) := by
  cases loc with
  | none =>
    obtain ⟨tl, hs⟩ := split_head qid
    simp only [decodable, registeredPrefixes, List.contains_cons, List.contains_nil, Bool.or_false,
      Bool.not_eq_true', Bool.or_eq_false_iff, beq_eq_false_iff_ne, ne_eq] at h
    obtain ⟨h1, h2, h3, h4, h5, h6⟩ := h
    simp only [decodeTypeID, typeID, hs]
    simp [h1, h2, h3, h4, h5, h6]
  | some l =>
    cases l with
    | address a n =>
      simp only [decodable, Bool.and_eq_true, beq_iff_eq] at h
      obtain ⟨tl, hs⟩ := split_head_prefix addressPrefix (hexEncode a ++ '.' :: qid) (by decide)
      simp only [decodeTypeID, typeID, Location.typeID]
      rw [show idLocationTypeID addressPrefix (hexEncode a) qid = addressPrefix ++ '.' :: (hexEncode a ++ '.' :: qid) from rfl, hs]
      rw [show addressPrefix ++ '.' :: (hexEncode a ++ '.' :: qid) = idLocationTypeID addressPrefix (hexEncode a) qid from rfl,
        decodeAddress_roundtrip a n qid h.1 h.2]
      simp
    | string s =>
      simp only [decodable] at h
      obtain ⟨tl, hs⟩ := split_head_prefix stringPrefix (s ++ '.' :: qid) (by decide)
      simp only [decodeTypeID, typeID, Location.typeID]
      rw [show idLocationTypeID stringPrefix s qid = stringPrefix ++ '.' :: (s ++ '.' :: qid) from rfl, hs]
      rw [show stringPrefix ++ '.' :: (s ++ '.' :: qid) = idLocationTypeID stringPrefix s qid from rfl,
        decodeId_roundtrip stringPrefix .string s qid (by decide) h]
      simp [stringPrefix, addressPrefix]
    | identifier s =>
      simp only [decodable] at h
      obtain ⟨tl, hs⟩ := split_head_prefix identifierPrefix (s ++ '.' :: qid) (by decide)
      simp only [decodeTypeID, typeID, Location.typeID]
      rw [show idLocationTypeID identifierPrefix s qid = identifierPrefix ++ '.' :: (s ++ '.' :: qid) from rfl, hs]
      rw [show identifierPrefix ++ '.' :: (s ++ '.' :: qid) = idLocationTypeID identifierPrefix s qid from rfl,
        decodeId_roundtrip identifierPrefix .identifier s qid (by decide) h]
      simp [stringPrefix, addressPrefix, identifierPrefix]
    | transaction i =>
      simp only [decodable, beq_iff_eq] at h
      obtain ⟨tl, hs⟩ := split_head_prefix transactionPrefix (hexEncode i ++ '.' :: qid) (by decide)
      simp only [decodeTypeID, typeID, Location.typeID]
      rw [show idLocationTypeID transactionPrefix (hexEncode i) qid = transactionPrefix ++ '.' :: (hexEncode i ++ '.' :: qid) from rfl, hs]
      rw [show transactionPrefix ++ '.' :: (hexEncode i ++ '.' :: qid) = idLocationTypeID transactionPrefix (hexEncode i) qid from rfl,
        decodeHex_roundtrip transactionPrefix .transaction i qid (by decide) h]
      simp [stringPrefix, addressPrefix, identifierPrefix, transactionPrefix]
    | script i =>
      simp only [decodable, beq_iff_eq] at h
      obtain ⟨tl, hs⟩ := split_head_prefix scriptPrefix (hexEncode i ++ '.' :: qid) (by decide)
      simp only [decodeTypeID, typeID, Location.typeID]
      rw [show idLocationTypeID scriptPrefix (hexEncode i) qid = scriptPrefix ++ '.' :: (hexEncode i ++ '.' :: qid) from rfl, hs]
      rw [show scriptPrefix ++ '.' :: (hexEncode i ++ '.' :: qid) = idLocationTypeID scriptPrefix (hexEncode i) qid from rfl,
        decodeHex_roundtrip scriptPrefix .script i qid (by decide) h]
      simp [stringPrefix, addressPrefix, identifierPrefix, transactionPrefix, scriptPrefix]
    | repl =>
      obtain ⟨tl, hs⟩ := split_head_prefix replPrefix qid (by decide)
      simp only [decodeTypeID, typeID, Location.typeID, hs, decodeREPL_roundtrip]
      simp [stringPrefix, addressPrefix, identifierPrefix, transactionPrefix, scriptPrefix, replPrefix]

end Verif.Proofs.TypeIDLoc
