import Mathlib.Tactic.SplitIfs
/-! Big-endian byte strings as numbers: the lemmas shared by C17 (`toBigEndianBytes` round trips) and C18
(injectivity of `HashInput`).  Generic over the function `mb : Nat → List UInt8` that produces the
minimal magnitude (`big.Int.Bytes`), of which only `beVal (mb n) = n` is used. -/
namespace Verif.Proofs.BytesBE

abbrev Bytes := List UInt8

/-- `big.Int.SetBytes` -/
def beVal (bs : Bytes) : Nat := bs.foldl (fun a b => a * 256 + b.toNat) 0

theorem beVal_nil : beVal [] = 0 := rfl

theorem beVal_append_singleton (l : Bytes) (b : UInt8) : beVal (l ++ [b]) = beVal l * 256 + b.toNat := by
  simp [beVal, List.foldl_append]

theorem foldl_shift (l : Bytes) (a : Nat) :
    l.foldl (fun a b => a * 256 + b.toNat) a = a * 256 ^ l.length + l.foldl (fun a b => a * 256 + b.toNat) 0 := by
  induction l generalizing a with
  | nil => simp
  | cons b t ih =>
    simp only [List.foldl_cons, List.length_cons]
    rw [ih (a * 256 + b.toNat), ih (0 * 256 + b.toNat)]
    rw [Nat.pow_succ]
    simp only [Nat.zero_mul, Nat.zero_add, Nat.add_mul]
    have : a * 256 * 256 ^ t.length = a * (256 ^ t.length * 256) := by
      rw [Nat.mul_assoc, Nat.mul_comm 256]
    omega

theorem beVal_cons (b : UInt8) (l : Bytes) : beVal (b :: l) = b.toNat * 256 ^ l.length + beVal l := by
  unfold beVal
  rw [List.foldl_cons, foldl_shift]
  simp

theorem beVal_zero_cons (l : Bytes) : beVal (0 :: l) = beVal l := by
  rw [beVal_cons]; simp

theorem beVal_lt (l : Bytes) : beVal l < 256 ^ l.length := by
  induction l with
  | nil => simp [beVal]
  | cons b t ih =>
    rw [beVal_cons, List.length_cons, Nat.pow_succ]
    have := UInt8.toNat_lt b
    have h2 : b.toNat * 256 ^ t.length ≤ 255 * 256 ^ t.length := Nat.mul_le_mul_right _ (by omega)
    omega

theorem ofNat_toNat_mod (n : Nat) : (UInt8.ofNat (n % 256)).toNat = n % 256 := by
  simp

theorem xor_ff_involutive (b : UInt8) : (b ^^^ 0xff) ^^^ 0xff = b := by
  rw [UInt8.xor_assoc]; simp

theorem map_xor_ff_involutive (l : Bytes) : (l.map (fun b => b ^^^ 0xff)).map (fun b => b ^^^ 0xff) = l := by
  induction l with
  | nil => rfl
  | cons b t ih => simp only [List.map_cons, xor_ff_involutive, ih]

/-! ### fixed-width and minimal magnitudes -/

/-- the `k` low-order bytes of `n`, most significant first -/
def fixedBE : Nat → Nat → Bytes
  | 0, _ => []
  | k + 1, n => fixedBE k (n / 256) ++ [UInt8.ofNat (n % 256)]

theorem fixedBE_length (k n : Nat) : (fixedBE k n).length = k := by
  induction k generalizing n with
  | zero => rfl
  | succ k ih => simp [fixedBE, ih]

theorem beVal_fixedBE (k n : Nat) : beVal (fixedBE k n) = n % 256 ^ k := by
  induction k generalizing n with
  | zero => simp [fixedBE, beVal, Nat.mod_one]
  | succ k ih =>
    rw [fixedBE, beVal_append_singleton, ih, ofNat_toNat_mod, Nat.pow_succ]
    rw [Nat.mul_comm (256 ^ k) 256, Nat.mod_mul]
    omega

/-- fuel-bounded minimal magnitude (`0 ↦ []`) -/
def minBEAux : Nat → Nat → Bytes
  | 0, _ => []
  | f + 1, n => if n = 0 then [] else minBEAux f (n / 256) ++ [UInt8.ofNat (n % 256)]

theorem beVal_minBEAux (f n : Nat) (h : n < 256 ^ f) : beVal (minBEAux f n) = n := by
  induction f generalizing n with
  | zero => simp at h; subst h; rfl
  | succ f ih =>
    unfold minBEAux
    split_ifs with h0
    · subst h0; rfl
    · rw [beVal_append_singleton, ih, ofNat_toNat_mod]
      · omega
      · rw [Nat.pow_succ] at h; omega

theorem lt_pow_log2 (n : Nat) : n < 256 ^ (n.log2 + 1) := by
  have h1 := @Nat.lt_log2_self n
  have h2 : 2 ^ (n.log2 + 1) ≤ 256 ^ (n.log2 + 1) := Nat.pow_le_pow_left (by omega) _
  omega

/-! ### the signed minimal encoding (`values.SignedBigIntToBigEndianBytes`) and its decoder
(`values.BigEndianBytesToSignedBigInt`) -/

def signedEnc (mb : Nat → Bytes) (x : Int) : Bytes :=
  if x < 0 then
    let bs := (mb (-x - 1).toNat).map (fun b => b ^^^ 0xff)
    match bs with
    | [] => [0xff]
    | b :: _ => if b &&& 0x80 = 0 then 0xff :: bs else bs
  else if x = 0 then [0]
  else
    let bs := mb x.toNat
    match bs with
    | b :: _ => if b &&& 0x80 ≠ 0 then 0 :: bs else bs
    | [] => bs

def signedDec (b : Bytes) : Int :=
  match b with
  | [] => 0
  | b0 :: _ =>
    if b0 &&& 0x80 ≠ 0 then -((beVal (b.map (fun x => x ^^^ 0xff)) : Nat) + 1 : Int)
    else (beVal b : Nat)

theorem signedDec_signedEnc (mb : Nat → Bytes) (hmb : ∀ n, beVal (mb n) = n) (x : Int) :
    signedDec (signedEnc mb x) = x := by
  unfold signedEnc
  split_ifs with hneg hzero
  · -- negative
    have hm := hmb (-x - 1).toNat
    generalize hcs : mb (-x - 1).toNat = cs at hm
    cases cs with
    | nil =>
      simp only [List.map_nil]
      have : (-x - 1).toNat = 0 := by rw [← hm]; rfl
      have e : signedDec [0xff] = -1 := by decide
      rw [e]; omega
    | cons c cs' =>
      simp only [List.map_cons]
      split_ifs with htop
      · have e : signedDec (0xff :: (c ^^^ 0xff) :: cs'.map (fun b => b ^^^ 0xff)) =
            -((beVal (0 :: c :: cs') : Nat) + 1 : Int) := by
          unfold signedDec
          have h1 : ((0xff : UInt8) &&& 0x80) ≠ 0 := by decide
          have h2 : (0xff : UInt8) ^^^ 0xff = 0 := by decide
          simp only [h1, ne_eq, not_false_eq_true, if_true, List.map_cons, h2, xor_ff_involutive,
            map_xor_ff_involutive]
        rw [e, beVal_zero_cons, hm]; omega
      · have e : signedDec ((c ^^^ 0xff) :: cs'.map (fun b => b ^^^ 0xff)) =
            -((beVal (c :: cs') : Nat) + 1 : Int) := by
          unfold signedDec
          simp only [ne_eq, htop, not_false_eq_true, if_true, List.map_cons, xor_ff_involutive,
            map_xor_ff_involutive]
        rw [e, hm]; omega
  · subst hzero; decide
  · have hm := hmb x.toNat
    generalize hcs : mb x.toNat = cs at hm
    cases cs with
    | nil =>
      have : x.toNat = 0 := by rw [← hm]; rfl
      omega
    | cons c cs' =>
      simp only
      split_ifs with htop
      · have e : signedDec (0 :: c :: cs') = (beVal (0 :: c :: cs') : Nat) := by
          unfold signedDec
          have h1 : ¬ ((0 : UInt8) &&& 0x80) ≠ 0 := by decide
          simp only [h1, if_false]
        rw [e, beVal_zero_cons, hm]; omega
      · have e : signedDec (c :: cs') = (beVal (c :: cs') : Nat) := by
          unfold signedDec
          simp only [htop, if_false]
        rw [e, hm]; omega

theorem signedEnc_injective (mb : Nat → Bytes) (hmb : ∀ n, beVal (mb n) = n) {x y : Int}
    (h : signedEnc mb x = signedEnc mb y) : x = y := by
  rw [← signedDec_signedEnc mb hmb x, ← signedDec_signedEnc mb hmb y, h]

/-! ### fixed-width two's complement read by the signed decoder -/

set_option maxRecDepth 100000 in
theorem byte_facts : ∀ n : Fin 256,
    ((UInt8.ofNat n.val &&& 0x80 ≠ 0) ↔ 128 ≤ n.val) ∧ (UInt8.ofNat n.val ^^^ 0xff).toNat = 255 - n.val := by
  decide

theorem topBit_iff (b : UInt8) : (b &&& 0x80 ≠ 0) ↔ 128 ≤ b.toNat := by
  have := (byte_facts ⟨b.toNat, UInt8.toNat_lt b⟩).1
  simpa [UInt8.ofNat_toNat] using this

theorem xor_ff_toNat (b : UInt8) : (b ^^^ 0xff).toNat = 255 - b.toNat := by
  have := (byte_facts ⟨b.toNat, UInt8.toNat_lt b⟩).2
  simpa [UInt8.ofNat_toNat] using this

/-- complementing every byte complements the number -/
theorem beVal_map_xor (l : Bytes) : beVal (l.map (fun b => b ^^^ 0xff)) + beVal l + 1 = 256 ^ l.length := by
  induction l with
  | nil => rfl
  | cons b t ih =>
    rw [List.map_cons, beVal_cons, beVal_cons, List.length_map, xor_ff_toNat, List.length_cons, Nat.pow_succ]
    have hb := UInt8.toNat_lt b
    have e : (255 - b.toNat) * 256 ^ t.length + b.toNat * 256 ^ t.length = 255 * 256 ^ t.length := by
      rw [← Nat.add_mul]; congr 1; omega
    omega

/-- the signed decoder on a non-empty byte string is the two's-complement reading -/
theorem signedDec_eq (b : Bytes) (hne : b ≠ []) :
    signedDec b = if 256 ^ b.length ≤ 2 * beVal b then (beVal b : Int) - (256 ^ b.length : Nat) else (beVal b : Nat) := by
  cases b with
  | nil => exact absurd rfl hne
  | cons b0 t =>
    unfold signedDec
    have hx := beVal_map_xor (b0 :: t)
    have hc := beVal_cons b0 t
    have ht := beVal_lt t
    have hb := UInt8.toNat_lt b0
    have hP : 256 ^ (b0 :: t).length = 256 ^ t.length * 256 := by rw [List.length_cons, Nat.pow_succ]
    by_cases h128 : 128 ≤ b0.toNat
    · have htop := (topBit_iff b0).2 h128
      have h1 : 128 * 256 ^ t.length ≤ b0.toNat * 256 ^ t.length := Nat.mul_le_mul_right _ h128
      simp only []
      rw [if_pos htop, if_pos (by omega)]
      omega
    · have htop : ¬ (b0 &&& 0x80 ≠ 0) := fun h => h128 ((topBit_iff b0).1 h)
      have h1 : b0.toNat * 256 ^ t.length ≤ 127 * 256 ^ t.length := Nat.mul_le_mul_right _ (by omega)
      simp only []
      rw [if_neg htop, if_neg (by omega)]

end Verif.Proofs.BytesBE
