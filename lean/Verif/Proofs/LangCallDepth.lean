import Verif.Model.Lang.CallDepth
/-! Helper lemmas for the call-depth accounting model (`Verif.Model.Lang.CallDepth`, property C34). -/
namespace Verif.Proofs.LangCallDepth
open Verif.Model.Lang.CallDepth


mutual
theorem v_le_i : (c : Call) → vDepth c ≤ iDepth c
  | .mk native args body => by
    have h1 := vL_le_iL args
    have h2 := vL_le_iL body
    simp only [vDepth, iDepth]
    split <;> omega
theorem vL_le_iL : (cs : List Call) → vDepthL cs ≤ iDepthL cs
  | [] => by simp [vDepthL, iDepthL]
  | c :: cs => by
    have h1 := v_le_i c
    have h2 := vL_le_iL cs
    simp only [vDepthL, iDepthL]
    omega
end

mutual
theorem plain_eq : (c : Call) → plain c = true → vDepth c = iDepth c
  | .mk native args body => by
    intro h
    simp only [plain, Bool.and_eq_true, Bool.not_eq_true', List.isEmpty_iff] at h
    obtain ⟨⟨hn, ha⟩, hb⟩ := h
    have h2 := plainL_eq body hb
    subst ha; subst hn
    simp only [vDepth, iDepth, vDepthL, iDepthL, h2]
    simp
theorem plainL_eq : (cs : List Call) → plainL cs = true → vDepthL cs = iDepthL cs
  | [] => by simp [vDepthL, iDepthL]
  | c :: cs => by
    intro h
    simp only [plainL, Bool.and_eq_true] at h
    simp only [vDepthL, iDepthL, plain_eq c h.1, plainL_eq cs h.2]
end

theorem nested_i (n : Nat) : iDepth (nested n) = 2 * n + 1 := by
  induction n with
  | zero => simp [nested, iDepth, iDepthL]
  | succ n ih => simp only [nested, iDepth, iDepthL, ih]; omega

theorem nested_v (n : Nat) : vDepth (nested n) = n + 1 := by
  induction n with
  | zero => simp [nested, vDepth, vDepthL]
  | succ n ih => simp only [nested, vDepth, vDepthL, ih]; simp; omega


end Verif.Proofs.LangCallDepth
