import Verif.Model.Lang.Eval
/-
Helper lemmas about the state/trace monad `M` of the μCadence evaluator: how `bind` composes
outcomes, states and traces; trace-free primitives.  Used by Properties/C52.lean and the VM simulation.
-/
namespace Verif.Model.Lang

/-- the computation did not produce a value (error or out of fuel) -/
def Outcome.failed {α} (o : Outcome α) : Prop := ∀ a, o ≠ .ok a

/-- re-type a failed outcome -/
def Outcome.castErr {α β} : Outcome α → Outcome β
  | .ok _ => .outOfFuel
  | .userErr k => .userErr k
  | .internalErr k => .internalErr k
  | .outOfFuel => .outOfFuel

theorem Outcome.failed_iff {α} (o : Outcome α) : o.failed ↔ (∀ a, o ≠ .ok a) := Iff.rfl

theorem Outcome.ok_not_failed {α} {o : Outcome α} {a : α} (h : o = .ok a) : ¬ o.failed := fun hf => hf a h

namespace M

theorem bind_ok {α β} (m : M α) (f : α → M β) (s : State) (a : α) (h : (m s).out = .ok a) :
    (m >>= f) s = ⟨(f a (m s).st).out, (f a (m s).st).st, (m s).tr ++ (f a (m s).st).tr⟩ := by
  show M.bind m f s = _
  simp only [M.bind, h]

theorem bind_failed {α β} (m : M α) (f : α → M β) (s : State) (h : (m s).out.failed) :
    (m >>= f) s = ⟨(m s).out.castErr, (m s).st, (m s).tr⟩ := by
  show M.bind m f s = _
  unfold M.bind
  cases hm : (m s).out with
  | ok a => exact absurd hm (h a)
  | userErr k => simp only [hm, Outcome.castErr]
  | internalErr k => simp only [hm, Outcome.castErr]
  | outOfFuel => simp only [hm, Outcome.castErr]

/-- a bind of trace-free computations is trace-free -/
theorem bind_tr_nil {α β} (m : M α) (f : α → M β) (s : State) (hm : (m s).tr = [])
    (hf : ∀ a s', (f a s').tr = []) : ((m >>= f) s).tr = [] := by
  show (M.bind m f s).tr = []
  unfold M.bind
  cases h : (m s).out with
  | ok a => simp only [h, hm, hf, List.append_nil]
  | userErr k => simp only [h, hm]
  | internalErr k => simp only [h, hm]
  | outOfFuel => simp only [h, hm]

/-- a bind of computations that neither log nor change the state does neither -/
theorem bind_quiet {α β} (m : M α) (f : α → M β) (s : State) (hm : (m s).tr = [] ∧ (m s).st = s)
    (hf : ∀ a, (f a s).tr = [] ∧ (f a s).st = s) :
    ((m >>= f) s).tr = [] ∧ ((m >>= f) s).st = s := by
  show (M.bind m f s).tr = [] ∧ (M.bind m f s).st = s
  unfold M.bind
  cases h : (m s).out with
  | ok a => simp only [h, hm.1, hm.2, (hf a).1, (hf a).2, List.append_nil, and_self]
  | userErr k => simp only [h, hm.1, hm.2, and_self]
  | internalErr k => simp only [h, hm.1, hm.2, and_self]
  | outOfFuel => simp only [h, hm.1, hm.2, and_self]

/-- `m` followed by a finisher that neither logs nor changes the state: trace and state are `m`'s -/
theorem bind_fin {α β} (m : M α) (g : α → M β) (s : State)
    (hg : ∀ a s', (g a s').tr = [] ∧ (g a s').st = s') :
    ((m >>= g) s).tr = (m s).tr ∧ ((m >>= g) s).st = (m s).st := by
  show (M.bind m g s).tr = _ ∧ (M.bind m g s).st = _
  unfold M.bind
  cases h : (m s).out with
  | ok a => simp only [h, (hg a _).1, (hg a _).2, List.append_nil, and_self]
  | userErr k => simp only [h, and_self]
  | internalErr k => simp only [h, and_self]
  | outOfFuel => simp only [h, and_self]

/-- `m` followed by a trace-free continuation: the trace is `m`'s -/
theorem bind_tr_fin {α β} (m : M α) (g : α → M β) (s : State) (hg : ∀ a s', (g a s').tr = []) :
    ((m >>= g) s).tr = (m s).tr := by
  show (M.bind m g s).tr = _
  unfold M.bind
  cases h : (m s).out with
  | ok a => simp only [h, hg a _, List.append_nil]
  | userErr k => simp only [h]
  | internalErr k => simp only [h]
  | outOfFuel => simp only [h]

theorem failed_of_eq {α} {o : Outcome α} : (∀ a, o ≠ .ok a) → o.failed := id

theorem pure_apply {α} (a : α) (s : State) : (Pure.pure a : M α) s = ⟨.ok a, s, []⟩ := rfl

theorem ofExcept_tr {α} (x : Except ErrKind α) (s : State) : (M.ofExcept x s).tr = [] := by
  cases x with
  | ok a => rfl
  | error k => simp only [M.ofExcept]; split <;> rfl

theorem ofExcept_st {α} (x : Except ErrKind α) (s : State) : (M.ofExcept x s).st = s := by
  cases x with
  | ok a => rfl
  | error k => simp only [M.ofExcept]; split <;> rfl

end M

theorem getVar_tr (x : String) (s : State) : (getVar x s).tr = [] := by
  unfold getVar; split <;> rfl
theorem getVar_st (x : String) (s : State) : (getVar x s).st = s := by
  unfold getVar; split <;> rfl
theorem setVar_tr (x : String) (v : Value) (s : State) : (setVar x v s).tr = [] := by
  unfold setVar; split <;> rfl

theorem setVar_tr' (x : String) (v : Value) : ∀ s, (setVar x v s).tr = [] := setVar_tr x v

/-- reading a location emits nothing and leaves the state unchanged -/
theorem lvRead_tr (lv : LVal) (s : State) : (lvRead lv s).tr = [] ∧ (lvRead lv s).st = s := by
  unfold lvRead
  cases lv.root with
  | temp v => exact ⟨M.ofExcept_tr _ _, M.ofExcept_st _ _⟩
  | var x =>
    exact M.bind_quiet _ _ _ ⟨getVar_tr _ _, getVar_st _ _⟩ (fun c => ⟨M.ofExcept_tr _ _, M.ofExcept_st _ _⟩)

/-- writing a location emits nothing -/
theorem lvWrite_tr (lv : LVal) (v : Value) (s : State) : (lvWrite lv v s).tr = [] := by
  unfold lvWrite
  cases lv.root with
  | temp c =>
    exact M.bind_tr_nil _ _ _ (M.ofExcept_tr _ _) (fun _ _ => rfl)
  | var x =>
    exact M.bind_tr_nil _ _ _ (getVar_tr _ _) (fun c s' =>
      M.bind_tr_nil _ _ _ (M.ofExcept_tr _ _) (fun c' s'' => setVar_tr _ _ _))

end Verif.Model.Lang
