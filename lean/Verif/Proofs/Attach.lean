import Verif.Model.Front.Attach
/-! C39 — conservation of comment groups by the attachment model. -/
namespace Verif.Proofs.Attach
open Verif.Model.Front.Attach

theorem groupsOf_append (a b : List Asg) : groupsOf (a ++ b) = groupsOf a ++ groupsOf b := by
  simp [groupsOf]

theorem beforeFirst_cons (isTop : Bool) (a b c : Nat) (gs : List G) :
    groupsOf (beforeFirst isTop a b c gs).1 ++ (beforeFirst isTop a b c gs).2 = gs := by
  induction gs with
  | nil => rfl
  | cons g gs ih =>
    simp only [beforeFirst]
    split
    · simp only [groupsOf, List.map_cons, List.cons_append, apply_ite Asg.g, ite_self]
      exact congrArg (g :: ·) ih
    · rfl

theorem takeInside_cons (a b : Nat) (gs : List G) : (takeInside a b gs).1 ++ (takeInside a b gs).2 = gs := by
  induction gs with
  | nil => rfl
  | cons g gs ih =>
    simp only [takeInside]
    split
    · exact congrArg (g :: ·) ih
    · rfl

theorem between_cons (a b c d : Nat) (gs : List G) :
    groupsOf (between a b c d gs).1 ++ (between a b c d gs).2 = gs := by
  induction gs with
  | nil => rfl
  | cons g gs ih =>
    simp only [between]
    split
    · simp only [groupsOf, List.map_cons, List.cons_append, apply_ite Asg.g, ite_self]
      exact congrArg (g :: ·) ih
    · rfl

theorem afterLast_cons (a : Nat) : ∀ (l : Nat) (gs : List G),
    groupsOf (afterLast a l gs).1 ++ (afterLast a l gs).2 = gs := by
  intro l gs
  induction gs generalizing l with
  | nil => rfl
  | cons g gs ih =>
    simp only [afterLast]
    split
    · rfl
    · simp only [groupsOf, List.map_cons, List.cons_append]
      exact congrArg (g :: ·) (ih g.eline)

theorem groupsOf_map (f : G → Asg) (hf : ∀ g, (f g).g = g) (l : List G) : groupsOf (l.map f) = l := by
  induction l with
  | nil => rfl
  | cons g l ih => simp only [groupsOf, List.map_cons, hf] at ih ⊢; exact congrArg (g :: ·) ih

theorem insideAsg_cons (lv : List N → List G → List Asg × List G)
    (hlv : ∀ ns gs, groupsOf (lv ns gs).1 ++ (lv ns gs).2 = gs) (n : N) (ins : List G) :
    groupsOf (insideAsg lv n ins) = ins := by
  cases ins with
  | nil => rfl
  | cons g0 gs0 =>
    simp only [insideAsg, groupsOf_append]
    rw [groupsOf_map _ (fun g => by split <;> rfl)]
    exact hlv _ _

theorem sameLineStep_cons (n : N) (rest : List N) (gs : List G) :
    groupsOf (sameLineStep n rest gs).1 ++ (sameLineStep n rest gs).2.1 = gs := by
  cases gs with
  | nil => rfl
  | cons g gs' =>
    simp only [sameLineStep]
    split <;> (split <;> rfl)

theorem betweenStep_cons (n : N) (rest : List N) (gs : List G) :
    groupsOf (betweenStep n rest gs).1 ++ (betweenStep n rest gs).2 = gs := by
  cases rest with
  | nil => rfl
  | cons nx _ => exact between_cons _ _ _ _ _

/-- the sibling loop conserves the groups when the recursion on the children does -/
theorem sibLoop_cons (lv : List N → List G → List Asg × List G)
    (hlv : ∀ ns gs, groupsOf (lv ns gs).1 ++ (lv ns gs).2 = gs) :
    ∀ (ns : List N) (gs : List G), groupsOf (sibLoop lv ns gs).1 ++ (sibLoop lv ns gs).2.1 = gs := by
  intro ns
  induction ns with
  | nil => intro gs; rfl
  | cons n rest ih =>
    intro gs
    simp only [sibLoop, groupsOf_append, List.append_assoc]
    rw [ih, betweenStep_cons, sameLineStep_cons, insideAsg_cons lv hlv, takeInside_cons]

theorem level_cons : ∀ (fuel : Nat) (isTop : Bool) (ns : List N) (gs : List G),
    groupsOf (level fuel isTop ns gs).1 ++ (level fuel isTop ns gs).2 = gs := by
  intro fuel
  induction fuel with
  | zero => intro _ _ gs; rfl
  | succ fuel ih =>
    intro isTop ns gs
    cases gs with
    | nil => rfl
    | cons g0 gs0 =>
      cases ns with
      | nil =>
        simp only [level]
        split
        · show groupsOf ((g0 :: gs0).map fun g => (⟨.header, 0, g⟩ : Asg)) ++ [] = g0 :: gs0
          rw [groupsOf_map _ (fun _ => rfl)]; simp
        · rfl
      | cons s0 rest =>
        simp only [level]
        have hb := beforeFirst_cons isTop s0.id s0.start s0.sline (g0 :: gs0)
        have hs := sibLoop_cons (level fuel false) (ih false) (s0 :: rest)
          (beforeFirst isTop s0.id s0.start s0.sline (g0 :: gs0)).2
        have ha := afterLast_cons (lastId (s0 :: rest))
          (sibLoop (level fuel false) (s0 :: rest) (beforeFirst isTop s0.id s0.start s0.sline (g0 :: gs0)).2).2.2
          (sibLoop (level fuel false) (s0 :: rest) (beforeFirst isTop s0.id s0.start s0.sline (g0 :: gs0)).2).2.1
        simp only [groupsOf_append, List.append_assoc]
        rw [ha, hs, hb]

/-- every comment group is assigned to exactly one slot, in order -/
theorem attach_cons (fuel : Nat) (decls : List N) (gs : List G) : groupsOf (attach fuel decls gs) = gs := by
  unfold attach
  simp only [groupsOf_append]
  have : groupsOf ((level fuel true decls gs).2.map (fun g => (⟨.footer, 0, g⟩ : Asg))) = (level fuel true decls gs).2 := by
    exact groupsOf_map _ (fun _ => rfl) _
  rw [this]
  exact level_cons fuel true decls gs

end Verif.Proofs.Attach
