import Verif.Model.Lang2.Heap
/-
Lemmas about the L2 object heap: deep copy allocates only fresh cells, closed regions, the frame
lemma for structural dumps.  Used by Properties/C05 (copy semantics).
-/
namespace Verif.Model.Lang2

/-- a set of identities closed under "child of" in the heap `h` -/
def Closed (S : Nat → Prop) (h : Heap) : Prop :=
  ∀ id c, S id → h[id]? = some c → ∀ j ∈ c.obj.ptrs, S j

/-- two heaps agree on the cells of a region -/
def AgreeOn (S : Nat → Prop) (h1 h2 : Heap) : Prop := ∀ id, S id → h1[id]? = h2[id]?

/-- identities reachable from a value (its reachable identity set) -/
inductive Reach (h : Heap) (v : Val) : Nat → Prop where
  | root {id} : id ∈ v.ptrs → Reach h v id
  | step {id j c} : Reach h v id → h[id]? = some c → j ∈ c.obj.ptrs → Reach h v j

theorem reach_in_closed {S : Nat → Prop} {h : Heap} {v : Val} (hc : Closed S h)
    (hv : ∀ j ∈ v.ptrs, S j) : ∀ id, Reach h v id → S id := by
  intro id hr
  induction hr with
  | root hm => exact hv _ hm
  | step _ hget hj ih => exact hc _ _ ih hget _ hj

/-- well-formed heap: every cell points to existing cells -/
def WF (h : Heap) : Prop := Closed (· < h.length) h

theorem withVals_ptrs (o : Obj) (vs : List Val) :
    ∀ j ∈ (o.withVals vs).ptrs, j ∈ vs.flatMap Val.ptrs := by
  intro j hj
  cases o with
  | comp n fs =>
    simp only [Obj.withVals, Obj.ptrs, Obj.vals, List.mem_flatMap, List.mem_map] at hj
    obtain ⟨v, ⟨p, hp, rfl⟩, hjv⟩ := hj
    obtain ⟨q, hq, rfl⟩ := hp
    simp only [List.mem_flatMap]
    exact ⟨q.2, (List.of_mem_zip hq).2, hjv⟩
  | arr es =>
    simpa [Obj.withVals, Obj.ptrs, Obj.vals] using hj
  | dict kvs =>
    simp only [Obj.withVals, Obj.ptrs, Obj.vals, List.mem_flatMap, List.mem_map] at hj
    obtain ⟨v, ⟨p, hp, rfl⟩, hjv⟩ := hj
    obtain ⟨q, hq, rfl⟩ := hp
    simp only [List.mem_flatMap]
    exact ⟨q.2, (List.of_mem_zip hq).2, hjv⟩

/-- what a deep copy does to the heap: it only appends cells; the result and all appended cells point
    into the appended region only -/
structure CopySpec (h h' : Heap) (ptrs : List Nat) : Prop where
  ext : ∃ e, h' = h ++ e
  fresh : ∀ j ∈ ptrs, h.length ≤ j ∧ j < h'.length
  closed : ∀ id c, h.length ≤ id → h'[id]? = some c → ∀ j ∈ c.obj.ptrs, h.length ≤ j ∧ j < h'.length

theorem CopySpec.le {h h' : Heap} {ps} (s : CopySpec h h' ps) : h.length ≤ h'.length := by
  obtain ⟨e, rfl⟩ := s.ext; simp

theorem CopySpec.refl (h : Heap) : CopySpec h h [] :=
  ⟨⟨[], by simp⟩, by simp, by
    intro id c hid hget
    have := (List.getElem?_eq_some_iff.mp hget).1
    omega⟩

theorem CopySpec.trans {h h1 h2 : Heap} {p1 p2} (a : CopySpec h h1 p1) (b : CopySpec h1 h2 p2) :
    CopySpec h h2 (p1 ++ p2) := by
  obtain ⟨e1, rfl⟩ := a.ext
  obtain ⟨e2, rfl⟩ := b.ext
  refine ⟨⟨e1 ++ e2, by simp⟩, ?_, ?_⟩
  · intro j hj
    rcases List.mem_append.mp hj with hj | hj
    · have := a.fresh j hj; simp at this ⊢; omega
    · have := b.fresh j hj; simp at this ⊢; omega
  · intro id c hid hget
    by_cases hlt : id < (h ++ e1).length
    · have hget1 : (h ++ e1)[id]? = some c := by
        rw [List.getElem?_append_left hlt] at hget; exact hget
      intro j hj
      have := a.closed id c hid hget1 j hj
      simp at this ⊢; omega
    · intro j hj
      have := b.closed id c (by omega) hget j hj
      simp at this ⊢; omega

mutual
theorem copyVal_spec : ∀ (n : Nat) (h : Heap) (v : Val) (h' : Heap) (v' : Val),
    copyVal n h v = some (h', v') → CopySpec h h' v'.ptrs
  | 0, _, _, _, _, he => by simp [copyVal] at he
  | n + 1, h, v, h', v', he => by
    cases v with
    | some w =>
      simp only [copyVal, Option.bind_eq_bind, Option.pure_def, Option.bind_eq_some_iff] at he
      obtain ⟨⟨h1, w'⟩, hw, heq⟩ := he
      simp only [Option.some.injEq, Prod.mk.injEq] at heq
      obtain ⟨rfl, rfl⟩ := heq
      simpa [Val.ptrs] using copyVal_spec n h w _ _ hw
    | ptr id =>
      simp only [copyVal, Option.bind_eq_bind, Option.pure_def, Option.bind_eq_some_iff] at he
      obtain ⟨c, hc, ⟨h1, vs'⟩, hvs, heq⟩ := he
      simp only [Option.some.injEq, Prod.mk.injEq] at heq
      obtain ⟨rfl, rfl⟩ := heq
      have s1 := copyVals_spec n h c.obj.vals h1 vs' hvs
      obtain ⟨e1, rfl⟩ := s1.ext
      refine ⟨⟨e1 ++ [{ c with obj := c.obj.withVals vs', gen := 0 }], by simp⟩, ?_, ?_⟩
      · intro j hj
        simp only [Val.ptrs, List.mem_singleton] at hj
        subst hj; simp
      · intro i ci hi hget
        by_cases hlt : i < (h ++ e1).length
        · rw [List.getElem?_append_left hlt] at hget
          intro j hj
          have := s1.closed i ci hi hget j hj
          simp at this ⊢; omega
        · have hi' : i = (h ++ e1).length := by
            have := (List.getElem?_eq_some_iff.mp hget).1
            simp at this hlt ⊢; omega
          subst hi'
          simp at hget
          subst hget
          intro j hj
          have hj' := withVals_ptrs c.obj vs' j hj
          have := s1.fresh j hj'
          simp at this ⊢; omega
    | int _ _ | bool _ | str _ | void | nil | ref _ _ | sref _ _ | invalid | account =>
      simp only [copyVal, Option.pure_def, Option.some.injEq, Prod.mk.injEq] at he
      obtain ⟨rfl, rfl⟩ := he
      simpa [Val.ptrs] using CopySpec.refl h
theorem copyVals_spec : ∀ (n : Nat) (h : Heap) (vs : List Val) (h' : Heap) (vs' : List Val),
    copyVals n h vs = some (h', vs') → CopySpec h h' (vs'.flatMap Val.ptrs)
  | 0, _, _, _, _, he => by simp [copyVals] at he
  | n + 1, h, [], h', vs', he => by
    simp only [copyVals, Option.pure_def, Option.some.injEq, Prod.mk.injEq] at he
    obtain ⟨rfl, rfl⟩ := he
    simpa using CopySpec.refl h
  | n + 1, h, v :: vs, h', vs', he => by
    simp only [copyVals, Option.bind_eq_bind, Option.pure_def, Option.bind_eq_some_iff] at he
    obtain ⟨⟨h1, v1⟩, hv, ⟨h2, vs2⟩, hvs, heq⟩ := he
    simp only [Option.some.injEq, Prod.mk.injEq] at heq
    obtain ⟨rfl, rfl⟩ := heq
    have a := copyVal_spec n h v h1 v1 hv
    have b := copyVals_spec n h1 vs h2 vs2 hvs
    simpa using a.trans b
end

/-! ### frame lemma for dumps -/

theorem ptrs_of_mem_vals {o : Obj} {v : Val} (hv : v ∈ o.vals) : ∀ j ∈ v.ptrs, j ∈ o.ptrs := by
  intro j hj
  simp only [Obj.ptrs, List.mem_flatMap]
  exact ⟨v, hv, hj⟩

mutual
theorem dumpVal_frame {S : Nat → Prop} {h1 h2 : Heap} (hc : Closed S h1) (ha : AgreeOn S h1 h2) :
    ∀ (n : Nat) (v : Val), (∀ j ∈ v.ptrs, S j) → dumpVal n h1 v = dumpVal n h2 v
  | 0, _, _ => by simp [dumpVal]
  | n + 1, v, hv => by
    cases v with
    | some w => simp only [dumpVal]; exact dumpVal_frame hc ha n w (by simpa [Val.ptrs] using hv)
    | ptr id =>
      have hs : S id := hv id (by simp [Val.ptrs])
      simp only [dumpVal]
      rw [← ha id hs]
      cases hget : h1[id]? with
      | none => rfl
      | some c =>
        have hcl := hc id c hs hget
        simp only
        cases ho : c.obj with
        | comp name fs =>
          simp only
          rw [dumpFields_frame hc ha n fs (fun p hp j hj => hcl j (by
            rw [ho]; exact ptrs_of_mem_vals (o := .comp name fs) (by simp [Obj.vals]; exact ⟨p.1, hp⟩) j hj))]
        | arr es =>
          simp only
          rw [dumpVals_frame hc ha n es (fun w hw j hj => hcl j (by
            rw [ho]; exact ptrs_of_mem_vals (o := .arr es) (by simpa [Obj.vals] using hw) j hj))]
        | dict kvs =>
          simp only
          rw [dumpEntries_frame hc ha n kvs (fun p hp j hj => hcl j (by
            rw [ho]; exact ptrs_of_mem_vals (o := .dict kvs) (by simp [Obj.vals]; exact ⟨p.1, hp⟩) j hj))]
    | int _ _ | bool _ | str _ | void | nil | ref _ _ | sref _ _ | invalid | account => simp [dumpVal]
theorem dumpVals_frame {S : Nat → Prop} {h1 h2 : Heap} (hc : Closed S h1) (ha : AgreeOn S h1 h2) :
    ∀ (n : Nat) (vs : List Val), (∀ w ∈ vs, ∀ j ∈ w.ptrs, S j) → dumpVals n h1 vs = dumpVals n h2 vs
  | 0, _, _ => by simp [dumpVals]
  | _ + 1, [], _ => by simp [dumpVals]
  | n + 1, [v], hv => by
    simp only [dumpVals]; exact dumpVal_frame hc ha n v (hv v (by simp))
  | n + 1, v :: w :: vs, hv => by
    simp only [dumpVals]
    rw [dumpVal_frame hc ha n v (hv v (by simp)),
      dumpVals_frame hc ha n (w :: vs) (fun x hx => hv x (by simp [hx]))]
theorem dumpFields_frame {S : Nat → Prop} {h1 h2 : Heap} (hc : Closed S h1) (ha : AgreeOn S h1 h2) :
    ∀ (n : Nat) (fs : List (String × Val)), (∀ p ∈ fs, ∀ j ∈ p.2.ptrs, S j) → dumpFields n h1 fs = dumpFields n h2 fs
  | 0, _, _ => by simp [dumpFields]
  | _ + 1, [], _ => by simp [dumpFields]
  | n + 1, [(f, v)], hv => by
    simp only [dumpFields]; rw [dumpVal_frame hc ha n v (hv (f, v) (by simp))]
  | n + 1, (f, v) :: q :: fs, hv => by
    simp only [dumpFields]
    rw [dumpVal_frame hc ha n v (hv (f, v) (by simp)),
      dumpFields_frame hc ha n (q :: fs) (fun x hx => hv x (by simp [hx]))]
theorem dumpEntries_frame {S : Nat → Prop} {h1 h2 : Heap} (hc : Closed S h1) (ha : AgreeOn S h1 h2) :
    ∀ (n : Nat) (kvs : List (Val × Val)), (∀ p ∈ kvs, ∀ j ∈ p.2.ptrs, S j) → dumpEntries n h1 kvs = dumpEntries n h2 kvs
  | 0, _, _ => by simp [dumpEntries]
  | _ + 1, [], _ => by simp [dumpEntries]
  | n + 1, [(k, v)], hv => by
    simp only [dumpEntries]; rw [dumpVal_frame hc ha n v (hv (k, v) (by simp))]
  | n + 1, (k, v) :: q :: kvs, hv => by
    simp only [dumpEntries]
    rw [dumpVal_frame hc ha n v (hv (k, v) (by simp)),
      dumpEntries_frame hc ha n (q :: kvs) (fun x hx => hv x (by simp [hx]))]
end

end Verif.Model.Lang2

namespace Verif.Model.Lang2

/-! ### mutation histories confined to a region -/

/-- `Mutated P h h2`: `h2` arises from `h` by any sequence of cell overwrites at identities in `P` and
    allocations of new cells whose identity is in `P`, where every written cell points into `P` only
    (the writes an execution performs through a value whose reachable cells lie in `P`: stored values
    are transferred, hence fresh, or already part of the region). -/
inductive Mutated (P : Nat → Prop) : Heap → Heap → Prop where
  | refl (h : Heap) : Mutated P h h
  | set {h h1 : Heap} {id : Nat} {c : Cell} :
      Mutated P h h1 → P id → (∀ j ∈ c.obj.ptrs, P j) → Mutated P h (h1.set id c)
  | alloc {h h1 : Heap} {c : Cell} :
      Mutated P h h1 → P h1.length → (∀ j ∈ c.obj.ptrs, P j) → Mutated P h (h1 ++ [c])

theorem Mutated.agree {P : Nat → Prop} {h h2 : Heap} (m : Mutated P h h2) :
    AgreeOn (fun id => ¬ P id) h h2 := by
  induction m with
  | refl => intro _ _; rfl
  | @set h1 id c _ hp _ ih =>
    intro i hi
    rw [ih i hi]
    have : id ≠ i := fun e => hi (e ▸ hp)
    rw [List.getElem?_set_ne this]
  | @alloc h1 c _ hp _ ih =>
    intro i hi
    rw [ih i hi]
    have hne : i ≠ h1.length := fun e => hi (e ▸ hp)
    by_cases hlt : i < h1.length
    · rw [List.getElem?_append_left hlt]
    · have h1n : h1[i]? = none := List.getElem?_eq_none (by omega)
      have h2n : (h1 ++ [c])[i]? = none := List.getElem?_eq_none (by simp; omega)
      rw [h1n, h2n]

theorem Mutated.closed {P : Nat → Prop} {h h2 : Heap} (m : Mutated P h h2) (hc : Closed P h) :
    Closed P h2 := by
  induction m with
  | refl => exact hc
  | @set h1 id c _ hp hcp ih =>
    intro i ci hi hget j hj
    by_cases e : id = i
    · subst e
      by_cases hlt : id < h1.length
      · rw [List.getElem?_set_self hlt] at hget
        cases hget; exact hcp j hj
      · rw [List.getElem?_eq_none (by simp; omega)] at hget; cases hget
    · rw [List.getElem?_set_ne e] at hget
      exact ih i ci hi hget j hj
  | @alloc h1 c _ hp hcp ih =>
    intro i ci hi hget j hj
    by_cases hlt : i < h1.length
    · rw [List.getElem?_append_left hlt] at hget
      exact ih i ci hi hget j hj
    · have hi' : i = h1.length := by
        have := (List.getElem?_eq_some_iff.mp hget).1
        simp at this; omega
      subst hi'
      simp at hget
      subst hget
      exact hcp j hj

theorem agreeOn_append (h e : Heap) : AgreeOn (· < h.length) h (h ++ e) := by
  intro i hi
  rw [List.getElem?_append_left hi]

end Verif.Model.Lang2
