import Verif.Model.Caches
/-! Helper lemmas for C31 (sequential cache semantics).  Core only. -/
namespace Verif.Proofs.Caches
open Verif.Model.Caches

variable {κ α ρ : Type} [DecidableEq κ]

theorem consistent_empty (f : Fill κ α) : Consistent f (Table.empty : Table κ α) := by
  intro k v h; simp [Table.empty] at h

theorem consistent_set (f : Fill κ α) (t : Table κ α) (k : κ) (h : Consistent f t) :
    Consistent f (t.set k (f.init k)) := by
  intro k' v hv
  unfold Table.set at hv
  split at hv
  · next heq => cases hv; rw [heq]
  · exact h k' v hv

theorem read_value (f : Fill κ α) (t : Table κ α) (k : κ) (h : Consistent f t) :
    (t.read f k).1 = f.init k := by
  unfold Table.read
  cases hk : t k with
  | none => rfl
  | some v => simp [h k v hk]

theorem read_consistent (f : Fill κ α) (t : Table κ α) (k : κ) (h : Consistent f t) :
    Consistent f (t.read f k).2.1 := by
  unfold Table.read
  cases hk : t k with
  | none => exact consistent_set f t k h
  | some v => exact h

theorem read_charges (f : Fill κ α) (t : Table κ α) (k : κ) (hu : Unmetered f) :
    (t.read f k).2.2 = [] := by
  unfold Table.read
  cases hk : t k with
  | none => exact hu k
  | some v => rfl

theorem run_consistent (f : Fill κ α) (p : Prog κ α ρ) :
    ∀ t, Consistent f t → Consistent f (run f p t).cache := by
  induction p with
  | done r => intro t h; exact h
  | charge c p ih => intro t h; exact ih t h
  | read k cont ih =>
    intro t h
    exact ih _ _ (read_consistent f t k h)

theorem run_eq (f : Fill κ α) (hu : Unmetered f) (p : Prog κ α ρ) :
    ∀ t₁ t₂, Consistent f t₁ → Consistent f t₂ →
      (run f p t₁).charges = (run f p t₂).charges ∧ (run f p t₁).result = (run f p t₂).result := by
  induction p with
  | done r => intro t₁ t₂ _ _; exact ⟨rfl, rfl⟩
  | charge c p ih =>
    intro t₁ t₂ h₁ h₂
    have := ih t₁ t₂ h₁ h₂
    exact ⟨by simp [run, this.1], this.2⟩
  | read k cont ih =>
    intro t₁ t₂ h₁ h₂
    have v₁ := read_value f t₁ k h₁
    have v₂ := read_value f t₂ k h₂
    have c₁ := read_charges f t₁ k hu
    have c₂ := read_charges f t₂ k hu
    have := ih (f.init k) _ _ (read_consistent f t₁ k h₁) (read_consistent f t₂ k h₂)
    simp only [run, v₁, v₂, c₁, c₂, List.nil_append]
    exact this

/-- the program reads only keys in `S` -/
inductive ReadsOnly (S : κ → Prop) : Prog κ α ρ → Prop where
  | done (r : ρ) : ReadsOnly S (.done r)
  | charge (c : Charge) (p : Prog κ α ρ) : ReadsOnly S p → ReadsOnly S (.charge c p)
  | read (k : κ) (cont : α → Prog κ α ρ) : S k → (∀ a, ReadsOnly S (cont a)) → ReadsOnly S (.read k cont)

theorem read_charges_at (f : Fill κ α) (t : Table κ α) (k : κ) (hu : f.fillCharges k = []) :
    (t.read f k).2.2 = [] := by
  unfold Table.read
  cases hk : t k with
  | none => exact hu
  | some v => rfl

/-- `run_eq` for programs that only read cells whose fill path is unmetered; other cells may meter -/
theorem run_eq_on (f : Fill κ α) (S : κ → Prop) (hu : ∀ k, S k → f.fillCharges k = []) (p : Prog κ α ρ)
    (hp : ReadsOnly S p) :
    ∀ t₁ t₂, Consistent f t₁ → Consistent f t₂ →
      (run f p t₁).charges = (run f p t₂).charges ∧ (run f p t₁).result = (run f p t₂).result := by
  induction hp with
  | done r => intro t₁ t₂ _ _; exact ⟨rfl, rfl⟩
  | charge c p _ ih =>
    intro t₁ t₂ h₁ h₂
    have := ih t₁ t₂ h₁ h₂
    exact ⟨by simp [run, this.1], this.2⟩
  | read k cont hk _ ih =>
    intro t₁ t₂ h₁ h₂
    have v₁ := read_value f t₁ k h₁
    have v₂ := read_value f t₂ k h₂
    have c₁ := read_charges_at f t₁ k (hu k hk)
    have c₂ := read_charges_at f t₂ k (hu k hk)
    have := ih (f.init k) _ _ (read_consistent f t₁ k h₁) (read_consistent f t₂ k h₂)
    simp only [run, v₁, v₂, c₁, c₂, List.nil_append]
    exact this

theorem after_consistent (f : Fill κ α) (qs : List (Prog κ α ρ)) :
    ∀ t, Consistent f t → Consistent f (after f qs t) := by
  induction qs with
  | nil => intro t h; exact h
  | cons q qs ih => intro t h; exact ih _ (run_consistent f q t h)

end Verif.Proofs.Caches
