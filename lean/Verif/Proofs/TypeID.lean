/- Helper lemmas for C45: ID agreement of the three views, conversion round trip, constructors. -/
import Verif.Model.Types.TypeID
import Verif.Proofs.TypeIDLoc
namespace Verif.Proofs.TypeID
open Verif.Model.Types.Loc Verif.Model.Types.TID Verif.Proofs.TypeIDLoc

theorem sortStrs_single (x : Str) : sortStrs [x] = [x] := rfl

theorem fmtInter_single (x : Str) : fmtInter [x] = fmtInterSingle x := rfl

theorem map_toStatic_typeID (is : List Nominal) : (is.map Nominal.toStatic).map (·.typeID) = is.map Nominal.id := by
  induction is with
  | nil => rfl
  | cons a l ih => simp [Nominal.toStatic]

theorem staticID_inter (is : List Nominal) : staticID (.inter (is.map Nominal.toStatic)) = fmtInter (is.map Nominal.id) := by
  match is with
  | [] => rfl
  | [i] => rfl
  | a :: b :: l =>
    show fmtInter (((a :: b :: l).map Nominal.toStatic).map (·.typeID)) = _
    rw [map_toStatic_typeID]

theorem sauth_static_id (a : SAuth) (h : a.wf = true) :
    (if a.toStatic ≠ DAuth.unauth then a.toStatic.id else []) = (if a ≠ SAuth.unauth then a.id else []) := by
  cases a with
  | unauth => simp [SAuth.toStatic]
  | set k es =>
    simp only [SAuth.wf, nodupIds, beq_iff_eq] at h
    simp [SAuth.toStatic, newEntitlementSetAuthorization, DAuth.id, SAuth.id, h]
  | map m => simp [SAuth.toStatic, DAuth.id, SAuth.id]

theorem sauth_ext_id (a : SAuth) :
    (if a.export ≠ XAuth.unauth then a.export.id else []) = (if a ≠ SAuth.unauth then a.id else []) := by
  cases a <;> simp [SAuth.export, XAuth.id, SAuth.id]

/-- static ID = checker ID -/
theorem staticID_toStatic (t : STy) (h : t.wf = true) : staticID (toStatic t) = semaID t := by
  induction t with
  | prim n => rfl
  | opt t ih => simp only [STy.wf] at h; simp [toStatic, staticID, semaID, ih h]
  | varArr t ih => simp only [STy.wf] at h; simp [toStatic, staticID, semaID, ih h]
  | constArr t n ih => simp only [STy.wf] at h; simp [toStatic, staticID, semaID, ih h]
  | dict k v ihk ihv =>
    simp only [STy.wf, Bool.and_eq_true] at h
    simp [toStatic, staticID, semaID, ihk h.1, ihv h.2]
  | ref a t ih =>
    simp only [STy.wf, Bool.and_eq_true] at h
    simp only [toStatic, staticID, semaID, ih h.2, sauth_static_id a h.1]
  | comp n => rfl
  | iface n => rfl
  | inter is => simp only [toStatic, staticID_inter, semaID]
  | fn v p r _ _ => rfl
  | nilT => rfl
  | consT t r _ _ => rfl
  | capAny => rfl
  | cap t ih => simp only [STy.wf] at h; simp [toStatic, staticID, semaID, ih h]
  | range t ih =>
    simp only [STy.wf, Bool.and_eq_true] at h
    simp [toStatic, staticID, semaID, ih h.1]

/-- exported ID = checker ID (types and parameter lists) -/
theorem extID_export (t : STy) :
    (t.wf = true → extID (exportTy t) = semaID t) ∧ (t.wf = true → extParamIDs (exportTy t) = semaParamIDs t) := by
  induction t with
  | prim n => exact ⟨fun _ => rfl, fun _ => rfl⟩
  | opt t ih =>
    refine ⟨fun h => ?_, fun _ => rfl⟩
    simp only [STy.wf] at h; simp [exportTy, extID, semaID, ih.1 h]
  | varArr t ih =>
    refine ⟨fun h => ?_, fun _ => rfl⟩
    simp only [STy.wf] at h; simp [exportTy, extID, semaID, ih.1 h]
  | constArr t n ih =>
    refine ⟨fun h => ?_, fun _ => rfl⟩
    simp only [STy.wf] at h; simp [exportTy, extID, semaID, ih.1 h]
  | dict k v ihk ihv =>
    refine ⟨fun h => ?_, fun _ => rfl⟩
    simp only [STy.wf, Bool.and_eq_true] at h
    simp [exportTy, extID, semaID, ihk.1 h.1, ihv.1 h.2]
  | ref a t ih =>
    refine ⟨fun h => ?_, fun _ => rfl⟩
    simp only [STy.wf, Bool.and_eq_true] at h
    simp only [exportTy, extID, semaID, ih.1 h.2, sauth_ext_id a]
  | comp n => exact ⟨fun _ => rfl, fun _ => rfl⟩
  | iface n => exact ⟨fun _ => rfl, fun _ => rfl⟩
  | inter is => exact ⟨fun _ => rfl, fun _ => rfl⟩
  | fn v p r ihp ihr =>
    refine ⟨fun h => ?_, fun _ => rfl⟩
    simp only [STy.wf, Bool.and_eq_true] at h
    simp only [exportTy, extID, semaID, ihp.2 h.1, ihr.1 h.2]
  | nilT => exact ⟨fun _ => rfl, fun _ => rfl⟩
  | consT t r iht ihr =>
    refine ⟨fun _ => rfl, fun h => ?_⟩
    simp only [STy.wf, Bool.and_eq_true] at h
    simp only [exportTy, extParamIDs, semaParamIDs, iht.1 h.1, ihr.2 h.2]
  | capAny => exact ⟨fun _ => rfl, fun _ => rfl⟩
  | cap t ih =>
    refine ⟨fun h => ?_, fun _ => rfl⟩
    simp only [STy.wf] at h; simp [exportTy, extID, semaID, ih.1 h]
  | range t ih =>
    refine ⟨fun h => ?_, fun _ => rfl⟩
    simp only [STy.wf, Bool.and_eq_true, bne_iff_ne, ne_eq] at h
    simp [exportTy, extID, semaID, ih.1 h.1, fmtRange, h.2]

theorem map_importStatic (is : List Nominal) : is.map Nominal.importStatic = is.map Nominal.toStatic := rfl

/-- importing an exported type gives the converted static type -/
theorem import_export (t : STy) (h : t.fnFree = true) : importTy (exportTy t) = some (toStatic t) := by
  induction t with
  | prim n => rfl
  | opt t ih => simp only [STy.fnFree] at h; simp [exportTy, importTy, toStatic, ih h]
  | varArr t ih => simp only [STy.fnFree] at h; simp [exportTy, importTy, toStatic, ih h]
  | constArr t n ih => simp only [STy.fnFree] at h; simp [exportTy, importTy, toStatic, ih h]
  | dict k v ihk ihv =>
    simp only [STy.fnFree, Bool.and_eq_true] at h
    simp [exportTy, importTy, toStatic, ihk h.1, ihv h.2]
  | ref a t ih =>
    simp only [STy.fnFree] at h
    cases a <;> simp [exportTy, importTy, toStatic, ih h, SAuth.export, XAuth.import, SAuth.toStatic]
  | comp n => rfl
  | iface n => rfl
  | inter is => rfl
  | fn v p r _ _ => simp [STy.fnFree] at h
  | nilT => simp [STy.fnFree] at h
  | consT t r _ _ => simp [STy.fnFree] at h
  | capAny => rfl
  | cap t ih => simp only [STy.fnFree] at h; simp [exportTy, importTy, toStatic, ih h]
  | range t ih => simp only [STy.fnFree] at h; simp [exportTy, importTy, toStatic, ih h]

/-! conversion round trip -/

theorem allSome_map (f : Str → Option Nominal) (l : List Nominal) (h : ∀ x ∈ l, f x.id = some x) :
    allSome ((l.map Nominal.id).map f) = some l := by
  induction l with
  | nil => rfl
  | cons a l ih =>
    have ha := h a (by simp)
    have := ih (fun x hx => h x (by simp [hx]))
    simp only [List.map_cons, allSome, ha, this]; rfl

theorem allSome_map_static (env : Env) (l : List Nominal) (h : ∀ x ∈ l, x.resolves env = true) :
    allSome ((l.map Nominal.toStatic).map (fun n => lookupNominal env n.loc n.typeID)) = some l := by
  induction l with
  | nil => rfl
  | cons a l ih =>
    have ha := h a (by simp)
    simp only [Nominal.resolves, beq_iff_eq] at ha
    have := ih (fun x hx => h x (by simp [hx]))
    have ha' : lookupNominal env a.toStatic.loc a.toStatic.typeID = some a := ha
    simp only [List.map_cons, allSome, ha', this]; rfl

theorem lookupEntitlement_of (env : Env) (e : Nominal) (h : e.entResolves env = true) :
    lookupEntitlement env e.id = some e := by
  simp only [Nominal.entResolves, Bool.and_eq_true, Nominal.resolves, beq_iff_eq] at h
  simp [lookupEntitlement, lookupByID, Nominal.id, decode_roundtrip e.loc e.qid h.1]
  exact h.2

theorem lookupByID_of (env : Env) (e : Nominal) (h : e.entResolves env = true) :
    lookupByID env e.id = some e := lookupEntitlement_of env e h

theorem sauth_roundtrip (env : Env) (a : SAuth) (h : a.resolves env = true) : a.toStatic.toSema env = some a := by
  cases a with
  | unauth => rfl
  | set k es =>
    simp only [SAuth.resolves, Bool.and_eq_true, nodupIds, beq_iff_eq, List.all_eq_true] at h
    simp only [SAuth.toStatic, newEntitlementSetAuthorization, h.1, DAuth.toSema]
    rw [allSome_map (lookupEntitlement env) es (fun x hx => lookupEntitlement_of env x (h.2 x hx))]
    rfl
  | map m =>
    simp only [SAuth.resolves] at h
    simp [SAuth.toStatic, DAuth.toSema, lookupEntitlement_of env m h]

/-- checker → run-time → checker is the identity on types whose declarations the run-time lookups find -/
theorem toSema_toStatic (env : Env) (t : STy) (h : t.resolves env = true) : toSema env (toStatic t) = some t := by
  induction t with
  | prim n => rfl
  | opt t ih => simp only [STy.resolves] at h; simp [toStatic, toSema, ih h]
  | varArr t ih => simp only [STy.resolves] at h; simp [toStatic, toSema, ih h]
  | constArr t n ih => simp only [STy.resolves] at h; simp [toStatic, toSema, ih h]
  | dict k v ihk ihv =>
    simp only [STy.resolves, Bool.and_eq_true] at h
    simp [toStatic, toSema, ihk h.1, ihv h.2]
  | ref a t ih =>
    simp only [STy.resolves, Bool.and_eq_true] at h
    simp [toStatic, toSema, ih h.2, sauth_roundtrip env a h.1]
  | comp n =>
    simp only [STy.resolves, Nominal.resolves, beq_iff_eq] at h
    simp [toStatic, toSema, Nominal.toStatic, h]
  | iface n =>
    simp only [STy.resolves, Nominal.resolves, beq_iff_eq] at h
    simp [toStatic, toSema, Nominal.toStatic, h]
  | inter is =>
    simp only [STy.resolves, List.all_eq_true] at h
    simp only [toStatic, toSema, allSome_map_static env is h]
    rfl
  | fn v p r _ _ => rfl
  | nilT => simp [STy.resolves] at h
  | consT t r _ _ => simp [STy.resolves] at h
  | capAny => rfl
  | cap t ih => simp only [STy.resolves] at h; simp [toStatic, toSema, ih h]
  | range t ih => simp only [STy.resolves] at h; simp [toStatic, toSema, ih h]

theorem sameSet_refl (l : List Nominal) : sameSet l l = true := by
  simp [sameSet, List.all_eq_true]

theorem sauth_equal_refl (a : SAuth) : a.equal a = true := by
  cases a <;> simp [SAuth.equal, sameSet_refl]

theorem equal_refl (t : STy) : t.equal t = true := by
  induction t <;> simp_all [STy.equal, sameSet_refl, sauth_equal_refl]

end Verif.Proofs.TypeID
