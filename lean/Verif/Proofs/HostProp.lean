import Verif.Model.HostProp
namespace Verif.Proofs.HostProp
open Verif.Model.HostProp

def AllWrapped (sites : Nat → Site) : Prop := ∀ m, (sites m).wrapPanic = true ∧ (sites m).returnsErr = true

/-- every planned failure among calls `[lo, hi)` was absorbed by a `tryUpdate` frame -/
def Absorbed (plan : Nat → Option Mode) (st : St) (lo hi : Nat) : Prop :=
  ∀ c, lo ≤ c → c < hi → plan c ≠ none → c ∈ st.caught ∨ c ∈ st.absorbed

structure Inv (plan : Nat → Option Mode) (st st' : St) (r : Option Raise) : Prop where
  mono : st.counter ≤ st'.counter
  swallowed : st'.swallowed = st.swallowed
  caught_mono : ∀ c, c ∈ st.caught ∨ c ∈ st.absorbed → c ∈ st'.caught ∨ c ∈ st'.absorbed
  success : r = none → Absorbed plan st' st.counter st'.counter
  failure : ∀ x, r = some x → x.isRaw = false ∧ st.counter ≤ x.carrier ∧ x.carrier + 1 = st'.counter ∧
    plan x.carrier ≠ none ∧ Absorbed plan st' st.counter x.carrier

theorem callStep_inv (site : Site) (hs : site.wrapPanic = true ∧ site.returnsErr = true)
    (plan : Nat → Option Mode) (pk : Bool) (st : St) :
    Inv plan st (callStep site plan pk st).1 (callStep site plan pk st).2 := by
  unfold callStep
  simp only []
  split
  · rename_i hp
    refine ⟨by simp, by simp, by simp, ?_, by simp⟩
    intro _ c h1 h2 h3
    simp at h2
    have : c = st.counter := by omega
    subst this; exact absurd hp h3
  · rename_i hp
    simp only [hs.1, if_true]
    refine ⟨by simp, by simp, by simp, by simp, ?_⟩
    intro x hx
    simp at hx; subst hx
    refine ⟨by simp [Raise.isRaw], by simp [Raise.carrier], by simp [Raise.carrier], by simp [Raise.carrier, hp], ?_⟩
    intro c h1 h2
    simp [Raise.carrier] at h2; omega
  · rename_i hp
    simp only [hs.2, if_true]
    refine ⟨by simp, by simp, by simp, by simp, ?_⟩
    intro x hx
    simp at hx; subst hx
    refine ⟨by cases pk <;> simp [Raise.isRaw], by cases pk <;> simp [Raise.carrier], by cases pk <;> simp [Raise.carrier],
      by cases pk <;> simp [Raise.carrier, hp], ?_⟩
    intro c h1 h2
    cases pk <;> simp [Raise.carrier] at h2 <;> omega

theorem run_inv (sites : Nat → Site) (hs : AllWrapped sites) (plan : Nat → Option Mode) (t : Tree) :
    ∀ st, Inv plan st (run sites plan t st).1 (run sites plan t st).2 := by
  induction t with
  | nop =>
    intro st
    refine ⟨by simp [run], by simp [run], by simp [run], ?_, by simp [run]⟩
    intro _ c h1 h2; simp [run] at h2; omega
  | call m => intro st; simpa [run] using callStep_inv (sites m) (hs m) plan false st
  | pkValidate m => intro st; simpa [run] using callStep_inv (sites m) (hs m) plan true st
  | seq a b iha ihb =>
    intro st
    have ia := iha st
    simp only [run]
    rcases hra : run sites plan a st with ⟨st1, ra⟩
    rw [hra] at ia
    cases ra with
    | some r => simpa using ia
    | none =>
      have ib := ihb st1
      simp only []
      rcases hrb : run sites plan b st1 with ⟨st2, rb⟩
      rw [hrb] at ib
      simp only [] at ia ib ⊢
      refine ⟨by have := ia.mono; have := ib.mono; omega, by rw [ib.swallowed, ia.swallowed],
        fun c hc => ib.caught_mono c (ia.caught_mono c hc), ?_, ?_⟩
      · intro hr c h1 h2 h3
        by_cases hlt : c < st1.counter
        · exact ib.caught_mono c (ia.success rfl c h1 hlt h3)
        · exact ib.success hr c (by omega) h2 h3
      · intro x hx
        obtain ⟨f1, f2, f3, f4, f5⟩ := ib.failure x hx
        refine ⟨f1, by have := ia.mono; omega, f3, f4, ?_⟩
        intro c h1 h2 h3
        by_cases hlt : c < st1.counter
        · exact ib.caught_mono c (ia.success rfl c h1 hlt h3)
        · exact f5 c (by omega) h2 h3
  | tryUpdate t ih =>
    intro st
    have it := ih st
    simp only [run]
    rcases hr : run sites plan t st with ⟨st1, r⟩
    rw [hr] at it
    simp only [] at it
    cases r with
    | none => simpa using it
    | some x =>
      obtain ⟨f1, f2, f3, f4, f5⟩ := it.failure x rfl
      cases x with
      | raw c => simp [Raise.isRaw] at f1
      | ext c =>
        simp only [Raise.carrier] at f2 f3 f4 f5
        refine ⟨it.mono, it.swallowed, ?_, ?_, by simp⟩
        · intro c' hc
          rcases it.caught_mono c' hc with h | h
          · exact .inl (List.mem_cons_of_mem _ h)
          · exact .inr h
        · intro _ c' h1 h2 h3
          simp only [] at h2 ⊢
          by_cases hlt : c' < c
          · rcases f5 c' h1 hlt h3 with h | h
            · exact .inl (List.mem_cons_of_mem _ h)
            · exact .inr h
          · have : c' = c := by omega
            subst this; exact .inl List.mem_cons_self
      | user c =>
        simp only [Raise.carrier] at f2 f3 f4 f5
        refine ⟨it.mono, it.swallowed, ?_, ?_, by simp⟩
        · intro c' hc
          rcases it.caught_mono c' hc with h | h
          · exact .inl (List.mem_cons_of_mem _ h)
          · exact .inr h
        · intro _ c' h1 h2 h3
          simp only [] at h2 ⊢
          by_cases hlt : c' < c
          · rcases f5 c' h1 hlt h3 with h | h
            · exact .inl (List.mem_cons_of_mem _ h)
            · exact .inr h
          · have : c' = c := by omega
            subst this; exact .inl List.mem_cons_self
  | absorbErr m =>
    intro st
    simp only [run]
    split
    · rename_i hp
      simp only [(hs m).2, if_true]
      refine ⟨by simp, by simp, ?_, ?_, by simp⟩
      · intro c hc
        rcases hc with h | h
        · exact .inl h
        · exact .inr (List.mem_cons_of_mem _ h)
      · intro _ c h1 h2 h3
        simp only [] at h2 ⊢
        have : c = st.counter := by omega
        subst this; exact .inr List.mem_cons_self
    · exact callStep_inv (sites m) (hs m) plan false st

/-- the call counter only grows (no side condition on the sites) -/
theorem run_mono (sites : Nat → Site) (plan : Nat → Option Mode) (t : Tree) :
    ∀ st, st.counter ≤ (run sites plan t st).1.counter := by
  induction t with
  | nop => intro st; simp [run]
  | call m => intro st; simp only [run, callStep]; split <;> (try split) <;> simp
  | pkValidate m => intro st; simp only [run, callStep]; split <;> (try split) <;> simp
  | absorbErr m =>
    intro st
    simp only [run]
    split
    · split
      · simp
      · simp only [callStep]; split <;> (try split) <;> simp
    · simp only [callStep]; split <;> (try split) <;> simp
  | seq a b iha ihb =>
    intro st
    simp only [run]
    have ia := iha st
    rcases hra : run sites plan a st with ⟨st1, ra⟩
    rw [hra] at ia
    cases ra with
    | some r => simpa using ia
    | none =>
      have ib := ihb st1
      simp only [] at ia ib ⊢
      omega
  | tryUpdate t ih =>
    intro st
    simp only [run]
    have it := ih st
    rcases hr : run sites plan t st with ⟨st1, r⟩
    rw [hr] at it
    cases r with
    | none => simpa using it
    | some x => cases x <;> simpa using it

/-- without `absorbErr` nodes nothing is ever added to `absorbed` -/
theorem run_absorbed (sites : Nat → Site) (plan : Nat → Option Mode) (t : Tree) (hna : t.hasAbsorb = false) :
    ∀ st, (run sites plan t st).1.absorbed = st.absorbed := by
  induction t with
  | nop => intro st; simp [run]
  | call m => intro st; simp only [run, callStep]; split <;> (try split) <;> simp
  | pkValidate m => intro st; simp only [run, callStep]; split <;> (try split) <;> simp
  | absorbErr m => simp [Tree.hasAbsorb] at hna
  | seq a b iha ihb =>
    intro st
    simp only [Tree.hasAbsorb, Bool.or_eq_false_iff] at hna
    simp only [run]
    have ia := iha hna.1 st
    rcases hra : run sites plan a st with ⟨st1, ra⟩
    rw [hra] at ia
    cases ra with
    | some r => simpa using ia
    | none =>
      simp only []
      rw [ihb hna.2 st1]; exact ia
  | tryUpdate t ih =>
    intro st
    simp only [Tree.hasAbsorb] at hna
    simp only [run]
    have it := ih hna st
    rcases hr : run sites plan t st with ⟨st1, r⟩
    rw [hr] at it
    cases r with
    | none => simpa using it
    | some x => cases x <;> simpa using it

/-- what is added to `absorbed` is an *error return* (never a panic) of a call made by an `absorbErr`
node (the only constructor that adds to `absorbed`), at a call index the run reached -/
theorem run_absorbed_err (sites : Nat → Site) (plan : Nat → Option Mode) (t : Tree) :
    ∀ st c, c ∈ (run sites plan t st).1.absorbed → c ∈ st.absorbed ∨
      (plan c = some .err ∧ st.counter ≤ c ∧ c < (run sites plan t st).1.counter ∧ t.hasAbsorb = true) := by
  induction t with
  | nop => intro st c h; exact .inl (by simpa [run] using h)
  | call m =>
    intro st c h
    refine .inl ?_
    simp only [run, callStep] at h
    split at h <;> (try split at h) <;> simpa using h
  | pkValidate m =>
    intro st c h
    refine .inl ?_
    simp only [run, callStep] at h
    split at h <;> (try split at h) <;> simpa using h
  | absorbErr m =>
    intro st c h
    simp only [run] at h ⊢
    split at h
    · rename_i hp
      split at h
      · simp only [List.mem_cons] at h
        rcases h with h | h
        · subst h
          rename_i hr
          exact .inr ⟨hp, Nat.le_refl _, by simp [hr], rfl⟩
        · exact .inl h
      · refine .inl ?_
        simp only [callStep] at h
        split at h <;> (try split at h) <;> simpa using h
    · refine .inl ?_
      simp only [callStep] at h
      split at h <;> (try split at h) <;> simpa using h
  | seq a b iha ihb =>
    intro st c h
    simp only [run] at h ⊢
    have ma := run_mono sites plan a st
    rcases hra : run sites plan a st with ⟨st1, ra⟩
    rw [hra] at h ma
    cases ra with
    | some r =>
      simp only [] at h ⊢
      rcases iha st c (by rw [hra]; exact h) with h1 | ⟨h1, h2, h3, h4⟩
      · exact .inl h1
      · rw [hra] at h3
        exact .inr ⟨h1, h2, h3, by simp [Tree.hasAbsorb, h4]⟩
    | none =>
      simp only [] at h ⊢
      have mb := run_mono sites plan b st1
      rcases ihb st1 c h with h1 | ⟨h1, h2, h3, h4⟩
      · rcases iha st c (by rw [hra]; exact h1) with h5 | ⟨h5, h6, h7, h8⟩
        · exact .inl h5
        · rw [hra] at h7
          exact .inr ⟨h5, h6, by simp only [] at h7 mb; omega, by simp [Tree.hasAbsorb, h8]⟩
      · exact .inr ⟨h1, by simp only [] at ma; omega, h3, by simp [Tree.hasAbsorb, h4]⟩
  | tryUpdate t ih =>
    intro st c h
    simp only [run] at h ⊢
    rcases hr : run sites plan t st with ⟨st1, r⟩
    rw [hr] at h
    have step : ∀ (st' : St), st'.absorbed = st1.absorbed → st'.counter = st1.counter → c ∈ st'.absorbed →
        c ∈ st.absorbed ∨ (plan c = some .err ∧ st.counter ≤ c ∧ c < st'.counter ∧ (Tree.tryUpdate t).hasAbsorb = true) := by
      intro st' ha hc hm
      rcases ih st c (by rw [hr]; rw [ha] at hm; exact hm) with h1 | ⟨h1, h2, h3, h4⟩
      · exact .inl h1
      · rw [hr] at h3
        exact .inr ⟨h1, h2, by rw [hc]; exact h3, by simpa [Tree.hasAbsorb] using h4⟩
    cases r with
    | none => exact step st1 rfl rfl (by simpa using h)
    | some x =>
      cases x with
      | ext c' => exact step _ rfl rfl (by simpa using h)
      | user c' => exact step _ rfl rfl (by simpa using h)
      | raw c' => exact step st1 rfl rfl (by simpa using h)

end Verif.Proofs.HostProp
