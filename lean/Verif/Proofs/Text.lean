import Verif.Model.Num.Text
import Verif.Spec.Text
import Mathlib.Tactic.SplitIfs
namespace Verif.Proofs.Text
open Verif.Model.NumT Verif.Model.Text Verif.Spec.Text

theorem digit_facts : ∀ d, d < 10 → digitVal (digitChar d) = d ∧ isDigit (digitChar d) = true
    ∧ digitChar d ≠ '+' ∧ digitChar d ≠ '-' := by decide

theorem ofDigits_append (l : List Char) (c : Char) : ofDigits (l ++ [c]) = ofDigits l * 10 + digitVal c := by
  simp [ofDigits, List.foldl_append]

theorem natDigits_spec (n : Nat) :
    ofDigits (natDigits n) = n ∧ (natDigits n).all isDigit = true ∧ natDigits n ≠ []
    ∧ (∀ c, (natDigits n).head? = some c → c ≠ '+' ∧ c ≠ '-') := by
  induction n using Nat.strongRecOn with
  | _ n ih =>
    rw [natDigits]
    split
    · rename_i h
      obtain ⟨h1, h2, h3, h4⟩ := digit_facts n h
      refine ⟨by simp [ofDigits, h1], by simp [h2], by simp, ?_⟩
      intro c hc; simp at hc; subst hc; exact ⟨h3, h4⟩
    · rename_i h
      obtain ⟨i1, i2, i3, i4⟩ := ih (n / 10) (by omega)
      obtain ⟨h1, h2, _, _⟩ := digit_facts (n % 10) (by omega)
      refine ⟨?_, ?_, by simp, ?_⟩
      · rw [ofDigits_append, i1, h1]; omega
      · simp [List.all_append, i2, h2]
      · intro c hc
        cases hl : natDigits (n / 10) with
        | nil => exact absurd hl i3
        | cons a l => rw [hl] at hc i4; simp at hc; subst hc; exact i4 a (by simp)

theorem parseDigits_natDigits (n : Nat) : parseDigits (natDigits n) = some n := by
  obtain ⟨h1, h2, h3, _⟩ := natDigits_spec n
  simp [parseDigits, h1, h2, h3]

theorem setString_intText (x : Int) : setString (intText x) = some x := by
  unfold intText
  split
  · simp [setString, parseDigits_natDigits]; omega
  · obtain ⟨_, _, h3, h4⟩ := natDigits_spec x.natAbs
    cases hl : natDigits x.natAbs with
    | nil => exact absurd hl h3
    | cons a l =>
      have := h4 a (by simp [hl])
      have hp := parseDigits_natDigits x.natAbs
      rw [hl] at hp
      simp [setString, this.1, this.2, hp]; omega


/-- integer types: `value` of a lexed integer, in terms of `filterRange` -/
theorem value_int (t : NumTy) (ht : t.fixed = false) (neg : Bool) (ds : List Char) :
    value t ⟨neg, ds, []⟩ = filterRange t (some (if neg then -((ofDigits ds : Nat) : Int) else (ofDigits ds : Nat))) := by
  have hs : t.scale = 0 := by cases t <;> simp [NumTy.fixed, NumTy.kind] at ht <;> rfl
  have h0 : ofDigits [] = 0 := rfl
  simp [value, hs, filterRange, h0]

theorem lexUnsigned_int (neg : Bool) (s : List Char) :
    lexUnsigned false neg s = (parseDigits s).map (fun _ => ⟨neg, s, []⟩) := by
  simp only [lexUnsigned, parseDigits, allDigits]
  cases s <;> simp

/-- digits-only parse, then range = the unsigned integer grammar, then value -/
theorem unsigned_bind (t : NumTy) (ht : t.fixed = false) (neg : Bool) (s : List Char) :
    (lexUnsigned false neg s).bind (value t) =
      filterRange t ((parseDigits s).map (fun n => if neg then -(n : Int) else (n : Int))) := by
  rw [lexUnsigned_int]
  by_cases h : s ≠ [] ∧ s.all isDigit = true
  · have hp : parseDigits s = some (ofDigits s) := if_pos h
    rw [hp]; cases neg <;> simp [value_int t ht, filterRange]
  · have hp : parseDigits s = none := if_neg h
    rw [hp]; simp [filterRange]

theorem signChar_not_digit : isDigit '+' = false ∧ isDigit '-' = false := by decide

theorem parseDigits_sign (c : Char) (rest : List Char) (h : c = '+' ∨ c = '-') : parseDigits (c :: rest) = none := by
  rcases h with rfl | rfl <;> simp [parseDigits, signChar_not_digit.1, signChar_not_digit.2]

/-- the signed integer grammar -/
theorem signed_eq (t : NumTy) (ht : t.fixed = false) (s : List Char) :
    filterRange t (setString s) = (lexNumber true false s).bind (value t) := by
  cases s with
  | nil => simp [setString, lexNumber, filterRange]
  | cons c rest =>
    simp only [setString, lexNumber, if_true]
    split_ifs <;> simp [unsigned_bind t ht]

/-- the unsigned integer grammar -/
theorem unsigned_eq (t : NumTy) (ht : t.fixed = false) (s : List Char) :
    filterRange t ((parseDigits s).map (fun n => (n : Int))) = (lexNumber false false s).bind (value t) := by
  cases s with
  | nil => simp [parseDigits, lexNumber, filterRange]
  | cons c rest =>
    by_cases hp : c = '+'
    · simp [lexNumber, hp, parseDigits_sign '+' rest (.inl rfl), filterRange]
    · by_cases hm : c = '-'
      · simp [lexNumber, hm, parseDigits_sign '-' rest (.inr rfl), filterRange]
      · simp [lexNumber, hp, hm, unsigned_bind t ht]

theorem unsigned_big_eq (t : NumTy) (s : List Char) :
    (if hasSignPrefix s then none else filterRange t (setString s)) =
      filterRange t ((parseDigits s).map (fun n => (n : Int))) := by
  cases s with
  | nil => simp [hasSignPrefix, setString, parseDigits, filterRange]
  | cons c rest =>
    by_cases hp : c = '+'
    · simp [hasSignPrefix, hp, parseDigits_sign '+' rest (.inl rfl), filterRange]
    · by_cases hm : c = '-'
      · simp [hasSignPrefix, hm, parseDigits_sign '-' rest (.inr rfl), filterRange]
      · simp [hasSignPrefix, hp, hm, setString]

theorem fromString_int_eq (t : NumTy) (ht : t.fixed = false) (s : List Char) :
    fromString t s = specFromString t s := by
  unfold specFromString fromString
  rw [ht]
  cases hk : t.kind <;> simp [NumTy.fixed, hk] at ht
  · have hsg : t.signed = true := by simp [NumTy.signed, hk]
    rw [hsg]; exact signed_eq t (by simp [NumTy.fixed, hk]) s
  · have hsg : t.signed = false := by simp [NumTy.signed, hk]
    rw [hsg]; simp only []; rw [unsigned_big_eq, ite_self]
    exact unsigned_eq t (by simp [NumTy.fixed, hk]) s
  · have hsg : t.signed = false := by simp [NumTy.signed, hk]
    rw [hsg]; simp only []; rw [unsigned_big_eq, ite_self]
    exact unsigned_eq t (by simp [NumTy.fixed, hk]) s


theorem unsigned_nonneg (t : NumTy) (hs : t.signed = false) (x : Int) (h : t.inRange x) : 0 ≤ x := by
  have : t.minRaw = some 0 := by simp [NumTy.minRaw, hs]
  simp [NumTy.inRange, NumTy.belowMin, this] at h; omega

theorem string_roundtrip_int (t : NumTy) (ht : t.fixed = false) (x : Int) (h : t.inRange x) :
    fromString t (Model.Text.toString t x) = some x := by
  unfold fromString Model.Text.toString
  rw [ht]
  cases hk : t.kind <;> simp [NumTy.fixed, hk] at ht
  · simp [setString_intText, filterRange, h]
  all_goals
    have hsg : t.signed = false := by simp [NumTy.signed, hk]
    have h0 := unsigned_nonneg t hsg x h
    simp only [Bool.false_eq_true, if_false]; rw [unsigned_big_eq, ite_self]
    have e : intText x = natDigits x.natAbs := by simp [intText]; omega
    rw [e, parseDigits_natDigits]
    have e2 : ((x.natAbs : Nat) : Int) = x := Int.natAbs_of_nonneg h0
    simp [filterRange, e2, h]

theorem bytes_nil_iff' (t : NumTy) (b : List UInt8) :
    fromBigEndianBytes t b = none ↔ (t.byteSize ≠ 0 ∧ b.length > t.byteSize) := by
  unfold fromBigEndianBytes
  split_ifs <;> simp_all

theorem ofBeBytes_append (l : List UInt8) (b : UInt8) : ofBeBytes (l ++ [b]) = ofBeBytes l * 256 + b.toNat := by
  simp [ofBeBytes, List.foldl_append]

theorem ofBeBytes_beBytes (k n : Nat) : ofBeBytes (beBytes k n) = n % 256 ^ k ∧ (beBytes k n).length = k := by
  induction k generalizing n with
  | zero => simp [beBytes, ofBeBytes, Nat.mod_one]
  | succ k ih =>
    obtain ⟨i1, i2⟩ := ih (n / 256)
    refine ⟨?_, by simp [beBytes, i2]⟩
    rw [beBytes, ofBeBytes_append, i1]
    have : (UInt8.ofNat (n % 256)).toNat = n % 256 := by simp [UInt8.toNat_ofNat']
    rw [this, Nat.pow_succ, Nat.mul_comm (256 ^ k) 256, Nat.mod_mul]
    omega


theorem bytes_roundtrip_padded (t : NumTy) (hb : t.bits ≠ 0) (hp : t.bits ≤ 64 ∨ t.fixed = true) (x : Int)
    (h : t.inRange x) : fromBigEndianBytes t (toBigEndianBytes t x) = some x := by
  unfold fromBigEndianBytes toBigEndianBytes
  obtain ⟨e1, e2⟩ := ofBeBytes_beBytes t.byteSize (x % (2 : Int) ^ t.bits).toNat
  rw [if_pos hb, e1, e2]
  cases t <;> simp [NumTy.bits, NumTy.fixed, NumTy.kind] at hb hp <;>
    simp [NumTy.inRange, NumTy.belowMin, NumTy.aboveMax, NumTy.minRaw, NumTy.maxRaw, NumTy.signed, NumTy.kind, NumTy.bits] at h <;>
    simp [NumTy.byteSize, NumTy.bits, NumTy.fixed, NumTy.signed, NumTy.kind, wrapS] <;> omega

end Verif.Proofs.Text
