import Verif.Proofs.LexerTotal
/-!
C37 — coverage: when the lexer stops in `rootState` at the end of the input without a panic and without
an error token, the consuming tokens reach the last byte.
-/
namespace Verif.Proofs.LexerCover
open Verif.Model.Front Verif.Model.Front.Lexer Verif.Proofs.Lexer Verif.Proofs.LexerTotal Verif.Spec.Tokens

/-- everything read so far has been emitted -/
def S (l : L) : Prop := l.err = none → l.startOffset = l.endOffset

theorem S_fail (l : L) (e : LexErr) : S (l.fail e) := by
  intro h
  unfold L.fail at h
  split at h
  · rename_i hs; rw [h] at hs; simp at hs
  · simp at h

theorem S_emit_consume (ty : Nat) (nl : Bool) (rs : Int × Pos) (l : L) : S (emit ty nl rs true l) := by
  unfold emit
  split
  · rename_i hs; intro h; rw [h] at hs; simp at hs
  · split
    · exact S_fail _ _
    · split
      · exact S_fail _ _
      · simp only [if_true]
        split
        · exact S_fail _ _
        · intro _; rfl

theorem S_emitType (ty : Nat) (l : L) : S (emitType ty l) := S_emit_consume _ _ _ _

/-- the step returns to `rootState` only with everything emitted -/
def RS (r : Option St × L) : Prop := r.1 = some .root → S r.2

theorem RS_root_emitType (ty : Nat) (l : L) : RS (some .root, emitType ty l) := fun _ => S_emitType ty l
theorem RS_none (l : L) : RS (none, l) := fun h => by simp at h
theorem RS_other (st : St) (hst : st ≠ .root) (l : L) : RS (some st, l) := fun h => by
  simp at h; exact absurd h hst

/-- `emitError` either panics or appends an error token -/
theorem emitError_tok (x : L) (h : (emitError x).err = none) : ∃ t ∈ (emitError x).toks, isError t = true := by
  have hf : ∀ (y : L) (e : LexErr), (y.fail e).err ≠ none := by
    intro y e; unfold L.fail; split
    · rename_i hs; intro h'; rw [h'] at hs; simp at hs
    · simp
  unfold emitError at h ⊢
  split at h
  · exact absurd h (hf _ _)
  · rename_i ep hep
    unfold emit at h ⊢
    split at h
    · rename_i hs; rw [h] at hs; simp at hs
    · rename_i hs
      simp only [hs, if_false] at h ⊢
      split at h
      · exact absurd h (hf _ _)
      · rename_i hl
        simp only [hl, if_false] at h ⊢
        rw [hep] at h ⊢
        simp only [Bool.false_eq_true, if_false] at h ⊢
        exact ⟨_, List.mem_cons_self, rfl⟩

/-- `next` returns `EOF` only at the end of the input -/
theorem next_eof (l : L) (h : (next l).2 = EOF) : l.input.size ≤ l.endOffset := by
  unfold next at h
  simp only [] at h
  split at h
  · exfalso
    have h0 : (0 : Int) ≤ Int.ofNat (decodeRune l.input l.endOffset).1 := Int.natCast_nonneg _
    have h' : Int.ofNat (decodeRune l.input l.endOffset).1 = -1 := h
    omega
  · omega

theorem next_frame (l : L) : (next l).1.toks = l.toks ∧ (next l).1.err = l.err ∧ (next l).1.startOffset = l.startOffset :=
  ⟨rfl, rfl, rfl⟩

theorem ite_ne {α : Type} {p : Prop} [Decidable p] {a b c : α} (ha : a ≠ c) (hb : b ≠ c) :
    (if p then a else b) ≠ c := by split <;> assumption

theorem classify_eof_iff (r : Rune) (h : classify r = .eof) : r = EOF := by
  by_cases h0 : r = EOF
  · exact h0
  · exfalso
    revert h
    unfold classify
    rw [if_neg h0]
    repeat (refine ite_ne (fun h => by cases h) ?_)
    exact fun h => by cases h

attribute [local irreducible] emit emitType emitError next backupOne acceptWhile scanString acceptOne
  scanFixedPointRemainder scanDecimalOrFixedPointRemainder L.fail

theorem S_numberStep (l : L) : S (numberStep l) := by
  simp only [numberStep]
  repeat' split
  all_goals exact S_emitType _ _

theorem S_identifierStep (l : L) : S (identifierStep l) := by
  simp only [identifierStep]
  repeat' split
  all_goals first | exact S_emitType _ _ | exact S_fail _ _

theorem RS_blockCommentStep (k : Nat) (l : L) : RS (blockCommentStep k l) := by
  simp only [blockCommentStep]
  repeat' split
  all_goals first
    | exact RS_none _
    | exact RS_root_emitType _ _
    | exact RS_other _ (by simp) _

theorem RS_lexError (l : L) : RS (lexError l) := RS_none _
attribute [local irreducible] lexError

theorem RS_rootStep (l : L) : RS (rootStep l) := by
  simp only [rootStep]
  repeat' split
  all_goals first
    | exact RS_none _
    | exact RS_lexError _
    | exact RS_root_emitType _ _
    | exact RS_other _ (by simp) _
    | (intro _; exact S_emitType _ _)

theorem RS_step (st : St) (l : L) : RS (step st l) := by
  cases st with
  | root => exact RS_rootStep l
  | number => exact fun _ => S_numberStep l
  | space nl => exact fun _ => S_emit_consume _ _ _ _
  | identifier => exact fun _ => S_identifierStep l
  | string => exact fun _ => S_emitType _ _
  | lineComment => exact fun _ => S_emitType _ _
  | blockComment k => exact RS_blockCommentStep k l

/-- `rootState` returns nil either at the end of the input or after reporting an error -/
def StopShape (l : L) (r : Option St × L) : Prop :=
  r.1 = none → ((next l).2 = EOF ∧ r.2 = (next l).1) ∨ (∃ x, r.2 = emitError x)

theorem stop_some (l : L) (st : St) (l' : L) : StopShape l (some st, l') := fun h => by simp at h

theorem lexError_eq (x : L) : lexError x = (none, emitError x) := by
  unfold lexError; rfl

theorem rootStep_stop (l : L) : StopShape l (rootStep l) := by
  simp only [rootStep, lexError_eq]
  split
  · rename_i heq
    exact fun _ => Or.inl ⟨classify_eof_iff _ heq, rfl⟩
  all_goals (repeat' split)
  all_goals first
    | exact stop_some _ _ _
    | exact fun _ => Or.inr ⟨_, rfl⟩

/-- coverage, generalised over the loop of `run` -/
theorem run_cover : ∀ (fuel : Nat) (st : St) (l lf : L), Inv st l → CInv l → (st = .root → S l) →
    run fuel st l = (.done .root, lf) → lf.err = none → (∀ t ∈ lf.toks, isError t = false) →
    lastEnd lf.toks + 1 = (l.input.size : Int) := by
  intro fuel
  induction fuel with
  | zero => intro st l lf _ _ _ hr; simp [run] at hr
  | succ fuel ih =>
    intro st l lf hi hc hs hr herr hnoerr
    obtain ⟨_, hnext⟩ := step_post st l hi
    simp only [run] at hr
    split at hr
    · simp at hr
    · cases hst : (step st l).1 with
      | none =>
        simp only [hst] at hr
        have h1 : st = .root := by
          have := congrArg Prod.fst hr; simpa using this
        have h2 : (step st l).2 = lf := congrArg Prod.snd hr
        subst h1
        have hshape := rootStep_stop l hst
        rcases hshape with ⟨heof, heq⟩ | ⟨x, hx⟩
        · have hlf : lf = (next l).1 := by rw [← h2]; exact heq
          have hfr := next_frame l
          have herr' : l.err = none := by rw [← hfr.2.1, ← hlf]; exact herr
          have hS := hs rfl herr'
          have hge := next_eof l heof
          have hle := hi.1.hi
          have hC := hc.2 herr'
          rw [hlf, hfr.1, hC, hS]
          have : l.endOffset = l.input.size := by omega
          rw [this]
        · exfalso
          have hlf : lf = emitError x := by rw [← h2]; exact hx
          rw [hlf] at herr hnoerr
          obtain ⟨t, ht, hte⟩ := emitError_tok x herr
          rw [hnoerr t ht] at hte
          exact absurd hte (by decide)
      | some st' =>
        simp only [hst] at hr
        obtain ⟨hi', _, hsz⟩ := hnext st' hst
        have := ih st' (step st l).2 lf hi' (cinv_step' st l hc)
          (fun h => by subst h; exact RS_step st l hst) hr herr hnoerr
        rw [this, hsz]

theorem S_init (inp : Bytes) (limit : Nat) : S (L.init inp limit) := fun _ => rfl

/-- the consuming tokens reach the last byte of the input -/
theorem lexWith_cover (limit : Nat) (inp : Bytes) (hstop : (lexWith limit inp).stop = .done .root)
    (herr : (lexWith limit inp).final.err = none)
    (hno : ∀ t ∈ (lexWith limit inp).tokens, isError t = false) :
    lastEnd (lexWith limit inp).final.toks = (inp.size : Int) - 1 := by
  have hrun : run (fuelFor inp) .root (L.init inp limit) = (.done .root, (lexWith limit inp).final) := by
    have : (lexWith limit inp).stop = (run (fuelFor inp) .root (L.init inp limit)).1 := rfl
    rw [this] at hstop
    exact Prod.ext hstop rfl
  have := run_cover (fuelFor inp) .root (L.init inp limit) _ (inv_init inp limit) (cinv_init inp limit)
    (fun _ => S_init inp limit) hrun herr (fun t ht => hno t (by simpa [Result.tokens] using ht))
  have hsz : (L.init inp limit).input.size = inp.size := rfl
  rw [hsz] at this
  omega

end Verif.Proofs.LexerCover
