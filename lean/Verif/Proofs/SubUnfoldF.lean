/-
C08 helper lemmas, part 2c: unfolding of the rule for function super types.
-/
import Verif.Proofs.SubBase
namespace Verif.Proofs.SubUnfold
open Verif.Model.Types Verif.Model.Types.Struct Verif.Model.Auth

theorem find_fn (v : Bool) (p r : Ty) : R.find? (fun r' => if r'.complex then (Ty.fn v p r).isKind r'.super else (Ty.fn v p r) == .prim r'.super) = some RulesPinned.rule24 := rfl

/-- the predicate of the function rule's `forAll` over parameters: `target <: source` (contravariance) -/
def paramPred : Pred :=
  .subtype (.member (.member (.ident "target") "TypeAnnotation") "Type") (.member (.member (.ident "source") "TypeAnnotation") "Type")

theorem field_ta (t : Ty) : field (.ty t) "TypeAnnotation" = .param t := by cases t <;> rfl

theorem forAll_nil (k : Nat) (env : Env) (p : Pred) : forAllPairs R (k + 1) env p [] [] = true := by
  simp [forAllPairs]

theorem fld_fn1 (v p r) : field (.ty (.fn v p r)) "Purity" = .purity v := rfl
theorem fld_fn2 (v p r) : field (.ty (.fn v p r)) "TypeParameters" = .tys [] := rfl
theorem fld_fn3 (v p r) : field (.ty (.fn v p r)) "Parameters" = .tys p.toList := rfl
theorem fld_fn4 (v p r) : field (.ty (.fn v p r)) "Arity" = .nil := rfl
theorem fld_fn5 (v p r) : field (.ty (.fn v p r)) "IsConstructor" = .bool false := rfl

theorem isSubC_fn_fn (m : Nat) (v : Bool) (p r : Ty) (v' : Bool) (p' r' : Ty) :
    isSub R (m + 12) (.fn v p r) (.fn v' p' r') = (Ty.fn v p r == .fn v' p' r' ||
      ((v == v' || v) &&
          (forAllPairs R (m + 5) { sub := .ty (.fn v p r), super := .ty (.fn v' p' r') } paramPred p.toList p'.toList &&
           isSub R (m + 3) r r'))) := by
  rw [isSub_rule (m + 10) _ _ _ (find_fn v' p' r')]
  simp only [RulesPinned.rule24, evalPred, evalExpr, fld_fn1, fld_fn2, fld_fn3, fld_fn4, fld_fn5, Ty.isKind]
  simp [valEqOneOf, valEq, forAll_nil, paramPred, never, ty_beq]

/-- a sub type that is not a function type is below a function type only if it is `Never` -/
theorem isSubC_fn_other (m : Nat) (a : Ty) (h : ∀ v p r, a ≠ .fn v p r) (v' : Bool) (p' r' : Ty) :
    isSub R (m + 12) a (.fn v' p' r') = (a == never) := by
  rw [isSub_rule (m + 10) _ _ _ (find_fn v' p' r')]
  cases a <;> first | exact absurd rfl (h _ _ _) | simp [RulesPinned.rule24, evalPred, evalExpr, Ty.isKind, ty_beq]


end Verif.Proofs.SubUnfold
