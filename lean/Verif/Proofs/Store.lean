/-
Helper lemmas for C22 (M-STORE): the association list behaves as a finite map; well-formedness
(no key bound twice) is an invariant of every step; exec / runTx / runHist compose.  Core Lean only.
-/
import Verif.Model.Store
namespace Verif.Proofs.Store
open Verif.Model.Store

/-! ### the subtype table -/

theorem baseSub_refl (a : Base) : baseSub a a = true := by cases a <;> rfl

theorem baseSub_trans (a b c : Base) (h1 : baseSub a b = true) (h2 : baseSub b c = true) : baseSub a c = true := by
  cases a <;> cases b <;> first | (exact absurd h1 (by decide)) | (cases c <;> first | rfl | exact absurd h2 (by decide))

theorem baseSub_antisymm (a b : Base) (h1 : baseSub a b = true) (h2 : baseSub b a = true) : a = b := by
  cases a <;> cases b <;> first | rfl | exact absurd h1 (by decide) | exact absurd h2 (by decide)

/-- only a top type is above a top type -/
theorem baseSub_top_left (a b : Base) (h : baseSub a b = true) (ha : a.isTop = true) : b.isTop = true := by
  cases a <;> cases b <;> first | rfl | exact absurd h (by decide) | exact absurd ha (by decide)

theorem baseSub_same_kind (a b : Base) (h : baseSub a b = true) (hn : a ≠ .never) : a.isRes = b.isRes := by
  cases a <;> cases b <;> first | rfl | exact absurd h (by decide) | exact absurd rfl hn

theorem subtype_iff (a b : Ty) :
    subtype a b = true ↔ baseSub a.base b.base = true ∧ (b.base.isTop = true ∨ a.opt ≤ b.opt) := by
  simp [subtype]

/-! ### the association list -/

theorem getAt_cons (e : Key × Val) (s : Store) (k : Key) :
    getAt (e :: s) k = if k = e.1 then some e.2 else getAt s k := by
  obtain ⟨k0, v0⟩ := e
  by_cases h : k = k0
  · simp [getAt, List.lookup_cons, h]
  · have h' : (k == k0) = false := by simpa using h
    simp [getAt, List.lookup_cons, h, h']

theorem delAt_cons (e : Key × Val) (s : Store) (k : Key) :
    delAt (e :: s) k = if e.1 = k then delAt s k else e :: delAt s k := by
  by_cases h : e.1 = k <;> simp [delAt, List.filter_cons, h]

theorem getAt_put_same (s : Store) (k : Key) (v : Val) : getAt (putAt s k v) k = some v := by
  simp [putAt, getAt_cons]

theorem getAt_put_other (s : Store) (k k' : Key) (v : Val) (h : k' ≠ k) : getAt (putAt s k v) k' = getAt s k' := by
  simp [putAt, getAt_cons, h]

theorem getAt_del_same (s : Store) (k : Key) : getAt (delAt s k) k = none := by
  induction s with
  | nil => rfl
  | cons e s ih =>
    rw [delAt_cons]
    split
    · exact ih
    · rename_i h
      rw [getAt_cons, if_neg (fun x => h x.symm)]; exact ih

theorem getAt_del_other (s : Store) (k k' : Key) (h : k' ≠ k) : getAt (delAt s k) k' = getAt s k' := by
  induction s with
  | nil => rfl
  | cons e s ih =>
    rw [delAt_cons]
    split
    · rename_i he
      rw [getAt_cons, if_neg (he ▸ h)]; exact ih
    · rw [getAt_cons, getAt_cons, ih]

def keys (s : Store) : List Key := s.map (·.1)

theorem mem_keys_iff (s : Store) (k : Key) : k ∈ keys s ↔ (getAt s k).isSome = true := by
  induction s with
  | nil => simp [keys, getAt]
  | cons e s ih =>
    rw [getAt_cons]
    by_cases h : k = e.1
    · simp [keys, h]
    · simp only [keys, List.map_cons, List.mem_cons, h, false_or, if_false]
      exact ih

def WF (s : Store) : Prop := (keys s).Nodup

theorem wf_cons (e : Key × Val) (s : Store) : WF (e :: s) ↔ e.1 ∉ keys s ∧ WF s := by
  simp [WF, keys]

theorem wf_nil : WF [] := by simp [WF, keys]

theorem wf_put (s : Store) (k : Key) (v : Val) (hw : WF s) (hfree : getAt s k = none) : WF (putAt s k v) := by
  have : k ∉ keys s := by
    intro hm
    have := (mem_keys_iff s k).1 hm
    simp [hfree] at this
  exact (wf_cons (k, v) s).2 ⟨this, hw⟩

theorem wf_del (s : Store) (k : Key) (hw : WF s) : WF (delAt s k) := by
  unfold WF keys delAt
  exact hw.sublist ((List.filter_sublist).map _)

theorem mem_paths_iff (s : Store) (a p : Nat) : p ∈ paths s a ↔ (getAt s (a, p)).isSome = true := by
  rw [← mem_keys_iff]
  simp only [paths, keys, List.mem_map, List.mem_filter]
  constructor
  · rintro ⟨e, ⟨hm, ha⟩, rfl⟩
    refine ⟨e, hm, ?_⟩
    have : e.1.1 = a := by simpa using ha
    rw [← this]
  · rintro ⟨e, hm, he⟩
    refine ⟨e, ⟨hm, ?_⟩, ?_⟩ <;> simp [he]

theorem paths_cons (e : Key × Val) (s : Store) (a : Nat) :
    paths (e :: s) a = if e.1.1 = a then e.1.2 :: paths s a else paths s a := by
  by_cases h : e.1.1 = a <;> simp [paths, List.filter_cons, h]

theorem paths_nodup (s : Store) (a : Nat) (hw : WF s) : (paths s a).Nodup := by
  induction s with
  | nil => simp [paths]
  | cons e s ih =>
    obtain ⟨hnot, hw'⟩ := (wf_cons e s).1 hw
    rw [paths_cons]
    split
    · rename_i ha
      have hp : e.1.2 ∉ paths s a := by
        intro hm
        have hk := (mem_keys_iff s (a, e.1.2)).2 ((mem_paths_iff s a e.1.2).1 hm)
        apply hnot
        rw [← ha] at hk
        exact hk
      exact List.nodup_cons.2 ⟨hp, ih hw'⟩
    · exact ih hw'

theorem getAt_of_mem (s : Store) (hw : WF s) (k : Key) (v : Val) (hm : (k, v) ∈ s) : getAt s k = some v := by
  induction s with
  | nil => cases hm
  | cons e s ih =>
    obtain ⟨hnot, hw'⟩ := (wf_cons e s).1 hw
    rw [getAt_cons]
    rcases List.mem_cons.1 hm with h | h
    · subst h; simp
    · have hne : k ≠ e.1 := by
        intro hk
        apply hnot
        rw [← hk]
        exact List.mem_map.2 ⟨(k, v), h, rfl⟩
      rw [if_neg hne]; exact ih hw' h

theorem mem_of_getAt (s : Store) (k : Key) (v : Val) (hg : getAt s k = some v) : (k, v) ∈ s := by
  induction s with
  | nil => simp [getAt] at hg
  | cons e s ih =>
    rw [getAt_cons] at hg
    split at hg
    · rename_i h
      have : e.2 = v := by simpa using hg
      exact List.mem_cons.2 (.inl (by rw [h, ← this]))
    · exact List.mem_cons.2 (.inr (ih hg))

theorem mem_entries_iff (s : Store) (hw : WF s) (a p : Nat) (t : Ty) :
    (p, t) ∈ entries s a ↔ ∃ v, getAt s (a, p) = some v ∧ v.ty = t := by
  simp only [entries, List.mem_map, List.mem_filter]
  constructor
  · rintro ⟨e, ⟨hm, ha⟩, he⟩
    have ha' : e.1.1 = a := by simpa using ha
    have hp : e.1.2 = p := by simpa using congrArg Prod.fst he
    have ht : e.2.ty = t := by simpa using congrArg Prod.snd he
    refine ⟨e.2, ?_, ht⟩
    have : ((a, p), e.2) ∈ s := by rw [← ha', ← hp]; exact hm
    exact getAt_of_mem s hw _ _ this
  · rintro ⟨v, hg, ht⟩
    exact ⟨((a, p), v), ⟨mem_of_getAt s _ _ hg, by simp⟩, by simp [ht]⟩

/-- `entries` lists exactly the paths of `paths`, in the same order -/
theorem entries_paths (s : Store) (a : Nat) : (entries s a).map (·.1) = paths s a := by
  simp [entries, paths, List.map_map, Function.comp_def]
/-! ### steps -/

/-- a successful step keeps the store well-formed -/
theorem step_wf (s s' : Store) (op : Op) (o : Obs) (hw : WF s) (h : step s op = .ok (s', o)) : WF s' := by
  cases op with
  | save a p v =>
    simp only [step] at h
    split at h
    · cases h
    · rename_i hfree
      cases h
      exact wf_put s _ _ hw hfree
  | load a p t =>
    simp only [step] at h
    split at h
    · cases h; exact hw
    · split at h
      · cases h; exact wf_del s _ hw
      · cases h
  | copy a p t =>
    simp only [step] at h
    split at h
    · cases h; exact hw
    · split at h
      · cases h; exact hw
      · cases h
  | borrow a p t =>
    simp only [step] at h
    split at h
    · cases h; exact hw
    · split at h
      · cases h; exact hw
      · cases h
  | check a p t =>
    simp only [step] at h
    split at h <;> (cases h; exact hw)
  | type a p => simp only [step] at h; cases h; exact hw
  | paths a => simp only [step] at h; cases h; exact hw
  | forEach a => simp only [step] at h; cases h; exact hw
  | panic => simp only [step] at h; cases h

theorem exec_wf (s s' : Store) (ops : List Op) (logs : List Obs) (hw : WF s)
    (h : exec s ops = (.ok s', logs)) : WF s' := by
  induction ops generalizing s logs with
  | nil => simp [exec] at h; exact h.1 ▸ hw
  | cons op rest ih =>
    simp only [exec] at h
    split at h
    · simp at h
    · rename_i s1 o hs
      have h1 : (exec s1 rest).1 = .ok s' := by simpa using congrArg Prod.fst h
      exact ih s1 (exec s1 rest).2 (step_wf s s1 op o hw hs) (Prod.ext h1 rfl)

theorem runTx_wf (s : Store) (tx : List Op) (hw : WF s) : WF (runTx s tx).1 := by
  unfold runTx
  split
  · rename_i s' logs h; exact exec_wf s s' tx logs hw h
  · exact hw

theorem runHist_wf (s : Store) (h : List (List Op)) (hw : WF s) : WF (runHist s h).1 := by
  induction h generalizing s with
  | nil => exact hw
  | cons tx rest ih => exact ih _ (runTx_wf s tx hw)

/-! ### composition -/

theorem exec_append_ok (s s1 : Store) (ops1 ops2 : List Op) (l1 : List Obs)
    (h : exec s ops1 = (.ok s1, l1)) :
    exec s (ops1 ++ ops2) = ((exec s1 ops2).1, l1 ++ (exec s1 ops2).2) := by
  induction ops1 generalizing s l1 with
  | nil => simp [exec] at h; obtain ⟨rfl, rfl⟩ := h; simp
  | cons op rest ih =>
    simp only [exec] at h
    split at h
    · simp at h
    · rename_i s2 o hs
      have h1 : (exec s2 rest).1 = .ok s1 := by simpa using congrArg Prod.fst h
      have h2 : o :: (exec s2 rest).2 = l1 := by simpa using congrArg Prod.snd h
      have := ih s2 (exec s2 rest).2 (Prod.ext h1 rfl)
      simp only [List.cons_append, exec, hs, this, ← h2]

theorem exec_append_err (s : Store) (ops1 ops2 : List Op) (e : Abort) (l1 : List Obs)
    (h : exec s ops1 = (.error e, l1)) : exec s (ops1 ++ ops2) = (.error e, l1) := by
  induction ops1 generalizing s l1 with
  | nil => simp [exec] at h
  | cons op rest ih =>
    simp only [exec] at h
    split at h
    · rename_i e' hs
      simp only [List.cons_append, exec, hs]; exact h
    · rename_i s2 o hs
      have h1 : (exec s2 rest).1 = .error e := by simpa using congrArg Prod.fst h
      have h2 : o :: (exec s2 rest).2 = l1 := by simpa using congrArg Prod.snd h
      have := ih s2 (exec s2 rest).2 (Prod.ext h1 rfl)
      simp only [List.cons_append, exec, hs, this, ← h2]

theorem runHist_append (s : Store) (h1 h2 : List (List Op)) :
    runHist s (h1 ++ h2) =
      ((runHist (runHist s h1).1 h2).1, (runHist s h1).2 ++ (runHist (runHist s h1).1 h2).2) := by
  induction h1 generalizing s with
  | nil => simp [runHist]
  | cons tx rest ih => simp [runHist, ih]

end Verif.Proofs.Store
