/-
C08 helper lemmas, part 4: on well-formed types the rule interpreter, at any fuel from the driver's bound
`fuelFor a b` upwards, is the structured relation `Struct.sub`.
-/
import Verif.Proofs.SubBase
namespace Verif.Proofs.SubUnfold
open Verif.Model.Types Verif.Model.Types.Struct Verif.Model.Auth

theorem sub_def (a b : Ty) : Struct.sub a b = (a == b || (a == never || chk a b)) := by
  rw [Struct.sub, Bool.or_assoc]

theorem chk_prim (a : Ty) (p : String) : chk a (.prim p) = chkPrim a p := by
  cases a <;> simp [chk]
theorem chk_opt (a s : Ty) : chk a (.opt s) = (match a with | .opt x => Struct.sub x s | _ => Struct.sub a s) := by
  cases a <;> simp [chk]
theorem chk_dict (a k v : Ty) : chk a (.dict k v) =
    (match a with | .dict k' v' => Struct.sub v' v && Struct.sub k' k | _ => false) := by
  cases a <;> simp [chk]
theorem chk_varArr (a e : Ty) : chk a (.varArr e) = (match a with | .varArr x => Struct.sub x e | _ => false) := by
  cases a <;> simp [chk]
theorem chk_constArr (a e : Ty) (n : Nat) : chk a (.constArr e n) =
    (match a with | .constArr x n' => n == n' && Struct.sub x e | _ => false) := by
  cases a <;> simp [chk]
theorem chk_ref (a t : Ty) (au : Access String) : chk a (.ref au t) =
    (match a with | .ref au' x => permits au au' && Struct.sub x t | _ => false) := by
  cases a <;> simp [chk]
theorem chk_comp (a : Ty) (n : String) (k : Kind) (cs : List String) (b : Bool) : chk a (.comp n k cs b) = false := by
  cases a <;> simp [chk]
theorem chk_iface (a : Ty) (i : Iface) : chk a (.iface i) =
    (match a with
      | .comp _ k cs _ => k == i.kind && cs.contains i.name
      | .inter is => (interSet is).contains i.name
      | .iface j => j.confs.contains i.name
      | _ => false) := by
  cases a <;> simp [chk]
theorem chk_inter (a : Ty) (sup : List Iface) : chk a (.inter sup) =
    (match a with
      | .inter sb => subset (interSet sup) (interSet sb)
      | .comp _ _ cs _ => subset (interSet sup) cs
      | .iface i => subset (interSet sup) i.confs
      | _ => false) := by
  cases a <;> simp [chk]
theorem chk_fn (a : Ty) (v' : Bool) (p' r' : Ty) : chk a (.fn v' p' r') =
    (match a with | .fn v p r => (v == v' || v) && subParams p' p && Struct.sub r r' | _ => false) := by
  cases a <;> simp [chk]
theorem chk_capAny (a : Ty) : chk a .capAny = (match a with | .cap _ => true | _ => false) := by
  cases a <;> simp [chk]
theorem chk_cap (a t' : Ty) : chk a (.cap t') = (match a with | .cap t => Struct.sub t t' | _ => false) := by
  cases a <;> simp [chk]
theorem chk_range (a t' : Ty) : chk a (.range t') = (match a with | .range t => Struct.sub t t' | _ => false) := by
  cases a <;> simp [chk]
theorem chk_nilT (a : Ty) : chk a .nilT = false := by cases a <;> simp [chk]
theorem chk_consT (a t r : Ty) : chk a (.consT t r) = false := by cases a <;> simp [chk]


theorem subParams_nil_nil : subParams .nilT .nilT = true := by simp [subParams]
theorem subParams_cons_cons (t r t' r' : Ty) :
    subParams (.consT t r) (.consT t' r') = (Struct.sub t t' && subParams r r') := by simp [subParams]
theorem subParams_nil_cons (t r : Ty) : subParams .nilT (.consT t r) = false := by simp [subParams]
theorem subParams_cons_nil (t r : Ty) : subParams (.consT t r) .nilT = false := by simp [subParams]

/-! ### simple sub type against simple super type -/

def specials : List String := ["Any", "AnyStruct", "AnyResource", "AnyResourceAttachment", "AnyStructAttachment", "HashableStruct"]

/-- column `p` of the table: structured clause = reachability relation -/
def colOK (p : String) : Bool :=
  primNames.all (fun x => ((x == p) || ((x == "Never") || chkPrim (.prim x) p)) == psub x p)

set_option maxRecDepth 100000 in
theorem col_Any : colOK "Any" = true := by decide
set_option maxRecDepth 100000 in
theorem col_AnyStruct : colOK "AnyStruct" = true := by decide
set_option maxRecDepth 100000 in
theorem col_AnyResource : colOK "AnyResource" = true := by decide
set_option maxRecDepth 100000 in
theorem col_AnyResourceAttachment : colOK "AnyResourceAttachment" = true := by decide
set_option maxRecDepth 100000 in
theorem col_AnyStructAttachment : colOK "AnyStructAttachment" = true := by decide
set_option maxRecDepth 100000 in
theorem col_HashableStruct : colOK "HashableStruct" = true := by decide

theorem prim_beq (x p : String) : (Ty.prim x == Ty.prim p) = (x == p) := by
  by_cases h : x = p <;> simp [h, ty_beq]

theorem sub_prim_prim (x p : String) (hx : x ∈ primNames) (_hp : p ∈ primNames) :
    Struct.sub (.prim x) (.prim p) = psub x p := by
  rw [sub_def, chk_prim, never, prim_beq, prim_beq]
  by_cases hs : p ∈ specials
  · have col : colOK p = true := by
      simp only [specials, List.mem_cons, List.not_mem_nil, or_false] at hs
      rcases hs with rfl | rfl | rfl | rfl | rfl | rfl
      · exact col_Any
      · exact col_AnyStruct
      · exact col_AnyResource
      · exact col_AnyResourceAttachment
      · exact col_AnyStructAttachment
      · exact col_HashableStruct
    simp only [colOK, List.all_eq_true] at col
    simpa using col x hx
  · simp only [specials, List.mem_cons, List.not_mem_nil, or_false, not_or] at hs
    obtain ⟨h1, h2, h3, h4, h5, h6⟩ := hs
    simp only [chkPrim, psub, beq_iff_eq, h1, h2, h3, h4, h5, h6, if_false]
    cases h1 : x == p <;> cases h2 : x == "Never" <;> cases h3 : reach 8 x p <;> simp_all

end Verif.Proofs.SubUnfold
