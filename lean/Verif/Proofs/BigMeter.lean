/-
Lemmas for C32 (big-integer memory metering): bounds on `len(x.Bits())` (`Go.wordLen`) of the result
of every arithmetic / bitwise operation in terms of the operands' word lengths.  Nothing here
mentions a generated definition.
-/
import Verif.Proofs.ArithBits
import Verif.Spec.BigMeter
namespace Verif.Proofs.BigMeter
open Verif.Model.Num Verif.Proofs.ArithBits Verif.Spec.BigMeter

/-- `len(x.Bits()) ≤ w` iff `|x| < 2^(64 w)` -/
theorem wordLen_le_iff (x : Int) (w : Nat) : Go.wordLen x ≤ (w : Int) ↔ x.natAbs < 2 ^ (64 * w) := by
  unfold Go.wordLen
  by_cases hx : x = 0
  · subst hx; simp [Nat.two_pow_pos]
  · have hn : x.natAbs ≠ 0 := by omega
    rw [if_neg hx, Nat.mul_one]
    have h := @Nat.log2_lt x.natAbs (64 * w) hn
    constructor
    · intro hle
      have : (x.natAbs.log2 + 64) / 64 ≤ w := by omega
      exact h.1 (by omega)
    · intro hlt
      have := h.2 hlt
      have : (x.natAbs.log2 + 64) / 64 ≤ w := by omega
      omega

theorem wordLen_nonneg (x : Int) : 0 ≤ Go.wordLen x := by unfold Go.wordLen; omega

/-- `|x| < 2^(64 · len(x.Bits()))` -/
theorem lt_pow_wordLen (x : Int) : x.natAbs < 2 ^ (64 * (Go.wordLen x).toNat) := by
  have := (wordLen_le_iff x (Go.wordLen x).toNat).1 (by have := wordLen_nonneg x; omega)
  exact this

theorem wordLen_le_of_natAbs_le (x y : Int) (h : x.natAbs ≤ y.natAbs) : Go.wordLen x ≤ Go.wordLen y := by
  have hy := lt_pow_wordLen y
  have := (wordLen_le_iff x (Go.wordLen y).toNat).2 (by omega)
  have := wordLen_nonneg y
  omega

theorem pow64_mono {a b : Nat} (h : a ≤ b) : 2 ^ (64 * a) ≤ 2 ^ (64 * b) :=
  Nat.pow_le_pow_right (by decide) (by omega)

theorem wordLen_add (a b : Int) : Go.wordLen (a + b) ≤ max (Go.wordLen a) (Go.wordLen b) + 1 := by
  have ha := lt_pow_wordLen a
  have hb := lt_pow_wordLen b
  have h0a := wordLen_nonneg a
  have h0b := wordLen_nonneg b
  let m := max (Go.wordLen a).toNat (Go.wordLen b).toNat
  have hm : ((m + 1 : Nat) : Int) = max (Go.wordLen a) (Go.wordLen b) + 1 := by
    simp only [m]; omega
  rw [← hm, wordLen_le_iff]
  have h1 := pow64_mono (Nat.le_max_left (Go.wordLen a).toNat (Go.wordLen b).toNat)
  have h2 := pow64_mono (Nat.le_max_right (Go.wordLen a).toNat (Go.wordLen b).toNat)
  have h3 : 2 ^ (64 * (m + 1)) = 2 ^ 64 * 2 ^ (64 * m) := by rw [Nat.mul_add, Nat.pow_add]; simp [Nat.mul_comm]
  have h4 : (a + b).natAbs ≤ a.natAbs + b.natAbs := Int.natAbs_add_le a b
  have h5 : 0 < 2 ^ (64 * m) := Nat.two_pow_pos _
  rw [h3]
  simp only [m] at *
  have : 2 * 2 ^ (64 * max (Go.wordLen a).toNat (Go.wordLen b).toNat) ≤ 2 ^ 64 * 2 ^ (64 * max (Go.wordLen a).toNat (Go.wordLen b).toNat) :=
    Nat.mul_le_mul_right _ (by decide)
  omega

theorem wordLen_neg (a : Int) : Go.wordLen (-a) = Go.wordLen a := by
  unfold Go.wordLen; simp [Int.natAbs_neg]

theorem wordLen_sub (a b : Int) : Go.wordLen (a - b) ≤ max (Go.wordLen a) (Go.wordLen b) + 1 := by
  have := wordLen_add a (-b); rw [wordLen_neg] at this; rwa [Int.sub_eq_add_neg]

theorem wordLen_mul (a b : Int) : Go.wordLen (a * b) ≤ Go.wordLen a + Go.wordLen b := by
  have ha := lt_pow_wordLen a
  have hb := lt_pow_wordLen b
  have h0a := wordLen_nonneg a
  have h0b := wordLen_nonneg b
  have hm : (((Go.wordLen a).toNat + (Go.wordLen b).toNat : Nat) : Int) = Go.wordLen a + Go.wordLen b := by omega
  rw [← hm, wordLen_le_iff, Int.natAbs_mul, Nat.mul_add, Nat.pow_add]
  exact Nat.mul_lt_mul'' ha hb

/-- `& | ^` of two numbers of at most `w` words has at most `w + 1` words (negative operands: the
    magnitude of `-(x|y) - 1` can carry into the next word) -/
theorem wordLen_bitop (a b : Int) :
    Go.wordLen (Go.land a b) ≤ max (Go.wordLen a) (Go.wordLen b) + 1 ∧
    Go.wordLen (Go.lor a b) ≤ max (Go.wordLen a) (Go.wordLen b) + 1 ∧
    Go.wordLen (Go.xor a b) ≤ max (Go.wordLen a) (Go.wordLen b) + 1 := by
  have ha := lt_pow_wordLen a
  have hb := lt_pow_wordLen b
  have h0a := wordLen_nonneg a
  have h0b := wordLen_nonneg b
  have h1 := pow64_mono (Nat.le_max_left (Go.wordLen a).toNat (Go.wordLen b).toNat)
  have h2 := pow64_mono (Nat.le_max_right (Go.wordLen a).toNat (Go.wordLen b).toNat)
  generalize hm : max (Go.wordLen a).toNat (Go.wordLen b).toNat = m at *
  have hmi : ((m + 1 : Nat) : Int) = max (Go.wordLen a) (Go.wordLen b) + 1 := by omega
  have hc : ((2 ^ (64 * m) : Nat) : Int) = (2 : Int) ^ (64 * m) := by simp
  have r := bitop_range (64 * m) a b (by omega) (by omega) (by omega) (by omega)
  have h3 : 2 ^ (64 * (m + 1)) = 2 ^ 64 * 2 ^ (64 * m) := by rw [Nat.mul_add, Nat.pow_add]; simp [Nat.mul_comm]
  have h5 : 0 < 2 ^ (64 * m) := Nat.two_pow_pos _
  have h6 : 2 * 2 ^ (64 * m) ≤ 2 ^ 64 * 2 ^ (64 * m) := Nat.mul_le_mul_right _ (by decide)
  rw [← hmi]
  refine ⟨(wordLen_le_iff _ _).2 ?_, (wordLen_le_iff _ _).2 ?_, (wordLen_le_iff _ _).2 ?_⟩ <;> rw [h3] <;> omega

/-- non-negative operands: no extra word -/
theorem wordLen_bitop_nonneg (a b : Int) (ha0 : 0 ≤ a) (hb0 : 0 ≤ b) :
    Go.wordLen (Go.land a b) ≤ max (Go.wordLen a) (Go.wordLen b) ∧
    Go.wordLen (Go.lor a b) ≤ max (Go.wordLen a) (Go.wordLen b) ∧
    Go.wordLen (Go.xor a b) ≤ max (Go.wordLen a) (Go.wordLen b) := by
  have ha := lt_pow_wordLen a
  have hb := lt_pow_wordLen b
  have h0a := wordLen_nonneg a
  have h0b := wordLen_nonneg b
  have h1 := pow64_mono (Nat.le_max_left (Go.wordLen a).toNat (Go.wordLen b).toNat)
  have h2 := pow64_mono (Nat.le_max_right (Go.wordLen a).toNat (Go.wordLen b).toNat)
  generalize hm : max (Go.wordLen a).toNat (Go.wordLen b).toNat = m at *
  have hmi : ((m : Nat) : Int) = max (Go.wordLen a) (Go.wordLen b) := by omega
  have hc : ((2 ^ (64 * m) : Nat) : Int) = (2 : Int) ^ (64 * m) := by simp
  have r := bitop_range (64 * m) a b (by omega) (by omega) (by omega) (by omega)
  have r1 := r.1.2.2 ha0 hb0
  have r2 := r.2.1.2.2 ha0 hb0
  have r3 := r.2.2.2.2 ha0 hb0
  rw [← hmi]
  refine ⟨(wordLen_le_iff _ _).2 ?_, (wordLen_le_iff _ _).2 ?_, (wordLen_le_iff _ _).2 ?_⟩ <;> omega

/-- `a * 2^k` has at most `|a| + k/64 + 1` words -/
theorem wordLen_shl (a : Int) (k : Nat) : Go.wordLen (a * (2 : Int) ^ k) ≤ Go.wordLen a + (k / 64 : Nat) + 1 := by
  have ha := lt_pow_wordLen a
  have h0a := wordLen_nonneg a
  have hmi : (((Go.wordLen a).toNat + k / 64 + 1 : Nat) : Int) = Go.wordLen a + (k / 64 : Nat) + 1 := by omega
  rw [← hmi, wordLen_le_iff, Int.natAbs_mul, Int.natAbs_pow]
  have e : 64 * ((Go.wordLen a).toNat + k / 64 + 1) = 64 * (Go.wordLen a).toNat + (64 * (k / 64) + 64) := by omega
  rw [e, Nat.pow_add]
  have : (2 : Int).natAbs ^ k ≤ 2 ^ (64 * (k / 64) + 64) := Nat.pow_le_pow_right (by decide) (by omega)
  exact Nat.mul_lt_mul_of_lt_of_le ha this (Nat.two_pow_pos _)

/-- `⌊a / 2^k⌋` has at most `|a|` words -/
theorem wordLen_shr (a : Int) (k : Nat) : Go.wordLen (a / (2 : Int) ^ k) ≤ Go.wordLen a := by
  apply wordLen_le_of_natAbs_le
  have hp : (0 : Int) < (2 : Int) ^ k := Int.pow_pos (by decide)
  have hp1 : (1 : Int) ≤ (2 : Int) ^ k := hp
  by_cases h : 0 ≤ a
  · have h1 := Int.ediv_nonneg h (Int.le_of_lt hp)
    have h2 : a / (2 : Int) ^ k ≤ a := Int.ediv_le_self _ h
    omega
  · have hlt : a / (2 : Int) ^ k < 0 := Int.ediv_neg_of_neg_of_pos (by omega) hp
    have hge : a ≤ a / (2 : Int) ^ k := by
      have e := Int.emod_add_mul_ediv a ((2 : Int) ^ k)
      have r1 := Int.emod_lt_of_pos a hp
      generalize a / (2 : Int) ^ k = q at *
      generalize a % (2 : Int) ^ k = r at *
      have h3 : ((2 : Int) ^ k - 1) * 1 ≤ ((2 : Int) ^ k - 1) * (-q) :=
        Int.mul_le_mul_of_nonneg_left (by omega) (by omega)
      rw [Int.sub_mul, Int.sub_mul, Int.mul_neg] at h3
      omega
    omega

/-- truncated quotient and remainder -/
theorem wordLen_tdiv (a b : Int) : Go.wordLen (Int.tdiv a b) ≤ Go.wordLen a := by
  apply wordLen_le_of_natAbs_le
  rw [Int.natAbs_tdiv]; exact Nat.div_le_self _ _

theorem wordLen_tmod (a b : Int) (hb : b ≠ 0) : Go.wordLen (Int.tmod a b) ≤ Go.wordLen b ∧ Go.wordLen (Int.tmod a b) ≤ Go.wordLen a := by
  constructor <;> apply wordLen_le_of_natAbs_le <;> rw [Int.natAbs_tmod]
  · exact Nat.le_of_lt (Nat.mod_lt _ (by omega))
  · exact Nat.mod_le _ _



theorem words_eq (x : Int) : (words x : Int) = Go.wordLen x := by
  unfold words Go.wordLen
  by_cases h : x = 0
  · simp [h]
  · simp only [h, if_false]; omega

theorem wordLen_eq_zero (x : Int) (h : Go.wordLen x = 0) : x = 0 := by
  have := (wordLen_le_iff x 0).1 (by omega)
  simp at this; exact this

/-- a non-zero number has at least `2^(64 (len - 1))` magnitude -/
theorem pow_le_natAbs (x : Int) (hx : x ≠ 0) : 2 ^ (64 * ((Go.wordLen x).toNat - 1)) ≤ x.natAbs := by
  have h0 := wordLen_nonneg x
  have hne : Go.wordLen x ≠ 0 := fun h => hx (wordLen_eq_zero x h)
  by_cases hlt : x.natAbs < 2 ^ (64 * ((Go.wordLen x).toNat - 1))
  · have := (wordLen_le_iff x ((Go.wordLen x).toNat - 1)).2 hlt
    omega
  · omega

theorem max_min_facts (x y : Int) : (max x y = x ∨ max x y = y) ∧ x ≤ max x y ∧ y ≤ max x y ∧
    (min x y = x ∨ min x y = y) ∧ min x y ≤ x ∧ min x y ≤ y := by
  simp only [Int.max_def, Int.min_def]; split <;> omega

/-- Go's `int` arithmetic does not wrap on values that fit -/
theorem wrapS64_id (x : Int) (h1 : -9223372036854775808 ≤ x) (h2 : x < 9223372036854775808) : wrapS 64 x = x := by
  simp only [wrapS, Int.reducePow, Nat.reduceSub]; omega

/-- `uint64(x)` of a non-negative `int` -/
theorem wrapU64_id (x : Int) (h1 : 0 ≤ x) (h2 : x < 18446744073709551616) : wrapU 64 x = x := by
  simp only [wrapU, Int.reducePow]; omega

theorem wrapU64_nonneg (x : Int) : 0 ≤ wrapU 64 x := by
  simp only [wrapU, Int.reducePow]; omega

/-- `uint64(x)` of a negative `int` is huge -/
theorem wrapU64_neg (x : Int) (h1 : -9223372036854775808 ≤ x) (h2 : x < 0) : wrapU 64 x = x + 18446744073709551616 := by
  simp only [wrapU, Int.reducePow]; omega

/-- remove the fixed-width reductions whose argument provably fits (side conditions by `omega`) -/
macro "meter_wraps" : tactic => `(tactic|
  (simp (disch := omega) only [wrapS64_id, wrapU64_id]))

/-- `⌊a / 2^k⌋` for `a ≥ 0` drops `k / 64` whole words -/
theorem wordLen_shr_nonneg (a : Int) (k : Nat) (ha : 0 ≤ a) :
    Go.wordLen (a / (2 : Int) ^ k) ≤ max 0 (Go.wordLen a - (k / 64 : Nat)) := by
  have hA := lt_pow_wordLen a
  have h0a := wordLen_nonneg a
  have hp : (0 : Int) < (2 : Int) ^ k := Int.pow_pos (by decide)
  have hq0 : 0 ≤ a / (2 : Int) ^ k := Int.ediv_nonneg ha (Int.le_of_lt hp)
  have hm := max_min_facts 0 (Go.wordLen a - (k / 64 : Nat))
  by_cases hk : k / 64 ≤ (Go.wordLen a).toNat
  · have hmi : (((Go.wordLen a).toNat - k / 64 : Nat) : Int) = max 0 (Go.wordLen a - (k / 64 : Nat)) := by omega
    rw [← hmi, wordLen_le_iff]
    -- a / 2^k ≤ a / 2^(64 (k/64)) < 2^(64 (wa - k/64))
    have e : 64 * (Go.wordLen a).toNat = 64 * ((Go.wordLen a).toNat - k / 64) + 64 * (k / 64) := by omega
    rw [e, Nat.pow_add] at hA
    have h1 : a.natAbs / 2 ^ (64 * (k / 64)) < 2 ^ (64 * ((Go.wordLen a).toNat - k / 64)) :=
      Nat.div_lt_of_lt_mul (by rw [Nat.mul_comm]; exact hA)
    have h2 : a.natAbs / 2 ^ k ≤ a.natAbs / 2 ^ (64 * (k / 64)) :=
      Nat.div_le_div_left (Nat.pow_le_pow_right (by decide) (by omega)) (Nat.two_pow_pos _)
    have h3 : (a / (2 : Int) ^ k).natAbs = a.natAbs / 2 ^ k := by
      have : (a / (2 : Int) ^ k) = ((a.natAbs / 2 ^ k : Nat) : Int) := by
        rw [Int.natCast_ediv]; simp only [Int.natCast_pow, Int.cast_ofNat_Int]
        have : (a.natAbs : Int) = a := by omega
        rw [this]
      rw [this, Int.natAbs_natCast]
    omega
  · -- everything is shifted out
    have hz : a / (2 : Int) ^ k = 0 := by
      apply Int.ediv_eq_zero_of_lt ha
      have h1 : 2 ^ (64 * (Go.wordLen a).toNat) ≤ 2 ^ k := Nat.pow_le_pow_right (by decide) (by omega)
      have hc : ((2 ^ k : Nat) : Int) = (2 : Int) ^ k := by simp
      omega
    rw [hz]; unfold Go.wordLen; simp; omega


/-- the truncated quotient has at most `|a| − |b| + 1` words -/
theorem wordLen_tdiv_sub (a b : Int) (hb : b ≠ 0) :
    Go.wordLen (Int.tdiv a b) ≤ max 0 (Go.wordLen a - Go.wordLen b + 1) := by
  have hA := lt_pow_wordLen a
  have hB := pow_le_natAbs b hb
  have h0a := wordLen_nonneg a
  have h0b := wordLen_nonneg b
  have hne : Go.wordLen b ≠ 0 := fun h => hb (wordLen_eq_zero b h)
  have hm := max_min_facts 0 (Go.wordLen a - Go.wordLen b + 1)
  by_cases hk : (Go.wordLen b).toNat - 1 ≤ (Go.wordLen a).toNat
  · have hmi : (((Go.wordLen a).toNat - ((Go.wordLen b).toNat - 1) : Nat) : Int) = max 0 (Go.wordLen a - Go.wordLen b + 1) := by omega
    rw [← hmi, wordLen_le_iff, Int.natAbs_tdiv]
    have e : 64 * (Go.wordLen a).toNat = 64 * ((Go.wordLen a).toNat - ((Go.wordLen b).toNat - 1)) + 64 * ((Go.wordLen b).toNat - 1) := by omega
    rw [e, Nat.pow_add] at hA
    have h1 : a.natAbs / 2 ^ (64 * ((Go.wordLen b).toNat - 1)) < 2 ^ (64 * ((Go.wordLen a).toNat - ((Go.wordLen b).toNat - 1))) :=
      Nat.div_lt_of_lt_mul (by rw [Nat.mul_comm]; exact hA)
    have h2 : a.natAbs / b.natAbs ≤ a.natAbs / 2 ^ (64 * ((Go.wordLen b).toNat - 1)) :=
      Nat.div_le_div_left hB (Nat.two_pow_pos _)
    exact Nat.lt_of_le_of_lt h2 h1
  · have hz : Int.tdiv a b = 0 := by
      have : (Int.tdiv a b).natAbs = 0 := by
        rw [Int.natAbs_tdiv]
        apply Nat.div_eq_of_lt
        have h1 : 2 ^ (64 * (Go.wordLen a).toNat) ≤ 2 ^ (64 * ((Go.wordLen b).toNat - 1)) := pow64_mono (by omega)
        omega
      omega
    rw [hz]; unfold Go.wordLen; simp; omega

end Verif.Proofs.BigMeter
