/-
Lemmas about Verif.Model.Range (C21).
-/
import Verif.Model.Range
import Verif.Spec.Range
namespace Verif.Proofs.Range
open Verif.Model.Range Verif.Spec.Range

theorem inRange_convex (t : Ty) (a b x : Int) (ha : t.inRange a = true) (hb : t.inRange b = true)
    (h1 : a ≤ x) (h2 : x ≤ b) : t.inRange x = true := by
  obtain ⟨kind, bits⟩ := t
  cases kind <;> cases bits <;>
    simp [Ty.inRange, Ty.minV, Ty.maxV] at ha hb ⊢ <;> omega

theorem plus_ok (t : Ty) (a b : Int) (h : t.inRange (a + b) = true) : plus t a b = .ok (a + b) := by
  obtain ⟨kind, bits⟩ := t
  cases kind <;> cases bits <;>
    simp [plus, Ty.inRange, Ty.minV, Ty.maxV] at h ⊢
  all_goals first
    | omega
    | (apply Int.emod_eq_of_lt <;> omega)
    | (rw [if_neg (by omega), if_neg (by omega)])
    | (rw [if_neg (by omega)])

/-- k steps fit: the k-th element lies between start and end -/
theorem elem_between (s e st : Int) (k : Nat) (hv : Valid s e st) (hk : k ≤ count s e st) :
    (s ≤ s + (k : Int) * st ∧ s + (k : Int) * st ≤ e) ∨ (e ≤ s + (k : Int) * st ∧ s + (k : Int) * st ≤ s) := by
  unfold count at hk
  have hm : 0 < st.natAbs := by rcases hv with h | h <;> omega
  have hmul : k * st.natAbs ≤ (e - s).natAbs := (Nat.le_div_iff_mul_le hm).mp hk
  have hcast : ((k * st.natAbs : Nat) : Int) = (k : Int) * (st.natAbs : Int) := Int.natCast_mul _ _
  rcases hv with ⟨h1, h2⟩ | ⟨h1, h2⟩
  · left
    have : (st.natAbs : Int) = st := by omega
    rw [this] at hcast
    omega
  · right
    have : (st.natAbs : Int) = -st := by omega
    rw [this, Int.mul_neg] at hcast
    omega

theorem iterLoop_ok (t : Ty) (step : Int) :
    ∀ (n : Nat) (cur : Int), (∀ k : Nat, k ≤ n → t.inRange (cur + (k : Int) * step) = true) →
      iterLoop t step n cur = .ok ((List.range (n + 1)).map fun (k : Nat) => cur + (k : Int) * step) := by
  intro n
  induction n with
  | zero => intro cur _; simp [iterLoop]
  | succ n ih =>
    intro cur h
    have h1 := h 1 (by omega)
    simp only [Int.natCast_one, Int.one_mul] at h1
    have ih' := ih (cur + step) (by
      intro k hk
      have := h (k + 1) (by omega)
      rw [Int.natCast_add, Int.natCast_one, Int.add_mul, Int.one_mul] at this
      rw [Int.add_assoc, Int.add_comm step]; exact this)
    unfold iterLoop
    rw [plus_ok t cur step h1]
    simp only [ih']
    rw [List.range_succ_eq_map (n := n + 1)]
    simp only [List.map_cons, List.map_map, Int.natCast_zero, Int.zero_mul, Int.add_zero]
    congr 2
    apply List.map_congr_left
    intro k _
    simp only [Function.comp, Nat.succ_eq_add_one, Int.natCast_add, Int.natCast_one, Int.add_mul, Int.one_mul]
    omega

theorem iterInit_valid (s e st : Int) (hv : Valid s e st) :
    iterInit ⟨s, e, st⟩ = some (s, count s e st) := by
  unfold iterInit count
  have hnat := Int.natAbs_tdiv (e - s) st
  rcases hv with ⟨h1, h2⟩ | ⟨h1, h2⟩
  · have hnn : 0 ≤ (e - s).tdiv st := Int.tdiv_nonneg (by omega) (by omega)
    have hs : st.sign = 1 := Int.sign_eq_one_of_pos h2
    have hc : (e - s).sign = 0 ∨ (e - s).sign = 1 := by
      rcases Int.lt_or_eq_of_le h1 with h | h
      · right; exact Int.sign_eq_one_of_pos (by omega)
      · left; subst h; simp
    have htn : ((e - s).tdiv st).toNat = (e - s).natAbs / st.natAbs := by
      have : (e - s).natAbs.div st.natAbs = (e - s).natAbs / st.natAbs := rfl
      rw [← this, ← hnat]; omega
    rcases hc with hc | hc <;> simp [hc, hs, htn]
  · have hnn : 0 ≤ (e - s).tdiv st := Int.tdiv_nonneg_of_nonpos_of_nonpos (by omega) (by omega)
    have hs : st.sign = -1 := Int.sign_eq_neg_one_of_neg h2
    have hc : (e - s).sign = 0 ∨ (e - s).sign = -1 := by
      rcases Int.lt_or_eq_of_le h1 with h | h
      · right; exact Int.sign_eq_neg_one_of_neg (by omega)
      · left; subst h; simp
    have htn : ((e - s).tdiv st).toNat = (e - s).natAbs / st.natAbs := by
      have : (e - s).natAbs.div st.natAbs = (e - s).natAbs / st.natAbs := rfl
      rw [← this, ← hnat]; omega
    rcases hc with hc | hc <;> simp [hc, hs, htn]

/-- in ℕ: the multiples of `m` up to `d` are `k·m` for `k ≤ d / m` -/
theorem multiples_nat (d m y : Nat) (hm : 0 < m) : (∃ k, k ≤ d / m ∧ y = k * m) ↔ (y ≤ d ∧ m ∣ y) := by
  constructor
  · rintro ⟨k, hk, rfl⟩
    exact ⟨Nat.le_trans (Nat.mul_le_mul_right m hk) (Nat.div_mul_le_self d m), Nat.dvd_mul_left m k⟩
  · rintro ⟨hy, c, rfl⟩
    refine ⟨c, ?_, Nat.mul_comm m c⟩
    rw [Nat.le_div_iff_mul_le hm, Nat.mul_comm]; exact hy

end Verif.Proofs.Range
