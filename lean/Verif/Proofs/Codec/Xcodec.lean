import Verif.Model.Codec.Json
import Verif.Model.Codec.Ccf
/-! Lemmas for property C43: the JSON-Cadence erasure absorbs the CCF erasure, and the CCF erasure
keeps type IDs. -/
namespace Verif.Proofs.Codec.Xcodec
open Verif.Model.Codec Verif.Model.Codec.Ccf

def isNilT : CType → Bool
  | .nil => true
  | _ => false

theorem cap_id (t : CType) : (CType.cap t).id = if isNilT t then "Capability" else "Capability<" ++ t.id ++ ">" := by
  cases t <;> simp [CType.id, isNilT]

theorem isNilT_eraseT (t : CType) : isNilT (eraseT t) = isNilT t := by
  cases t <;> simp [eraseT, isNilT]
  rename_i k _ _ _ _
  by_cases h : k.isInterface = true <;> simp [h, isNilT]

mutual
theorem eraseT_id : ∀ t : CType, (eraseT t).id = t.id
  | .nil | .prim _ | .seen _ => by simp [eraseT]
  | .opt t => by simp [eraseT, CType.id, eraseT_id t]
  | .varr t => by simp [eraseT, CType.id, eraseT_id t]
  | .carr n t => by simp [eraseT, CType.id, eraseT_id t]
  | .dict k v => by simp [eraseT, CType.id, eraseT_id k, eraseT_id v]
  | .range t => by simp [eraseT, CType.id, eraseT_id t]
  | .cap t => by
    simp only [eraseT]
    rw [cap_id, cap_id, isNilT_eraseT, eraseT_id t]
  | .ref a t => by simp [eraseT, CType.id, eraseT_id t]
  | .inter ts => by simp [eraseT, CType.id, eraseTs_ids ts]
  | .func _ _ _ _ => by simp [eraseT]
  | .comp k id e fs is => by
    simp only [eraseT]; split <;> simp [CType.id]
theorem eraseTs_ids : ∀ ts : Types, Types.ids (eraseTs ts) = Types.ids ts
  | .nil => by simp [eraseTs]
  | .cons t r => by simp [eraseTs, Types.ids, eraseT_id t, eraseTs_ids r]
end

mutual
/-- the domain of the C43 corollary: the types of composite values are composite (not interface)
types, and the borrow types of capability values are types that CCF carries completely as inline
types (no initializers / raw types / interface members: `eraseT t = t`) -/
def ValueOk : CValue → Prop
  | .some v => ValueOk v
  | .arr _ vs => ValuesOk vs
  | .dict _ kvs => PairsOk kvs
  | .comp (.comp k _ _ _ _) vs => k.isInterface = false ∧ ValuesOk vs
  | .comp _ _ => False
  | .range _ s e p => ValueOk s ∧ ValueOk e ∧ ValueOk p
  | .cap _ _ t => eraseT t = t
  | _ => True
def ValuesOk : Values → Prop
  | .nil => True | .cons v r => ValueOk v ∧ ValuesOk r
def PairsOk : Pairs → Prop
  | .nil => True | .cons k v r => ValueOk k ∧ ValueOk v ∧ PairsOk r
end

theorem zip_eraseFs : ∀ (ws : Values) (fs : Fields), zipFieldTypes (eraseFs fs) ws = zipFieldTypes fs ws
  | .nil, _ => by simp [zipFieldTypes]
  | .cons w r, .nil => by
    simp only [eraseFs, zipFieldTypes]
  | .cons w r, .cons n t rest => by
    simp only [eraseFs, zipFieldTypes, fieldNameAt, fieldsTail, zip_eraseFs r rest]

mutual
theorem erase_eraseV : ∀ v : CValue, ValueOk v → erase (eraseV v) = erase v
  | .nilv, _ | .void, _ | .none, _ | .bool _, _ | .str _, _ | .char _, _ | .addr _, _ | .int _ _, _ | .fix _ _, _
  | .path _ _, _ | .type _, _ | .func _, _ => by simp [eraseV]
  | .cap _ _ _, h => by
    simp only [ValueOk] at h
    simp [eraseV, erase, h]
  | .some v, h => by
    simp only [ValueOk] at h
    simp [eraseV, erase, erase_eraseV v h]
  | .arr t vs, h => by
    simp only [ValueOk] at h
    simp [eraseV, erase, eraseValues_eraseVs vs h]
  | .dict t kvs, h => by
    simp only [ValueOk] at h
    simp [eraseV, erase, erasePairs_erasePs kvs h]
  | .range t s e p, h => by
    simp only [ValueOk] at h
    simp [eraseV, erase, erase_eraseV s h.1, erase_eraseV e h.2.1, erase_eraseV p h.2.2]
  | .comp t vs, h => by
    cases t <;> simp only [ValueOk] at h
    rename_i k id e fs is
    simp only [eraseV, eraseT, h.1, Bool.false_eq_true, if_false, erase, eraseValues_eraseVs vs h.2, zip_eraseFs]
theorem eraseValues_eraseVs : ∀ vs : Values, ValuesOk vs → eraseValues (eraseVs vs) = eraseValues vs
  | .nil, _ => by simp [eraseVs]
  | .cons v r, h => by
    simp only [ValuesOk] at h
    simp [eraseVs, eraseValues, erase_eraseV v h.1, eraseValues_eraseVs r h.2]
theorem erasePairs_erasePs : ∀ kvs : Pairs, PairsOk kvs → erasePairs (erasePs kvs) = erasePairs kvs
  | .nil, _ => by simp [erasePs]
  | .cons k v r, h => by
    simp only [PairsOk] at h
    simp [erasePs, erasePairs, erase_eraseV k h.1, erase_eraseV v h.2.1, erasePairs_erasePs r h.2.2]
end

end Verif.Proofs.Codec.Xcodec
