import Verif.Proofs.Codec.Sort
/-! Lemmas for property C42 `canonical`: the recursive CCF encoder maps permuted dictionary entries /
intersection members to permuted encoded members, which the sorters bring into one order. -/
namespace Verif.Proofs.Codec.Canonical
open Verif.Model.Codec Verif.Model.Codec.Ccf Verif.Proofs.Codec.Sort


/-- list form of the pair encoder -/
def pairsL (f : CValue × CValue → E (Cbor × Cbor)) : List (CValue × CValue) → E (List (Cbor × Cbor))
  | [] => pure []
  | p :: r => do let x ← f p; let xs ← pairsL f r; pure (x :: xs)

def pairEnc (m : Mode) (tids : List Collected) (kt vt : CType) (p : CValue × CValue) : E (Cbor × Cbor) := do
  pure ((← value m tids false p.1 kt), (← value m tids false p.2 vt))

theorem pairs_eq_pairsL (m : Mode) (tids : List Collected) (kt vt : CType) :
    ∀ kvs : Pairs, pairs m tids kvs kt vt = pairsL (pairEnc m tids kt vt) kvs.toList
  | .nil => by simp [pairs, Pairs.toList, pairsL]
  | .cons k v r => by
    simp only [pairs, Pairs.toList, pairsL, pairEnc, pairs_eq_pairsL m tids kt vt r]
    cases value m tids false k kt <;> simp [bind, Except.bind, pure, Except.pure]
    cases value m tids false v vt <;> simp [bind, Except.bind, pure, Except.pure]

/-- encoding a permutation of the entries gives a permutation of the encoded entries -/
theorem pairsL_perm (f : CValue × CValue → E (Cbor × Cbor)) {l₁ l₂ : List (CValue × CValue)} (h : l₁.Perm l₂) :
    ∀ r₁, pairsL f l₁ = .ok r₁ → ∃ r₂, pairsL f l₂ = .ok r₂ ∧ r₁.Perm r₂ := by
  induction h with
  | nil => intro r₁ h; exact ⟨r₁, h, List.Perm.refl _⟩
  | cons x _ ih =>
    intro r₁ h
    simp only [pairsL, bind, Except.bind] at h ⊢
    cases hx : f x with
    | error e => simp [hx] at h
    | ok y =>
      simp only [hx] at h ⊢
      rename_i l₁' l₂' _
      cases hr : pairsL f l₁' with
      | error e => simp [hr] at h
      | ok ys =>
        simp only [hr, pure, Except.pure] at h
        obtain ⟨r₂, h2, hp⟩ := ih ys hr
        injection h with h; subst h
        exact ⟨y :: r₂, by simp [h2, pure, Except.pure], hp.cons y⟩
  | swap x y l =>
    intro r₁ h
    simp only [pairsL, bind, Except.bind] at h ⊢
    cases hy : f y with
    | error e => simp [hy] at h
    | ok b =>
      cases hx : f x with
      | error e => simp [hy, hx] at h
      | ok a =>
        cases hl : pairsL f l with
        | error e => simp [hy, hx, hl] at h
        | ok zs =>
          simp only [hy, hx, hl, pure, Except.pure] at h ⊢
          injection h with h; subst h
          exact ⟨a :: b :: zs, rfl, List.Perm.swap _ _ _⟩
  | trans _ _ ih1 ih2 =>
    intro r₁ h
    obtain ⟨r₂, h2, p12⟩ := ih1 r₁ h
    obtain ⟨r₃, h3, p23⟩ := ih2 r₂ h2
    exact ⟨r₃, h3, p12.trans p23⟩

theorem perm_short {α} {l₁ l₂ : List α} (h : l₁.Perm l₂) (hl : l₁.length ≤ 1) : l₁ = l₂ := by
  match l₁, l₂, h with
  | [], l₂, h => exact (List.Perm.nil_eq h)
  | [a], l₂, h => exact (List.perm_singleton.mp h.symm).symm
  | _ :: _ :: _, _, _ => simp at hl

/-- Canonical form of dictionaries through the value encoder: two dictionary values of the same type
whose entries are permutations of each other (with pairwise different encoded keys) have the same
encoding, in every mode. -/
theorem dict_canonical (m : Mode) (tids : List Collected) (t : CType) (kvs₁ kvs₂ : Pairs)
    (h : kvs₁.toList.Perm kvs₂.toList) (x : Cbor)
    (h1 : valueBody m tids (.dict t kvs₁) = .ok x)
    (distinct : ∀ ps, pairs m tids kvs₁ (dictKeyType t) (dictValType t) = .ok ps →
      ∀ a b, a ∈ ps → b ∈ ps → Cbor.encode a.1 = Cbor.encode b.1 → a = b) :
    valueBody m tids (.dict t kvs₂) = .ok x := by
  simp only [valueBody, bind, Except.bind] at h1 ⊢
  cases hp : pairs m tids kvs₁ (dictKeyType t) (dictValType t) with
  | error e => simp [hp] at h1
  | ok ps₁ =>
    rw [pairs_eq_pairsL] at hp
    obtain ⟨ps₂, hp2, pp⟩ := pairsL_perm _ h ps₁ hp
    rw [← pairs_eq_pairsL] at hp hp2
    simp only [hp, pure, Except.pure] at h1
    simp only [hp2, pure, Except.pure]
    injection h1 with h1; subst h1
    have hlen : ps₁.length = ps₂.length := pp.length_eq
    by_cases hgt : ps₁.length > 1
    · have hgt2 : ps₂.length > 1 := by omega
      simp only [hgt, hgt2, if_true]
      unfold sortPairs
      rw [sortBy_eq_of_perm (fun (a b : Cbor × Cbor) => bytesLe (Cbor.encode a.1) (Cbor.encode b.1))
        (fun _ _ => bytesLe_total _ _) (fun _ _ _ => bytesLe_trans _ _ _) pp
        (fun a b ha hb h1 h2 => distinct ps₁ hp a b ha hb (bytesLe_antisymm _ _ h1 h2))]
    · have hgt2 : ¬ ps₂.length > 1 := by omega
      simp only [hgt, hgt2, if_false]
      rw [perm_short pp (by omega)]


def mapE {α β} (f : α → E β) : List α → E (List β)
  | [] => pure []
  | p :: r => do let x ← f p; let xs ← mapE f r; pure (x :: xs)

theorem mapE_perm {α β} (f : α → E β) {l₁ l₂ : List α} (h : l₁.Perm l₂) :
    ∀ r₁, mapE f l₁ = .ok r₁ → ∃ r₂, mapE f l₂ = .ok r₂ ∧ r₁.Perm r₂ := by
  induction h with
  | nil => intro r₁ h; exact ⟨r₁, h, List.Perm.refl _⟩
  | cons x _ ih =>
    intro r₁ h
    simp only [mapE, bind, Except.bind] at h ⊢
    cases hx : f x with
    | error e => simp [hx] at h
    | ok y =>
      simp only [hx] at h ⊢
      rename_i l₁' l₂' _
      cases hr : mapE f l₁' with
      | error e => simp [hr] at h
      | ok ys =>
        simp only [hr, pure, Except.pure] at h
        obtain ⟨r₂, h2, hp⟩ := ih ys hr
        injection h with h; subst h
        exact ⟨y :: r₂, by simp [h2, pure, Except.pure], hp.cons y⟩
  | swap x y l =>
    intro r₁ h
    simp only [mapE, bind, Except.bind] at h ⊢
    cases hy : f y with
    | error e => simp [hy] at h
    | ok b =>
      cases hx : f x with
      | error e => simp [hy, hx] at h
      | ok a =>
        cases hl : mapE f l with
        | error e => simp [hy, hx, hl] at h
        | ok zs =>
          simp only [hy, hx, hl, pure, Except.pure] at h ⊢
          injection h with h; subst h
          exact ⟨a :: b :: zs, rfl, List.Perm.swap _ _ _⟩
  | trans _ _ ih1 ih2 =>
    intro r₁ h
    obtain ⟨r₂, h2, p12⟩ := ih1 r₁ h
    obtain ⟨r₃, h3, p23⟩ := ih2 r₂ h2
    exact ⟨r₃, h3, p12.trans p23⟩

/-- members of an intersection keyed by type ID -/
def keyedMember (m : Mode) (tids : List Collected) (t : CType) : E (String × Cbor) := do
  pure (t.id, ← inlineType m tids t)

theorem keyed_eq (m : Mode) (tids : List Collected) : ∀ (ts : Types) (items : List Cbor),
    inlineTypes m tids ts = .ok items → mapE (keyedMember m tids) ts.toList = .ok ((Types.ids ts).zip items)
  | .nil, items, h => by
    simp only [inlineTypes, pure, Except.pure] at h; injection h with h; subst h
    simp [Types.toList, mapE, Types.ids, pure, Except.pure]
  | .cons t r, items, h => by
    simp only [inlineTypes, bind, Except.bind] at h
    cases ht : inlineType m tids t with
    | error e => simp [ht] at h
    | ok x =>
      cases hr : inlineTypes m tids r with
      | error e => simp [ht, hr] at h
      | ok xs =>
        simp only [ht, hr, pure, Except.pure] at h
        injection h with h; subst h
        simp [Types.toList, mapE, keyedMember, Types.ids, ht, keyed_eq m tids r xs hr, bind, Except.bind, pure, Except.pure]

theorem keyed_conv (m : Mode) (tids : List Collected) : ∀ (ts : Types) (ks : List (String × Cbor)),
    mapE (keyedMember m tids) ts.toList = .ok ks → ∃ items, inlineTypes m tids ts = .ok items
  | .nil, _, _ => ⟨[], by simp [inlineTypes, pure, Except.pure]⟩
  | .cons t r, ks, h => by
    simp only [Types.toList, mapE, keyedMember, bind, Except.bind] at h
    cases ht : inlineType m tids t with
    | error e => simp [ht] at h
    | ok x =>
      simp only [ht, pure, Except.pure] at h
      cases hr : mapE (keyedMember m tids) r.toList with
      | error e => simp [hr] at h
      | ok ys =>
        obtain ⟨items, hi⟩ := keyed_conv m tids r ys hr
        exact ⟨x :: items, by simp [inlineTypes, ht, hi, bind, Except.bind, pure, Except.pure]⟩

theorem zip_key_inj : ∀ (ids : List String) (items : List Cbor), ids.Nodup →
    ∀ a b, a ∈ ids.zip items → b ∈ ids.zip items → a.1 = b.1 → a = b
  | [], _, _, a, _, ha, _, _ => by simp at ha
  | _ :: _, [], _, a, _, ha, _, _ => by simp at ha
  | i :: ids, x :: items, hn, a, b, ha, hb, hab => by
    simp only [List.zip_cons_cons, List.mem_cons] at ha hb
    have hn' := List.nodup_cons.mp hn
    rcases ha with rfl | ha <;> rcases hb with rfl | hb
    · rfl
    · have : i = b.1 := hab
      exact absurd (this ▸ (List.of_mem_zip hb).1) hn'.1
    · have : a.1 = i := hab
      exact absurd (this ▸ (List.of_mem_zip ha).1) hn'.1
    · exact zip_key_inj ids items hn'.2 a b ha hb hab

/-- Canonical form of intersection types (inline types): in a mode that sorts intersection types, two
intersection types whose members are permutations of each other (pairwise different type IDs) have the
same encoding. -/
theorem inter_canonical (m : Mode) (hm : m.sortIntersections = true) (tids : List Collected) (ts₁ ts₂ : Types)
    (h : ts₁.toList.Perm ts₂.toList) (x : Cbor)
    (h1 : inlineType m tids (.inter ts₁) = .ok x)
    (distinct : (Types.ids ts₁).Nodup) :
    inlineType m tids (.inter ts₂) = .ok x := by
  simp only [inlineType, bind, Except.bind, hm, if_true] at h1 ⊢
  cases hi : inlineTypes m tids ts₁ with
  | error e => simp [hi] at h1
  | ok items₁ =>
    have k1 := keyed_eq m tids ts₁ items₁ hi
    obtain ⟨k₂, hk2, pp⟩ := mapE_perm _ h _ k1
    -- the second type encodes its members too
    cases hi2 : inlineTypes m tids ts₂ with
    | error e =>
      obtain ⟨items, hi'⟩ := keyed_conv m tids ts₂ k₂ hk2
      rw [hi'] at hi2; cases hi2
    | ok items₂ =>
      have k2 := keyed_eq m tids ts₂ items₂ hi2
      rw [hk2] at k2; injection k2 with k2
      simp only [hi, pure, Except.pure] at h1
      simp only [pure, Except.pure]
      injection h1 with h1; subst h1
      rw [← k2]
      congr 3
      apply congrArg
      exact Eq.symm <| sortBy_eq_of_perm (fun (a b : String × Cbor) => lenFirstLe a.1 b.1)
        (fun _ _ => lenFirstLe_total _ _) (fun _ _ _ => lenFirstLe_trans _ _ _) pp
        (fun a b ha hb h1 h2 => zip_key_inj _ _ distinct a b ha hb (lenFirstLe_antisymm _ _ h1 h2))

end Verif.Proofs.Codec.Canonical
