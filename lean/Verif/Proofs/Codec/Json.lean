import Verif.Model.Codec.Json
/-! Lemmas for property C41 (JSON-Cadence): text round trips, erasure. -/
namespace Verif.Proofs.Codec.Json
open Verif.Model.Codec

/-! ### decimal text -/

theorem parseDigits_toDigits (n : Nat) : parseDigits (Nat.toDigits 10 n) = some n := by
  unfold parseDigits
  have h1 : (Nat.toDigits 10 n).isEmpty = false := by
    cases h : Nat.toDigits 10 n with
    | nil => exact absurd h Nat.toDigits_ne_nil
    | cons _ _ => rfl
  have h2 : (Nat.toDigits 10 n).all Char.isDigit = true := by
    rw [List.all_eq_true]; intro c hc
    exact Nat.isDigit_of_mem_toDigits (by decide) (by decide) hc
  simp [h1, h2]

theorem parseDigits_repr (n : Nat) : parseDigits (Nat.repr n).toList = some n := by
  rw [Nat.toList_repr]; exact parseDigits_toDigits n

theorem goParseNat_showNat (n : Nat) : goParseNat (showNat n) = some n := by
  unfold goParseNat showNat; exact parseDigits_repr n

theorem toDigits_head_digit (n : Nat) : ∃ c cs, Nat.toDigits 10 n = c :: cs ∧ c.isDigit = true := by
  cases h : Nat.toDigits 10 n with
  | nil => exact absurd h Nat.toDigits_ne_nil
  | cons c cs =>
    refine ⟨c, cs, rfl, ?_⟩
    exact Nat.isDigit_of_mem_toDigits (b := 10) (n := n) (by decide) (by decide) (by rw [h]; simp)

theorem goParseInt_showInt (n : Int) : goParseInt (showInt n) = some n := by
  by_cases h : n < 0
  · have : (showInt n).toList = '-' :: Nat.toDigits 10 n.natAbs := by
      simp [showInt, h, Nat.toList_repr]
    unfold goParseInt; rw [this]
    simp only [parseDigits_toDigits, Option.map_some]
    congr 1; simp only [Int.ofNat_eq_natCast]; omega
  · have : (showInt n).toList = Nat.toDigits 10 n.natAbs := by
      simp [showInt, h, Nat.toList_repr]
    unfold goParseInt; rw [this]
    obtain ⟨c, cs, hcs, hd⟩ := toDigits_head_digit n.natAbs
    have hp := parseDigits_toDigits n.natAbs
    rw [hcs] at hp ⊢
    have h1 : c ≠ '+' := by intro e; subst e; simp [Char.isDigit] at hd
    have h2 : c ≠ '-' := by intro e; subst e; simp [Char.isDigit] at hd
    split
    · rename_i heq; injection heq with a b; exact absurd a h1
    · rename_i heq; injection heq with a b; exact absurd a h2
    · simp only [hp, Option.map_some]; congr 1; simp only [Int.ofNat_eq_natCast]; omega

/-! ### hexadecimal text -/

theorem hexVal_hexDigit : ∀ n : Fin 16, hexVal (hexDigit n.val) = some n.val := by decide

theorem hexDecode_hexEncode : ∀ bs : List UInt8, hexDecode (hexEncode bs) = some bs
  | [] => rfl
  | b :: bs => by
    have h1 := hexVal_hexDigit ⟨b.toNat / 16, by have := b.toNat_lt; omega⟩
    have h2 := hexVal_hexDigit ⟨b.toNat % 16, by omega⟩
    simp only at h1 h2
    simp only [hexEncode, hexDecode, h1, h2, hexDecode_hexEncode bs]
    congr 2
    rw [Nat.div_add_mod']
    exact UInt8.ofNat_toNat

/-! ### erasure -/

@[simp] theorem fieldNameAt_cons (n t r) : fieldNameAt (.cons n t r) = n := rfl
@[simp] theorem fieldsTail_cons (n t r) : fieldsTail (.cons n t r) = r := rfl

/-- the names written for the values only depend on the names of the declared fields -/
theorem prepareCompFields_zip : ∀ (vs : Values) (fs : Fields) (ws : Values), ws.length = vs.length →
    prepareCompFields (zipFieldTypes fs vs) ws = prepareCompFields fs ws
  | .nil, fs, .nil, _ => by simp [prepareCompFields]
  | .nil, fs, .cons _ _, h => by simp [Values.length] at h
  | .cons v r, fs, .nil, h => by simp [Values.length] at h
  | .cons v r, fs, .cons w ws, h => by
    simp only [zipFieldTypes, prepareCompFields, fieldNameAt_cons, fieldsTail_cons]
    rw [prepareCompFields_zip r (fieldsTail fs) ws (by simpa [Values.length] using h)]

theorem eraseValues_length : ∀ vs : Values, (eraseValues vs).length = vs.length
  | .nil => rfl
  | .cons _ r => by simp [eraseValues, Values.length, eraseValues_length r]

mutual
theorem prepare_erase : ∀ v : CValue, prepare (erase v) = prepare v
  | .nilv | .void | .none | .bool _ | .str _ | .char _ | .addr _ | .int _ _ | .fix _ _
  | .path _ _ | .cap _ _ _ | .type _ | .func _ => by simp [erase]
  | .some v => by simp [erase, prepare, prepare_erase v]
  | .arr t vs => by simp [erase, prepare, prepareValues_erase vs]
  | .dict t kvs => by simp [erase, prepare, preparePairs_erase kvs]
  | .range t s e p => by simp [erase, prepare, prepare_erase s, prepare_erase e, prepare_erase p]
  | .comp t vs => by
    cases t <;> simp [erase, prepare, compValueKind, compTypeID, compFields, prepareCompFields_erase vs]
    rw [prepareCompFields_zip _ _ _ (eraseValues_length vs).symm]
theorem prepareValues_erase : ∀ vs : Values, prepareValues (eraseValues vs) = prepareValues vs
  | .nil => by simp [eraseValues]
  | .cons v r => by simp [eraseValues, prepareValues, prepare_erase v, prepareValues_erase r]
theorem preparePairs_erase : ∀ kvs : Pairs, preparePairs (erasePairs kvs) = preparePairs kvs
  | .nil => by simp [erasePairs]
  | .cons k v r => by simp [erasePairs, preparePairs, prepare_erase k, prepare_erase v, preparePairs_erase r]
theorem prepareCompFields_erase : ∀ (vs : Values) (fs : Fields), prepareCompFields fs (eraseValues vs) = prepareCompFields fs vs
  | .nil, fs => by simp [eraseValues, prepareCompFields]
  | .cons v r, fs => by simp [eraseValues, prepareCompFields, prepare_erase v, prepareCompFields_erase r]
end

/-! ### round trips of scalar values -/

theorem rt_void : decode (prepare .void) = .ok .void := by
  simp only [decode, prepare]; rw [decodeValue]
  simp [getKey, lookupSub, toStr, bind, Except.bind, pure, Except.pure]

theorem rt_none : decode (prepare .none) = .ok .none := by
  simp only [decode, prepare, vobj]; rw [decodeValue]
  simp [getKey, lookupSub, toStr, bind, Except.bind, pure, Except.pure]

theorem rt_path (d i : String) (h : validDomain d = true) : decode (prepare (.path d i)) = .ok (.path d i) := by
  simp only [decode, prepare, vobj]; rw [decodeValue]
  simp [getKey, lookupSub, toStr, bind, Except.bind, pure, Except.pure, isIntKind, isFixKind, intRange, fixInfo, asObj, h]

theorem decodeAddr_addrJson (bs : List UInt8) (h : bs.length = 8) : decodeAddr (addrJson bs) = .ok bs := by
  simp [decodeAddr, addrJson, hexDecode_hexEncode, h]

theorem rt_addr (bs : List UInt8) (h : bs.length = 8) : decode (prepare (.addr bs)) = .ok (.addr bs) := by
  simp only [decode, prepare, vobj]; rw [decodeValue]
  simp [getKey, lookupSub, toStr, bind, Except.bind, pure, Except.pure, decodeAddr_addrJson bs h]

theorem rt_char (s : String) (h : s.length = 1) : decode (prepare (.char s)) = .ok (.char s) := by
  simp only [decode, prepare, vobj]; rw [decodeValue]
  simp [getKey, lookupSub, toStr, bind, Except.bind, pure, Except.pure, h]

theorem showInt_nonneg (n : Int) (h : 0 ≤ n) : showInt n = Nat.repr n.natAbs := by
  simp [showInt, Int.not_lt.mpr h]

theorem decodeIntKind_show (k : String) (n : Int) (h : intKindOk k n = true) :
    decodeIntKind k (.str (showInt n)) = .ok (.int k n) := by
  unfold decodeIntKind
  simp only [toStr, bind, Except.bind]
  by_cases hu : usesParseUint k = true
  · -- unsigned fixed-width kinds: the value is non-negative
    have hn : 0 ≤ n := by
      simp only [usesParseUint, Bool.or_eq_true, beq_iff_eq] at hu
      rcases hu with ((((((h1 | h1) | h1) | h1) | h1) | h1) | h1) | h1 <;> subst h1 <;>
        simp [intKindOk, intRange, inRange] at h <;> omega
    simp only [hu, if_true, showInt_nonneg n hn, goParseNat, parseDigits_repr, Option.map_some]
    have : (n.natAbs : Int) = n := by omega
    simp only [Int.ofNat_eq_natCast, this, h, if_true, pure, Except.pure]
  · simp only [hu, goParseInt_showInt]
    simp [h, pure, Except.pure]

theorem intKind_names (k : String) (r) (h : intRange k = some r) :
    k = "Int" ∨ k = "Int8" ∨ k = "Int16" ∨ k = "Int32" ∨ k = "Int64" ∨ k = "Int128" ∨ k = "Int256" ∨
    k = "UInt" ∨ k = "UInt8" ∨ k = "UInt16" ∨ k = "UInt32" ∨ k = "UInt64" ∨ k = "UInt128" ∨ k = "UInt256" ∨
    k = "Word8" ∨ k = "Word16" ∨ k = "Word32" ∨ k = "Word64" ∨ k = "Word128" ∨ k = "Word256" := by
  unfold intRange at h
  split at h <;> simp_all

theorem rt_int (k : String) (n : Int) (h : intKindOk k n = true) :
    decode (prepare (.int k n)) = .ok (.int k n) := by
  have hk : ∃ r, intRange k = some r := by
    unfold intKindOk at h; split at h
    · exact ⟨_, by assumption⟩
    · simp at h
  obtain ⟨r, hr⟩ := hk
  have hd := decodeIntKind_show k n h
  simp only [decode, prepare, vobj]; rw [decodeValue]
  rcases intKind_names k r hr with h1 | h1 | h1 | h1 | h1 | h1 | h1 | h1 | h1 | h1 | h1 | h1 | h1 | h1 | h1 | h1 | h1 | h1 | h1 | h1 <;>
    subst h1 <;>
    simp [getKey, lookupSub, toStr, bind, Except.bind, pure, Except.pure, isIntKind, intRange, hd]

/-! ### fixed-point text -/

theorem splitDots_nodot : ∀ cs : List Char, (∀ c ∈ cs, c ≠ '.') → splitDots cs = [cs] := by
  intro cs
  induction cs with
  | nil => intro _; simp [splitDots]
  | cons c r ih =>
    intro h
    have hr := ih (fun x hx => h x (List.mem_cons_of_mem _ hx))
    have hc : c ≠ '.' := h c (List.mem_cons_self ..)
    simp only [splitDots, List.foldr_cons] at hr ⊢
    rw [hr]; simp [hc]

theorem splitDots_append_dot (a b : List Char) (ha : ∀ c ∈ a, c ≠ '.') (hb : ∀ c ∈ b, c ≠ '.') :
    splitDots (a ++ '.' :: b) = [a, b] := by
  induction a with
  | nil =>
    have := splitDots_nodot b hb
    simp only [splitDots, List.nil_append, List.foldr_cons] at this ⊢
    rw [this]; simp
  | cons c r ih =>
    have hr := ih (fun x hx => ha x (List.mem_cons_of_mem _ hx))
    have hc : c ≠ '.' := ha c (List.mem_cons_self ..)
    simp only [splitDots, List.cons_append, List.foldr_cons] at hr ⊢
    rw [hr]; simp [hc]

theorem digit_ne_dot (c : Char) (h : c.isDigit = true) : c ≠ '.' := by
  intro e; subst e; simp [Char.isDigit] at h

theorem toDigits_nodot (n : Nat) : ∀ c ∈ Nat.toDigits 10 n, c ≠ '.' :=
  fun c hc => digit_ne_dot c (Nat.isDigit_of_mem_toDigits (by decide) (by decide) hc)

theorem showFixed_toList (scale : Nat) (raw : Int) :
    (showFixed scale raw).toList =
      (if raw < 0 then ['-'] else []) ++ Nat.toDigits 10 (raw.natAbs / 10 ^ scale) ++
        '.' :: padLeft scale (Nat.toDigits 10 (raw.natAbs % 10 ^ scale)) := by
  unfold showFixed
  by_cases h : raw < 0 <;> simp [h, Nat.toList_repr]

theorem toDigits_length_le (n k : Nat) (hk : 0 < k) (h : n < 10 ^ k) : (Nat.toDigits 10 n).length ≤ k :=
  (Nat.length_toDigits_le_iff (by decide) hk).mpr h

theorem padLeft_eq (k : Nat) (ds : List Char) (h : ds.length ≤ k) :
    padLeft k ds = List.replicate (k - ds.length) '0' ++ ds ∧ (padLeft k ds).length = k := by
  unfold padLeft; simp; omega

theorem parseDigits_pad (k n : Nat) (hk : 0 < k) (h : n < 10 ^ k) :
    parseDigits (padLeft k (Nat.toDigits 10 n)) = some n := by
  have hl := toDigits_length_le n k hk h
  obtain ⟨he, _⟩ := padLeft_eq k _ hl
  rw [he]
  unfold parseDigits
  have h1 : (List.replicate (k - (Nat.toDigits 10 n).length) '0' ++ Nat.toDigits 10 n).isEmpty = false := by
    cases hd : Nat.toDigits 10 n with
    | nil => exact absurd hd Nat.toDigits_ne_nil
    | cons _ _ => simp
  have h2 : (List.replicate (k - (Nat.toDigits 10 n).length) '0' ++ Nat.toDigits 10 n).all Char.isDigit = true := by
    rw [List.all_eq_true]; intro c hc
    rcases List.mem_append.mp hc with hc | hc
    · rw [(List.mem_replicate.mp hc).2]; decide
    · exact Nat.isDigit_of_mem_toDigits (by decide) (by decide) hc
  simp only [h1, h2, Bool.not_false, Bool.and_self, if_true, Nat.ofDigitChars_append,
    Nat.ofDigitChars_replicate_zero, Nat.mul_zero]
  rw [Nat.ofDigitChars_ten_toDigits]

theorem pad_head_ok (k n : Nat) (hk : 0 < k) (h : n < 10 ^ k) :
    ∃ c cs, padLeft k (Nat.toDigits 10 n) = c :: cs ∧ c ≠ '+' ∧ c ≠ '-' ∧ (∀ x ∈ c :: cs, x ≠ '.') := by
  have hl := toDigits_length_le n k hk h
  obtain ⟨he, hlen⟩ := padLeft_eq k _ hl
  have hall : ∀ x ∈ padLeft k (Nat.toDigits 10 n), x.isDigit = true := by
    rw [he]; intro x hx
    rcases List.mem_append.mp hx with hx | hx
    · rw [(List.mem_replicate.mp hx).2]; decide
    · exact Nat.isDigit_of_mem_toDigits (by decide) (by decide) hx
  cases hp : padLeft k (Nat.toDigits 10 n) with
  | nil => rw [hp] at hlen; simp at hlen; omega
  | cons c cs =>
    rw [hp] at hall
    have hc := hall c (List.mem_cons_self ..)
    refine ⟨c, cs, rfl, ?_, ?_, fun x hx => digit_ne_dot x (hall x hx)⟩
    · intro e; subst e; simp [Char.isDigit] at hc
    · intro e; subst e; simp [Char.isDigit] at hc

theorem goParseFixed_showFixed (scale : Nat) (hs : 0 < scale) (raw : Int) :
    goParseFixed scale (showFixed scale raw) = some raw := by
  have hfp : raw.natAbs % 10 ^ scale < 10 ^ scale := Nat.mod_lt _ (Nat.pow_pos (by decide))
  obtain ⟨c, cs, hpad, hc1, hc2, hnd⟩ := pad_head_ok scale _ hs hfp
  have hpd := parseDigits_pad scale _ hs hfp
  have hplen := (padLeft_eq scale _ (toDigits_length_le _ scale hs hfp)).2
  obtain ⟨d, ds, hdig, hdd⟩ := toDigits_head_digit (raw.natAbs / 10 ^ scale)
  have hipd := parseDigits_toDigits (raw.natAbs / 10 ^ scale)
  have hdm : raw.natAbs / 10 ^ scale * 10 ^ scale + raw.natAbs % 10 ^ scale = raw.natAbs := by
    rw [Nat.mul_comm]; exact Nat.div_add_mod raw.natAbs (10 ^ scale)
  unfold goParseFixed
  rw [showFixed_toList]
  by_cases hneg : raw < 0
  · simp only [hneg, if_true]
    have hsplit : splitDots (['-'] ++ Nat.toDigits 10 (raw.natAbs / 10 ^ scale) ++ '.' :: padLeft scale (Nat.toDigits 10 (raw.natAbs % 10 ^ scale)))
        = [['-'] ++ Nat.toDigits 10 (raw.natAbs / 10 ^ scale), padLeft scale (Nat.toDigits 10 (raw.natAbs % 10 ^ scale))] := by
      apply splitDots_append_dot
      · intro x hx
        rcases List.mem_append.mp hx with hx | hx
        · simp at hx; subst hx; decide
        · exact toDigits_nodot _ x hx
      · rw [hpad]; exact hnd
    rw [hsplit]
    simp only [List.singleton_append, goParseInt, String.toList_ofList, hipd, Option.map_some]
    rw [hpad] at hpd hplen ⊢
    simp only [hpd]
    have : ¬ (c :: cs).length > scale := by omega
    simp only [this, if_false, hplen, Nat.sub_self, Nat.pow_zero, Nat.mul_one]
    split
    · rename_i heq; injection heq with a _; exact absurd a hc1
    · rename_i heq; injection heq with a _; exact absurd a hc2
    · have e1 : (-Int.ofNat (raw.natAbs / 10 ^ scale)).natAbs = raw.natAbs / 10 ^ scale := by
        rw [Int.natAbs_neg]; rfl
      simp only [Nat.lt_irrefl, gt_iff_lt, if_false, e1, hdm, if_true, Option.some.injEq]
      simp only [Int.ofNat_eq_natCast]
      split
      · simp only [if_true]
        have : -(raw.natAbs : Int) = raw := by omega
        exact this
      · rename_i hm; exact absurd rfl (hm _)
  · simp only [hneg, if_false, List.nil_append]
    have hsplit : splitDots (Nat.toDigits 10 (raw.natAbs / 10 ^ scale) ++ '.' :: padLeft scale (Nat.toDigits 10 (raw.natAbs % 10 ^ scale)))
        = [Nat.toDigits 10 (raw.natAbs / 10 ^ scale), padLeft scale (Nat.toDigits 10 (raw.natAbs % 10 ^ scale))] := by
      apply splitDots_append_dot
      · exact toDigits_nodot _
      · rw [hpad]; exact hnd
    rw [hsplit]
    have hd1 : d ≠ '+' := by intro e; subst e; simp [Char.isDigit] at hdd
    have hd2 : d ≠ '-' := by intro e; subst e; simp [Char.isDigit] at hdd
    have hgi : goParseInt (String.ofList (Nat.toDigits 10 (raw.natAbs / 10 ^ scale))) = some (Int.ofNat (raw.natAbs / 10 ^ scale)) := by
      unfold goParseInt
      simp only [String.toList_ofList]
      rw [hdig] at hipd ⊢
      split
      · rename_i heq; injection heq with a _; exact absurd a hd1
      · rename_i heq; injection heq with a _; exact absurd a hd2
      · simp [hipd]
    simp only [hgi]
    rw [hdig]
    rw [hpad] at hpd hplen ⊢
    simp only [hpd]
    have : ¬ (c :: cs).length > scale := by omega
    simp only [this, if_false, hplen, Nat.sub_self, Nat.pow_zero, Nat.mul_one]
    have hnd' : ¬ (d = '-') := hd2
    split
    · rename_i heq; injection heq with a _; exact absurd a hc1
    · rename_i heq; injection heq with a _; exact absurd a hc2
    · split
      · rename_i heq; exact absurd heq (Nat.lt_irrefl _)
      · have e1 : (Int.ofNat (raw.natAbs / 10 ^ scale)).natAbs = raw.natAbs / 10 ^ scale := rfl
        have e2 : (match d :: ds ++ '.' :: c :: cs with | '-' :: _ => true | _ => false) = false := by
          split
          · rename_i heq; injection heq with a _; exact absurd a hd2
          · rfl
        simp only [e1, hdm, Option.some.injEq]
        simp only [Int.ofNat_eq_natCast]
        split
        · rename_i heq; injection heq with a _; exact absurd a hd2
        · simp only [Bool.false_eq_true, if_false]
          have : (raw.natAbs : Int) = raw := by omega
          exact this

theorem showFixed_nonneg_head (scale : Nat) (raw : Int) (h : 0 ≤ raw) :
    (match (showFixed scale raw).toList with | '-' :: _ => true | _ => false) = false := by
  rw [showFixed_toList]
  have hn : ¬ raw < 0 := by omega
  obtain ⟨d, ds, hdig, hdd⟩ := toDigits_head_digit (raw.natAbs / 10 ^ scale)
  simp only [hn, if_false, List.nil_append, hdig, List.cons_append]
  have hd2 : d ≠ '-' := by intro e; subst e; simp [Char.isDigit] at hdd
  split
  · rename_i heq; injection heq with a _; exact absurd a hd2
  · rfl

theorem fixKind_names (k : String) (r) (h : fixInfo k = some r) :
    k = "Fix64" ∨ k = "UFix64" ∨ k = "Fix128" ∨ k = "UFix128" := by
  unfold fixInfo at h
  split at h <;> simp_all

theorem fixKind_names' (k : String) (n : Int) (h : fixKindOk k n = true) :
    k = "Fix64" ∨ k = "UFix64" ∨ k = "Fix128" ∨ k = "UFix128" := by
  unfold fixKindOk at h
  cases hf : fixInfo k with
  | none => simp [hf] at h
  | some r => exact fixKind_names k r hf

theorem decodeFixKind_show (k : String) (n : Int) (h : fixKindOk k n = true) :
    decodeFixKind k (.str (showFixed (fixScale k) n)) = .ok (.fix k n) := by
  unfold decodeFixKind
  simp only [toStr, bind, Except.bind]
  have hk := fixKind_names' k n h
  rcases hk with rfl | rfl | rfl | rfl
  · rw [goParseFixed_showFixed _ (by decide)]
    simp [h, pure, Except.pure]
  · have hn : 0 ≤ n := by simp [fixKindOk, fixInfo] at h; omega
    rw [goParseFixed_showFixed _ (by decide)]
    simp [h, pure, Except.pure]
    exact showFixed_nonneg_head _ n hn
  · rw [goParseFixed_showFixed _ (by decide)]
    simp [h, pure, Except.pure]
  · have hn : 0 ≤ n := by simp [fixKindOk, fixInfo] at h; omega
    rw [goParseFixed_showFixed _ (by decide)]
    simp [h, pure, Except.pure]
    exact showFixed_nonneg_head _ n hn

theorem rt_fix (k : String) (n : Int) (h : fixKindOk k n = true) :
    decode (prepare (.fix k n)) = .ok (.fix k n) := by
  have hd := decodeFixKind_show k n h
  have hk := fixKind_names' k n h
  simp only [decode, prepare, vobj]; rw [decodeValue]
  rcases hk with rfl | rfl | rfl | rfl <;>
    simp [getKey, lookupSub, toStr, bind, Except.bind, pure, Except.pure, isIntKind, isFixKind, intRange, fixInfo, hd]

/-- scalar values in the domain of the JSON-Cadence round-trip theorem proved so far -/
def scalarOk : CValue → Bool
  | .void | .none | .bool _ | .str _ => true
  | .char s => s.length == 1
  | .addr bs => bs.length == 8
  | .int k n => intKindOk k n
  | .fix k n => fixKindOk k n
  | .path d _ => validDomain d
  | _ => false

theorem rt_bool (b : Bool) : decode (prepare (.bool b)) = .ok (.bool b) := by
  simp only [decode, prepare, vobj]; rw [decodeValue]
  simp [getKey, lookupSub, toStr, toBoolJ, bind, Except.bind, pure, Except.pure]

theorem rt_str (s : String) : decode (prepare (.str s)) = .ok (.str s) := by
  simp only [decode, prepare, vobj]; rw [decodeValue]
  simp [getKey, lookupSub, toStr, bind, Except.bind, pure, Except.pure]

theorem rt_scalar (v : CValue) (h : scalarOk v = true) : decode (prepare v) = .ok v := by
  cases v <;> simp [scalarOk] at h
  · exact rt_void
  · exact rt_none
  · exact rt_bool _
  · exact rt_str _
  · exact rt_char _ h
  · exact rt_addr _ h
  · exact rt_int _ _ h
  · exact rt_fix _ _ h
  · exact rt_path _ _ h

theorem erase_scalar (v : CValue) (h : scalarOk v = true) : erase v = v := by
  cases v <;> simp [scalarOk] at h <;> simp [erase]

/-! ### round trips of optionals, arrays, dictionaries, ranges and composite values -/


def valueKind (k : CompKind) : Bool :=
  match k with
  | .struct | .resource | .event | .contract | .enum => true
  | _ => false

theorem decode_comp_step (k : CompKind) (hk : valueKind k = true) (id : String) (xs : List Json) :
    decodeValue (.obj [("value", .obj [("id", .str id), ("fields", .arr xs)]), ("type", .str k.jsonKind)]) =
      (do let i ← decodeCompositeTypeID (.str id)
          let (fs, vs) ← decodeCompFieldsList xs
          pure (.comp (.comp k i .nil fs (if k == .event then .cons .nil .nil else .nil)) vs)) := by
  rw [decodeValue]
  cases k <;> simp [valueKind] at hk <;>
    simp [CompKind.jsonKind, getKey, lookupSub, toStr, bind, Except.bind, pure, Except.pure, isIntKind, isFixKind,
      intRange, fixInfo, asArr, asObj] <;> rfl

theorem decodeCompFieldsList_cons (x : Json) (n : String) (r : List Json) :
    decodeCompFieldsList (.obj [("value", x), ("name", .str n)] :: r) =
      (do let v ← decodeValue x; let (fs, vs) ← decodeCompFieldsList r; pure (.cons n v.typeOf fs, .cons v vs)) := by
  rw [decodeCompFieldsList]
  simp [getKey, lookupSub, toStr, bind, Except.bind, pure, Except.pure, asObj]

theorem decodeCompositeTypeID_ok (id : String) (h : typeIDShapeOk id = true) : decodeCompositeTypeID (.str id) = .ok id := by
  simp [decodeCompositeTypeID, toStr, bind, Except.bind, h, pure, Except.pure]



mutual
/-- values built from scalars with optionals, arrays, dictionaries and ranges -/
def plainOk : CValue → Bool
  | .some v => plainOk v
  | .arr _ vs => plainOkVs vs
  | .dict _ kvs => plainOkPs kvs
  | .range _ s e p => plainOk s && plainOk e && plainOk p
  | .comp (.comp k id _ _ _) vs => valueKind k && typeIDShapeOk id && plainOkVs vs
  | v => scalarOk v
def plainOkVs : Values → Bool
  | .nil => true | .cons v r => plainOk v && plainOkVs r
def plainOkPs : Pairs → Bool
  | .nil => true | .cons k v r => plainOk k && plainOk v && plainOkPs r
end

theorem prepare_isObj (v : CValue) (h : plainOk v = true) : ∃ kvs, prepare v = .obj kvs := by
  cases v <;> first | (simp [prepare, vobj]; done) | (simp [plainOk, scalarOk] at h)

theorem decode_some_step (x : Json) (kvs) (hx : x = .obj kvs) :
    decodeValue (.obj [("value", x), ("type", .str "Optional")]) = (do let y ← decodeValue x; pure (.some y)) := by
  subst hx
  rw [decodeValue]
  simp [getKey, lookupSub, toStr, bind, Except.bind, pure, Except.pure]

theorem decode_arr_step (xs : List Json) :
    decodeValue (.obj [("value", .arr xs), ("type", .str "Array")]) = (do let vs ← decodeValuesList xs; pure (.arr .nil vs)) := by
  rw [decodeValue]
  simp [getKey, lookupSub, toStr, bind, Except.bind, pure, Except.pure, isIntKind, isFixKind, intRange, fixInfo, asArr]

theorem decode_dict_step (xs : List Json) :
    decodeValue (.obj [("value", .arr xs), ("type", .str "Dictionary")]) = (do let ps ← decodePairsList xs; pure (.dict .nil ps)) := by
  rw [decodeValue]
  simp [getKey, lookupSub, toStr, bind, Except.bind, pure, Except.pure, isIntKind, isFixKind, intRange, fixInfo, asArr]

theorem decode_range_step (s e p : Json) :
    decodeValue (.obj [("value", .obj [("start", s), ("end", e), ("step", p)]), ("type", .str "InclusiveRange")]) =
      (do let a ← decodeValue s; let b ← decodeValue e; let c ← decodeValue p; pure (.range (.range a.typeOf) a b c)) := by
  rw [decodeValue]
  simp [getKey, lookupSub, toStr, bind, Except.bind, pure, Except.pure, isIntKind, isFixKind, intRange, fixInfo, asObj]

theorem decodeValuesList_cons (x : Json) (r : List Json) :
    decodeValuesList (x :: r) = (do let v ← decodeValue x; let vs ← decodeValuesList r; pure (.cons v vs)) := by
  rw [decodeValuesList]

theorem decodePairsList_cons (k v : Json) (r : List Json) :
    decodePairsList (.obj [("key", k), ("value", v)] :: r) =
      (do let a ← decodeValue k; let b ← decodeValue v; let ps ← decodePairsList r; pure (.cons a b ps)) := by
  rw [decodePairsList]
  simp [getKey, lookupSub, bind, Except.bind, pure, Except.pure, asObj]

def isLeaf : CValue → Bool
  | .some _ | .arr _ _ | .dict _ _ | .range _ _ _ _ | .comp _ _ => false
  | _ => true

theorem rt_plain_leaf (v : CValue) (h : plainOk v = true) (hl : isLeaf v = true) :
    decodeValue (prepare v) = .ok (erase v) := by
  have hs : scalarOk v = true := by
    cases v <;> simp [isLeaf] at hl <;> simpa [plainOk] using h
  rw [erase_scalar v hs]; exact rt_scalar v hs

mutual
theorem rt_plain : ∀ v : CValue, plainOk v = true → decodeValue (prepare v) = .ok (erase v)
  | .some v, h => by
    simp only [plainOk] at h
    obtain ⟨kvs, hk⟩ := prepare_isObj v h
    simp only [prepare, vobj, erase]
    rw [decode_some_step _ kvs hk, rt_plain v h]; rfl
  | .arr t vs, h => by
    simp only [plainOk] at h
    simp only [prepare, vobj, erase]
    rw [decode_arr_step, rt_plainVs vs h]; rfl
  | .dict t kvs, h => by
    simp only [plainOk] at h
    simp only [prepare, vobj, erase]
    rw [decode_dict_step, rt_plainPs kvs h]; rfl
  | .range t s e p, h => by
    simp only [plainOk, Bool.and_eq_true] at h
    simp only [prepare, vobj, erase]
    rw [decode_range_step, rt_plain s h.1.1, rt_plain e h.1.2, rt_plain p h.2]; rfl
  | .nilv, h => rt_plain_leaf _ h rfl
  | .void, h => rt_plain_leaf _ h rfl
  | .none, h => rt_plain_leaf _ h rfl
  | .bool _, h => rt_plain_leaf _ h rfl
  | .str _, h => rt_plain_leaf _ h rfl
  | .char _, h => rt_plain_leaf _ h rfl
  | .addr _, h => rt_plain_leaf _ h rfl
  | .int _ _, h => rt_plain_leaf _ h rfl
  | .fix _ _, h => rt_plain_leaf _ h rfl
  | .path _ _, h => rt_plain_leaf _ h rfl
  | .cap _ _ _, h => rt_plain_leaf _ h rfl
  | .type _, h => rt_plain_leaf _ h rfl
  | .func _, h => rt_plain_leaf _ h rfl
  | .comp t vs, h => by
    cases t with
    | comp k id e fs is =>
      simp only [plainOk, Bool.and_eq_true] at h
      simp only [prepare, vobj, compValueKind, compTypeID, compFields, erase]
      rw [decode_comp_step k h.1.1, decodeCompositeTypeID_ok id h.1.2, rt_plainFs vs fs h.2]; rfl
    | _ => simp [plainOk, scalarOk] at h
theorem rt_plainVs : ∀ vs : Values, plainOkVs vs = true → decodeValuesList (prepareValues vs) = .ok (eraseValues vs)
  | .nil, _ => by simp only [prepareValues, eraseValues]; rw [decodeValuesList]; rfl
  | .cons v r, h => by
    simp only [plainOkVs, Bool.and_eq_true] at h
    simp only [prepareValues, eraseValues]
    rw [decodeValuesList_cons, rt_plain v h.1, rt_plainVs r h.2]; rfl
theorem rt_plainFs : ∀ (vs : Values) (fs : Fields), plainOkVs vs = true →
    decodeCompFieldsList (prepareCompFields fs vs) = .ok (zipFieldTypes fs (eraseValues vs), eraseValues vs)
  | .nil, _, _ => by simp only [prepareCompFields, eraseValues, zipFieldTypes]; rw [decodeCompFieldsList]; rfl
  | .cons v r, fs, h => by
    simp only [plainOkVs, Bool.and_eq_true] at h
    simp only [prepareCompFields, eraseValues, zipFieldTypes]
    rw [decodeCompFieldsList_cons, rt_plain v h.1, rt_plainFs r (fieldsTail fs) h.2]; rfl
theorem rt_plainPs : ∀ kvs : Pairs, plainOkPs kvs = true → decodePairsList (preparePairs kvs) = .ok (erasePairs kvs)
  | .nil, _ => by simp only [preparePairs, erasePairs]; rw [decodePairsList]; rfl
  | .cons k v r, h => by
    simp only [plainOkPs, Bool.and_eq_true] at h
    simp only [preparePairs, erasePairs]
    rw [decodePairsList_cons, rt_plain k h.1.1, rt_plain v h.1.2, rt_plainPs r h.2]; rfl
end

/-! ### round trips of types without composite types, type values and capabilities -/

def reservedKind (id : String) : Bool :=
  id == "Function" || id == "Intersection" || id == "Optional" || id == "Restriction" || id == "VariableSizedArray" ||
  id == "Capability" || id == "Dictionary" || id == "InclusiveRange" || id == "ConstantSizedArray" || id == "Reference"

/-- types built from simple types with optionals, arrays, dictionaries, ranges, capabilities and
unauthorized references -/
def simpleT : CType → Bool
  | .nil => true
  | .prim id => isSimpleTypeName id && !reservedKind id
  | .opt t | .varr t | .range t | .cap t => simpleT t
  | .carr n t => decide (n < 2 ^ 53) && simpleT t
  | .dict k v => simpleT k && simpleT v
  | .ref .unauth t => simpleT t
  | _ => false

theorem decodeType_prim (id : String) (h1 : isSimpleTypeName id = true) (h2 : reservedKind id = false) (rs : Results) :
    decodeType (.obj [("kind", .str id)]) rs = .ok (.prim id, rs) := by
  rw [decodeType]
  simp only [reservedKind, Bool.or_eq_false_iff] at h2
  simp [getKey, lookupSub, toStr, bind, Except.bind, pure, Except.pure, h1, h2]

theorem decodeType_unary (k : String) (x : Json) (rs : Results) (c : CType → CType)
    (hk : (k = "Optional" ∧ c = CType.opt) ∨ (k = "VariableSizedArray" ∧ c = CType.varr) ∨ (k = "Capability" ∧ c = CType.cap)) :
    decodeType (.obj [("type", x), ("kind", .str k)]) rs = (do let (t, rs) ← decodeType x rs; pure (c t, rs)) := by
  rw [decodeType]
  rcases hk with ⟨rfl, rfl⟩ | ⟨rfl, rfl⟩ | ⟨rfl, rfl⟩ <;>
    simp [getKey, lookupSub, toStr, bind, Except.bind, pure, Except.pure]

theorem decodeType_range (x : Json) (rs : Results) :
    decodeType (.obj [("element", x), ("kind", .str "InclusiveRange")]) rs = (do let (t, rs) ← decodeType x rs; pure (.range t, rs)) := by
  rw [decodeType]
  simp [getKey, lookupSub, toStr, bind, Except.bind, pure, Except.pure]

theorem decodeType_carr (n : Nat) (hn : n < 2 ^ 53) (x : Json) (rs : Results) :
    decodeType (.obj [("type", x), ("kind", .str "ConstantSizedArray"), ("size", .num n)]) rs =
      (do let (t, rs) ← decodeType x rs; pure (.carr n t, rs)) := by
  rw [decodeType]
  simp [getKey, lookupSub, toStr, toUIntJ, hn, bind, Except.bind, pure, Except.pure]

theorem decodeType_dict (x y : Json) (rs : Results) :
    decodeType (.obj [("key", x), ("value", y), ("kind", .str "Dictionary")]) rs =
      (do let (k, rs) ← decodeType x rs; let (v, rs) ← decodeType y rs; pure (.dict k v, rs)) := by
  rw [decodeType]
  simp [getKey, lookupSub, toStr, bind, Except.bind, pure, Except.pure]

theorem decodeType_ref_unauth (x : Json) (rs : Results) :
    decodeType (.obj [("type", x), ("kind", .str "Reference"), ("authorization", prepareAuth .unauth)]) rs =
      (do let (t, rs) ← decodeType x rs; pure (.ref .unauth t, rs)) := by
  rw [decodeType]
  simp [getKey, lookupSub, toStr, bind, Except.bind, pure, Except.pure, prepareAuth, decodeAuth]

theorem decodeType_nil (rs : Results) : decodeType (.str "") rs = .ok (.nil, rs) := by
  rw [decodeType]; simp [pure, Except.pure]

/-- encoding a type without composite types does not change the `results` table, and decoding the
encoding returns the type and leaves the decoder's table unchanged -/
theorem simpleT_rt : ∀ (t : CType), simpleT t = true → ∀ (ps : PResults) (rs : Results),
    (prepareTypeR t ps).2 = ps ∧ decodeType (prepareTypeR t ps).1 rs = .ok (t, rs)
  | .nil, _, ps, rs => by simp [prepareTypeR, decodeType_nil]
  | .prim id, h, ps, rs => by
    simp only [simpleT, Bool.and_eq_true, Bool.not_eq_true'] at h
    simp [prepareTypeR, decodeType_prim id h.1 h.2]
  | .opt t, h, ps, rs => by
    simp only [simpleT] at h
    have ih := simpleT_rt t h ps rs
    simp only [prepareTypeR]
    refine ⟨ih.1, ?_⟩
    rw [decodeType_unary "Optional" _ rs CType.opt (.inl ⟨rfl, rfl⟩), ih.2]; rfl
  | .varr t, h, ps, rs => by
    simp only [simpleT] at h
    have ih := simpleT_rt t h ps rs
    simp only [prepareTypeR]
    refine ⟨ih.1, ?_⟩
    rw [decodeType_unary "VariableSizedArray" _ rs CType.varr (.inr (.inl ⟨rfl, rfl⟩)), ih.2]; rfl
  | .cap t, h, ps, rs => by
    simp only [simpleT] at h
    have ih := simpleT_rt t h ps rs
    simp only [prepareTypeR]
    refine ⟨ih.1, ?_⟩
    rw [decodeType_unary "Capability" _ rs CType.cap (.inr (.inr ⟨rfl, rfl⟩)), ih.2]; rfl
  | .range t, h, ps, rs => by
    simp only [simpleT] at h
    have ih := simpleT_rt t h ps rs
    simp only [prepareTypeR]
    refine ⟨ih.1, ?_⟩
    rw [decodeType_range, ih.2]; rfl
  | .carr n t, h, ps, rs => by
    simp only [simpleT, Bool.and_eq_true, decide_eq_true_eq] at h
    have ih := simpleT_rt t h.2 ps rs
    simp only [prepareTypeR]
    refine ⟨ih.1, ?_⟩
    rw [decodeType_carr n h.1, ih.2]; rfl
  | .dict k v, h, ps, rs => by
    simp only [simpleT, Bool.and_eq_true] at h
    have ihk := simpleT_rt k h.1 ps rs
    have ihv := simpleT_rt v h.2 (prepareTypeR k ps).2 rs
    simp only [prepareTypeR]
    rw [ihk.1] at ihv
    refine ⟨by rw [ihk.1]; exact ihv.1, ?_⟩
    rw [decodeType_dict, ihk.2]
    simp only [bind, Except.bind]
    rw [ihk.1, ihv.2]; rfl
  | .ref a t, h, ps, rs => by
    cases a <;> simp only [simpleT, Bool.false_eq_true] at h
    have ih := simpleT_rt t h ps rs
    simp only [prepareTypeR]
    refine ⟨ih.1, ?_⟩
    rw [decodeType_ref_unauth, ih.2]; rfl
  | .inter _, h, _, _ | .func _ _ _ _, h, _, _ | .comp _ _ _ _ _, h, _, _ | .seen _, h, _, _ => by simp [simpleT] at h

theorem decodeTypeTop_prepareType (t : CType) (h : simpleT t = true) : decodeTypeTop (prepareType t) = .ok t := by
  unfold decodeTypeTop prepareType
  rw [(simpleT_rt t h [] []).2]; rfl

theorem rt_typeValue (t : CType) (h : simpleT t = true) : decode (prepare (.type t)) = .ok (erase (.type t)) := by
  simp only [decode, prepare, vobj, erase]
  rw [decodeValue]
  simp [getKey, lookupSub, toStr, bind, Except.bind, pure, Except.pure, isIntKind, isFixKind, intRange, fixInfo, asObj,
    decodeTypeTop_prepareType t h]

theorem decodeIntKind_uint64 (n : Nat) (h : n < 2 ^ 64) : decodeIntKind "UInt64" (.str (showNat n)) = .ok (.int "UInt64" n) := by
  have hk : intKindOk "UInt64" (n : Int) = true := by
    simp [intKindOk, intRange, inRange]; omega
  have := decodeIntKind_show "UInt64" (n : Int) hk
  have hs : showInt (n : Int) = showNat n := by simp [showInt, showNat]
  rw [hs] at this; exact this

theorem rt_capability (id : Nat) (a : List UInt8) (t : CType) (hid : id < 2 ^ 64) (ha : a.length = 8) (h : simpleT t = true) :
    decode (prepare (.cap id a t)) = .ok (erase (.cap id a t)) := by
  simp only [decode, prepare, vobj, erase]
  rw [decodeValue]
  simp [getKey, lookupSub, toStr, bind, Except.bind, pure, Except.pure, isIntKind, isFixKind, intRange, fixInfo, asObj,
    decodeTypeTop_prepareType t h, decodeAddr_addrJson a ha, hasKey, decodeIntKind_uint64 id hid]

end Verif.Proofs.Codec.Json
