import Verif.Model.Codec.Json
/-! Lemmas for property C41 (JSON-Cadence): text round trips, erasure. -/
namespace Verif.Proofs.Codec.Json
open Verif.Model.Codec

/-! ### decimal text -/

theorem parseDigits_toDigits (n : Nat) : parseDigits (Nat.toDigits 10 n) = some n := by
  unfold parseDigits
  have h1 : (Nat.toDigits 10 n).isEmpty = false := by
    cases h : Nat.toDigits 10 n with
    | nil => exact absurd h Nat.toDigits_ne_nil
    | cons _ _ => rfl
  have h2 : (Nat.toDigits 10 n).all Char.isDigit = true := by
    rw [List.all_eq_true]; intro c hc
    exact Nat.isDigit_of_mem_toDigits (by decide) (by decide) hc
  simp [h1, h2]

theorem parseDigits_repr (n : Nat) : parseDigits (Nat.repr n).toList = some n := by
  rw [Nat.toList_repr]; exact parseDigits_toDigits n

theorem goParseNat_showNat (n : Nat) : goParseNat (showNat n) = some n := by
  unfold goParseNat showNat; exact parseDigits_repr n

theorem toDigits_head_digit (n : Nat) : ∃ c cs, Nat.toDigits 10 n = c :: cs ∧ c.isDigit = true := by
  cases h : Nat.toDigits 10 n with
  | nil => exact absurd h Nat.toDigits_ne_nil
  | cons c cs =>
    refine ⟨c, cs, rfl, ?_⟩
    exact Nat.isDigit_of_mem_toDigits (b := 10) (n := n) (by decide) (by decide) (by rw [h]; simp)

theorem goParseInt_showInt (n : Int) : goParseInt (showInt n) = some n := by
  by_cases h : n < 0
  · have : (showInt n).toList = '-' :: Nat.toDigits 10 n.natAbs := by
      simp [showInt, h, Nat.toList_repr]
    unfold goParseInt; rw [this]
    simp only [parseDigits_toDigits, Option.map_some]
    congr 1; simp only [Int.ofNat_eq_natCast]; omega
  · have : (showInt n).toList = Nat.toDigits 10 n.natAbs := by
      simp [showInt, h, Nat.toList_repr]
    unfold goParseInt; rw [this]
    obtain ⟨c, cs, hcs, hd⟩ := toDigits_head_digit n.natAbs
    have hp := parseDigits_toDigits n.natAbs
    rw [hcs] at hp ⊢
    have h1 : c ≠ '+' := by intro e; subst e; simp [Char.isDigit] at hd
    have h2 : c ≠ '-' := by intro e; subst e; simp [Char.isDigit] at hd
    split
    · rename_i heq; injection heq with a b; exact absurd a h1
    · rename_i heq; injection heq with a b; exact absurd a h2
    · simp only [hp, Option.map_some]; congr 1; simp only [Int.ofNat_eq_natCast]; omega

/-! ### hexadecimal text -/

theorem hexVal_hexDigit : ∀ n : Fin 16, hexVal (hexDigit n.val) = some n.val := by decide

theorem hexDecode_hexEncode : ∀ bs : List UInt8, hexDecode (hexEncode bs) = some bs
  | [] => rfl
  | b :: bs => by
    have h1 := hexVal_hexDigit ⟨b.toNat / 16, by have := b.toNat_lt; omega⟩
    have h2 := hexVal_hexDigit ⟨b.toNat % 16, by omega⟩
    simp only at h1 h2
    simp only [hexEncode, hexDecode, h1, h2, hexDecode_hexEncode bs]
    congr 2
    rw [Nat.div_add_mod']
    exact UInt8.ofNat_toNat

/-! ### erasure -/

@[simp] theorem fieldNameAt_cons (n t r) : fieldNameAt (.cons n t r) = n := rfl
@[simp] theorem fieldsTail_cons (n t r) : fieldsTail (.cons n t r) = r := rfl

/-- the names written for the values only depend on the names of the declared fields -/
theorem prepareCompFields_zip : ∀ (vs : Values) (fs : Fields) (ws : Values), ws.length = vs.length →
    prepareCompFields (zipFieldTypes fs vs) ws = prepareCompFields fs ws
  | .nil, fs, .nil, _ => by simp [prepareCompFields]
  | .nil, fs, .cons _ _, h => by simp [Values.length] at h
  | .cons v r, fs, .nil, h => by simp [Values.length] at h
  | .cons v r, fs, .cons w ws, h => by
    simp only [zipFieldTypes, prepareCompFields, fieldNameAt_cons, fieldsTail_cons]
    rw [prepareCompFields_zip r (fieldsTail fs) ws (by simpa [Values.length] using h)]

theorem eraseValues_length : ∀ vs : Values, (eraseValues vs).length = vs.length
  | .nil => rfl
  | .cons _ r => by simp [eraseValues, Values.length, eraseValues_length r]

mutual
theorem prepare_erase : ∀ v : CValue, prepare (erase v) = prepare v
  | .nilv | .void | .none | .bool _ | .str _ | .char _ | .addr _ | .int _ _ | .fix _ _
  | .path _ _ | .cap _ _ _ | .type _ | .func _ => by simp [erase]
  | .some v => by simp [erase, prepare, prepare_erase v]
  | .arr t vs => by simp [erase, prepare, prepareValues_erase vs]
  | .dict t kvs => by simp [erase, prepare, preparePairs_erase kvs]
  | .range t s e p => by simp [erase, prepare, prepare_erase s, prepare_erase e, prepare_erase p]
  | .comp t vs => by
    cases t <;> simp [erase, prepare, compValueKind, compTypeID, compFields, prepareCompFields_erase vs]
    rw [prepareCompFields_zip _ _ _ (eraseValues_length vs).symm]
theorem prepareValues_erase : ∀ vs : Values, prepareValues (eraseValues vs) = prepareValues vs
  | .nil => by simp [eraseValues]
  | .cons v r => by simp [eraseValues, prepareValues, prepare_erase v, prepareValues_erase r]
theorem preparePairs_erase : ∀ kvs : Pairs, preparePairs (erasePairs kvs) = preparePairs kvs
  | .nil => by simp [erasePairs]
  | .cons k v r => by simp [erasePairs, preparePairs, prepare_erase k, prepare_erase v, preparePairs_erase r]
theorem prepareCompFields_erase : ∀ (vs : Values) (fs : Fields), prepareCompFields fs (eraseValues vs) = prepareCompFields fs vs
  | .nil, fs => by simp [eraseValues, prepareCompFields]
  | .cons v r, fs => by simp [eraseValues, prepareCompFields, prepare_erase v, prepareCompFields_erase r]
end

/-! ### round trips of scalar values -/

theorem rt_void : decode (prepare .void) = .ok .void := by
  simp only [decode, prepare]; rw [decodeValue]
  simp [getKey, lookupSub, toStr, bind, Except.bind, pure, Except.pure]

theorem rt_none : decode (prepare .none) = .ok .none := by
  simp only [decode, prepare, vobj]; rw [decodeValue]
  simp [getKey, lookupSub, toStr, bind, Except.bind, pure, Except.pure]

theorem rt_path (d i : String) (h : validDomain d = true) : decode (prepare (.path d i)) = .ok (.path d i) := by
  simp only [decode, prepare, vobj]; rw [decodeValue]
  simp [getKey, lookupSub, toStr, bind, Except.bind, pure, Except.pure, isIntKind, isFixKind, intRange, fixInfo, asObj, h]

theorem decodeAddr_addrJson (bs : List UInt8) (h : bs.length = 8) : decodeAddr (addrJson bs) = .ok bs := by
  simp [decodeAddr, addrJson, hexDecode_hexEncode, h]

theorem rt_addr (bs : List UInt8) (h : bs.length = 8) : decode (prepare (.addr bs)) = .ok (.addr bs) := by
  simp only [decode, prepare, vobj]; rw [decodeValue]
  simp [getKey, lookupSub, toStr, bind, Except.bind, pure, Except.pure, decodeAddr_addrJson bs h]

theorem rt_char (s : String) (h : s.length = 1) : decode (prepare (.char s)) = .ok (.char s) := by
  simp only [decode, prepare, vobj]; rw [decodeValue]
  simp [getKey, lookupSub, toStr, bind, Except.bind, pure, Except.pure, h]

theorem showInt_nonneg (n : Int) (h : 0 ≤ n) : showInt n = Nat.repr n.natAbs := by
  simp [showInt, Int.not_lt.mpr h]

theorem decodeIntKind_show (k : String) (n : Int) (h : intKindOk k n = true) :
    decodeIntKind k (.str (showInt n)) = .ok (.int k n) := by
  unfold decodeIntKind
  simp only [toStr, bind, Except.bind]
  by_cases hu : usesParseUint k = true
  · -- unsigned fixed-width kinds: the value is non-negative
    have hn : 0 ≤ n := by
      simp only [usesParseUint, Bool.or_eq_true, beq_iff_eq] at hu
      rcases hu with ((((((h1 | h1) | h1) | h1) | h1) | h1) | h1) | h1 <;> subst h1 <;>
        simp [intKindOk, intRange, inRange] at h <;> omega
    simp only [hu, if_true, showInt_nonneg n hn, goParseNat, parseDigits_repr, Option.map_some]
    have : (n.natAbs : Int) = n := by omega
    simp only [Int.ofNat_eq_natCast, this, h, if_true, pure, Except.pure]
  · simp only [hu, goParseInt_showInt]
    simp [h, pure, Except.pure]

theorem intKind_names (k : String) (r) (h : intRange k = some r) :
    k = "Int" ∨ k = "Int8" ∨ k = "Int16" ∨ k = "Int32" ∨ k = "Int64" ∨ k = "Int128" ∨ k = "Int256" ∨
    k = "UInt" ∨ k = "UInt8" ∨ k = "UInt16" ∨ k = "UInt32" ∨ k = "UInt64" ∨ k = "UInt128" ∨ k = "UInt256" ∨
    k = "Word8" ∨ k = "Word16" ∨ k = "Word32" ∨ k = "Word64" ∨ k = "Word128" ∨ k = "Word256" := by
  unfold intRange at h
  split at h <;> simp_all

theorem rt_int (k : String) (n : Int) (h : intKindOk k n = true) :
    decode (prepare (.int k n)) = .ok (.int k n) := by
  have hk : ∃ r, intRange k = some r := by
    unfold intKindOk at h; split at h
    · exact ⟨_, by assumption⟩
    · simp at h
  obtain ⟨r, hr⟩ := hk
  have hd := decodeIntKind_show k n h
  simp only [decode, prepare, vobj]; rw [decodeValue]
  rcases intKind_names k r hr with h1 | h1 | h1 | h1 | h1 | h1 | h1 | h1 | h1 | h1 | h1 | h1 | h1 | h1 | h1 | h1 | h1 | h1 | h1 | h1 <;>
    subst h1 <;>
    simp [getKey, lookupSub, toStr, bind, Except.bind, pure, Except.pure, isIntKind, intRange, hd]

/-- scalar values in the domain of the JSON-Cadence round-trip theorem proved so far -/
def scalarOk : CValue → Bool
  | .void | .none | .bool _ | .str _ => true
  | .char s => s.length == 1
  | .addr bs => bs.length == 8
  | .int k n => intKindOk k n
  | .path d _ => validDomain d
  | _ => false

theorem rt_bool (b : Bool) : decode (prepare (.bool b)) = .ok (.bool b) := by
  simp only [decode, prepare, vobj]; rw [decodeValue]
  simp [getKey, lookupSub, toStr, toBoolJ, bind, Except.bind, pure, Except.pure]

theorem rt_str (s : String) : decode (prepare (.str s)) = .ok (.str s) := by
  simp only [decode, prepare, vobj]; rw [decodeValue]
  simp [getKey, lookupSub, toStr, bind, Except.bind, pure, Except.pure]

theorem rt_scalar (v : CValue) (h : scalarOk v = true) : decode (prepare v) = .ok v := by
  cases v <;> simp [scalarOk] at h
  · exact rt_void
  · exact rt_none
  · exact rt_bool _
  · exact rt_str _
  · exact rt_char _ h
  · exact rt_addr _ h
  · exact rt_int _ _ h
  · exact rt_path _ _ h

theorem erase_scalar (v : CValue) (h : scalarOk v = true) : erase v = v := by
  cases v <;> simp [scalarOk] at h <;> simp [erase]

/-! ### round trips of optionals, arrays, dictionaries, ranges and composite values -/


def valueKind (k : CompKind) : Bool :=
  match k with
  | .struct | .resource | .event | .contract | .enum => true
  | _ => false

theorem decode_comp_step (k : CompKind) (hk : valueKind k = true) (id : String) (xs : List Json) :
    decodeValue (.obj [("value", .obj [("id", .str id), ("fields", .arr xs)]), ("type", .str k.jsonKind)]) =
      (do let i ← decodeCompositeTypeID (.str id)
          let (fs, vs) ← decodeCompFieldsList xs
          pure (.comp (.comp k i .nil fs (if k == .event then .cons .nil .nil else .nil)) vs)) := by
  rw [decodeValue]
  cases k <;> simp [valueKind] at hk <;>
    simp [CompKind.jsonKind, getKey, lookupSub, toStr, bind, Except.bind, pure, Except.pure, isIntKind, isFixKind,
      intRange, fixInfo, asArr, asObj] <;> rfl

theorem decodeCompFieldsList_cons (x : Json) (n : String) (r : List Json) :
    decodeCompFieldsList (.obj [("value", x), ("name", .str n)] :: r) =
      (do let v ← decodeValue x; let (fs, vs) ← decodeCompFieldsList r; pure (.cons n v.typeOf fs, .cons v vs)) := by
  rw [decodeCompFieldsList]
  simp [getKey, lookupSub, toStr, bind, Except.bind, pure, Except.pure, asObj]

theorem decodeCompositeTypeID_ok (id : String) (h : typeIDShapeOk id = true) : decodeCompositeTypeID (.str id) = .ok id := by
  simp [decodeCompositeTypeID, toStr, bind, Except.bind, h, pure, Except.pure]



mutual
/-- values built from scalars with optionals, arrays, dictionaries and ranges -/
def plainOk : CValue → Bool
  | .some v => plainOk v
  | .arr _ vs => plainOkVs vs
  | .dict _ kvs => plainOkPs kvs
  | .range _ s e p => plainOk s && plainOk e && plainOk p
  | .comp (.comp k id _ _ _) vs => valueKind k && typeIDShapeOk id && plainOkVs vs
  | v => scalarOk v
def plainOkVs : Values → Bool
  | .nil => true | .cons v r => plainOk v && plainOkVs r
def plainOkPs : Pairs → Bool
  | .nil => true | .cons k v r => plainOk k && plainOk v && plainOkPs r
end

theorem prepare_isObj (v : CValue) (h : plainOk v = true) : ∃ kvs, prepare v = .obj kvs := by
  cases v <;> first | (simp [prepare, vobj]; done) | (simp [plainOk, scalarOk] at h)

theorem decode_some_step (x : Json) (kvs) (hx : x = .obj kvs) :
    decodeValue (.obj [("value", x), ("type", .str "Optional")]) = (do let y ← decodeValue x; pure (.some y)) := by
  subst hx
  rw [decodeValue]
  simp [getKey, lookupSub, toStr, bind, Except.bind, pure, Except.pure]

theorem decode_arr_step (xs : List Json) :
    decodeValue (.obj [("value", .arr xs), ("type", .str "Array")]) = (do let vs ← decodeValuesList xs; pure (.arr .nil vs)) := by
  rw [decodeValue]
  simp [getKey, lookupSub, toStr, bind, Except.bind, pure, Except.pure, isIntKind, isFixKind, intRange, fixInfo, asArr]

theorem decode_dict_step (xs : List Json) :
    decodeValue (.obj [("value", .arr xs), ("type", .str "Dictionary")]) = (do let ps ← decodePairsList xs; pure (.dict .nil ps)) := by
  rw [decodeValue]
  simp [getKey, lookupSub, toStr, bind, Except.bind, pure, Except.pure, isIntKind, isFixKind, intRange, fixInfo, asArr]

theorem decode_range_step (s e p : Json) :
    decodeValue (.obj [("value", .obj [("start", s), ("end", e), ("step", p)]), ("type", .str "InclusiveRange")]) =
      (do let a ← decodeValue s; let b ← decodeValue e; let c ← decodeValue p; pure (.range (.range a.typeOf) a b c)) := by
  rw [decodeValue]
  simp [getKey, lookupSub, toStr, bind, Except.bind, pure, Except.pure, isIntKind, isFixKind, intRange, fixInfo, asObj]

theorem decodeValuesList_cons (x : Json) (r : List Json) :
    decodeValuesList (x :: r) = (do let v ← decodeValue x; let vs ← decodeValuesList r; pure (.cons v vs)) := by
  rw [decodeValuesList]

theorem decodePairsList_cons (k v : Json) (r : List Json) :
    decodePairsList (.obj [("key", k), ("value", v)] :: r) =
      (do let a ← decodeValue k; let b ← decodeValue v; let ps ← decodePairsList r; pure (.cons a b ps)) := by
  rw [decodePairsList]
  simp [getKey, lookupSub, bind, Except.bind, pure, Except.pure, asObj]

def isLeaf : CValue → Bool
  | .some _ | .arr _ _ | .dict _ _ | .range _ _ _ _ | .comp _ _ => false
  | _ => true

theorem rt_plain_leaf (v : CValue) (h : plainOk v = true) (hl : isLeaf v = true) :
    decodeValue (prepare v) = .ok (erase v) := by
  have hs : scalarOk v = true := by
    cases v <;> simp [isLeaf] at hl <;> simpa [plainOk] using h
  rw [erase_scalar v hs]; exact rt_scalar v hs

mutual
theorem rt_plain : ∀ v : CValue, plainOk v = true → decodeValue (prepare v) = .ok (erase v)
  | .some v, h => by
    simp only [plainOk] at h
    obtain ⟨kvs, hk⟩ := prepare_isObj v h
    simp only [prepare, vobj, erase]
    rw [decode_some_step _ kvs hk, rt_plain v h]; rfl
  | .arr t vs, h => by
    simp only [plainOk] at h
    simp only [prepare, vobj, erase]
    rw [decode_arr_step, rt_plainVs vs h]; rfl
  | .dict t kvs, h => by
    simp only [plainOk] at h
    simp only [prepare, vobj, erase]
    rw [decode_dict_step, rt_plainPs kvs h]; rfl
  | .range t s e p, h => by
    simp only [plainOk, Bool.and_eq_true] at h
    simp only [prepare, vobj, erase]
    rw [decode_range_step, rt_plain s h.1.1, rt_plain e h.1.2, rt_plain p h.2]; rfl
  | .nilv, h => rt_plain_leaf _ h rfl
  | .void, h => rt_plain_leaf _ h rfl
  | .none, h => rt_plain_leaf _ h rfl
  | .bool _, h => rt_plain_leaf _ h rfl
  | .str _, h => rt_plain_leaf _ h rfl
  | .char _, h => rt_plain_leaf _ h rfl
  | .addr _, h => rt_plain_leaf _ h rfl
  | .int _ _, h => rt_plain_leaf _ h rfl
  | .fix _ _, h => rt_plain_leaf _ h rfl
  | .path _ _, h => rt_plain_leaf _ h rfl
  | .cap _ _ _, h => rt_plain_leaf _ h rfl
  | .type _, h => rt_plain_leaf _ h rfl
  | .func _, h => rt_plain_leaf _ h rfl
  | .comp t vs, h => by
    cases t with
    | comp k id e fs is =>
      simp only [plainOk, Bool.and_eq_true] at h
      simp only [prepare, vobj, compValueKind, compTypeID, compFields, erase]
      rw [decode_comp_step k h.1.1, decodeCompositeTypeID_ok id h.1.2, rt_plainFs vs fs h.2]; rfl
    | _ => simp [plainOk, scalarOk] at h
theorem rt_plainVs : ∀ vs : Values, plainOkVs vs = true → decodeValuesList (prepareValues vs) = .ok (eraseValues vs)
  | .nil, _ => by simp only [prepareValues, eraseValues]; rw [decodeValuesList]; rfl
  | .cons v r, h => by
    simp only [plainOkVs, Bool.and_eq_true] at h
    simp only [prepareValues, eraseValues]
    rw [decodeValuesList_cons, rt_plain v h.1, rt_plainVs r h.2]; rfl
theorem rt_plainFs : ∀ (vs : Values) (fs : Fields), plainOkVs vs = true →
    decodeCompFieldsList (prepareCompFields fs vs) = .ok (zipFieldTypes fs (eraseValues vs), eraseValues vs)
  | .nil, _, _ => by simp only [prepareCompFields, eraseValues, zipFieldTypes]; rw [decodeCompFieldsList]; rfl
  | .cons v r, fs, h => by
    simp only [plainOkVs, Bool.and_eq_true] at h
    simp only [prepareCompFields, eraseValues, zipFieldTypes]
    rw [decodeCompFieldsList_cons, rt_plain v h.1, rt_plainFs r (fieldsTail fs) h.2]; rfl
theorem rt_plainPs : ∀ kvs : Pairs, plainOkPs kvs = true → decodePairsList (preparePairs kvs) = .ok (erasePairs kvs)
  | .nil, _ => by simp only [preparePairs, erasePairs]; rw [decodePairsList]; rfl
  | .cons k v r, h => by
    simp only [plainOkPs, Bool.and_eq_true] at h
    simp only [preparePairs, erasePairs]
    rw [decodePairsList_cons, rt_plain k h.1.1, rt_plain v h.1.2, rt_plainPs r h.2]; rfl
end

end Verif.Proofs.Codec.Json
