import Verif.Model.Codec.Cbor
/-! Helper lemmas for C42: the CBOR item layer of `Verif.Model.Codec.Cbor`
(`decodeItem (encode i ++ rest) = some (i, rest)` for well-formed items). -/
namespace Verif.Proofs.Codec.CborRt
open Verif.Model.Codec Verif.Model.Codec.Cbor

theorem length_beBytes (k n : Nat) : (beBytes k n).length = k := by
  induction k with
  | zero => simp [beBytes]
  | succ k ih => simp [beBytes, ih]

theorem beNat_beBytes (k n : Nat) : beNat (beBytes k n) = n % 256 ^ k := by
  induction k with
  | zero => simp [beBytes, beNat, Nat.mod_one]
  | succ k ih =>
    simp only [beBytes, beNat, ih, length_beBytes]
    have h : (UInt8.ofNat (n / 256 ^ k % 256)).toNat = n / 256 ^ k % 256 := by
      simp [UInt8.toNat_ofNat']
    rw [h, Nat.mod_pow_succ, Nat.mul_comm]
    omega

theorem beNat_beBytes_of_lt {k n : Nat} (h : n < 256 ^ k) : beNat (beBytes k n) = n := by
  rw [beNat_beBytes, Nat.mod_eq_of_lt h]

theorem take_beBytes_append (k n : Nat) (rest : List UInt8) : (beBytes k n ++ rest).take k = beBytes k n := by
  rw [List.take_append_of_le_length (by simp [length_beBytes])]
  simp [List.take_of_length_le, length_beBytes]

theorem drop_beBytes_append (k n : Nat) (rest : List UInt8) : (beBytes k n ++ rest).drop k = rest := by
  have := List.drop_append_of_le_length (l₁ := beBytes k n) (l₂ := rest) (i := k) (by simp [length_beBytes])
  simp [length_beBytes]

theorem tail_args {k arg : Nat} (rest : List UInt8) (h : arg < 256 ^ k) :
    beNat (List.take k (beBytes k arg ++ rest)) = arg ∧ List.drop k (beBytes k arg ++ rest) = rest := by
  rw [take_beBytes_append, drop_beBytes_append, beNat_beBytes_of_lt h]
  exact ⟨rfl, rfl⟩

theorem toNat_first {maj ai : Nat} (hm : maj < 8) (ha : ai < 32) :
    (UInt8.ofNat (maj * 32) + UInt8.ofNat ai).toNat = maj * 32 + ai := by
  simp [UInt8.toNat_add, UInt8.toNat_ofNat']
  omega

/-- the head reader inverts the shortest-form head writer -/
theorem readHead_head {maj arg : Nat} (rest : List UInt8) (hm : maj < 8) (ha : arg < 2 ^ 64) :
    readHead (head maj arg ++ rest) = some (maj, arg, rest) := by
  unfold head
  by_cases c1 : arg < 24
  · simp only [c1, if_true, List.cons_append, List.nil_append, readHead, toNat_first hm (show arg < 32 by omega)]
    have e1 : (maj * 32 + arg) / 32 = maj := by omega
    have e2 : (maj * 32 + arg) % 32 = arg := by omega
    simp [e1, e2, c1]
  · by_cases c2 : arg < 2 ^ 8
    · have hb : (UInt8.ofNat (maj * 32) + 24).toNat = maj * 32 + 24 := toNat_first hm (show 24 < 32 by omega)
      simp only [c1, c2, if_true, if_false, List.cons_append, readHead, hb]
      have e1 : (maj * 32 + 24) / 32 = maj := by omega
      have e2 : (maj * 32 + 24) % 32 = 24 := by omega
      simp only [e1, e2, List.length_append, length_beBytes]
      have hk := tail_args (k := 1) rest (show arg < 256 ^ 1 by simpa using c2)
      have : 24 ≤ arg := by omega
      have ht : (beBytes 1 arg ++ rest).tail = List.drop 1 (beBytes 1 arg ++ rest) := by simp
      simp [this, hk.1, hk.2, ht]
    · by_cases c3 : arg < 2 ^ 16
      · have hb : (UInt8.ofNat (maj * 32) + 25).toNat = maj * 32 + 25 := toNat_first hm (show 25 < 32 by omega)
        simp only [c1, c2, c3, if_true, if_false, List.cons_append, readHead, hb]
        have e1 : (maj * 32 + 25) / 32 = maj := by omega
        have e2 : (maj * 32 + 25) % 32 = 25 := by omega
        simp only [e1, e2, List.length_append, length_beBytes]
        have hk := tail_args (k := 2) rest (show arg < 256 ^ 2 by simpa using c3)
        have : 2 ^ 8 ≤ arg := by omega
        have ht : (beBytes 1 arg ++ rest).tail = List.drop 1 (beBytes 1 arg ++ rest) := by simp
        simp [this, hk.1, hk.2, ht]
      · by_cases c4 : arg < 2 ^ 32
        · have hb : (UInt8.ofNat (maj * 32) + 26).toNat = maj * 32 + 26 := toNat_first hm (show 26 < 32 by omega)
          simp only [c1, c2, c3, c4, if_true, if_false, List.cons_append, readHead, hb]
          have e1 : (maj * 32 + 26) / 32 = maj := by omega
          have e2 : (maj * 32 + 26) % 32 = 26 := by omega
          simp only [e1, e2, List.length_append, length_beBytes]
          have hk := tail_args (k := 4) rest (show arg < 256 ^ 4 by simpa using c4)
          have : 2 ^ 16 ≤ arg := by omega
          have ht : (beBytes 1 arg ++ rest).tail = List.drop 1 (beBytes 1 arg ++ rest) := by simp
          simp [this, hk.1, hk.2, ht]
        · have hb : (UInt8.ofNat (maj * 32) + 27).toNat = maj * 32 + 27 := toNat_first hm (show 27 < 32 by omega)
          simp only [c1, c2, c3, c4, if_true, if_false, List.cons_append, readHead, hb]
          have e1 : (maj * 32 + 27) / 32 = maj := by omega
          have e2 : (maj * 32 + 27) % 32 = 27 := by omega
          simp only [e1, e2, List.length_append, length_beBytes]
          have hk := tail_args (k := 8) rest (show arg < 256 ^ 8 by simpa using ha)
          have : 2 ^ 32 ≤ arg := by omega
          have ht : (beBytes 1 arg ++ rest).tail = List.drop 1 (beBytes 1 arg ++ rest) := by simp
          simp [this, hk.1, hk.2, ht]

theorem length_head_pos (maj arg : Nat) : 1 ≤ (head maj arg).length := by
  unfold head
  simp only []
  split <;> (try split) <;> (try split) <;> (try split) <;> simp

theorem bytesToStringOpt_toUTF8 (s : String) : bytesToStringOpt s.toUTF8.data.toList = some s := by
  unfold bytesToStringOpt String.fromUTF8?
  have h : s.toByteArray.IsValidUTF8 := s.isValidUTF8
  simp [h]
  rfl

mutual
theorem need_le (i : Cbor) : need i + 1 ≤ 2 * (encode i).length := by
  cases i with
  | uint n => simp only [need, encode]; have := length_head_pos 0 n; omega
  | nint n => simp only [need, encode]; have := length_head_pos 1 n; omega
  | bytes b => simp only [need, encode, List.length_append]; have := length_head_pos 2 b.length; omega
  | text s => simp only [need, encode, List.length_append]; have := length_head_pos 3 s.toUTF8.data.toList.length; omega
  | simple n => simp only [need, encode]; have := length_head_pos 7 n; omega
  | tag t x =>
    simp only [need, encode, List.length_append]
    have := length_head_pos 6 t
    have := need_le x
    omega
  | arr xs =>
    simp only [need, encode, List.length_append]
    have := length_head_pos 4 xs.length
    have := needList_le xs
    omega
theorem needList_le (xs : List Cbor) : needList xs ≤ 2 * (encodeList xs).length := by
  cases xs with
  | nil => simp [needList]
  | cons x xs =>
    simp only [needList, encodeList, List.length_append]
    have := need_le x
    have := needList_le xs
    omega
end

theorem length_encode_pos (x : Cbor) : 1 ≤ (encode x).length := by
  have := need_le x
  omega

/-- every item takes at least one byte, so an array of `n` items has at least `n` bytes -/
theorem length_le_encodeList (xs : List Cbor) : xs.length ≤ (encodeList xs).length := by
  induction xs with
  | nil => simp
  | cons x xs ih =>
    simp only [encodeList, List.length_append, List.length_cons]
    have := length_encode_pos x
    omega

mutual
theorem decodeItem_encode (i : Cbor) (f : Nat) (rest : List UInt8) (hw : i.wf = true) (hf : need i ≤ f) :
    decodeItem f (encode i ++ rest) = some (i, rest) := by
  cases f with
  | zero => cases i <;> simp [need] at hf
  | succ f =>
    cases i with
    | uint n =>
      simp only [Cbor.wf, decide_eq_true_eq] at hw
      simp [decodeItem, encode, readHead_head (maj := 0) rest (by omega) hw]
    | nint n =>
      simp only [Cbor.wf, decide_eq_true_eq] at hw
      simp [decodeItem, encode, readHead_head (maj := 1) rest (by omega) hw]
    | bytes b =>
      simp only [Cbor.wf, decide_eq_true_eq] at hw
      simp [decodeItem, encode, List.append_assoc, readHead_head (maj := 2) (b ++ rest) (by omega) hw]
    | text s =>
      simp only [Cbor.wf, decide_eq_true_eq] at hw
      have hs := bytesToStringOpt_toUTF8 s
      simp only [encode]
      generalize s.toUTF8.data.toList = bs at hw hs
      simp [decodeItem, List.append_assoc, readHead_head (maj := 3) (bs ++ rest) (by omega) hw, hs]
    | simple n =>
      simp only [Cbor.wf, Bool.or_eq_true, beq_iff_eq] at hw
      have hn : n < 2 ^ 64 := by omega
      simp only [decodeItem, encode, readHead_head (maj := 7) rest (by omega) hn]
      rcases hw with (rfl | rfl) | rfl <;> simp
    | tag t x =>
      simp only [Cbor.wf, Bool.and_eq_true, decide_eq_true_eq] at hw
      have ih := decodeItem_encode x f rest hw.2 (by simp only [need] at hf; omega)
      simp [decodeItem, encode, List.append_assoc, readHead_head (maj := 6) (encode x ++ rest) (by omega) hw.1, ih]
    | arr xs =>
      simp only [Cbor.wf, Bool.and_eq_true, decide_eq_true_eq] at hw
      have ih := decodeItems_encode xs f rest hw.2 (by simp only [need] at hf; omega)
      have hl : ¬ ((encodeList xs).length + rest.length < xs.length) := by
        have := length_le_encodeList xs; omega
      simp [decodeItem, encode, List.append_assoc, readHead_head (maj := 4) (encodeList xs ++ rest) (by omega) hw.1, ih, hl]
theorem decodeItems_encode (xs : List Cbor) (f : Nat) (rest : List UInt8) (hw : wfList xs = true) (hf : needList xs ≤ f) :
    decodeItems f xs.length (encodeList xs ++ rest) = some (xs, rest) := by
  cases xs with
  | nil => cases f <;> simp [decodeItems, encodeList]
  | cons x xs =>
    cases f with
    | zero => simp [needList] at hf
    | succ f =>
      simp only [wfList, Bool.and_eq_true] at hw
      simp only [needList] at hf
      have ih1 := decodeItem_encode x f (encodeList xs ++ rest) hw.1 (by omega)
      have ih2 := decodeItems_encode xs f rest hw.2 (by omega)
      simp [decodeItems, encodeList, List.append_assoc, ih1, ih2]
end

/-- a complete message decodes to the item it encodes -/
theorem decode_encode (i : Cbor) (hw : i.wf = true) : decode (encode i) = some i := by
  unfold decode
  have h := decodeItem_encode i (2 * (encode i).length + 1) [] hw (by have := need_le i; omega)
  simp only [List.append_nil] at h
  simp [h]

end Verif.Proofs.Codec.CborRt
