import Verif.Model.Codec.CcfDecode
import Verif.Proofs.Codec.Sort
import Verif.Proofs.Codec.Cbor
namespace Verif.Proofs.Codec.CcfRt
open Verif.Model.Codec Verif.Model.Codec.Ccf Verif.Model.Codec.CcfDecode

/-- FX fact on the regenerated simple-type table: ids and type IDs are in bijection -/
def tableBijective : Bool :=
  Verif.Gen.CcfTags.simpleTypes.all fun e =>
    e.2.2 == "" || (simpleTypeByID e.1 == some e.2.2 && simpleTypeID e.2.2 == some e.1)

theorem tableBijective_ok : tableBijective = true := by decide

theorem simpleTypeByID_of_simpleTypeID {id : String} {n : Nat} (h : simpleTypeID id = some n) :
    simpleTypeByID n = some id := by
  unfold simpleTypeID at h
  cases hf : Verif.Gen.CcfTags.simpleTypes.find? (fun e => e.2.2 == id && id != "") with
  | none => simp [hf] at h
  | some e =>
    simp [hf] at h
    have hm := List.mem_of_find?_eq_some hf
    have hp := List.find?_some hf
    simp at hp
    have hb := tableBijective_ok
    unfold tableBijective at hb
    rw [List.all_eq_true] at hb
    have := hb e hm
    simp [hp.2] at this
    rcases this with h0 | h1
    · exact absurd (hp.1 ▸ h0) hp.2
    · rw [← h, h1.1, hp.1]
end Verif.Proofs.Codec.CcfRt

namespace Verif.Model.Codec.CcfDecode.Rt
open Verif.Model.Codec.Ccf Verif.Proofs.Codec.CcfRt Verif.Proofs.Codec.CborRt Verif.Proofs.Codec.Sort

/-- authorizations without a set of several entitlements (nothing to sort) -/
def authOk : Auth → Bool
  | .unauth => true
  | .map _ => true
  | .conj [_] => true
  | .disj [_] => true
  | _ => false

/-- types built from simple types with optionals, arrays, dictionaries, ranges, capabilities and
references: no composite, interface, intersection or function types -/
def tyOk : CType → Bool
  | .prim id => (simpleTypeID id).isSome
  | .opt t => tyOk t
  | .varr t => tyOk t
  | .carr _ t => tyOk t
  | .dict k v => tyOk k && tyOk v
  | .range t => tyOk t
  | .cap t => (match t with | .nil => true | _ => tyOk t)
  | .ref a t => authOk a && tyOk t
  | _ => false

theorem decodeAuth_authItem (m : Mode) (dm : DMode) (isType : Bool) (a : Auth) (h : authOk a = true) :
    decodeAuth dm isType (authItem m isType a) = .ok a := by
  cases a with
  | unauth => simp [authItem, decodeAuth, Cbor.null, pure, Except.pure]
  | map id => cases isType <;> simp [authItem, decodeAuth, asText, tagEntitlementMapAuthorizationAccessType,
      tagEntitlementSetAuthorizationAccessType, bind, Except.bind, pure, Except.pure]
  | conj ids =>
    match ids, h with
    | [x], _ => cases isType <;> cases hs : m.sortEntitlements <;>
        simp [authItem, decodeAuth, entitlementSet, asArr, asUint, asText, sortBy, insertBy, hs,
          tagEntitlementSetAuthorizationAccessType, bind, Except.bind, pure, Except.pure]
  | disj ids =>
    match ids, h with
    | [x], _ => cases isType <;> cases hs : m.sortEntitlements <;>
        simp [authItem, decodeAuth, entitlementSet, asArr, asUint, asText, sortBy, insertBy, hs,
          tagEntitlementSetAuthorizationAccessType, bind, Except.bind, pure, Except.pure]

theorem tyOk_not_nil {t : CType} (h : tyOk t = true) : t ≠ .nil := by
  intro e; subst e; simp [tyOk] at h

set_option maxRecDepth 2000 in
theorem inlineT_inlineType (m : Mode) (dm : DMode) (tids : List Collected) (ids : List (Nat × String)) :
    ∀ (t : CType), tyOk t = true → ∃ x, inlineType m tids t = .ok x ∧ sizeT t ≤ itemSize x ∧ ∀ f, sizeT t ≤ f → inlineT dm ids f x = .ok t
  | .prim id, h => by
    simp only [tyOk, Option.isSome_iff_exists] at h
    obtain ⟨n, hn⟩ := h
    refine ⟨.tag tagSimpleType (.uint n), by simp [inlineType, hn, pure, Except.pure], by simp [sizeT, itemSize, itemsSize], ?_⟩
    intro f hf
    cases f with
    | zero => simp [sizeT] at hf
    | succ f =>
      simp [inlineT, asSimpleType, asUint, simpleTypeByID_of_simpleTypeID hn, bind, Except.bind, pure, Except.pure]
  | .opt t, h => by
    simp only [tyOk] at h
    obtain ⟨x, hx, hsx, hd⟩ := inlineT_inlineType m dm tids ids t h
    refine ⟨.tag tagOptionalType x, by simp [inlineType, hx, bind, Except.bind, pure, Except.pure], by (simp [sizeT, itemSize, itemsSize]; omega), ?_⟩
    intro f hf
    cases f with
    | zero => simp [sizeT] at hf
    | succ f =>
      simp only [sizeT] at hf
      simp [inlineT, tagSimpleType, tagOptionalType, hd f (by omega), bind, Except.bind, pure, Except.pure]
  | .varr t, h => by
    simp only [tyOk] at h
    obtain ⟨x, hx, hsx, hd⟩ := inlineT_inlineType m dm tids ids t h
    refine ⟨.tag tagVarsizedArrayType x, by simp [inlineType, hx, bind, Except.bind, pure, Except.pure], by (simp [sizeT, itemSize, itemsSize]; omega), ?_⟩
    intro f hf
    cases f with
    | zero => simp [sizeT] at hf
    | succ f =>
      simp only [sizeT] at hf
      simp [inlineT, tagSimpleType, tagOptionalType, tagVarsizedArrayType, hd f (by omega), bind, Except.bind, pure, Except.pure]
  | .carr n t, h => by
    simp only [tyOk] at h
    obtain ⟨x, hx, hsx, hd⟩ := inlineT_inlineType m dm tids ids t h
    refine ⟨.tag tagConstsizedArrayType (.arr [.uint n, x]), by simp [inlineType, hx, bind, Except.bind, pure, Except.pure], by (simp [sizeT, itemSize, itemsSize]; omega), ?_⟩
    intro f hf
    cases f with
    | zero => simp [sizeT] at hf
    | succ f =>
      simp only [sizeT] at hf
      simp [inlineT, tagSimpleType, tagOptionalType, tagVarsizedArrayType, tagConstsizedArrayType, asUint,
        hd f (by omega), bind, Except.bind, pure, Except.pure]
  | .dict k v, h => by
    simp only [tyOk, Bool.and_eq_true] at h
    obtain ⟨x, hx, hsx, hd⟩ := inlineT_inlineType m dm tids ids k h.1
    obtain ⟨y, hy, hsy, he⟩ := inlineT_inlineType m dm tids ids v h.2
    refine ⟨.tag tagDictType (.arr [x, y]), by simp [inlineType, hx, hy, bind, Except.bind, pure, Except.pure], by (simp [sizeT, itemSize, itemsSize]; omega), ?_⟩
    intro f hf
    cases f with
    | zero => simp [sizeT] at hf
    | succ f =>
      simp only [sizeT] at hf
      simp [inlineT, tagSimpleType, tagOptionalType, tagVarsizedArrayType, tagConstsizedArrayType, tagDictType,
        hd f (by omega), he f (by omega), bind, Except.bind, pure, Except.pure]
  | .range t, h => by
    simp only [tyOk] at h
    obtain ⟨x, hx, hsx, hd⟩ := inlineT_inlineType m dm tids ids t h
    refine ⟨.tag tagInclusiveRangeType x, by simp [inlineType, hx, bind, Except.bind, pure, Except.pure], by (simp [sizeT, itemSize, itemsSize]; omega), ?_⟩
    intro f hf
    cases f with
    | zero => simp [sizeT] at hf
    | succ f =>
      simp only [sizeT] at hf
      simp [inlineT, tagSimpleType, tagOptionalType, tagVarsizedArrayType, tagConstsizedArrayType, tagDictType,
        tagInclusiveRangeType, hd f (by omega), bind, Except.bind, pure, Except.pure]
  | .ref a t, h => by
    simp only [tyOk, Bool.and_eq_true] at h
    obtain ⟨x, hx, hsx, hd⟩ := inlineT_inlineType m dm tids ids t h.2
    refine ⟨.tag tagReferenceType (.arr [authItem m true a, x]), by simp [inlineType, hx, bind, Except.bind, pure, Except.pure], by (simp [sizeT, itemSize, itemsSize]; omega), ?_⟩
    intro f hf
    cases f with
    | zero => simp [sizeT] at hf
    | succ f =>
      simp only [sizeT] at hf
      simp [inlineT, tagSimpleType, tagOptionalType, tagVarsizedArrayType, tagConstsizedArrayType, tagDictType,
        tagInclusiveRangeType, tagReferenceType, decodeAuth_authItem m dm true a h.1,
        hd f (by omega), bind, Except.bind, pure, Except.pure]
  | .cap t, h => by
    by_cases hn : t = .nil
    · subst hn
      refine ⟨.tag tagCapabilityType (.arr [Cbor.null]), by simp [inlineType, pure, Except.pure], by simp [sizeT, itemSize, itemsSize], ?_⟩
      intro f hf
      cases f with
      | zero => simp [sizeT] at hf
      | succ f =>
        simp [inlineT, tagSimpleType, tagOptionalType, tagVarsizedArrayType, tagConstsizedArrayType, tagDictType,
          tagInclusiveRangeType, tagReferenceType, tagIntersectionType, tagCapabilityType, isNil, Cbor.null, pure, Except.pure]
    · have ht : tyOk t = true := by cases t <;> simp_all [tyOk]
      obtain ⟨x, hx, hsx, hd⟩ := inlineT_inlineType m dm tids ids t ht
      have he : inlineType m tids (.cap t) = (do pure (.tag tagCapabilityType (.arr [← inlineType m tids t]))) := by
        cases t <;> first | exact absurd rfl hn | simp [inlineType]
      have hnx : isNil x = false := by
        cases x with
        | simple n =>
          have := hd (sizeT t + 1) (by omega)
          simp [inlineT] at this
        | _ => simp [isNil]
      refine ⟨.tag tagCapabilityType (.arr [x]), by simp [he, hx, bind, Except.bind, pure, Except.pure], by (simp [sizeT, itemSize, itemsSize]; omega), ?_⟩
      intro f hf
      cases f with
      | zero => simp [sizeT] at hf
      | succ f =>
        simp only [sizeT] at hf
        simp [inlineT, tagSimpleType, tagOptionalType, tagVarsizedArrayType, tagConstsizedArrayType, tagDictType,
          tagInclusiveRangeType, tagReferenceType, tagIntersectionType, tagCapabilityType, hnx,
          hd f (by omega), bind, Except.bind, pure, Except.pure]
  | .nil, h | .inter _, h | .func _ _ _ _, h | .comp _ _ _ _ _, h | .seen _, h => by simp [tyOk] at h

theorem lt_pow_byteLen (n : Nat) : n < 256 ^ (n.log2 / 8 + 1) := by
  have h1 : n < 2 ^ (n.log2 + 1) := Nat.lt_log2_self
  have h2 : (256 : Nat) ^ (n.log2 / 8 + 1) = 2 ^ (8 * (n.log2 / 8 + 1)) := by
    rw [Nat.pow_mul]
  rw [h2]
  exact Nat.lt_of_lt_of_le h1 (Nat.pow_le_pow_right (by decide) (by omega))

theorem beNat_minBytes (n : Nat) : Cbor.beNat (Cbor.minBytes n) = n := by
  unfold Cbor.minBytes Cbor.byteLen
  split
  · next h => simp [h, Cbor.beBytes, Cbor.beNat]
  · exact beNat_beBytes_of_lt (lt_pow_byteLen n)

theorem asBigInt_bigInt (n : Int) : asBigInt (Cbor.bigInt n) = .ok n := by
  unfold Cbor.bigInt
  split
  · simp only [asBigInt, beNat_minBytes, pure, Except.pure]
    congr 1
    simp only [Int.ofNat_eq_natCast]
    omega
  · simp only [asBigInt, beNat_minBytes, pure, Except.pure]
    congr 1
    simp only [Int.ofNat_eq_natCast]
    omega

theorem asInt64_int (n : Int) (h1 : -(2:Int)^63 ≤ n) (h2 : n ≤ 2^63 - 1) : asInt64 (Cbor.int n) = .ok n := by
  unfold Cbor.int
  split
  · have : ¬ ((-1 - n).toNat > 2 ^ 63 - 1) := by omega
    simp only [asInt64, this, if_false, pure, Except.pure]
    congr 1
    simp only [Int.ofNat_eq_natCast]
    omega
  · have : ¬ (n.toNat > 2 ^ 63 - 1) := by omega
    simp only [asInt64, this, if_false, pure, Except.pure]
    congr 1
    simp only [Int.ofNat_eq_natCast]
    omega

theorem asUint_int (n : Int) (h1 : 0 ≤ n) : asUint (Cbor.int n) = .ok n.toNat := by
  unfold Cbor.int
  have : ¬ n < 0 := by omega
  simp [this, asUint, pure, Except.pure]

/-- integer values of every kind at their simple type -/
theorem decode_int (dm : DMode) (tbl : Table) (fuel : Nat) (k : String) (n : Int) (h : intKindOk k n = true) :
    ∃ x, (if k == "Int" || k == "Int128" || k == "Int256" || k == "UInt" || k == "UInt128" || k == "UInt256"
        || k == "Word128" || k == "Word256" then (pure (Cbor.bigInt n) : E Cbor) else pure (Cbor.int n)) = .ok x ∧
      isNil x = false ∧ decodeValue dm tbl fuel (.prim k) x = .ok (.int k n) := by
  unfold intKindOk at h
  cases hr : intRange k with
  | none => simp [hr] at h
  | some r =>
  simp only [hr] at h
  unfold intRange at hr
  split at hr <;> simp at hr <;> subst hr <;> simp [inRange] at h
  all_goals first
    | (refine ⟨Cbor.bigInt n, ?_, ?_, ?_⟩
       · simp [pure, Except.pure]; done
       · unfold Cbor.bigInt; split <;> simp [isNil]
       · rw [decodeValue]
         simp [simpleValue, isBigKind, asBigInt_bigInt, intKindOk, intRange, inRange, h, bind, Except.bind, pure, Except.pure])
    | (refine ⟨Cbor.int n, ?_, ?_, ?_⟩
       · simp [pure, Except.pure]; done
       · unfold Cbor.int; split <;> simp [isNil]
       · rw [decodeValue]
         have e := asInt64_int n (by omega) (by omega)
         simp [simpleValue, isBigKind, isInt64Kind, e, intKindOk, intRange, inRange, h, bind, Except.bind, pure, Except.pure])
    | (refine ⟨Cbor.int n, ?_, ?_, ?_⟩
       · simp [pure, Except.pure]; done
       · unfold Cbor.int; split <;> simp [isNil]
       · rw [decodeValue]
         have e := asUint_int n (by omega)
         have e2 : Int.ofNat n.toNat = n := by simp only [Int.ofNat_eq_natCast]; omega
         have e3 : max n 0 = n := by omega
         simp [simpleValue, isBigKind, isInt64Kind, isUint64Kind, e, e2, e3, intKindOk, intRange, inRange, h, bind, Except.bind, pure, Except.pure])

/-! ### the value subset -/

/-- the value is encoded as the CBOR nil -/
def encNil : CValue → Bool
  | .none | .void => true
  | .some v => encNil v
  | _ => false

def fixOk (k : String) (n : Int) : Bool := (k == "Fix64" || k == "UFix64") && fixKindOk k n

mutual
/-- `Fits v st`: the value `v` (scalars, optionals, arrays, dictionaries, ranges, capabilities) with
complete type information at the static type `st`: every static type is the run-time type, and a
value that is encoded as nil is the nil that the static type determines (known finding
ccf-optional-nil-ambiguity excluded); no function values (known finding) -/
def Fits : CValue → CType → Prop
  | .void, st => st = .prim "Void"
  | .bool _, st => st = .prim "Bool"
  | .str _, st => st = .prim "String"
  | .char s, st => st = .prim "Character" ∧ s.length = 1
  | .addr b, st => st = .prim "Address" ∧ b.length = 8
  | .int k n, st => st = .prim k ∧ intKindOk k n = true
  | .fix k n, st => st = .prim k ∧ fixOk k n = true
  | .path d _, st => st = pathType d ∧ validDomain d = true
  | .cap _ a b, st => st = .cap b ∧ a.length = 8 ∧ tyOk (.cap b) = true
  | .none, st => ∃ s, st = .opt s ∧ nilOptional st = .none ∧ tyOk s = true
  | .some v, st => ∃ s, st = .opt s ∧ Fits v s ∧ (encNil v = true → CValue.some v = nilOptional st)
  | .arr t vs, st => st = t ∧ tyOk t = true ∧ FitsVs vs (elemType t) ∧
      (match t with | .varr _ => True | .carr n _ => n = vs.length | _ => False)
  | .dict t kvs, st => st = t ∧ tyOk t = true ∧ (∃ k v, t = .dict k v) ∧ FitsPs kvs (dictKeyType t) (dictValType t)
  | .range t s e p, st => st = t ∧ tyOk t = true ∧ (∃ et, t = .range et) ∧
      Fits s (rangeElemType t) ∧ Fits e (rangeElemType t) ∧ Fits p (rangeElemType t)
  | _, _ => False
def FitsVs : Values → CType → Prop
  | .nil, _ => True
  | .cons v r, t => Fits v t ∧ FitsVs r t
def FitsPs : Pairs → CType → CType → Prop
  | .nil, _, _ => True
  | .cons k v r, kt, vt => Fits k kt ∧ Fits v vt ∧ FitsPs r kt vt
end

/-- the bytes of the encoded key (what the encoder sorts the entries of a dictionary by) -/
def keyBytes (m : Mode) (tids : List Collected) (kt : CType) (k : CValue) : List UInt8 :=
  match value m tids false k kt with
  | .ok x => Cbor.encode x
  | .error _ => []

mutual
/-- the value with the entries of every dictionary in the order of the encoded keys: "equal value"
treats a dictionary as the set of its entries -/
def canonV (m : Mode) (tids : List Collected) : CValue → CValue
  | .some v => .some (canonV m tids v)
  | .arr t vs => .arr t (canonVs m tids vs)
  | .dict t kvs =>
    .dict t (Pairs.ofList ((sortBy (fun a b => bytesLe a.1 b.1) (keyedPs m tids (dictKeyType t) kvs)).map (·.2)))
  | .range t s e p => .range t (canonV m tids s) (canonV m tids e) (canonV m tids p)
  | v => v
def canonVs (m : Mode) (tids : List Collected) : Values → Values
  | .nil => .nil
  | .cons v r => .cons (canonV m tids v) (canonVs m tids r)
def keyedPs (m : Mode) (tids : List Collected) (kt : CType) : Pairs → List (List UInt8 × (CValue × CValue))
  | .nil => []
  | .cons k v r => (keyBytes m tids kt k, (canonV m tids k, canonV m tids v)) :: keyedPs m tids kt r
end

mutual
/-- nesting of containers (the fuel of the value decoder) -/
def vdepth : CValue → Nat
  | .some v => vdepth v
  | .arr _ vs => vdepthVs vs + 1
  | .dict _ kvs => vdepthPs kvs + 1
  | .range _ s e p => max (vdepth s) (max (vdepth e) (vdepth p)) + 1
  | _ => 0
def vdepthVs : Values → Nat
  | .nil => 0 | .cons v r => max (vdepth v) (vdepthVs r)
def vdepthPs : Pairs → Nat
  | .nil => 0 | .cons k v r => max (vdepth k) (max (vdepth v) (vdepthPs r))
end

/-! ### lemmas -/

theorem expand_nil_all (f : Nat) :
    (∀ enc t, expand [] f enc t = t) ∧ (∀ enc ts, expandTs [] f enc ts = ts) ∧ (∀ enc fs, expandFs [] f enc fs = fs) ∧
    (∀ enc ps, expandPs [] f enc ps = ps) ∧ (∀ enc is, expandIs [] f enc is = is) ∧ (∀ enc tps, expandTPs [] f enc tps = tps) := by
  induction f with
  | zero => refine ⟨?_, ?_, ?_, ?_, ?_, ?_⟩ <;> intros <;> simp [expand, expandTs, expandFs, expandPs, expandIs, expandTPs]
  | succ f ih =>
    obtain ⟨h1, h2, h3, h4, h5, h6⟩ := ih
    refine ⟨?_, ?_, ?_, ?_, ?_, ?_⟩
    · intro enc t; cases t <;> simp [expand, h1, h2, h3, h4, h5, h6, Table.find]
    · intro enc ts; cases ts <;> simp [expandTs, h1, h2]
    · intro enc ts; cases ts <;> simp [expandFs, h1, h3]
    · intro enc ts; cases ts <;> simp [expandPs, h1, h4]
    · intro enc ts; cases ts <;> simp [expandIs, h4, h5]
    · intro enc ts; cases ts <;> simp [expandTPs, h1, h6]

theorem treeOf_nil (t : CType) : treeOf [] t = t := (expand_nil_all _).1 _ _

theorem authEqual_refl (a : Auth) (h : authOk a = true) : authEqual a a = true := by
  cases a with
  | unauth => rfl
  | map id => simp [authEqual]
  | conj ids => match ids, h with | [x], _ => simp [authEqual, sameSet]
  | disj ids => match ids, h with | [x], _ => simp [authEqual, sameSet]

theorem typeEqual_refl : ∀ t : CType, tyOk t = true → typeEqual t t = true
  | .prim id, _ => by simp [typeEqual]
  | .opt t, h => by simp only [tyOk] at h; simp [typeEqual, typeEqual_refl t h]
  | .varr t, h => by simp only [tyOk] at h; simp [typeEqual, typeEqual_refl t h]
  | .carr n t, h => by simp only [tyOk] at h; simp [typeEqual, typeEqual_refl t h]
  | .dict k v, h => by
    simp only [tyOk, Bool.and_eq_true] at h; simp [typeEqual, typeEqual_refl k h.1, typeEqual_refl v h.2]
  | .range t, h => by simp only [tyOk] at h; simp [typeEqual, typeEqual_refl t h]
  | .ref a t, h => by
    simp only [tyOk, Bool.and_eq_true] at h; simp [typeEqual, authEqual_refl a h.1, typeEqual_refl t h.2]
  | .cap t, h => by
    by_cases hn : t = .nil
    · subst hn; simp [typeEqual]
    · have ht : tyOk t = true := by cases t <;> simp_all [tyOk]
      have := typeEqual_refl t ht
      cases t <;> first | exact absurd rfl hn | simpa [typeEqual] using this
  | .nil, h | .inter _, h | .func _ _ _ _, h | .comp _ _ _ _ _, h | .seen _, h => by simp [tyOk] at h

theorem isNil_iff (x : Cbor) : isNil x = true ↔ x = Cbor.null := by
  unfold isNil Cbor.null
  split <;> simp_all

theorem need_false_of_eq (t : CType) (h : tyOk t = true) : needRuntimeType t t = false := by
  have e := typeEqual_refl t h
  cases t <;> simp_all [needRuntimeType, tyOk]


theorem nilOptional_typeOf_optNever : ∀ t : CType, isOptionalNever (nilOptional (.opt t)).typeOf = true
  | .opt t => by
    have := nilOptional_typeOf_optNever t
    simp only [nilOptional, CValue.typeOf]
    cases h : (nilOptional (.opt t)).typeOf <;> simp_all [isOptionalNever]
  | .nil | .prim _ | .varr _ | .carr _ _ | .dict _ _ | .range _ | .cap _ | .ref _ _ | .inter _ | .func _ _ _ _
  | .comp _ _ _ _ _ | .seen _ => by simp [nilOptional, CValue.typeOf, isOptionalNever]

theorem canonV_encNil (m : Mode) (tids : List Collected) : ∀ v : CValue, encNil v = true → canonV m tids v = v
  | .some v, h => by simp only [encNil] at h; simp [canonV, canonV_encNil m tids v h]
  | .none, _ | .void, _ => by simp [canonV]
  | .nilv, h | .bool _, h | .str _, h | .char _, h | .addr _, h | .int _ _, h | .fix _ _, h | .arr _ _, h
  | .dict _ _, h | .comp _ _, h | .path _ _, h | .cap _ _ _, h | .type _, h | .range _ _ _ _, h | .func _, h => by
    simp [encNil] at h

/-- what the main induction gives for one value at its static type -/
structure Rt (m : Mode) (dm : DMode) (tids : List Collected) (v : CValue) (st : CType) (x : Cbor) : Prop where
  body : valueBody m tids v = .ok x
  same : ∀ st', value m tids true v st' = .ok x
  val : value m tids false v st = .ok x
  nil : isNil x = encNil v
  ty : tyOk st = true
  tyEq : encNil v = false → v.typeOf = st
  tyNe : v.typeOf ≠ .nil
  dec : ∀ fuel, vdepth v ≤ fuel → decodeValue dm [] fuel st x = .ok (canonV m tids v)

theorem value_of_body {m : Mode} {tids : List Collected} {v : CValue} {x : Cbor} (same : Bool) (st : CType)
    (hb : valueBody m tids v = .ok x) (hne : v.typeOf ≠ .nil) (hnv : v ≠ .nilv)
    (hn : same = true ∨ needRuntimeType st v.typeOf = false) : value m tids same v st = .ok x := by
  have hcond : (!same && needRuntimeType st v.typeOf) = false := by
    rcases hn with h | h <;> simp [h]
  cases v <;> first
    | exact absurd rfl hnv
    | (simp only [value, CValue.typeOf] at hcond hne ⊢
       first
        | (simp [hb, hcond, bind, Except.bind, pure, Except.pure]; done)
        | (split
           · next h => exact absurd h hne
           · simp [hb, hcond, bind, Except.bind, pure, Except.pure]))

theorem scalar_rt (m : Mode) (dm : DMode) (tids : List Collected) (v : CValue) (st : CType) (x : Cbor)
    (hb : valueBody m tids v = .ok x) (hty : v.typeOf = st) (hok : tyOk st = true) (hnv : v ≠ .nilv)
    (hnil : isNil x = encNil v)
    (hdec : ∀ fuel, decodeValue dm [] fuel st x = .ok (canonV m tids v)) : Rt m dm tids v st x := by
  have hne : v.typeOf ≠ .nil := by rw [hty]; exact tyOk_not_nil hok
  refine ⟨hb, fun st' => value_of_body true st' hb hne hnv (.inl rfl), ?_, hnil, hok, fun _ => hty, hne, fun f _ => hdec f⟩
  exact value_of_body false st hb hne hnv (.inr (by rw [hty]; exact need_false_of_eq st hok))

theorem simpleTypeID_isSome_of_int {k : String} {n : Int} (h : intKindOk k n = true) : (simpleTypeID k).isSome = true := by
  unfold intKindOk at h
  cases hr : intRange k with
  | none => simp [hr] at h
  | some r =>
  unfold intRange at hr
  split at hr <;> first | (simp at hr; done) | decide


theorem fix_rt (m : Mode) (dm : DMode) (tids : List Collected) (k : String) (n : Int) (h : fixOk k n = true) :
    ∃ x, Rt m dm tids (.fix k n) (.prim k) x := by
  simp only [fixOk, Bool.and_eq_true, Bool.or_eq_true, beq_iff_eq] at h
  obtain ⟨hk, hr⟩ := h
  rcases hk with rfl | rfl
  · simp [fixKindOk, fixInfo] at hr
    refine ⟨Cbor.int n, scalar_rt m dm tids _ _ _ (by simp [valueBody, pure, Except.pure]) rfl (by decide) (by simp)
      (by unfold Cbor.int; split <;> simp [isNil, encNil]) (fun fuel => ?_)⟩
    rw [decodeValue]
    simp [simpleValue, isBigKind, isInt64Kind, isUint64Kind, asInt64_int n (by omega) (by omega), canonV, bind, Except.bind,
      pure, Except.pure]
  · simp [fixKindOk, fixInfo] at hr
    refine ⟨Cbor.int n, scalar_rt m dm tids _ _ _ (by simp [valueBody, pure, Except.pure]) rfl (by decide) (by simp)
      (by unfold Cbor.int; split <;> simp [isNil, encNil]) (fun fuel => ?_)⟩
    rw [decodeValue]
    have e2 : Int.ofNat n.toNat = n := by simp only [Int.ofNat_eq_natCast]; omega
    have e3 : max n 0 = n := by omega
    simp [simpleValue, isBigKind, isInt64Kind, isUint64Kind, asUint_int n (by omega), e2, e3, canonV, bind, Except.bind,
      pure, Except.pure]

theorem scalars_rt (m : Mode) (dm : DMode) (tids : List Collected) :
    (∀ st, Fits .void st → ∃ x, Rt m dm tids .void st x) ∧
    (∀ b st, Fits (.bool b) st → ∃ x, Rt m dm tids (.bool b) st x) ∧
    (∀ s st, Fits (.str s) st → ∃ x, Rt m dm tids (.str s) st x) ∧
    (∀ s st, Fits (.char s) st → ∃ x, Rt m dm tids (.char s) st x) ∧
    (∀ b st, Fits (.addr b) st → ∃ x, Rt m dm tids (.addr b) st x) ∧
    (∀ k n st, Fits (.int k n) st → ∃ x, Rt m dm tids (.int k n) st x) ∧
    (∀ d i st, Fits (.path d i) st → ∃ x, Rt m dm tids (.path d i) st x) ∧
    (∀ i a b st, Fits (.cap i a b) st → ∃ x, Rt m dm tids (.cap i a b) st x) := by
  refine ⟨?_, ?_, ?_, ?_, ?_, ?_, ?_, ?_⟩
  · intro st h
    simp only [Fits] at h; subst h
    exact ⟨Cbor.null, scalar_rt m dm tids .void _ _ (by simp [valueBody, pure, Except.pure]) rfl (by decide) (by simp)
      (by simp [isNil, Cbor.null, encNil])
      (fun fuel => by rw [decodeValue]; simp [simpleValue, isNil, Cbor.null, canonV, pure, Except.pure])⟩
  · intro b st h
    simp only [Fits] at h; subst h
    exact ⟨Cbor.bool b, scalar_rt m dm tids _ _ _ (by simp [valueBody, pure, Except.pure]) rfl (by decide) (by simp)
      (by cases b <;> simp [isNil, Cbor.bool, encNil])
      (fun fuel => by rw [decodeValue]; cases b <;> simp [simpleValue, Cbor.bool, canonV, pure, Except.pure])⟩
  · intro s st h
    simp only [Fits] at h; subst h
    exact ⟨.text s, scalar_rt m dm tids _ _ _ (by simp [valueBody, pure, Except.pure]) rfl (by decide) (by simp)
      (by simp [isNil, encNil])
      (fun fuel => by rw [decodeValue]; simp [simpleValue, asText, canonV, bind, Except.bind, pure, Except.pure])⟩
  · intro s st h
    simp only [Fits] at h; obtain ⟨h, hl⟩ := h; subst h
    exact ⟨.text s, scalar_rt m dm tids _ _ _ (by simp [valueBody, pure, Except.pure]) rfl (by decide) (by simp)
      (by simp [isNil, encNil])
      (fun fuel => by rw [decodeValue]; simp [simpleValue, asText, hl, canonV, bind, Except.bind, pure, Except.pure])⟩
  · intro b st h
    simp only [Fits] at h; obtain ⟨h, hl⟩ := h; subst h
    exact ⟨.bytes b, scalar_rt m dm tids _ _ _ (by simp [valueBody, pure, Except.pure]) rfl (by decide) (by simp)
      (by simp [isNil, encNil])
      (fun fuel => by rw [decodeValue]; simp [simpleValue, asBytes, hl, canonV, bind, Except.bind, pure, Except.pure])⟩
  · intro k n st h
    simp only [Fits] at h; obtain ⟨h, hr⟩ := h; subst h
    obtain ⟨x, hx, hn, hd⟩ := decode_int dm [] 0 k n hr
    refine ⟨x, scalar_rt m dm tids _ _ _ (by simpa [valueBody] using hx) rfl
      (by simpa [tyOk] using simpleTypeID_isSome_of_int hr) (by simp) (by simp [hn, encNil]) (fun fuel => ?_)⟩
    obtain ⟨x', hx', _, hd'⟩ := decode_int dm [] fuel k n hr
    rw [hx] at hx'; cases hx'
    simpa [canonV] using hd'
  · intro d i st h
    simp only [Fits] at h; obtain ⟨h, hv⟩ := h; subst h
    simp only [validDomain, Bool.or_eq_true, beq_iff_eq] at hv
    rcases hv with (rfl | rfl) | rfl
    · exact ⟨.arr [.uint 1, .text i], scalar_rt m dm tids _ _ _ (by simp [valueBody, domainCode, pure, Except.pure]) rfl
        (by decide) (by simp) (by simp [isNil, encNil])
        (fun fuel => by simp only [pathType]; rw [decodeValue]; simp [simpleValue, isBigKind, isInt64Kind, isUint64Kind, domainName, canonV, bind, Except.bind, pure, Except.pure])⟩
    · exact ⟨.arr [.uint 2, .text i], scalar_rt m dm tids _ _ _ (by simp [valueBody, domainCode, pure, Except.pure]) rfl
        (by decide) (by simp) (by simp [isNil, encNil])
        (fun fuel => by simp only [pathType]; rw [decodeValue]; simp [simpleValue, isBigKind, isInt64Kind, isUint64Kind, domainName, canonV, bind, Except.bind, pure, Except.pure])⟩
    · exact ⟨.arr [.uint 3, .text i], scalar_rt m dm tids _ _ _ (by simp [valueBody, domainCode, pure, Except.pure]) rfl
        (by decide) (by simp) (by simp [isNil, encNil])
        (fun fuel => by simp only [pathType]; rw [decodeValue]; simp [simpleValue, isBigKind, isInt64Kind, isUint64Kind, domainName, canonV, bind, Except.bind, pure, Except.pure])⟩
  · intro i a b st h
    simp only [Fits] at h; obtain ⟨h, hl, ht⟩ := h; subst h
    exact ⟨.arr [.bytes a, .uint i], scalar_rt m dm tids _ _ _ (by simp [valueBody, pure, Except.pure]) rfl ht (by simp)
      (by simp [isNil, encNil])
      (fun fuel => by rw [decodeValue]; simp [asBytes, asUint, hl, treeOf_nil, canonV, bind, Except.bind, pure, Except.pure])⟩


theorem sortBy_short {α} (le : α → α → Bool) (l : List α) (h : l.length ≤ 1) : sortBy le l = l := by
  match l, h with
  | [], _ => rfl
  | [x], _ => rfl

theorem insertBy_map {α β} (f : α → β) (le : β → β → Bool) (x : α) :
    ∀ l : List α, insertBy le (f x) (l.map f) = (insertBy (fun a b => le (f a) (f b)) x l).map f
  | [] => rfl
  | y :: ys => by
    simp only [List.map, insertBy]
    split
    · rfl
    · simp [insertBy_map f le x ys]

theorem sortBy_map {α β} (f : α → β) (le : β → β → Bool) :
    ∀ l : List α, sortBy le (l.map f) = (sortBy (fun a b => le (f a) (f b)) l).map f
  | [] => rfl
  | x :: xs => by
    simp only [List.map, sortBy, sortBy_map f le xs, insertBy_map]

theorem length_flattenPairs : ∀ l : List (Cbor × Cbor), (flattenPairs l).length = 2 * l.length
  | [] => rfl
  | (k, v) :: r => by simp [flattenPairs, length_flattenPairs r]; omega

abbrev Tup := Cbor × Cbor × CValue × CValue
def tItems (t : Tup) : Cbor × Cbor := (t.1, t.2.1)
def tVals (t : Tup) : CValue × CValue := (t.2.2.1, t.2.2.2)
def tKeyed (t : Tup) : List UInt8 × (CValue × CValue) := (Cbor.encode t.1, (t.2.2.1, t.2.2.2))

theorem decodePairs_sorted (dm : DMode) (fuel : Nat) (kt vt : CType) :
    ∀ (L : List Tup) (prev : List UInt8),
    (∀ t ∈ L, decodeValue dm [] fuel kt t.1 = .ok t.2.2.1 ∧ decodeValue dm [] fuel vt t.2.1 = .ok t.2.2.2) →
    L.Pairwise (fun a b => bytesLe (Cbor.encode a.1) (Cbor.encode b.1) = true) →
    (∀ t ∈ L, bytesLe prev (Cbor.encode t.1) = true) →
    decodePairs dm [] fuel kt vt prev (flattenPairs (L.map tItems)) = .ok (Pairs.ofList (L.map tVals))
  | [], prev, _, _, _ => by simp [flattenPairs, decodePairs, Pairs.ofList, pure, Except.pure]
  | t :: L, prev, hd, hp, hprev => by
    have h1 := hd t (List.mem_cons_self ..)
    have ih := decodePairs_sorted dm fuel kt vt L (Cbor.encode t.1) (fun t' ht' => hd t' (List.mem_cons_of_mem _ ht'))
      (List.Pairwise.of_cons hp) (fun t' ht' => List.rel_of_pairwise_cons hp ht')
    have h0 := hprev t (List.mem_cons_self ..)
    simp only [List.map, tItems, flattenPairs] at ih ⊢
    rw [decodePairs]
    simp [rawSorted, h0, h1.1, h1.2, ih, tVals, Pairs.ofList, bind, Except.bind, pure, Except.pure]


theorem nilOptional_opt_some {s : CType} {v : CValue} (h : CValue.some v = nilOptional (.opt s)) :
    ∃ t, s = .opt t ∧ v = nilOptional (.opt t) := by
  cases s <;> simp [nilOptional] at h
  exact ⟨_, rfl, h⟩

theorem isOptionalNever_opt (t : CType) (h : isOptionalNever t = true) : isOptionalNever (.opt t) = true := by
  cases t <;> simp_all [isOptionalNever]

theorem need_optNever (s rt : CType) (h : isOptionalNever rt = true) : needRuntimeType (.opt s) rt = false := by
  cases rt <;> simp_all [needRuntimeType, isOptionalNever]

mutual
theorem rt_main (m : Mode) (dm : DMode) (tids : List Collected) :
    ∀ (v : CValue) (st : CType), Fits v st → ∃ x, Rt m dm tids v st x
  | .void, st, h => (scalars_rt m dm tids).1 st h
  | .bool b, st, h => (scalars_rt m dm tids).2.1 b st h
  | .str s, st, h => (scalars_rt m dm tids).2.2.1 s st h
  | .char s, st, h => (scalars_rt m dm tids).2.2.2.1 s st h
  | .addr b, st, h => (scalars_rt m dm tids).2.2.2.2.1 b st h
  | .int k n, st, h => (scalars_rt m dm tids).2.2.2.2.2.1 k n st h
  | .path d i, st, h => (scalars_rt m dm tids).2.2.2.2.2.2.1 d i st h
  | .cap i a b, st, h => (scalars_rt m dm tids).2.2.2.2.2.2.2 i a b st h
  | .fix k n, st, h => by
    simp only [Fits] at h; obtain ⟨h, hr⟩ := h; subst h
    exact fix_rt m dm tids k n hr
  | .none, st, h => by
    simp only [Fits] at h
    obtain ⟨s, rfl, hn, hs⟩ := h
    have hb : valueBody m tids .none = .ok Cbor.null := by simp [valueBody, pure, Except.pure]
    have hne : CValue.none.typeOf ≠ .nil := by simp [CValue.typeOf]
    refine ⟨Cbor.null, hb, fun st' => value_of_body true st' hb hne (by simp) (.inl rfl), ?_, by simp [isNil, Cbor.null, encNil],
      by simpa [tyOk] using hs, by simp [encNil], hne, fun fuel _ => ?_⟩
    · refine value_of_body false _ hb hne (by simp) (.inr ?_)
      simp [CValue.typeOf, needRuntimeType, isOptionalNever]
    · rw [decodeValue]; simp [isNil, Cbor.null, hn, canonV, pure, Except.pure]
  | .some v, st, h => by
    simp only [Fits] at h
    obtain ⟨s, rfl, hv, hnil⟩ := h
    obtain ⟨x, r⟩ := rt_main m dm tids v s hv
    have hb : valueBody m tids (.some v) = .ok x := by simp only [valueBody]; exact r.same _
    have hne : (CValue.some v).typeOf ≠ .nil := by simp [CValue.typeOf]
    refine ⟨x, hb, fun st' => value_of_body true st' hb hne (by simp) (.inl rfl), ?_, by simp [r.nil, encNil],
      by simpa [tyOk] using r.ty, ?_, hne, fun fuel hf => ?_⟩
    · refine value_of_body false _ hb hne (by simp) (.inr ?_)
      cases hen : encNil v with
      | false =>
        have e := r.tyEq hen
        simp only [CValue.typeOf, e, needRuntimeType]
        have := typeEqual_refl (.opt s) (by simpa [tyOk] using r.ty)
        simp [this]
      | true =>
        obtain ⟨t, rfl, rfl⟩ := nilOptional_opt_some (hnil hen)
        have h2 := isOptionalNever_opt _ (nilOptional_typeOf_optNever t)
        exact need_optNever _ _ h2
    · intro hen
      simp only [encNil] at hen
      simp [CValue.typeOf, r.tyEq hen]
    · simp only [vdepth] at hf
      rw [decodeValue]
      cases hen : encNil v with
      | false =>
        have hx : isNil x = false := by rw [r.nil, hen]
        simp [hx, r.dec fuel hf, canonV, bind, Except.bind, pure, Except.pure]
      | true =>
        have hx : isNil x = true := by rw [r.nil, hen]
        simp [hx, ← hnil hen, canonV, canonV_encNil m tids v hen, pure, Except.pure]
  | .arr t vs, st, h => by
    simp only [Fits] at h
    obtain ⟨rfl, ht, hvs, hshape⟩ := h
    obtain ⟨xs, hxs, hlen, hdec⟩ := values_rt m dm tids vs (elemType st) hvs
    have hb : valueBody m tids (.arr st vs) = .ok (.arr xs) := by simp [valueBody, hxs, bind, Except.bind, pure, Except.pure]
    have hne : (CValue.arr st vs).typeOf ≠ .nil := by simpa [CValue.typeOf] using tyOk_not_nil ht
    refine ⟨.arr xs, hb, fun st' => value_of_body true st' hb hne (by simp) (.inl rfl), ?_, by simp [isNil, encNil], ht,
      fun _ => rfl, hne, fun fuel hf => ?_⟩
    · exact value_of_body false _ hb hne (by simp) (.inr (by simpa [CValue.typeOf] using need_false_of_eq st ht))
    · simp only [vdepth] at hf
      cases fuel with
      | zero => omega
      | succ f =>
        cases st <;> simp at hshape
        · simp only [elemType] at hdec
          rw [decodeValue]
          simp [asArr, treeOf_nil, hdec f (by omega), canonV, bind, Except.bind, pure, Except.pure]
        · simp only [elemType] at hdec
          rw [decodeValue]
          simp [asArr, treeOf_nil, hdec f (by omega), hlen, hshape, canonV, bind, Except.bind, pure, Except.pure]
  | .range t s e p, st, h => by
    simp only [Fits] at h
    obtain ⟨rfl, ht, ⟨et, rfl⟩, hs, he, hp⟩ := h
    simp only [rangeElemType] at hs he hp
    obtain ⟨xs, rs⟩ := rt_main m dm tids s et hs
    obtain ⟨xe, re⟩ := rt_main m dm tids e et he
    obtain ⟨xp, rp⟩ := rt_main m dm tids p et hp
    have hb : valueBody m tids (.range (.range et) s e p) = .ok (.arr [xs, xe, xp]) := by
      simp [valueBody, rangeElemType, rs.val, re.val, rp.val, bind, Except.bind, pure, Except.pure]
    have hne : (CValue.range (.range et) s e p).typeOf ≠ .nil := by simp [CValue.typeOf]
    refine ⟨_, hb, fun st' => value_of_body true st' hb hne (by simp) (.inl rfl), ?_, by simp [isNil, encNil], ht,
      fun _ => rfl, hne, fun fuel hf => ?_⟩
    · exact value_of_body false _ hb hne (by simp) (.inr (by simpa [CValue.typeOf] using need_false_of_eq _ ht))
    · simp only [vdepth] at hf
      cases fuel with
      | zero => omega
      | succ f =>
        rw [decodeValue]
        simp [rs.dec f (by omega), re.dec f (by omega), rp.dec f (by omega), treeOf_nil, canonV, bind, Except.bind,
          pure, Except.pure]
  | .dict t kvs, st, h => by
    simp only [Fits] at h
    obtain ⟨rfl, ht, ⟨kt, vt, rfl⟩, hps⟩ := h
    simp only [dictKeyType, dictValType] at hps
    obtain ⟨L, hL, hK, hdec⟩ := pairs_rt m dm tids kvs kt vt hps
    let leT : Tup → Tup → Bool := fun a b => bytesLe (Cbor.encode a.1) (Cbor.encode b.1)
    have hsort : (if (L.map tItems).length > 1 then sortPairs (L.map tItems) else L.map tItems) = (sortBy leT L).map tItems := by
      have e : sortPairs (L.map tItems) = (sortBy leT L).map tItems := by
        unfold sortPairs
        exact sortBy_map tItems (fun a b => bytesLe (Cbor.encode a.1) (Cbor.encode b.1)) L
      split
      · exact e
      · rw [← e]; unfold sortPairs; rw [sortBy_short _ _ (by omega)]
    have hb : valueBody m tids (.dict (.dict kt vt) kvs) = .ok (.arr (flattenPairs ((sortBy leT L).map tItems))) := by
      simp only [valueBody, dictKeyType, dictValType, hL, bind, Except.bind, pure, Except.pure, hsort]
    have hne : (CValue.dict (.dict kt vt) kvs).typeOf ≠ .nil := by simp [CValue.typeOf]
    refine ⟨_, hb, fun st' => value_of_body true st' hb hne (by simp) (.inl rfl), ?_, by simp [isNil, encNil], ht,
      fun _ => rfl, hne, fun fuel hf => ?_⟩
    · exact value_of_body false _ hb hne (by simp) (.inr (by simpa [CValue.typeOf] using need_false_of_eq _ ht))
    · simp only [vdepth] at hf
      cases fuel with
      | zero => omega
      | succ f =>
        have hperm := sortBy_perm leT L
        have hdp := decodePairs_sorted dm f kt vt (sortBy leT L) []
          (fun t ht => hdec f (by omega) t (hperm.subset ht))
          (sortBy_pairwise leT (fun a b => bytesLe_total _ _) (fun a b c => bytesLe_trans _ _ _) L)
          (fun t _ => by simp [bytesLe])
        have hcanon : canonV m tids (.dict (.dict kt vt) kvs) = .dict (.dict kt vt) (Pairs.ofList ((sortBy leT L).map tVals)) := by
          simp only [canonV, dictKeyType, hK]
          rw [show sortBy (fun a b => bytesLe a.1 b.1) (L.map tKeyed) = (sortBy leT L).map tKeyed from
            sortBy_map tKeyed (fun a b => bytesLe a.1 b.1) L]
          simp [tKeyed, List.map_map, Function.comp_def]
          rfl
        rw [decodeValue]
        simp [asArr, length_flattenPairs, treeOf_nil, hdp, hcanon, bind, Except.bind, pure, Except.pure]
  | .nilv, _, h | .comp _ _, _, h | .type _, _, h | .func _, _, h => by simp [Fits] at h
theorem values_rt (m : Mode) (dm : DMode) (tids : List Collected) :
    ∀ (vs : Values) (et : CType), FitsVs vs et → ∃ xs, values m tids vs et = .ok xs ∧ xs.length = vs.length ∧
      ∀ fuel, vdepthVs vs ≤ fuel → decodeValues dm [] fuel et xs = .ok (canonVs m tids vs)
  | .nil, et, _ => ⟨[], by simp [values, pure, Except.pure], rfl, fun fuel _ => by
      rw [decodeValues]; simp [canonVs, pure, Except.pure]⟩
  | .cons v r, et, h => by
    simp only [FitsVs] at h
    obtain ⟨x, rx⟩ := rt_main m dm tids v et h.1
    obtain ⟨xs, hxs, hlen, hdec⟩ := values_rt m dm tids r et h.2
    refine ⟨x :: xs, by simp [values, rx.val, hxs, bind, Except.bind, pure, Except.pure], by simp [hlen, Values.length], ?_⟩
    intro fuel hf
    simp only [vdepthVs] at hf
    rw [decodeValues]
    simp [rx.dec fuel (by omega), hdec fuel (by omega), canonVs, bind, Except.bind, pure, Except.pure]
theorem pairs_rt (m : Mode) (dm : DMode) (tids : List Collected) :
    ∀ (kvs : Pairs) (kt vt : CType), FitsPs kvs kt vt → ∃ L : List Tup,
      pairs m tids kvs kt vt = .ok (L.map tItems) ∧ keyedPs m tids kt kvs = L.map tKeyed ∧
      ∀ fuel, vdepthPs kvs ≤ fuel → ∀ t ∈ L,
        decodeValue dm [] fuel kt t.1 = .ok t.2.2.1 ∧ decodeValue dm [] fuel vt t.2.1 = .ok t.2.2.2
  | .nil, kt, vt, _ => ⟨[], by simp [pairs, pure, Except.pure], by simp [keyedPs], fun _ _ t ht => by simp at ht⟩
  | .cons k v r, kt, vt, h => by
    simp only [FitsPs] at h
    obtain ⟨xk, rk⟩ := rt_main m dm tids k kt h.1
    obtain ⟨xv, rv⟩ := rt_main m dm tids v vt h.2.1
    obtain ⟨L, hL, hK, hdec⟩ := pairs_rt m dm tids r kt vt h.2.2
    refine ⟨(xk, xv, canonV m tids k, canonV m tids v) :: L, ?_, ?_, ?_⟩
    · simp [pairs, rk.val, rv.val, hL, tItems, bind, Except.bind, pure, Except.pure]
    · simp [keyedPs, keyBytes, rk.val, hK, tKeyed]
    · intro fuel hf t ht
      simp only [vdepthPs] at hf
      rcases List.mem_cons.mp ht with rfl | ht
      · exact ⟨rk.dec fuel (by omega), rv.dec fuel (by omega)⟩
      · exact hdec fuel (by omega) t ht
end


theorem canonV_typeOf (m : Mode) (tids : List Collected) : ∀ v : CValue, (canonV m tids v).typeOf = v.typeOf
  | .some v => by simp [canonV, CValue.typeOf, canonV_typeOf m tids v]
  | .nilv | .void | .none | .bool _ | .str _ | .char _ | .addr _ | .int _ _ | .fix _ _ | .arr _ _ | .dict _ _
  | .comp _ _ | .path _ _ | .cap _ _ _ | .type _ | .range _ _ _ _ | .func _ => by simp [canonV, CValue.typeOf]

/-- the message of a value without composite types, and what every decoder mode makes of it -/
theorem rt_msg (m : Mode) (dm : DMode) (v : CValue) (hf : Fits v v.typeOf) (hc : collect v = []) :
    ∃ x, encodeItem m v = .ok x ∧ ∀ fuel, vdepth v < fuel → decodeMsgF dm fuel x = .ok (canonV m [] v) := by
  obtain ⟨body, r⟩ := rt_main m dm [] v v.typeOf hf
  obtain ⟨ti, hti, hsz, hdt⟩ := inlineT_inlineType m dm [] [] v.typeOf r.ty
  refine ⟨.tag tagTypeAndValue (.arr [ti, body]), ?_, ?_⟩
  · unfold encodeItem
    simp only [hc]
    have hne := r.tyNe
    split
    · next h => exact absurd h hne
    · simp [hti, r.same, bind, Except.bind, pure, Except.pure]
  · intro fuel hfu
    cases fuel with
    | zero => omega
    | succ f =>
      have h1 := hdt (typeFuel ti) (by unfold typeFuel; omega)
      simp only [decodeMsgF, tagTypeAndValue, tagTypeDefAndValue]
      simp only [show ((130 : Nat) == 129) = false from rfl, show ((130 : Nat) == 130) = true from rfl, if_true, if_false,
        Bool.false_eq_true]
      rw [typeAndValue]
      simp [Table.ids, h1, r.dec f (by omega), bind, Except.bind]

/-- keys out of order: some key's raw bytes are smaller than those of the key before it -/
def outOfOrder : List UInt8 → List Cbor → Prop
  | prev, k :: _ :: rest => bytesLe prev (Cbor.encode k) = false ∨ outOfOrder (Cbor.encode k) rest
  | _, _ => False

theorem decodePairs_outOfOrder (dm : DMode) (tbl : Table) (fuel : Nat) (kt vt : CType) :
    ∀ (xs : List Cbor) (prev : List UInt8), outOfOrder prev xs → ∀ ps, decodePairs dm tbl fuel kt vt prev xs ≠ .ok ps
  | [], _, h, _ => by simp [outOfOrder] at h
  | [_], _, h, _ => by simp [outOfOrder] at h
  | k :: v :: rest, prev, h, ps => by
    rw [decodePairs]
    simp only [outOfOrder] at h
    rcases h with h | h
    · simp [rawSorted, h]
    · cases hs : rawSorted prev (Cbor.encode k) with
      | false => simp
      | true =>
        cases h1 : decodeValue dm tbl fuel kt k with
        | error e => simp [bind, Except.bind]
        | ok a =>
          cases h2 : decodeValue dm tbl fuel vt v with
          | error e => simp [bind, Except.bind]
          | ok b =>
            cases h3 : decodePairs dm tbl fuel kt vt (Cbor.encode k) rest with
            | error e => simp [bind, Except.bind]
            | ok ps' => exact absurd h3 (decodePairs_outOfOrder dm tbl fuel kt vt rest _ h ps')

theorem decodeDict_outOfOrder (dm : DMode) (tbl : Table) (fuel : Nat) (kt vt : CType) (xs : List Cbor)
    (h : outOfOrder [] xs) (v : CValue) : decodeValue dm tbl fuel (.dict kt vt) (.arr xs) ≠ .ok v := by
  cases fuel with
  | zero => rw [decodeValue]; simp
  | succ f =>
    rw [decodeValue]
    simp only [asArr, bind, Except.bind, pure, Except.pure]
    split
    · simp
    · cases h3 : decodePairs dm tbl f kt vt [] xs with
      | error e => simp
      | ok ps => exact absurd h3 (decodePairs_outOfOrder dm tbl f kt vt xs [] h ps)

/-- some member is not strictly after the one before it (length first, then bytes) -/
def strOutOfOrder : String → List String → Prop
  | prev, id :: rest => strSorted prev id = false ∨ strOutOfOrder id rest
  | _, [] => False

theorem checkMembers_outOfOrder : ∀ (ids : List String) (prev : String) (seen : List String),
    strOutOfOrder prev ids → checkMembers true ids prev seen = false
  | [], _, _, h => by simp [strOutOfOrder] at h
  | id :: rest, prev, seen, h => by
    simp only [strOutOfOrder] at h
    simp only [checkMembers]
    rcases h with h | h
    · simp [h]
    · simp [checkMembers_outOfOrder rest id _ h]

theorem checkNames_outOfOrder : ∀ (ids : List String) (prev : String) (seen : List String),
    strOutOfOrder prev ids → checkNames true ids prev seen = false
  | [], _, _, h => by simp [strOutOfOrder] at h
  | id :: rest, prev, seen, h => by
    simp only [strOutOfOrder] at h
    simp only [checkNames]
    rcases h with h | h
    · simp [h]
    · simp [checkNames_outOfOrder rest id _ h]

theorem entitlements_outOfOrder : ∀ (ids : List String) (prev : String) (seen : List String),
    strOutOfOrder prev ids → ∀ r, entitlements true (ids.map Cbor.text) prev seen ≠ .ok r
  | [], _, _, h, _ => by simp [strOutOfOrder] at h
  | id :: rest, prev, seen, h, r => by
    simp only [strOutOfOrder] at h
    simp only [List.map, entitlements, asText, bind, Except.bind, pure, Except.pure]
    split
    · simp
    · rcases h with h | h
      · simp [h]
      · split
        · simp
        · cases h3 : entitlements true (rest.map Cbor.text) id (id :: seen) with
          | error e => simp
          | ok r' => exact absurd h3 (entitlements_outOfOrder rest id _ h r')

/-- the bytes of a well-formed item decode as the item -/
theorem decode_bytes (dm : DMode) (x : Cbor) (hw : x.wf = true) : decode dm (Cbor.encode x) = decodeMsg dm x := by
  unfold decode
  have h := decodeItem_encode x (2 * (Cbor.encode x).length + 1) [] hw (by have := need_le x; omega)
  simp only [List.append_nil] at h
  simp [h]

end Verif.Model.Codec.CcfDecode.Rt
