import Verif.Model.Codec.Ccf
/-! Lemmas for property C42: the insertion-sort model of Go's `sort.Sort` gives one result on every
permutation of pairwise different keys; the byte-wise and length-first orders are total orders. -/
namespace Verif.Proofs.Codec.Sort
open Verif.Model.Codec
theorem insertBy_perm {α} (le : α → α → Bool) (x : α) : ∀ l, (insertBy le x l).Perm (x :: l)
  | [] => List.Perm.refl _
  | y :: ys => by
    unfold insertBy
    split
    · exact List.Perm.refl _
    · exact ((insertBy_perm le x ys).cons y).trans (List.Perm.swap x y ys)

theorem sortBy_perm {α} (le : α → α → Bool) : ∀ l : List α, (sortBy le l).Perm l
  | [] => List.Perm.refl _
  | x :: xs => (insertBy_perm le x (sortBy le xs)).trans ((sortBy_perm le xs).cons x)

theorem insertBy_pairwise {α} (le : α → α → Bool)
    (total : ∀ a b, le a b = true ∨ le b a = true)
    (trans : ∀ a b c, le a b = true → le b c = true → le a c = true)
    (x : α) : ∀ l, l.Pairwise (fun a b => le a b = true) → (insertBy le x l).Pairwise (fun a b => le a b = true)
  | [], _ => by simp [insertBy]
  | y :: ys, h => by
    unfold insertBy
    split
    · rename_i hxy
      refine List.Pairwise.cons ?_ h
      intro b hb
      rcases List.mem_cons.mp hb with rfl | hb
      · exact hxy
      · exact trans _ _ _ hxy (List.rel_of_pairwise_cons h hb)
    · rename_i hxy
      have hyx : le y x = true := (total x y).resolve_left hxy
      refine List.Pairwise.cons ?_ (insertBy_pairwise le total trans x ys h.of_cons)
      intro b hb
      have := (insertBy_perm le x ys).subset hb
      rcases List.mem_cons.mp this with rfl | hb'
      · exact hyx
      · exact List.rel_of_pairwise_cons h hb'

theorem sortBy_pairwise {α} (le : α → α → Bool)
    (total : ∀ a b, le a b = true ∨ le b a = true)
    (trans : ∀ a b c, le a b = true → le b c = true → le a c = true) :
    ∀ l : List α, (sortBy le l).Pairwise (fun a b => le a b = true)
  | [] => List.Pairwise.nil
  | x :: xs => insertBy_pairwise le total trans x _ (sortBy_pairwise le total trans xs)

/-- sorting a permutation gives one result when the order is antisymmetric on the members -/
theorem sortBy_eq_of_perm {α} (le : α → α → Bool)
    (total : ∀ a b, le a b = true ∨ le b a = true)
    (trans : ∀ a b c, le a b = true → le b c = true → le a c = true)
    {l₁ l₂ : List α} (h : l₁.Perm l₂)
    (antisymm : ∀ a b, a ∈ l₁ → b ∈ l₁ → le a b = true → le b a = true → a = b) :
    sortBy le l₁ = sortBy le l₂ := by
  have p1 := sortBy_perm le l₁
  have p2 := sortBy_perm le l₂
  refine List.Perm.eq_of_pairwise ?_ (sortBy_pairwise le total trans l₁) (sortBy_pairwise le total trans l₂)
    (p1.trans (h.trans p2.symm))
  intro a b ha hb
  exact antisymm a b (p1.subset ha) (h.symm.subset (p2.subset hb))

theorem bytesLe_total : ∀ a b : List UInt8, bytesLe a b = true ∨ bytesLe b a = true
  | [], _ => .inl rfl
  | _ :: _, [] => .inr rfl
  | a :: as, b :: bs => by
    simp only [bytesLe]
    by_cases h1 : a < b
    · simp [h1]
    · by_cases h2 : b < a
      · simp [h2]
      · simp only [h1, h2, if_false]
        exact bytesLe_total as bs

theorem bytesLe_trans : ∀ a b c : List UInt8, bytesLe a b = true → bytesLe b c = true → bytesLe a c = true
  | [], _, _, _, _ => rfl
  | _ :: _, [], _, h, _ => by simp [bytesLe] at h
  | _ :: _, _ :: _, [], _, h => by simp [bytesLe] at h
  | a :: as, b :: bs, c :: cs, h1, h2 => by
    simp only [bytesLe] at h1 h2 ⊢
    have ta := UInt8.lt_iff_toNat_lt (a := a) (b := b)
    have tb := UInt8.lt_iff_toNat_lt (a := b) (b := a)
    have tc := UInt8.lt_iff_toNat_lt (a := b) (b := c)
    have td := UInt8.lt_iff_toNat_lt (a := c) (b := b)
    have te := UInt8.lt_iff_toNat_lt (a := a) (b := c)
    have tf := UInt8.lt_iff_toNat_lt (a := c) (b := a)
    by_cases hab : a < b
    · by_cases hbc : b < c
      · have : a < c := by rw [te]; rw [ta] at hab; rw [tc] at hbc; omega
        simp [this]
      · by_cases hcb : c < b
        · simp [hbc, hcb] at h2
        · have : b = c := by
            apply UInt8.toNat_inj.mp; rw [tc] at hbc; rw [td] at hcb; omega
          subst this; simp [hab]
    · by_cases hba : b < a
      · simp [hab, hba] at h1
      · have : a = b := by apply UInt8.toNat_inj.mp; rw [ta] at hab; rw [tb] at hba; omega
        subst this
        simp only [hab, if_false] at h1
        by_cases hbc : a < c
        · simp [hbc]
        · by_cases hcb : c < a
          · simp [hbc, hcb] at h2
          · simp only [hbc, hcb, if_false] at h2 ⊢
            exact bytesLe_trans as bs cs h1 h2

theorem bytesLe_antisymm : ∀ a b : List UInt8, bytesLe a b = true → bytesLe b a = true → a = b
  | [], [], _, _ => rfl
  | [], _ :: _, _, h => by simp [bytesLe] at h
  | _ :: _, [], h, _ => by simp [bytesLe] at h
  | a :: as, b :: bs, h1, h2 => by
    simp only [bytesLe] at h1 h2
    have ta := UInt8.lt_iff_toNat_lt (a := a) (b := b)
    have tb := UInt8.lt_iff_toNat_lt (a := b) (b := a)
    by_cases hab : a < b
    · have : ¬ b < a := by rw [tb]; rw [ta] at hab; omega
      simp [hab, this] at h2
    · by_cases hba : b < a
      · simp [hab, hba] at h1
      · have : a = b := by apply UInt8.toNat_inj.mp; rw [ta] at hab; rw [tb] at hba; omega
        subst this
        simp only [hab, if_false] at h1 h2
        rw [bytesLe_antisymm as bs h1 h2]

theorem strBytes_inj (a b : String) (h : strBytes a = strBytes b) : a = b := by
  unfold strBytes at h
  have h1 : a.toUTF8.data = b.toUTF8.data := Array.toList_inj.mp h
  have h2 : a.toUTF8 = b.toUTF8 := ByteArray.ext h1
  exact String.toByteArray_inj.mp h2

theorem lenFirstLe_total (a b : String) : lenFirstLe a b = true ∨ lenFirstLe b a = true := by
  unfold lenFirstLe
  by_cases h : (strBytes a).length = (strBytes b).length
  · simp only [h, bne_self_eq_false, Bool.false_eq_true, if_false]
    exact bytesLe_total _ _
  · have h' : ¬ (strBytes b).length = (strBytes a).length := fun e => h e.symm
    simp only [bne_iff_ne, ne_eq, h, h', not_false_eq_true, if_true, decide_eq_true_eq]
    omega

theorem lenFirstLe_trans (a b c : String) (h1 : lenFirstLe a b = true) (h2 : lenFirstLe b c = true) :
    lenFirstLe a c = true := by
  unfold lenFirstLe at *
  by_cases hab : (strBytes a).length = (strBytes b).length
  · by_cases hbc : (strBytes b).length = (strBytes c).length
    · simp only [hab, hbc, bne_self_eq_false, Bool.false_eq_true, if_false] at h1 h2 ⊢
      exact bytesLe_trans _ _ _ h1 h2
    · simp only [bne_iff_ne, ne_eq, hbc, not_false_eq_true, if_true, decide_eq_true_eq] at h2
      have : ¬ (strBytes a).length = (strBytes c).length := by omega
      simp only [bne_iff_ne, ne_eq, this, not_false_eq_true, if_true, decide_eq_true_eq]; omega
  · simp only [bne_iff_ne, ne_eq, hab, not_false_eq_true, if_true, decide_eq_true_eq] at h1
    by_cases hbc : (strBytes b).length = (strBytes c).length
    · have : ¬ (strBytes a).length = (strBytes c).length := by omega
      simp only [bne_iff_ne, ne_eq, this, not_false_eq_true, if_true, decide_eq_true_eq]; omega
    · simp only [bne_iff_ne, ne_eq, hbc, not_false_eq_true, if_true, decide_eq_true_eq] at h2
      have : ¬ (strBytes a).length = (strBytes c).length := by omega
      simp only [bne_iff_ne, ne_eq, this, not_false_eq_true, if_true, decide_eq_true_eq]; omega

theorem lenFirstLe_antisymm (a b : String) (h1 : lenFirstLe a b = true) (h2 : lenFirstLe b a = true) : a = b := by
  unfold lenFirstLe at *
  by_cases hab : (strBytes a).length = (strBytes b).length
  · simp only [hab, bne_self_eq_false, Bool.false_eq_true, if_false] at h1 h2
    exact strBytes_inj a b (bytesLe_antisymm _ _ h1 h2)
  · have hba : ¬ (strBytes b).length = (strBytes a).length := fun e => hab e.symm
    simp only [bne_iff_ne, ne_eq, hab, hba, not_false_eq_true, if_true, decide_eq_true_eq] at h1 h2
    omega

end Verif.Proofs.Codec.Sort
