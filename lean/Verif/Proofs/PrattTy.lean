import Verif.Proofs.PrattFuel
import Verif.Model.Front.ExprWf
/-!
C38 — round trip of the type sub-language: `parseTy (mergeQ (printTy t) ++ rest)` continues with the
type loop on `t` and `rest`.
-/
namespace Verif.Proofs.PrattTy
open Verif.Model.Front.Syn Verif.Proofs.PrattFuel Verif.Gen.PrecTables

/-! ## `mergeQ` -/

theorem mergeQ_cons_notQ (a : Tok) (ys : List Tok) (h : isSym "?" a = false) :
    mergeQ (a :: ys) = a :: mergeQ ys := by
  cases ys with
  | nil => simp [mergeQ]
  | cons b rest => simp [mergeQ, h]

theorem mergeQ_notQ_append (xs zs : List Tok) (h : ∀ x ∈ xs, isSym "?" x = false) :
    mergeQ (xs ++ zs) = xs ++ mergeQ zs := by
  induction xs with
  | nil => rfl
  | cons a xs ih =>
    rw [List.cons_append, mergeQ_cons_notQ _ _ (h a (by simp)), ih (fun x hx => h x (by simp [hx]))]
    rfl

theorem mergeQ_append_notQ : ∀ (n : Nat) (xs : List Tok), xs.length ≤ n → ∀ (y : Tok) (ys : List Tok),
    isSym "?" y = false → mergeQ (xs ++ y :: ys) = mergeQ xs ++ y :: mergeQ ys := by
  intro n
  induction n with
  | zero =>
    intro xs hx y ys hy
    have : xs = [] := List.eq_nil_of_length_eq_zero (by omega)
    subst this
    exact mergeQ_cons_notQ y ys hy
  | succ n ih =>
    intro xs hx y ys hy
    match xs, hx with
    | [], _ => exact mergeQ_cons_notQ y ys hy
    | [a], _ =>
      show mergeQ (a :: y :: ys) = mergeQ [a] ++ y :: mergeQ ys
      simp [mergeQ, hy, mergeQ_cons_notQ y ys hy]
    | a :: b :: rest, hx =>
      show mergeQ (a :: b :: (rest ++ y :: ys)) = mergeQ (a :: b :: rest) ++ y :: mergeQ ys
      rw [mergeQ, mergeQ]
      split
      · rw [ih rest (by simp at hx; omega) y ys hy]; rfl
      · have := ih (b :: rest) (by simp at hx ⊢; omega) y ys hy
        rw [List.cons_append] at this
        rw [this]; rfl

def qs (k : Nat) : List Tok := List.replicate k (sym "?")

theorem mergeQ_qs_one : mergeQ (qs 1) = [sym "?"] := by decide
theorem mergeQ_qs_add_two (k : Nat) : mergeQ (qs (k + 2)) = sym "??" :: mergeQ (qs k) := by
  show mergeQ (sym "?" :: sym "?" :: qs k) = _
  rw [mergeQ]
  simp [isSym, sym]

/-! ## the printer on types -/

theorem typeLbpOptional_eq : typeLbpOptional = 10 := by decide
theorem typeLbpReference_eq : typeLbpReference = 20 := by decide

theorem idx_optional : typePrecedences.idxOf "Optional" = 1 := by decide
theorem idx_reference : typePrecedences.idxOf "Reference" = 2 := by decide
theorem idx_primary : typePrecedences.idxOf "Primary" = 4 := by decide

theorem printTy_optional (t : Ty) : printTy (.optional t) = printTy t ++ [sym "?"] := by
  rw [printTy]
  cases t <;> simp [Ty.prec, tyNeedsParens, idx_optional, idx_reference, idx_primary]

theorem printTy_ref_nominal (p : List String) :
    printTy (.reference (.nominal p)) = sym "&" :: nominalToks p := by
  simp [printTy, Ty.prec, tyNeedsParens, idx_optional, idx_reference, idx_primary]

theorem printTy_ref_optional (t : Ty) :
    printTy (.reference (.optional t)) = sym "&" :: parens (printTy (.optional t)) := by
  conv => lhs; rw [printTy]
  simp [Ty.prec, tyNeedsParens, idx_optional, idx_reference]

theorem printTy_ref_ref (t : Ty) :
    printTy (.reference (.reference t)) = sym "&" :: parens (printTy (.reference t)) := by
  conv => lhs; rw [printTy]
  simp [Ty.prec, tyNeedsParens, idx_optional, idx_reference, idx_primary]

/-- `.`-separated continuation of a nominal path -/
def dots : List String → List Tok
  | [] => []
  | a :: r => sym "." :: ⟨.ident, a, false⟩ :: dots r

theorem nominalToks_cons (n : String) (p : List String) :
    nominalToks (n :: p) = ⟨.ident, n, false⟩ :: dots p := by
  induction p generalizing n with
  | nil => rfl
  | cons a r ih => rw [nominalToks, ih]; rfl; simp

theorem dots_notQ (p : List String) : ∀ x ∈ dots p, isSym "?" x = false := by
  induction p with
  | nil => simp [dots]
  | cons a r ih =>
    intro x hx
    simp only [dots, List.mem_cons] at hx
    rcases hx with rfl | rfl | hx
    · decide
    · simp [isSym]
    · exact ih x hx

theorem nominalToks_notQ (p : List String) : ∀ x ∈ nominalToks p, isSym "?" x = false := by
  cases p with
  | nil => simp [nominalToks]
  | cons n p' =>
    rw [nominalToks_cons]; intro x hx
    rcases List.mem_cons.1 hx with rfl | hx
    · simp [isSym]
    · exact dots_notQ p' x hx

theorem mergeQ_nominalToks (p : List String) : mergeQ (nominalToks p) = nominalToks p := by
  have := mergeQ_notQ_append _ [] (nominalToks_notQ p)
  simpa [mergeQ] using this

theorem dots_length (p : List String) : (dots p).length = 2 * p.length := by
  induction p with
  | nil => rfl
  | cons a r ih => simp [dots, ih]; omega

/-! ## the parser on printed types -/

def optN : Nat → Ty → Ty
  | 0, t => t
  | k + 1, t => optN k (.optional t)

/-- the head of the rest does not continue a type when the loop runs at the power of `&` -/
def tyHeadFree20 : List Tok → Bool
  | [] => true
  | t :: _ => !(isSym "." t) && (t.sp || !(t.text == "<"))

/-- the head of the rest does not continue a type -/
def tyHeadFree : List Tok → Bool
  | [] => true
  | t :: _ => !(isSym "." t) && (t.sp || !(t.text == "<" || t.text == "?" || t.text == "??"))

theorem tyHeadFree20_of (rest : List Tok) (h : tyHeadFree rest = true) : tyHeadFree20 rest = true := by
  cases rest with
  | nil => rfl
  | cons t r => simp [tyHeadFree, tyHeadFree20] at h ⊢; rcases h with ⟨h1, h2⟩; refine ⟨h1, ?_⟩; rcases h2 with h2 | h2 <;> simp [h2]

theorem tyLoop_stop20 (b rbp : Nat) (t : Ty) (rest : List Tok) (h : tyHeadFree20 rest = true)
    (hr : typeLbpOptional ≤ rbp) : tyLoop (b + 1) rbp t rest = some (t, rest) := by
  rw [tyLoop]; unfold tyLoopBody
  rcases rest with _ | ⟨⟨k, s, sp⟩, rest⟩
  · rfl
  · cases k <;> cases sp <;> simp [tyHeadFree20] at h ⊢
    split
    · simp [hr]
    · split
      · simp [hr]
      · simp [h.2]

theorem tyLoop_stop (b rbp : Nat) (t : Ty) (rest : List Tok) (h : tyHeadFree rest = true) :
    tyLoop (b + 1) rbp t rest = some (t, rest) := by
  rw [tyLoop]; unfold tyLoopBody
  rcases rest with _ | ⟨⟨k, s, sp⟩, rest⟩
  · rfl
  · cases k <;> cases sp <;> simp [tyHeadFree] at h ⊢
    simp [h.2]

theorem tyLoop_qs (rbp : Nat) (rest : List Tok) (r : Ty × List Tok) : ∀ (n k : Nat), k ≤ n → ∀ (t : Ty) (b : Nat),
    (k = 0 ∨ rbp < typeLbpOptional) → tyLoop b rbp (optN k t) rest = some r →
    tyLoop (b + (mergeQ (qs k)).length) rbp t (mergeQ (qs k) ++ rest) = some r := by
  intro n
  induction n with
  | zero =>
    intro k hk t b _ h
    have : k = 0 := by omega
    subst this; exact h
  | succ n ih =>
    intro k hk t b hlow h
    match k, hk, hlow, h with
    | 0, _, _, h => exact h
    | 1, _, hlow, h =>
      have hl : ¬ (typeLbpOptional ≤ rbp) := by rcases hlow with h0 | h0 <;> omega
      rw [mergeQ_qs_one]; show tyLoop (b + 1) _ _ _ = _
      rw [tyLoop]; unfold tyLoopBody
      simp [sym, hl]
      exact h
    | k + 2, hk, hlow, h =>
      have hl : ¬ (typeLbpOptional ≤ rbp) := by rcases hlow with h0 | h0 <;> omega
      rw [mergeQ_qs_add_two, List.length_cons, ← Nat.add_assoc, tyLoop]; unfold tyLoopBody
      simp [sym, hl]
      exact ih k (by omega) _ b (Or.inr (by omega)) h

theorem dotIdent_none (Y : List Tok) (h : tyHeadFree20 Y = true) : dotIdent Y = none := by
  rcases Y with _ | ⟨⟨k, s, sp⟩, _ | ⟨⟨k2, s2, sp2⟩, Y⟩⟩
  · rfl
  · cases k <;> rfl
  · simp [tyHeadFree20, isSym] at h
    cases k <;> cases k2 <;> simp [dotIdent]
    simpa using h.1

theorem tyHeadFree20_qs (k : Nat) (rest : List Tok) (h : tyHeadFree20 rest = true) :
    tyHeadFree20 (mergeQ (qs k) ++ rest) = true := by
  match k with
  | 0 => exact h
  | 1 => rw [mergeQ_qs_one]; rfl
  | k + 2 => rw [mergeQ_qs_add_two]; rfl

theorem parseNominalRest_dots (p : List String) : ∀ (acc : List String) (Y : List Tok) (f : Nat),
    dotIdent Y = none → p.length + 1 ≤ f →
    parseNominalRest f acc (dots p ++ Y) = some (acc.reverse ++ p, Y) := by
  induction p with
  | nil =>
    intro acc Y f hY hf
    obtain ⟨f', rfl⟩ : ∃ f', f = f' + 1 := ⟨f - 1, by omega⟩
    rw [parseNominalRest]; simp [dots, hY]
  | cons a r ih =>
    intro acc Y f hY hf
    obtain ⟨f', rfl⟩ : ∃ f', f = f' + 1 := ⟨f - 1, by simp at hf; omega⟩
    rw [parseNominalRest]
    simp only [dots, List.cons_append, dotIdent, sym]
    simp only [beq_self_eq_true, if_true]
    rw [ih (a :: acc) Y f' hY (by simp at hf; omega)]
    simp

theorem mergeQ_parens (X ys : List Tok) :
    mergeQ (parens X ++ ys) = sym "(" :: (mergeQ X ++ sym ")" :: mergeQ ys) := by
  show mergeQ (sym "(" :: (X ++ [sym ")"]) ++ ys) = _
  rw [List.cons_append, mergeQ_cons_notQ _ _ (by decide), List.append_assoc]
  congr 1
  exact mergeQ_append_notQ _ X (Nat.le_refl _) (sym ")") ys (by decide)

theorem parens_length (X : List Tok) : (parens X).length = X.length + 2 := by simp [parens]

/-- a parenthesised operand of `&` -/
theorem ref_parens_case (t' : Ty)
    (hIH : ∀ (rest : List Tok) (b : Nat) (r : Ty × List Tok) (F : Nat), tyHeadFree20 rest = true →
      tyLoop b 0 t' rest = some r → 3 * (mergeQ (printTy t')).length + b + 1 ≤ F →
      parseTy F 0 (mergeQ (printTy t') ++ rest) = some r)
    (k : Nat) (rest : List Tok) (hY : tyHeadFree20 (mergeQ (qs k) ++ rest) = true) :
    mergeQ (parens (printTy t') ++ qs k) = mergeQ (parens (printTy t')) ++ mergeQ (qs k) ∧
    ∀ f, 3 * (mergeQ (parens (printTy t'))).length + 2 ≤ f →
      parseTy f typeLbpReference (mergeQ (parens (printTy t')) ++ (mergeQ (qs k) ++ rest)) =
        some (t', mergeQ (qs k) ++ rest) := by
  have h0 := mergeQ_parens (printTy t') []
  simp only [List.append_nil] at h0
  have hm0 : mergeQ ([] : List Tok) = [] := rfl
  refine ⟨?_, ?_⟩
  · rw [mergeQ_parens, h0, hm0]; simp
  · intro f hf
    rw [h0, hm0] at hf
    simp only [List.length_cons, List.length_append, List.length_nil] at hf
    obtain ⟨f', rfl⟩ : ∃ f', f = f' + 1 := ⟨f - 1, by omega⟩
    rw [h0, hm0, parseTy]
    unfold parseTyBody
    simp only [sym, List.cons_append, List.append_assoc]
    simp only [show ("(" == "&") = false by decide, show ("(" == "(") = true by decide, if_true, Bool.false_eq_true,
      if_false]
    rw [hIH (⟨.sym, ")", false⟩ :: ([] ++ (mergeQ (qs k) ++ rest))) 1 (t', _) f' rfl (tyLoop_stop 0 0 _ _ rfl) (by omega)]
    obtain ⟨f'', rfl⟩ : ∃ f'', f' = f'' + 1 := ⟨f' - 1, by omega⟩
    simp only [Option.bind_some, expect, beq_self_eq_true, if_true, List.nil_append]
    exact tyLoop_stop20 f'' _ _ _ hY (by decide)

def isOptTy : Ty → Bool
  | .optional _ => true
  | _ => false

theorem qs_succ (k : Nat) : qs (k + 1) = sym "?" :: qs k := List.replicate_succ

/-- parsing the printed form of `t` followed by `k` adjacent `?` and then `rest` continues with the
    type loop on `t` wrapped in `k` optionals -/
theorem parseTy_print : ∀ (t : Ty), t.wf = true → ∀ (k rbp : Nat) (rest : List Tok) (b : Nat) (r : Ty × List Tok)
    (F : Nat), ((k ≠ 0 ∨ isOptTy t = true) → rbp < typeLbpOptional) → tyHeadFree20 rest = true →
    tyLoop b rbp (optN k t) rest = some r → 3 * (mergeQ (printTy t ++ qs k)).length + b + 1 ≤ F →
    parseTy F rbp (mergeQ (printTy t ++ qs k) ++ rest) = some r := by
  intro t
  induction t with
  | nominal p =>
    intro hwf k rbp rest b r F hlow hrest hcont hF
    match p, hwf with
    | n :: p', hwf =>
      simp only [Ty.wf, Bool.not_eq_true'] at hwf
      obtain ⟨F', rfl⟩ : ∃ F', F = F' + 1 := ⟨F - 1, by omega⟩
      rw [printTy, nominalToks_cons, List.cons_append, mergeQ_cons_notQ _ _ (by simp [isSym]),
        mergeQ_notQ_append _ _ (dots_notQ p')] at hF ⊢
      simp only [List.length_cons, List.length_append, dots_length] at hF
      rw [parseTy]
      unfold parseTyBody
      simp only [List.cons_append, List.append_assoc, hwf]
      rw [parseNominalRest_dots p' [n] _ F' (dotIdent_none _ (tyHeadFree20_qs k rest hrest)) (by omega)]
      simp only [Bool.false_eq_true, if_false, Option.bind_some, List.reverse_cons, List.reverse_nil, List.nil_append,
        List.singleton_append]
      exact tyLoop_mono (by omega) (tyLoop_qs rbp rest r k k (Nat.le_refl _) _ b
        (by by_cases hk : k = 0; exact Or.inl hk; exact Or.inr (hlow (Or.inl hk))) hcont)
  | optional t' ih =>
    intro hwf k rbp rest b r F hlow hrest hcont hF
    rw [printTy_optional, List.append_assoc] at hF ⊢
    have := ih (by simpa [Ty.wf] using hwf) (k + 1) rbp rest b r F (fun _ => hlow (Or.inr rfl)) hrest hcont
      (by rw [qs_succ]; exact hF)
    rw [qs_succ] at this
    exact this
  | reference t' ih =>
    intro hwf k rbp rest b r F hlow hrest hcont hF
    have hwf' : t'.wf = true := by simpa [Ty.wf] using hwf
    have hY := tyHeadFree20_qs k rest hrest
    have hlowk : k = 0 ∨ rbp < typeLbpOptional := by
      by_cases hk : k = 0; exact Or.inl hk; exact Or.inr (hlow (Or.inl hk))
    -- the operand, printed bare or in parentheses, parses at the power of `&`
    have hop : ∃ D : List Tok, printTy (.reference t') = sym "&" :: D ∧
        mergeQ (D ++ qs k) = mergeQ D ++ mergeQ (qs k) ∧
        ∀ f, 3 * (mergeQ D).length + 2 ≤ f → parseTy f typeLbpReference (mergeQ D ++ (mergeQ (qs k) ++ rest)) =
          some (t', mergeQ (qs k) ++ rest) := by
      cases t' with
      | nominal p =>
        refine ⟨nominalToks p, printTy_ref_nominal p, ?_, ?_⟩
        · rw [mergeQ_notQ_append _ _ (nominalToks_notQ p), mergeQ_nominalToks]
        · intro f hf
          have := ih hwf' 0 typeLbpReference (mergeQ (qs k) ++ rest) 1 (.nominal p, mergeQ (qs k) ++ rest) f
            (by simp [isOptTy]) hY (tyLoop_stop20 0 _ _ _ hY (by decide)) (by simpa [qs, printTy] using hf)
          simpa [qs, printTy] using this
      | optional t'' =>
        have hc := ref_parens_case (.optional t'') (fun rest b r F hr hc hF => by
          have := ih hwf' 0 0 rest b r F (fun _ => by decide) hr hc (by simpa [qs] using hF)
          simpa [qs] using this) k rest hY
        exact ⟨parens (printTy (.optional t'')), printTy_ref_optional t'', hc.1, hc.2⟩
      | reference t'' =>
        have hc := ref_parens_case (.reference t'') (fun rest b r F hr hc hF => by
          have := ih hwf' 0 0 rest b r F (fun _ => by decide) hr hc (by simpa [qs] using hF)
          simpa [qs] using this) k rest hY
        exact ⟨parens (printTy (.reference t'')), printTy_ref_ref t'', hc.1, hc.2⟩
    obtain ⟨D, hD, hm, hp⟩ := hop
    obtain ⟨F', rfl⟩ : ∃ F', F = F' + 1 := ⟨F - 1, by omega⟩
    rw [hD, List.cons_append, mergeQ_cons_notQ _ _ (by decide), hm] at hF ⊢
    simp only [List.length_cons, List.length_append] at hF
    rw [parseTy]
    unfold parseTyBody
    simp only [sym, List.cons_append, List.append_assoc]
    simp only [show ("&" == "&") = true by decide, if_true]
    rw [hp F' (by omega)]
    simp only [Option.bind_some]
    exact tyLoop_mono (by omega) (tyLoop_qs rbp rest r k k (Nat.le_refl _) _ b hlowk hcont)

/-! ## consequences -/

/-- the printed form of a well-formed type starts with a token that is neither `?` nor `@` -/
theorem printTy_head (t : Ty) (hwf : t.wf = true) :
    ∃ h tl, printTy t = h :: tl ∧ isSym "?" h = false ∧ isSym "@" h = false := by
  induction t with
  | nominal p =>
    match p, hwf with
    | n :: p', _ => exact ⟨_, _, by rw [printTy, nominalToks_cons], by simp [isSym], by simp [isSym]⟩
  | optional t' ih =>
    obtain ⟨h, tl, he, h1, h2⟩ := ih (by simpa [Ty.wf] using hwf)
    exact ⟨h, tl ++ [sym "?"], by rw [printTy_optional, he]; rfl, h1, h2⟩
  | reference t' _ =>
    cases t' with
    | nominal p => exact ⟨_, _, printTy_ref_nominal p, by decide, by decide⟩
    | optional t'' => exact ⟨_, _, printTy_ref_optional t'', by decide, by decide⟩
    | reference t'' => exact ⟨_, _, printTy_ref_ref t'', by decide, by decide⟩

theorem expect_notSym (s : String) (h : Tok) (tl : List Tok) (hh : isSym s h = false) : expect s (h :: tl) = none := by
  rcases h with ⟨k, x, sp⟩
  cases k <;> simp [expect, isSym] at hh ⊢
  exact hh

/-- `parseTypeAnnotation` on a printed annotation -/
theorem parseAnn_print (res : Bool) (t : Ty) (hwf : t.wf = true) (rest : List Tok) (hrest : tyHeadFree rest = true)
    (F : Nat) (hF : 3 * (printAnn res t).length + 3 ≤ F) :
    parseAnn F (printAnn res t ++ rest) = some (res, t, rest) := by
  have hp : ∀ f, 3 * (mergeQ (printTy t)).length + 2 ≤ f → parseTy f 0 (mergeQ (printTy t) ++ rest) = some (t, rest) := by
    intro f hf
    have := parseTy_print t hwf 0 0 rest 1 (t, rest) f (fun _ => by decide) (tyHeadFree20_of _ hrest)
      (tyLoop_stop 0 0 _ _ hrest) (by simpa [qs] using hf)
    simpa [qs] using this
  unfold parseAnn
  unfold printAnn at hF ⊢
  cases res with
  | true =>
    simp only [if_true, List.cons_append, sym, expect, beq_self_eq_true, List.length_cons] at hF ⊢
    rw [hp F (by omega)]; rfl
  | false =>
    simp only [Bool.false_eq_true, if_false] at hF ⊢
    obtain ⟨h, tl, he, h1, h2⟩ := printTy_head t hwf
    have : expect "@" (mergeQ (printTy t) ++ rest) = none := by
      rw [he, mergeQ_cons_notQ _ _ h1]; exact expect_notSym _ _ _ h2
    rw [this, hp F (by omega)]; rfl

/-- **type round trip** on the ports -/
theorem ty_roundtrip (t : Ty) (hwf : t.wf = true) : parseTyAll (mergeQ (printTy t)) = some t := by
  have := parseTy_print t hwf 0 0 [] 1 (t, []) (3 * (mergeQ (printTy t)).length + 3) (fun _ => by decide) rfl
    (tyLoop_stop 0 0 _ _ rfl) (by simp [qs])
  simp only [qs, List.replicate_zero, List.append_nil] at this
  unfold parseTyAll
  rw [this]

end Verif.Proofs.PrattTy
