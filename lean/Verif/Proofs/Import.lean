/-
Helper lemmas for C29 (`Verif.Model.Import`).
-/
import Verif.Model.Import
namespace Verif.Proofs.Import
open Verif.Model.Types Verif.Model.Import

/-- the outcome is a value or a user error -/
def NI {α} : Outcome α → Prop
  | .internal _ => False
  | _ => True

theorem NI_ok {α} (a : α) : NI (Outcome.ok a) := trivial
theorem NI_user {α} (s : Stage) : NI (Outcome.user s : Outcome α) := trivial

theorem NI_bind {α β} (o : Outcome α) (f : α → Outcome β) (h : NI o) (hf : ∀ a, NI (f a)) : NI (o.bind f) := by
  cases o with
  | ok a => exact hf a
  | user s => trivial
  | internal w => exact h

theorem NI_map {α β} (o : Outcome α) (f : α → β) (h : NI o) : NI (o.map f) := by
  cases o with
  | ok a => trivial
  | user s => trivial
  | internal w => exact h

theorem NI_cases {α} (o : Outcome α) (h : NI o) : (∃ a, o = .ok a) ∨ (∃ s, o = .user s) := by
  cases o with
  | ok a => exact .inl ⟨a, rfl⟩
  | user s => exact .inr ⟨s, rfl⟩
  | internal w => exact h.elim

theorem buildDict_NI (c : Ctx) (kt vt : Ty) : ∀ (ps acc : IPairs), NI (buildDict c kt vt acc ps)
  | .nil, acc => by simp [buildDict, NI]
  | .cons k v r, acc => by
    simp only [buildDict]
    split
    · trivial
    · split
      · trivial
      · exact buildDict_NI c kt vt r _

theorem setChecked_NI (name : String) (v : IV) : ∀ (fs : IFields), NI (fs.setChecked name v)
  | .nil => by simp [IFields.setChecked, NI]
  | .cons n w r => by
    simp only [IFields.setChecked]
    split
    · split <;> trivial
    · exact NI_map _ _ (setChecked_NI name v r)

theorem buildFields_NI : ∀ (fs acc : IFields), NI (buildFields acc fs)
  | .nil, acc => by simp [buildFields, NI]
  | .cons n v r, acc => by
    simp only [buildFields]
    exact NI_bind _ _ (setChecked_NI n v acc) fun _ => buildFields_NI r _

mutual
theorem importValue_NI (c : Ctx) : ∀ (x : XV) (e : Option Ty), NI (importValue c x e)
  | .void, _ => by simp [importValue, NI]
  | .none, _ => by simp [importValue, NI]
  | .some v, e => by
    simp only [importValue]
    exact NI_map _ _ (importValue_NI c v _)
  | .bool _, _ => by simp [importValue, NI]
  | .str _, _ => by simp [importValue, NI]
  | .char _, _ => by simp [importValue, NI]
  | .addr _, _ => by simp [importValue, NI]
  | .num _ _, _ => by simp [importValue, NI]
  | .path _ _, _ => by simp [importValue, NI]
  | .arr vs, e => by
    simp only [importValue]
    refine NI_bind _ _ (importList_NI c vs _) ?_
    intro ivs
    split
    · split <;> trivial
    · split <;> trivial
    · split <;> trivial
  | .dict kvs, e => by
    simp only [importValue]
    refine NI_bind _ _ (importPairs_NI c kvs _ _) ?_
    intro ps
    split
    · exact NI_map _ _ (buildDict_NI c _ _ _ _)
    · split
      · split
        · trivial
        · exact NI_map _ _ (buildDict_NI c _ _ _ _)
      · trivial
  | .comp kind id fs, _ => by
    simp only [importValue]
    split
    · trivial
    · refine NI_bind _ _ (importFields_NI c fs _) ?_
      intro ifs
      refine NI_bind _ _ (buildFields_NI ifs _) ?_
      intro built
      split
      · split
        · trivial
        · split
          · split <;> trivial
          · trivial
      · trivial
  | .typeV (some t), _ => by simp [importValue, NI]
  | .typeV none, _ => by simp [importValue, NI]
  | .cap id a b, _ => by
    simp only [importValue]
    split <;> trivial
  | .func, _ => by simp [importValue, NI]
  | .contract, _ => by simp [importValue, NI]
theorem importList_NI (c : Ctx) : ∀ (xs : XVs) (e : Option Ty), NI (importList c xs e)
  | .nil, _ => by simp [importList, NI]
  | .cons v r, e => by
    simp only [importList]
    exact NI_bind _ _ (importValue_NI c v e) fun _ => NI_map _ _ (importList_NI c r e)
theorem importPairs_NI (c : Ctx) : ∀ (xs : XPairs) (kt vt : Option Ty), NI (importPairs c xs kt vt)
  | .nil, _, _ => by simp [importPairs, NI]
  | .cons k v r, kt, vt => by
    simp only [importPairs]
    exact NI_bind _ _ (importValue_NI c k kt) fun _ =>
      NI_bind _ _ (importValue_NI c v vt) fun _ => NI_map _ _ (importPairs_NI c r kt vt)
theorem importFields_NI (c : Ctx) : ∀ (xs : XFields) (d : List (String × Ty)), NI (importFields c xs d)
  | .nil, _ => by simp [importFields, NI]
  | .cons n v r, d => by
    simp only [importFields]
    exact NI_bind _ _ (importValue_NI c v _) fun _ => NI_map _ _ (importFields_NI c r d)
end

theorem importArg_NI (c : Ctx) (a : Option XV) (t : Ty) : NI (importArg c a t) := by
  unfold importArg
  cases a with
  | none => trivial
  | some x =>
    refine NI_bind _ _ (importValue_NI c x _) ?_
    intro v
    split
    · trivial
    · split
      · trivial
      · split <;> trivial

theorem importArg_total (c : Ctx) (a : Option XV) (t : Ty) :
    (∃ v, importArg c a t = .ok v) ∨ (∃ s, importArg c a t = .user s) :=
  NI_cases _ (importArg_NI c a t)

theorem importArg_ok (c : Ctx) (a : Option XV) (t : Ty) (v : IV) (h : importArg c a t = .ok v) :
    importable c v = true ∧ c.subSema (dynType c v) t = true ∧ conforms c v = true := by
  unfold importArg at h
  cases a with
  | none => simp at h
  | some x =>
    dsimp only at h
    cases hv : importValue c x (some t) with
    | ok w =>
      rw [hv] at h
      simp only [Outcome.bind] at h
      by_cases h1 : importable c w = true
      · by_cases h2 : c.subSema (dynType c w) t = true
        · by_cases h3 : conforms c w = true
          · simp [h1, h2, h3] at h
            subst h
            exact ⟨h1, h2, h3⟩
          · simp [h1, h2, h3] at h
        · simp [h1, h2] at h
      · simp [h1] at h
    | user s => rw [hv] at h; simp [Outcome.bind] at h
    | internal w => rw [hv] at h; simp [Outcome.bind] at h

theorem importArgsLoop_NI (c : Ctx) : ∀ (args : List (Option XV)) (params : List Ty), NI (importArgsLoop c args params)
  | [], _ => by simp [importArgsLoop, NI]
  | _ :: _, [] => by simp [importArgsLoop, NI]
  | a :: as, t :: ts => by
    simp only [importArgsLoop]
    exact NI_bind _ _ (importArg_NI c a t) fun _ => NI_map _ _ (importArgsLoop_NI c as ts)

theorem importArgs_total (c : Ctx) (args : List (Option XV)) (params : List Ty) :
    (∃ vs, importArgs c args params = .ok vs) ∨ (∃ s, importArgs c args params = .user s) := by
  apply NI_cases
  unfold importArgs
  split
  · trivial
  · exact importArgsLoop_NI c args params

theorem importArgs_count (c : Ctx) (args : List (Option XV)) (params : List Ty)
    (h : args.length ≠ params.length) : importArgs c args params = .user .count := by
  unfold importArgs
  simp [h]

theorem importArgsLoop_ok (c : Ctx) : ∀ (args : List (Option XV)) (params : List Ty) (vs : List IV),
    args.length = params.length → importArgsLoop c args params = .ok vs →
    vs.length = params.length ∧
    ∀ i (hi : i < vs.length) (hp : i < params.length),
      importable c vs[i] = true ∧ c.subSema (dynType c vs[i]) params[i] = true ∧ conforms c vs[i] = true
  | [], [], vs, _, h => by
    simp [importArgsLoop] at h
    subst h
    simp
  | [], _ :: _, _, hl, _ => by simp at hl
  | _ :: _, [], _, hl, _ => by simp at hl
  | a :: as, t :: ts, vs, hl, h => by
    simp only [importArgsLoop] at h
    cases ha : importArg c a t with
    | ok v =>
      rw [ha] at h
      simp only [Outcome.bind] at h
      cases hr : importArgsLoop c as ts with
      | ok ws =>
        rw [hr] at h
        simp only [Outcome.map, Outcome.ok.injEq] at h
        subst h
        have ih := importArgsLoop_ok c as ts ws (by simpa using hl) hr
        refine ⟨by simp [ih.1], ?_⟩
        intro i hi hp
        cases i with
        | zero => simpa using importArg_ok c a t v ha
        | succ j =>
          simp only [List.getElem_cons_succ]
          exact ih.2 j (by simpa using hi) (by simpa using hp)
      | user s => rw [hr] at h; simp [Outcome.map] at h
      | internal w => rw [hr] at h; simp [Outcome.map] at h
    | user s => rw [ha] at h; simp [Outcome.bind] at h
    | internal w => rw [ha] at h; simp [Outcome.bind] at h

theorem importArgs_ok (c : Ctx) (args : List (Option XV)) (params : List Ty) (vs : List IV)
    (h : importArgs c args params = .ok vs) :
    vs.length = params.length ∧
    ∀ i (hi : i < vs.length) (hp : i < params.length),
      importable c vs[i] = true ∧ c.subSema (dynType c vs[i]) params[i] = true ∧ conforms c vs[i] = true := by
  unfold importArgs at h
  by_cases hl : args.length = params.length
  · simp [hl] at h
    exact importArgsLoop_ok c args params vs hl h
  · simp [hl] at h

end Verif.Proofs.Import
