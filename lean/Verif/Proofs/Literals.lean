/-
Lemmas about Verif.Model.Front.Literals (C40).
-/
import Verif.Model.Front.Literals
namespace Verif.Proofs.Literals
open Verif.Model.Front.Literals

/-- positional value of a digit list, most significant first: Σ dᵢ·base^(n−1−i) -/
def posValue (base : Nat) : List Nat → Nat
  | [] => 0
  | d :: ds => d * base ^ ds.length + posValue base ds

/-- `s` is a digit string of the base with digit values `ds` -/
def Digits (base : Nat) (s : List Char) (ds : List Nat) : Prop :=
  s.map digitVal = ds.map some ∧ ∀ d ∈ ds, d < base

theorem foldl_horner (base : Nat) (s : List Char) (ds : List Nat) (h : Digits base s ds) (acc : Nat) :
    s.foldl (hornerStep base) (some acc) = some (acc * base ^ ds.length + posValue base ds) := by
  induction s generalizing ds acc with
  | nil =>
    cases ds with
    | nil => simp [posValue]
    | cons d ds => simp [Digits] at h
  | cons c s ih =>
    cases ds with
    | nil => simp [Digits] at h
    | cons d ds =>
      obtain ⟨hm, hb⟩ := h
      simp only [List.map_cons, List.cons.injEq] at hm
      have hd : d < base := hb d (by simp)
      have ih' := ih ds ⟨hm.2, fun x hx => hb x (by simp [hx])⟩ (acc * base + d)
      simp only [List.foldl_cons, hornerStep, hm.1, if_pos hd, ih', posValue, List.length_cons]
      congr 1
      rw [Nat.pow_succ, Nat.add_mul, Nat.mul_assoc, Nat.mul_comm base, Nat.add_assoc]

theorem setString_value (base : Nat) (s : List Char) (ds : List Nat) (h : Digits base s ds) (hne : s ≠ []) :
    setString s base = some (posValue base ds) := by
  unfold setString
  have : s.isEmpty = false := by cases s <;> simp_all
  rw [this]
  simp only [Bool.false_eq_true, if_false]
  rw [foldl_horner base s ds h 0]
  simp

theorem takeWhile_all {α} (p : α → Bool) (l : List α) (h : ∀ x ∈ l, p x = true) :
    l.takeWhile p = l ∧ l.dropWhile p = [] := by
  induction l with
  | nil => simp
  | cons a l ih =>
    have ha := h a (by simp)
    have := ih (fun x hx => h x (by simp [hx]))
    simp [ha, this]

/-! ### string content -/

theorem parseString_plain : ∀ (fuel : Nat) (rs acc : List Nat) (err : Bool),
    rs.length < fuel → (∀ r ∈ rs, r ≠ 92) →
    parseStringContent fuel rs acc err = (acc.reverse ++ rs, err) := by
  intro fuel
  induction fuel with
  | zero => intro rs acc err h; omega
  | succ fuel ih =>
    intro rs acc err hlen hp
    cases rs with
    | nil => simp [parseStringContent]
    | cons r rs =>
      have hr : r ≠ 92 := hp r (by simp)
      have : (r != '\\'.toNat) = true := by
        simp only [bne_iff_ne, ne_eq]; exact hr
      unfold parseStringContent
      rw [if_pos this]
      rw [ih rs (r :: acc) err (by simp at hlen; omega) (fun x hx => hp x (by simp [hx]))]
      simp

theorem scaled_lt (frac scale S : Nat) (h : scale ≤ S) (hf : frac < 10 ^ scale) :
    scaleFractional frac scale S = frac * 10 ^ (S - scale) ∧ frac * 10 ^ (S - scale) < 10 ^ S := by
  have hp : (10 : Nat) ^ S = 10 ^ scale * 10 ^ (S - scale) := by rw [← Nat.pow_add]; congr 1; omega
  constructor
  · unfold scaleFractional
    by_cases he : scale ≥ S
    · have : scale = S := by omega
      simp [this]
    · simp [he, Nat.mul_comm]
  · rw [hp]; exact Nat.mul_lt_mul_of_pos_right hf (Nat.pow_pos (by decide))

end Verif.Proofs.Literals
