import Verif.Proofs.Lexer
/-!
C37 — totality of the lexer port: `run`'s fuel `2·len + 4` suffices, no "second backup" panic, no slice
panic, no exhausted loop fuel.  Composition of the per-primitive lemmas of `Verif.Proofs.Lexer`
(`A` / `B` states) through the seven state functions, with the measure
`2·(len − endOffset) + (1 for rootState, 2 for the others)`.
-/
namespace Verif.Proofs.LexerTotal
open Verif.Model.Front Verif.Model.Front.Lexer Verif.Proofs.Lexer Verif.Proofs.LexerWalk

/-! ### primitives -/

theorem next_ne_A {n m : Nat} {l : L} (h : A n m l) (hne : (next l).2 ≠ EOF) : A n (m + 1) (next l).1 := by
  obtain ⟨hb, hr⟩ := next_B h
  exact B_A hb (by rw [← hr]; exact hne)

theorem next_eq_A {n m : Nat} {l : L} {c : Rune} (h : A n m l) (heq : (next l).2 = c) (hc : c ≠ EOF) :
    A n (m + 1) (next l).1 := next_ne_A h (by rw [heq]; exact hc)

theorem next_backup_A {n m : Nat} {l : L} (h : A n m l) : A n m (backupOne (next l).1) :=
  backup_A (next_B h).1

theorem acceptOne_A {n m : Nat} {l : L} (c : Rune) (hc : c ≠ EOF) (h : A n m l) : A n m (acceptOne c l).1 := by
  simp only [acceptOne]
  split
  · rename_i heq; exact A_mono (next_eq_A h heq hc) (by omega)
  · exact next_backup_A h

theorem acceptOne_true_A {n m : Nat} {l : L} (c : Rune) (hc : c ≠ EOF) (h : A n m l) (ht : (acceptOne c l).2 = true) :
    A n (m + 1) (acceptOne c l).1 := by
  simp only [acceptOne] at ht ⊢
  split
  · rename_i heq; exact next_eq_A h heq hc
  · rename_i hne; simp [hne] at ht

theorem A_lo1 {n m : Nat} {l : L} (h : A n (m + 1) l) : 1 ≤ l.endOffset := by have := h.lo; omega

theorem scanFixedPointRemainder_A {n m : Nat} {l : L} (h : A n m l) (h1 : 1 ≤ m) :
    A n m (scanFixedPointRemainder l) := by
  simp only [scanFixedPointRemainder]
  split
  · exact emitError_A _ (next_backup_A h) (by have := (next_backup_A h).lo; omega)
  · rename_i hd
    have hne : (next l).2 ≠ EOF := by
      intro he; rw [he] at hd; exact hd (by decide)
    exact A_mono (acceptWhile_A _ (by decide) _ (next_ne_A h hne)) (by omega)

theorem scanDecimal_A {n m : Nat} {l : L} (h : A n m l) (h1 : 1 ≤ m) :
    A n m (scanDecimalOrFixedPointRemainder l).1 := by
  simp only [scanDecimalOrFixedPointRemainder]
  have ha := acceptWhile_A isDecimalDigitOrUnderscore (by decide) l h
  split
  · rename_i heq
    exact A_mono (scanFixedPointRemainder_A (next_eq_A ha heq (by decide)) (by omega)) (by omega)
  · exact next_backup_A ha

theorem emitType_A1 {n m : Nat} (ty : Nat) {l : L} (h : A n m l) (h1 : 1 ≤ m) : A n m (emitType ty l) :=
  emitType_A ty l h (by have := h.lo; omega)

theorem emitError_A1 {n m : Nat} {l : L} (h : A n m l) (h1 : 1 ≤ m) : A n m (emitError l) :=
  emitError_A l h (by have := h.lo; omega)

theorem next_eq_A0 {n m : Nat} {l : L} {c : Rune} (h : A n m l) (heq : (next l).2 = c) (hc : c ≠ EOF) :
    A n m (next l).1 := A_mono (next_eq_A h heq hc) (by omega)

theorem next_pred_A0 {n m : Nat} {l : L} {f : Rune → Bool} (h : A n m l)
    (hp : f (next l).2 = true) (hf : f EOF = false) : A n m (next l).1 :=
  A_mono (next_ne_A h (by intro he; rw [he, hf] at hp; exact absurd hp (by decide))) (by omega)

theorem A_set_openBrackets {n m : Nat} {l : L} (v : Int) (h : A n m l) : A n m { l with openBrackets := v } :=
  ⟨h.size, h.lo, h.hi, h.se, h.ok, h.ch, h.k⟩
theorem A_set_mode {n m : Nat} {l : L} (v : Mode) (h : A n m l) : A n m { l with mode := v } :=
  ⟨h.size, h.lo, h.hi, h.se, h.ok, h.ch, h.k⟩

theorem next_fields (l : L) : (next l).1.input = l.input ∧ (next l).1.prevEndOffset = l.endOffset ∧
    (next l).1.startOffset = l.startOffset ∧ (next l).1.startPos = l.startPos := ⟨rfl, rfl, rfl, rfl⟩

theorem acceptOne_true_eq (c : Rune) (l : L) (h : (acceptOne c l).2 = true) : (acceptOne c l).1 = (next l).1 := by
  simp only [acceptOne] at h ⊢
  split
  · rfl
  · rename_i hne; simp [hne] at h

theorem emit_input (ty : Nat) (nl : Bool) (rs : Int × Pos) (consume : Bool) (l : L) :
    (emit ty nl rs consume l).input = l.input := by
  have hf : ∀ (x : L) (e : LexErr), (x.fail e).input = x.input := fun x e => (fail_fields x e).1
  unfold emit
  split
  · rfl
  · split
    · exact hf _ _
    · split
      · exact hf _ _
      · cases consume
        · rfl
        · simp only [if_true]
          split
          · rw [hf]
          · rfl

theorem emitType_input (ty : Nat) (l : L) : (emitType ty l).input = l.input := emit_input _ _ _ _ _

/-- two more runes after a walk -/
theorem walk_two {inp : Bytes} {a b : Nat} {pa pb : Pos} (h : Walk inp a pa b pb) (e1 e2 : Nat) (h1 : b < inp.size)
    (he1 : e1 = b + (decodeRune inp b).2) (h2 : e1 < inp.size) (he2 : e2 = e1 + (decodeRune inp e1).2) :
    ∃ pe, Walk inp a pa e2 pe := by
  subst he1; subst he2
  exact ⟨_, Walk.step (Walk.step h h1) h2⟩

/-! ### the state functions -/

attribute [local irreducible] emit emitType emitError next backupOne acceptWhile scanString acceptOne
  scanFixedPointRemainder scanDecimalOrFixedPointRemainder L.fail

macro "a_step" : tactic => `(tactic| repeat' (first
  | assumption
  | omega
  | apply emitType_A1
  | apply emitError_A1
  | apply acceptWhile_A _ (by decide)
  | apply scanString_A
  | apply next_backup_A
  | apply scanFixedPointRemainder_A
  | apply scanDecimal_A
  | apply acceptOne_A _ (by decide)
  | refine next_eq_A0 ?_ (by assumption) (by decide)
  | refine next_pred_A0 ?_ (by assumption) (by decide)))

theorem numberStep_A {n m : Nat} {l : L} (h : A n m l) (h1 : 1 ≤ m) : A n m (numberStep l) := by
  simp only [numberStep]
  split
  · split
    · a_step
    · split
      · a_step
      · split
        · a_step
        · split
          · a_step
          · split
            · a_step
            · split
              · a_step
              · split
                · a_step
                · a_step
  · a_step

theorem wordIsAs_isSome {n m : Nat} {l : L} (h : A n m l) : wordIsAs l ≠ none := by
  unfold wordIsAs
  have := h.hi; have := h.se; have := h.size
  split
  · omega
  · simp

theorem identifierStep_A {n m : Nat} {l : L} (h : A n m l) (h1 : 1 ≤ m) : A n m (identifierStep l) := by
  simp only [identifierStep]
  have ha := acceptWhile_A isIdentifierRune (by decide) l h
  split
  · rename_i hw; exact absurd hw (wordIsAs_isSome ha)
  · split
    · a_step
    · split <;> a_step
  · a_step

/-- after a state function: no error other than the token limit; if the loop of `run` continues, the state
    is inside the input, nothing read ahead, `endOffset ≥ m` -/
def Post (n m : Nat) (r : Option St × L) : Prop := OkErr r.2 ∧ K r.2 ∧ (r.1.isSome → A n m r.2)

theorem post_some {n m : Nat} {st : St} {l : L} (h : A n m l) : Post n m (some st, l) := ⟨h.ok, h.k, fun _ => h⟩
theorem post_none {n m : Nat} {l : L} (h : OkErr l) (hk : K l) : Post n m (none, l) := ⟨h, hk, fun h' => by simp at h'⟩
theorem post_lexError {n m k : Nat} {l : L} (h : A n k l) (h1 : 1 ≤ k) : Post n m (lexError l) :=
  post_none (emitError_A1 h h1).ok (emitError_A1 h h1).k

attribute [local irreducible] lexError

macro "p_step" : tactic => `(tactic| first
  | (apply post_some; a_step; done)
  | (apply post_lexError (k := _) <;> a_step; done))

theorem classify_eof : classify EOF = .eof := by simp [classify]

theorem rootStep_post {n m : Nat} {l : L} (h : A n m l) : Post n (m + 1) (rootStep l) := by
  simp only [rootStep]
  by_cases heof : (next l).2 = EOF
  · rw [heof, classify_eof]
    exact post_none (next_B h).1.ok (next_B h).1.k
  · have ha : A n (m + 1) (next l).1 := next_ne_A h heof
    split
    · exact post_none ha.ok ha.k
    all_goals try (first
      | (p_step; done)
      | (split <;> p_step; done)
      | (split <;> (try split) <;> p_step; done)
      | (split <;> (try split) <;> (try split) <;> p_step; done))
    · -- `(`
      apply post_some; apply emitType_A1
      · split
        · exact A_set_openBrackets _ ha
        · exact ha
      · omega
    · -- `)`
      have he := emitType_A1 T.parenClose ha (by omega)
      split
      · split
        · exact post_some ⟨he.size, he.lo, he.hi, he.se, he.ok, he.ch, he.k⟩
        · exact post_some ⟨he.size, he.lo, he.hi, he.se, he.ok, he.ch, he.k⟩
      · exact post_some he
    · -- `\`
      split
      · split
        · apply post_some; apply A_set_openBrackets; a_step
        · p_step
      · p_step


theorem emit_endOffset (ty : Nat) (nl : Bool) (rs : Int × Pos) (consume : Bool) (l : L) :
    (emit ty nl rs consume l).endOffset = l.endOffset := by
  have hf : ∀ (x : L) (e : LexErr), (x.fail e).endOffset = x.endOffset := by
    intro x e; unfold L.fail; split <;> rfl
  unfold emit
  split
  · rfl
  · split
    · exact hf _ _
    · split
      · exact hf _ _
      · cases consume
        · rfl
        · simp only [if_true]
          split
          · rw [hf]
          · rfl

theorem blockCommentStep_post {n : Nat} {l : L} (k : Nat) (h : A n l.endOffset l) :
    Post n (l.endOffset + 1) (blockCommentStep k l) := by
  simp only [blockCommentStep]
  by_cases heof : (next l).2 = EOF
  · simp only [heof, if_true]
    exact post_none (next_B h).1.ok (next_B h).1.k
  · have ha : A n (l.endOffset + 1) (next l).1 := next_ne_A h heof
    have hprev : (next l).1.prevEndOffset = l.endOffset := by
      have : ∀ x : L, (next x).1.prevEndOffset = x.endOffset := by
        intro x; unfold next; rfl
      exact this l
    simp only [heof, if_false]
    -- the content token before a nested `/*` or a closing `*/`
    have hcontent : ∀ (c : Rune), c ≠ EOF → (acceptOne c (next l).1).2 = true →
        A n (l.endOffset + 1)
          (if (acceptOne c (next l).1).1.startOffset < (next l).1.prevEndOffset then
            { emitType T.blockCommentContent { (acceptOne c (next l).1).1 with endOffset := (next l).1.prevEndOffset } with
              endOffset := (acceptOne c (next l).1).1.endOffset }
          else (acceptOne c (next l).1).1) := by
      intro c hc ht
      have h2 := acceptOne_true_A c hc ha ht
      have heq2 := acceptOne_true_eq c _ ht
      have hfr : Frame l (acceptOne c (next l).1).1 := (frame_next l).trans (frame_acceptOne c _)
      have hkey := hfr.1
      have hin2 : (acceptOne c (next l).1).1.input = l.input := congrArg (·.2.2.2.2.1) hkey
      have hso2 : (acceptOne c (next l).1).1.startOffset = l.startOffset := congrArg (·.2.2.1) hkey
      have hsp2 : (acceptOne c (next l).1).1.startPos = l.startPos := congrArg (·.2.2.2.1) hkey
      split
      · rename_i hlt
        rw [hprev] at hlt ⊢
        have hmid : A n l.endOffset { (acceptOne c (next l).1).1 with endOffset := l.endOffset } := by
          refine ⟨h2.size, Nat.le_refl _, h.hi, Nat.le_of_lt hlt, h2.ok, ?_, K_frame hfr h.k⟩
          show ∃ pe, Walk (acceptOne c (next l).1).1.input (acceptOne c (next l).1).1.startOffset
            (acceptOne c (next l).1).1.startPos l.endOffset pe
          rw [hin2, hso2, hsp2]; exact h.ch
        have hem := emitType_A T.blockCommentContent _ hmid (by show 1 ≤ l.endOffset; omega)
        have heo : (emitType T.blockCommentContent { (acceptOne c (next l).1).1 with endOffset := l.endOffset }).endOffset
            = l.endOffset := by
          have : ∀ (ty : Nat) (x : L), (emitType ty x).endOffset = x.endOffset := by
            intro ty x; unfold emitType; exact emit_endOffset _ _ _ _ _
          rw [this]
        have hei : (emitType T.blockCommentContent { (acceptOne c (next l).1).1 with endOffset := l.endOffset }).input
            = l.input := by
          rw [emitType_input]; exact hin2
        -- the two runes `/*` (`*/`) after the content
        have hb1 := (next_B h).1
        have hcur1 : (next l).1.current ≠ EOF := by rw [← (next_B h).2]; exact heof
        have hlt1 : l.endOffset < n := by
          have := hb1.ne hcur1; have := hb1.lt; rw [hprev] at this; omega
        have he1 : (next l).1.endOffset = l.endOffset + (decodeRune l.input l.endOffset).2 := by
          have := hb1.ew (by rw [hprev]; exact hlt1)
          rw [hprev, (next_fields l).1] at this; exact this
        have hb2 := (next_B ha).1
        have hcur2 : (next (next l).1).1.current ≠ EOF := by
          rw [← (next_B ha).2]
          have : (acceptOne c (next l).1).2 = true := ht
          simp only [acceptOne] at this
          by_cases hc2 : (next (next l).1).2 = c
          · rw [hc2]; exact hc
          · simp [hc2] at this
        have hlt2 : (next l).1.endOffset < n := by
          have := hb2.ne hcur2; have := hb2.lt; rw [(next_fields (next l).1).2.1] at this; omega
        have he2 : (acceptOne c (next l).1).1.endOffset =
            (next l).1.endOffset + (decodeRune l.input (next l).1.endOffset).2 := by
          rw [heq2]
          have := hb2.ew (by rw [(next_fields (next l).1).2.1]; exact hlt2)
          rw [(next_fields (next l).1).2.1, (next_fields (next l).1).1, (next_fields l).1] at this; exact this
        obtain ⟨pem, hwem⟩ := hem.ch
        rw [heo, hei] at hwem
        have hsz : l.input.size = n := h.size
        obtain ⟨pe', hwe'⟩ := walk_two hwem _ _ (by omega) he1 (by omega) he2
        refine ⟨hem.size, ?_, h2.hi, ?_, hem.ok, ?_, hem.k⟩
        · have := h2.lo; show l.endOffset + 1 ≤ (acceptOne c (next l).1).1.endOffset; omega
        · have hse := hem.se; have := h2.lo; rw [heo] at hse
          exact Nat.le_trans hse (by show l.endOffset ≤ (acceptOne c (next l).1).1.endOffset; omega)
        · refine ⟨pe', ?_⟩
          show Walk (emitType T.blockCommentContent _).input (emitType T.blockCommentContent _).startOffset
            (emitType T.blockCommentContent _).startPos (acceptOne c (next l).1).1.endOffset pe'
          rw [hei]; exact hwe'
      · exact A_mono h2 (by omega)
    split
    · split
      · rename_i ht
        exact post_some (emitType_A1 _ (hcontent 42 (by decide) ht) (by omega))
      · exact post_some (acceptOne_A 42 (by decide) ha)
    · split
      · split
        · rename_i ht
          exact post_some (emitType_A1 _ (hcontent 47 (by decide) ht) (by omega))
        · exact post_some (acceptOne_A 47 (by decide) ha)
      · exact post_some ha

/-! ### the loop of `run` -/

/-- what holds whenever `run` calls a state function: inside the input, nothing read ahead, no error other
    than the token limit; every state function except `rootState` is entered after at least one rune -/
def Inv (st : St) (l : L) : Prop := A l.input.size 0 l ∧ (st ≠ .root → 1 ≤ l.endOffset)

/-- the measure: two calls per remaining byte, `rootState` one less -/
def mu (st : St) (l : L) : Nat := 2 * (l.input.size - l.endOffset) + (if st = .root then 1 else 2)

theorem A_self {n m : Nat} {l : L} (h : A n m l) : A n l.endOffset l :=
  ⟨h.size, Nat.le_refl _, h.hi, h.se, h.ok, h.ch, h.k⟩

/-- a state function that returns to `rootState` without moving backwards -/
theorem back_to_root {n : Nat} {st : St} {l l' : L} (hst : st ≠ .root) (h : A n l.endOffset l)
    (h' : A n l.endOffset l') :
    (OkErr l' ∧ K l') ∧ ∀ st', (some St.root, l').1 = some st' →
      Inv st' l' ∧ mu st' l' < mu st l ∧ l'.input.size = l.input.size := by
  refine ⟨⟨h'.ok, h'.k⟩, fun st' he => ?_⟩
  have : st' = .root := by simpa using he.symm
  subst this
  refine ⟨⟨by rw [h'.size]; exact A_mono h' (Nat.zero_le _), fun hne => absurd rfl hne⟩, ?_, by rw [h'.size, h.size]⟩
  simp only [mu, h.size, h'.size, hst, if_true, if_false]
  have := h'.lo; have := h'.hi; have := h.hi
  omega

theorem post_progress {n : Nat} {st : St} {l : L} {r : Option St × L} (h : A n l.endOffset l)
    (hp : Post n (l.endOffset + 1) r) :
    (OkErr r.2 ∧ K r.2) ∧ ∀ st', r.1 = some st' → Inv st' r.2 ∧ mu st' r.2 < mu st l ∧ r.2.input.size = l.input.size := by
  refine ⟨⟨hp.1, hp.2.1⟩, fun st' he => ?_⟩
  have ha := hp.2.2 (by rw [he]; rfl)
  refine ⟨⟨by rw [ha.size]; exact A_mono ha (Nat.zero_le _), fun _ => by have := ha.lo; omega⟩, ?_, by rw [ha.size, h.size]⟩
  simp only [mu, h.size, ha.size]
  have := ha.lo; have := ha.hi; have := h.hi
  split <;> split <;> omega

theorem step_post (st : St) (l : L) (h : Inv st l) :
    (OkErr (step st l).2 ∧ K (step st l).2) ∧ ∀ st', (step st l).1 = some st' →
      Inv st' (step st l).2 ∧ mu st' (step st l).2 < mu st l ∧ (step st l).2.input.size = l.input.size := by
  obtain ⟨h0, h1⟩ := h
  have hs := A_self h0
  cases st with
  | root => exact post_progress hs (rootStep_post hs)
  | blockComment k => exact post_progress hs (blockCommentStep_post k hs)
  | number => exact back_to_root (by decide) hs (numberStep_A hs (h1 (by decide)))
  | identifier => exact back_to_root (by decide) hs (identifierStep_A hs (h1 (by decide)))
  | space nl =>
    have h1' := h1 (by simp)
    simp only [step, scanSpace]
    exact back_to_root (by simp) hs (emit_A _ _ _ _ _ (acceptWhile_A isSpaceRune (by decide) l hs)
      (by have := (acceptWhile_A isSpaceRune (by decide) l hs).lo; omega) ⟨fun h => by simp at h, fun _ => rfl⟩)
  | string =>
    have h1' := h1 (by decide)
    simp only [step]
    exact back_to_root (by decide) hs (emitType_A1 _ (scanString_A l hs) h1')
  | lineComment =>
    have h1' := h1 (by decide)
    simp only [step]
    exact back_to_root (by decide) hs (emitType_A1 _ (acceptWhile_A _ (by decide) l hs) h1')

theorem run_total : ∀ (fuel : Nat) (st : St) (l : L), Inv st l → mu st l ≤ fuel →
    (run fuel st l).1 ≠ .outOfFuel ∧ OkErr (run fuel st l).2 ∧ K (run fuel st l).2 := by
  intro fuel
  induction fuel with
  | zero => intro st l _ hm; simp only [mu] at hm; split at hm <;> omega
  | succ fuel ih =>
    intro st l hi hm
    obtain ⟨⟨hok, hk⟩, hnext⟩ := step_post st l hi
    simp only [run]
    split
    · exact ⟨by simp, hok, hk⟩
    · cases hr : (step st l).1 with
      | none => exact ⟨by simp, hok, hk⟩
      | some st' =>
        obtain ⟨hi', hm', _⟩ := hnext st' hr
        exact ih st' _ hi' (by omega)

theorem inv_init (inp : Bytes) (limit : Nat) : Inv .root (L.init inp limit) :=
  ⟨⟨rfl, Nat.le_refl _, Nat.zero_le _, Nat.le_refl _, Or.inl rfl, ⟨_, Walk.refl _ _⟩,
    ⟨⟨1, 0⟩, Walk.refl _ _, fun _ => rfl, trivial⟩⟩, fun h => absurd rfl h⟩

/-- `run`'s fuel suffices and the only panic of the port is the token limit -/
theorem lexWith_total (limit : Nat) (inp : Bytes) :
    (lexWith limit inp).stop ≠ .outOfFuel ∧
    ((lexWith limit inp).final.err = none ∨ (lexWith limit inp).final.err = some .tokenLimit) := by
  have := run_total (fuelFor inp) .root (L.init inp limit) (inv_init inp limit) (by
    simp [mu, fuelFor, L.init])
  exact ⟨this.1, this.2.1⟩

/-- the tokens of a lexer run satisfy `ExactRev` -/
theorem lexWith_exactRev (limit : Nat) (inp : Bytes) :
    Verif.Spec.Tokens.ExactRev (lexWith limit inp).final.input (lexWith limit inp).final.toks := by
  have := run_total (fuelFor inp) .root (L.init inp limit) (inv_init inp limit) (by
    simp [mu, fuelFor, L.init])
  obtain ⟨_, _, _, h⟩ := this.2.2
  exact h

end Verif.Proofs.LexerTotal
