import Verif.Proofs.Text
/-! C17: what `toString` of a fixed-point value looks like (towards the fixed-point string round trip). -/
namespace Verif.Proofs.Text
open Verif.Model.NumT Verif.Model.Text

theorem natDigits_length : ∀ (k n : Nat), 1 ≤ k → n < 10 ^ k → (natDigits n).length ≤ k
  | 0, _, h, _ => by omega
  | k + 1, n, _, hn => by
    rw [natDigits]
    split
    · simp
    · rename_i h10
      have hk : 1 ≤ k := by
        cases k with
        | zero => simp at hn; omega
        | succ k => omega
      have := natDigits_length k (n / 10) hk (by rw [Nat.pow_succ] at hn; omega)
      simp; omega

theorem padLeft_length (s : List Char) (c : Char) (n : Nat) (h : s.length ≤ n) : (padLeft s c n).length = n := by
  simp [padLeft]; omega

theorem tmod_natAbs_lt (x f : Int) (hf : 0 < f) : (Int.tmod x f).natAbs < f.natAbs := by
  have h1 := Int.tmod_lt_of_pos x hf
  have h2 : -f < Int.tmod x f := by
    have := Int.tmod_lt_of_pos (-x) hf
    rw [Int.neg_tmod] at this; omega
  omega

/-- `toString` of a fixed-point value always writes exactly `scale` fractional digits -/
theorem fixText_fraction_width (scale : Nat) (hs : 1 ≤ scale) (raw : Int) :
    (padLeft (natDigits (Int.tmod raw ((10 : Int) ^ scale)).natAbs) '0' scale).length = scale := by
  apply padLeft_length
  apply natDigits_length scale _ hs
  have hf : (0 : Int) < (10 : Int) ^ scale := Int.pow_pos (by omega)
  have := tmod_natAbs_lt raw _ hf
  have e : ((10 : Int) ^ scale).natAbs = 10 ^ scale := by
    rw [Int.natAbs_pow]; rfl
  omega

theorem ofDigits_zeros (k : Nat) (l : List Char) : ofDigits (List.replicate k '0' ++ l) = ofDigits l := by
  induction k with
  | zero => rfl
  | succ k ih =>
    rw [List.replicate_succ, List.cons_append]
    show List.foldl _ (0 * 10 + digitVal '0') _ = _
    exact ih

theorem fixed_scale_pos (t : NumTy) (ht : t.fixed = true) : 1 ≤ t.scale := by
  cases t <;> simp [NumTy.fixed, NumTy.kind] at ht <;> decide

/-- the text of a fixed-point value: something, a dot, then exactly `scale` digits whose value is the
magnitude of the (truncated) fractional part -/
theorem fixText_shape (t : NumTy) (ht : t.fixed = true) (x : Int) :
    ∃ ip fp, Model.Text.toString t x = ip ++ '.' :: fp ∧ fp.length = t.scale ∧ fp.all isDigit = true ∧
      ofDigits fp = (Int.tmod x ((10 : Int) ^ t.scale)).natAbs := by
  unfold Model.Text.toString
  rw [if_pos ht]
  unfold fixText
  refine ⟨(if Int.tmod x ((10 : Int) ^ t.scale) < 0 ∧ Int.tdiv x ((10 : Int) ^ t.scale) = 0 then ['-'] else []) ++
      intText (Int.tdiv x ((10 : Int) ^ t.scale)),
    padLeft (natDigits (Int.tmod x ((10 : Int) ^ t.scale)).natAbs) '0' t.scale, ?_,
    fixText_fraction_width t.scale (fixed_scale_pos t ht) x, ?_, ?_⟩
  · simp only [List.append_assoc, List.singleton_append]
  · obtain ⟨_, h2, _, _⟩ := natDigits_spec (Int.tmod x ((10 : Int) ^ t.scale)).natAbs
    simp only [padLeft, List.all_append, h2, Bool.and_true, List.all_replicate]
    simp [isDigit]
  · obtain ⟨h1, _, _, _⟩ := natDigits_spec (Int.tmod x ((10 : Int) ^ t.scale)).natAbs
    simp only [padLeft, ofDigits_zeros, h1]

end Verif.Proofs.Text
