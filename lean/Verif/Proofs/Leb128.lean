import Verif.Model.Codec.Leb128
import Verif.Spec.Leb128
/-! Helper lemmas for C35 (LEB128), unsigned part. -/
namespace Verif.Proofs.Leb128
open Verif.Model.Leb128 Verif.Spec.Leb128

/-! ### bit operations as arithmetic -/

theorem and_7f (v : Nat) : v &&& 0x7f = v % 128 := Nat.and_two_pow_sub_one_eq_mod v 7

theorem shr_7 (v : Nat) : v >>> 7 = v / 128 := Nat.shiftRight_eq_div_pow v 7

theorem or_80 (c : Nat) (h : c < 128) : c ||| 0x80 = c + 128 := by
  have := Nat.two_pow_add_eq_or_of_lt (i := 7) (b := c) (by simpa using h) 1
  rw [Nat.or_comm]
  simp at this
  omega

set_option maxRecDepth 100000 in
theorem and_80_small : ∀ b, b < 128 → b &&& 0x80 = 0 := by decide
set_option maxRecDepth 100000 in
theorem and_80_big : ∀ b, b < 256 → 128 ≤ b → b &&& 0x80 = 0x80 := by decide

theorem u8_toNat (n : Nat) (h : n < 256) : (u8 n).toNat = n := by
  simp [u8, UInt8.toNat_ofNat']
  omega

theorem shl_or (result d s : Nat) (h : result < 2 ^ s) : result ||| (d <<< s) = result + d * 2 ^ s := by
  rw [Nat.or_comm, ← Nat.shiftLeft_add_eq_or_of_lt h, Nat.shiftLeft_eq]
  omega

/-! ### digit strings -/

/-- bytes of a digit string: continuation bit on all but the last digit -/
def encDigits : List Nat → Bytes
  | [] => []
  | [d] => [u8 d]
  | d :: e :: ds => u8 (d + 128) :: encDigits (e :: ds)

theorem encDigits_length (ds : List Nat) : (encDigits ds).length = ds.length := by
  induction ds with
  | nil => rfl
  | cons d ds ih =>
    cases ds with
    | nil => rfl
    | cons e ds => simp [encDigits, ih]

def udigits (v : Nat) : List Nat := if v < 128 then [v] else v % 128 :: udigits (v / 128)
decreasing_by omega

theorem udigits_ne_nil (v : Nat) : udigits v ≠ [] := by
  unfold udigits; split <;> simp

theorem udigits_lt (v : Nat) : ∀ d ∈ udigits v, d < 128 := by
  induction v using Nat.strongRecOn with
  | _ v ih =>
    unfold udigits
    split
    · simp; omega
    · intro d hd
      simp at hd
      rcases hd with rfl | hd
      · omega
      · exact ih (v / 128) (by omega) d hd

theorem udigits_value (v : Nat) : digitsValue (udigits v) = v := by
  induction v using Nat.strongRecOn with
  | _ v ih =>
    unfold udigits
    split
    · simp [digitsValue]
    · simp [digitsValue, ih (v / 128) (by omega)]; omega

theorem udigits_length (v : Nat) : (udigits v).length = ulebLen v := by
  induction v using Nat.strongRecOn with
  | _ v ih =>
    unfold udigits ulebLen
    split
    · rfl
    · simp [ih (v / 128) (by omega)]

theorem uleb_eq_enc (v : Nat) : uleb v = encDigits (udigits v) := by
  induction v using Nat.strongRecOn with
  | _ v ih =>
    unfold uleb udigits
    split
    · rfl
    · rw [ih (v / 128) (by omega)]
      have hne := udigits_ne_nil (v / 128)
      cases h : udigits (v / 128) with
      | nil => exact absurd h hne
      | cons e ds => simp [encDigits, u8]

theorem digitsValue_lt (ds : List Nat) (h : ∀ d ∈ ds, d < 128) : digitsValue ds < 128 ^ ds.length := by
  induction ds with
  | nil => simp [digitsValue]
  | cons d ds ih =>
    have hd : d < 128 := h d (by simp)
    have := ih (fun x hx => h x (by simp [hx]))
    simp only [digitsValue, List.length_cons, Nat.pow_succ]
    omega

theorem ulebLen_le (k : Nat) : ∀ v, v < 128 ^ k → 1 ≤ k → ulebLen v ≤ k := by
  induction k with
  | zero => intro v _ h; omega
  | succ k ih =>
    intro v hv _
    unfold ulebLen
    split
    · omega
    · have hk : 1 ≤ k := by
        rcases Nat.eq_zero_or_pos k with rfl | h
        · simp at hv; omega
        · exact h
      have : v / 128 < 128 ^ k := by
        rw [Nat.pow_succ] at hv
        omega
      have := ih (v / 128) this hk
      omega

/-! ### the encoders produce the canonical digit strings -/

theorem appendUintLoop_eq (v : Nat) : ∀ data, appendUintLoop data v = data ++ uleb v := by
  induction v using Nat.strongRecOn with
  | _ v ih =>
    intro data
    unfold appendUintLoop
    simp only [and_7f, shr_7]
    split
    · rename_i h
      rw [ih (v / 128) (by omega)]
      conv => rhs; unfold uleb
      have : ¬ v < 128 := by omega
      simp [this, or_80 (v % 128) (by omega), u8]
    · rename_i h
      have hv : v < 128 := by omega
      unfold uleb
      simp [hv, Nat.mod_eq_of_lt hv, u8]

theorem appendUint_eq (data : Bytes) (v : Nat) : appendUint data v = data ++ uleb v := by
  unfold appendUint
  split
  · rename_i h; unfold uleb; simp [h, u8]
  · exact appendUintLoop_eq v data

/-! ### reading a digit string -/

theorem getElem?_mid (pre rest : Bytes) (x : UInt8) : (pre ++ x :: rest)[pre.length]? = some x := by
  simp

theorem mul_split (d V P : Nat) : (d + 128 * V) * P = d * P + V * (P * 128) := by
  rw [Nat.add_mul, Nat.mul_comm 128 V, Nat.mul_assoc, Nat.mul_comm 128 P]

theorem readUintLoop_digits (w : Nat) (ds : List Nat) :
    ∀ (k i shift result : Nat) (pre rest : Bytes), ds ≠ [] → (∀ d ∈ ds, d < 128) → ds.length ≤ k →
      pre.length = i → result < 2 ^ shift → digitsValue ds * 2 ^ shift + result < 2 ^ w →
      readUintLoop w (pre ++ (encDigits ds ++ rest)) k i shift result i
        = .ok (result + digitsValue ds * 2 ^ shift, i + ds.length) := by
  induction ds with
  | nil => intro _ _ _ _ _ _ h; exact absurd rfl h
  | cons d ds ih =>
    intro k i shift result pre rest _ hlt hk hpre hres hfit
    have hd : d < 128 := hlt d (by simp)
    cases k with
    | zero => simp at hk
    | succ k =>
      subst hpre
      cases ds with
      | nil =>
        simp only [encDigits, List.cons_append, List.nil_append, readUintLoop, getElem?_mid]
        have hb : (u8 d).toNat = d := u8_toNat d (by omega)
        simp only [digitsValue, Nat.mul_zero, Nat.add_zero] at hfit ⊢
        have hfit' : d * 2 ^ shift < 2 ^ w := by omega
        simp only [hb, and_7f, Nat.mod_eq_of_lt hd, and_80_small d hd, wrapU, if_true]
        rw [Nat.shiftLeft_eq, Nat.mod_eq_of_lt hfit', ← Nat.shiftLeft_eq, shl_or _ _ _ hres]
        simp [Nat.shiftLeft_eq]
      | cons e ds =>
        simp only [encDigits, List.cons_append, readUintLoop, getElem?_mid]
        have hb : (u8 (d + 128)).toNat = d + 128 := u8_toNat _ (by omega)
        have hmod : (d + 128) % 128 = d := by omega
        have hsplit := mul_split d (digitsValue (e :: ds)) (2 ^ shift)
        have hP : 2 ^ (shift + 7) = 2 ^ shift * 128 := by rw [Nat.pow_add]
        have hdP : d * 2 ^ shift ≤ 127 * 2 ^ shift := Nat.mul_le_mul_right _ (by omega)
        have hV : digitsValue (d :: e :: ds) = d + 128 * digitsValue (e :: ds) := rfl
        rw [hV] at hfit ⊢
        have hdfit : d * 2 ^ shift < 2 ^ w := by omega
        simp only [hb, and_7f, hmod, and_80_big (d + 128) (by omega) (by omega), wrapU]
        rw [Nat.shiftLeft_eq, Nat.mod_eq_of_lt hdfit, ← Nat.shiftLeft_eq, shl_or _ _ _ hres]
        simp only [show ((128 : Nat) = 0) = False by decide, if_false]
        have hih := ih k (pre.length + 1) (shift + 7) (result + d * 2 ^ shift) (pre ++ [u8 (d + 128)]) rest
          (by simp) (fun x hx => hlt x (by simp [hx])) (by simp at hk ⊢; omega) (by simp)
          (by rw [hP]; omega) (by rw [hP]; omega)
        simp only [List.append_assoc, List.singleton_append] at hih
        rw [hih, hP, hsplit]
        simp only [List.length_cons]
        congr 2 <;> omega

/-- reading the canonical encoding of `v` followed by anything -/
theorem readUintLoop_uleb (w k v : Nat) (rest : Bytes) (hv : v < 2 ^ w) (hk : ulebLen v ≤ k) :
    readUintLoop w (uleb v ++ rest) k 0 0 0 0 = .ok (v, ulebLen v) := by
  have := readUintLoop_digits w (udigits v) k 0 0 0 [] rest (udigits_ne_nil v) (udigits_lt v)
    (by rw [udigits_length]; exact hk) rfl (by simp) (by simp [udigits_value]; exact hv)
  simp only [List.nil_append, Nat.pow_zero, Nat.mul_one, Nat.zero_add, udigits_value,
    udigits_length] at this
  rw [uleb_eq_enc]
  exact this

theorem uleb_length (v : Nat) : (uleb v).length = ulebLen v := by
  rw [uleb_eq_enc, encDigits_length, udigits_length]

end Verif.Proofs.Leb128
