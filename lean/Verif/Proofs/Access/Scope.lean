import Verif.Spec.AccessSpec
import Verif.Proofs.Auth
/-
C50: the port's container search, contract search and account comparison agree with the
declarative scope relations.
-/
namespace Verif.Proofs.Access
open Verif.Model.AccessCheck Verif.Model.Auth Verif.Spec.AccessSpec

theorem mem_suffixes {α} (p l : List α) : p ∈ suffixes l ↔ p ≠ [] ∧ p <:+ l := by
  induction l with
  | nil =>
    simp only [suffixes, List.not_mem_nil, false_iff, not_and]
    intro hne hs
    exact hne (List.eq_nil_of_suffix_nil hs)
  | cons x xs ih =>
    simp only [suffixes, List.mem_cons, ih]
    constructor
    · rintro (rfl | ⟨hne, hs⟩)
      · exact ⟨by simp, List.suffix_refl _⟩
      · exact ⟨hne, List.suffix_cons_iff.2 (Or.inr hs)⟩
    · rintro ⟨hne, hs⟩
      rcases List.suffix_cons_iff.1 hs with h | h
      · exact Or.inl h
      · exact Or.inr ⟨hne, h⟩

theorem containers_contains (s : Site) (t : CType) : s.containers.contains t = true ↔ Inside s t := by
  simp only [Site.containers, List.contains_iff_mem, List.mem_map, mem_suffixes, Inside]
  constructor
  · rintro ⟨p, ⟨hne, hs⟩, rfl⟩
    exact ⟨rfl, hne, hs⟩
  · rintro ⟨hl, hne, hs⟩
    exact ⟨t.path, ⟨hne, hs⟩, by cases t; simp_all⟩

theorem containingContractPath_iff (p q : List (String × CKind)) :
    containingContractPath p = some q ↔
      ∃ pre n ps, p = pre ++ (n, CKind.contract) :: ps ∧ q = (n, CKind.contract) :: ps ∧
        ∀ x ∈ pre, x.2 ≠ CKind.contract := by
  induction p with
  | nil =>
    simp only [containingContractPath]
    constructor
    · intro h; cases h
    · rintro ⟨pre, n, ps, h, _⟩
      cases pre <;> simp at h
  | cons a p ih =>
    obtain ⟨n, k⟩ := a
    simp only [containingContractPath]
    by_cases hk : k = CKind.contract
    · subst hk
      simp only [if_true]
      constructor
      · intro h
        cases h
        exact ⟨[], n, p, rfl, rfl, by simp⟩
      · rintro ⟨pre, n', ps, h, hq, hpre⟩
        cases pre with
        | nil =>
          simp only [List.nil_append, List.cons.injEq, Prod.mk.injEq] at h
          obtain ⟨⟨rfl, _⟩, rfl⟩ := h
          rw [hq]
        | cons b pre =>
          simp only [List.cons_append, List.cons.injEq] at h
          have := hpre b (by simp)
          rw [← h.1] at this
          exact absurd rfl this
    · simp only [hk, if_false, ih]
      constructor
      · rintro ⟨pre, n', ps, h, hq, hpre⟩
        refine ⟨(n, k) :: pre, n', ps, by rw [h]; rfl, hq, ?_⟩
        intro x hx
        rcases List.mem_cons.1 hx with rfl | hx
        · exact hk
        · exact hpre x hx
      · rintro ⟨pre, n', ps, h, hq, hpre⟩
        cases pre with
        | nil =>
          simp only [List.nil_append, List.cons.injEq, Prod.mk.injEq] at h
          exact absurd h.1.2 hk
        | cons b pre =>
          simp only [List.cons_append, List.cons.injEq] at h
          exact ⟨pre, n', ps, h.2, hq, fun x hx => hpre x (List.mem_cons.2 (Or.inr hx))⟩

theorem containingContract_iff (t c : CType) : containingContract t = some c ↔ IsEnclosingContract c t := by
  unfold containingContract IsEnclosingContract
  cases h : containingContractPath t.path with
  | none =>
    have hn : ∀ q, ¬ containingContractPath t.path = some q := by intro q; rw [h]; simp
    simp only [Option.map_none]
    constructor
    · intro h'; cases h'
    · rintro ⟨_, pre, n, ps, h1, h2, h3⟩
      exact absurd ((containingContractPath_iff _ _).2 ⟨pre, n, ps, h1, h2, h3⟩) (hn c.path)
  | some q =>
    simp only [Option.map_some, Option.some.injEq]
    constructor
    · rintro rfl
      exact ⟨rfl, (containingContractPath_iff _ _).1 h⟩
    · rintro ⟨hl, hex⟩
      have := (containingContractPath_iff _ _).2 hex
      rw [h] at this
      cases c
      simp_all

theorem sameAccount_iff (a b : Location) : sameAccount a b = true ↔ SameAccount a b := by
  cases a <;> cases b <;> simp [sameAccount, SameAccount]

theorem sameAccount_refl (a : Location) : sameAccount a a = true := by
  cases a <;> simp [sameAccount]

theorem inside_loc {s : Site} {t : CType} (h : Inside s t) : t.loc = s.loc := h.1

end Verif.Proofs.Access
