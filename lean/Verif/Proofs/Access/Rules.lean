import Verif.Proofs.Access.Scope
/- C50: the three rule theorems (helper proofs; statements repeated in Properties/C50.lean). -/
namespace Verif.Proofs.Access
open Verif.Model.AccessCheck Verif.Model.Auth Verif.Spec.AccessSpec

theorem strict_set (k : SetKind) (es : List Nat) : Mode.isReadableAccess .strict (.set k es) = false := by
  cases k <;> rfl
theorem strict_map (m : Mapping Nat) : Mode.isReadableAccess .strict (.map m) = false := rfl

/-- `readable` for the primitive modifiers that are not public -/
theorem readable_prim (s : Site) (p : Prim) (c : CType) (l r : Bool)
    (hp : Mode.isReadableAccess .strict (.prim p) = false) :
    readable .strict s ⟨.prim p, c, l, r⟩ =
      (if s.containers.contains c then true else primScope s p c) := by
  unfold readable
  simp only [hp, Bool.false_eq_true, if_false]

theorem contract_part (s : Site) (cont : CType) :
    primScope s .contract cont = true ↔ ∃ c, IsEnclosingContract c cont ∧ Inside s c := by
  unfold primScope
  simp only []
  cases hcc : containingContract cont with
  | none =>
    constructor
    · intro h; cases h
    · rintro ⟨c, hc1, _⟩
      have := (containingContract_iff cont c).2 hc1
      rw [hcc] at this; cases this
  | some c0 =>
    constructor
    · intro h
      exact ⟨c0, (containingContract_iff cont c0).1 hcc, (containers_contains s c0).1 h⟩
    · rintro ⟨c, hc1, hc2⟩
      have := (containingContract_iff cont c).2 hc1
      rw [hcc] at this
      have e : c0 = c := Option.some.inj this
      rw [e]
      exact (containers_contains s c).2 hc2

theorem read_iff (s : Site) (m : Member)
    (hreq : ∀ k es, m.access = .set k es → es ≠ [])
    (hheld : ∀ held, s.viaRef = some held → Verif.Spec.Auth.IsAuth held) :
    readable .strict s m = true ↔ specPermits s m := by
  obtain ⟨acc, cont, isLet, isRes⟩ := m
  cases acc with
  | prim p =>
    have hc := containers_contains s cont
    have inside_only : ∀ q : Prim, Mode.isReadableAccess .strict (.prim q) = false →
        (q ≠ .contract) → (q ≠ .account) →
        (readable .strict s ⟨.prim q, cont, isLet, isRes⟩ = true ↔ Inside s cont) := by
      intro q hq h1 h2
      rw [readable_prim s q cont isLet isRes hq, ← hc]
      cases hcon : s.containers.contains cont with
      | true => simp
      | false => cases q <;> simp_all [primScope]
    cases p with
    | all => exact ⟨fun _ => trivial, fun _ => rfl⟩
    | pubSettableLegacy => exact ⟨fun _ => trivial, fun _ => rfl⟩
    | self => exact inside_only .self rfl (by decide) (by decide)
    | notSpecified => exact inside_only .notSpecified rfl (by decide) (by decide)
    | none => exact inside_only .none rfl (by decide) (by decide)
    | contract =>
      rw [readable_prim s .contract cont isLet isRes rfl]
      show _ ↔ Inside s cont ∨ ∃ c, IsEnclosingContract c cont ∧ Inside s c
      rw [← hc, ← contract_part]
      cases hcon : s.containers.contains cont with
      | true => simp
      | false => simp
    | account =>
      rw [readable_prim s .account cont isLet isRes rfl]
      show _ ↔ Inside s cont ∨ SameAccount s.loc cont.loc
      rw [← hc, ← sameAccount_iff]
      show (if s.containers.contains cont = true then true else sameAccount s.loc cont.loc) = true ↔ _
      cases hcon : s.containers.contains cont with
      | true => simp
      | false => simp
  | set k es =>
    unfold readable
    simp only [strict_set, Bool.false_eq_true, if_false]
    show _ ↔ (match s.viaRef with
      | none => True
      | some held => ∀ H : List Nat, Verif.Spec.Auth.den held H → Verif.Spec.Auth.sat (.set k es) H = true)
    cases hv : s.viaRef with
    | none => simp
    | some held =>
      exact Verif.Proofs.Auth.permits_iff (.set k es) held (hreq k es rfl) (hheld held hv)
  | map mp =>
    unfold readable
    simp only [strict_map, Bool.false_eq_true, if_false]
    exact ⟨fun _ => trivial, fun _ => trivial⟩

theorem monotone (s : Site) (c : CType) (l r : Bool) :
    (readable .strict s ⟨.prim .self, c, l, r⟩ = true → readable .strict s ⟨.prim .contract, c, l, r⟩ = true) ∧
    (readable .strict s ⟨.prim .contract, c, l, r⟩ = true → readable .strict s ⟨.prim .account, c, l, r⟩ = true) ∧
    (readable .strict s ⟨.prim .account, c, l, r⟩ = true → readable .strict s ⟨.prim .all, c, l, r⟩ = true) := by
  rw [readable_prim s .self c l r rfl, readable_prim s .contract c l r rfl, readable_prim s .account c l r rfl]
  refine ⟨?_, ?_, fun _ => rfl⟩
  · cases hcon : s.containers.contains c with
    | true => simp
    | false => simp [primScope]
  · cases hcon : s.containers.contains c with
    | true => simp
    | false =>
      simp only [Bool.false_eq_true, if_false]
      intro h
      obtain ⟨c0, h1, h2⟩ := (contract_part s c).1 h
      have : s.loc = c.loc := by rw [← h2.1, h1.1]
      show sameAccount s.loc c.loc = true
      rw [this]; exact sameAccount_refl _

theorem write_iff (s : Site) (m : Member) (c : AssignCtx) :
    assignErrs .strict s m c = [] ↔ specAssignable s m c := by
  have hc := containers_contains s m.container
  obtain ⟨sa, ii, ini⟩ := c
  unfold assignErrs specAssignable writeable
  simp only [Mode.isWriteableAccess, Bool.false_or]
  rw [← hc]
  cases hcon : s.containers.contains m.container <;>
    cases m.isLet <;> cases m.isResource <;> cases sa <;> cases ii <;> cases ini <;> simp

end Verif.Proofs.Access
