import Verif.Model.Num.Convert
import Mathlib.Tactic.SplitIfs
/-! Helper lemmas for C16 (numeric conversions): the model `Verif.Model.Convert` against `Verif.Spec.Conv`. -/
namespace Verif.Proofs.Conv
open Verif.Model.NumT Verif.Model.Convert Verif.Spec.Conv

theorem tdiv_pos (a b : Int) : Int.tdiv a b = if 0 ≤ a then a / b else -((-a) / b) := by
  split
  · exact Int.tdiv_eq_ediv_of_nonneg ‹_›
  · have h : a = -(-a) := by omega
    rw [h, Int.neg_tdiv, Int.tdiv_eq_ediv_of_nonneg (by omega)]; simp

theorem wrapS64_id (x : Int) (h : isInt64 x) : wrapS 64 x = x := by
  simp [wrapS, isInt64] at *; omega

def ipart (src : NumTy) (raw : Int) : Int := Int.tdiv raw ((10:Int) ^ src.scale)

theorem inRange_unfold (t : NumTy) (x : Int) : t.inRange x ↔
    (match t.minRaw with | some m => m ≤ x | none => True) ∧ (match t.maxRaw with | some m => x ≤ m | none => True) := by
  unfold NumTy.inRange NumTy.belowMin NumTy.aboveMax
  cases t.minRaw <;> cases t.maxRaw <;> simp

theorem src_native (src : NumTy) (raw : Int) (h : src.inRange raw) (hb : isBigNumber src = false) :
    toInt src raw = .ok (ipart src raw) ∧ isInt64 (ipart src raw) := by
  have hq : isInt64 (ipart src raw) := by
    cases src <;> simp [isBigNumber] at hb <;>
    simp [inRange_unfold, NumTy.minRaw, NumTy.maxRaw, NumTy.signed, NumTy.kind, NumTy.bits] at h <;>
    simp [isInt64, ipart, NumTy.scale, tdiv_pos] <;> omega
  refine ⟨?_, hq⟩
  cases src <;> simp [isBigNumber] at hb
  case fix128 =>
    have e : ipart .fix128 raw = raw.tdiv fix128Factor := by simp [ipart, NumTy.scale, fix128Factor]
    rw [e] at hq ⊢
    simp only [toInt, bigInt64, if_pos hq, wrapS64_id _ hq]
  case ufix128 =>
    simp [inRange_unfold, NumTy.minRaw, NumTy.maxRaw, NumTy.signed, NumTy.kind, NumTy.bits] at h
    have e : ipart .ufix128 raw = raw / fix128Factor := by
      simp [ipart, NumTy.scale, fix128Factor, tdiv_pos, h.1]
    rw [e] at hq ⊢
    simp only [toInt, bigInt64, if_pos hq, wrapS64_id _ hq]
  case ufix64 =>
    simp [inRange_unfold, NumTy.minRaw, NumTy.maxRaw, NumTy.signed, NumTy.kind, NumTy.bits] at h
    have e : ipart .ufix64 raw = raw / fix64Factor := by
      simp [ipart, NumTy.scale, fix64Factor, tdiv_pos, h.1]
    rw [e] at hq ⊢
    simp only [toInt, wrapS64_id _ hq]
  all_goals simp [toInt, ipart, NumTy.scale, fix64Factor]

theorem big_scale (src : NumTy) (hb : isBigNumber src = true) : src.scale = 0 := by
  cases src <;> simp [isBigNumber] at hb <;> rfl

theorem ipart_big (src : NumTy) (raw : Int) (hb : isBigNumber src = true) : ipart src raw = raw := by
  simp [ipart, big_scale src hb]

theorem toBig_eq (src : NumTy) (raw : Int) (h : src.inRange raw) : toBig src raw = .ok (ipart src raw) := by
  unfold toBig
  rcases Bool.eq_false_or_eq_true (isBigNumber src) with hb | hb
  · simp [hb, ipart_big]
  · obtain ⟨h1, h2⟩ := src_native src raw h hb
    simp [hb, h1, wrapS64_id _ h2, bind, Except.bind]

theorem scaled_int (src tgt : NumTy) (raw : Int) (r : Rounding) (ht : tgt.fixed = false) :
    scaled src tgt raw r = ipart src raw := by
  have hs : tgt.scale = 0 := by cases tgt <;> simp [NumTy.fixed, NumTy.kind] at ht <;> rfl
  simp [scaled, ht, hs, roundQ, ipart]

/-- what the source delivers to a converter: either the big arm with the raw integer, or `ToInt` within int64 -/
theorem src_cases (src : NumTy) (raw : Int) (h : src.inRange raw) :
    (isBigNumber src = true ∧ ipart src raw = raw) ∨
    (isBigNumber src = false ∧ toInt src raw = .ok (ipart src raw) ∧ isInt64 (ipart src raw)) := by
  rcases Bool.eq_false_or_eq_true (isBigNumber src) with hb | hb
  · exact .inl ⟨hb, ipart_big src raw hb⟩
  · exact .inr ⟨hb, src_native src raw h hb⟩

theorem int_target_eq (src tgt : NumTy) (raw : Int) (h : src.inRange raw)
    (ht : tgt.kind = .sint ∨ tgt.kind = .uint) :
    convert tgt src raw none = specConvert src tgt raw .towardZero := by
  have htf : tgt.fixed = false := by rcases ht with ht | ht <;> simp [NumTy.fixed, ht]
  have htw : tgt.isWord = false := by rcases ht with ht | ht <;> simp [NumTy.isWord, ht]
  unfold specConvert
  simp only [scaled_int _ _ _ _ htf, htw]
  have hB := toBig_eq src raw h
  rcases src_cases src raw h with ⟨hb, hv⟩ | ⟨hb, hi, hv⟩
  · rw [hv] at hB ⊢
    cases tgt <;> simp [NumTy.kind] at ht <;>
      simp [convert, toSintNative, toInt64, toSintBig, toIntUnbounded, toUIntUnbounded, toUintNative, toUintBig, hb, hB,
        NumTy.aboveMax, NumTy.belowMin, NumTy.maxRaw, NumTy.minRaw, NumTy.signed, NumTy.kind, NumTy.bits,
        bigInt64, wrapS, wrapU, bind, Except.bind] <;>
      (repeat' split) <;> (try simp only [Except.ok.injEq]) <;> (try omega)
  · generalize ipart src raw = v at *
    simp [isInt64] at hv
    cases tgt <;> simp [NumTy.kind] at ht <;>
      simp [convert, toSintNative, toInt64, toSintBig, toIntUnbounded, toUIntUnbounded, toUintNative, toUintBig, hb, hB, hi,
        NumTy.aboveMax, NumTy.belowMin, NumTy.maxRaw, NumTy.minRaw, NumTy.signed, NumTy.kind, NumTy.bits,
        bigInt64, wrapS, wrapU, bind, Except.bind] <;>
      (repeat' split) <;> (try simp only [Except.ok.injEq]) <;> (try omega)

theorem word_target_eq (src tgt : NumTy) (raw : Int) (h : src.inRange raw) (ht : tgt.kind = .word) :
    convert tgt src raw none = .ok (ipart src raw % (2:Int) ^ tgt.bits)
    ∧ specConvert src tgt raw .towardZero = .ok (ipart src raw % (2:Int) ^ tgt.bits) := by
  have htf : tgt.fixed = false := by simp [NumTy.fixed, ht]
  have htw : tgt.isWord = true := by simp [NumTy.isWord, ht]
  refine ⟨?_, by simp [specConvert, scaled_int _ _ _ _ htf, htw]⟩
  have hB := toBig_eq src raw h
  rcases src_cases src raw h with ⟨hb, hv⟩ | ⟨hb, hi, hv⟩
  · rw [hv] at hB ⊢
    cases tgt <;> simp [NumTy.kind] at ht <;>
      simp [convert, toWordNative, toWordBig, hb, hB, NumTy.bits, bigInt64, wrapS, wrapU, bind, Except.bind] <;>
      (repeat' split) <;> (try simp only [Except.ok.injEq]) <;> (try omega)
  · generalize ipart src raw = v at *
    simp [isInt64] at hv
    cases tgt <;> simp [NumTy.kind] at ht <;>
      simp [convert, toWordNative, toWordBig, hb, hB, hi, NumTy.bits, wrapS, wrapU, bind, Except.bind] <;>
      (repeat' split) <;> (try simp only [Except.ok.injEq]) <;> (try omega)

theorem tmod_abs (a b : Int) (hb : 0 < b) : ((Int.tmod a b).natAbs : Int) = if 0 ≤ a then a % b else (-a) % b := by
  split
  · rw [Int.tmod_eq_emod_of_nonneg ‹_›]
    exact Int.natAbs_of_nonneg (Int.emod_nonneg _ (by omega))
  · have h : a = -(-a) := by omega
    rw [h, Int.neg_tmod, Int.natAbs_neg, Int.tmod_eq_emod_of_nonneg (by omega)]
    simp only [Int.neg_neg]
    exact Int.natAbs_of_nonneg (Int.emod_nonneg _ (by omega))

@[simp] theorem outcome_ok (x : Int) : outcome (.ok x) = .value x := rfl
@[simp] theorem outcome_ov : outcome (.error .overflow) = .rangeError := rfl
@[simp] theorem outcome_un : outcome (.error .underflow) = .rangeError := rfl

theorem fix_target_norounding (src tgt : NumTy) (raw : Int) (h : src.inRange raw) (ht : tgt.fixed = true) :
    sameOutcome (convert tgt src raw none) (specConvert src tgt raw .towardZero) := by
  unfold sameOutcome
  cases tgt <;> simp [NumTy.fixed, NumTy.kind] at ht <;>
  cases src <;>
    simp [inRange_unfold, NumTy.minRaw, NumTy.maxRaw, NumTy.signed, NumTy.kind, NumTy.bits] at h <;>
    simp [convert, toFix64, toUFix64, toFix128, toUFix128, scaledTo128, fix128RangeCheck, ufix128RangeCheck,
      fix128BigIntToFix64, fix128BigIntToUFix64, fix64WithInteger, ufix64WithInteger, toInt, isBigNumber,
      fix64Factor, fix128Factor, fix64To128Factor, isInt64, isUint64, bigInt64, bigUint64,
      specConvert, scaled, roundQ, NumTy.fixed, NumTy.isWord, NumTy.scale,
      NumTy.aboveMax, NumTy.belowMin, NumTy.maxRaw, NumTy.minRaw, NumTy.signed, NumTy.kind, NumTy.bits,
      tdiv_pos, wrapS, wrapU, bind, Except.bind, apply_ite outcome] <;>
    (repeat' split) <;> (try simp only [Outcome.value.injEq, reduceCtorEq]) <;> (try omega)


/-- rounding of a non-negative 24-digit raw value to 8 digits, as the spec defines it -/
def uround (r : Rounding) (a : Int) : Int := roundQ r (a * 100000000) 1000000000000000000000000

theorem uround_eq (r : Rounding) (a : Int) (h0 : 0 ≤ a) :
    uround r a = (let q := a / 10000000000000000; let m := a % 10000000000000000
      match r with
      | .towardZero => q
      | .awayFromZero => if m = 0 then q else q + 1
      | .nearestHalfAway => if 2 * m ≥ 10000000000000000 then q + 1 else q
      | .nearestHalfEven => if 2 * m > 10000000000000000 then q + 1 else if 2 * m < 10000000000000000 then q
          else if q % 2 = 0 then q else q + 1) := by
  have e := tmod_abs (a * 100000000) 1000000000000000000000000 (by decide)
  have h1 : 0 ≤ a * 100000000 := by omega
  have h2 : ¬ (a * 100000000 < 0) := by omega
  cases r <;> simp [uround, roundQ, tdiv_pos, e, h1, h2] <;> (repeat' split) <;> omega

theorem libToUFix64_eq (r : Rounding) (a : Int) (h0 : 0 ≤ a) (h1 : a < 2 ^ 128) (hz : a ≠ 0 → uround r a ≠ 0) :
    libToUFix64 a r = if uround r a ≥ 2 ^ 64 then .error .posOverflow else .ok (uround r a) := by
  by_cases ha : a = 0
  · subst ha; cases r <;> simp [libToUFix64, uround, roundQ]
  have hz' := hz ha
  rw [uround_eq r a h0] at hz' ⊢
  have hc : a / 18446744073709551616 < 10000000000000000 ↔ a / 10000000000000000 < 18446744073709551616 := by omega
  generalize hq : a / 10000000000000000 = q at *
  generalize hm : a % 10000000000000000 = m at *
  have hm0 : 0 ≤ m := by omega
  have hm1 : m < 10000000000000000 := by omega
  have hq0 : 0 ≤ q := by omega
  cases r <;> simp [libToUFix64, shouldRound, fix64To128Factor, ha, hc, hq, hm] at hz' ⊢ <;>
    split_ifs at hz' ⊢ <;> (try simp only [Except.ok.injEq, reduceCtorEq]) <;> omega

end Verif.Proofs.Conv
