/-
C08 helper lemmas: transitivity and resource-kindedness of the structured relation among nominal types
(composites, interfaces, intersections) under coherent declarations (`Coh`, `nomOK`).
-/
import Verif.Model.Types.Coherent
import Verif.Proofs.SubAgree
namespace Verif.Proofs.SubNominal
open Verif.Model.Types Verif.Model.Types.Struct Verif.Model.Auth Verif.Proofs.SubUnfold

theorem contains_iff (l : List String) (x : String) : l.contains x = true ↔ x ∈ l := by
  simp

theorem subset_iff (a b : List String) : subset a b = true ↔ ∀ x ∈ a, x ∈ b := by
  simp [subset, List.all_eq_true]

theorem mem_interSet (is : List Iface) (x : String) :
    x ∈ interSet is ↔ ∃ i ∈ is, x = i.name ∨ x ∈ i.confs := by
  simp [interSet, List.mem_flatMap, List.mem_cons]

/-- the set of interface names a nominal type is below -/
def dn : Ty → List String
  | .comp _ _ cs _ => cs
  | .inter is => interSet is
  | .iface j => j.confs
  | _ => []

def isNom : Ty → Bool
  | .comp .. => true
  | .inter _ => true
  | .iface _ => true
  | _ => false

/-- the composite kind of a nominal type -/
def kindOf : Ty → Kind → Prop
  | .comp _ k _ _, k' => k = k'
  | .inter is, k' => ∀ i ∈ is, i.kind = k'
  | .iface j, k' => j.kind = k'
  | _, _ => False

theorem dn_closed (D : List Iface) (hD : Coh D) (a : Ty) (ha : nomOK D a) (j : Iface) (hj : j ∈ D)
    (hm : j.name ∈ dn a) : (∀ y ∈ j.confs, y ∈ dn a) ∧ kindOf a j.kind := by
  cases a with
  | comp n k cs b =>
    simp only [dn] at hm ⊢
    obtain ⟨j', hj', hn, hk, hcs⟩ := ha _ hm
    have := hD.uniq _ hj' _ hj hn
    subst this
    exact ⟨hcs, hk.symm⟩
  | inter is =>
    simp only [dn] at hm ⊢
    obtain ⟨_, hall⟩ := ha
    obtain ⟨i', hi', h⟩ := (mem_interSet is _).1 hm
    obtain ⟨hi'D, hkinds⟩ := hall _ hi'
    cases h with
    | inl h =>
      have := hD.uniq _ hj _ hi'D h
      subst this
      exact ⟨fun y hy => (mem_interSet is y).2 ⟨j, hi', Or.inr hy⟩, hkinds⟩
    | inr h =>
      obtain ⟨j', hj', hn, hk, hcs⟩ := hD.closed _ hi'D _ h
      have := hD.uniq _ hj' _ hj hn
      subst this
      refine ⟨fun y hy => (mem_interSet is y).2 ⟨i', hi', Or.inr (hcs y hy)⟩, ?_⟩
      intro i hi
      rw [hkinds i hi, hk]
  | iface j0 =>
    simp only [dn] at hm ⊢
    obtain ⟨j', hj', hn, hk, hcs⟩ := hD.closed _ ha _ hm
    have := hD.uniq _ hj' _ hj hn
    subst this
    exact ⟨hcs, hk.symm⟩
  | _ => simp [dn] at hm

theorem chk_iface_mem (a : Ty) (i : Iface) (h : chk a (.iface i) = true) : isNom a = true ∧ i.name ∈ dn a := by
  rw [chk_iface] at h
  cases a <;> simp_all [dn, isNom]

theorem chk_iface_of (a : Ty) (i : Iface) (hm : i.name ∈ dn a) (hk : kindOf a i.kind) :
    chk a (.iface i) = true := by
  rw [chk_iface]
  cases a <;> simp_all [dn, kindOf]

theorem chk_inter_iff (a : Ty) (sup : List Iface) :
    chk a (.inter sup) = true ↔ (isNom a = true ∧ ∀ x ∈ interSet sup, x ∈ dn a) := by
  rw [chk_inter]
  cases a <;> simp [dn, isNom, subset_iff]

theorem res_of_kind (D : List Iface) (a : Ty) (ha : nomOK D a) (k : Kind) (hk : kindOf a k)
    (hna : k ≠ .attachment) : a.isResource = (k == .resource) := by
  cases a with
  | comp n k' cs b =>
    simp only [kindOf] at hk
    subst hk
    cases k' <;> simp_all [Ty.isResource]
  | inter is =>
    cases is with
    | nil => exact absurd rfl ha.1
    | cons i0 rest =>
      simp only [kindOf] at hk
      simp [Ty.isResource, hk i0 (List.mem_cons_self ..)]
  | iface j =>
    simp only [kindOf] at hk
    simp [Ty.isResource, hk]
  | _ => simp [kindOf] at hk


/-- chains `a <: b <: c` where `b` and `c` are interfaces / intersections -/
theorem nom_trans (D : List Iface) (hD : Coh D) (a b c : Ty)
    (ha : nomOK D a) (hb : nomOK D b) (hc : nomOK D c)
    (hbn : (∃ i, b = .iface i) ∨ (∃ is, b = .inter is))
    (hcn : (∃ i, c = .iface i) ∨ (∃ is, c = .inter is))
    (hab : chk a b = true) (hbc : chk b c = true) : chk a c = true := by
  rcases hcn with ⟨i, rfl⟩ | ⟨sup, rfl⟩
  · -- c = iface i
    have hi : i ∈ D := hc
    have hm : i.name ∈ dn a := by
      rcases hbn with ⟨j, rfl⟩ | ⟨is, rfl⟩
      · have hj : j ∈ D := hb
        have h1 := (chk_iface_mem _ _ hab).2
        have h2 := (chk_iface_mem _ _ hbc).2
        exact (dn_closed D hD a ha j hj h1).1 _ h2
      · have h1 := ((chk_inter_iff _ _).1 hab).2
        have h2 := (chk_iface_mem _ _ hbc).2
        exact h1 _ h2
    exact chk_iface_of a i hm (dn_closed D hD a ha i hi hm).2
  · -- c = inter sup
    rw [chk_inter_iff]
    rcases hbn with ⟨j, rfl⟩ | ⟨is, rfl⟩
    · have hj : j ∈ D := hb
      have h1 := chk_iface_mem _ _ hab
      have h2 := ((chk_inter_iff _ _).1 hbc).2
      exact ⟨h1.1, fun x hx => (dn_closed D hD a ha j hj h1.2).1 _ (h2 x hx)⟩
    · have h1 := (chk_inter_iff _ _).1 hab
      have h2 := ((chk_inter_iff _ _).1 hbc).2
      exact ⟨h1.1, fun x hx => h1.2 _ (h2 x hx)⟩

/-- below an interface / intersection, resource-kindedness is that of the super type -/
theorem nom_res (D : List Iface) (hD : Coh D) (a b : Ty)
    (ha : nomOK D a) (hb : nomOK D b)
    (hbn : (∃ i, b = .iface i) ∨ (∃ is, b = .inter is))
    (hab : chk a b = true) : a.isResource = b.isResource := by
  rcases hbn with ⟨i, rfl⟩ | ⟨sup, rfl⟩
  · have hi : i ∈ D := hb
    have hm := (chk_iface_mem _ _ hab).2
    rw [res_of_kind D a ha i.kind (dn_closed D hD a ha i hi hm).2 (hD.kinds i hi)]
    simp [Ty.isResource]
  · cases sup with
    | nil => exact absurd rfl hb.1
    | cons i0 rest =>
      have hi : i0 ∈ D := (hb.2 i0 (List.mem_cons_self ..)).1
      have hm : i0.name ∈ dn a :=
        ((chk_inter_iff _ _).1 hab).2 _ ((mem_interSet _ _).2 ⟨i0, List.mem_cons_self .., Or.inl rfl⟩)
      rw [res_of_kind D a ha i0.kind (dn_closed D hD a ha i0 hi hm).2 (hD.kinds i0 hi)]
      simp [Ty.isResource]

end Verif.Proofs.SubNominal
