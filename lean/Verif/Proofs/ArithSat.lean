/-
Proof automation for C13 (saturating arithmetic): the tactics of `Verif.Proofs.Arith*` with the
saturation spec (`specSaturating`, `clamp`) unfolded as well.  Nothing here depends on the shape of
a particular generated definition.
-/
import Verif.Proofs.ArithMul
namespace Verif.Proofs.ArithSat
open Verif.Model.Num Verif.Spec.Arith Verif.Proofs.Arith

macro "sat_unfold" : tactic => `(tactic|
  (simp only [specSaturating, clamp, Ty.hi, Ty.lo] at *; num_unfold))

/-- + − : unfold, split, `omega` -/
macro "sat_arith" : tactic => `(tactic| (sat_unfold <;> num_finish))

/-- `/`: with the bounds of `Int.tdiv a b` as extra facts -/
macro "sat_div" a:ident b:ident : tactic => `(tactic|
  (sat_unfold <;> (have hq := tdiv_facts $a $b; num_finish)))

/-- `*`: case split on the signs of the operands, product facts and the meaning of the division-based
    overflow tests for the bounds `hi`, `lo` of the type -/
macro "sat_mul" a:ident b:ident hi:term:max lo:term:max : tactic => `(tactic|
  (sat_unfold <;>
   (have hs := mul_sign $a $b
    rcases mul_cases_left $hi $lo $a $b (by decide) (by decide) with hl | hl | hl <;>
    rcases mul_cases_right $hi $lo $a $b (by decide) (by decide) with hr | hr | hr <;>
    num_finish)))

/-- a clamped result is a value of the type -/
theorem clamp_inRange (T : Ty) (hT : ∀ l h, T.lo = some l → T.hi = some h → l ≤ h) (r : Int) : inRange T (clamp T r) := by
  cases T with
  | int n => have := hT _ _ rfl rfl; simp only [clamp, Ty.hi, Ty.lo, inRange] at *; split <;> (try split) <;> omega
  | uint n => have := hT _ _ rfl rfl; simp only [clamp, Ty.hi, Ty.lo, inRange] at *; split <;> (try split) <;> omega
  | word n => have := hT _ _ rfl rfl; simp only [clamp, Ty.hi, Ty.lo, inRange] at *; split <;> (try split) <;> omega
  | bigInt => simp [inRange]
  | bigUInt => simp only [clamp, Ty.hi, Ty.lo, inRange]; split <;> omega

/-- clamping does nothing to a value of the type -/
theorem clamp_of_inRange (T : Ty) (r : Int) (h : inRange T r) : clamp T r = r := by
  cases T <;> simp only [clamp, Ty.hi, Ty.lo, inRange] at * <;> (repeat' split) <;> omega

end Verif.Proofs.ArithSat
