/-
Helper lemmas and the final theorems about the peephole port `Verif.Model.Lang.VM.Peephole`
(property C34, peephole part).  Core Lean only.

Structure: `segments` is the segmentation the main loop performs (copied instructions / rewritten
windows); `mainLoop_eq` shows the loop's state is a function of it; `image` is the source-offset →
output-offset map of a segmentation; `patchJumps_eq_direct` shows the cumulative-shift pointer scan
computes `t + Σ{shift | offset < t}`; `image_eq_shift` that this is the image of `t`.
The theorems for re-export are at the end of the file (section "Final theorems").
-/
import Verif.Model.Lang.VM.Peephole
namespace Verif.Proofs.Peephole
open Verif.Model.Lang.VM.Peephole

/-- A unit of the translation: an instruction copied, or a window rewritten. -/
inductive Seg where
  | copy (x : PInstr)
  | rewrite (window repl : List PInstr)
deriving Repr, DecidableEq

def Seg.src : Seg → List PInstr
  | .copy x => [x]
  | .rewrite w _ => w
def Seg.out : Seg → List PInstr
  | .copy x => [x]
  | .rewrite _ r => r

def srcOf (segs : List Seg) : List PInstr := segs.flatMap Seg.src
def outOf (segs : List Seg) : List PInstr := segs.flatMap Seg.out

/-- the segmentation the main loop performs (same recursion as `mainLoop`, no state) -/
def segments (pats : List Pattern) (jt : List Nat) : Nat → Nat → List PInstr → Except Panic (List Seg)
  | _, _, [] => .ok []
  | 0, _, _ :: _ => .error .index
  | fuel + 1, i, cur :: tl =>
    match firstMatch jt i (cur :: tl) (patternsByOpcode pats cur.op) with
    | some (c, w) =>
      match c.replace w with
      | .error e => .error e
      | .ok r =>
        match segments pats jt fuel (i + c.opcodes.length) ((cur :: tl).drop c.opcodes.length) with
        | .error e => .error e
        | .ok segs => .ok (.rewrite w r :: segs)
    | none =>
      match segments pats jt fuel (i + 1) tl with
      | .error e => .error e
      | .ok segs => .ok (.copy cur :: segs)

def shiftsOf : Nat → List Seg → List (Nat × Int)
  | _, [] => []
  | i, .copy _ :: segs => shiftsOf (i + 1) segs
  | i, .rewrite w r :: segs => (i, (r.length : Int) - (w.length : Int)) :: shiftsOf (i + w.length) segs

def jumpsOf : Nat → List Seg → List Nat
  | _, [] => []
  | p, .copy x :: segs => if isJump x then p :: jumpsOf (p + 1) segs else jumpsOf (p + 1) segs
  | p, .rewrite _ r :: segs => jumpsOf (p + r.length) segs

theorem firstMatch_some {jt : List Nat} {i : Nat} {rest : List PInstr} {cands : List Pattern}
    {c : Pattern} {w : List PInstr} (h : firstMatch jt i rest cands = some (c, w)) :
    c ∈ cands ∧ c.opcodes.length ≤ rest.length ∧ w = rest.take c.opcodes.length ∧
      matchAt jt c.opcodes w i = true := by
  induction cands with
  | nil => simp [firstMatch] at h
  | cons d ds ih =>
    unfold firstMatch at h
    simp only at h
    split at h
    · have := ih h; exact ⟨List.mem_cons_of_mem _ this.1, this.2⟩
    · split at h
      · simp only [Option.some.injEq, Prod.mk.injEq] at h
        obtain ⟨rfl, rfl⟩ := h
        refine ⟨List.mem_cons_self, by omega, rfl, by assumption⟩
      · have := ih h; exact ⟨List.mem_cons_of_mem _ this.1, this.2⟩

theorem mainLoop_eq (pats : List Pattern) (jt : List Nat) (fuel : Nat) :
    ∀ (i : Nat) (rest : List PInstr) (st : St),
      mainLoop pats jt fuel i rest st =
        match segments pats jt fuel i rest with
        | .error e => .error e
        | .ok segs => .ok { optimized := st.optimized ++ outOf segs
                            bytecodeShifts := st.bytecodeShifts ++ shiftsOf i segs
                            jumps := st.jumps ++ jumpsOf st.optimized.length segs } := by
  induction fuel with
  | zero =>
    intro i rest st
    cases rest with
    | nil => simp [mainLoop, segments, outOf, shiftsOf, jumpsOf]
    | cons a tl => simp [mainLoop, segments]
  | succ fuel ih =>
    intro i rest st
    cases rest with
    | nil => simp [mainLoop, segments, outOf, shiftsOf, jumpsOf]
    | cons cur tl =>
      unfold mainLoop segments
      cases hfm : firstMatch jt i (cur :: tl) (patternsByOpcode pats cur.op) with
      | none =>
        simp only
        rw [ih]
        cases hs : segments pats jt fuel (i + 1) tl with
        | error e => simp
        | ok segs =>
          simp only [outOf, List.flatMap_cons, Seg.out, shiftsOf, jumpsOf, List.length_append,
            List.length_cons, List.length_nil, List.append_assoc]
          by_cases hj : isJump cur <;> simp [hj]
      | some cw =>
        obtain ⟨c, w⟩ := cw
        simp only
        cases hr : c.replace w with
        | error e => simp
        | ok r =>
          simp only
          rw [ih]
          have hw := (firstMatch_some hfm).2.2.1
          have hle := (firstMatch_some hfm).2.1
          have hwl : w.length = c.opcodes.length := by rw [hw, List.length_take]; omega
          cases hs : segments pats jt fuel (i + c.opcodes.length) (List.drop c.opcodes.length (cur :: tl)) with
          | error e => simp
          | ok segs =>
            simp [outOf, List.flatMap_cons, Seg.out, shiftsOf, jumpsOf, hwl, List.append_assoc]

/-! ### what `matchAt` / `firstMatch` / `segments` guarantee -/

theorem matchAt_true {jt : List Nat} : ∀ (ops : List String) (w : List PInstr) (off : Nat),
    matchAt jt ops w off = true → ops.length ≤ w.length ∧ (w.take ops.length).map (·.op) = ops ∧
      ∀ k, k < ops.length → off + k ∉ jt := by
  intro ops
  induction ops with
  | nil => intro w off _; simp
  | cons o os ih =>
    intro w off h
    cases w with
    | nil => simp [matchAt] at h
    | cons x xs =>
      unfold matchAt at h
      split at h
      · simp at h
      · split at h
        · simp at h
        · rename_i h1 h2
          have := ih xs (off + 1) h
          refine ⟨by simp; omega, ?_, ?_⟩
          · simp only [List.length_cons, List.take_succ_cons, List.map_cons, this.2.1]
            simp only [bne_iff_ne, ne_eq, Decidable.not_not] at h1
            rw [h1]
          · intro k hk
            cases k with
            | zero => simpa using h2
            | succ k =>
              have := this.2.2 k (by simp at hk; omega)
              rwa [show off + (k + 1) = off + 1 + k by omega]

theorem mem_patternsByOpcode {pats : List Pattern} {op : String} {c : Pattern}
    (h : c ∈ patternsByOpcode pats op) : c ∈ pats ∧ 1 ≤ c.opcodes.length := by
  unfold patternsByOpcode at h
  rw [List.mem_filter] at h
  refine ⟨h.1, ?_⟩
  cases hc : c.opcodes with
  | nil => rw [hc] at h; simp at h
  | cons a b => simp

/-- `Legit pats jt i segs`: every rewritten window (at source offset `i`, `i + …`) is a match of a
pattern of the table whose Replacement returned the segment's replacement, and no offset of the
window — its first one included — is a jump target. -/
def Legit (pats : List Pattern) (jt : List Nat) : Nat → List Seg → Prop
  | _, [] => True
  | i, .copy _ :: segs => Legit pats jt (i + 1) segs
  | i, .rewrite w r :: segs =>
    (∃ c, c ∈ pats ∧ w.map (·.op) = c.opcodes ∧ 1 ≤ w.length ∧ c.replace w = .ok r ∧
      ∀ k, k < w.length → i + k ∉ jt) ∧ Legit pats jt (i + w.length) segs

theorem segments_spec (pats : List Pattern) (jt : List Nat) (fuel : Nat) :
    ∀ (i : Nat) (rest : List PInstr) (segs : List Seg),
      segments pats jt fuel i rest = .ok segs → srcOf segs = rest ∧ Legit pats jt i segs := by
  induction fuel with
  | zero =>
    intro i rest segs h
    cases rest with
    | nil => simp [segments] at h; subst h; simp [srcOf, Legit]
    | cons a tl => simp [segments] at h
  | succ fuel ih =>
    intro i rest segs h
    cases rest with
    | nil => simp [segments] at h; subst h; simp [srcOf, Legit]
    | cons cur tl =>
      unfold segments at h
      cases hfm : firstMatch jt i (cur :: tl) (patternsByOpcode pats cur.op) with
      | none =>
        rw [hfm] at h
        simp only at h
        cases hs : segments pats jt fuel (i + 1) tl with
        | error e => rw [hs] at h; simp at h
        | ok segs' =>
          rw [hs] at h
          simp only [Except.ok.injEq] at h
          subst h
          have := ih _ _ _ hs
          refine ⟨by simp [srcOf, Seg.src] at this ⊢; exact this.1, by simp [Legit]; exact this.2⟩
      | some cw =>
        obtain ⟨c, w⟩ := cw
        rw [hfm] at h
        simp only at h
        cases hr : c.replace w with
        | error e => rw [hr] at h; simp at h
        | ok r =>
          rw [hr] at h
          simp only at h
          obtain ⟨hmem, hle, hw, hm⟩ := firstMatch_some hfm
          have hwl : w.length = c.opcodes.length := by rw [hw, List.length_take]; omega
          cases hs : segments pats jt fuel (i + c.opcodes.length) (List.drop c.opcodes.length (cur :: tl)) with
          | error e => rw [hs] at h; simp at h
          | ok segs' =>
            rw [hs] at h
            simp only [Except.ok.injEq] at h
            subst h
            have := ih _ _ _ hs
            have hma := matchAt_true _ _ _ hm
            have hpat := mem_patternsByOpcode hmem
            refine ⟨?_, ?_⟩
            · simp only [srcOf, List.flatMap_cons, Seg.src]
              have h1 := this.1
              simp only [srcOf] at h1
              rw [h1, hw, List.take_append_drop]
            · simp only [Legit]
              refine ⟨⟨c, hpat.1, ?_, by omega, hr, ?_⟩, by rw [hwl]; exact this.2⟩
              · have := hma.2.1
                rw [← hwl, List.take_length] at this
                exact this
              · intro k hk; exact hma.2.2 k (by omega)

/-- fuel `len(instructions)` is enough: an error of the segmentation is a Replacement's panic -/
theorem segments_error (pats : List Pattern) (jt : List Nat) (fuel : Nat) :
    ∀ (i : Nat) (rest : List PInstr) (e : Panic), rest.length ≤ fuel →
      segments pats jt fuel i rest = .error e → ∃ c w, c ∈ pats ∧ c.replace w = .error e := by
  induction fuel with
  | zero =>
    intro i rest e hl h
    cases rest with
    | nil => simp [segments] at h
    | cons a tl => simp at hl
  | succ fuel ih =>
    intro i rest e hl h
    cases rest with
    | nil => simp [segments] at h
    | cons cur tl =>
      unfold segments at h
      cases hfm : firstMatch jt i (cur :: tl) (patternsByOpcode pats cur.op) with
      | none =>
        rw [hfm] at h
        simp only at h
        cases hs : segments pats jt fuel (i + 1) tl with
        | error e' =>
          rw [hs] at h; simp only [Except.error.injEq] at h; subst h
          exact ih _ _ _ (by simp at hl; omega) hs
        | ok segs' => rw [hs] at h; simp at h
      | some cw =>
        obtain ⟨c, w⟩ := cw
        rw [hfm] at h
        simp only at h
        obtain ⟨hmem, hle, hw, hm⟩ := firstMatch_some hfm
        have hpat := mem_patternsByOpcode hmem
        cases hr : c.replace w with
        | error e' =>
          rw [hr] at h; simp only [Except.error.injEq] at h; subst h
          exact ⟨c, w, hpat.1, hr⟩
        | ok r =>
          rw [hr] at h
          simp only at h
          cases hs : segments pats jt fuel (i + c.opcodes.length) (List.drop c.opcodes.length (cur :: tl)) with
          | error e' =>
            rw [hs] at h; simp only [Except.error.injEq] at h; subst h
            refine ih _ _ _ ?_ hs
            simp only [List.length_drop, List.length_cons] at hl ⊢
            omega
          | ok segs' => rw [hs] at h; simp at h

/-! ### the image of a source offset, and the direct shift formula -/

/-- `image segs d`: the output offset of the unit that starts at source offset `d` (relative to the
start of `segs`); `none` when `d` is not the start of a unit (strictly inside a rewritten window, or
beyond the end).  `d = (srcOf segs).length` maps to `(outOf segs).length`. -/
def image : List Seg → Nat → Option Nat
  | _, 0 => some 0
  | [], _ + 1 => none
  | s :: rest, d + 1 =>
    if d + 1 < s.src.length then none
    else (image rest (d + 1 - s.src.length)).map (· + s.out.length)

/-- `Σ { shift | (offset, shift) ∈ shifts, offset < t }` -/
def shiftSum : List (Nat × Int) → Nat → Int
  | [], _ => 0
  | (o, s) :: rest, t => (if o < t then s else 0) + shiftSum rest t

theorem shiftsOf_lower : ∀ (segs : List Seg) (i : Nat) (x : Nat × Int), x ∈ shiftsOf i segs → i ≤ x.1 := by
  intro segs
  induction segs with
  | nil => intro i x h; simp [shiftsOf] at h
  | cons s rest ih =>
    intro i x h
    cases s with
    | copy y => simp only [shiftsOf] at h; have := ih _ _ h; omega
    | rewrite w r =>
      simp only [shiftsOf, List.mem_cons] at h
      rcases h with h | h
      · subst h; simp
      · have := ih _ _ h; omega

theorem shiftSum_zero {sh : List (Nat × Int)} {t : Nat} (h : ∀ x ∈ sh, t ≤ x.1) : shiftSum sh t = 0 := by
  induction sh with
  | nil => rfl
  | cons a rest ih =>
    obtain ⟨o, s⟩ := a
    have h1 := h (o, s) List.mem_cons_self
    simp only [shiftSum]
    rw [ih (fun x hx => h x (List.mem_cons_of_mem _ hx))]
    simp only at h1
    rw [if_neg (by omega)]; rfl

/-- offsets of the recorded shifts are strictly increasing when every window is non-empty; in
general they are non-decreasing, which is what the pointer scan of `patchJumps` needs -/
theorem shiftsOf_sorted : ∀ (segs : List Seg) (i : Nat),
    (shiftsOf i segs).Pairwise (fun a b => a.1 ≤ b.1) := by
  intro segs
  induction segs with
  | nil => intro i; simp [shiftsOf]
  | cons s rest ih =>
    intro i
    cases s with
    | copy y => simp only [shiftsOf]; exact ih _
    | rewrite w r =>
      simp only [shiftsOf, List.pairwise_cons]
      refine ⟨fun x hx => ?_, ih _⟩
      have := shiftsOf_lower _ _ _ hx
      omega

theorem image_eq_shift : ∀ (segs : List Seg) (i d p : Nat), image segs d = some p →
    (p : Int) = (d : Int) + shiftSum (shiftsOf i segs) (i + d) := by
  intro segs
  induction segs with
  | nil =>
    intro i d p h
    cases d with
    | zero => simp [image] at h; subst h; simp [shiftsOf, shiftSum]
    | succ d => simp [image] at h
  | cons s rest ih =>
    intro i d p h
    cases d with
    | zero =>
      simp [image] at h; subst h
      rw [shiftSum_zero]; · simp
      intro x hx; have := shiftsOf_lower _ _ _ hx; omega
    | succ d =>
      simp only [image] at h
      split at h
      · simp at h
      · rename_i hlt
        cases him : image rest (d + 1 - s.src.length) with
        | none => rw [him] at h; simp at h
        | some p' =>
          rw [him] at h
          simp only [Option.map_some, Option.some.injEq] at h
          subst h
          have := ih (i + s.src.length) _ _ him
          rw [show i + s.src.length + (d + 1 - s.src.length) = i + (d + 1) by omega] at this
          cases s with
          | copy y =>
            simp only [Seg.src, Seg.out, List.length_cons, List.length_nil, shiftsOf, Nat.zero_add] at *
            omega
          | rewrite w r =>
            simp only [Seg.src, Seg.out, shiftsOf, shiftSum] at *
            rw [if_pos (by omega)]
            omega

theorem image_cons_succ (s : Seg) (rest : List Seg) (d : Nat) (h : ¬ d + 1 < s.src.length) :
    image (s :: rest) (d + 1) = (image rest (d + 1 - s.src.length)).map (· + s.out.length) := by
  simp [image, h]

/-- every jump target within the code is the start of a unit (or the end of the code) -/
theorem image_isSome_of_legit {pats : List Pattern} {jt : List Nat} : ∀ (segs : List Seg) (i t : Nat),
    Legit pats jt i segs → t ∈ jt → i ≤ t → t ≤ i + (srcOf segs).length →
      (image segs (t - i)).isSome = true := by
  intro segs
  induction segs with
  | nil =>
    intro i t _ _ h1 h2
    simp [srcOf] at h2
    rw [show t - i = 0 by omega]; simp [image]
  | cons s rest ih =>
    intro i t hl ht h1 h2
    by_cases heq : t = i
    · rw [show t - i = 0 by omega]; simp [image]
    · obtain ⟨d, hd⟩ : ∃ d, t - i = d + 1 := ⟨t - i - 1, by omega⟩
      rw [hd]
      cases s with
      | copy y =>
        simp only [Legit] at hl
        simp only [srcOf, List.flatMap_cons, Seg.src, List.length_append, List.length_cons,
          List.length_nil] at h2
        have := ih (i + 1) t hl ht (by omega) (by simp only [srcOf]; omega)
        rw [image_cons_succ _ _ _ (by simp [Seg.src])]
        rw [show d + 1 - (Seg.copy y).src.length = t - (i + 1) by simp [Seg.src]; omega]
        simpa using this
      | rewrite w r =>
        simp only [Legit] at hl
        obtain ⟨⟨c, _, _, _, _, hjt⟩, hl'⟩ := hl
        simp only [srcOf, List.flatMap_cons, Seg.src, List.length_append] at h2
        have hge : i + w.length ≤ t := by
          apply Decidable.byContradiction
          intro hn
          exact hjt (t - i) (by omega) (by rw [show i + (t - i) = t by omega]; exact ht)
        have := ih (i + w.length) t hl' ht hge (by simp only [srcOf]; omega)
        rw [image_cons_succ _ _ _ (by simp only [Seg.src]; omega)]
        rw [show d + 1 - (Seg.rewrite w r).src.length = t - (i + w.length) by simp only [Seg.src]; omega]
        simpa using this

/-- meaning of `image`: it splits the translation into the units before and from the offset -/
theorem image_split : ∀ (segs : List Seg) (d p : Nat), image segs d = some p →
    ∃ a b, segs = a ++ b ∧ (srcOf a).length = d ∧ (outOf a).length = p := by
  intro segs
  induction segs with
  | nil =>
    intro d p h
    cases d with
    | zero => simp [image] at h; subst h; exact ⟨[], [], rfl, rfl, rfl⟩
    | succ d => simp [image] at h
  | cons s rest ih =>
    intro d p h
    cases d with
    | zero => simp [image] at h; subst h; exact ⟨[], s :: rest, rfl, rfl, rfl⟩
    | succ d =>
      simp only [image] at h
      split at h
      · simp at h
      · rename_i hlt
        cases him : image rest (d + 1 - s.src.length) with
        | none => rw [him] at h; simp at h
        | some p' =>
          rw [him] at h
          simp only [Option.map_some, Option.some.injEq] at h
          subst h
          obtain ⟨a, b, hab, h1, h2⟩ := ih _ _ him
          refine ⟨s :: a, b, by rw [hab]; rfl, ?_, ?_⟩
          · simp only [srcOf, List.flatMap_cons, List.length_append] at h1 ⊢; omega
          · simp only [outOf, List.flatMap_cons, List.length_append] at h2 ⊢; omega

/-! ### `patchJumps`: the pointer scan equals the direct formula -/

/-- the new target of a jump by the direct formula `t + Σ{shift | offset < t}`, converted to uint16 -/
def retarget (shifts : List (Nat × Int)) (x : PInstr) : PInstr :=
  { x with target := toUint16 ((x.target : Int) + shiftSum shifts x.target) }

/-- `patchJumps` with the cumulative shift recomputed from scratch for every jump -/
def patchDirect (shifts : List (Nat × Int)) : List PInstr → List Nat → Except Panic (List PInstr)
  | opt, [] => .ok opt
  | opt, j :: js =>
    match opt[j]? with
    | none => .error .index
    | some ins =>
      if (ins.target : Int) + shiftSum shifts ins.target > 65535 then .error .overflow
      else patchDirect shifts (opt.set j (retarget shifts ins)) js

/-- the sort key of `sort.Slice(o.jumps, …)`: the target of the jump at that position -/
def keyOf (opt : List PInstr) (j : Nat) : Nat := (opt[j]?.map (·.target)).getD 0

theorem applyShifts_spec (t : Nat) : ∀ (sh : List (Nat × Int)) (cum : Int),
    sh.Pairwise (fun a b => a.1 ≤ b.1) →
      (applyShifts t sh cum).1 = cum + shiftSum sh t ∧
      (applyShifts t sh cum).2.Pairwise (fun a b => a.1 ≤ b.1) ∧
      ∀ t', t ≤ t' → shiftSum sh t' = shiftSum sh t + shiftSum (applyShifts t sh cum).2 t' := by
  intro sh
  induction sh with
  | nil => intro cum _; simp [applyShifts, shiftSum]
  | cons a rest ih =>
    intro cum hs
    obtain ⟨o, s⟩ := a
    rw [List.pairwise_cons] at hs
    unfold applyShifts
    split
    · rename_i hlt
      obtain ⟨h1, h2, h3⟩ := ih (cum + s) hs.2
      refine ⟨?_, h2, ?_⟩
      · rw [h1]; simp only [shiftSum]; rw [if_pos hlt]; omega
      · intro t' ht'
        simp only [shiftSum]
        rw [if_pos hlt, if_pos (by omega), h3 t' ht']; omega
    · rename_i hge
      have hz : shiftSum ((o, s) :: rest) t = 0 := by
        apply shiftSum_zero
        intro x hx
        rw [List.mem_cons] at hx
        rcases hx with hx | hx
        · subst hx; simp only; omega
        · have := hs.1 x hx; simp only at this; omega
      refine ⟨by rw [hz]; simp, List.pairwise_cons.2 hs, ?_⟩
      intro t' _; rw [hz]; simp

theorem keyOf_set_ne {opt : List PInstr} {j j' : Nat} {x : PInstr} (h : j ≠ j') :
    keyOf (opt.set j x) j' = keyOf opt j' := by
  simp [keyOf, List.getElem?_set_ne h]

/-- **The pointer scan of `patchJumps` computes the direct formula** — for jumps sorted by target,
shifts sorted by offset, distinct jump positions; as `Except` values (error outcomes included). -/
theorem patchJumps_eq_direct_aux (all : List (Nat × Int)) : ∀ (js : List Nat) (opt : List PInstr)
    (sh : List (Nat × Int)) (cum : Int) (tmin : Nat),
    sh.Pairwise (fun a b => a.1 ≤ b.1) →
    (∀ t', tmin ≤ t' → cum + shiftSum sh t' = shiftSum all t') →
    js.Pairwise (fun a b => keyOf opt a ≤ keyOf opt b) →
    (∀ j ∈ js, tmin ≤ keyOf opt j) → js.Nodup →
    patchJumps opt js sh cum = patchDirect all opt js := by
  intro js
  induction js with
  | nil => intros; simp [patchJumps, patchDirect]
  | cons j js ih =>
    intro opt sh cum tmin hsh hinv hsorted hmin hnd
    unfold patchJumps patchDirect
    cases hget : opt[j]? with
    | none => rfl
    | some ins =>
      simp only
      obtain ⟨h1, h2, h3⟩ := applyShifts_spec ins.target sh cum hsh
      rcases hap : applyShifts ins.target sh cum with ⟨cum', sh'⟩
      rw [hap] at h1 h2 h3
      simp only at h1 h2 h3 ⊢
      have hkey : keyOf opt j = ins.target := by simp [keyOf, hget]
      have htmin : tmin ≤ ins.target := by rw [← hkey]; exact hmin j List.mem_cons_self
      have hcum : cum' = shiftSum all ins.target := by rw [h1]; exact hinv _ htmin
      rw [hcum]
      split
      · rfl
      · rw [List.pairwise_cons] at hsorted
        rw [List.nodup_cons] at hnd
        have hne : ∀ j' ∈ js, j ≠ j' := fun j' hj' heq => hnd.1 (heq ▸ hj')
        have hret : ({ ins with target := toUint16 ((ins.target : Int) + shiftSum all ins.target) } : PInstr)
            = retarget all ins := rfl
        rw [hret]
        apply ih _ sh' _ ins.target h2
        · intro t' ht'
          rw [← hcum, h1]
          have := h3 t' ht'
          have := hinv t' (by omega)
          omega
        · refine hsorted.2.imp_of_mem ?_
          intro a b ha hb hab
          rw [keyOf_set_ne (hne a ha), keyOf_set_ne (hne b hb)]; exact hab
        · intro j' hj'
          rw [keyOf_set_ne (hne j' hj'), ← hkey]
          exact hsorted.1 j' hj'
        · exact hnd.2

theorem patchJumps_eq_direct (shifts : List (Nat × Int)) (js : List Nat) (opt : List PInstr)
    (hsh : shifts.Pairwise (fun a b => a.1 ≤ b.1))
    (hsorted : js.Pairwise (fun a b => keyOf opt a ≤ keyOf opt b)) (hnd : js.Nodup) :
    patchJumps opt js shifts 0 = patchDirect shifts opt js :=
  patchJumps_eq_direct_aux shifts js opt shifts 0 0 hsh (fun _ _ => by simp) hsorted
    (fun _ _ => Nat.zero_le _) hnd

theorem set_eq_modify {α} (l : List α) (j : Nat) (x : α) (f : α → α) (h : l[j]? = some x) :
    l.set j (f x) = l.modify j f := by
  apply List.ext_getElem?
  intro k
  rw [List.getElem?_set, List.getElem?_modify]
  by_cases hk : j = k
  · subst hk
    have hlt : j < l.length := by
      rcases Nat.lt_or_ge j l.length with h' | h'
      · exact h'
      · rw [List.getElem?_eq_none h'] at h; simp at h
    have hx : l[j] = x := by
      have := List.getElem?_eq_getElem hlt
      rw [this] at h; simpa using h
    simp [hlt, hx]
  · simp [hk]

/-- a successful `patchDirect` retargets exactly the instructions at the listed positions -/
theorem patchDirect_ok (shifts : List (Nat × Int)) : ∀ (js : List Nat) (opt opt' : List PInstr),
    patchDirect shifts opt js = .ok opt' →
      opt' = js.foldl (fun acc j => acc.modify j (retarget shifts)) opt := by
  intro js
  induction js with
  | nil => intro opt opt' h; simp [patchDirect] at h; simp [h]
  | cons j js ih =>
    intro opt opt' h
    unfold patchDirect at h
    cases hget : opt[j]? with
    | none => rw [hget] at h; simp at h
    | some ins =>
      rw [hget] at h
      simp only at h
      split at h
      · simp at h
      · rw [set_eq_modify _ _ _ _ hget] at h
        simpa using ih _ _ h

theorem modify_comm {α} (l : List α) (i j : Nat) (f : α → α) :
    (l.modify i f).modify j f = (l.modify j f).modify i f := by
  apply List.ext_getElem?
  intro k
  simp only [List.getElem?_modify]
  cases l[k]? with
  | none => rfl
  | some a =>
    simp only [Option.map_eq_map, Option.map_some]
    by_cases h1 : i = k <;> by_cases h2 : j = k <;> simp [h1, h2]

/-! ### the insertion sort -/

theorem insertBy_perm (key : Nat → Nat) (x : Nat) : ∀ l : List Nat, (insertBy key x l).Perm (x :: l) := by
  intro l
  induction l with
  | nil => simp [insertBy]
  | cons y ys ih =>
    unfold insertBy
    split
    · exact List.Perm.refl _
    · exact (List.Perm.cons y ih).trans (List.Perm.swap x y ys)

theorem sortBy_perm (key : Nat → Nat) : ∀ l : List Nat, (sortBy key l).Perm l := by
  intro l
  induction l with
  | nil => simp [sortBy]
  | cons x xs ih => exact (insertBy_perm key x _).trans (List.Perm.cons x ih)

theorem insertBy_sorted (key : Nat → Nat) (x : Nat) : ∀ l : List Nat,
    l.Pairwise (fun a b => key a ≤ key b) → (insertBy key x l).Pairwise (fun a b => key a ≤ key b) := by
  intro l
  induction l with
  | nil => intro _; simp [insertBy]
  | cons y ys ih =>
    intro h
    rw [List.pairwise_cons] at h
    unfold insertBy
    split
    · rename_i hle
      refine List.pairwise_cons.2 ⟨?_, List.pairwise_cons.2 h⟩
      intro b hb
      rw [List.mem_cons] at hb
      rcases hb with hb | hb
      · subst hb; exact hle
      · exact Nat.le_trans hle (h.1 b hb)
    · rename_i hgt
      refine List.pairwise_cons.2 ⟨?_, ih h.2⟩
      intro b hb
      have := (insertBy_perm key x ys).mem_iff.1 hb
      rw [List.mem_cons] at this
      rcases this with hb | hb
      · subst hb; omega
      · exact h.1 b hb

theorem sortBy_sorted (key : Nat → Nat) : ∀ l : List Nat,
    (sortBy key l).Pairwise (fun a b => key a ≤ key b) := by
  intro l
  induction l with
  | nil => simp [sortBy]
  | cons x xs ih => exact insertBy_sorted key x _ ih

/-! ### assembling: the optimised list is the translation with retargeted jumps -/

/-- output of a unit with the copied jumps retargeted by `r` -/
def Seg.outPatched (r : PInstr → PInstr) : Seg → List PInstr
  | .copy x => [if isJump x then r x else x]
  | .rewrite _ repl => repl

theorem modify_append_length {α} (pre : List α) (x : α) (tl : List α) (f : α → α) :
    (pre ++ x :: tl).modify pre.length f = pre ++ f x :: tl := by
  induction pre with
  | nil => simp
  | cons a pre ih => simp [ih]

theorem foldl_jumpsOf (r : PInstr → PInstr) : ∀ (segs : List Seg) (pre : List PInstr),
    (jumpsOf pre.length segs).foldl (fun acc j => acc.modify j r) (pre ++ outOf segs) =
      pre ++ segs.flatMap (Seg.outPatched r) := by
  intro segs
  induction segs with
  | nil => intro pre; simp [jumpsOf, outOf]
  | cons s rest ih =>
    intro pre
    cases s with
    | copy x =>
      simp only [outOf, List.flatMap_cons, Seg.out, Seg.outPatched, jumpsOf]
      by_cases hj : isJump x = true
      · simp only [hj, if_true, List.foldl_cons, List.singleton_append]
        rw [modify_append_length]
        have := ih (pre ++ [r x])
        simp only [List.length_append, List.length_cons, List.length_nil, outOf, List.append_assoc,
          List.singleton_append, Nat.zero_add] at this
        exact this
      · simp only [hj, List.singleton_append]
        have := ih (pre ++ [x])
        simp only [List.length_append, List.length_cons, List.length_nil, outOf, List.append_assoc,
          List.singleton_append, Nat.zero_add] at this
        simpa using this
    | rewrite w repl =>
      simp only [outOf, List.flatMap_cons, Seg.out, Seg.outPatched, jumpsOf]
      have := ih (pre ++ repl)
      simp only [List.length_append, outOf, List.append_assoc] at this
      exact this

theorem jumpsOf_lower : ∀ (segs : List Seg) (p x : Nat), x ∈ jumpsOf p segs → p ≤ x := by
  intro segs
  induction segs with
  | nil => intro p x h; simp [jumpsOf] at h
  | cons s rest ih =>
    intro p x h
    cases s with
    | copy y =>
      simp only [jumpsOf] at h
      split at h
      · rw [List.mem_cons] at h
        rcases h with h | h
        · omega
        · have := ih _ _ h; omega
      · have := ih _ _ h; omega
    | rewrite w r => simp only [jumpsOf] at h; have := ih _ _ h; omega

theorem jumpsOf_nodup : ∀ (segs : List Seg) (p : Nat), (jumpsOf p segs).Nodup := by
  intro segs
  induction segs with
  | nil => intro p; simp [jumpsOf]
  | cons s rest ih =>
    intro p
    cases s with
    | copy y =>
      simp only [jumpsOf]
      split
      · rw [List.nodup_cons]
        refine ⟨fun h => ?_, ih _⟩
        have := jumpsOf_lower _ _ _ h; omega
      · exact ih _
    | rewrite w r => simp only [jumpsOf]; exact ih _

/-- Functional characterisation of the whole pass: when it does not panic, the result is the
segmentation's output with every copied jump retargeted by the direct formula. -/
theorem optimizeWith_ok (pats : List Pattern) (code opt : List PInstr)
    (h : optimizeWith pats code = .ok opt) :
    ∃ segs, segments pats (collectJumpTargets code) code.length 0 code = .ok segs ∧
      opt = segs.flatMap (Seg.outPatched (retarget (shiftsOf 0 segs))) ∧
      ∃ js, js.Perm (jumpsOf 0 segs) ∧
        patchDirect (shiftsOf 0 segs) (outOf segs) js = .ok opt := by
  unfold optimizeWith at h
  simp only at h
  rw [mainLoop_eq] at h
  cases hs : segments pats (collectJumpTargets code) code.length 0 code with
  | error e => rw [hs] at h; simp at h
  | ok segs =>
    rw [hs] at h
    simp only [List.nil_append, List.length_nil] at h
    refine ⟨segs, rfl, ?_⟩
    have hperm := sortBy_perm (keyOf (outOf segs)) (jumpsOf 0 segs)
    have hnd : (sortBy (keyOf (outOf segs)) (jumpsOf 0 segs)).Nodup :=
      hperm.symm.nodup (jumpsOf_nodup segs 0)
    have hd := patchJumps_eq_direct (shiftsOf 0 segs) (sortBy (keyOf (outOf segs)) (jumpsOf 0 segs))
      (outOf segs) (shiftsOf_sorted segs 0) (sortBy_sorted _ _) hnd
    change patchJumps (outOf segs) (sortBy (keyOf (outOf segs)) (jumpsOf 0 segs)) (shiftsOf 0 segs) 0
      = .ok opt at h
    rw [hd] at h
    have := patchDirect_ok _ _ _ _ h
    rw [hperm.foldl_eq' (fun x _ y _ z => modify_comm z x y _)] at this
    have h2 := foldl_jumpsOf (retarget (shiftsOf 0 segs)) segs []
    simp only [List.length_nil, List.nil_append] at h2
    rw [h2] at this
    exact ⟨this, _, hperm, h⟩

/-! ### Final theorems -/

/-- side condition on a pattern table ("never match a jump instruction", peephole_patterns.go):
no pattern contains a jump opcode -/
def noJumpInPatterns (pats : List Pattern) : Bool :=
  pats.all (fun c => c.opcodes.all (fun o => !jumpOps.contains o))

theorem allPatterns_noJump : noJumpInPatterns allPatterns = true := by decide

theorem mem_collectJumpTargets {code : List PInstr} {x : PInstr} (hx : x ∈ code) (hj : isJump x = true) :
    x.target ∈ collectJumpTargets code := by
  unfold collectJumpTargets
  rw [List.mem_filterMap]
  exact ⟨x, hx, by simp [hj]⟩

theorem window_no_jump {pats : List Pattern} (hnj : noJumpInPatterns pats = true) {c : Pattern}
    (hc : c ∈ pats) {w : List PInstr} (hw : w.map (·.op) = c.opcodes) {x : PInstr} (hx : x ∈ w) :
    isJump x = false := by
  unfold noJumpInPatterns at hnj
  rw [List.all_eq_true] at hnj
  have h1 := hnj c hc
  rw [List.all_eq_true] at h1
  have : x.op ∈ c.opcodes := by rw [← hw]; exact List.mem_map.2 ⟨x, hx, rfl⟩
  have h2 := h1 _ this
  unfold isJump
  simpa using h2

/-- (b) a jump of the source is never inside a rewritten window: it is copied, and its position in
the output is one of the positions `patchJumps` patches -/
theorem jump_is_copied {pats : List Pattern} {jt : List Nat} (hnj : noJumpInPatterns pats = true) :
    ∀ (segs : List Seg) (i : Nat), Legit pats jt i segs → ∀ x ∈ srcOf segs, isJump x = true →
      ∀ pre : List PInstr, Seg.copy x ∈ segs ∧
        ∃ j ∈ jumpsOf pre.length segs, (pre ++ outOf segs)[j]? = some x := by
  intro segs
  induction segs with
  | nil => intro i _ x hx; simp [srcOf] at hx
  | cons s rest ih =>
    intro i hl x hx hj pre
    cases s with
    | copy y =>
      simp only [srcOf, List.flatMap_cons, Seg.src, List.singleton_append, List.mem_cons] at hx
      simp only [Legit] at hl
      rcases hx with hx | hx
      · subst hx
        refine ⟨List.mem_cons_self, pre.length, by simp [jumpsOf, hj], ?_⟩
        simp [outOf, Seg.out]
      · obtain ⟨hm, j, hjm, hget⟩ := ih _ hl x hx hj (pre ++ [y])
        refine ⟨List.mem_cons_of_mem _ hm, j, ?_, ?_⟩
        · simp only [List.length_append, List.length_cons, List.length_nil, Nat.zero_add] at hjm
          simp only [jumpsOf]
          split
          · exact List.mem_cons_of_mem _ hjm
          · exact hjm
        · simpa [outOf, Seg.out] using hget
    | rewrite w r =>
      simp only [srcOf, List.flatMap_cons, Seg.src, List.mem_append] at hx
      simp only [Legit] at hl
      obtain ⟨⟨c, hc, hw, _, _, _⟩, hl'⟩ := hl
      rcases hx with hx | hx
      · have := window_no_jump hnj hc hw hx
        rw [this] at hj; simp at hj
      · obtain ⟨hm, j, hjm, hget⟩ := ih _ hl' x hx hj (pre ++ r)
        refine ⟨List.mem_cons_of_mem _ hm, j, ?_, ?_⟩
        · simpa [jumpsOf] using hjm
        · simpa [outOf, Seg.out] using hget

theorem patchDirect_ok_bound (all : List (Nat × Int)) : ∀ (js : List Nat) (opt opt' : List PInstr),
    patchDirect all opt js = .ok opt' → js.Nodup → ∀ j ∈ js, ∀ ins, opt[j]? = some ins →
      (ins.target : Int) + shiftSum all ins.target ≤ 65535 := by
  intro js
  induction js with
  | nil => intro _ _ _ _ j hj; simp at hj
  | cons j0 js ih =>
    intro opt opt' h hnd j hj ins hins
    unfold patchDirect at h
    cases hget : opt[j0]? with
    | none => rw [hget] at h; simp at h
    | some ins0 =>
      rw [hget] at h
      simp only at h
      split at h
      · simp at h
      · rename_i hno
        rw [List.nodup_cons] at hnd
        rw [List.mem_cons] at hj
        rcases hj with hj | hj
        · subst hj
          rw [hget] at hins
          simp only [Option.some.injEq] at hins
          subst hins
          omega
        · have hne : j0 ≠ j := fun heq => hnd.1 (heq ▸ hj)
          exact ih _ _ h hnd.2 j hj ins (by rw [List.getElem?_set_ne hne]; exact hins)

theorem outPatched_length (r : PInstr → PInstr) : ∀ segs : List Seg,
    (segs.flatMap (Seg.outPatched r)).length = (outOf segs).length := by
  intro segs
  induction segs with
  | nil => rfl
  | cons s rest ih =>
    cases s <;> simp only [outOf, List.flatMap_cons, List.length_append, Seg.outPatched, Seg.out,
      List.length_cons, List.length_nil] at ih ⊢ <;> omega

/-- **peephole_jumps** (C34, peephole part).  For every pattern table without jump opcodes, every
instruction list `code` (arbitrary, not only compiler output) on which the pass does not panic:
there is a segmentation `segs` of `code` into copied instructions and rewritten windows such that
 1. `srcOf segs = code` (order-preserving partition of the input),
 2. `Legit …`: every rewritten window is a match of a table pattern replaced by that pattern's
    Replacement, and **no offset of a rewritten window, its start included, is a jump target**,
 3. the result is the concatenation of the units' outputs, the copied jumps retargeted by the
    direct formula `t ↦ uint16(t + Σ{shift | offset < t})` (= what the pointer scan of
    `patchJumps` computes, `patchJumps_eq_direct`),
 4. every jump of `code` is a copied unit (it survives),
 5. for every jump of `code` with target `t ≤ len(code)`: `t` is the start of a unit or the end
    of the code, and the jump's new target is `image segs t`, the output offset of that unit. -/
theorem peephole_jumps (pats : List Pattern) (hnj : noJumpInPatterns pats = true)
    (code opt : List PInstr) (h : optimizeWith pats code = .ok opt) :
    ∃ segs : List Seg,
      srcOf segs = code ∧
      Legit pats (collectJumpTargets code) 0 segs ∧
      opt = segs.flatMap (Seg.outPatched (retarget (shiftsOf 0 segs))) ∧
      (∀ x ∈ code, isJump x = true → Seg.copy x ∈ segs) ∧
      (∀ x ∈ code, isJump x = true → x.target ≤ code.length →
        image segs x.target = some (retarget (shiftsOf 0 segs) x).target) := by
  obtain ⟨segs, hseg, hopt, js, hperm, hpd⟩ := optimizeWith_ok pats code opt h
  obtain ⟨hsrc, hlegit⟩ := segments_spec _ _ _ _ _ _ hseg
  refine ⟨segs, hsrc, hlegit, hopt, ?_, ?_⟩
  · intro x hx hj
    exact (jump_is_copied hnj segs 0 hlegit x (hsrc ▸ hx) hj []).1
  · intro x hx hj ht
    have hjt := mem_collectJumpTargets hx hj
    have hsome := image_isSome_of_legit segs 0 x.target hlegit hjt (Nat.zero_le _)
      (by rw [hsrc]; omega)
    rw [Nat.sub_zero] at hsome
    obtain ⟨p, hp⟩ := Option.isSome_iff_exists.1 hsome
    have hpe := image_eq_shift segs 0 _ _ hp
    rw [Nat.zero_add] at hpe
    obtain ⟨_, j, hjm, hget⟩ := jump_is_copied hnj segs 0 hlegit x (hsrc ▸ hx) hj []
    simp only [List.length_nil, List.nil_append] at hjm hget
    have hnd : js.Nodup := hperm.symm.nodup (jumpsOf_nodup segs 0)
    have hb := patchDirect_ok_bound _ _ _ _ hpd hnd j (hperm.mem_iff.2 hjm) x hget
    rw [hp]
    simp only [retarget, toUint16, Option.some.injEq]
    omega

/-- (c) where a retargeted jump lands: the output from the new target on is exactly the
translation of the source from the old target on. -/
theorem peephole_jumps_land (pats : List Pattern) (hnj : noJumpInPatterns pats = true)
    (code opt : List PInstr) (h : optimizeWith pats code = .ok opt) :
    ∃ segs : List Seg, srcOf segs = code ∧
      opt = segs.flatMap (Seg.outPatched (retarget (shiftsOf 0 segs))) ∧
      ∀ x ∈ code, isJump x = true → x.target ≤ code.length →
        ∃ a b, segs = a ++ b ∧ code.drop x.target = srcOf b ∧
          opt.drop (retarget (shiftsOf 0 segs) x).target =
            b.flatMap (Seg.outPatched (retarget (shiftsOf 0 segs))) := by
  obtain ⟨segs, hsrc, _, hopt, _, himg⟩ := peephole_jumps pats hnj code opt h
  refine ⟨segs, hsrc, hopt, ?_⟩
  intro x hx hj ht
  obtain ⟨a, b, hab, h1, h2⟩ := image_split _ _ _ (himg x hx hj ht)
  refine ⟨a, b, hab, ?_, ?_⟩
  all_goals generalize retarget (shiftsOf 0 segs) = r at hopt h2 ⊢
  · rw [← hsrc, hab]
    simp only [srcOf, List.flatMap_append] at h1 ⊢
    rw [← h1, List.drop_left]
  · rw [hopt, ← h2, ← outPatched_length r a, hab, List.flatMap_append, List.drop_left]

/-- the pass with the real table -/
theorem peephole_jumps_real (code opt : List PInstr) (h : optimize code = .ok opt) :
    ∃ segs : List Seg,
      srcOf segs = code ∧
      Legit allPatterns (collectJumpTargets code) 0 segs ∧
      opt = segs.flatMap (Seg.outPatched (retarget (shiftsOf 0 segs))) ∧
      (∀ x ∈ code, isJump x = true → Seg.copy x ∈ segs) ∧
      (∀ x ∈ code, isJump x = true → x.target ≤ code.length →
        image segs x.target = some (retarget (shiftsOf 0 segs) x).target) :=
  peephole_jumps allPatterns allPatterns_noJump code opt h

/-- a panic of the pass is a Replacement's panic or the uint16 overflow; the totalisation
`Panic.index` of the loop fuel is not reachable through the loop itself -/
theorem mainLoop_error (pats : List Pattern) (code : List PInstr) (e : Panic)
    (h : mainLoop pats (collectJumpTargets code) code.length 0 code {} = .error e) :
    ∃ c w, c ∈ pats ∧ c.replace w = .error e := by
  rw [mainLoop_eq] at h
  cases hs : segments pats (collectJumpTargets code) code.length 0 code with
  | error e' =>
    rw [hs] at h; simp only [Except.error.injEq] at h; subst h
    exact segments_error _ _ _ _ _ _ (Nat.le_refl _) hs
  | ok segs => rw [hs] at h; simp at h

/-! non-vacuity: a jump over two rewritten windows, a window at a jump target left alone, a jump
to the end of the code -/
def exCode : List PInstr :=
  [ { op := "JumpIfFalse", target := 3 },
    { op := "Nil" }, { op := "TransferAndConvert", payload := "valueType=1 targetType=2" },
    { op := "GetLocal", payload := "local=0" }, { op := "GetField", payload := "fieldName=1 accessedType=2" },
    { op := "GetLocal", payload := "local=1" }, { op := "GetField", payload := "fieldName=3 accessedType=2" },
    { op := "Jump", target := 0 }, { op := "Jump", target := 9 } ]

def exOpt : List PInstr :=
  [ { op := "JumpIfFalse", target := 2 },
    { op := "Nil" },
    { op := "GetLocal", payload := "local=0" }, { op := "GetField", payload := "fieldName=1 accessedType=2" },
    { op := "GetFieldLocal", payload := "fieldName=3 accessedType=2 local=1" },
    { op := "Jump", target := 0 }, { op := "Jump", target := 7 } ]

example : optimize exCode = .ok exOpt := by rfl

/-! ### panics: which error outcomes are reachable -/

theorem segments_error' (pats : List Pattern) (jt : List Nat) (fuel : Nat) :
    ∀ (i : Nat) (rest : List PInstr) (e : Panic), rest.length ≤ fuel →
      segments pats jt fuel i rest = .error e →
        ∃ c w, c ∈ pats ∧ w.map (·.op) = c.opcodes ∧ c.replace w = .error e := by
  induction fuel with
  | zero =>
    intro i rest e hl h
    cases rest with
    | nil => simp [segments] at h
    | cons a tl => simp at hl
  | succ fuel ih =>
    intro i rest e hl h
    cases rest with
    | nil => simp [segments] at h
    | cons cur tl =>
      unfold segments at h
      cases hfm : firstMatch jt i (cur :: tl) (patternsByOpcode pats cur.op) with
      | none =>
        rw [hfm] at h
        simp only at h
        cases hs : segments pats jt fuel (i + 1) tl with
        | error e' =>
          rw [hs] at h; simp only [Except.error.injEq] at h; subst h
          exact ih _ _ _ (by simp at hl; omega) hs
        | ok segs' => rw [hs] at h; simp at h
      | some cw =>
        obtain ⟨c, w⟩ := cw
        rw [hfm] at h
        simp only at h
        obtain ⟨hmem, hle, hw, hm⟩ := firstMatch_some hfm
        have hpat := mem_patternsByOpcode hmem
        have hwl : w.length = c.opcodes.length := by rw [hw, List.length_take]; omega
        cases hr : c.replace w with
        | error e' =>
          rw [hr] at h; simp only [Except.error.injEq] at h; subst h
          refine ⟨c, w, hpat.1, ?_, hr⟩
          have := (matchAt_true _ _ _ hm).2.1
          rw [← hwl, List.take_length] at this
          exact this
        | ok r =>
          rw [hr] at h
          simp only at h
          cases hs : segments pats jt fuel (i + c.opcodes.length) (List.drop c.opcodes.length (cur :: tl)) with
          | error e' =>
            rw [hs] at h; simp only [Except.error.injEq] at h; subst h
            refine ih _ _ _ ?_ hs
            simp only [List.length_drop, List.length_cons] at hl ⊢
            omega
          | ok segs' => rw [hs] at h; simp at h

theorem jumpsOf_upper : ∀ (segs : List Seg) (p x : Nat), x ∈ jumpsOf p segs →
    x < p + (outOf segs).length := by
  intro segs
  induction segs with
  | nil => intro p x h; simp [jumpsOf] at h
  | cons s rest ih =>
    intro p x h
    cases s with
    | copy y =>
      simp only [jumpsOf] at h
      simp only [outOf, List.flatMap_cons, Seg.out, List.length_append, List.length_cons,
        List.length_nil]
      split at h
      · rw [List.mem_cons] at h
        rcases h with h | h
        · omega
        · have := ih _ _ h; simp only [outOf] at this; omega
      · have := ih _ _ h; simp only [outOf] at this; omega
    | rewrite w r =>
      simp only [jumpsOf] at h
      simp only [outOf, List.flatMap_cons, Seg.out, List.length_append]
      have := ih _ _ h; simp only [outOf] at this; omega

theorem patchDirect_error (all : List (Nat × Int)) : ∀ (js : List Nat) (opt : List PInstr) (e : Panic),
    (∀ j ∈ js, j < opt.length) → patchDirect all opt js = .error e →
      e = .overflow ∧ ∃ t : Nat, (t : Int) + shiftSum all t > 65535 := by
  intro js
  induction js with
  | nil => intro opt e _ h; simp [patchDirect] at h
  | cons j js ih =>
    intro opt e hlt h
    unfold patchDirect at h
    have hj := hlt j List.mem_cons_self
    rw [List.getElem?_eq_getElem hj] at h
    simp only at h
    split at h
    · rename_i hov
      simp only [Except.error.injEq] at h
      exact ⟨h.symm, _, hov⟩
    · exact ih _ _ (fun j' hj' => by rw [List.length_set]; exact hlt j' (List.mem_cons_of_mem _ hj')) h

/-- The only panics of the pass: a Replacement's own panic on a window that matched its pattern, or
the uint16 overflow.  (`Panic.index`, the totalisation of Go's slice indexing / loop fuel, is not
reachable through the loop or through `patchJumps`.) -/
theorem optimizeWith_error (pats : List Pattern) (code : List PInstr) (e : Panic)
    (h : optimizeWith pats code = .error e) :
    (∃ c w, c ∈ pats ∧ w.map (·.op) = c.opcodes ∧ c.replace w = .error e) ∨ e = .overflow := by
  unfold optimizeWith at h
  simp only at h
  rw [mainLoop_eq] at h
  cases hs : segments pats (collectJumpTargets code) code.length 0 code with
  | error e' =>
    rw [hs] at h; simp only [Except.error.injEq] at h; subst h
    exact Or.inl (segments_error' _ _ _ _ _ _ (Nat.le_refl _) hs)
  | ok segs =>
    rw [hs] at h
    simp only [List.nil_append, List.length_nil] at h
    have hperm := sortBy_perm (keyOf (outOf segs)) (jumpsOf 0 segs)
    have hnd : (sortBy (keyOf (outOf segs)) (jumpsOf 0 segs)).Nodup :=
      hperm.symm.nodup (jumpsOf_nodup segs 0)
    have hd := patchJumps_eq_direct (shiftsOf 0 segs) (sortBy (keyOf (outOf segs)) (jumpsOf 0 segs))
      (outOf segs) (shiftsOf_sorted segs 0) (sortBy_sorted _ _) hnd
    change patchJumps (outOf segs) (sortBy (keyOf (outOf segs)) (jumpsOf 0 segs)) (shiftsOf 0 segs) 0
      = .error e at h
    rw [hd] at h
    refine Or.inr (patchDirect_error _ _ _ _ ?_ h).1
    intro j hj
    have := jumpsOf_upper segs 0 j (hperm.mem_iff.1 hj)
    omega

/-- with the real table: only the unknown-path-domain panic or the uint16 overflow -/
theorem optimize_error (code : List PInstr) (e : Panic) (h : optimize code = .error e) :
    e = .unreachable ∨ e = .overflow := by
  rcases optimizeWith_error allPatterns code e h with ⟨c, w, hc, hw, hr⟩ | h
  · left
    simp only [allPatterns, List.mem_cons, List.not_mem_nil, or_false] at hc
    rcases hc with rfl | rfl | rfl | rfl
    all_goals
      match w, hw with
      | [a, b], _ => ?_
      | [], hw => simp [getFieldLocalPattern, constantTransferAndConvertPattern,
          pathTransferAndConvertPattern, nilTransferAndConvertPattern] at hw
      | [_], hw => simp [getFieldLocalPattern, constantTransferAndConvertPattern,
          pathTransferAndConvertPattern, nilTransferAndConvertPattern] at hw
      | _ :: _ :: _ :: _, hw => simp [getFieldLocalPattern, constantTransferAndConvertPattern,
          pathTransferAndConvertPattern, nilTransferAndConvertPattern] at hw
    · simp [getFieldLocalPattern] at hr
    · simp only [constantTransferAndConvertPattern] at hr; split at hr <;> simp at hr
    · simp only [pathTransferAndConvertPattern] at hr
      repeat' split at hr
      all_goals first | (simp at hr; done) | (simp only [Except.error.injEq] at hr; exact hr.symm)
    · simp [nilTransferAndConvertPattern] at hr
  · exact Or.inr h

/-! ### the uint16 overflow panic of `patchJumps` is unreachable with the real table -/

theorem patchDirect_error_witness (all : List (Nat × Int)) : ∀ (js : List Nat) (opt : List PInstr) (e : Panic),
    js.Nodup → (∀ j ∈ js, j < opt.length) → patchDirect all opt js = .error e →
      ∃ j ∈ js, ∃ ins, opt[j]? = some ins ∧ (ins.target : Int) + shiftSum all ins.target > 65535 := by
  intro js
  induction js with
  | nil => intro opt e _ _ h; simp [patchDirect] at h
  | cons j0 js ih =>
    intro opt e hnd hlt h
    unfold patchDirect at h
    have hj := hlt j0 List.mem_cons_self
    have hget := List.getElem?_eq_getElem hj
    rw [hget] at h
    simp only at h
    rw [List.nodup_cons] at hnd
    split at h
    · rename_i hov
      exact ⟨j0, List.mem_cons_self, _, hget, hov⟩
    · obtain ⟨j, hjm, ins, hins, hov⟩ := ih _ _ hnd.2
        (fun j' hj' => by rw [List.length_set]; exact hlt j' (List.mem_cons_of_mem _ hj')) h
      have hne : j0 ≠ j := fun heq => hnd.1 (heq ▸ hjm)
      rw [List.getElem?_set_ne hne] at hins
      exact ⟨j, List.mem_cons_of_mem _ hjm, ins, hins, hov⟩

theorem jumpsOf_get : ∀ (segs : List Seg) (pre : List PInstr) (j : Nat), j ∈ jumpsOf pre.length segs →
    ∃ x, (pre ++ outOf segs)[j]? = some x ∧ x ∈ srcOf segs ∧ isJump x = true := by
  intro segs
  induction segs with
  | nil => intro pre j h; simp [jumpsOf] at h
  | cons s rest ih =>
    intro pre j h
    cases s with
    | copy y =>
      simp only [jumpsOf] at h
      have hrec : j ∈ jumpsOf (pre ++ [y]).length rest →
          ∃ x, (pre ++ outOf (Seg.copy y :: rest))[j]? = some x ∧ x ∈ srcOf (Seg.copy y :: rest) ∧ isJump x = true := by
        intro h'
        obtain ⟨x, h1, h2, h3⟩ := ih (pre ++ [y]) j h'
        refine ⟨x, ?_, ?_, h3⟩
        · simpa [outOf, Seg.out] using h1
        · simp only [srcOf, List.flatMap_cons, Seg.src, List.singleton_append, List.mem_cons]
          exact Or.inr h2
      split at h
      · rename_i hjy
        rw [List.mem_cons] at h
        rcases h with h | h
        · subst h
          exact ⟨y, by simp [outOf, Seg.out], by simp [srcOf, Seg.src], hjy⟩
        · exact hrec (by simpa using h)
      · exact hrec (by simpa using h)
    | rewrite w r =>
      simp only [jumpsOf] at h
      obtain ⟨x, h1, h2, h3⟩ := ih (pre ++ r) j (by simpa using h)
      refine ⟨x, ?_, ?_, h3⟩
      · simpa [outOf, Seg.out] using h1
      · simp only [srcOf, List.flatMap_cons, Seg.src, List.mem_append]
        exact Or.inr h2

theorem shiftSum_nonpos {sh : List (Nat × Int)} (h : ∀ x ∈ sh, x.2 ≤ 0) (t : Nat) : shiftSum sh t ≤ 0 := by
  induction sh with
  | nil => simp [shiftSum]
  | cons a rest ih =>
    obtain ⟨o, s⟩ := a
    have h1 := h (o, s) List.mem_cons_self
    have h2 := ih (fun x hx => h x (List.mem_cons_of_mem _ hx))
    simp only [shiftSum]
    simp only at h1
    split <;> omega

/-- no Replacement of the real table grows the code -/
theorem allPatterns_shrink {c : Pattern} (hc : c ∈ allPatterns) {w r : List PInstr}
    (hw : w.map (·.op) = c.opcodes) (hr : c.replace w = .ok r) : r.length ≤ w.length := by
  simp only [allPatterns, List.mem_cons, List.not_mem_nil, or_false] at hc
  rcases hc with rfl | rfl | rfl | rfl
  all_goals
    match w, hw with
    | [a, b], _ => ?_
    | [], hw => simp [getFieldLocalPattern, constantTransferAndConvertPattern,
        pathTransferAndConvertPattern, nilTransferAndConvertPattern] at hw
    | [_], hw => simp [getFieldLocalPattern, constantTransferAndConvertPattern,
        pathTransferAndConvertPattern, nilTransferAndConvertPattern] at hw
    | _ :: _ :: _ :: _, hw => simp [getFieldLocalPattern, constantTransferAndConvertPattern,
        pathTransferAndConvertPattern, nilTransferAndConvertPattern] at hw
  · simp only [getFieldLocalPattern, Except.ok.injEq] at hr; subst hr; simp
  · simp only [constantTransferAndConvertPattern] at hr
    split at hr <;> (simp only [Except.ok.injEq] at hr; subst hr; simp)
  · simp only [pathTransferAndConvertPattern] at hr
    repeat' split at hr
    all_goals first | (simp only [Except.ok.injEq] at hr; subst hr; simp; done) | (simp at hr; done)
  · simp only [nilTransferAndConvertPattern, Except.ok.injEq] at hr; subst hr; simp

theorem shiftsOf_nonpos {jt : List Nat} : ∀ (segs : List Seg) (i : Nat), Legit allPatterns jt i segs →
    ∀ x ∈ shiftsOf i segs, x.2 ≤ 0 := by
  intro segs
  induction segs with
  | nil => intro i _ x hx; simp [shiftsOf] at hx
  | cons s rest ih =>
    intro i hl x hx
    cases s with
    | copy y => simp only [Legit] at hl; simp only [shiftsOf] at hx; exact ih _ hl x hx
    | rewrite w r =>
      simp only [Legit] at hl
      obtain ⟨⟨c, hc, hw, _, hr, _⟩, hl'⟩ := hl
      simp only [shiftsOf, List.mem_cons] at hx
      rcases hx with hx | hx
      · subst hx
        have := allPatterns_shrink hc hw hr
        simp only; omega
      · exact ih _ hl' x hx

/-- **With the real pattern table and jump targets that fit uint16 (every Go `InstructionJump*`),
the pass panics at most with the unknown-path-domain `unreachable`** — in particular the
"peephole shifted jump target past max uint16" panic of `patchJumps` cannot fire. -/
theorem optimize_no_overflow (code : List PInstr)
    (hu : ∀ x ∈ code, isJump x = true → x.target ≤ 65535) (e : Panic)
    (h : optimize code = .error e) : e = .unreachable := by
  rcases optimize_error code e h with h' | h'
  · exact h'
  · exfalso
    subst h'
    unfold optimize optimizeWith at h
    simp only at h
    rw [mainLoop_eq] at h
    cases hs : segments allPatterns (collectJumpTargets code) code.length 0 code with
    | error e' =>
      rw [hs] at h; simp only [Except.error.injEq] at h
      have hse := segments_error' _ _ _ _ _ _ (Nat.le_refl _) hs
      obtain ⟨c, w, hc, hw, hr⟩ := hse
      subst h
      -- a Replacement of the real table never returns `overflow`
      simp only [allPatterns, List.mem_cons, List.not_mem_nil, or_false] at hc
      rcases hc with rfl | rfl | rfl | rfl
      all_goals
        match w, hw with
        | [a, b], _ => ?_
        | [], hw => simp [getFieldLocalPattern, constantTransferAndConvertPattern,
            pathTransferAndConvertPattern, nilTransferAndConvertPattern] at hw
        | [_], hw => simp [getFieldLocalPattern, constantTransferAndConvertPattern,
            pathTransferAndConvertPattern, nilTransferAndConvertPattern] at hw
        | _ :: _ :: _ :: _, hw => simp [getFieldLocalPattern, constantTransferAndConvertPattern,
            pathTransferAndConvertPattern, nilTransferAndConvertPattern] at hw
      · simp [getFieldLocalPattern] at hr
      · simp only [constantTransferAndConvertPattern] at hr; split at hr <;> simp at hr
      · simp only [pathTransferAndConvertPattern] at hr
        repeat' split at hr
        all_goals simp at hr
      · simp [nilTransferAndConvertPattern] at hr
    | ok segs =>
      rw [hs] at h
      simp only [List.nil_append, List.length_nil] at h
      obtain ⟨hsrc, hlegit⟩ := segments_spec _ _ _ _ _ _ hs
      have hperm := sortBy_perm (keyOf (outOf segs)) (jumpsOf 0 segs)
      have hnd : (sortBy (keyOf (outOf segs)) (jumpsOf 0 segs)).Nodup :=
        hperm.symm.nodup (jumpsOf_nodup segs 0)
      have hd := patchJumps_eq_direct (shiftsOf 0 segs) (sortBy (keyOf (outOf segs)) (jumpsOf 0 segs))
        (outOf segs) (shiftsOf_sorted segs 0) (sortBy_sorted _ _) hnd
      change patchJumps (outOf segs) (sortBy (keyOf (outOf segs)) (jumpsOf 0 segs)) (shiftsOf 0 segs) 0
        = .error .overflow at h
      rw [hd] at h
      obtain ⟨j, hjm, ins, hins, hov⟩ := patchDirect_error_witness _ _ _ _ hnd (by
        intro j hj
        have := jumpsOf_upper segs 0 j (hperm.mem_iff.1 hj)
        omega) h
      obtain ⟨x, hx1, hx2, hx3⟩ := jumpsOf_get segs [] j (by simpa using hperm.mem_iff.1 hjm)
      simp only [List.nil_append] at hx1
      rw [hins] at hx1
      simp only [Option.some.injEq] at hx1
      subst hx1
      have hb := hu ins (hsrc ▸ hx2) hx3
      have hs0 := shiftSum_nonpos (shiftsOf_nonpos segs 0 hlegit) ins.target
      omega
end Verif.Proofs.Peephole
