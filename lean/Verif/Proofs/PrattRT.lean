import Verif.Proofs.PrattTy
/-!
C38 — the Pratt argument: the parser port applied to the printer port's output returns the expression.

`parse_print` (by induction on the expression): parsing `printExpr e ++ rest` at right binding power
`rbp` continues with the loop on `e` and `rest`, provided `rbp` is below the left binding power of every
operator on the unparenthesised left spine of `e` (`topLbp`), the token after `e` does not bind tighter
than the power at which the last operand on the right spine was parsed (`rlvl`) and does not continue a
type (`qFree`).  The bridge between the printer's precedence ranks and the parser's binding powers are
the numeric facts `lbp_eq` / `bp_eq` (binding power = 10 · (rank + 1)), obtained by case analysis over
the regenerated tables.
-/
set_option linter.unusedSimpArgs false
namespace Verif.Proofs.PrattRT
open Verif.Model.Front.Syn Verif.Proofs.PrattFuel Verif.Proofs.PrattTy Verif.Gen.PrecTables

/-! ## the tables -/

theorem precTernary_eq : precTernary = 1 := by decide
theorem precCasting_eq : precCasting = 13 := by decide
theorem precUnaryPrefix_eq : precUnaryPrefix = 14 := by decide
theorem precUnaryPostfix_eq : precUnaryPostfix = 15 := by decide
theorem precAccess_eq : precAccess = 16 := by decide
theorem precLiteral_eq : precLiteral = 17 := by decide
theorem bpTernary_eq : bpTernary = 20 := by decide
theorem bpCasting_eq : bpCasting = 140 := by decide
theorem bpUnaryPrefix_eq : bpUnaryPrefix = 150 := by decide
theorem bpUnaryPostfix_eq : bpUnaryPostfix = 160 := by decide
theorem bpAccess_eq : bpAccess = 170 := by decide

/-- binding power of a precedence rank -/
def lvl (p : Nat) : Nat := 10 * (p + 1)

theorem lbp_eq (op : BinOp) : op.lbp = lvl op.prec := by cases op <;> decide
theorem prec_range (op : BinOp) : 2 ≤ op.prec ∧ op.prec ≤ 11 := by cases op <;> decide
theorem rbp_eq (op : BinOp) : op.rbp = if op.leftAssoc then lvl op.prec else lvl op.prec - 1 := by
  cases op <;> decide
theorem rightAssoc_prec (op : BinOp) : op.leftAssoc = false → op.prec = 5 := by cases op <;> decide
theorem prec5_rightAssoc (op : BinOp) : op.prec = 5 → op.leftAssoc = false := by cases op <;> decide
theorem bp_eq (op : UnOp) : op.bp = lvl op.prec := by cases op <;> decide
theorem unprec (op : UnOp) : op.prec = 12 ∨ op.prec = 14 := by cases op <;> decide

theorem sym_or : BinOp.or.sym = "||" := by decide
theorem sym_and : BinOp.and.sym = "&&" := by decide
theorem sym_eq : BinOp.eq.sym = "==" := by decide
theorem sym_ne : BinOp.ne.sym = "!=" := by decide
theorem sym_lt : BinOp.lt.sym = "<" := by decide
theorem sym_le : BinOp.le.sym = "<=" := by decide
theorem sym_gt : BinOp.gt.sym = ">" := by decide
theorem sym_ge : BinOp.ge.sym = ">=" := by decide
theorem sym_coalesce : BinOp.coalesce.sym = "??" := by decide
theorem sym_bitOr : BinOp.bitOr.sym = "|" := by decide
theorem sym_bitXor : BinOp.bitXor.sym = "^" := by decide
theorem sym_bitAnd : BinOp.bitAnd.sym = "&" := by decide
theorem sym_shl : BinOp.shl.sym = "<<" := by decide
theorem sym_shr : BinOp.shr.sym = ">>" := by decide
theorem sym_add : BinOp.add.sym = "+" := by decide
theorem sym_sub : BinOp.sub.sym = "-" := by decide
theorem sym_mul : BinOp.mul.sym = "*" := by decide
theorem sym_div : BinOp.div.sym = "/" := by decide
theorem sym_mod : BinOp.mod.sym = "%" := by decide
theorem binOfSym_or : binOfSym "||" = some .or := by decide
theorem binOfSym_and : binOfSym "&&" = some .and := by decide
theorem binOfSym_eq : binOfSym "==" = some .eq := by decide
theorem binOfSym_ne : binOfSym "!=" = some .ne := by decide
theorem binOfSym_lt : binOfSym "<" = some .lt := by decide
theorem binOfSym_le : binOfSym "<=" = some .le := by decide
theorem binOfSym_gt : binOfSym ">" = some .gt := by decide
theorem binOfSym_ge : binOfSym ">=" = some .ge := by decide
theorem binOfSym_coalesce : binOfSym "??" = some .coalesce := by decide
theorem binOfSym_bitOr : binOfSym "|" = some .bitOr := by decide
theorem binOfSym_bitXor : binOfSym "^" = some .bitXor := by decide
theorem binOfSym_bitAnd : binOfSym "&" = some .bitAnd := by decide
theorem binOfSym_shl : binOfSym "<<" = some .shl := by decide
theorem binOfSym_shr : binOfSym ">>" = some .shr := by decide
theorem binOfSym_add : binOfSym "+" = some .add := by decide
theorem binOfSym_sub : binOfSym "-" = some .sub := by decide
theorem binOfSym_mul : binOfSym "*" = some .mul := by decide
theorem binOfSym_div : binOfSym "/" = some .div := by decide
theorem binOfSym_mod : binOfSym "%" = some .mod := by decide

theorem usym_minus : UnOp.minus.sym = "-" := by decide
theorem usym_not : UnOp.not.sym = "!" := by decide
theorem usym_move : UnOp.move.sym = "<-" := by decide
theorem usym_deref : UnOp.deref.sym = "*" := by decide

/-! ## the parser on operator tokens -/

theorem adjGt_spaced (Y : List Tok) : adjGt (spaced Y) = none := by
  rcases Y with _ | ⟨⟨k, s, sp⟩, Y⟩
  · rfl
  · cases k <;> rfl

theorem lbp_binop (op : BinOp) (hne : op ≠ .shr) (sp : Bool) (X : List Tok) (hX : adjGt X = none) :
    exprLbp (⟨.sym, op.sym, sp⟩ :: X) = op.lbp := by
  cases op <;> first | exact absurd rfl hne | simp [exprLbp, hX, sym_or, sym_and, sym_eq, sym_ne, sym_lt, sym_le, sym_gt, sym_ge, sym_coalesce, sym_bitOr, sym_bitXor, sym_bitAnd, sym_shl, sym_shr, sym_add, sym_sub, sym_mul, sym_div, sym_mod, binOfSym_or, binOfSym_and, binOfSym_eq, binOfSym_ne, binOfSym_lt, binOfSym_le, binOfSym_gt, binOfSym_ge, binOfSym_coalesce, binOfSym_bitOr, binOfSym_bitXor, binOfSym_bitAnd, binOfSym_shl, binOfSym_shr, binOfSym_add, binOfSym_sub, binOfSym_mul, binOfSym_div, binOfSym_mod]

theorem led_binop (pe : Nat → List Tok → Option (Expr × List Tok)) (pa : List Tok → Option (Bool × Ty × List Tok))
    (pas : List Tok → Option (Expr × List Tok))
    (left : Expr) (op : BinOp) (hne : op ≠ .shr) (sp : Bool) (X : List Tok) (hX : adjGt X = none) :
    ledBody pe pa pas left (⟨.sym, op.sym, sp⟩ :: X) = (pe op.rbp X).map (fun (e, r) => (.binary op left e, r)) := by
  cases op <;> first | exact absurd rfl hne | simp [ledBody, hX, sym_or, sym_and, sym_eq, sym_ne, sym_lt, sym_le, sym_gt, sym_ge, sym_coalesce, sym_bitOr, sym_bitXor, sym_bitAnd, sym_shl, sym_shr, sym_add, sym_sub, sym_mul, sym_div, sym_mod, binOfSym_or, binOfSym_and, binOfSym_eq, binOfSym_ne, binOfSym_lt, binOfSym_le, binOfSym_gt, binOfSym_ge, binOfSym_coalesce, binOfSym_bitOr, binOfSym_bitXor, binOfSym_bitAnd, binOfSym_shl, binOfSym_shr, binOfSym_add, binOfSym_sub, binOfSym_mul, binOfSym_div, binOfSym_mod]

theorem lbp_shr (sp : Bool) (X : List Tok) :
    exprLbp (⟨.sym, ">", sp⟩ :: ⟨.sym, ">", false⟩ :: X) = BinOp.shr.lbp := by
  simp [exprLbp, adjGt]

theorem led_shr (pe : Nat → List Tok → Option (Expr × List Tok)) (pa : List Tok → Option (Bool × Ty × List Tok))
    (pas : List Tok → Option (Expr × List Tok))
    (left : Expr) (sp : Bool) (X : List Tok) :
    ledBody pe pa pas left (⟨.sym, ">", sp⟩ :: ⟨.sym, ">", false⟩ :: X) =
      (pe BinOp.shr.rbp X).map (fun (e, r) => (.binary .shr left e, r)) := by
  simp [ledBody, adjGt]

/-! ## the printer in terms of "bare or parenthesised" sub-documents -/

/-- a sub-expression printed in parentheses (`p`) or bare -/
def doc (p : Bool) (e : Expr) : List Tok := if p then parens (printExpr e) else printExpr e

/-- `parenthesizedExpressionDoc` adds parentheses -/
def pP (sub parent : Nat) : Bool := !(decide (parent ≤ sub) || (parent == precAccess && sub == precUnaryPostfix))
/-- `BinaryExpression.Doc` parenthesises the left / right operand -/
def pL (op : BinOp) (l : Expr) : Bool :=
  (op.leftAssoc && decide (op.prec > l.prec)) || (!op.leftAssoc && decide (op.prec ≥ l.prec))
def pR (op : BinOp) (r : Expr) : Bool :=
  (op.leftAssoc && decide (op.prec ≥ r.prec)) || (!op.leftAssoc && decide (op.prec > r.prec))
/-- `MemberExpression.Doc` parenthesises the receiver -/
def pM : Expr → Bool
  | .int _ _ => true
  | e => pP e.prec precAccess

theorem parenthesized_eq (e : Expr) (parent : Nat) :
    parenthesized (printExpr e) e.prec parent = doc (pP e.prec parent) e := by
  unfold parenthesized doc pP
  by_cases h1 : parent ≤ e.prec
  · simp [h1]
  · by_cases h2 : (parent == precAccess && e.prec == precUnaryPostfix) = true
    · simp [h1, h2]
    · simp [h1, h2]

theorem print_unary (op : UnOp) (e : Expr) :
    printExpr (.unary op e) = sym op.sym :: (if op = .move then spaced (doc (pP e.prec op.prec) e) else doc (pP e.prec op.prec) e) := by
  rw [printExpr, parenthesized_eq]
theorem print_ref (e : Expr) : printExpr (.ref e) = sym "&" :: doc (pP e.prec precUnaryPrefix) e := by
  rw [printExpr, parenthesized_eq]
theorem print_force (e : Expr) : printExpr (.force e) = doc (pP e.prec precUnaryPostfix) e ++ [sym "!"] := by
  rw [printExpr, parenthesized_eq]
theorem print_binary (op : BinOp) (l r : Expr) :
    printExpr (.binary op l r) = doc (pL op l) l ++ opToks op ++ spaced (doc (pR op r) r) := by
  rw [printExpr]; rfl
theorem print_cast (op : CastOp) (e : Expr) (res : Bool) (t : Ty) :
    printExpr (.cast op e res t) = doc (pP e.prec precCasting) e ++
      (if op = .cast then ⟨.ident, "as", true⟩ else symSp op.sym) :: spaced (printAnn res t) := by
  rw [printExpr, parenthesized_eq]
theorem print_cond (c t e : Expr) :
    printExpr (.cond c t e) = doc (decide (precTernary ≥ c.prec)) c ++ symSp "?" ::
      spaced (doc (decide (precTernary ≥ t.prec)) t) ++ symSp ":" :: spaced (doc (decide (precTernary > e.prec)) e) := by
  rw [printExpr]; simp only [doc, decide_eq_true_eq]
theorem print_member (o : Bool) (e : Expr) (n : String) :
    printExpr (.member o e n) = doc (pM e) e ++ [sym (if o then "?." else "."), ⟨.ident, n, false⟩] := by
  have h : printExpr (.member o e n) = (match e with
      | .int _ _ => parens (printExpr e)
      | _ => parenthesized (printExpr e) e.prec precAccess) ++
      [sym (if o then "?." else "."), ⟨.ident, n, false⟩] := by cases e <;> rfl
  rw [h]
  cases e <;> simp only [pM, parenthesized_eq]
  all_goals rfl
theorem print_index (e i : Expr) :
    printExpr (.index e i) = doc (pP e.prec precAccess) e ++ sym "[" :: printExpr i ++ [sym "]"] := by
  rw [printExpr, parenthesized_eq]

theorem print_invoke (f args : Expr) :
    printExpr (.invoke f args) = doc (pP f.prec precAccess) f ++ sym "(" :: printArgs args ++ [sym ")"] := by
  rw [printExpr, parenthesized_eq]

/-! ## the side conditions of the induction -/

theorem prec_binary (op : BinOp) (l r : Expr) : (Expr.binary op l r).prec = op.prec := rfl
theorem prec_unary (op : UnOp) (e : Expr) : (Expr.unary op e).prec = op.prec := rfl
theorem prec_ref (e : Expr) : (Expr.ref e).prec = 14 := precUnaryPrefix_eq
theorem prec_force (e : Expr) : (Expr.force e).prec = 15 := precUnaryPostfix_eq
theorem prec_cast (op : CastOp) (e : Expr) (res : Bool) (t : Ty) : (Expr.cast op e res t).prec = 13 := precCasting_eq
theorem prec_cond (c t e : Expr) : (Expr.cond c t e).prec = 1 := precTernary_eq
theorem prec_member (o : Bool) (e : Expr) (n : String) : (Expr.member o e n).prec = 16 := precAccess_eq
theorem prec_index (e i : Expr) : (Expr.index e i).prec = 16 := precAccess_eq
theorem prec_invoke (f a : Expr) : (Expr.invoke f a).prec = 16 := precAccess_eq

/-- the smallest left binding power of an operator on the unparenthesised left spine (1000: none) -/
def topLbp : Expr → Nat
  | .binary op l _ => if pL op l then op.lbp else min op.lbp (topLbp l)
  | .cast _ e _ _ => if pP e.prec precCasting then bpCasting else min bpCasting (topLbp e)
  | .cond c _ _ => if decide (precTernary ≥ c.prec) then bpTernary else min bpTernary (topLbp c)
  | .force e => if pP e.prec precUnaryPostfix then bpUnaryPostfix else min bpUnaryPostfix (topLbp e)
  | .member _ e _ => if pM e then bpAccess else min bpAccess (topLbp e)
  | .index e _ => if pP e.prec precAccess then bpAccess else min bpAccess (topLbp e)
  | .invoke e _ => if pP e.prec precAccess then bpAccess else min bpAccess (topLbp e)
  | _ => 1000

/-- the power at which the last operand of the printed form is parsed (1000: the form is closed) -/
def rlvl : Expr → Nat
  | .int true _ | .fix true _ => bpUnaryPrefix
  | .unary op _ => op.bp
  | .ref _ => bpUnaryPrefix
  | .binary op _ _ => op.rbp
  | .cast .. => bpCasting
  | .cond .. => 0
  | _ => 1000

/-- the next token is not an adjacent `?` / `??` / `<` (which would continue a type) -/
def qFree : List Tok → Bool
  | [] => true
  | t :: _ => t.sp || !(t.text == "<" || t.text == "?" || t.text == "??")

theorem rlvl_postfix (e : Expr) (h : 15 ≤ e.prec) : rlvl e = 1000 := by
  cases e <;> simp [rlvl, Expr.prec, precLiteral_eq, precUnaryPrefix_eq, precUnaryPostfix_eq, precAccess_eq,
    precCasting_eq, precTernary_eq] at h ⊢
  case int neg l => cases neg <;> simp_all
  case fix neg l => cases neg <;> simp_all
  case unary op e => rcases unprec op with h' | h' <;> omega
  case binary op l r => have := prec_range op; omega

theorem rlvl_ge (e : Expr) (h : 2 ≤ e.prec) : (if e.prec = 5 then 59 else lvl e.prec) ≤ rlvl e := by
  cases e <;> simp [rlvl, Expr.prec, precLiteral_eq, precUnaryPrefix_eq, precUnaryPostfix_eq, precAccess_eq,
    precCasting_eq, precTernary_eq, bpUnaryPrefix_eq, bpCasting_eq, lvl] at h ⊢
  case int neg l => cases neg <;> simp
  case fix neg l => cases neg <;> simp
  case unary op e => rw [bp_eq]; rcases unprec op with h' | h' <;> simp [h', lvl]
  case binary op l r =>
    rw [rbp_eq]
    by_cases h5 : op.prec = 5
    · simp [h5, prec5_rightAssoc op h5, lvl]
    · have := mt (rightAssoc_prec op) h5
      simp at this
      simp [h5, this, lvl]

theorem topLbp_prefix (e : Expr) (h : e.prec = 12 ∨ e.prec = 14) : topLbp e = 1000 := by
  cases e <;> simp [topLbp, Expr.prec, precLiteral_eq, precUnaryPrefix_eq, precUnaryPostfix_eq, precAccess_eq,
    precCasting_eq, precTernary_eq] at h ⊢
  case binary op l r => have := prec_range op; omega

theorem topLbp_ge (e : Expr) : min (lvl e.prec) 160 ≤ topLbp e := by
  induction e with
  | binary op l r ihl _ =>
    simp only [topLbp, prec_binary]
    have hr := prec_range op
    by_cases hp : pL op l = true
    · rw [if_pos hp, lbp_eq]; omega
    · rw [if_neg hp, lbp_eq]
      have : op.prec ≤ l.prec := by
        simp only [pL, Bool.or_eq_true, Bool.and_eq_true, decide_eq_true_eq, not_or, not_and, Bool.not_eq_true'] at hp
        cases hla : op.leftAssoc <;> simp [hla] at hp <;> omega
      simp only [lvl] at ihl ⊢
      omega
  | cast op e res t ih =>
    simp only [topLbp, prec_cast, precCasting_eq, bpCasting_eq, lvl]
    by_cases hp : pP e.prec 13 = true
    · rw [if_pos hp]; omega
    · rw [if_neg hp]
      have : 13 ≤ e.prec := by
        simp [pP, precAccess_eq] at hp; omega
      simp only [lvl] at ih; omega
  | cond c t e ih _ _ =>
    simp only [topLbp, prec_cond, precTernary_eq, bpTernary_eq, lvl]
    by_cases hp : decide (1 ≥ c.prec) = true
    · rw [if_pos hp]; omega
    · rw [if_neg hp]
      simp at hp
      simp only [lvl] at ih; omega
  | force e ih =>
    simp only [topLbp, prec_force, precUnaryPostfix_eq, bpUnaryPostfix_eq, lvl]
    by_cases hp : pP e.prec 15 = true
    · rw [if_pos hp]; omega
    · rw [if_neg hp]
      have : 15 ≤ e.prec := by
        simp [pP, precAccess_eq] at hp; omega
      simp only [lvl] at ih; omega
  | member o e n ih =>
    simp only [topLbp, prec_member, prec_index, precAccess_eq, bpAccess_eq, lvl]
    by_cases hp : pM e = true
    · rw [if_pos hp]; omega
    · rw [if_neg hp]
      have : 15 ≤ e.prec := by
        cases e <;> simp [pM, pP, precUnaryPostfix_eq, precAccess_eq] at hp <;> omega
      simp only [lvl] at ih; omega
  | index e i ih _ =>
    simp only [topLbp, prec_member, prec_index, precAccess_eq, bpAccess_eq, lvl]
    by_cases hp : pP e.prec 16 = true
    · rw [if_pos hp]; omega
    · rw [if_neg hp]
      have : 15 ≤ e.prec := by
        simp [pP, precUnaryPostfix_eq, precAccess_eq] at hp; omega
      simp only [lvl] at ih; omega
  | invoke e i ih _ =>
    simp only [topLbp, prec_invoke, precAccess_eq, bpAccess_eq, lvl]
    by_cases hp : pP e.prec 16 = true
    · rw [if_pos hp]; omega
    · rw [if_neg hp]
      have : 15 ≤ e.prec := by
        simp [pP, precUnaryPostfix_eq, precAccess_eq] at hp; omega
      simp only [lvl] at ih; omega
  | _ => simp [topLbp]; omega

/-! ## white space flags and first tokens -/

theorem spaced_append (X rest : List Tok) (h : X ≠ []) : spaced X ++ rest = spaced (X ++ rest) := by
  cases X with
  | nil => exact absurd rfl h
  | cons a X => rfl

theorem nud_spaced (f : Nat) (Y : List Tok) : nud f (spaced Y) = nud f Y := by
  cases f with
  | zero => simp [nud]
  | succ f =>
    rw [nud, nud]
    rcases Y with _ | ⟨⟨k, s, sp⟩, Y⟩
    · rfl
    · cases k <;> rfl

theorem parseExpr_spaced (f rbp : Nat) (Y : List Tok) : parseExpr f rbp (spaced Y) = parseExpr f rbp Y := by
  cases f with
  | zero => simp [parseExpr]
  | succ f => rw [parseExpr, parseExpr, nud_spaced]

theorem parseTy_spaced (f rbp : Nat) (Y : List Tok) : parseTy f rbp (spaced Y) = parseTy f rbp Y := by
  cases f with
  | zero => simp [parseTy]
  | succ f =>
    rw [parseTy, parseTy]
    rcases Y with _ | ⟨⟨k, s, sp⟩, Y⟩
    · rfl
    · cases k <;> rfl

theorem expect_spaced (s : String) (Y : List Tok) : expect s (spaced Y) = expect s Y := by
  rcases Y with _ | ⟨⟨k, x, sp⟩, Y⟩
  · rfl
  · cases k <;> rfl

theorem parseAnn_spaced (f : Nat) (Y : List Tok) : parseAnn f (spaced Y) = parseAnn f Y := by
  unfold parseAnn
  rw [expect_spaced, parseTy_spaced]

theorem doc_ne_nil_of (p : Bool) (e : Expr) (h : printExpr e ≠ []) : doc p e ≠ [] := by
  cases p <;> simp [doc, parens, h]

/-- the printed form is non-empty and does not start with `)` -/
theorem printExpr_head (e : Expr) : ∃ h tl, printExpr e = h :: tl ∧ isSym ")" h = false := by
  have hdoc : ∀ (p : Bool) (c : Expr), (∃ h tl, printExpr c = h :: tl ∧ isSym ")" h = false) →
      ∃ h tl, doc p c = h :: tl ∧ isSym ")" h = false := by
    intro p c ih
    cases p
    · exact ih
    · exact ⟨sym "(", _, rfl, by decide⟩
  induction e with
  | ident n => exact ⟨_, _, rfl, by simp [isSym]⟩
  | int neg l => cases neg <;> exact ⟨_, _, rfl, by simp [isSym, sym]⟩
  | fix neg l => cases neg <;> exact ⟨_, _, rfl, by simp [isSym, sym]⟩
  | bool b => exact ⟨_, _, rfl, by simp [isSym]⟩
  | nil => exact ⟨_, _, rfl, by simp [isSym]⟩
  | void => exact ⟨_, _, rfl, by decide⟩
  | unary op e _ => exact ⟨_, _, print_unary op e, by cases op <;> decide⟩
  | ref e _ => exact ⟨_, _, print_ref e, by decide⟩
  | force e ih =>
    obtain ⟨h, tl, he, hh⟩ := hdoc (pP e.prec precUnaryPostfix) e ih
    exact ⟨h, tl ++ [sym "!"], by rw [print_force, he]; rfl, hh⟩
  | binary op l r ih _ =>
    obtain ⟨h, tl, he, hh⟩ := hdoc (pL op l) l ih
    exact ⟨h, _, by rw [print_binary, he]; rfl, hh⟩
  | cast op e res t ih =>
    obtain ⟨h, tl, he, hh⟩ := hdoc (pP e.prec precCasting) e ih
    exact ⟨h, _, by rw [print_cast, he]; rfl, hh⟩
  | cond c t e ih _ _ =>
    obtain ⟨h, tl, he, hh⟩ := hdoc (decide (precTernary ≥ c.prec)) c ih
    exact ⟨h, _, by rw [print_cond, he]; rfl, hh⟩
  | member o e n ih =>
    obtain ⟨h, tl, he, hh⟩ := hdoc (pM e) e ih
    exact ⟨h, _, by rw [print_member, he]; rfl, hh⟩
  | index e i ih _ =>
    obtain ⟨h, tl, he, hh⟩ := hdoc (pP e.prec precAccess) e ih
    exact ⟨h, _, by rw [print_index, he]; rfl, hh⟩
  | invoke e a ih _ =>
    obtain ⟨h, tl, he, hh⟩ := hdoc (pP e.prec precAccess) e ih
    exact ⟨h, _, by rw [print_invoke, he]; rfl, hh⟩
  | argsNil => exact ⟨_, _, rfl, by decide⟩
  | argsCons l a r _ _ => exact ⟨_, _, rfl, by decide⟩

theorem printExpr_ne_nil (e : Expr) : printExpr e ≠ [] := by
  obtain ⟨h, tl, he, _⟩ := printExpr_head e
  rw [he]; simp

theorem doc_ne_nil (p : Bool) (e : Expr) : doc p e ≠ [] := doc_ne_nil_of p e (printExpr_ne_nil e)

/-! ## the induction -/

theorem loop_stop (b rbp : Nat) (e : Expr) (rest : List Tok) (h : exprLbp rest ≤ rbp) :
    loop (b + 1) rbp e rest = some (e, rest) := by
  rw [loop]; simp [h]

theorem loop_step (b rbp : Nat) (e : Expr) (ts : List Tok) (h : rbp < exprLbp ts) :
    loop (b + 1) rbp e ts = (led b e ts).bind fun (l, r) => loop b rbp l r := by
  rw [loop]
  have : ¬ (rbp ≥ exprLbp ts) := by omega
  simp only [this, if_false]
  cases led b e ts <;> rfl

/-- the statement proved by induction on the expression -/
def P (e : Expr) : Prop :=
  ∀ (rbp : Nat) (rest : List Tok) (b : Nat) (r : Expr × List Tok) (F : Nat),
    rbp < topLbp e → exprLbp rest ≤ rlvl e → qFree rest = true → loop b rbp e rest = some r →
    4 * (printExpr e).length + b ≤ F → parseExpr F rbp (printExpr e ++ rest) = some r

theorem exprLbp_rparen (sp : Bool) (rest : List Tok) : exprLbp (⟨.sym, ")", sp⟩ :: rest) = 0 := by
  simp [exprLbp]; decide

/-- a sub-expression printed bare or in parentheses -/
theorem child (c : Expr) (hc : P c) (p : Bool) (rbp : Nat) (rest : List Tok) (b : Nat) (r : Expr × List Tok) (F : Nat)
    (hb : p = false → rbp < topLbp c ∧ exprLbp rest ≤ rlvl c ∧ qFree rest = true)
    (hl : loop b rbp c rest = some r) (hF : 4 * (doc p c).length + b ≤ F) :
    parseExpr F rbp (doc p c ++ rest) = some r := by
  cases p with
  | false =>
    obtain ⟨h1, h2, h3⟩ := hb rfl
    exact hc rbp rest b r F h1 h2 h3 hl hF
  | true =>
    simp only [doc, if_true, parens, List.length_cons, List.length_append, List.length_nil] at hF ⊢
    obtain ⟨F2, rfl⟩ : ∃ F2, F = F2 + 2 := ⟨F - 2, by omega⟩
    obtain ⟨h, tl, he, hh⟩ := printExpr_head c
    have hpos : 0 < topLbp c := by have := topLbp_ge c; simp only [lvl] at this; omega
    have hin := hc 0 (⟨.sym, ")", false⟩ :: rest) 1 (c, ⟨.sym, ")", false⟩ :: rest) F2 hpos
      (by rw [exprLbp_rparen]; omega) rfl (loop_stop 0 0 _ _ (by rw [exprLbp_rparen]; omega)) (by omega)
    rw [parseExpr, nud]
    unfold nudBody
    simp only [sym, List.cons_append, List.append_assoc, List.nil_append]
    simp only [show ("(" == "(") = true by decide, if_true]
    have hx : expect ")" (printExpr c ++ (⟨.sym, ")", false⟩ :: rest)) = none := by
      rw [he]; exact expect_notSym _ _ _ hh
    rw [hx]
    simp only [hin, Option.bind_some, expect, beq_self_eq_true, if_true, Option.map_some]
    exact loop_mono (by omega) hl

/-! ### atoms -/

theorem P_of_nud (e : Expr) (h : ∀ f rest, nud (f + 1) (printExpr e ++ rest) = some (e, rest)) : P e := by
  intro rbp rest b r F _ _ _ hl hF
  have hlen : 1 ≤ (printExpr e).length := by
    obtain ⟨h, tl, he, _⟩ := printExpr_head e
    rw [he]; simp
  obtain ⟨F2, rfl⟩ : ∃ F2, F = F2 + 2 := ⟨F - 2, by omega⟩
  rw [parseExpr, h]
  exact loop_mono (by omega) hl

theorem P_ident (n : String) (h : plainIdent n = true) : P (.ident n) := by
  apply P_of_nud
  intro f rest
  simp only [plainIdent, Bool.and_eq_true, Bool.not_eq_true'] at h
  obtain ⟨⟨⟨h1, h2⟩, h3⟩, h4⟩ := h
  simp [nud, nudBody, printExpr, h1, h2, h3, h4]

theorem P_int (l : String) : P (.int false l) := P_of_nud _ (fun f rest => by simp [nud, nudBody, printExpr])
theorem P_fix (l : String) : P (.fix false l) := P_of_nud _ (fun f rest => by simp [nud, nudBody, printExpr])
theorem P_bool (v : Bool) : P (.bool v) := P_of_nud _ (fun f rest => by cases v <;> simp [nud, nudBody, printExpr])
theorem P_nil : P .nil := P_of_nud _ (fun f rest => by simp [nud, nudBody, printExpr])
theorem P_void : P .void := P_of_nud _ (fun f rest => by simp [nud, nudBody, printExpr, sym, expect])

theorem P_negint (l : String) (h : isZeroLit l = false) : P (.int true l) := by
  intro rbp rest b r F _ h2 _ hl hF
  simp only [rlvl] at h2
  simp only [printExpr, if_true, List.length_cons, List.length_nil] at hF ⊢
  obtain ⟨F4, rfl⟩ : ∃ F4, F = F4 + 4 := ⟨F - 4, by omega⟩
  rw [parseExpr, nud]
  simp only [nudBody, sym, List.cons_append, List.nil_append]
  simp only [show ("-" == "(") = false by decide, show ("-" == "-") = true by decide, if_true, Bool.false_eq_true, if_false]
  rw [parseExpr, nud]
  simp only [nudBody]
  rw [loop_stop _ _ _ _ (by rw [show UnOp.minus.bp = 150 by decide]; rw [bpUnaryPrefix_eq] at h2; exact h2)]
  simp only [Option.map_some, foldMinus, h, Bool.not_false]
  exact loop_mono (by omega) hl

theorem P_negfix (l : String) : P (.fix true l) := by
  intro rbp rest b r F _ h2 _ hl hF
  simp only [rlvl] at h2
  simp only [printExpr, if_true, List.length_cons, List.length_nil] at hF ⊢
  obtain ⟨F4, rfl⟩ : ∃ F4, F = F4 + 4 := ⟨F - 4, by omega⟩
  rw [parseExpr, nud]
  simp only [nudBody, sym, List.cons_append, List.nil_append]
  simp only [show ("-" == "(") = false by decide, show ("-" == "-") = true by decide, if_true, Bool.false_eq_true, if_false]
  rw [parseExpr, nud]
  simp only [nudBody]
  rw [loop_stop _ _ _ _ (by rw [show UnOp.minus.bp = 150 by decide]; rw [bpUnaryPrefix_eq] at h2; exact h2)]
  simp only [Option.map_some, foldMinus]
  exact loop_mono (by omega) hl

/-! ### prefix operators -/

theorem nud_unop (pe : Nat → List Tok → Option (Expr × List Tok)) (op : UnOp) (sp : Bool) (X : List Tok) :
    nudBody pe (⟨.sym, op.sym, sp⟩ :: X) =
      (pe op.bp X).map (fun (e, r) => (if op = .minus then foldMinus e else .unary op e, r)) := by
  cases op <;> simp [nudBody, usym_minus, usym_not, usym_move, usym_deref]

theorem foldMinus_eq (c : Expr) (h : c.isNonNegLit = false) : foldMinus c = .unary .minus c := by
  cases c <;> simp [foldMinus, Expr.isNonNegLit] at h ⊢
  case int neg l => cases neg <;> simp_all
  case fix neg l => cases neg <;> simp_all

theorem P_unary (op : UnOp) (c : Expr) (hc : P c) (hwf : (op == .minus && c.isNonNegLit) = false) :
    P (.unary op c) := by
  intro rbp rest b r F _ h2 h3 hl hF
  simp only [rlvl] at h2
  rw [print_unary] at hF ⊢
  have hlen : (if op = .move then spaced (doc (pP c.prec op.prec) c) else doc (pP c.prec op.prec) c).length =
      (doc (pP c.prec op.prec) c).length := by
    split
    · have := doc_ne_nil (pP c.prec op.prec) c
      cases hd : doc (pP c.prec op.prec) c with
      | nil => exact absurd hd this
      | cons a X => rfl
    · rfl
  rw [List.length_cons, hlen] at hF
  obtain ⟨F2, rfl⟩ : ∃ F2, F = F2 + 2 := ⟨F - 2, by omega⟩
  rw [parseExpr, nud]
  simp only [sym, List.cons_append]
  rw [nud_unop]
  have hop : parseExpr F2 op.bp ((if op = .move then spaced (doc (pP c.prec op.prec) c) else doc (pP c.prec op.prec) c) ++ rest)
      = some (c, rest) := by
    have hmain : parseExpr F2 op.bp (doc (pP c.prec op.prec) c ++ rest) = some (c, rest) := by
      refine child c hc _ op.bp rest 1 (c, rest) F2 ?_ (loop_stop 0 _ _ _ h2) (by omega)
      intro hp
      have hge : op.prec ≤ c.prec := by
        rcases unprec op with h' | h' <;> simp [pP, h', precAccess_eq] at hp <;> omega
      have h1 := topLbp_ge c
      have h4 := rlvl_ge c (by rcases unprec op with h' | h' <;> omega)
      rw [bp_eq] at h2 ⊢
      simp only [lvl] at h1 h2 h4 ⊢
      refine ⟨?_, ?_, h3⟩
      · by_cases hpre : c.prec = 12 ∨ c.prec = 14
        · rw [topLbp_prefix c hpre]; rcases unprec op with h' | h' <;> omega
        · rcases unprec op with h' | h' <;> omega
      · have : ¬ c.prec = 5 := by rcases unprec op with h' | h' <;> omega
        simp only [this, if_false] at h4
        rcases unprec op with h' | h' <;> omega
    split
    · rw [spaced_append _ _ (doc_ne_nil _ _), parseExpr_spaced]; exact hmain
    · exact hmain
  rw [hop]
  simp only [Option.map_some]
  have hmk : (if op = .minus then foldMinus c else .unary op c) = .unary op c := by
    split
    · next hm =>
      subst hm
      exact foldMinus_eq c (by simpa using hwf)
    · rfl
  rw [hmk]
  exact loop_mono (by omega) hl

theorem P_ref (c : Expr) (hc : P c) : P (.ref c) := by
  intro rbp rest b r F _ h2 h3 hl hF
  simp only [rlvl] at h2
  rw [print_ref] at hF ⊢
  rw [List.length_cons] at hF
  obtain ⟨F2, rfl⟩ : ∃ F2, F = F2 + 2 := ⟨F - 2, by omega⟩
  rw [parseExpr, nud]
  simp only [sym, List.cons_append, nudBody]
  simp only [show ("&" == "(") = false by decide, show ("&" == "-") = false by decide, show ("&" == "!") = false by decide,
    show ("&" == "*") = false by decide, show ("&" == "<-") = false by decide, show ("&" == "&") = true by decide,
    if_true, Bool.false_eq_true, if_false]
  have hop : parseExpr F2 bpUnaryPrefix (doc (pP c.prec precUnaryPrefix) c ++ rest) = some (c, rest) := by
    refine child c hc _ bpUnaryPrefix rest 1 (c, rest) F2 ?_ (loop_stop 0 _ _ _ h2) (by omega)
    intro hp
    have hge : 14 ≤ c.prec := by
      simp [pP, precUnaryPrefix_eq, precAccess_eq] at hp; omega
    have h1 := topLbp_ge c
    have h4 := rlvl_ge c (by omega)
    rw [bpUnaryPrefix_eq] at h2 ⊢
    simp only [lvl] at h1 h2 h4 ⊢
    refine ⟨?_, ?_, h3⟩
    · by_cases hpre : c.prec = 12 ∨ c.prec = 14
      · rw [topLbp_prefix c hpre]; omega
      · omega
    · have : ¬ c.prec = 5 := by omega
      simp only [this, if_false] at h4
      omega
  rw [hop]
  simp only [Option.map_some]
  exact loop_mono (by omega) hl

/-! ### postfix operators -/

theorem P_force (c : Expr) (hc : P c) : P (.force c) := by
  intro rbp rest b r F h1 _ _ hl hF
  rw [print_force] at hF ⊢
  simp only [List.length_append, List.length_cons, List.length_nil] at hF
  rw [List.append_assoc]
  have hlbp : exprLbp ([sym "!"] ++ rest) = 160 := by simp [exprLbp, sym, bpUnaryPostfix_eq]
  have hr : rbp < 160 ∧ (pP c.prec precUnaryPostfix = false → rbp < topLbp c) := by
    simp only [topLbp, bpUnaryPostfix_eq] at h1
    by_cases hp : pP c.prec precUnaryPostfix = true
    · rw [if_pos hp] at h1; exact ⟨h1, fun h => by simp [hp] at h⟩
    · rw [if_neg hp] at h1; exact ⟨by omega, fun _ => by omega⟩
  refine child c hc (pP c.prec precUnaryPostfix) rbp _ (b + 2) r F ?_ ?_ (by omega)
  · intro hp
    refine ⟨hr.2 hp, ?_, rfl⟩
    have : 15 ≤ c.prec := by simp [pP, precUnaryPostfix_eq, precAccess_eq] at hp; omega
    rw [hlbp, rlvl_postfix c this]; omega
  · rw [loop_step _ _ _ _ (by rw [hlbp]; exact hr.1), led]
    simp only [ledBody, sym, List.cons_append, List.nil_append]
    simp only [show ("!" == "as?") = false by decide, show ("!" == "as!") = false by decide,
      show ("!" == "?") = false by decide, show ("!" == "!") = true by decide, if_true, Bool.false_eq_true, if_false,
      Option.bind_some]
    exact loop_mono (by omega) hl

theorem P_member (o : Bool) (c : Expr) (n : String) (hc : P c) : P (.member o c n) := by
  intro rbp rest b r F h1 _ _ hl hF
  rw [print_member] at hF ⊢
  simp only [List.length_append, List.length_cons, List.length_nil] at hF
  rw [List.append_assoc]
  have hlbp : exprLbp ([sym (if o then "?." else "."), ⟨.ident, n, false⟩] ++ rest) = 170 := by
    cases o <;> simp [exprLbp, sym, bpAccess_eq]
  have hr : rbp < 170 ∧ (pM c = false → rbp < topLbp c) := by
    simp only [topLbp, bpAccess_eq] at h1
    by_cases hp : pM c = true
    · rw [if_pos hp] at h1; exact ⟨h1, fun h => by simp [hp] at h⟩
    · rw [if_neg hp] at h1; exact ⟨by omega, fun _ => by omega⟩
  refine child c hc (pM c) rbp _ (b + 2) r F ?_ ?_ (by omega)
  · intro hp
    refine ⟨hr.2 hp, ?_, by cases o <;> rfl⟩
    have : 15 ≤ c.prec := by
      cases c <;> simp [pM, pP, precUnaryPostfix_eq, precAccess_eq] at hp <;> omega
    rw [hlbp, rlvl_postfix c this]; omega
  · rw [loop_step _ _ _ _ (by rw [hlbp]; exact hr.1), led]
    cases o
    · simp only [ledBody, sym, List.cons_append, List.nil_append, Bool.false_eq_true, if_false]
      simp only [show ("." == "as?") = false by decide, show ("." == "as!") = false by decide,
        show ("." == "?") = false by decide, show ("." == "!") = false by decide, show ("." == ".") = true by decide,
        show ("." == "?.") = false by decide, Bool.or_false, if_true, Bool.false_eq_true, if_false, Option.bind_some]
      exact loop_mono (by omega) hl
    · simp only [ledBody, sym, List.cons_append, List.nil_append, if_true]
      simp only [show ("?." == "as?") = false by decide, show ("?." == "as!") = false by decide,
        show ("?." == "?") = false by decide, show ("?." == "!") = false by decide, show ("?." == ".") = false by decide,
        show ("?." == "?.") = true by decide, Bool.or_true, if_true, Bool.false_eq_true, if_false, Option.bind_some]
      exact loop_mono (by omega) hl

theorem exprLbp_closer (s : String) (sp : Bool) (rest : List Tok) (h : s = "]" ∨ s = ":" ∨ s = ")") :
    exprLbp (⟨.sym, s, sp⟩ :: rest) = 0 := by
  rcases h with rfl | rfl | rfl <;> simp [exprLbp] <;> decide

theorem P_index (c i : Expr) (hc : P c) (hi : P i) : P (.index c i) := by
  intro rbp rest b r F h1 _ _ hl hF
  rw [print_index] at hF ⊢
  simp only [List.length_append, List.length_cons, List.length_nil] at hF
  simp only [List.append_assoc, List.cons_append, List.nil_append]
  have hlbp : exprLbp (sym "[" :: (printExpr i ++ sym "]" :: rest)) = 170 := by simp [exprLbp, sym, bpAccess_eq]
  have hr : rbp < 170 ∧ (pP c.prec precAccess = false → rbp < topLbp c) := by
    simp only [topLbp, bpAccess_eq] at h1
    by_cases hp : pP c.prec precAccess = true
    · rw [if_pos hp] at h1; exact ⟨h1, fun h => by simp [hp] at h⟩
    · rw [if_neg hp] at h1; exact ⟨by omega, fun _ => by omega⟩
  have hipos : 0 < topLbp i := by have := topLbp_ge i; simp only [lvl] at this; omega
  refine child c hc (pP c.prec precAccess) rbp (sym "[" :: (printExpr i ++ sym "]" :: rest))
    (4 * (printExpr i).length + 3 + b) r F ?_ ?_ (by omega)
  · intro hp
    refine ⟨hr.2 hp, ?_, rfl⟩
    have : 15 ≤ c.prec := by simp [pP, precUnaryPostfix_eq, precAccess_eq] at hp; omega
    rw [hlbp, rlvl_postfix c this]; omega
  · rw [show 4 * (printExpr i).length + 3 + b = (4 * (printExpr i).length + 1 + b + 1) + 1 by omega,
      loop_step _ _ _ _ (by rw [hlbp]; exact hr.1), led]
    simp only [ledBody, sym]
    simp only [show ("[" == "as?") = false by decide, show ("[" == "as!") = false by decide,
      show ("[" == "?") = false by decide, show ("[" == "!") = false by decide, show ("[" == ".") = false by decide,
      show ("[" == "?.") = false by decide, show ("[" == "[") = true by decide, Bool.or_false, if_true,
      Bool.false_eq_true, if_false]
    rw [hi 0 (⟨.sym, "]", false⟩ :: rest) 1 (i, ⟨.sym, "]", false⟩ :: rest) _ hipos
      (by rw [exprLbp_closer _ _ _ (Or.inl rfl)]; omega) rfl
      (loop_stop 0 0 _ _ (by rw [exprLbp_closer _ _ _ (Or.inl rfl)]; omega)) (Nat.le_add_right _ b)]
    simp only [Option.bind_some, expect, beq_self_eq_true, if_true, Option.map_some]
    exact loop_mono (by omega) hl

/-! ### binary operators -/

theorem pL_false (op : BinOp) (l : Expr) (h : pL op l = false) :
    (op.leftAssoc = true ∧ op.prec ≤ l.prec) ∨ (op.leftAssoc = false ∧ op.prec < l.prec) := by
  unfold pL at h
  cases hla : op.leftAssoc <;> simp [hla] at h
  · exact Or.inr ⟨rfl, h⟩
  · exact Or.inl ⟨rfl, h⟩

theorem pR_false (op : BinOp) (r : Expr) (h : pR op r = false) :
    (op.leftAssoc = true ∧ op.prec < r.prec) ∨ (op.leftAssoc = false ∧ op.prec ≤ r.prec) := by
  unfold pR at h
  cases hla : op.leftAssoc <;> simp [hla] at h
  · exact Or.inr ⟨rfl, h⟩
  · exact Or.inl ⟨rfl, h⟩

/-- the right operand, parsed at the operator's right binding power -/
theorem operand_right (op : BinOp) (r : Expr) (hr : P r) (rest : List Tok) (h2 : exprLbp rest ≤ op.rbp)
    (h3 : qFree rest = true) (f : Nat) (hf : 4 * (doc (pR op r) r).length + 1 ≤ f) :
    parseExpr f op.rbp (doc (pR op r) r ++ rest) = some (r, rest) := by
  refine child r hr (pR op r) op.rbp rest 1 (r, rest) f ?_ (loop_stop 0 _ _ _ h2) hf
  intro hp
  have hrng := prec_range op
  have h1 := topLbp_ge r
  have h4 := rlvl_ge r (by rcases pR_false op r hp with ⟨_, h⟩ | ⟨_, h⟩ <;> omega)
  rw [rbp_eq] at h2 ⊢
  simp only [lvl] at h1 h2 h4 ⊢
  refine ⟨?_, ?_, h3⟩
  · by_cases hpre : r.prec = 12 ∨ r.prec = 14
    · rw [topLbp_prefix r hpre]; split <;> omega
    · rcases pR_false op r hp with ⟨ha, h⟩ | ⟨ha, h⟩
      · simp only [ha, if_true]; omega
      · have := rightAssoc_prec op ha
        simp only [ha, Bool.false_eq_true, if_false]; omega
  · rcases pR_false op r hp with ⟨ha, h⟩ | ⟨ha, h⟩
    · simp only [ha, if_true] at h2 ⊢
      by_cases h5 : r.prec = 5
      · simp only [h5, if_true] at h4; omega
      · simp only [h5, if_false] at h4; omega
    · have := rightAssoc_prec op ha
      simp only [ha, Bool.false_eq_true, if_false] at h2 ⊢
      by_cases h5 : r.prec = 5
      · simp only [h5, if_true] at h4; omega
      · simp only [h5, if_false] at h4; omega

theorem opToks_length (op : BinOp) : 1 ≤ (opToks op).length := by
  unfold opToks; split <;> simp

theorem P_binary (op : BinOp) (l r : Expr) (hPl : P l) (hPr : P r) : P (.binary op l r) := by
  intro rbp rest b res F h1 h2 h3 hl hF
  simp only [rlvl] at h2
  rw [print_binary] at hF ⊢
  simp only [List.length_append] at hF
  have hsl : (spaced (doc (pR op r) r)).length = (doc (pR op r) r).length := by
    cases hd : doc (pR op r) r with
    | nil => rfl
    | cons a X => rfl
  rw [hsl] at hF
  have hot := opToks_length op
  rw [List.append_assoc, List.append_assoc, spaced_append _ _ (doc_ne_nil _ _)]
  have hr : rbp < op.lbp ∧ (pL op l = false → rbp < topLbp l) := by
    simp only [topLbp] at h1
    by_cases hp : pL op l = true
    · rw [if_pos hp] at h1; exact ⟨h1, fun h => by simp [hp] at h⟩
    · rw [if_neg hp] at h1; exact ⟨by omega, fun _ => by omega⟩
  have hlbp : exprLbp (opToks op ++ spaced (doc (pR op r) r ++ rest)) = op.lbp := by
    unfold opToks
    split
    · next hs => subst hs; exact lbp_shr _ _
    · next hs => exact lbp_binop op hs _ _ (adjGt_spaced _)
  have hled : ∀ f, 4 * (doc (pR op r) r).length + 1 ≤ f →
      led (f + 1) l (opToks op ++ spaced (doc (pR op r) r ++ rest)) = some (.binary op l r, rest) := by
    intro f hf
    rw [led]
    unfold opToks
    split
    · next hs =>
      subst hs
      simp only [symSp, sym, List.cons_append, List.nil_append]
      rw [led_shr, parseExpr_spaced, operand_right .shr r hPr rest h2 h3 f hf]; rfl
    · next hs =>
      simp only [symSp, List.cons_append, List.nil_append]
      rw [led_binop _ _ _ _ op hs _ _ (adjGt_spaced _), parseExpr_spaced, operand_right op r hPr rest h2 h3 f hf]; rfl
  refine child l hPl (pL op l) rbp _ (4 * (doc (pR op r) r).length + 3 + b) res F ?_ ?_ (by omega)
  · intro hp
    refine ⟨hr.2 hp, ?_, ?_⟩
    · rw [hlbp, lbp_eq]
      have hrng := prec_range op
      have h4 := rlvl_ge l (by rcases pL_false op l hp with ⟨_, h⟩ | ⟨_, h⟩ <;> omega)
      simp only [lvl] at h4 ⊢
      rcases pL_false op l hp with ⟨ha, h⟩ | ⟨ha, h⟩
      · by_cases h5 : l.prec = 5
        · simp only [h5, if_true] at h4
          have : op.prec ≠ 5 := fun h' => by have := prec5_rightAssoc op h'; simp [ha] at this
          omega
        · simp only [h5, if_false] at h4; omega
      · have := rightAssoc_prec op ha
        have h5 : ¬ l.prec = 5 := by omega
        simp only [h5, if_false] at h4; omega
    · unfold opToks; split <;> rfl
  · rw [show 4 * (doc (pR op r) r).length + 3 + b = (4 * (doc (pR op r) r).length + 1 + b + 1) + 1 by omega,
      loop_step _ _ _ _ (by rw [hlbp]; exact hr.1), hled _ (by omega)]
    simp only [Option.bind_some]
    exact loop_mono (by omega) hl

/-! ### casts -/

theorem tyHeadFree_of_q (rest : List Tok) (hq : qFree rest = true) (hl : exprLbp rest ≤ 140) :
    tyHeadFree rest = true := by
  rcases rest with _ | ⟨⟨k, s, sp⟩, rest⟩
  · rfl
  · simp only [qFree] at hq
    simp only [tyHeadFree, hq, Bool.and_true, Bool.not_eq_true', isSym]
    cases k <;> simp
    intro hs
    subst hs
    simp [exprLbp, bpAccess_eq] at hl

theorem printAnn_ne_nil (res : Bool) (t : Ty) (hwf : t.wf = true) : printAnn res t ≠ [] := by
  obtain ⟨h, tl, he, h1, _⟩ := printTy_head t hwf
  unfold printAnn
  cases res
  · simp only [Bool.false_eq_true, if_false, he, mergeQ_cons_notQ _ _ h1]; simp
  · simp

theorem P_cast (op : CastOp) (c : Expr) (res : Bool) (t : Ty) (hc : P c) (hwf : t.wf = true) :
    P (.cast op c res t) := by
  intro rbp rest b r F h1 h2 h3 hl hF
  simp only [rlvl, bpCasting_eq] at h2
  rw [print_cast] at hF ⊢
  have hne := printAnn_ne_nil res t hwf
  have hsl : (spaced (printAnn res t)).length = (printAnn res t).length := by
    cases hd : printAnn res t with
    | nil => rfl
    | cons a X => rfl
  simp only [List.length_append, List.length_cons, hsl] at hF
  simp only [List.append_assoc, List.cons_append]
  rw [spaced_append _ _ hne]
  have hr : rbp < 140 ∧ (pP c.prec precCasting = false → rbp < topLbp c) := by
    simp only [topLbp, bpCasting_eq] at h1
    by_cases hp : pP c.prec precCasting = true
    · rw [if_pos hp] at h1; exact ⟨h1, fun h => by simp [hp] at h⟩
    · rw [if_neg hp] at h1; exact ⟨by omega, fun _ => by omega⟩
  have hlbp : exprLbp ((if op = .cast then (⟨.ident, "as", true⟩ : Tok) else symSp op.sym) ::
      spaced (printAnn res t ++ rest)) = 140 := by
    cases op <;> simp [exprLbp, symSp, CastOp.sym, bpCasting_eq]
  have hled : ∀ f, 3 * (printAnn res t).length + 3 ≤ f →
      led (f + 1) c ((if op = .cast then (⟨.ident, "as", true⟩ : Tok) else symSp op.sym) ::
        spaced (printAnn res t ++ rest)) = some (.cast op c res t, rest) := by
    intro f hf
    rw [led]
    have hpa := parseAnn_print res t hwf rest (tyHeadFree_of_q rest h3 h2) f hf
    cases op <;> simp [ledBody, symSp, CastOp.sym, parseAnn_spaced, hpa]
  refine child c hc (pP c.prec precCasting) rbp _ (3 * (printAnn res t).length + 5 + b) r F ?_ ?_ (by
    have : 1 ≤ (printAnn res t).length := by
      cases hd : printAnn res t with
      | nil => exact absurd hd hne
      | cons a X => simp
    omega)
  · intro hp
    refine ⟨hr.2 hp, ?_, ?_⟩
    · rw [hlbp]
      have : 13 ≤ c.prec := by simp [pP, precCasting_eq, precAccess_eq] at hp; omega
      have h4 := rlvl_ge c (by omega)
      have h5 : ¬ c.prec = 5 := by omega
      simp only [h5, if_false, lvl] at h4; omega
    · cases op <;> rfl
  · rw [show 3 * (printAnn res t).length + 5 + b = (3 * (printAnn res t).length + 3 + b + 1) + 1 by omega,
      loop_step _ _ _ _ (by rw [hlbp]; exact hr.1), hled _ (by omega)]
    simp only [Option.bind_some]
    exact loop_mono (by omega) hl

/-! ### the conditional -/

theorem P_cond (c t e : Expr) (hc : P c) (ht : P t) (he : P e) : P (.cond c t e) := by
  intro rbp rest b r F h1 h2 h3 hl hF
  simp only [rlvl] at h2
  rw [print_cond] at hF ⊢
  have hsl : ∀ (p : Bool) (x : Expr), (spaced (doc p x)).length = (doc p x).length := by
    intro p x
    cases hd : doc p x with
    | nil => rfl
    | cons a X => rfl
  simp only [List.length_append, List.length_cons, hsl] at hF
  simp only [List.append_assoc, List.cons_append]
  rw [spaced_append _ _ (doc_ne_nil _ _), spaced_append _ _ (doc_ne_nil _ _)]
  have hr : rbp < 20 ∧ (decide (precTernary ≥ c.prec) = false → rbp < topLbp c) := by
    simp only [topLbp, bpTernary_eq] at h1
    by_cases hp : decide (precTernary ≥ c.prec) = true
    · rw [if_pos hp] at h1; exact ⟨h1, fun h => by simp [hp] at h⟩
    · rw [if_neg hp] at h1; exact ⟨by omega, fun _ => by omega⟩
  have hlbp : ∀ X, exprLbp (symSp "?" :: X) = 20 := by intro X; simp [exprLbp, symSp, bpTernary_eq]
  have htpos : 0 < topLbp t := by have := topLbp_ge t; simp only [lvl] at this; omega
  have hepos : 0 < topLbp e := by have := topLbp_ge e; simp only [lvl] at this; omega
  have hcolon : ∀ X, exprLbp (symSp ":" :: X) = 0 := fun X => exprLbp_closer _ _ _ (Or.inr (Or.inl rfl))
  have hled : ∀ f, 4 * (doc (decide (precTernary ≥ t.prec)) t).length + 4 * (doc (decide (precTernary > e.prec)) e).length + 1 ≤ f →
      led (f + 1) c (symSp "?" :: spaced (doc (decide (precTernary ≥ t.prec)) t ++
        symSp ":" :: spaced (doc (decide (precTernary > e.prec)) e ++ rest))) = some (.cond c t e, rest) := by
    intro f hf
    rw [led]
    simp only [ledBody, symSp]
    simp only [show ("?" == "as?") = false by decide, show ("?" == "as!") = false by decide,
      show ("?" == "?") = true by decide, if_true, Bool.false_eq_true, if_false]
    rw [parseExpr_spaced, child t ht _ 0 _ 1 (t, _) f (fun _ => ⟨htpos, by rw [← symSp, hcolon]; omega, rfl⟩)
      (loop_stop 0 0 _ _ (by rw [← symSp, hcolon]; omega)) (by omega)]
    simp only [Option.bind_some, expect, beq_self_eq_true, if_true]
    rw [parseExpr_spaced, child e he _ 0 rest 1 (e, rest) f (fun _ => ⟨hepos, by omega, h3⟩)
      (loop_stop 0 0 _ _ (by omega)) (by omega)]
    rfl
  refine child c hc (decide (precTernary ≥ c.prec)) rbp _
    (4 * (doc (decide (precTernary ≥ t.prec)) t).length + 4 * (doc (decide (precTernary > e.prec)) e).length + 3 + b)
    r F ?_ ?_ (by omega)
  · intro hp
    refine ⟨hr.2 hp, ?_, rfl⟩
    rw [hlbp]
    have : 2 ≤ c.prec := by simp [precTernary_eq] at hp; omega
    have h4 := rlvl_ge c this
    simp only [lvl] at h4
    split at h4 <;> omega
  · rw [show ∀ n, n + 3 + b = (n + 1 + b + 1) + 1 by intro n; omega,
      loop_step _ _ _ _ (by rw [hlbp]; exact hr.1), hled _ (by omega)]
    simp only [Option.bind_some]
    exact loop_mono (by omega) hl

/-! ### invocation -/

theorem parseArgs_spaced (f : Nat) (Y : List Tok) : parseArgs f (spaced Y) = parseArgs f Y := by
  cases f with
  | zero => simp [parseArgs]
  | succ f => rw [parseArgs, parseArgs]; unfold argsBody; rw [expect_spaced, parseExpr_spaced]

/-- the statement for argument lists: parsing the printed arguments up to the closing parenthesis -/
def PArgs (args : Expr) : Prop :=
  ∀ (rest : List Tok) (F : Nat), 4 * (printArgs args).length + 2 ≤ F →
    parseArgs F (printArgs args ++ sym ")" :: rest) = some (args, rest)

theorem PArgs_nil : PArgs .argsNil := by
  intro rest F hF
  obtain ⟨F1, rfl⟩ : ∃ F1, F = F1 + 1 := ⟨F - 1, by omega⟩
  rw [parseArgs]
  simp [argsBody, printArgs, expect, sym]

theorem qFree_closer (s : String) (rest : List Tok) (h : s = "," ∨ s = ")") : qFree (sym s :: rest) = true := by
  rcases h with rfl | rfl <;> rfl

theorem exprLbp_comma (sp : Bool) (rest : List Tok) : exprLbp (⟨.sym, ",", sp⟩ :: rest) = 0 := by
  simp [exprLbp]; decide

theorem printArgs_cons (label : String) (a rest : Expr) :
    printArgs (.argsCons label a rest) =
      (if label == "" then printExpr a else ⟨.ident, label, false⟩ :: sym ":" :: spaced (printExpr a)) ++
      (if rest.isArgsCons then sym "," :: spaced (printArgs rest) else []) := by
  rw [printArgs]

theorem wfArgs_shape (rest : Expr) (h : rest.wfArgs = true) : rest.isArgsCons = true ∨ rest = .argsNil := by
  cases rest <;> simp [Expr.wfArgs, Expr.isArgsCons] at h ⊢

theorem printArgs_ne_nil (l : String) (a r : Expr) : printArgs (.argsCons l a r) ≠ [] := by
  rw [printArgs_cons]
  have := printExpr_ne_nil a
  split <;> simp [this]

theorem PArgs_cons (label : String) (a rest : Expr) (ha : P a) (hr : PArgs rest) (hrw : rest.wfArgs = true)
    (hl : (label == "" || plainIdent label) = true) : PArgs (.argsCons label a rest) := by
  intro R F hF
  rw [printArgs_cons] at hF ⊢
  -- what follows the argument
  have htail : ∃ X : List Tok, (if rest.isArgsCons then sym "," :: spaced (printArgs rest) else []) ++ sym ")" :: R = X ∧
      exprLbp X = 0 ∧ qFree X = true ∧ expect ":" X = none ∧
      ∀ f, 4 * (if rest.isArgsCons then sym "," :: spaced (printArgs rest) else ([] : List Tok)).length + 2 ≤ f + 1 →
        argTail (parseArgs f) label a X = some (.argsCons label a rest, R) := by
    rcases wfArgs_shape rest hrw with hc | hn
    · refine ⟨_, rfl, ?_, ?_, ?_, ?_⟩
      · simp only [hc, if_true, List.cons_append, sym]; exact exprLbp_comma _ _
      · simp only [hc, if_true, List.cons_append]; rfl
      · simp [hc, sym, expect]
      · intro f hf
        simp only [hc, if_true, List.cons_append, List.length_cons] at hf ⊢
        have hne : printArgs rest ≠ [] := by
          cases rest <;> simp [Expr.isArgsCons] at hc
          exact printArgs_ne_nil _ _ _
        have hsl : (spaced (printArgs rest)).length = (printArgs rest).length := by
          cases hd : printArgs rest <;> rfl
        rw [hsl] at hf
        unfold argTail
        simp only [sym, expect, beq_self_eq_true, if_true]
        have hrr := hr R f (by omega)
        simp only [sym] at hrr
        rw [spaced_append _ _ hne, parseArgs_spaced, hrr]
        rfl
    · subst hn
      refine ⟨_, rfl, ?_, ?_, ?_, ?_⟩
      · simp only [Expr.isArgsCons, Bool.false_eq_true, if_false, List.nil_append, sym]; exact exprLbp_rparen _ _
      · rfl
      · simp [Expr.isArgsCons, sym, expect]
      · intro f _
        unfold argTail
        simp [Expr.isArgsCons, sym, expect]
  obtain ⟨X, hX, hlbp, hq, hcolon, htl⟩ := htail
  have hapos : 0 < topLbp a := by have := topLbp_ge a; simp only [lvl] at this; omega
  obtain ⟨F1, rfl⟩ : ∃ F1, F = F1 + 1 := ⟨F - 1, by omega⟩
  obtain ⟨h0, tl0, he0, hh0⟩ := printExpr_head a
  have hlen1 : 1 ≤ (printExpr a).length := by rw [he0]; simp
  rw [parseArgs]
  unfold argsBody
  by_cases hlab : (label == "") = true
  · simp only [hlab, if_true, List.append_assoc] at hF ⊢
    rw [hX]
    have hx : expect ")" (printExpr a ++ X) = none := by rw [he0]; exact expect_notSym _ _ _ hh0
    rw [hx]
    simp only [List.length_append] at hF
    rw [ha 0 X 1 (a, X) F1 hapos (by omega) hq (loop_stop 0 0 _ _ (by omega)) (by omega)]
    simp only [Option.bind_some, hcolon]
    have hl' : label = "" := by simpa using hlab
    subst hl'
    exact htl F1 (by omega)
  · have hlab' : (label == "") = false := by simpa using hlab
    have hpl : plainIdent label = true := by simpa [hlab'] using hl
    simp only [hlab', Bool.false_eq_true, if_false, List.cons_append, List.append_assoc] at hF ⊢
    rw [hX]
    have hsl : (spaced (printExpr a)).length = (printExpr a).length := by
      rw [he0]; rfl
    simp only [List.length_cons, List.length_append, hsl] at hF
    simp only [expect]
    -- the label is parsed as an identifier expression
    obtain ⟨F2, rfl⟩ : ∃ F2, F1 = F2 + 2 := ⟨F1 - 2, by omega⟩
    have hid : parseExpr (F2 + 2) 0 (⟨.ident, label, false⟩ :: sym ":" :: (spaced (printExpr a) ++ X)) =
        some (.ident label, sym ":" :: (spaced (printExpr a) ++ X)) := by
      have := P_ident label hpl 0 (sym ":" :: (spaced (printExpr a) ++ X)) 1 (.ident label, _) (F2 + 2)
        (by simp [topLbp]) (by rw [show sym ":" = ⟨.sym, ":", false⟩ from rfl, exprLbp_closer _ _ _ (Or.inr (Or.inl rfl))]; omega)
        rfl (loop_stop 0 0 _ _ (by rw [show sym ":" = ⟨.sym, ":", false⟩ from rfl, exprLbp_closer _ _ _ (Or.inr (Or.inl rfl))]; omega))
        (by simp only [printExpr, List.length_cons, List.length_nil]; omega)
      simpa [printExpr] using this
    rw [hid]
    simp only [Option.bind_some, sym, expect, beq_self_eq_true, if_true]
    rw [spaced_append _ _ (printExpr_ne_nil a), parseExpr_spaced,
      ha 0 X 1 (a, X) (F2 + 2) hapos (by omega) hq (loop_stop 0 0 _ _ (by omega)) (by omega)]
    simp only [Option.bind_some]
    exact htl (F2 + 2) (by omega)

theorem P_invoke (c args : Expr) (hc : P c) (ha : PArgs args) : P (.invoke c args) := by
  intro rbp rest b r F h1 _ _ hl hF
  rw [print_invoke] at hF ⊢
  simp only [List.length_append, List.length_cons, List.length_nil] at hF
  simp only [List.append_assoc, List.cons_append, List.nil_append]
  have hlbp : exprLbp (sym "(" :: (printArgs args ++ sym ")" :: rest)) = 170 := by simp [exprLbp, sym, bpAccess_eq]
  have hr : rbp < 170 ∧ (pP c.prec precAccess = false → rbp < topLbp c) := by
    simp only [topLbp, bpAccess_eq] at h1
    by_cases hp : pP c.prec precAccess = true
    · rw [if_pos hp] at h1; exact ⟨h1, fun h => by simp [hp] at h⟩
    · rw [if_neg hp] at h1; exact ⟨by omega, fun _ => by omega⟩
  refine child c hc (pP c.prec precAccess) rbp (sym "(" :: (printArgs args ++ sym ")" :: rest))
    (4 * (printArgs args).length + 4 + b) r F ?_ ?_ (by omega)
  · intro hp
    refine ⟨hr.2 hp, ?_, rfl⟩
    have : 15 ≤ c.prec := by simp [pP, precUnaryPostfix_eq, precAccess_eq] at hp; omega
    rw [hlbp, rlvl_postfix c this]; omega
  · rw [show 4 * (printArgs args).length + 4 + b = (4 * (printArgs args).length + 2 + b + 1) + 1 by omega,
      loop_step _ _ _ _ (by rw [hlbp]; exact hr.1), led]
    simp only [ledBody, sym]
    simp only [show ("(" == "as?") = false by decide, show ("(" == "as!") = false by decide,
      show ("(" == "?") = false by decide, show ("(" == "!") = false by decide, show ("(" == ".") = false by decide,
      show ("(" == "?.") = false by decide, show ("(" == "[") = false by decide, show ("(" == "(") = true by decide,
      Bool.or_false, if_true, Bool.false_eq_true, if_false]
    have har := ha rest _ (Nat.le_add_right (4 * (printArgs args).length + 2) b)
    simp only [sym] at har
    rw [har]
    simp only [Option.map_some, Option.bind_some]
    exact loop_mono (by omega) hl

/-! ### the induction -/

/-- parsing the printed form of a well-formed expression continues with the loop on the expression; the
    printed form of a well-formed argument list parses as that list -/
theorem parse_print_both (e : Expr) : (e.wf = true → P e) ∧ (e.wfArgs = true → PArgs e) := by
  induction e with
  | ident n => exact ⟨fun hwf => P_ident n (by simpa [Expr.wf] using hwf), fun h => by simp [Expr.wfArgs] at h⟩
  | int neg l =>
    refine ⟨fun hwf => ?_, fun h => by simp [Expr.wfArgs] at h⟩
    cases neg
    · exact P_int l
    · exact P_negint l (by simpa [Expr.wf] using hwf)
  | fix neg l => exact ⟨fun _ => by cases neg; exact P_fix l; exact P_negfix l, fun h => by simp [Expr.wfArgs] at h⟩
  | bool v => exact ⟨fun _ => P_bool v, fun h => by simp [Expr.wfArgs] at h⟩
  | nil => exact ⟨fun _ => P_nil, fun h => by simp [Expr.wfArgs] at h⟩
  | void => exact ⟨fun _ => P_void, fun h => by simp [Expr.wfArgs] at h⟩
  | unary op c ih =>
    refine ⟨fun hwf => ?_, fun h => by simp [Expr.wfArgs] at h⟩
    simp only [Expr.wf, Bool.and_eq_true, Bool.not_eq_true'] at hwf
    exact P_unary op c (ih.1 hwf.1) hwf.2
  | ref c ih =>
    refine ⟨fun hwf => ?_, fun h => by simp [Expr.wfArgs] at h⟩
    simp only [Expr.wf, Bool.and_eq_true] at hwf
    exact P_ref c (ih.1 hwf.1)
  | force c ih => exact ⟨fun hwf => P_force c (ih.1 (by simpa [Expr.wf] using hwf)), fun h => by simp [Expr.wfArgs] at h⟩
  | binary op l r ihl ihr =>
    refine ⟨fun hwf => ?_, fun h => by simp [Expr.wfArgs] at h⟩
    simp only [Expr.wf, Bool.and_eq_true] at hwf
    exact P_binary op l r (ihl.1 hwf.1.1) (ihr.1 hwf.1.2)
  | cast op c res t ih =>
    refine ⟨fun hwf => ?_, fun h => by simp [Expr.wfArgs] at h⟩
    simp only [Expr.wf, Bool.and_eq_true] at hwf
    exact P_cast op c res t (ih.1 hwf.1) hwf.2
  | cond c t e ihc iht ihe =>
    refine ⟨fun hwf => ?_, fun h => by simp [Expr.wfArgs] at h⟩
    simp only [Expr.wf, Bool.and_eq_true] at hwf
    exact P_cond c t e (ihc.1 hwf.1.1) (iht.1 hwf.1.2) (ihe.1 hwf.2)
  | member o c n ih =>
    exact ⟨fun hwf => P_member o c n (ih.1 (by simpa [Expr.wf] using hwf)), fun h => by simp [Expr.wfArgs] at h⟩
  | index c i ihc ihi =>
    refine ⟨fun hwf => ?_, fun h => by simp [Expr.wfArgs] at h⟩
    simp only [Expr.wf, Bool.and_eq_true] at hwf
    exact P_index c i (ihc.1 hwf.1) (ihi.1 hwf.2)
  | invoke c args ihc iha =>
    refine ⟨fun hwf => ?_, fun h => by simp [Expr.wfArgs] at h⟩
    simp only [Expr.wf, Bool.and_eq_true] at hwf
    exact P_invoke c args (ihc.1 hwf.1) (iha.2 hwf.2)
  | argsNil => exact ⟨fun hwf => by simp [Expr.wf] at hwf, fun _ => PArgs_nil⟩
  | argsCons label a rest iha ihr =>
    refine ⟨fun hwf => by simp [Expr.wf] at hwf, fun h => ?_⟩
    simp only [Expr.wfArgs, Bool.and_eq_true] at h
    exact PArgs_cons label a rest (iha.1 h.1.2) (ihr.2 h.2) h.2 h.1.1

theorem parse_print (e : Expr) (hwf : e.wf = true) : P e := (parse_print_both e).1 hwf

end Verif.Proofs.PrattRT
