import Verif.Proofs.LangVM2
/-
Forward simulation (C34), third stage, part 2: the positional scope/environment relation `Rel`,
resolution of the loop placeholders (`resolve`, `patchLoop`), facts about the compiler's output.
-/
namespace Verif.Model.Lang.VM
open Verif.Model.Lang

/-! ### locals -/

theorem Locals.get_set (l : Locals) (j i : Nat) (w : Value) :
    (l.set j w).get i = if j = i then some w else l.get i := by
  simp only [Locals.get, Locals.set, List.find?_cons]
  by_cases h : j = i
  · simp [h]
  · have : (j == i) = false := by simpa using h
    simp [h, this]

/-! ### scope / environment / locals -/

/-- `Rel locals n sc env`: the compile-time scope and the evaluator's environment list the same names
in the same order (innermost first), the slot of each holds its value, and the slots are strictly
decreasing and below `n` (slots are allocated upwards, `n` = next free slot) -/
inductive Rel (locals : Locals) : Nat → Scope → Env → Prop where
  | nil (n : Nat) : Rel locals n [] []
  | cons {n i x v sc env} : Rel locals i sc env → locals.get i = some v → i < n →
      Rel locals n ((x, i) :: sc) ((x, v) :: env)

theorem Rel.mono {locals n m sc env} (h : Rel locals n sc env) (hnm : n ≤ m) : Rel locals m sc env := by
  cases h with
  | nil => exact .nil _
  | cons h1 h2 h3 => exact .cons h1 h2 (by omega)

theorem Rel.length {locals n sc env} (h : Rel locals n sc env) : sc.length = env.length := by
  induction h with
  | nil => rfl
  | cons _ _ _ ih => simp [ih]

theorem Rel.slot {locals n sc env} (h : Rel locals n sc env) {x i} (hs : sc.slot x = some i) :
    i < n ∧ ∃ v, env.lookup x = some v ∧ locals.get i = some v := by
  induction h with
  | nil => simp [Scope.slot] at hs
  | @cons n j y v sc env h1 h2 h3 ih =>
    simp only [Scope.slot, List.find?_cons] at hs
    by_cases hy : (y == x) = true
    · simp only [hy, Option.map_some, Option.some.injEq] at hs; subst hs
      exact ⟨h3, v, by simp [Env.lookup, List.find?_cons, hy], h2⟩
    · simp only [hy] at hs
      have := ih (by simpa [Scope.slot] using hs)
      exact ⟨by omega, by simpa [Env.lookup, hy] using this.2⟩

theorem Rel.agreeS {locals n sc env} (h : Rel locals n sc env) : AgreeS sc env locals :=
  fun _ _ hs => (h.slot hs).2

theorem Rel.set_ge {locals n sc env} (h : Rel locals n sc env) {j} (hj : n ≤ j) (w : Value) :
    Rel (locals.set j w) n sc env := by
  induction h with
  | nil => exact .nil _
  | cons h1 h2 h3 ih => exact .cons (ih (by omega)) (by rw [Locals.get_set, if_neg (by omega)]; exact h2) h3

/-- assignment: updating the first binding of `x` in the environment and setting its slot -/
theorem Rel.update {locals n sc env} (h : Rel locals n sc env) {x i} (hs : sc.slot x = some i) (w : Value) :
    ∃ env', env.update x w = some env' ∧ Rel (locals.set i w) n sc env' := by
  induction h with
  | nil => simp [Scope.slot] at hs
  | @cons n j y v sc env h1 h2 h3 ih =>
    simp only [Scope.slot, List.find?_cons] at hs
    by_cases hy : (y == x) = true
    · simp only [hy, Option.map_some, Option.some.injEq] at hs; subst hs
      have : y = x := by simpa using hy
      subst this
      exact ⟨(y, w) :: env, by simp [Env.update], .cons (h1.set_ge (Nat.le_refl _) w) (by simp [Locals.get_set]) h3⟩
    · simp only [hy] at hs
      have hs' : sc.slot x = some i := by simpa [Scope.slot] using hs
      obtain ⟨env', he, hr⟩ := ih hs'
      have hlt := (h1.slot hs').1
      exact ⟨(y, v) :: env', by simp [Env.update, hy, he],
        .cons hr (by rw [Locals.get_set, if_neg (by omega)]; exact h2) h3⟩

theorem Rel.drop {locals} : ∀ (ext : Scope) {n : Nat} {sc : Scope} {env : Env}, Rel locals n (ext ++ sc) env →
    ∃ m, Rel locals m sc (env.drop ext.length)
  | [], n, sc, env, h => ⟨n, by simpa using h⟩
  | (x, i) :: ext, n, sc, env, h => by
    cases h with
    | cons h1 _ _ => simpa using Rel.drop ext h1

/-- the bound on the slots is a property of the scope alone -/
theorem Rel.rebound {l n sc env l' m env'} (h : Rel l n sc env) (h' : Rel l' m sc env') : Rel l' n sc env' := by
  cases h with
  | nil => cases h'; exact .nil _
  | cons h1 h2 h3 => cases h' with | cons g1 g2 g3 => exact .cons g1 g2 h3

/-- leaving a block: the bindings declared inside are dropped, the outer scope is related again -/
theorem Rel.restore {l n sc env l' m ext env'} (h : Rel l n sc env) (h' : Rel l' m (ext ++ sc) env') :
    Rel l' n sc (env'.restore env.length) := by
  obtain ⟨m', hm⟩ := Rel.drop ext h'
  have e1 := h.length
  have e2 := h'.length
  simp only [List.length_append] at e2
  have : env'.length - env.length = ext.length := by omega
  unfold Env.restore
  rw [this]
  exact h.rebound hm

/-! ### loop placeholders -/

def resolveIns (brk cont pos : Nat) : Instr → Instr
  | .brkMark => .jump (brk - pos - 1)
  | .contMark => .jumpBack (pos - cont)
  | o => o

/-- replace the loop placeholders of code placed at absolute position `pos`: `brkMark` jumps to the
absolute position `brk`, `contMark` jumps back to `cont` -/
def resolve (brk cont : Nat) : Nat → List Instr → List Instr
  | _, [] => []
  | pos, ins :: rest => resolveIns brk cont pos ins :: resolve brk cont (pos + 1) rest

def isMark : Instr → Bool
  | .brkMark | .contMark => true
  | _ => false

def noMarks (l : List Instr) : Bool := l.all (fun i => !isMark i)

theorem resolve_length (brk cont : Nat) : ∀ (l : List Instr) (pos : Nat), (resolve brk cont pos l).length = l.length
  | [], _ => rfl
  | _ :: rest, pos => by simp [resolve, resolve_length brk cont rest (pos + 1)]

theorem resolve_append (brk cont : Nat) : ∀ (l1 l2 : List Instr) (pos : Nat),
    resolve brk cont pos (l1 ++ l2) = resolve brk cont pos l1 ++ resolve brk cont (pos + l1.length) l2
  | [], l2, pos => by simp [resolve]
  | a :: l1, l2, pos => by
    simp only [List.cons_append, resolve, List.length_cons, resolve_append brk cont l1 l2 (pos + 1)]
    rw [show pos + 1 + l1.length = pos + (l1.length + 1) by omega]

theorem resolve_noMarks (brk cont : Nat) : ∀ (l : List Instr) (pos : Nat), noMarks l = true →
    resolve brk cont pos l = l
  | [], _, _ => rfl
  | a :: l, pos, h => by
    simp only [noMarks, List.all_cons, Bool.and_eq_true, Bool.not_eq_eq_eq_not, Bool.not_true] at h
    have ih := resolve_noMarks brk cont l (pos + 1) (by simpa [noMarks] using h.2)
    simp only [resolve, ih]
    cases a <;> simp_all [resolveIns, isMark]

theorem noMarks_resolve (brk cont : Nat) : ∀ (l : List Instr) (pos : Nat), noMarks (resolve brk cont pos l) = true
  | [], _ => rfl
  | a :: l, pos => by
    have ih := noMarks_resolve brk cont l (pos + 1)
    simp only [noMarks, resolve, List.all_cons, Bool.and_eq_true] at ih ⊢
    refine ⟨?_, ih⟩
    cases a <;> simp [resolveIns, isMark]

theorem noMarks_append (l1 l2 : List Instr) : noMarks (l1 ++ l2) = (noMarks l1 && noMarks l2) := by
  simp [noMarks]

theorem patchLoop_aux (L bodyOff endOff : Nat) : ∀ (body : List Instr) (s : Nat),
    ((List.range' s body.length).zip body).map (fun (x : Nat × Instr) =>
      match x.2 with
      | .brkMark => Instr.jump (endOff - (bodyOff + x.1) - 1)
      | .contMark => Instr.jumpBack (bodyOff + x.1)
      | other => other) = resolve (L + endOff) L (L + bodyOff + s) body
  | [], _ => rfl
  | a :: body, s => by
    have ih := patchLoop_aux L bodyOff endOff body (s + 1)
    simp only [List.length_cons, List.range'_succ, List.zip_cons_cons, List.map_cons, resolve]
    rw [ih, show L + bodyOff + (s + 1) = L + bodyOff + s + 1 by omega]
    congr 1
    cases a <;> simp [resolveIns] <;> omega

/-- the compiler's `patchLoop` is `resolve` for a loop placed at absolute position `L` -/
theorem patchLoop_eq (L bodyOff endOff : Nat) (body : List Instr) :
    patchLoop bodyOff endOff body = resolve (L + endOff) L (L + bodyOff) body := by
  have := patchLoop_aux L bodyOff endOff body 0
  simp only [Nat.add_zero] at this
  rw [← this, patchLoop, List.range_eq_range']
  rfl

/-! ### facts about the compiler's output -/

theorem noMarks_single {i : Instr} (h : isMark i = false) : noMarks [i] = true := by simp [noMarks, h]

/-- expression code contains no loop placeholders -/
theorem compileExpr_noMarks (sc : Scope) : ∀ (e : Expr) (c : List Instr), noCall e = true →
    compileExpr sc e = some c → noMarks c = true
  | .intLit .., c, _, h | .boolLit _, c, _, h | .strLit _, c, _, h | .voidLit, c, _, h | .nilLit, c, _, h => by
    simp only [compileExpr, Option.some.injEq] at h; subst h; rfl
  | .var x, c, _, h => by
    simp only [compileExpr, Option.map_eq_some_iff] at h
    obtain ⟨i, _, h⟩ := h; subst h; rfl
  | .unary op a, c, hn, h => by
    simp only [noCall] at hn
    cases ha : compileExpr sc a with
    | none => simp [compileExpr, ha] at h
    | some ca =>
      simp only [compileExpr, ha, Option.bind_eq_bind, Option.bind_some, Option.some.injEq] at h
      subst h
      simp only [noMarks_append, compileExpr_noMarks sc a ca hn ha, Bool.true_and, Bool.and_true]; rfl
  | .force a, c, hn, h => by
    simp only [noCall] at hn
    cases ha : compileExpr sc a with
    | none => simp [compileExpr, ha] at h
    | some ca =>
      simp only [compileExpr, ha, Option.bind_eq_bind, Option.bind_some, Option.some.injEq] at h
      subst h
      simp only [noMarks_append, compileExpr_noMarks sc a ca hn ha, Bool.true_and, Bool.and_true]; rfl
  | .binary op a b, c, hn, h => by
    simp only [noCall, Bool.and_eq_true] at hn
    cases ha : compileExpr sc a with
    | none => simp [compileExpr, ha] at h
    | some ca =>
      cases hb : compileExpr sc b with
      | none => simp [compileExpr, ha, hb] at h
      | some cb =>
        simp only [compileExpr, ha, hb, Option.bind_eq_bind, Option.bind_some, Option.some.injEq] at h
        subst h
        simp only [noMarks_append, compileExpr_noMarks sc a ca hn.1 ha, compileExpr_noMarks sc b cb hn.2 hb, Bool.true_and, Bool.and_true]; rfl
  | .and a b, c, hn, h => by
    simp only [noCall, Bool.and_eq_true] at hn
    cases ha : compileExpr sc a with
    | none => simp [compileExpr, ha] at h
    | some ca =>
      cases hb : compileExpr sc b with
      | none => simp [compileExpr, ha, hb] at h
      | some cb =>
        simp only [compileExpr, ha, hb, Option.bind_eq_bind, Option.bind_some, Option.some.injEq] at h
        subst h
        simp only [noMarks_append, compileExpr_noMarks sc a ca hn.1 ha, compileExpr_noMarks sc b cb hn.2 hb, Bool.true_and, Bool.and_true]; rfl
  | .or a b, c, hn, h => by
    simp only [noCall, Bool.and_eq_true] at hn
    cases ha : compileExpr sc a with
    | none => simp [compileExpr, ha] at h
    | some ca =>
      cases hb : compileExpr sc b with
      | none => simp [compileExpr, ha, hb] at h
      | some cb =>
        simp only [compileExpr, ha, hb, Option.bind_eq_bind, Option.bind_some, Option.some.injEq] at h
        subst h
        simp only [noMarks_append, compileExpr_noMarks sc a ca hn.1 ha, compileExpr_noMarks sc b cb hn.2 hb, Bool.true_and, Bool.and_true]; rfl
  | .cond a t e, c, hn, h => by
    simp only [noCall, Bool.and_eq_true] at hn
    cases ha : compileExpr sc a with
    | none => simp [compileExpr, ha] at h
    | some ca =>
      cases ht : compileExpr sc t with
      | none => simp [compileExpr, ha, ht] at h
      | some ct =>
        cases he : compileExpr sc e with
        | none => simp [compileExpr, ha, ht, he] at h
        | some ce =>
          simp only [compileExpr, ha, ht, he, Option.bind_eq_bind, Option.bind_some, Option.some.injEq] at h
          subst h
          simp only [noMarks_append, compileExpr_noMarks sc a ca hn.1.1 ha, compileExpr_noMarks sc t ct hn.1.2 ht,
            compileExpr_noMarks sc e ce hn.2 he, Bool.true_and, Bool.and_true]; rfl
  | .coalesce .., _, hn, _ | .call .., _, hn, _ | .array .., _, hn, _ | .dict .., _, hn, _ | .index .., _, hn, _
  | .member .., _, hn, _ | .mcall .., _, hn, _ => by simp [noCall] at hn

/-- code of a call-free argument list contains no loop placeholders -/
theorem compileArgs_noMarks (sc : Scope) : ∀ (es : List Expr) (c : List Instr), es.all noCall = true →
    compileExpr.compileArgs sc es = some c → noMarks c = true
  | [], c, _, h => by simp only [compileExpr.compileArgs, Option.some.injEq] at h; subst h; rfl
  | e :: es, c, hn, h => by
    simp only [List.all_cons, Bool.and_eq_true] at hn
    cases he : compileExpr sc e with
    | none => simp [compileExpr.compileArgs, he] at h
    | some ce =>
      cases hes : compileExpr.compileArgs sc es with
      | none => simp [compileExpr.compileArgs, he, hes] at h
      | some ces =>
        simp only [compileExpr.compileArgs, he, hes, Option.bind_eq_bind, Option.bind_some, Option.some.injEq] at h
        subst h
        rw [noMarks_append, compileExpr_noMarks sc e ce hn.1 he, compileArgs_noMarks sc es ces hn.2 hes]; rfl

/-- expressions allowed in statement position in the fragment with calls: call-free, or one
invocation whose arguments are call-free -/
def simpleE : Expr → Bool
  | .call _ args => args.all noCall
  | e => noCall e

theorem simpleE_noMarks (sc : Scope) (e : Expr) (c : List Instr) (hs : simpleE e = true)
    (h : compileExpr sc e = some c) : noMarks c = true := by
  cases e with
  | call f args =>
    simp only [simpleE] at hs
    cases ha : compileExpr.compileArgs sc args with
    | none => simp [compileExpr, ha] at h
    | some cas =>
      simp only [compileExpr, ha, Option.bind_eq_bind, Option.bind_some, Option.some.injEq] at h
      subst h
      rw [noMarks_append, compileArgs_noMarks sc args cas hs ha]; rfl
  | _ => exact compileExpr_noMarks sc _ c (by simpa [simpleE] using hs) h

mutual
/-- statements of L0 that `compileStmt` accepts and whose expressions (conditions included) satisfy `okE` -/
def okS (okE : Expr → Bool) : Stmt → Bool
  | .decl _ _ _ e => okE e
  | .assign (.var _) _ e => okE e
  | .ite c t e => okE c && okB okE t && (match e with | none => true | some eb => okB okE eb)
  | .while c b => okE c && okB okE b
  | .break_ | .continue_ | .ret none => true
  | .ret (some e) => okE e
  | .expr e => okE e
  | _ => false
def okB (okE : Expr → Bool) : List Stmt → Bool
  | [] => true
  | s :: r => okS okE s && okB okE r
end

/-- call-free statements -/
abbrev noCallS : Stmt → Bool := okS noCall
abbrev noCallB : List Stmt → Bool := okB noCall

mutual
/-- slots are allocated upwards -/
theorem compileStmt_next_le (retTy : Ty) : ∀ (st : Stmt) (cs : CState) (c : List Instr) (cs' : CState),
    compileStmt retTy cs st = some (c, cs') → cs.next ≤ cs'.next
  | .decl _ x ty e, cs, c, cs', h => by
    cases he : compileExpr cs.sc e with
    | none => simp [compileStmt, he] at h
    | some ce =>
      simp only [compileStmt, he, Option.bind_eq_bind, Option.bind_some, Option.some.injEq, Prod.mk.injEq] at h
      rw [← h.2]; simp
  | .assign tgt ty e, cs, c, cs', h => by
    cases tgt with
    | var x =>
      cases he : compileExpr cs.sc e with
      | none => simp [compileStmt, he] at h
      | some ce =>
        cases hx : cs.sc.slot x with
        | none => simp [compileStmt, he, hx] at h
        | some i =>
          simp only [compileStmt, he, hx, Option.bind_eq_bind, Option.bind_some, Option.some.injEq, Prod.mk.injEq] at h
          rw [← h.2]; exact Nat.le_refl _
    | _ => simp [compileStmt] at h
  | .ite c0 t none, cs, c, cs', h => by
    cases hc : compileExpr cs.sc c0 with
    | none => simp [compileStmt, hc] at h
    | some cc =>
      cases ht : compileBlock retTy cs t with
      | none => simp [compileStmt, hc, ht] at h
      | some r1 =>
        obtain ⟨ct, cs1⟩ := r1
        have h1 := compileBlock_next_le retTy t cs ct cs1 ht
        simp only [compileStmt, hc, ht, Option.bind_eq_bind, Option.bind_some, Option.some.injEq, Prod.mk.injEq] at h
        rw [← h.2]; exact h1
  | .ite c0 t (some eb), cs, c, cs', h => by
    cases hc : compileExpr cs.sc c0 with
    | none => simp [compileStmt, hc] at h
    | some cc =>
      cases ht : compileBlock retTy cs t with
      | none => simp [compileStmt, hc, ht] at h
      | some r1 =>
        obtain ⟨ct, cs1⟩ := r1
        have h1 := compileBlock_next_le retTy t cs ct cs1 ht
        cases hb : compileBlock retTy ⟨cs.sc, cs1.next⟩ eb with
        | none => simp [compileStmt, hc, ht, hb] at h
        | some r2 =>
          obtain ⟨ce, cs2⟩ := r2
          have h2 := compileBlock_next_le retTy eb ⟨cs.sc, cs1.next⟩ ce cs2 hb
          simp only [compileStmt, hc, ht, hb, Option.bind_eq_bind, Option.bind_some, Option.some.injEq, Prod.mk.injEq] at h
          rw [← h.2]; exact Nat.le_trans h1 h2
  | .while c0 body, cs, c, cs', h => by
    cases hc : compileExpr cs.sc c0 with
    | none => simp [compileStmt, hc] at h
    | some cc =>
      cases hb : compileBlock retTy cs body with
      | none => simp [compileStmt, hc, hb] at h
      | some r1 =>
        obtain ⟨cb, cs1⟩ := r1
        have h1 := compileBlock_next_le retTy body cs cb cs1 hb
        simp only [compileStmt, hc, hb, Option.bind_eq_bind, Option.bind_some, Option.some.injEq, Prod.mk.injEq] at h
        rw [← h.2]; exact h1
  | .break_, cs, c, cs', h | .continue_, cs, c, cs', h | .ret none, cs, c, cs', h => by
    simp only [compileStmt, Option.some.injEq, Prod.mk.injEq] at h
    rw [← h.2]; exact Nat.le_refl _
  | .ret (some e), cs, c, cs', h | .expr e, cs, c, cs', h => by
    cases he : compileExpr cs.sc e with
    | none => simp [compileStmt, he] at h
    | some ce =>
      simp only [compileStmt, he, Option.bind_eq_bind, Option.bind_some, Option.some.injEq, Prod.mk.injEq] at h
      rw [← h.2]; exact Nat.le_refl _
  | .swap .., cs, c, cs', h => by simp [compileStmt] at h
theorem compileBlock_next_le (retTy : Ty) : ∀ (ss : List Stmt) (cs : CState) (c : List Instr) (cs' : CState),
    compileBlock retTy cs ss = some (c, cs') → cs.next ≤ cs'.next
  | [], cs, c, cs', h => by
    simp only [compileBlock, Option.some.injEq, Prod.mk.injEq] at h
    rw [← h.2]; exact Nat.le_refl _
  | st :: rest, cs, c, cs', h => by
    cases h1 : compileStmt retTy cs st with
    | none => simp [compileBlock, h1] at h
    | some r1 =>
      obtain ⟨c1, cs1⟩ := r1
      cases h2 : compileBlock retTy cs1 rest with
      | none => simp [compileBlock, h1, h2] at h
      | some r2 =>
        obtain ⟨c2, cs2⟩ := r2
        simp only [compileBlock, h1, h2, Option.bind_eq_bind, Option.bind_some, Option.some.injEq, Prod.mk.injEq] at h
        rw [← h.2]
        exact Nat.le_trans (compileStmt_next_le retTy st cs c1 cs1 h1) (compileBlock_next_le retTy rest cs1 c2 cs2 h2)
end

end Verif.Model.Lang.VM
