/-
C08 helper lemmas: summary of part 1 for all 49 simple super types (one 49-way case split each).
-/
import Verif.Proofs.SubUnfold
namespace Verif.Proofs.SubUnfold
open Verif.Model.Types Verif.Model.Types.Struct Verif.Model.Auth

/-! ### summary for simple super types -/

/-- above fuel 28 the answer against a simple super type does not depend on the fuel -/
theorem prim_super_stable (a : Ty) (p : String) (hp : p ∈ primNames) (n : Nat) (h : 28 < n) :
    isSub R n a (.prim p) = isSub R 120 a (.prim p) := by
  simp only [primNames, List.mem_cons, List.not_mem_nil, or_false] at hp
  rcases hp with rfl | rfl | rfl | rfl | rfl | rfl | rfl | rfl | rfl | rfl | rfl | rfl | rfl | rfl | rfl | rfl | rfl | rfl | rfl | rfl | rfl | rfl | rfl | rfl | rfl | rfl | rfl | rfl | rfl | rfl | rfl | rfl | rfl | rfl | rfl | rfl | rfl | rfl | rfl | rfl | rfl | rfl | rfl | rfl | rfl | rfl | rfl | rfl | rfl <;>
    first | exact (st_SignedInteger a n (by omega)).trans (st_SignedInteger a 120 (by omega)).symm | exact (st_FixedSizeUnsignedInteger a n (by omega)).trans (st_FixedSizeUnsignedInteger a 120 (by omega)).symm | exact (st_SignedFixedPoint a n (by omega)).trans (st_SignedFixedPoint a 120 (by omega)).symm | exact (st_CapabilityPath a n (by omega)).trans (st_CapabilityPath a 120 (by omega)).symm | exact (st_Integer a n (by omega)).trans (st_Integer a 120 (by omega)).symm | exact (st_FixedPoint a n (by omega)).trans (st_FixedPoint a 120 (by omega)).symm | exact (st_SignedNumber a n (by omega)).trans (st_SignedNumber a 120 (by omega)).symm | exact (st_Path a n (by omega)).trans (st_Path a 120 (by omega)).symm | exact (st_Number a n (by omega)).trans (st_Number a 120 (by omega)).symm | exact (st_Any a n (by omega)).trans (st_Any a 120 (by omega)).symm | exact (st_AnyStruct a n (by omega)).trans (st_AnyStruct a 120 (by omega)).symm | exact (st_AnyResource a n (by omega)).trans (st_AnyResource a 120 (by omega)).symm | exact (st_AnyResourceAttachment a n (by omega)).trans (st_AnyResourceAttachment a 120 (by omega)).symm | exact (st_AnyStructAttachment a n (by omega)).trans (st_AnyStructAttachment a 120 (by omega)).symm | exact (st_HashableStruct a n (by omega)).trans (st_HashableStruct a 120 (by omega)).symm
          | exact (st_norule _ a n (by omega) rfl).trans (st_norule _ a 120 (by omega) rfl).symm

/-- a sub type that is not a simple type, against a simple super type: the structured clause -/
theorem prim_super_np (a : Ty) (hnp : NonPrim a) (p : String) (hp : p ∈ primNames) (n : Nat) (h : 28 < n) :
    isSub R n a (.prim p) = chkPrim a p := by
  simp only [primNames, List.mem_cons, List.not_mem_nil, or_false] at hp
  rcases hp with rfl | rfl | rfl | rfl | rfl | rfl | rfl | rfl | rfl | rfl | rfl | rfl | rfl | rfl | rfl | rfl | rfl | rfl | rfl | rfl | rfl | rfl | rfl | rfl | rfl | rfl | rfl | rfl | rfl | rfl | rfl | rfl | rfl | rfl | rfl | rfl | rfl | rfl | rfl | rfl | rfl | rfl | rfl | rfl | rfl | rfl | rfl | rfl | rfl <;>
    first | exact (st_SignedInteger a n (by omega)).trans ((np_SignedInteger a hnp).trans (chkPrim_other a hnp _ rfl).symm) | exact (st_FixedSizeUnsignedInteger a n (by omega)).trans ((np_FixedSizeUnsignedInteger a hnp).trans (chkPrim_other a hnp _ rfl).symm) | exact (st_SignedFixedPoint a n (by omega)).trans ((np_SignedFixedPoint a hnp).trans (chkPrim_other a hnp _ rfl).symm) | exact (st_CapabilityPath a n (by omega)).trans ((np_CapabilityPath a hnp).trans (chkPrim_other a hnp _ rfl).symm) | exact (st_Integer a n (by omega)).trans ((np_Integer a hnp).trans (chkPrim_other a hnp _ rfl).symm) | exact (st_FixedPoint a n (by omega)).trans ((np_FixedPoint a hnp).trans (chkPrim_other a hnp _ rfl).symm) | exact (st_SignedNumber a n (by omega)).trans ((np_SignedNumber a hnp).trans (chkPrim_other a hnp _ rfl).symm) | exact (st_Path a n (by omega)).trans ((np_Path a hnp).trans (chkPrim_other a hnp _ rfl).symm) | exact (st_Number a n (by omega)).trans ((np_Number a hnp).trans (chkPrim_other a hnp _ rfl).symm)
          | exact (st_Any a n (by omega)).trans ((np_Any a hnp).trans (by simp [chkPrim])) | exact (st_AnyStruct a n (by omega)).trans ((np_AnyStruct a hnp).trans (by simp [chkPrim])) | exact (st_AnyResource a n (by omega)).trans ((np_AnyResource a hnp).trans (by simp [chkPrim])) | exact (st_AnyResourceAttachment a n (by omega)).trans ((np_AnyResourceAttachment a hnp).trans (by simp [chkPrim])) | exact (st_AnyStructAttachment a n (by omega)).trans ((np_AnyStructAttachment a hnp).trans (by simp [chkPrim])) | exact (st_HashableStruct a n (by omega)).trans ((np_HashableStruct a hnp).trans (by simp [chkPrim]))
          | exact (st_norule _ a n (by omega) rfl).trans ((np_norule _ a hnp rfl).trans (chkPrim_other a hnp _ rfl).symm)

end Verif.Proofs.SubUnfold
