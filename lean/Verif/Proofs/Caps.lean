import Verif.Model.Caps
/-! Helper lemmas for C25 (core Lean only). -/
namespace Verif.Proofs.Caps
open Verif.Model.Caps

section assoc
variable {κ α : Type} [DecidableEq κ]

theorem find_erase_self (k : κ) : ∀ (l : List (κ × α)), assocFind k (assocErase k l) = none
  | [] => rfl
  | (k', v) :: rest => by
    have ih := find_erase_self k rest
    unfold assocErase at ih ⊢
    by_cases h : k' = k
    · simpa [List.filter, h] using ih
    · simpa [List.filter, h, assocFind] using ih

theorem find_erase_other (k k' : κ) (hk : k' ≠ k) : ∀ (l : List (κ × α)),
    assocFind k' (assocErase k l) = assocFind k' l
  | [] => rfl
  | (k0, v) :: rest => by
    have ih := find_erase_other k k' hk rest
    by_cases h : k0 = k
    · subst h
      have h2 : k0 ≠ k' := fun e => hk e.symm
      have : assocErase k0 ((k0, v) :: rest) = assocErase k0 rest := by simp [assocErase]
      rw [this, ih]; simp [assocFind, h2]
    · have : assocErase k ((k0, v) :: rest) = (k0, v) :: assocErase k rest := by simp [assocErase, h]
      rw [this]; simp only [assocFind]; rw [ih]

theorem find_set_self (k : κ) (v : α) (l : List (κ × α)) : assocFind k (assocSet k v l) = some v := by
  simp [assocSet, assocFind]

theorem find_set_other (k k' : κ) (v : α) (hk : k' ≠ k) (l : List (κ × α)) :
    assocFind k' (assocSet k v l) = assocFind k' l := by
  have : k ≠ k' := fun e => hk e.symm
  simp [assocSet, assocFind, this, find_erase_other k k' hk l]

end assoc

def idsIn (index : List (Nat × List Nat)) (p : Nat) : List Nat := (assocFind p index).getD []

theorem record_spec (index index' : List (Nat × List Nat)) (p id : Nat) (h : record index p id = some index') :
    id ∉ idsIn index p ∧ ∀ p', idsIn index' p' = if p' = p then idsIn index p ++ [id] else idsIn index p' := by
  unfold record at h
  split at h
  · rename_i hf
    simp at h; subst h
    refine ⟨by simp [idsIn, hf], fun p' => ?_⟩
    by_cases hp : p' = p
    · subst hp; simp [idsIn, find_set_self, hf]
    · simp [idsIn, find_set_other _ _ _ hp, hp]
  · rename_i set hf
    split at h
    · simp at h
    · rename_i hm
      simp at h; subst h
      refine ⟨by simpa [idsIn, hf] using hm, fun p' => ?_⟩
      by_cases hp : p' = p
      · subst hp; simp [idsIn, find_set_self, hf]
      · simp [idsIn, find_set_other _ _ _ hp, hp]

theorem record_ok (index : List (Nat × List Nat)) (p id : Nat) (h : id ∉ idsIn index p) :
    ∃ index', record index p id = some index' := by
  unfold record
  split
  · exact ⟨_, rfl⟩
  · rename_i set hf
    have : id ∉ set := by simpa [idsIn, hf] using h
    simp [this]

theorem unrecord_spec (index index' : List (Nat × List Nat)) (p id : Nat) (h : unrecord index p id = some index') :
    id ∈ idsIn index p ∧
    ∀ p', idsIn index' p' = if p' = p then (idsIn index p).filter (· ≠ id) else idsIn index p' := by
  unfold unrecord at h
  split at h
  · simp at h
  · rename_i set hf
    split at h
    · rename_i hm
      refine ⟨by simpa [idsIn, hf] using hm, fun p' => ?_⟩
      simp only at h
      split at h
      · rename_i he
        simp at h; subst h
        by_cases hp : p' = p
        · subst hp
          have : List.filter (fun x => decide (x ≠ id)) set = [] := List.isEmpty_iff.1 he
          rw [if_pos rfl]
          simp only [idsIn, find_erase_self, hf, Option.getD_none, Option.getD_some]
          exact this.symm
        · simp [idsIn, find_erase_other _ _ hp, hp]
      · simp at h; subst h
        by_cases hp : p' = p
        · subst hp; simp [idsIn, find_set_self, hf]
        · simp [idsIn, find_set_other _ _ _ hp, hp]
    · simp at h

theorem unrecord_ok (index : List (Nat × List Nat)) (p id : Nat) (h : id ∈ idsIn index p) :
    ∃ index', unrecord index p id = some index' := by
  unfold unrecord
  split
  · rename_i hf; simp [idsIn, hf] at h
  · rename_i set hf
    have : id ∈ set := by simpa [idsIn, hf] using h
    simp only [this, if_true]
    split <;> exact ⟨_, rfl⟩

/-- the concrete layout refines the abstract controller set -/
structure Inv (ac : Acct) : Prop where
  idsLe : ∀ id c, assocFind id ac.ctrls = some c → id ≤ ac.nextId
  consistent : ∀ p id, id ∈ ac.idsAt p ↔ ∃ c, assocFind id ac.ctrls = some c ∧ c.target = p
  nodup : ∀ p, (ac.idsAt p).Nodup

theorem idsAt_eq (ac : Acct) (p : Nat) : ac.idsAt p = idsIn ac.index p := rfl

theorem inv_init : Inv {} := by
  refine ⟨?_, ?_, ?_⟩ <;> simp [Acct.idsAt, assocFind]

def SInv (s : State) : Prop := ∀ a, Inv (s a)

theorem sinv_set (s : State) (a : Nat) (ac : Acct) (h : SInv s) (hac : Inv ac) : SInv (s.set a ac) := by
  intro b
  unfold State.set
  split
  · exact hac
  · exact h b

theorem find_cons {α : Type} (id id' : Nat) (c : α) (l : List (Nat × α)) :
    assocFind id' ((id, c) :: l) = if id = id' then some c else assocFind id' l := rfl

/-- issue: never hits an `unreachable` branch, hands out `nextId + 1`, keeps the refinement -/
theorem issue_inv (ac : Acct) (h : Inv ac) (p : Nat) (ty : T) :
    assocFind (ac.nextId + 1) ac.ctrls = none ∧
    ∃ index', record ac.index p (ac.nextId + 1) = some index' ∧
      Inv { ac with ctrls := (ac.nextId + 1, ⟨ty, p, ""⟩) :: ac.ctrls, index := index', nextId := ac.nextId + 1 } := by
  have hnone : assocFind (ac.nextId + 1) ac.ctrls = none := by
    cases hf : assocFind (ac.nextId + 1) ac.ctrls with
    | none => rfl
    | some c => have := h.idsLe _ _ hf; omega
  have hnot : ∀ p', ac.nextId + 1 ∉ ac.idsAt p' := by
    intro p' hm
    obtain ⟨c, hc, _⟩ := (h.consistent p' _).1 hm
    rw [hnone] at hc; cases hc
  obtain ⟨index', hr⟩ := record_ok ac.index p (ac.nextId + 1) (hnot p)
  obtain ⟨_, hspec⟩ := record_spec _ _ _ _ hr
  refine ⟨hnone, index', hr, ⟨?_, ?_, ?_⟩⟩
  · intro id c hf
    simp only [find_cons] at hf
    show id ≤ ac.nextId + 1
    split at hf
    · omega
    · have := h.idsLe _ _ hf; omega
  · intro p' id
    simp only [Acct.idsAt, find_cons]
    have hs := hspec p'
    simp only [idsIn] at hs
    rw [hs]
    by_cases hid : ac.nextId + 1 = id
    · subst hid
      simp only [if_true]
      by_cases hp : p' = p
      · subst hp; simp
      · simp only [hp, if_false]
        constructor
        · intro hm; exact absurd hm (hnot p')
        · rintro ⟨c, hc, ht⟩
          simp at hc; subst hc; exact absurd ht.symm hp
    · simp only [hid, if_false]
      have hc := h.consistent p' id
      simp only [Acct.idsAt] at hc
      by_cases hp : p' = p
      · subst hp
        simp only [if_true, List.mem_append, List.mem_singleton]
        rw [← hc]
        constructor
        · rintro (hm | hm)
          · exact hm
          · exact absurd hm.symm hid
        · exact Or.inl
      · simp only [hp, if_false]; exact hc
  · intro p'
    simp only [Acct.idsAt]
    have hs := hspec p'
    simp only [idsIn] at hs
    rw [hs]
    by_cases hp : p' = p
    · subst hp
      simp only [if_true]
      refine List.nodup_append.2 ⟨h.nodup p', by simp, ?_⟩
      intro x hx y hy
      simp at hy; subst hy
      intro he; subst he
      exact hnot p' hx
    · simp only [hp, if_false]; exact h.nodup p'

/-- delete: never hits an `unreachable` branch and keeps the refinement -/
theorem delete_inv (ac : Acct) (h : Inv ac) (id : Nat) (c : Ctrl) (hc : assocFind id ac.ctrls = some c) :
    ∃ i1, unrecord ac.index c.target id = some i1 ∧
      Inv { ac with ctrls := assocErase id ac.ctrls, index := i1 } := by
  have hm : id ∈ ac.idsAt c.target := (h.consistent _ _).2 ⟨c, hc, rfl⟩
  obtain ⟨i1, hu⟩ := unrecord_ok ac.index c.target id hm
  obtain ⟨_, hspec⟩ := unrecord_spec _ _ _ _ hu
  refine ⟨i1, hu, ⟨?_, ?_, ?_⟩⟩
  · intro id' c' hf
    show id' ≤ ac.nextId
    by_cases hid : id' = id
    · subst hid; rw [find_erase_self] at hf; cases hf
    · rw [find_erase_other _ _ hid] at hf; exact h.idsLe _ _ hf
  · intro p' id'
    simp only [Acct.idsAt]
    have hs := hspec p'
    simp only [idsIn] at hs
    rw [hs]
    have hcons := h.consistent p' id'
    simp only [Acct.idsAt] at hcons
    by_cases hid : id' = id
    · subst hid
      rw [find_erase_self]
      constructor
      · intro hm'
        exfalso
        by_cases hp : p' = c.target
        · simp [hp] at hm'
        · simp only [hp, if_false] at hm'
          obtain ⟨c', hc', ht⟩ := hcons.1 hm'
          rw [hc] at hc'; cases hc'; exact hp ht.symm
      · rintro ⟨c', hc', _⟩; cases hc'
    · rw [find_erase_other _ _ hid]
      by_cases hp : p' = c.target
      · simp only [hp, if_true, List.mem_filter, decide_eq_true_eq, ne_eq]
        rw [← hp, hcons]
        constructor
        · exact fun hx => hx.1
        · exact fun hx => ⟨hx, hid⟩
      · simp only [hp, if_false]; exact hcons
  · intro p'
    simp only [Acct.idsAt]
    have hs := hspec p'
    simp only [idsIn] at hs
    rw [hs]
    split
    · exact List.Nodup.sublist List.filter_sublist (h.nodup _)
    · exact h.nodup p'

end Verif.Proofs.Caps
