import Verif.Model.Caps
/-! Helper lemmas for C25 (core Lean only). -/
namespace Verif.Proofs.Caps
open Verif.Model.Caps

section assoc
variable {κ α : Type} [DecidableEq κ]

theorem find_erase_self (k : κ) : ∀ (l : List (κ × α)), assocFind k (assocErase k l) = none
  | [] => rfl
  | (k', v) :: rest => by
    have ih := find_erase_self k rest
    unfold assocErase at ih ⊢
    by_cases h : k' = k
    · simpa [List.filter, h] using ih
    · simpa [List.filter, h, assocFind] using ih

theorem find_erase_other (k k' : κ) (hk : k' ≠ k) : ∀ (l : List (κ × α)),
    assocFind k' (assocErase k l) = assocFind k' l
  | [] => rfl
  | (k0, v) :: rest => by
    have ih := find_erase_other k k' hk rest
    by_cases h : k0 = k
    · subst h
      have h2 : k0 ≠ k' := fun e => hk e.symm
      have : assocErase k0 ((k0, v) :: rest) = assocErase k0 rest := by simp [assocErase]
      rw [this, ih]; simp [assocFind, h2]
    · have : assocErase k ((k0, v) :: rest) = (k0, v) :: assocErase k rest := by simp [assocErase, h]
      rw [this]; simp only [assocFind]; rw [ih]

theorem find_set_self (k : κ) (v : α) (l : List (κ × α)) : assocFind k (assocSet k v l) = some v := by
  simp [assocSet, assocFind]

theorem find_set_other (k k' : κ) (v : α) (hk : k' ≠ k) (l : List (κ × α)) :
    assocFind k' (assocSet k v l) = assocFind k' l := by
  have : k ≠ k' := fun e => hk e.symm
  simp [assocSet, assocFind, this, find_erase_other k k' hk l]

end assoc

def idsIn (index : List (Nat × List Nat)) (p : Nat) : List Nat := (assocFind p index).getD []

theorem record_spec (index index' : List (Nat × List Nat)) (p id : Nat) (h : record index p id = some index') :
    id ∉ idsIn index p ∧ ∀ p', idsIn index' p' = if p' = p then idsIn index p ++ [id] else idsIn index p' := by
  unfold record at h
  split at h
  · rename_i hf
    simp at h; subst h
    refine ⟨by simp [idsIn, hf], fun p' => ?_⟩
    by_cases hp : p' = p
    · subst hp; simp [idsIn, find_set_self, hf]
    · simp [idsIn, find_set_other _ _ _ hp, hp]
  · rename_i set hf
    split at h
    · simp at h
    · rename_i hm
      simp at h; subst h
      refine ⟨by simpa [idsIn, hf] using hm, fun p' => ?_⟩
      by_cases hp : p' = p
      · subst hp; simp [idsIn, find_set_self, hf]
      · simp [idsIn, find_set_other _ _ _ hp, hp]

theorem record_ok (index : List (Nat × List Nat)) (p id : Nat) (h : id ∉ idsIn index p) :
    ∃ index', record index p id = some index' := by
  unfold record
  split
  · exact ⟨_, rfl⟩
  · rename_i set hf
    have : id ∉ set := by simpa [idsIn, hf] using h
    simp [this]

theorem unrecord_spec (index index' : List (Nat × List Nat)) (p id : Nat) (h : unrecord index p id = some index') :
    id ∈ idsIn index p ∧
    ∀ p', idsIn index' p' = if p' = p then (idsIn index p).filter (· ≠ id) else idsIn index p' := by
  unfold unrecord at h
  split at h
  · simp at h
  · rename_i set hf
    split at h
    · rename_i hm
      refine ⟨by simpa [idsIn, hf] using hm, fun p' => ?_⟩
      simp only at h
      split at h
      · rename_i he
        simp at h; subst h
        by_cases hp : p' = p
        · subst hp
          have : List.filter (fun x => decide (x ≠ id)) set = [] := List.isEmpty_iff.1 he
          rw [if_pos rfl]
          simp only [idsIn, find_erase_self, hf, Option.getD_none, Option.getD_some]
          exact this.symm
        · simp [idsIn, find_erase_other _ _ hp, hp]
      · simp at h; subst h
        by_cases hp : p' = p
        · subst hp; simp [idsIn, find_set_self, hf]
        · simp [idsIn, find_set_other _ _ _ hp, hp]
    · simp at h

theorem unrecord_ok (index : List (Nat × List Nat)) (p id : Nat) (h : id ∈ idsIn index p) :
    ∃ index', unrecord index p id = some index' := by
  unfold unrecord
  split
  · rename_i hf; simp [idsIn, hf] at h
  · rename_i set hf
    have : id ∈ set := by simpa [idsIn, hf] using h
    simp only [this, if_true]
    split <;> exact ⟨_, rfl⟩

/-- the concrete layout refines the abstract controller set -/
structure Inv (ac : Acct) : Prop where
  idsLe : ∀ id c, assocFind id ac.ctrls = some c → id ≤ ac.nextId
  consistent : ∀ p id, id ∈ ac.idsAt p ↔ ∃ c, assocFind id ac.ctrls = some c ∧ c.target = p
  nodup : ∀ p, (ac.idsAt p).Nodup

theorem idsAt_eq (ac : Acct) (p : Nat) : ac.idsAt p = idsIn ac.index p := rfl

theorem inv_init : Inv {} := by
  refine ⟨?_, ?_, ?_⟩ <;> simp [Acct.idsAt, assocFind]

def SInv (s : State) : Prop := ∀ a, Inv (s a)

theorem sinv_set (s : State) (a : Nat) (ac : Acct) (h : SInv s) (hac : Inv ac) : SInv (s.set a ac) := by
  intro b
  unfold State.set
  split
  · exact hac
  · exact h b

theorem find_cons {α : Type} (id id' : Nat) (c : α) (l : List (Nat × α)) :
    assocFind id' ((id, c) :: l) = if id = id' then some c else assocFind id' l := rfl

/-- issue: never hits an `unreachable` branch, hands out `nextId + 1`, keeps the refinement -/
theorem issue_inv (ac : Acct) (h : Inv ac) (p : Nat) (ty : T) :
    assocFind (ac.nextId + 1) ac.ctrls = none ∧
    ∃ index', record ac.index p (ac.nextId + 1) = some index' ∧
      Inv { ac with ctrls := (ac.nextId + 1, ⟨ty, p, ""⟩) :: ac.ctrls, index := index', nextId := ac.nextId + 1 } := by
  have hnone : assocFind (ac.nextId + 1) ac.ctrls = none := by
    cases hf : assocFind (ac.nextId + 1) ac.ctrls with
    | none => rfl
    | some c => have := h.idsLe _ _ hf; omega
  have hnot : ∀ p', ac.nextId + 1 ∉ ac.idsAt p' := by
    intro p' hm
    obtain ⟨c, hc, _⟩ := (h.consistent p' _).1 hm
    rw [hnone] at hc; cases hc
  obtain ⟨index', hr⟩ := record_ok ac.index p (ac.nextId + 1) (hnot p)
  obtain ⟨_, hspec⟩ := record_spec _ _ _ _ hr
  refine ⟨hnone, index', hr, ⟨?_, ?_, ?_⟩⟩
  · intro id c hf
    simp only [find_cons] at hf
    show id ≤ ac.nextId + 1
    split at hf
    · omega
    · have := h.idsLe _ _ hf; omega
  · intro p' id
    simp only [Acct.idsAt, find_cons]
    have hs := hspec p'
    simp only [idsIn] at hs
    rw [hs]
    by_cases hid : ac.nextId + 1 = id
    · subst hid
      simp only [if_true]
      by_cases hp : p' = p
      · subst hp; simp
      · simp only [hp, if_false]
        constructor
        · intro hm; exact absurd hm (hnot p')
        · rintro ⟨c, hc, ht⟩
          simp at hc; subst hc; exact absurd ht.symm hp
    · simp only [hid, if_false]
      have hc := h.consistent p' id
      simp only [Acct.idsAt] at hc
      by_cases hp : p' = p
      · subst hp
        simp only [if_true, List.mem_append, List.mem_singleton]
        rw [← hc]
        constructor
        · rintro (hm | hm)
          · exact hm
          · exact absurd hm.symm hid
        · exact Or.inl
      · simp only [hp, if_false]; exact hc
  · intro p'
    simp only [Acct.idsAt]
    have hs := hspec p'
    simp only [idsIn] at hs
    rw [hs]
    by_cases hp : p' = p
    · subst hp
      simp only [if_true]
      refine List.nodup_append.2 ⟨h.nodup p', by simp, ?_⟩
      intro x hx y hy
      simp at hy; subst hy
      intro he; subst he
      exact hnot p' hx
    · simp only [hp, if_false]; exact h.nodup p'

/-- delete: never hits an `unreachable` branch and keeps the refinement -/
theorem delete_inv (ac : Acct) (h : Inv ac) (id : Nat) (c : Ctrl) (hc : assocFind id ac.ctrls = some c) :
    ∃ i1, unrecord ac.index c.target id = some i1 ∧
      Inv { ac with ctrls := assocErase id ac.ctrls, index := i1 } := by
  have hm : id ∈ ac.idsAt c.target := (h.consistent _ _).2 ⟨c, hc, rfl⟩
  obtain ⟨i1, hu⟩ := unrecord_ok ac.index c.target id hm
  obtain ⟨_, hspec⟩ := unrecord_spec _ _ _ _ hu
  refine ⟨i1, hu, ⟨?_, ?_, ?_⟩⟩
  · intro id' c' hf
    show id' ≤ ac.nextId
    by_cases hid : id' = id
    · subst hid; rw [find_erase_self] at hf; cases hf
    · rw [find_erase_other _ _ hid] at hf; exact h.idsLe _ _ hf
  · intro p' id'
    simp only [Acct.idsAt]
    have hs := hspec p'
    simp only [idsIn] at hs
    rw [hs]
    have hcons := h.consistent p' id'
    simp only [Acct.idsAt] at hcons
    by_cases hid : id' = id
    · subst hid
      rw [find_erase_self]
      constructor
      · intro hm'
        exfalso
        by_cases hp : p' = c.target
        · simp [hp] at hm'
        · simp only [hp, if_false] at hm'
          obtain ⟨c', hc', ht⟩ := hcons.1 hm'
          rw [hc] at hc'; cases hc'; exact hp ht.symm
      · rintro ⟨c', hc', _⟩; cases hc'
    · rw [find_erase_other _ _ hid]
      by_cases hp : p' = c.target
      · simp only [hp, if_true, List.mem_filter, decide_eq_true_eq, ne_eq]
        rw [← hp, hcons]
        constructor
        · exact fun hx => hx.1
        · exact fun hx => ⟨hx, hid⟩
      · simp only [hp, if_false]; exact hcons
  · intro p'
    simp only [Acct.idsAt]
    have hs := hspec p'
    simp only [idsIn] at hs
    rw [hs]
    split
    · exact List.Nodup.sublist List.filter_sublist (h.nodup _)
    · exact h.nodup p'

/-- retarget = unrecord at the old target, record at the new one: never hits an `unreachable` branch
and keeps the refinement -/
theorem retarget_inv (ac : Acct) (h : Inv ac) (id p : Nat) (c : Ctrl) (hc : assocFind id ac.ctrls = some c) :
    ∃ i1 i2, unrecord ac.index c.target id = some i1 ∧ record i1 p id = some i2 ∧
      Inv { ac with ctrls := assocSet id { c with target := p } ac.ctrls, index := i2 } := by
  have hm : id ∈ ac.idsAt c.target := (h.consistent _ _).2 ⟨c, hc, rfl⟩
  obtain ⟨i1, hu⟩ := unrecord_ok ac.index c.target id hm
  obtain ⟨_, hs1⟩ := unrecord_spec _ _ _ _ hu
  -- the ids of the intermediate index
  have hmem1 : ∀ p' id', id' ∈ idsIn i1 p' ↔ id' ∈ idsIn ac.index p' ∧ id' ≠ id := by
    intro p' id'
    rw [hs1 p']
    by_cases hp : p' = c.target
    · subst hp; simp
    · simp only [hp, if_false]
      constructor
      · intro hx
        refine ⟨hx, ?_⟩
        intro he; subst he
        obtain ⟨c', hc', ht⟩ := (h.consistent p' id').1 hx
        rw [hc] at hc'; cases hc'; exact hp ht.symm
      · exact fun hx => hx.1
  have hnd1 : ∀ p', (idsIn i1 p').Nodup := by
    intro p'
    rw [hs1 p']
    split
    · exact List.Nodup.sublist List.filter_sublist (h.nodup _)
    · exact h.nodup p'
  have hnot : id ∉ idsIn i1 p := fun hx => ((hmem1 p id).1 hx).2 rfl
  obtain ⟨i2, hr⟩ := record_ok i1 p id hnot
  obtain ⟨_, hs2⟩ := record_spec _ _ _ _ hr
  refine ⟨i1, i2, hu, hr, ⟨?_, ?_, ?_⟩⟩
  · intro id' c' hf
    show id' ≤ ac.nextId
    by_cases hid : id' = id
    · subst hid; exact h.idsLe _ _ hc
    · rw [find_set_other _ _ _ hid] at hf; exact h.idsLe _ _ hf
  · intro p' id'
    simp only [Acct.idsAt]
    have hs := hs2 p'
    simp only [idsIn] at hs hmem1
    rw [hs]
    by_cases hid : id' = id
    · subst hid
      rw [find_set_self]
      by_cases hp : p' = p
      · subst hp; simp
      · simp only [hp, if_false]
        constructor
        · intro hx; exact absurd rfl ((hmem1 p' id').1 hx).2
        · rintro ⟨c', hc', ht⟩
          simp at hc'; subst hc'; exact absurd ht.symm hp
    · rw [find_set_other _ _ _ hid]
      have hcons := h.consistent p' id'
      simp only [Acct.idsAt] at hcons
      rw [← hcons]
      by_cases hp : p' = p
      · subst hp
        simp only [if_true, List.mem_append, List.mem_singleton, hmem1]
        constructor
        · rintro (hx | hx)
          · exact hx.1
          · exact absurd hx hid
        · exact fun hx => Or.inl ⟨hx, hid⟩
      · simp only [hp, if_false, hmem1]
        exact ⟨fun hx => hx.1, fun hx => ⟨hx, hid⟩⟩
  · intro p'
    simp only [Acct.idsAt]
    have hs := hs2 p'
    simp only [idsIn] at hs
    rw [hs]
    by_cases hp : p' = p
    · subst hp
      simp only [if_true]
      refine List.nodup_append.2 ⟨hnd1 p', by simp, ?_⟩
      intro x hx y hy
      simp at hy; subst hy
      intro he; subst he
      exact hnot hx
    · simp only [hp, if_false]; exact hnd1 p'

/-- setTag changes no target -/
theorem setTag_inv (ac : Acct) (h : Inv ac) (id : Nat) (tag : String) (c : Ctrl) (hc : assocFind id ac.ctrls = some c) :
    Inv { ac with ctrls := assocSet id { c with tag := tag } ac.ctrls } := by
  refine ⟨?_, ?_, ?_⟩
  · intro id' c' hf
    show id' ≤ ac.nextId
    by_cases hid : id' = id
    · subst hid; exact h.idsLe _ _ hc
    · rw [find_set_other _ _ _ hid] at hf; exact h.idsLe _ _ hf
  · intro p' id'
    have hcons := h.consistent p' id'
    show id' ∈ ac.idsAt p' ↔ _
    rw [hcons]
    by_cases hid : id' = id
    · subst hid
      rw [find_set_self, hc]
      simp
    · rw [find_set_other _ _ _ hid]
  · exact h.nodup

/-- the refinement relation only reads the controllers, the index and the counter -/
theorem inv_congr (ac ac' : Acct) (h : Inv ac) (h1 : ac'.ctrls = ac.ctrls) (h2 : ac'.index = ac.index)
    (h3 : ac'.nextId = ac.nextId) : Inv ac' := by
  refine ⟨?_, ?_, ?_⟩
  · intro id c hf; rw [h3]; rw [h1] at hf; exact h.idsLe id c hf
  · intro p id; simp only [Acct.idsAt, h1, h2]; exact h.consistent p id
  · intro p; simp only [Acct.idsAt, h2]; exact h.nodup p

/-- every operation keeps the refinement in every account, and none reaches an `unreachable` branch
of the Go code -/
theorem step_inv (s : State) (h : SInv s) (op : Op) :
    step s op ≠ .abort .internal ∧ ∀ s' o, step s op = .ok (s', o) → SInv s' := by
  cases op with
  | issue a p ty =>
    obtain ⟨hnone, index', hr, hinv⟩ := issue_inv (s a) (h a) p ty
    simp only [step, hnone, hr]
    refine ⟨by simp, ?_⟩
    intro s' o heq
    simp at heq
    rw [← heq.1]
    exact sinv_set s a _ h hinv
  | retarget a id p =>
    cases hc : assocFind id (s a).ctrls with
    | none =>
      simp only [step, hc]
      exact ⟨by simp, fun s' o heq => by simp at heq; rw [← heq.1]; exact h⟩
    | some c =>
      obtain ⟨i1, i2, hu, hr, hinv⟩ := retarget_inv (s a) (h a) id p c hc
      simp only [step, hc, hu, hr]
      refine ⟨by simp, ?_⟩
      intro s' o heq
      simp at heq
      rw [← heq.1]
      exact sinv_set s a _ h hinv
  | delete a id =>
    cases hc : assocFind id (s a).ctrls with
    | none =>
      simp only [step, hc]
      exact ⟨by simp, fun s' o heq => by simp at heq; rw [← heq.1]; exact h⟩
    | some c =>
      obtain ⟨i1, hu, hinv⟩ := delete_inv (s a) (h a) id c hc
      simp only [step, hc, hu]
      refine ⟨by simp, ?_⟩
      intro s' o heq
      simp at heq
      rw [← heq.1]
      exact sinv_set s a _ h hinv
  | setTag a id tag =>
    cases hc : assocFind id (s a).ctrls with
    | none =>
      simp only [step, hc]
      exact ⟨by simp, fun s' o heq => by simp at heq; rw [← heq.1]; exact h⟩
    | some c =>
      simp only [step, hc]
      refine ⟨by simp, ?_⟩
      intro s' o heq
      simp at heq
      rw [← heq.1]
      exact sinv_set s a _ h (setTag_inv (s a) (h a) id tag c hc)
  | getController a id =>
    simp only [step]
    split <;> exact ⟨by simp, fun s' o heq => by simp at heq; rw [← heq.1]; exact h⟩
  | getControllers a p =>
    have hall : ((s a).idsAt p).all (fun id => (assocFind id (s a).ctrls).isSome) = true := by
      rw [List.all_eq_true]
      intro id hid
      obtain ⟨c, hc, _⟩ := ((h a).consistent p id).1 hid
      simp [hc]
    simp only [step, hall, if_true]
    exact ⟨by simp, fun s' o heq => by simp at heq; rw [← heq.1]; exact h⟩
  | forEachController a p =>
    have hall : ((s a).idsAt p).all (fun id => (assocFind id (s a).ctrls).isSome) = true := by
      rw [List.all_eq_true]
      intro id hid
      obtain ⟨c, hc, _⟩ := ((h a).consistent p id).1 hid
      simp [hc]
    simp only [step, hall, if_true]
    exact ⟨by simp, fun s' o heq => by simp at heq; rw [← heq.1]; exact h⟩
  | publish a id q =>
    simp only [step]
    split
    · exact ⟨by simp, fun s' o heq => by simp at heq; rw [← heq.1]; exact h⟩
    · split
      · exact ⟨by simp, fun s' o heq => by simp at heq⟩
      · refine ⟨by simp, fun s' o heq => ?_⟩
        simp at heq
        rw [← heq.1]
        exact sinv_set s a _ h (inv_congr (s a) _ (h a) rfl rfl rfl)
  | unpublish a q =>
    simp only [step]
    split
    · exact ⟨by simp, fun s' o heq => by simp at heq; rw [← heq.1]; exact h⟩
    · refine ⟨by simp, fun s' o heq => ?_⟩
      simp at heq
      rw [← heq.1]
      exact sinv_set s a _ h (inv_congr (s a) _ (h a) rfl rfl rfl)
  | exists_ a q =>
    simp only [step]
    exact ⟨by simp, fun s' o heq => by simp at heq; rw [← heq.1]; exact h⟩
  | get a q w =>
    simp only [step]
    split
    · exact ⟨by simp, fun s' o heq => by simp at heq; rw [← heq.1]; exact h⟩
    · split <;> exact ⟨by simp, fun s' o heq => by simp at heq; rw [← heq.1]; exact h⟩
  | borrow a q w =>
    simp only [step]
    split
    · exact ⟨by simp, fun s' o heq => by simp at heq; rw [← heq.1]; exact h⟩
    · split <;> exact ⟨by simp, fun s' o heq => by simp at heq; rw [← heq.1]; exact h⟩
  | inboxPublish a id name recipient =>
    simp only [step]
    split
    · exact ⟨by simp, fun s' o heq => by simp at heq; rw [← heq.1]; exact h⟩
    · refine ⟨by simp, fun s' o heq => ?_⟩
      simp at heq
      rw [← heq.1]
      exact sinv_set s a _ h (inv_congr (s a) _ (h a) rfl rfl rfl)
  | inboxUnpublish a name w =>
    simp only [step]
    split
    · exact ⟨by simp, fun s' o heq => by simp at heq; rw [← heq.1]; exact h⟩
    · split
      · exact ⟨by simp, fun s' o heq => by simp at heq⟩
      · refine ⟨by simp, fun s' o heq => ?_⟩
        simp at heq
        rw [← heq.1]
        exact sinv_set s a _ h (inv_congr (s a) _ (h a) rfl rfl rfl)
  | inboxClaim a name provider w =>
    simp only [step]
    split
    · exact ⟨by simp, fun s' o heq => by simp at heq; rw [← heq.1]; exact h⟩
    · split
      · exact ⟨by simp, fun s' o heq => by simp at heq; rw [← heq.1]; exact h⟩
      · split
        · exact ⟨by simp, fun s' o heq => by simp at heq⟩
        · refine ⟨by simp, fun s' o heq => ?_⟩
          simp at heq
          rw [← heq.1]
          exact sinv_set s provider _ h (inv_congr (s provider) _ (h provider) rfl rfl rfl)
  | save a p ty x =>
    simp only [step]
    split
    · exact ⟨by simp, fun s' o heq => by simp at heq⟩
    · refine ⟨by simp, fun s' o heq => ?_⟩
      simp at heq
      rw [← heq.1]
      exact sinv_set s a _ h (inv_congr (s a) _ (h a) rfl rfl rfl)
  | load a p =>
    simp only [step]
    split
    · exact ⟨by simp, fun s' o heq => by simp at heq; rw [← heq.1]; exact h⟩
    · refine ⟨by simp, fun s' o heq => ?_⟩
      simp at heq
      rw [← heq.1]
      exact sinv_set s a _ h (inv_congr (s a) _ (h a) rfl rfl rfl)
  | panic =>
    simp only [step]
    exact ⟨by simp, fun s' o heq => by simp at heq⟩
  | getBorrow a q g w =>
    simp only [step]
    exact ⟨by simp, fun s' o heq => by simp at heq; rw [← heq.1]; exact h⟩
  | republish a q g q2 =>
    simp only [step]
    split
    · exact ⟨by simp, fun s' o heq => by simp at heq⟩
    · refine ⟨by simp, fun s' o heq => ?_⟩
      simp at heq
      rw [← heq.1]
      exact sinv_set s a _ h (inv_congr (s a) _ (h a) rfl rfl rfl)
  | ctrlBorrow a id w =>
    simp only [step]
    split <;> exact ⟨by simp, fun s' o heq => by simp at heq; rw [← heq.1]; exact h⟩

theorem runOps_inv : ∀ (ops : List Op) (s : State) (acc : List Obs), SInv s →
    SInv (runOps s ops acc).1 ∧ (runOps s ops acc).2.outcome ≠ some .internal
  | [], s, acc, h => by simp [runOps, h]
  | op :: ops, s, acc, h => by
    obtain ⟨hni, hok⟩ := step_inv s h op
    simp only [runOps]
    cases hst : step s op with
    | ok r =>
      obtain ⟨s', o⟩ := r
      exact runOps_inv ops s' (o :: acc) (hok s' o hst)
    | abort e =>
      refine ⟨h, ?_⟩
      simp only [ne_eq, Option.some.injEq]
      intro he; subst he; exact hni hst

theorem runTx_inv (s : State) (tx : List Op) (h : SInv s) :
    SInv (runTx s tx).1 ∧ (runTx s tx).2.outcome ≠ some .internal := by
  obtain ⟨h1, h2⟩ := runOps_inv tx s [] h
  unfold runTx
  cases hr : runOps s tx [] with
  | mk s' o =>
    rw [hr] at h1 h2
    simp only
    cases ho : o.outcome with
    | none => simp only; exact ⟨h1, by rw [ho]; simp⟩
    | some e => simp only; exact ⟨h, by simpa using h2⟩

theorem runHist_inv : ∀ (hist : List (List Op)) (s : State), SInv s →
    SInv (runHist s hist).1 ∧ ∀ o ∈ (runHist s hist).2, o.outcome ≠ some .internal
  | [], s, h => by simp [runHist, h]
  | tx :: rest, s, h => by
    obtain ⟨h1, h2⟩ := runTx_inv s tx h
    obtain ⟨h3, h4⟩ := runHist_inv rest (runTx s tx).1 h1
    simp only [runHist]
    refine ⟨h3, ?_⟩
    intro o ho
    rcases List.mem_cons.1 ho with he | hm
    · subst he; exact h2
    · exact h4 o hm

/-- `capabilities.get<&g>`: the returned capability has the wanted type `g`; when it is valid, a capability is
published at the path, its controller is live and `g` is related to both their types -/
theorem getCap_spec (ac : Acct) (q : Nat) (g : T) :
    (getCap ac q g).ty = g ∧
    ((getCap ac q g).id ≠ 0 →
      ∃ cap c, assocFind q ac.published = some cap ∧ cap.id = (getCap ac q g).id ∧
        assocFind cap.id ac.live = some c ∧ canBorrow g cap.ty = true ∧ canBorrow g c.ty = true) := by
  unfold getCap
  cases hq : assocFind q ac.published with
  | none => simp
  | some cap =>
    cases hr : resolve ac cap g with
    | none => simp only [hr]; simp
    | some r =>
      simp only [hr, true_and]
      intro _
      unfold resolve at hr
      split at hr
      · simp at hr
      · rename_i hcb
        split at hr
        · simp at hr
        · rename_i c hc
          split at hr
          · simp at hr
          · rename_i hcb2
            exact ⟨cap, c, rfl, rfl, hc, by simpa using hcb, by simpa using hcb2⟩

theorem getCap_of (ac : Acct) (q : Nat) (g : T) (cap : Cap) (c : Ctrl) (hq : assocFind q ac.published = some cap)
    (hc : assocFind cap.id ac.ctrls = some c) (h1 : canBorrow g cap.ty = true) (h2 : canBorrow g c.ty = true) :
    getCap ac q g = ⟨cap.id, g⟩ := by
  simp [getCap, resolve, hq, hc, h1, h2]

/-- retarget touches no other controller -/
theorem retarget_frame (s s1 : State) (a id p : Nat) (o : Obs) (h : step s (.retarget a id p) = .ok (s1, o))
    (id' : Nat) (hne : id' ≠ id) : assocFind id' (s1 a).ctrls = assocFind id' (s a).ctrls := by
  simp only [step] at h
  split at h
  · simp at h; rw [← h.1]
  · split at h
    · simp at h
    · split at h
      · simp at h
      · simp at h
        rw [← h.1]
        simp [State.set, find_set_other _ _ _ hne]

theorem sinv_init : SInv init := fun _ => inv_init

end Verif.Proofs.Caps
