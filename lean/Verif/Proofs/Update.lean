import Verif.Spec.Update
/-! Helper lemmas for C27 (core Lean only). -/
namespace Verif.Proofs.Update
open Verif.Model.Update Verif.Spec.Update

/-! ## the type comparator identifies only types with the same denotation -/

theorem canonUnq_congr {i j : List (String × Loc)} (h : ∀ x, lookupLast x i = lookupLast x j)
    (x : String) (rest : List String) : canonUnq i x rest = canonUnq j x rest := by
  simp [canonUnq, h]

theorem canon_congr {R : String} {i j : List (String × Loc)} (h : ∀ x, lookupLast x i = lookupLast x j)
    (n : Nominal) : canon ⟨R, i⟩ n = canon ⟨R, j⟩ n := by
  unfold canon
  cases n.nested <;> simp [canonUnq_congr h]

theorem checkName_canon (c : Cmp) (R : String) (hroot : c.root = some R)
    (himp : ∀ x, lookupLast x c.expImports = lookupLast x c.foundImports)
    (e f : Nominal) (h : checkNameEquality c e f = true) :
    canon ⟨R, c.expImports⟩ e = canon ⟨R, c.foundImports⟩ f := by
  rw [canon_congr himp]
  obtain ⟨eid, en⟩ := e
  obtain ⟨fid, fn⟩ := f
  unfold checkNameEquality at h
  cases en with
  | nil =>
    cases fn with
    | nil =>
      simp [identifiersEqual] at h
      simp [canon, h.1]
    | cons y ys =>
      simp [checkIdentifierEquality, hroot, identifiersEqual] at h
      obtain ⟨h1, h2, h3⟩ := h
      simp [canon, h1, h2, ← h3]
  | cons x xs =>
    cases fn with
    | nil =>
      simp [checkIdentifierEquality, hroot, identifiersEqual] at h
      obtain ⟨h1, h2, h3⟩ := h
      simp [canon, h1, h2, ← h3]
    | cons y ys =>
      simp [identifiersEqual] at h
      obtain ⟨h1, _, h3, h4⟩ := h
      simp [canon, h1, h3, h4]

theorem nominalsEq_canon (c : Cmp) (R : String) (hroot : c.root = some R)
    (himp : ∀ x, lookupLast x c.expImports = lookupLast x c.foundImports) :
    ∀ (es fs : List Nominal), es.length = fs.length → nominalsEq c es fs = none →
      es.map (canon ⟨R, c.expImports⟩) = fs.map (canon ⟨R, c.foundImports⟩)
  | [], [], _, _ => rfl
  | [], _ :: _, hl, _ => by simp at hl
  | _ :: _, [], hl, _ => by simp at hl
  | e :: es, f :: fs, hl, h => by
    simp only [nominalsEq] at h
    split at h
    · rename_i hn
      simp only [List.map_cons]
      rw [checkName_canon c R hroot himp e f hn, nominalsEq_canon c R hroot himp es fs (by simpa using hl) h]
    · simp at h

theorem ite_else_some_none {α : Type} {p : Prop} [Decidable p] {a : Option α} {x : α} :
    (if p then a else some x) = none ↔ p ∧ a = none := by
  split <;> simp [*]

theorem ite_then_some_none {α : Type} {p : Prop} [Decidable p] {a : Option α} {x : α} :
    (if p then some x else a) = none ↔ ¬ p ∧ a = none := by
  split <;> simp [*]

theorem match_some_none {α : Type} {a b : Option α} :
    (match a with | some m => some m | none => b) = none ↔ a = none ∧ b = none := by
  cases a <;> simp

theorem authEq_canon (c : Cmp) (R : String) (hroot : c.root = some R)
    (himp : ∀ x, lookupLast x c.expImports = lookupLast x c.foundImports)
    (x y : Auth Nominal) (h : authEq c x y = none) :
    mapAuth (canon ⟨R, c.expImports⟩) x = mapAuth (canon ⟨R, c.foundImports⟩) y := by
  cases x <;> cases y <;> simp only [authEq, bne_iff_ne, ne_eq, ite_then_some_none, ite_else_some_none, reduceCtorEq, Decidable.not_not] at h
  · simp [mapAuth, nominalsEq_canon c R hroot himp _ _ h.1 h.2]
  · simp [mapAuth, nominalsEq_canon c R hroot himp _ _ h.1 h.2]
  · simp [mapAuth, checkName_canon c R hroot himp _ _ h.1]

mutual
theorem typeEq_denote (c : Cmp) (R : String) (hroot : c.root = some R)
    (himp : ∀ x, lookupLast x c.expImports = lookupLast x c.foundImports) :
    ∀ (t t' : TypeAst), typeEq c t t' = none →
      mapTy (canon ⟨R, c.expImports⟩) t = mapTy (canon ⟨R, c.foundImports⟩) t'
  | .nominal e, t', h => by
    cases t' <;> simp only [typeEq, ite_else_some_none, reduceCtorEq] at h
    simp [mapTy, checkName_canon c R hroot himp _ _ h.1]
  | .optional e, t', h => by
    cases t' <;> simp only [typeEq, reduceCtorEq] at h
    simp [mapTy, typeEq_denote c R hroot himp e _ h]
  | .varSized e, t', h => by
    cases t' <;> simp only [typeEq, reduceCtorEq] at h
    simp [mapTy, typeEq_denote c R hroot himp e _ h]
  | .constSized e n b, t', h => by
    cases t' <;> simp only [typeEq, ite_then_some_none, reduceCtorEq] at h
    obtain ⟨h1, h3⟩ := h
    simp at h1
    simp [mapTy, typeEq_denote c R hroot himp e _ h3, h1.1, h1.2]
  | .dict k v, t', h => by
    cases t' <;> simp only [typeEq, reduceCtorEq] at h
    split at h
    · simp at h
    · rename_i hk
      simp [mapTy, typeEq_denote c R hroot himp k _ hk, typeEq_denote c R hroot himp v _ h]
  | .func p ps r, t', h => by
    cases t' <;> simp only [typeEq, ite_then_some_none, reduceCtorEq] at h
    rename_i p' ps' r'
    obtain ⟨hl, hp, h⟩ := h
    simp at hl hp
    split at h
    · simp at h
    · rename_i hps
      simp [mapTy, hp, typeEqList_denote c R hroot himp ps ps' hl hps, typeEq_denote c R hroot himp r _ h]
  | .ref a e, t', h => by
    cases t' <;> simp only [typeEq, reduceCtorEq] at h
    rename_i a' e'
    cases a <;> cases a' <;> simp only [reduceCtorEq] at h
    · simp [mapTy, typeEq_denote c R hroot himp e _ h]
    · rename_i x y
      split at h
      · simp at h
      · rename_i ha
        simp [mapTy, authEq_canon c R hroot himp x y ha, typeEq_denote c R hroot himp e _ h]
  | .inter es, t', h => by
    cases t' <;> simp only [typeEq, ite_then_some_none, reduceCtorEq] at h
    simp at h
    simp [mapTy, nominalsEq_canon c R hroot himp _ _ h.1 h.2]
  | .inst e args, t', h => by
    cases t' <;> simp only [typeEq, reduceCtorEq] at h
    rename_i e' args'
    split at h
    · simp at h
    · rename_i he
      simp only [ite_then_some_none] at h
      obtain ⟨hl, h⟩ := h
      simp at hl
      simp [mapTy, typeEq_denote c R hroot himp e _ he, typeEqList_denote c R hroot himp args args' hl h]
theorem typeEqList_denote (c : Cmp) (R : String) (hroot : c.root = some R)
    (himp : ∀ x, lookupLast x c.expImports = lookupLast x c.foundImports) :
    ∀ (ts ts' : List TypeAst), ts.length = ts'.length → typeEqList c ts ts' = none →
      mapTys (canon ⟨R, c.expImports⟩) ts = mapTys (canon ⟨R, c.foundImports⟩) ts'
  | [], [], _, _ => rfl
  | [], _ :: _, hl, _ => by simp at hl
  | _ :: _, [], hl, _ => by simp at hl
  | t :: ts, t' :: ts', hl, h => by
    simp only [typeEqList] at h
    split at h
    · simp at h
    · rename_i ht
      simp [mapTys, typeEq_denote c R hroot himp t t' ht,
        typeEqList_denote c R hroot himp ts ts' (by simpa using hl) h]
end

/-! ## what an empty error list says about one pair of declarations -/

theorem lookupLast_some {β : Type} (k : String) :
    ∀ (l : List (String × β)) (v : β), lookupLast k l = some v → (k, v) ∈ l
  | [], v, h => by simp [lookupLast] at h
  | (k', v') :: rest, v, h => by
    simp only [lookupLast] at h
    split at h
    · rename_i w hw
      simp at h
      subst h
      exact List.mem_cons_of_mem _ (lookupLast_some k rest _ hw)
    · split at h
      · rename_i hk
        simp at h hk
        subst h hk
        exact List.mem_cons_self
      · simp at h

theorem checkFields_nil (c : Cmp) (ofs nfs : List Field) (h : checkFields c ofs nfs = []) :
    ∀ nf ∈ nfs, ∃ of ∈ ofs, of.name = nf.name ∧ typeEq c of.ty nf.ty = none := by
  intro nf hnf
  simp only [checkFields, List.flatMap_eq_nil_iff] at h
  have h1 := h nf hnf
  split at h1
  · simp at h1
  · rename_i oty hl
    have hm := lookupLast_some _ _ _ hl
    simp only [List.mem_map] at hm
    obtain ⟨of, hof, heq⟩ := hm
    simp at heq
    refine ⟨of, hof, heq.1, ?_⟩
    split at h1
    · simp at h1
    · rename_i ht
      rw [heq.2]; exact ht

theorem checkEnumCases_prefix : ∀ (o n : List String), checkEnumCases o n = [] → o <+: n
  | [], n, _ => List.nil_prefix
  | a :: o, [], h => by simp [checkEnumCases] at h
  | a :: o, b :: n, h => by
    simp only [checkEnumCases, List.length_cons] at h
    split at h
    · simp at h
    · rename_i hlen
      simp only [List.zip_cons_cons, List.flatMap_cons, List.append_eq_nil_iff] at h
      obtain ⟨hab, hrest⟩ := h
      have hab' : a = b := by
        by_cases hh : a = b
        · exact hh
        · simp [hh] at hab
      subst hab'
      have : checkEnumCases o n = [] := by
        simp only [checkEnumCases]
        split
        · omega
        · exact hrest
      exact (List.cons_prefix_cons).2 ⟨rfl, checkEnumCases_prefix o n this⟩

theorem removeFirstMatch_some (c : Cmp) (o : Nominal) :
    ∀ (ns rest : List Nominal), removeFirstMatch c o ns = some rest →
      (∃ n ∈ ns, checkNameEquality c o n = true) ∧ ∀ x ∈ rest, x ∈ ns
  | [], rest, h => by simp [removeFirstMatch] at h
  | n :: ns, rest, h => by
    simp only [removeFirstMatch] at h
    split at h
    · rename_i hn
      simp at h
      subst h
      exact ⟨⟨n, List.mem_cons_self, hn⟩, fun x hx => List.mem_cons_of_mem _ hx⟩
    · simp only [Option.map_eq_some_iff] at h
      obtain ⟨r, hr, hrest⟩ := h
      obtain ⟨⟨m, hm, hmn⟩, hsub⟩ := removeFirstMatch_some c o ns r hr
      subst hrest
      refine ⟨⟨m, List.mem_cons_of_mem _ hm, hmn⟩, ?_⟩
      intro x hx
      rcases List.mem_cons.1 hx with hx | hx
      · subst hx; exact List.mem_cons_self
      · exact List.mem_cons_of_mem _ (hsub x hx)

theorem checkConformance_nil (c : Cmp) :
    ∀ (os ns : List Nominal), checkConformance c os ns = [] →
      ∀ o ∈ os, ∃ n ∈ ns, checkNameEquality c o n = true
  | [], _, _ => by simp
  | o :: os, ns, h => by
    simp only [checkConformance] at h
    split at h
    · simp at h
    · rename_i rest hr
      obtain ⟨hex, hsub⟩ := removeFirstMatch_some c o ns rest hr
      intro x hx
      rcases List.mem_cons.1 hx with hx | hx
      · subst hx; exact hex
      · obtain ⟨n, hn, hnn⟩ := checkConformance_nil c os rest h x hx
        exact ⟨n, hsub n hn, hnn⟩

theorem mem_insertByName (d x : Decl) : ∀ (l : List Decl), x ∈ insertByName d l ↔ x = d ∨ x ∈ l
  | [] => by simp [insertByName]
  | y :: ys => by
    simp only [insertByName]
    split
    · simp
    · simp only [List.mem_cons, mem_insertByName d x ys]
      constructor
      · rintro (h | h | h) <;> simp [h]
      · rintro (h | h | h) <;> simp [h]

theorem mem_sortByName (x : Decl) : ∀ (l : List Decl), x ∈ sortByName l ↔ x ∈ l
  | [] => by simp [sortByName]
  | y :: ys => by
    have ih := mem_sortByName x ys
    simp only [sortByName, List.foldr_cons] at ih ⊢
    rw [mem_insertByName, ih]; simp

/-- the three loops of `checkNestedDeclarations` over the new nested declarations -/
def loops (c : Cmp) (old new : Decl) : (List Err × OldMap) × (List Err × OldMap) × (List Err × OldMap) :=
  let removed := removedNames new.pragmas
  let r1 := checkNews c removed new.composites (nestedNominalTypeDecls old)
  let r2 := checkNews c removed new.attachments r1.2
  let r3 := checkNews c removed new.interfaces r2.2
  (r1, r2, r3)

structure DeclOk (c : Cmp) (old new : Decl) : Prop where
  kind : old.kind = new.kind
  name : old.name = new.name
  fields : checkFields c old.fields new.fields = []
  pragmas : ∀ r ∈ removedNames old.pragmas, r ∈ removedNames new.pragmas
  loop1 : (loops c old new).1.1 = []
  loop2 : (loops c old new).2.1.1 = []
  loop3 : (loops c old new).2.2.1 = []
  missing : ∀ d ∈ (loops c old new).2.2.2.map (·.2), checkRemoval (removedNames new.pragmas) d = []
  cases : checkEnumCases old.cases new.cases = []
  confs : old.shape ≠ .attachment → checkConformance c old.confs new.confs = []

theorem checkDecl_nil (c : Cmp) (old new : Decl) (h : checkDecl c old new = []) : DeclOk c old new := by
  obtain ⟨nkind, nname, nfields, nconfs, ncases, npragmas, nbase, ncomps, natts, nifaces⟩ := new
  simp only [checkDecl] at h
  split at h
  · simp at h
  · rename_i hk
    simp only [List.append_eq_nil_iff] at h
    obtain ⟨⟨⟨⟨⟨⟨⟨⟨⟨⟨h0, h1⟩, h2⟩, h3⟩, h4⟩, h5⟩, h6⟩, h7⟩, h8⟩, h9⟩, h10⟩ := h
    refine ⟨?_, ?_, h1, ?_, h4, h5, h6, ?_, h8, ?_⟩
    · simpa [Decl.kind] using hk
    · by_cases hn : old.name = nname
      · simpa [Decl.name] using hn
      · simp [hn] at h0
    · intro r hr
      simp only [List.flatMap_eq_nil_iff] at h3
      have := h3 r hr
      by_cases hc : (removedNames npragmas).contains r = true
      · simpa [Decl.pragmas] using hc
      · simp at this
        simpa [Decl.pragmas] using this
    · intro d hd
      simp only [List.flatMap_eq_nil_iff] at h7
      apply h7 d
      simpa [mem_sortByName, loops, Decl.pragmas, Decl.composites, Decl.attachments, Decl.interfaces] using hd
    · intro hs
      have hk' : old.kind = nkind := by simpa using hk
      have hsh : shapeOf nkind = old.shape := by rw [← hk']; rfl
      rw [hsh] at h9
      cases hsh' : old.shape <;> simp_all [Decl.confs]

theorem nodeCompat_of_ok (c : Cmp) (R : String) (hroot : c.root = some R)
    (himp : ∀ x, lookupLast x c.expImports = lookupLast x c.foundImports)
    (old new : Decl) (h : DeclOk c old new) :
    NodeCompat ⟨R, c.expImports⟩ ⟨R, c.foundImports⟩ old new where
  kind := h.kind
  name := h.name
  fields := by
    intro nf hnf
    obtain ⟨of, hof, hname, hty⟩ := checkFields_nil c _ _ h.fields nf hnf
    exact ⟨of, hof, hname, typeEq_denote c R hroot himp _ _ hty⟩
  cases := checkEnumCases_prefix _ _ h.cases
  confs := by
    intro hs oc hoc
    obtain ⟨n, hn, hnn⟩ := checkConformance_nil c _ _ (h.confs hs) oc hoc
    exact ⟨n, hn, checkName_canon c R hroot himp _ _ hnn⟩

end Verif.Proofs.Update
