/-
C08 helper lemmas, part 8: `trans_in` — transitivity of `Struct.sub` for chains of types without `Any`,
the sub-most type kind-stable in covariant position and the super-most type kind-stable in contravariant
position (function parameters), by induction on the total size.
-/
import Verif.Proofs.SubTrans2
namespace Verif.Proofs.SubTrans
open Verif.Model.Types Verif.Model.Types.Struct Verif.Model.Auth Verif.Proofs.SubUnfold Verif.Proofs.SubNominal

/-- the induction hypothesis of `trans_in` at size `N` -/
def TransAt (D : List Iface) (N : Nat) : Prop :=
  ∀ a b c : Ty, a.size + b.size + c.size ≤ N → In D a → In D b → In D c →
    stab true a = true → stab false c = true →
    Struct.sub a b = true → Struct.sub b c = true → Struct.sub a c = true

/-- parameter lists (contravariant: the chain runs from the super-most list to the sub-most one) -/
theorem params_trans (D : List Iface) (N : Nat) (ih : TransAt D N) :
    ∀ (p2 p1 p0 : Ty), p2.size + p1.size + p0.size ≤ N → InP D p2 → InP D p1 → InP D p0 →
      stab true p2 = true → stab false p0 = true →
      subParams p2 p1 = true → subParams p1 p0 = true → subParams p2 p0 = true := by
  intro p2
  induction p2 with
  | nilT =>
    intro p1 p0 _ _ h1 h0 _ _ h21 h10
    have w1 := h1.wf; have w0 := h0.wf
    cases p1 <;> simp [Ty.wfParams] at w1
    · exact h10
    · simp [subParams_nil_cons] at h21
  | consT t2 r2 _ ihr =>
    intro p1 p0 hs h2 h1 h0 hst2 hst0 h21 h10
    have w1 := h1.wf; have w0 := h0.wf
    cases p1 <;> simp [Ty.wfParams] at w1
    · simp [subParams_cons_nil] at h21
    · rename_i t1 r1
      cases p0 <;> simp [Ty.wfParams] at w0
      · simp [subParams_cons_nil] at h10
      · rename_i t0 r0
        rw [subParams_cons_cons, Bool.and_eq_true] at h21 h10 ⊢
        have w2 := h2.wf; have n2 := h2.noAny; have m2 := h2.nom; have a2 := h2.auth
        have n1 := h1.noAny; have m1 := h1.nom; have a1 := h1.auth
        have n0 := h0.noAny; have m0 := h0.nom; have a0 := h0.auth
        simp only [Ty.wfParams, Ty.noAny, nomOK, authOK, Bool.and_eq_true] at w2 n2 m2 a2 n1 m1 a1 n0 m0 a0
        simp only [stab, Bool.and_eq_true] at hst2 hst0
        simp only [Ty.size] at hs
        exact ⟨ih t2 t1 t0 (by omega) ⟨w2.1, n2.1, m2.1, a2.1⟩ ⟨w1.1, n1.1, m1.1, a1.1⟩ ⟨w0.1, n0.1, m0.1, a0.1⟩
                hst2.1 hst0.1 h21.1 h10.1,
              ihr r1 r0 (by omega) ⟨w2.2, n2.2, m2.2, a2.2⟩ ⟨w1.2, n1.2, m1.2, a1.2⟩ ⟨w0.2, n0.2, m0.2, a0.2⟩
                hst2.2 hst0.2 h21.2 h10.2⟩
  | _ => intro p1 p0 _ h2; have := h2.wf; simp [Ty.wfParams] at this


open Verif.Spec.Auth in
/-- `permits` is transitive on writable authorizations (as `Properties/C06.permits_trans`) -/
theorem permits_trans' (a b c : Access String) (ha : IsAuth a) (hb : IsAuth b) (hc : IsAuth c)
    (hab : permits a b = true) (hbc : permits b c = true) : permits a c = true :=
  (Verif.Proofs.Auth.permits_iff a c ha hc).mpr (fun H h =>
    (Verif.Proofs.Auth.permits_iff a b ha hb).mp hab H
      ((Verif.Proofs.Auth.den_iff_sat b H).mpr ((Verif.Proofs.Auth.permits_iff b c hb hc).mp hbc H h)))

/-- an optional is below a non-optional type only if that is a simple type (a top) -/
theorem opt_below (x b : Ty) (hb : ∀ y, b ≠ .opt y) (h : chk (.opt x) b = true) : ∃ n, b = .prim n := by
  cases b with
  | prim n => exact ⟨n, rfl⟩
  | opt y => exact absurd rfl (hb y)
  | varArr => rw [chk_varArr] at h; simp at h
  | constArr => rw [chk_constArr] at h; simp at h
  | dict => rw [chk_dict] at h; simp at h
  | ref => rw [chk_ref] at h; simp at h
  | comp => rw [chk_comp] at h; simp at h
  | iface => rw [chk_iface] at h; simp at h
  | inter => rw [chk_inter] at h; simp at h
  | fn => rw [chk_fn] at h; simp at h
  | nilT => rw [chk_nilT] at h; simp at h
  | consT => rw [chk_consT] at h; simp at h
  | capAny => rw [chk_capAny] at h; simp at h
  | cap => rw [chk_cap] at h; simp at h
  | range => rw [chk_range] at h; simp at h

/-- `T? <: P` for a simple type `P` gives `T <: P` -/
theorem opt_below_prim (x : Ty) (n : String) (hx : x.noAny = true) (h : chk (.opt x) (.prim n) = true) :
    Struct.sub x (.prim n) = true := by
  rw [chk_prim] at h
  have hsp := special_of_np (a := .opt x) (fun _ h' => by cases h') h
  apply sub_of_chk
  rw [chk_prim]
  simp only [specials, List.mem_cons, List.not_mem_nil, or_false] at hsp
  rcases hsp with rfl | rfl | rfl | rfl | rfl | rfl
  · simp [chkPrim]
  · simp [chkPrim, Ty.isResource] at h ⊢; exact ⟨h.1, noAny_ne_any hx⟩
  · simp [chkPrim, Ty.isResource] at h ⊢; exact h
  · simp [chkPrim, Ty.isAttachment] at h
  · simp [chkPrim, Ty.isAttachment] at h
  · simp [chkPrim, hashable] at h

end Verif.Proofs.SubTrans
