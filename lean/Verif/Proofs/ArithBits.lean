/-
Lemmas for C14 (bitwise operations and shifts): the hand-written `Go.land/lor/xor` (sign-case
definitions used by the generated model) against the two's-complement bit-pattern spec of
`Verif.Spec.ArithBits`, the fixed-width reductions `wrapS/wrapU` against `wrapTo`, and the shift
helpers (`Go.shl/shr`, `bigLsh/bigRsh`, `truncateWords`, `toTwosComplement`, `bit`) against
`x * 2^k` / `⌊x / 2^k⌋`.  Nothing here mentions a generated definition; the shapes of the big-width
shift methods are stated as `if`-terms over parameters so that `Properties/C14` instantiates them.
-/
import Verif.Gen.NumGo
import Verif.Spec.ArithBits
namespace Verif.Proofs.ArithBits
open Verif.Model.Num Verif.Spec.Arith Verif.Spec.ArithBits

/-- disjoint bit patterns add without carries -/
theorem nat_add_eq_or (x y : Nat) (h : x &&& y = 0) : x + y = x ||| y := by
  have hx : x < 2 ^ (x + y) := Nat.lt_of_lt_of_le Nat.lt_two_pow_self (Nat.pow_le_pow_right (by decide) (by omega))
  have hy : y < 2 ^ (x + y) := Nat.lt_of_lt_of_le Nat.lt_two_pow_self (Nat.pow_le_pow_right (by decide) (by omega))
  have hp : 2 ^ (x + y + 1) = 2 * 2 ^ (x + y) := by rw [Nat.pow_succ]; omega
  have key := BitVec.add_eq_or_of_and_eq_zero (BitVec.ofNat (x + y + 1) x) (BitVec.ofNat (x + y + 1) y)
    (by apply BitVec.eq_of_toNat_eq
        simp only [BitVec.toNat_and, BitVec.toNat_ofNat]
        rw [Nat.mod_eq_of_lt (by omega), Nat.mod_eq_of_lt (by omega), h]; simp)
  have k2 := congrArg BitVec.toNat key
  simp only [BitVec.toNat_add, BitVec.toNat_or, BitVec.toNat_ofNat] at k2
  rw [Nat.mod_eq_of_lt (show x < 2 ^ (x + y + 1) by omega), Nat.mod_eq_of_lt (show y < 2 ^ (x + y + 1) by omega),
    Nat.mod_eq_of_lt (by omega)] at k2
  exact k2

/-- clearing the bits of `y` from `x` -/
theorem nat_sub_and (x y : Nat) : x - (x &&& y) = x ^^^ (x &&& y) := by
  have h1 : (x ^^^ (x &&& y)) &&& (x &&& y) = 0 := by
    apply Nat.eq_of_testBit_eq; intro i
    simp only [Nat.testBit_and, Nat.testBit_xor, Nat.zero_testBit]
    cases x.testBit i <;> cases y.testBit i <;> rfl
  have h2 : (x ^^^ (x &&& y)) ||| (x &&& y) = x := by
    apply Nat.eq_of_testBit_eq; intro i
    simp only [Nat.testBit_and, Nat.testBit_xor, Nat.testBit_or]
    cases x.testBit i <;> cases y.testBit i <;> rfl
  have h3 := nat_add_eq_or _ _ h1
  rw [h2] at h3
  omega

theorem testBit_sub_and (x y i : Nat) : (x - (x &&& y)).testBit i = (x.testBit i && !y.testBit i) := by
  rw [nat_sub_and, Nat.testBit_xor, Nat.testBit_and]
  cases x.testBit i <;> cases y.testBit i <;> rfl

/-- bit `i` of the infinite two's-complement expansion of `x` -/
def ibit (x : Int) (i : Nat) : Bool :=
  if 0 ≤ x then x.toNat.testBit i else !(Go.bnot x).toNat.testBit i

theorem two_pow_pos' (w : Nat) : (0 : Int) < (2 : Int) ^ w := Int.pow_pos (by decide)

theorem natCast_two_pow (w : Nat) : ((2 ^ w : Nat) : Int) = (2 : Int) ^ w := by
  simp

theorem toTC_nonneg (w : Nat) (x : Int) (h0 : 0 ≤ x) (h1 : x < (2 : Int) ^ w) : toTC w x = x.toNat := by
  unfold toTC; rw [Int.emod_eq_of_lt h0 h1]

theorem toTC_neg (w : Nat) (x : Int) (h0 : -(2 : Int) ^ w ≤ x) (h1 : x < 0) :
    toTC w x = 2 ^ w - ((Go.bnot x).toNat + 1) ∧ (Go.bnot x).toNat < 2 ^ w := by
  unfold toTC Go.bnot
  have e : x % (2 : Int) ^ w = x + (2 : Int) ^ w := by
    rw [← Int.add_emod_right]; exact Int.emod_eq_of_lt (by omega) (by omega)
  rw [e]
  have := natCast_two_pow w
  have hp : 0 < 2 ^ w := Nat.two_pow_pos w
  omega

theorem tc_testBit (w : Nat) (x : Int) (h0 : -(2 : Int) ^ w ≤ x) (h1 : x < (2 : Int) ^ w) (i : Nat) :
    (toTC w x).testBit i = (decide (i < w) && ibit x i) := by
  unfold ibit
  by_cases hx : 0 ≤ x
  · rw [toTC_nonneg w x hx h1, if_pos hx]
    by_cases hi : i < w
    · simp [hi]
    · have : x.toNat < 2 ^ i := by
        have h2 : (2 : Nat) ^ w ≤ 2 ^ i := Nat.pow_le_pow_right (by decide) (by omega)
        have := natCast_two_pow w
        omega
      simp [hi, Nat.testBit_lt_two_pow this]
  · have ⟨e, hm⟩ := toTC_neg w x h0 (by omega)
    rw [e, if_neg hx, Nat.testBit_two_pow_sub_succ hm]

theorem ibit_land (a b : Int) (i : Nat) : ibit (Go.land a b) i = (ibit a i && ibit b i) := by
  unfold Go.land
  by_cases ha : 0 ≤ a <;> by_cases hb : 0 ≤ b <;> simp only [ha, hb, if_true, if_false]
  · simp [ibit, ha, hb]
  · have hle : ((a.toNat &&& (Go.bnot b).toNat : Nat) : Int) ≤ a := by
      have := @Nat.and_le_left a.toNat (Go.bnot b).toNat; omega
    have e : a - ((a.toNat &&& (Go.bnot b).toNat : Nat) : Int) = ((a.toNat - (a.toNat &&& (Go.bnot b).toNat) : Nat) : Int) := by omega
    rw [e]
    simp [ibit, ha, hb, testBit_sub_and]
  · have hle : ((b.toNat &&& (Go.bnot a).toNat : Nat) : Int) ≤ b := by
      have := @Nat.and_le_left b.toNat (Go.bnot a).toNat; omega
    have e : b - ((b.toNat &&& (Go.bnot a).toNat : Nat) : Int) = ((b.toNat - (b.toNat &&& (Go.bnot a).toNat) : Nat) : Int) := by omega
    rw [e]
    simp [ibit, ha, hb, testBit_sub_and, Bool.and_comm]
  · have hn : ¬ (0 ≤ Go.bnot (((Go.bnot a).toNat ||| (Go.bnot b).toNat : Nat) : Int)) := by unfold Go.bnot; omega
    have e : Go.bnot (Go.bnot (((Go.bnot a).toNat ||| (Go.bnot b).toNat : Nat) : Int)) = (((Go.bnot a).toNat ||| (Go.bnot b).toNat : Nat) : Int) := by unfold Go.bnot; omega
    simp [ibit, ha, hb, hn, e]

theorem ibit_nat (n i : Nat) : ibit (n : Int) i = n.testBit i := by
  simp [ibit]

theorem ibit_bnot_nat (n i : Nat) : ibit (Go.bnot (n : Int)) i = !n.testBit i := by
  have hn : ¬ (0 ≤ Go.bnot (n : Int)) := by unfold Go.bnot; omega
  have e : Go.bnot (Go.bnot (n : Int)) = (n : Int) := by unfold Go.bnot; omega
  simp [ibit, hn, e]

theorem ibit_nonneg (a : Int) (h : 0 ≤ a) (i : Nat) : ibit a i = a.toNat.testBit i := by simp [ibit, h]
theorem ibit_neg (a : Int) (h : ¬ 0 ≤ a) (i : Nat) : ibit a i = !(Go.bnot a).toNat.testBit i := by simp [ibit, h]

theorem bnot_toNat_cast (b : Int) (h : ¬ 0 ≤ b) : Go.bnot b = ((Go.bnot b).toNat : Int) := by
  unfold Go.bnot; omega

theorem sub_and_cast (x y : Nat) : (x : Int) - ((x &&& y : Nat) : Int) = ((x - (x &&& y) : Nat) : Int) := by
  have := @Nat.and_le_left x y; omega


theorem exists_neg (a : Int) (h : ¬ 0 ≤ a) : ∃ m : Nat, a = -(m : Int) - 1 := ⟨(-a - 1).toNat, by omega⟩
@[simp] theorem bnot_negm (m : Nat) : Go.bnot (-(m : Int) - 1) = (m : Int) := by unfold Go.bnot; omega
@[simp] theorem negm_not_nonneg (m : Nat) : ¬ (0 ≤ -(m : Int) - 1) := by omega
theorem bnot_nat (m : Nat) : Go.bnot (m : Int) = -(m : Int) - 1 := rfl
theorem ibit_negm (m i : Nat) : ibit (-(m : Int) - 1) i = !m.testBit i := by
  unfold ibit; rw [if_neg (negm_not_nonneg m), bnot_negm, Int.toNat_natCast]

theorem ibit_lor (a b : Int) (i : Nat) : ibit (Go.lor a b) i = (ibit a i || ibit b i) := by
  unfold Go.lor
  by_cases ha : 0 ≤ a <;> by_cases hb : 0 ≤ b <;> simp only [ha, hb, if_true, if_false]
  · simp [ibit, ha, hb]
  · obtain ⟨m, rfl⟩ := exists_neg b hb
    simp only [bnot_negm, Int.toNat_natCast, sub_and_cast, bnot_nat, ibit_negm, testBit_sub_and, ibit_nonneg a ha]
    cases a.toNat.testBit i <;> cases m.testBit i <;> rfl
  · obtain ⟨m, rfl⟩ := exists_neg a ha
    simp only [bnot_negm, Int.toNat_natCast, sub_and_cast, bnot_nat, ibit_negm, testBit_sub_and, ibit_nonneg b hb]
    cases b.toNat.testBit i <;> cases m.testBit i <;> rfl
  · obtain ⟨m, rfl⟩ := exists_neg a ha
    obtain ⟨k, rfl⟩ := exists_neg b hb
    simp only [bnot_negm, Int.toNat_natCast, bnot_nat, ibit_negm, Nat.testBit_and]
    cases k.testBit i <;> cases m.testBit i <;> rfl

theorem ibit_xor (a b : Int) (i : Nat) : ibit (Go.xor a b) i = (ibit a i ^^ ibit b i) := by
  unfold Go.xor
  by_cases ha : 0 ≤ a <;> by_cases hb : 0 ≤ b <;> simp only [ha, hb, if_true, if_false]
  · simp [ibit, ha, hb]
  · obtain ⟨m, rfl⟩ := exists_neg b hb
    simp only [bnot_negm, Int.toNat_natCast, bnot_nat, ibit_negm, Nat.testBit_xor, ibit_nonneg a ha]
    cases a.toNat.testBit i <;> cases m.testBit i <;> rfl
  · obtain ⟨m, rfl⟩ := exists_neg a ha
    simp only [bnot_negm, Int.toNat_natCast, bnot_nat, ibit_negm, Nat.testBit_xor, ibit_nonneg b hb]
    cases b.toNat.testBit i <;> cases m.testBit i <;> rfl
  · obtain ⟨m, rfl⟩ := exists_neg a ha
    obtain ⟨k, rfl⟩ := exists_neg b hb
    simp only [bnot_negm, Int.toNat_natCast, ibit_nat, ibit_negm, Nat.testBit_xor]
    cases k.testBit i <;> cases m.testBit i <;> rfl

/-! ranges: the result of a bit operation on two numbers of `[-2^w, 2^w)` lies in `[-2^w, 2^w)`, and is
    non-negative when both are -/
theorem bitop_range (w : Nat) (a b : Int) (ha0 : -(2:Int)^w ≤ a) (ha1 : a < (2:Int)^w) (hb0 : -(2:Int)^w ≤ b) (hb1 : b < (2:Int)^w) :
    (-(2:Int)^w ≤ Go.land a b ∧ Go.land a b < (2:Int)^w ∧ (0 ≤ a → 0 ≤ b → 0 ≤ Go.land a b)) ∧
    (-(2:Int)^w ≤ Go.lor a b ∧ Go.lor a b < (2:Int)^w ∧ (0 ≤ a → 0 ≤ b → 0 ≤ Go.lor a b)) ∧
    (-(2:Int)^w ≤ Go.xor a b ∧ Go.xor a b < (2:Int)^w ∧ (0 ≤ a → 0 ≤ b → 0 ≤ Go.xor a b)) := by
  have hc : ((2 ^ w : Nat) : Int) = (2 : Int) ^ w := by simp
  unfold Go.land Go.lor Go.xor
  by_cases ha : 0 ≤ a <;> by_cases hb : 0 ≤ b <;> simp only [ha, hb, if_true, if_false]
  · have h1 : a.toNat < 2 ^ w := by omega
    have h2 : b.toNat < 2 ^ w := by omega
    have := @Nat.and_le_left a.toNat b.toNat
    have := Nat.or_lt_two_pow h1 h2
    have := Nat.xor_lt_two_pow h1 h2
    refine ⟨⟨?_, ?_, ?_⟩, ⟨?_, ?_, ?_⟩, ?_, ?_, ?_⟩ <;> intros <;> first | contradiction | omega
  · obtain ⟨m, rfl⟩ := exists_neg b hb
    simp only [bnot_negm, Int.toNat_natCast]
    simp only [Go.bnot]
    have h1 : a.toNat < 2 ^ w := by omega
    have h2 : m < 2 ^ w := by omega
    have := @Nat.and_le_left a.toNat m
    have := @Nat.and_le_left m a.toNat
    have := Nat.xor_lt_two_pow h1 h2
    refine ⟨⟨?_, ?_, ?_⟩, ⟨?_, ?_, ?_⟩, ?_, ?_, ?_⟩ <;> intros <;> first | contradiction | omega
  · obtain ⟨m, rfl⟩ := exists_neg a ha
    simp only [bnot_negm, Int.toNat_natCast]
    simp only [Go.bnot]
    have h1 : b.toNat < 2 ^ w := by omega
    have h2 : m < 2 ^ w := by omega
    have := @Nat.and_le_left b.toNat m
    have := @Nat.and_le_left m b.toNat
    have := Nat.xor_lt_two_pow h2 h1
    refine ⟨⟨?_, ?_, ?_⟩, ⟨?_, ?_, ?_⟩, ?_, ?_, ?_⟩ <;> intros <;> first | contradiction | omega
  · obtain ⟨m, rfl⟩ := exists_neg a ha
    obtain ⟨k, rfl⟩ := exists_neg b hb
    simp only [bnot_negm, Int.toNat_natCast]
    simp only [Go.bnot]
    have h1 : k < 2 ^ w := by omega
    have h2 : m < 2 ^ w := by omega
    have := @Nat.and_le_left m k
    have := Nat.or_lt_two_pow h2 h1
    have := Nat.xor_lt_two_pow h2 h1
    refine ⟨⟨?_, ?_, ?_⟩, ⟨?_, ?_, ?_⟩, ?_, ?_, ?_⟩ <;> intros <;> first | contradiction | omega


/-- the `w`-bit pattern of a bit operation is the bit operation on the `w`-bit patterns -/
theorem toTC_bitop (w : Nat) (a b : Int) (ha0 : -(2:Int)^w ≤ a) (ha1 : a < (2:Int)^w) (hb0 : -(2:Int)^w ≤ b) (hb1 : b < (2:Int)^w) :
    toTC w (Go.land a b) = toTC w a &&& toTC w b ∧ toTC w (Go.lor a b) = toTC w a ||| toTC w b ∧
    toTC w (Go.xor a b) = toTC w a ^^^ toTC w b := by
  have r := bitop_range w a b ha0 ha1 hb0 hb1
  refine ⟨?_, ?_, ?_⟩ <;> apply Nat.eq_of_testBit_eq <;> intro i
  · rw [Nat.testBit_and, tc_testBit w _ r.1.1 r.1.2.1, tc_testBit w a ha0 ha1, tc_testBit w b hb0 hb1, ibit_land]
    cases decide (i < w) <;> cases ibit a i <;> cases ibit b i <;> rfl
  · rw [Nat.testBit_or, tc_testBit w _ r.2.1.1 r.2.1.2.1, tc_testBit w a ha0 ha1, tc_testBit w b hb0 hb1, ibit_lor]
    cases decide (i < w) <;> cases ibit a i <;> cases ibit b i <;> rfl
  · rw [Nat.testBit_xor, tc_testBit w _ r.2.2.1 r.2.2.2.1, tc_testBit w a ha0 ha1, tc_testBit w b hb0 hb1, ibit_xor]
    cases decide (i < w) <;> cases ibit a i <;> cases ibit b i <;> rfl

theorem two_pow_pred (n : Nat) (hn : 0 < n) : (2 : Int) ^ n = 2 * (2 : Int) ^ (n - 1) := by
  obtain ⟨k, rfl⟩ : ∃ k, n = k + 1 := ⟨n - 1, by omega⟩
  rw [Int.pow_succ]; simp; omega

/-- reading the pattern of an in-range signed value back gives the value -/
theorem ofTCS_toTC (n : Nat) (hn : 0 < n) (r : Int) (h0 : -(2:Int)^(n-1) ≤ r) (h1 : r < (2:Int)^(n-1)) :
    ofTCS n (toTC n r) = r := by
  have hp := two_pow_pred n hn
  have hc : ((2 ^ (n - 1) : Nat) : Int) = (2 : Int) ^ (n - 1) := by simp
  have hpos : (0 : Int) < (2 : Int) ^ (n - 1) := Int.pow_pos (by decide)
  unfold ofTCS
  by_cases hr : 0 ≤ r
  · rw [toTC_nonneg n r hr (by omega)]
    have : r.toNat < 2 ^ (n - 1) := by omega
    rw [if_pos this]; omega
  · have ⟨e, hm⟩ := toTC_neg n r (by omega) (by omega)
    rw [e]
    have hc2 : ((2 ^ n : Nat) : Int) = (2 : Int) ^ n := by simp
    have hb : (Go.bnot r).toNat < 2 ^ (n - 1) := by unfold Go.bnot; omega
    have hb' : ((Go.bnot r).toNat : Int) = -r - 1 := by unfold Go.bnot; omega
    have : ¬ (2 ^ n - ((Go.bnot r).toNat + 1) < 2 ^ (n - 1)) := by omega
    rw [if_neg this]; omega

theorem toTC_unsigned (n : Nat) (r : Int) (h0 : 0 ≤ r) (h1 : r < (2:Int)^n) : ((toTC n r : Nat) : Int) = r := by
  rw [toTC_nonneg n r h0 h1]; omega

/-- C14 core, signed width `n`: Go's `& | ^` on in-range signed values = the operation on the `n`-bit
    two's-complement patterns, read back signed -/
theorem bitop_signed (n : Nat) (hn : 0 < n) (a b : Int) (ha : inRange (.int n) a) (hb : inRange (.int n) b) :
    Go.land a b = bitopAt true n .and a b ∧ Go.lor a b = bitopAt true n .or a b ∧ Go.xor a b = bitopAt true n .xor a b := by
  simp only [inRange] at ha hb
  have hp := two_pow_pred n hn
  have hpos : (0 : Int) < (2 : Int) ^ (n - 1) := Int.pow_pos (by decide)
  have r := bitop_range (n - 1) a b ha.1 (by omega) hb.1 (by omega)
  have t := toTC_bitop n a b (by omega) (by omega) (by omega) (by omega)
  simp only [bitopAt, BitOp.nat, if_true]
  rw [← t.1, ← t.2.1, ← t.2.2]
  exact ⟨(ofTCS_toTC n hn _ r.1.1 r.1.2.1).symm, (ofTCS_toTC n hn _ r.2.1.1 r.2.1.2.1).symm,
    (ofTCS_toTC n hn _ r.2.2.1 r.2.2.2.1).symm⟩

/-- C14 core, unsigned width `n` -/
theorem bitop_unsigned (n : Nat) (a b : Int) (ha0 : 0 ≤ a) (ha1 : a ≤ (2:Int)^n - 1) (hb0 : 0 ≤ b) (hb1 : b ≤ (2:Int)^n - 1) :
    Go.land a b = bitopAt false n .and a b ∧ Go.lor a b = bitopAt false n .or a b ∧ Go.xor a b = bitopAt false n .xor a b := by
  have hpos : (0 : Int) < (2 : Int) ^ n := Int.pow_pos (by decide)
  have r := bitop_range n a b (by omega) (by omega) (by omega) (by omega)
  have t := toTC_bitop n a b (by omega) (by omega) (by omega) (by omega)
  simp only [bitopAt, BitOp.nat, Bool.false_eq_true, if_false]
  rw [← t.1, ← t.2.1, ← t.2.2]
  exact ⟨(toTC_unsigned n _ (r.1.2.2 ha0 hb0) r.1.2.1).symm, (toTC_unsigned n _ (r.2.1.2.2 ha0 hb0) r.2.1.2.1).symm,
    (toTC_unsigned n _ (r.2.2.2.2 ha0 hb0) r.2.2.2.1).symm⟩



theorem pow_le_pow_int (m k : Nat) (h : m ≤ k) : (2 : Int) ^ m ≤ (2 : Int) ^ k := by
  have := Nat.pow_le_pow_right (show 0 < 2 by decide) h
  have h1 : ((2 ^ m : Nat) : Int) = (2 : Int) ^ m := by simp
  have h2 : ((2 ^ k : Nat) : Int) = (2 : Int) ^ k := by simp
  omega

/-- `(x + P) mod 2P - P`, the signed reduction, in terms of `x mod 2P` -/
theorem signed_reduce (P x : Int) (hP : 0 < P) :
    (x + P) % (2 * P) - P = if x % (2 * P) < P then x % (2 * P) else x % (2 * P) - 2 * P := by
  have h0 := Int.emod_nonneg x (show 2 * P ≠ 0 by omega)
  have h1 := Int.emod_lt_of_pos x (show 0 < 2 * P by omega)
  have ex := Int.emod_add_mul_ediv x (2 * P)
  generalize x % (2 * P) = r at *
  generalize x / (2 * P) = q at *
  subst ex
  by_cases hr : r < P
  · rw [if_pos hr]
    have : r + 2 * P * q + P = (r + P) + 2 * P * q := by omega
    rw [this, Int.add_mul_emod_self_left, Int.emod_eq_of_lt (by omega) (by omega)]; omega
  · rw [if_neg hr]
    have : r + 2 * P * q + P = (r - P) + 2 * P * (q + 1) := by rw [Int.mul_add]; omega
    rw [this, Int.add_mul_emod_self_left, Int.emod_eq_of_lt (by omega) (by omega)]; omega

/-- `wrapS` (the generated code's reduction into a signed width) is the spec's `wrapTo true` -/
theorem wrapS_eq (n : Nat) (hn : 0 < n) (x : Int) : wrapS n x = wrapTo true n x := by
  have hp := two_pow_pred n hn
  have hpos : (0 : Int) < (2 : Int) ^ (n - 1) := Int.pow_pos (by decide)
  have hc : ((2 ^ (n - 1) : Nat) : Int) = (2 : Int) ^ (n - 1) := by simp
  have sr := signed_reduce ((2 : Int) ^ (n - 1)) x hpos
  rw [← hp] at sr
  have h0 := Int.emod_nonneg x (show (2 : Int) ^ n ≠ 0 by omega)
  have ht : ((toTC n x : Nat) : Int) = x % (2 : Int) ^ n := by unfold toTC; omega
  simp only [wrapS, wrapTo, ofTCS, if_true]
  rw [sr]
  by_cases h : toTC n x < 2 ^ (n - 1)
  · rw [if_pos h, if_pos (by omega), ht]
  · rw [if_neg h, if_neg (by omega), ht]

theorem wrapU_eq (n : Nat) (x : Int) : wrapU n x = wrapTo false n x := by
  have hpos : (0 : Int) < (2 : Int) ^ n := Int.pow_pos (by decide)
  have h0 := Int.emod_nonneg x (show (2 : Int) ^ n ≠ 0 by omega)
  simp only [wrapU, wrapTo, toTC, Bool.false_eq_true, if_false]; omega

/-- shifting left by at least the width leaves nothing -/
theorem wrapTo_shl_ge (s : Bool) (n : Nat) (v : Int) (k : Nat) (hk : n ≤ k) : wrapTo s n (v * (2 : Int) ^ k) = 0 := by
  have e : v * (2 : Int) ^ k = (2 : Int) ^ n * (v * (2 : Int) ^ (k - n)) := by
    have : k = n + (k - n) := by omega
    rw [this, Int.pow_add]; simp [Int.mul_left_comm]
  have hz : toTC n (v * (2 : Int) ^ k) = 0 := by
    unfold toTC; rw [e, Int.mul_emod_right]; rfl
  have hpos : 0 < 2 ^ (n - 1) := Nat.two_pow_pos _
  cases s <;> simp [wrapTo, hz, ofTCS, hpos]

theorem shl_native_s (n : Nat) (hn : 0 < n) (v o : Int) (ho : 0 ≤ o) :
    wrapS n (Go.shl n v o) = wrapTo true n (v * (2 : Int) ^ o.toNat) := by
  rw [wrapS_eq n hn]; unfold Go.shl
  by_cases h : o ≥ n
  · rw [if_pos h, wrapTo_shl_ge true n v o.toNat (by omega)]; simp [wrapTo, toTC, ofTCS, Nat.two_pow_pos]
  · rw [if_neg h]

theorem shl_native_u (n : Nat) (v o : Int) (ho : 0 ≤ o) :
    wrapU n (Go.shl n v o) = wrapTo false n (v * (2 : Int) ^ o.toNat) := by
  rw [wrapU_eq n]; unfold Go.shl
  by_cases h : o ≥ n
  · rw [if_pos h, wrapTo_shl_ge false n v o.toNat (by omega)]; simp [wrapTo, toTC]
  · rw [if_neg h]

/-- floor division of a number of `[-2^n, 2^n)` by a power of two at least `2^n` -/
theorem ediv_pow_ge (n k : Nat) (hk : n ≤ k) (v : Int) (h0 : -(2 : Int) ^ n ≤ v) (h1 : v < (2 : Int) ^ n) :
    v / (2 : Int) ^ k = if v < 0 then -1 else 0 := by
  have hle := pow_le_pow_int n k hk
  have hpos : (0 : Int) < (2 : Int) ^ k := Int.pow_pos (by decide)
  by_cases hv : v < 0
  · rw [if_pos hv]
    have : v = (v + (2 : Int) ^ k) + (2 : Int) ^ k * (-1) := by omega
    have := (Int.ediv_emod_unique (a := v) (b := (2 : Int) ^ k) (r := v + (2 : Int) ^ k) (q := -1) hpos).2
      ⟨by omega, by omega, by omega⟩
    exact this.1
  · rw [if_neg hv]; exact Int.ediv_eq_zero_of_lt (by omega) (by omega)

theorem shr_native (n : Nat) (v o : Int) (ho : 0 ≤ o) (h0 : -(2 : Int) ^ n ≤ v) (h1 : v < (2 : Int) ^ n) :
    Go.shr n v o = v / (2 : Int) ^ o.toNat := by
  unfold Go.shr
  by_cases h : o ≥ n
  · rw [if_pos h, ediv_pow_ge n o.toNat (by omega) v h0 h1]
  · rw [if_neg h]



theorem uint64_of (o : Int) (h : Go.isUint64 o) : Go.uint64 o = o := by
  unfold Go.isUint64 at h; unfold Go.uint64
  have : o.natAbs % 2 ^ 64 = o.natAbs := Nat.mod_eq_of_lt (by omega)
  rw [this]; omega

theorem truncateWords_nonneg (x w : Int) (n : Nat) (hw : 64 * w.toNat = n) (h : 0 ≤ x) :
    Go.truncateWords x w = x % (2 : Int) ^ n := by
  unfold Go.truncateWords
  rw [if_neg (by omega), hw]
  have : ((x.natAbs % 2 ^ n : Nat) : Int) = (x.natAbs : Int) % ((2 ^ n : Nat) : Int) := Int.natCast_emod _ _
  rw [this]; simp only [Int.natCast_pow]
  have : (x.natAbs : Int) = x := by omega
  rw [this]; rfl

theorem bigRsh_eq (v k : Int) : Go.bigRsh v k = v / (2 : Int) ^ k.toNat := by
  unfold Go.bigRsh; rw [Int.shiftRight_eq_div_pow]; simp

/-- `UInt128/256`, `Word128/256` `<<` -/
theorem shl_big_u (N w : Int) (n : Nat) (hN : N = (n : Int)) (hw : 64 * w.toNat = n) (hn : N ≤ 2 ^ 64) (v o : Int) (hv : 0 ≤ v) :
    (if o < 0 then Except.error NumErr.negativeShift
     else if (¬ Go.isUint64 o) ∨ (Go.uint64 o ≥ N) then Except.ok 0
     else Except.ok (Go.truncateWords (Go.bigLsh v (Go.uint64 o)) w)) =
    (if o < 0 then Except.error NumErr.negativeShift else Except.ok (wrapTo false n (v * (2 : Int) ^ o.toNat))) := by
  subst hN
  by_cases ho : o < 0
  · rw [if_pos ho, if_pos ho]
  · rw [if_neg ho, if_neg ho]
    by_cases hu : Go.isUint64 o
    · rw [uint64_of o hu]
      by_cases hk : o ≥ (n : Int)
      · rw [if_pos (Or.inr hk), wrapTo_shl_ge false n v o.toNat (by omega)]
      · rw [if_neg (by simp [hu, hk])]
        have hp : (0 : Int) ≤ v * (2 : Int) ^ o.toNat := Int.mul_nonneg hv (Int.le_of_lt (Int.pow_pos (by decide)))
        unfold Go.bigLsh
        rw [truncateWords_nonneg _ w n hw hp]
        simp only [wrapTo, toTC, Bool.false_eq_true, if_false]
        have := Int.emod_nonneg (v * (2 : Int) ^ o.toNat) (show (2 : Int) ^ n ≠ 0 from Int.ne_of_gt (Int.pow_pos (by decide)))
        congr 1; omega
    · rw [if_pos (Or.inl hu)]
      have : n ≤ o.toNat := by unfold Go.isUint64 at hu; omega
      rw [wrapTo_shl_ge false n v o.toNat this]

/-- `Int128/256` `<<` (after the fix f845962: the sign is read from bit `n-1` of the `n`-bit pattern) -/
theorem shl_big_s (N w idx : Int) (n : Nat) (hn0 : 0 < n) (hN : N = (n : Int)) (hw : 64 * w.toNat = n) (hn : N ≤ 2 ^ 64)
    (hidx : idx = (n : Int) - 1) (v o : Int) :
    (if o < 0 then Except.error NumErr.negativeShift
     else if (¬ Go.isUint64 o) ∨ (Go.uint64 o ≥ N) then Except.ok 0
     else if Go.bit (Go.truncateWords (Go.bigLsh (Go.toTwosComplement v N) (Go.uint64 o)) w) idx ≠ 0 then
       Except.ok (Go.truncateWords (Go.bigLsh (Go.toTwosComplement v N) (Go.uint64 o)) w - Go.bigLsh 1 N)
     else Except.ok (Go.truncateWords (Go.bigLsh (Go.toTwosComplement v N) (Go.uint64 o)) w)) =
    (if o < 0 then Except.error NumErr.negativeShift else Except.ok (wrapTo true n (v * (2 : Int) ^ o.toNat))) := by
  subst hN hidx
  by_cases ho : o < 0
  · rw [if_pos ho, if_pos ho]
  · rw [if_neg ho, if_neg ho]
    by_cases hu : Go.isUint64 o
    · rw [uint64_of o hu]
      by_cases hk : o ≥ (n : Int)
      · rw [if_pos (Or.inr hk), wrapTo_shl_ge true n v o.toNat (by omega)]
      · rw [if_neg (by simp [hu, hk])]
        have hpn : (0 : Int) < (2 : Int) ^ n := Int.pow_pos (by decide)
        have hpk : (0 : Int) < (2 : Int) ^ o.toNat := Int.pow_pos (by decide)
        have hu0 : 0 ≤ v % (2 : Int) ^ n := Int.emod_nonneg v (Int.ne_of_gt hpn)
        have hT : Go.truncateWords (Go.bigLsh (Go.toTwosComplement v (n : Int)) o) w = (v * (2 : Int) ^ o.toNat) % (2 : Int) ^ n := by
          unfold Go.bigLsh Go.toTwosComplement
          rw [truncateWords_nonneg _ w n hw (Int.mul_nonneg (by simpa using hu0) (Int.le_of_lt hpk))]
          simp only [Int.toNat_natCast]
          rw [Int.mul_emod, Int.emod_emod, ← Int.mul_emod]
        rw [hT]
        have ht0 := Int.emod_nonneg (v * (2 : Int) ^ o.toNat) (Int.ne_of_gt hpn)
        have ht1 := Int.emod_lt_of_pos (v * (2 : Int) ^ o.toNat) hpn
        have hc : ((toTC n (v * (2 : Int) ^ o.toNat) : Nat) : Int) = (v * (2 : Int) ^ o.toNat) % (2 : Int) ^ n := by
          unfold toTC; omega
        generalize (v * (2 : Int) ^ o.toNat) % (2 : Int) ^ n = t at *
        have hp := two_pow_pred n hn0
        have hP : (0 : Int) < (2 : Int) ^ (n - 1) := Int.pow_pos (by decide)
        have hcP : ((2 ^ (n - 1) : Nat) : Int) = (2 : Int) ^ (n - 1) := by simp
        have hbit : Go.bit t ((n : Int) - 1) ≠ 0 ↔ (2 : Int) ^ (n - 1) ≤ t := by
          unfold Go.bit
          have e : ((n : Int) - 1).toNat = n - 1 := by omega
          rw [e, Int.shiftRight_eq_div_pow]; simp only [Int.natCast_pow, Int.cast_ofNat_Int]
          by_cases hlt : t < (2 : Int) ^ (n - 1)
          · rw [Int.ediv_eq_zero_of_lt ht0 hlt]; simp; omega
          · have : t / (2 : Int) ^ (n - 1) = 1 := by
              have := (Int.ediv_emod_unique (a := t) (b := (2 : Int) ^ (n - 1)) (r := t - (2 : Int) ^ (n - 1)) (q := 1) hP).2
                ⟨by omega, by omega, by omega⟩
              exact this.1
            rw [this]; simp; omega
        have hl : Go.bigLsh 1 (n : Int) = (2 : Int) ^ n := by unfold Go.bigLsh; simp
        simp only [wrapTo, ofTCS, if_true]
        by_cases hb : (2 : Int) ^ (n - 1) ≤ t
        · rw [if_pos (hbit.2 hb), if_neg (by omega), hl, hc]
        · rw [if_neg (fun h => hb (hbit.1 h)), if_pos (by omega), hc]
    · rw [if_pos (Or.inl hu)]
      have : n ≤ o.toNat := by unfold Go.isUint64 at hu; omega
      rw [wrapTo_shl_ge true n v o.toNat this]

/-- `Int128/256`, `UInt128/256`, `Word128/256` `>>` -/
theorem shr_big (n : Nat) (hn : (n : Int) ≤ 2 ^ 64) (v o : Int) (h0 : -(2 : Int) ^ n ≤ v) (h1 : v < (2 : Int) ^ n) :
    (if o < 0 then Except.error NumErr.negativeShift
     else if ¬ Go.isUint64 o then (if v < 0 then Except.ok (-1) else Except.ok 0)
     else Except.ok (Go.bigRsh v (Go.uint64 o))) =
    (if o < 0 then Except.error NumErr.negativeShift else Except.ok (v / (2 : Int) ^ o.toNat)) := by
  by_cases ho : o < 0
  · rw [if_pos ho, if_pos ho]
  · rw [if_neg ho, if_neg ho]
    by_cases hu : Go.isUint64 o
    · rw [if_neg (by simp [hu]), uint64_of o hu, bigRsh_eq]
    · rw [if_pos hu]
      have : n ≤ o.toNat := by unfold Go.isUint64 at hu; omega
      rw [ediv_pow_ge n o.toNat this v h0 h1]
      by_cases hv : v < 0 <;> simp [hv]

theorem shr_big_u (n : Nat) (hn : (n : Int) ≤ 2 ^ 64) (v o : Int) (h0 : 0 ≤ v) (h1 : v < (2 : Int) ^ n) :
    (if o < 0 then Except.error NumErr.negativeShift
     else if ¬ Go.isUint64 o then Except.ok 0
     else Except.ok (Go.bigRsh v (Go.uint64 o))) =
    (if o < 0 then Except.error NumErr.negativeShift else Except.ok (v / (2 : Int) ^ o.toNat)) := by
  have hpos : (0 : Int) < (2 : Int) ^ n := Int.pow_pos (by decide)
  rw [← shr_big n hn v o (by omega) h1, if_neg (show ¬ v < 0 by omega)]


/-- `Int`, `UInt` `<<` -/
theorem shl_unbounded (v o : Int) :
    (if o < 0 then Except.error NumErr.negativeShift
     else if ¬ Go.isUint64 o then Except.error NumErr.overflow
     else Except.ok (Go.bigLsh v (Go.uint64 o))) =
    (if o < 0 then Except.error NumErr.negativeShift
     else if o < (2 : Int) ^ 64 then Except.ok (v * (2 : Int) ^ o.toNat) else Except.error NumErr.overflow) := by
  by_cases ho : o < 0
  · rw [if_pos ho, if_pos ho]
  · rw [if_neg ho, if_neg ho]
    by_cases hu : Go.isUint64 o
    · rw [if_neg (by simp [hu]), uint64_of o hu, if_pos hu.2]; rfl
    · rw [if_pos hu, if_neg (by unfold Go.isUint64 at hu; omega)]

/-- `Int`, `UInt` `>>` -/
theorem shr_unbounded (v o : Int) :
    (if o < 0 then Except.error NumErr.negativeShift
     else if ¬ Go.isUint64 o then Except.error NumErr.overflow
     else Except.ok (Go.bigRsh v (Go.uint64 o))) =
    (if o < 0 then Except.error NumErr.negativeShift
     else if o < (2 : Int) ^ 64 then Except.ok (v / (2 : Int) ^ o.toNat) else Except.error NumErr.overflow) := by
  by_cases ho : o < 0
  · rw [if_pos ho, if_pos ho]
  · rw [if_neg ho, if_neg ho]
    by_cases hu : Go.isUint64 o
    · rw [if_neg (by simp [hu]), uint64_of o hu, if_pos hu.2, bigRsh_eq]
    · rw [if_pos hu, if_neg (by unfold Go.isUint64 at hu; omega)]

/-- a value of a type of width `n` lies in `[-2^n, 2^n)` -/
theorem inRange_wide (T : Ty) (n : Nat) (hT : bitsOf? T = some n) (a : Int) (ha : inRange T a) :
    -(2 : Int) ^ n ≤ a ∧ a < (2 : Int) ^ n := by
  have hpos : (0 : Int) < (2 : Int) ^ n := Int.pow_pos (by decide)
  have hle := pow_le_pow_int (n - 1) n (by omega)
  cases T <;> simp only [bitsOf?, Option.some.injEq, reduceCtorEq] at hT <;> subst hT <;> simp only [inRange] at ha <;> omega

/-- the driver's executable `<<` spec (no `2^k` for `k ≥ n`) is the spec -/
theorem specShlExec_eq (T : Ty) (a k : Int) : specShlExec T a k = specShl T a k := by
  unfold specShlExec
  by_cases hk : k < 0
  · rw [if_pos hk]; unfold specShl; rw [if_pos hk]
  · rw [if_neg hk]
    cases T with
    | int n =>
      simp only [bitsOf?]
      by_cases h : k ≥ (n : Int)
      · rw [if_pos h]; unfold specShl; rw [if_neg hk]; simp only []; rw [wrapTo_shl_ge true n a k.toNat (by omega)]
      · rw [if_neg h]
    | uint n =>
      simp only [bitsOf?]
      by_cases h : k ≥ (n : Int)
      · rw [if_pos h]; unfold specShl; rw [if_neg hk]; simp only []; rw [wrapTo_shl_ge false n a k.toNat (by omega)]
      · rw [if_neg h]
    | word n =>
      simp only [bitsOf?]
      by_cases h : k ≥ (n : Int)
      · rw [if_pos h]; unfold specShl; rw [if_neg hk]; simp only []; rw [wrapTo_shl_ge false n a k.toNat (by omega)]
      · rw [if_neg h]
    | bigInt =>
      simp only [bitsOf?]
      by_cases h : k < (2 : Int) ^ 64
      · rw [if_pos h]
      · rw [if_neg h]; unfold specShl; rw [if_neg hk]; simp only []; rw [if_neg h]
    | bigUInt =>
      simp only [bitsOf?]
      by_cases h : k < (2 : Int) ^ 64
      · rw [if_pos h]
      · rw [if_neg h]; unfold specShl; rw [if_neg hk]; simp only []; rw [if_neg h]

/-- the driver's executable `>>` spec is the spec, on operands of the type -/
theorem specShrExec_eq (T : Ty) (a k : Int) (ha : inRange T a) : specShrExec T a k = specShr T a k := by
  unfold specShrExec
  by_cases hk : k < 0
  · rw [if_pos hk]; unfold specShr; rw [if_pos hk]
  · rw [if_neg hk]
    cases hT : bitsOf? T with
    | some n =>
      simp only []
      by_cases h : k ≥ (n : Int)
      · rw [if_pos h]
        have r := inRange_wide T n hT a ha
        have e := ediv_pow_ge n k.toNat (by omega) a r.1 r.2
        unfold specShr; rw [if_neg hk]
        cases T <;> simp only [bitsOf?, reduceCtorEq] at hT <;> simp only [] <;> rw [e]
      · rw [if_neg h]
    | none =>
      simp only []
      by_cases h : k < (2 : Int) ^ 64
      · rw [if_pos h]
      · rw [if_neg h]; unfold specShr; rw [if_neg hk]
        cases T <;> simp only [bitsOf?, reduceCtorEq] at hT <;> simp only [] <;> rw [if_neg h]

/-- the width chosen by the executable spec for the unbounded types holds both operands -/
theorem widthFor_fits (a b : Int) : 0 < widthFor a b ∧ inRange (.int (widthFor a b)) a ∧ inRange (.int (widthFor a b)) b := by
  have key : ∀ x : Int, ∀ w : Nat, x.natAbs.log2 + 2 ≤ w → inRange (.int w) x := by
    intro x w hw
    have h1 : x.natAbs < 2 ^ (x.natAbs.log2 + 1) := Nat.lt_log2_self
    have h2 := pow_le_pow_int (x.natAbs.log2 + 1) (w - 1) (by omega)
    have hc : ((2 ^ (x.natAbs.log2 + 1) : Nat) : Int) = (2 : Int) ^ (x.natAbs.log2 + 1) := by simp
    simp only [inRange]; omega
  unfold widthFor
  exact ⟨by omega, key a _ (Nat.le_max_left _ _), key b _ (Nat.le_max_right _ _)⟩

theorem widthFor_fits_u (a b : Int) (ha : 0 ≤ a) (hb : 0 ≤ b) : inRange (.uint (widthFor a b)) a ∧ inRange (.uint (widthFor a b)) b := by
  have ⟨h0, h1, h2⟩ := widthFor_fits a b
  have := pow_le_pow_int (widthFor a b - 1) (widthFor a b) (by omega)
  simp only [inRange] at *; omega

end Verif.Proofs.ArithBits
