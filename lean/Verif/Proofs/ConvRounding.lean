import Verif.Proofs.Conv
namespace Verif.Proofs.Conv
open Verif.Model.NumT Verif.Model.Convert Verif.Spec.Conv

theorem uround_nonneg (r : Rounding) (a : Int) (h0 : 0 ≤ a) : 0 ≤ uround r a := by
  rw [uround_eq r a h0]
  have : 0 ≤ a / 10000000000000000 := by omega
  cases r <;> simp only [] <;> (try split_ifs) <;> omega

theorem roundQ_neg (r : Rounding) (p q : Int) (hq : 0 < q) : roundQ r (-p) q = - roundQ r p q := by
  have hm0 : (0 : Int) ≤ ((Int.tmod p q).natAbs : Int) := by omega
  have hp0 : p = 0 → ((Int.tmod p q).natAbs : Int) = 0 := by intro h; subst h; simp
  cases r <;> simp only [roundQ, Int.neg_tdiv, Int.neg_tmod, Int.natAbs_neg] <;>
    generalize Int.tdiv p q = t at * <;> generalize ((Int.tmod p q).natAbs : Int) = m at * <;>
    split_ifs <;> omega

theorem scaled_128 (src tgt : NumTy) (raw : Int) (r : Rounding)
    (hs : src = .fix128 ∨ src = .ufix128) (ht : tgt = .fix64 ∨ tgt = .ufix64) :
    scaled src tgt raw r = if 0 ≤ raw then uround r raw else - uround r (-raw) := by
  have e : scaled src tgt raw r = roundQ r (raw * 100000000) 1000000000000000000000000 := by
    rcases hs with rfl | rfl <;> rcases ht with rfl | rfl <;> simp [scaled, NumTy.fixed, NumTy.kind, NumTy.scale]
  rw [e]; split
  · rfl
  · rw [uround, Int.neg_mul, roundQ_neg _ _ _ (by decide), Int.neg_neg]

theorem fix_target_rounding_128 (src tgt : NumTy) (raw : Int) (r : Rounding) (h : src.inRange raw)
    (hs : src = .fix128 ∨ src = .ufix128) (ht : tgt = .fix64 ∨ tgt = .ufix64)
    (hz : raw ≠ 0 → scaled src tgt raw r ≠ 0) :
    sameOutcome (convert tgt src raw (some r)) (specConvert src tgt raw r) := by
  unfold sameOutcome specConvert
  rw [scaled_128 src tgt raw r hs ht] at hz ⊢
  have hlt : -(2:Int) ^ 127 ≤ raw ∧ raw < 2 ^ 128 := by
    rcases hs with rfl | rfl <;>
      simp [inRange_unfold, NumTy.minRaw, NumTy.maxRaw, NumTy.signed, NumTy.kind, NumTy.bits] at h <;> omega
  by_cases hneg : 0 ≤ raw
  · simp only [hneg, if_true] at hz ⊢
    have hl := libToUFix64_eq r raw hneg hlt.2 hz
    have hu := uround_nonneg r raw hneg
    generalize uround r raw = u at *
    have hnn : ¬ raw < 0 := by omega
    have habs : ((raw.natAbs : Nat) : Int) = raw := Int.natAbs_of_nonneg hneg
    rcases hs with rfl | rfl <;> rcases ht with rfl | rfl <;>
      simp only [convert, toFix64Rounding, toUFix64Rounding, libToFix64, hnn, habs, hl, if_false, decide_false,
        NumTy.isWord, NumTy.aboveMax, NumTy.belowMin, NumTy.maxRaw, NumTy.minRaw, NumTy.signed, NumTy.kind, NumTy.bits] <;>
      split_ifs <;> simp_all [handleConvErr, outcome, bind, Except.bind, wrapS] <;> (try split_ifs) <;> (try simp_all [outcome]) <;> (try omega)
  · have hsrc : src = .fix128 := by
      rcases hs with rfl | rfl
      · rfl
      · simp [inRange_unfold, NumTy.minRaw, NumTy.maxRaw, NumTy.signed, NumTy.kind, NumTy.bits] at h; omega
    subst hsrc
    have ha0 : 0 ≤ -raw := by omega
    simp only [hneg, if_false] at hz ⊢
    have hz' : -raw ≠ 0 → uround r (-raw) ≠ 0 := by
      intro _ h0; exact hz (by omega) (by omega)
    have hl := libToUFix64_eq r (-raw) ha0 (by omega) hz'
    have hu := uround_nonneg r (-raw) ha0
    have hu0 : uround r (-raw) ≠ 0 := hz' (by omega)
    generalize uround r (-raw) = u at *
    have hnn : raw < 0 := by omega
    have habs : ((raw.natAbs : Nat) : Int) = -raw := by omega
    rcases ht with rfl | rfl <;>
      simp only [convert, toFix64Rounding, toUFix64Rounding, libToFix64, hnn, habs, hl, if_true, decide_true,
        NumTy.isWord, NumTy.aboveMax, NumTy.belowMin, NumTy.maxRaw, NumTy.minRaw, NumTy.signed, NumTy.kind, NumTy.bits] <;>
      split_ifs <;> simp_all [handleConvErr, outcome, bind, Except.bind, wrapS] <;> (try split_ifs) <;> (try simp_all [outcome]) <;> (try omega)

theorem scaled_norounding (src tgt : NumTy) (raw : Int) (r : Rounding)
    (hs : src ≠ .fix128 ∧ src ≠ .ufix128) (ht : tgt = .fix64 ∨ tgt = .ufix64) :
    scaled src tgt raw r = scaled src tgt raw .towardZero := by
  have hq : src.scale = 0 ∨ src.scale = 8 := by cases src <;> simp [NumTy.scale] at hs ⊢
  have e : Int.tmod (raw * (10:Int) ^ tgt.scale) ((10:Int) ^ src.scale) = 0 := by
    have : tgt.scale = 8 := by rcases ht with rfl | rfl <;> rfl
    rw [this]; rcases hq with h | h <;> rw [h] <;> simp [Int.mul_tmod_left]
  have hf : tgt.fixed = true := by rcases ht with rfl | rfl <;> rfl
  have hpos : (0:Int) < (10:Int) ^ src.scale := by rcases hq with h | h <;> rw [h] <;> decide
  simp only [scaled, hf, if_true, roundQ, e]
  cases r <;> simp <;> omega

theorem convert_rounding_other (src tgt : NumTy) (raw : Int) (r : Rounding)
    (hs : src ≠ .fix128 ∧ src ≠ .ufix128) (ht : tgt = .fix64 ∨ tgt = .ufix64) :
    convert tgt src raw (some r) = convert tgt src raw none := by
  rcases ht with rfl | rfl <;> cases src <;> simp at hs <;> simp [convert, toFix64Rounding, toUFix64Rounding]

theorem fix_target_rounding_all (src tgt : NumTy) (raw : Int) (r : Rounding) (h : src.inRange raw)
    (ht : tgt = .fix64 ∨ tgt = .ufix64) (hz : raw ≠ 0 → scaled src tgt raw r ≠ 0) :
    sameOutcome (convert tgt src raw (some r)) (specConvert src tgt raw r) := by
  by_cases hs : src = .fix128 ∨ src = .ufix128
  · exact fix_target_rounding_128 src tgt raw r h hs ht hz
  · have hs' : src ≠ .fix128 ∧ src ≠ .ufix128 := by
      constructor <;> intro e <;> exact hs (by simp [e])
    rw [convert_rounding_other src tgt raw r hs' ht]
    have e : specConvert src tgt raw r = specConvert src tgt raw .towardZero := by
      unfold specConvert; rw [scaled_norounding src tgt raw r hs' ht]
    rw [e]
    exact fix_target_norounding src tgt raw h (by rcases ht with rfl | rfl <;> rfl)
end Verif.Proofs.Conv
