import Verif.Proofs.LangVM
/-
Forward simulation (C34), second stage: the *error case* for call-free expressions of layer L0.
-/
namespace Verif.Model.Lang.VM
open Verif.Model.Lang

/-- locate an instruction: proves `code[k]? = some ins` from `h : code = …` -/
macro "locate " h:ident : tactic =>
  `(tactic| (subst $h; simp [List.getElem?_append, List.getElem?_cons]; repeat' (first | rfl | omega | split)))

/-- the machine step that an evaluator error corresponds to (same class, same kind) -/
def errStep {α} : Outcome α → Option Step
  | .userErr k => some (.userErr k)
  | .internalErr k => some (.internalErr k)
  | _ => none

/-- from `c` the activation runs by quiet steps to a configuration whose next step is `st` -/
def StopsWith (tbl : Table) (code : List Instr) (locals : Locals) (c : Nat × List Value) (st : Step) : Prop :=
  ∃ pc' stk', Reach tbl code locals c (pc', stk') ∧ VM.step tbl ⟨code, pc', stk', locals⟩ = st

theorem StopsWith.now {tbl code locals pc stk st} (h : VM.step tbl ⟨code, pc, stk, locals⟩ = st) :
    StopsWith tbl code locals (pc, stk) st := ⟨pc, stk, .refl _, h⟩

theorem StopsWith.after {tbl code locals a b st} (h1 : Reach tbl code locals a b)
    (h2 : StopsWith tbl code locals b st) : StopsWith tbl code locals a st := by
  obtain ⟨pc', stk', r, hs⟩ := h2
  exact ⟨pc', stk', h1.trans r, hs⟩

/-- strong agreement: every name of the compile-time scope is bound in the environment, and its slot
holds the same value -/
def AgreeS (sc : Scope) (env : Env) (locals : Locals) : Prop :=
  ∀ x i, sc.slot x = some i → ∃ v, env.lookup x = some v ∧ locals.get i = some v

theorem AgreeS.agree {sc env locals} (h : AgreeS sc env locals) : Agree sc env locals := by
  intro x i hi v hv
  obtain ⟨w, hw, hl⟩ := h x i hi
  rw [hw] at hv; cases hv; exact hl

theorem bind_err_inv {α β} {m : M α} {f : α → M β} {s : State} {st : Step}
    (h : errStep ((m >>= f) s).out = some st) :
    errStep (m s).out = some st ∨ ∃ a, (m s).out = .ok a ∧ errStep (f a (m s).st).out = some st := by
  cases hm : (m s).out with
  | ok a => rw [M.bind_ok _ _ _ _ hm] at h; exact .inr ⟨a, rfl, h⟩
  | userErr k =>
    rw [M.bind_failed _ _ _ (by intro x; simp [hm])] at h; simp only [hm, Outcome.castErr] at h; exact .inl h
  | internalErr k =>
    rw [M.bind_failed _ _ _ (by intro x; simp [hm])] at h; simp only [hm, Outcome.castErr] at h; exact .inl h
  | outOfFuel =>
    rw [M.bind_failed _ _ _ (by intro x; simp [hm])] at h; simp [hm, Outcome.castErr, errStep] at h

theorem ofExcept_err_step {x : Except ErrKind Value} {s : State} {st : Step}
    (h : errStep (M.ofExcept x s).out = some st) (f : Frame) (stk : List Value) :
    stepExcept f stk x = st := by
  cases x with
  | ok a => simp [M.ofExcept, M.pure, errStep] at h
  | error k =>
    simp only [M.ofExcept] at h
    simp only [stepExcept]
    split at h <;> simp_all [M.internalErr, M.userErr, errStep]

/-- **Forward simulation, error case, call-free expressions of L0**: if the evaluator fails with a
user / internal error of kind `k`, the compiled code, wherever it is placed, runs by quiet steps to an
instruction whose step stops the machine with the same error class and kind. -/
theorem sim_expr_err (p : Program) (tbl : Table) : ∀ (n : Nat) (e : Expr) (s : State) (st : Step),
    noCall e = true → errStep (eval p n e s).out = some st →
    ∀ (sc : Scope) (c : List Instr), compileExpr sc e = some c →
    ∀ (locals : Locals), AgreeS sc s.env locals →
    ∀ (code pre post : List Instr) (stk : List Value), code = pre ++ c ++ post →
      StopsWith tbl code locals (pre.length, stk) st := by
  intro n
  induction n with
  | zero => intro e s st _ h; cases e <;> simp [eval, M.outOfFuel, errStep] at h
  | succ n ih =>
    intro e s st hnc h sc c hc locals hag code pre post stk hcode
    cases e with
    | intLit k x => simp [eval, M.pure_apply, errStep] at h
    | boolLit x => simp [eval, M.pure_apply, errStep] at h
    | strLit x => simp [eval, M.pure_apply, errStep] at h
    | voidLit => simp [eval, M.pure_apply, errStep] at h
    | nilLit => simp [eval, M.pure_apply, errStep] at h
    | var x =>
      simp only [compileExpr, Option.map_eq_some_iff] at hc
      obtain ⟨i, hi, hc⟩ := hc
      obtain ⟨w, hw, _⟩ := hag x i hi
      simp [eval, getVar, hw, errStep] at h
    | unary op a =>
      simp only [noCall] at hnc
      cases hca : compileExpr sc a with
      | none => simp [compileExpr, hca] at hc
      | some ca =>
        simp only [compileExpr, hca, Option.bind_eq_bind, Option.bind_some, Option.some.injEq] at hc
        subst hc
        simp only [eval] at h
        rcases bind_err_inv h with h1 | ⟨va, hva, h2⟩
        · exact ih a s st hnc h1 sc ca hca locals hag code pre ([.unop op] ++ post) stk (by simp [hcode])
        · have r1 := sim_expr_ok p tbl n a s va hnc hva sc ca hca locals hag.agree code pre ([.unop op] ++ post) stk
            (by simp [hcode])
          have hi : code[pre.length + ca.length]? = some (.unop op) := by locate hcode
          refine StopsWith.after r1 (StopsWith.now ?_)
          simp only [VM.step, hi]
          exact ofExcept_err_step h2 _ _
    | force a =>
      simp only [noCall] at hnc
      cases hca : compileExpr sc a with
      | none => simp [compileExpr, hca] at hc
      | some ca =>
        simp only [compileExpr, hca, Option.bind_eq_bind, Option.bind_some, Option.some.injEq] at hc
        subst hc
        simp only [eval] at h
        rcases bind_err_inv h with h1 | ⟨va, hva, h2⟩
        · exact ih a s st hnc h1 sc ca hca locals hag code pre ([.unwrap] ++ post) stk (by simp [hcode])
        · have r1 := sim_expr_ok p tbl n a s va hnc hva sc ca hca locals hag.agree code pre ([.unwrap] ++ post) stk
            (by simp [hcode])
          have hi : code[pre.length + ca.length]? = some .unwrap := by locate hcode
          refine StopsWith.after r1 (StopsWith.now ?_)
          cases va <;> first
            | (simp [M.pure_apply, errStep] at h2; done)
            | (simp only [M.userErr, errStep, Option.some.injEq] at h2; subst h2; simp only [VM.step, hi])
    | binary op a b =>
      simp only [noCall, Bool.and_eq_true] at hnc
      cases hca : compileExpr sc a with
      | none => simp [compileExpr, hca] at hc
      | some ca =>
        cases hcb : compileExpr sc b with
        | none => simp [compileExpr, hca, hcb] at hc
        | some cb =>
          simp only [compileExpr, hca, hcb, Option.bind_eq_bind, Option.bind_some, Option.some.injEq] at hc
          subst hc
          simp only [eval] at h
          rcases bind_err_inv h with h1 | ⟨va, hva, h2⟩
          · exact ih a s st hnc.1 h1 sc ca hca locals hag code pre (cb ++ [.binop op] ++ post) stk (by simp [hcode])
          · rw [(eval_noCall_pure p n a s hnc.1).1] at h2
            have r1 := sim_expr_ok p tbl n a s va hnc.1 hva sc ca hca locals hag.agree code pre
              (cb ++ [.binop op] ++ post) stk (by simp [hcode])
            refine StopsWith.after r1 ?_
            rcases bind_err_inv h2 with h3 | ⟨vb, hvb, h4⟩
            · have := ih b s st hnc.2 h3 sc cb hcb locals hag code (pre ++ ca) ([.binop op] ++ post) (va :: stk)
                (by simp [hcode])
              simpa only [List.length_append] using this
            · have r2 := sim_expr_ok p tbl n b s vb hnc.2 hvb sc cb hcb locals hag.agree code (pre ++ ca)
                ([.binop op] ++ post) (va :: stk) (by simp [hcode])
              simp only [List.length_append] at r2
              have hi : code[pre.length + ca.length + cb.length]? = some (.binop op) := by locate hcode
              refine StopsWith.after r2 (StopsWith.now ?_)
              simp only [VM.step, hi]
              exact ofExcept_err_step h4 _ _
    | cond c0 t e =>
      simp only [noCall, Bool.and_eq_true] at hnc
      cases hcc : compileExpr sc c0 with
      | none => simp [compileExpr, hcc] at hc
      | some cc =>
        cases hct : compileExpr sc t with
        | none => simp [compileExpr, hcc, hct] at hc
        | some ct =>
          cases hce : compileExpr sc e with
          | none => simp [compileExpr, hcc, hct, hce] at hc
          | some ce =>
            simp only [compileExpr, hcc, hct, hce, Option.bind_eq_bind, Option.bind_some, Option.some.injEq] at hc
            subst hc
            simp only [eval] at h
            rcases bind_err_inv h with h1 | ⟨vc, hvc, h2⟩
            · exact ih c0 s st hnc.1.1 h1 sc cc hcc locals hag code pre
                ([.jumpIfFalse (ct.length + 1)] ++ ct ++ [.jump ce.length] ++ ce ++ post) stk (by simp [hcode])
            · rw [(eval_noCall_pure p n c0 s hnc.1.1).1] at h2
              have r1 := sim_expr_ok p tbl n c0 s vc hnc.1.1 hvc sc cc hcc locals hag.agree code pre
                ([.jumpIfFalse (ct.length + 1)] ++ ct ++ [.jump ce.length] ++ ce ++ post) stk (by simp [hcode])
              refine StopsWith.after r1 ?_
              have hi : code[pre.length + cc.length]? = some (.jumpIfFalse (ct.length + 1)) := by locate hcode
              cases vc with
              | bool bv =>
                cases bv with
                | true =>
                  have r2 : Reach tbl code locals (pre.length + cc.length, .bool true :: stk) (pre.length + cc.length + 1, stk) :=
                    Reach.one (by simp only [VM.step, hi]; rfl)
                  refine StopsWith.after r2 ?_
                  have := ih t s st hnc.1.2 h2 sc ct hct locals hag code (pre ++ cc ++ [.jumpIfFalse (ct.length + 1)])
                    ([.jump ce.length] ++ ce ++ post) stk (by simp [hcode])
                  simpa only [List.length_append, List.length_cons, List.length_nil, Nat.zero_add] using this
                | false =>
                  have r2 : Reach tbl code locals (pre.length + cc.length, .bool false :: stk)
                      (pre.length + cc.length + 1 + (ct.length + 1), stk) :=
                    Reach.one (by simp only [VM.step, hi]; rfl)
                  refine StopsWith.after r2 ?_
                  have := ih e s st hnc.2 h2 sc ce hce locals hag code
                    (pre ++ cc ++ [.jumpIfFalse (ct.length + 1)] ++ ct ++ [.jump ce.length]) post stk (by simp [hcode])
                  simp only [List.length_append, List.length_cons, List.length_nil, Nat.zero_add] at this
                  have e1 : pre.length + cc.length + 1 + (ct.length + 1) = pre.length + cc.length + 1 + ct.length + 1 := by omega
                  rw [e1]; exact this
              | _ =>
                simp only [M.internalErr, errStep, Option.some.injEq] at h2; subst h2
                exact StopsWith.now (by simp only [VM.step, hi])
    | and a b =>
      simp only [noCall, Bool.and_eq_true] at hnc
      cases hca : compileExpr sc a with
      | none => simp [compileExpr, hca] at hc
      | some ca =>
        cases hcb : compileExpr sc b with
        | none => simp [compileExpr, hca, hcb] at hc
        | some cb =>
          simp only [compileExpr, hca, hcb, Option.bind_eq_bind, Option.bind_some, Option.some.injEq] at hc
          subst hc
          simp only [eval] at h
          rcases bind_err_inv h with h1 | ⟨va, hva, h2⟩
          · exact ih a s st hnc.1 h1 sc ca hca locals hag code pre
              ([.jumpIfFalse (cb.length + 3)] ++ cb ++ [.jumpIfFalse 2, .push (.bool true), .jump 1, .push (.bool false)] ++ post) stk
              (by simp [hcode])
          · rw [(eval_noCall_pure p n a s hnc.1).1] at h2
            have r1 := sim_expr_ok p tbl n a s va hnc.1 hva sc ca hca locals hag.agree code pre
              ([.jumpIfFalse (cb.length + 3)] ++ cb ++ [.jumpIfFalse 2, .push (.bool true), .jump 1, .push (.bool false)] ++ post) stk
              (by simp [hcode])
            refine StopsWith.after r1 ?_
            have hi : code[pre.length + ca.length]? = some (.jumpIfFalse (cb.length + 3)) := by locate hcode
            cases va with
            | bool bv =>
              cases bv with
              | false => simp [M.pure_apply, errStep] at h2
              | true =>
                have r2 : Reach tbl code locals (pre.length + ca.length, .bool true :: stk) (pre.length + ca.length + 1, stk) :=
                  Reach.one (by simp only [VM.step, hi]; rfl)
                refine StopsWith.after r2 ?_
                rcases bind_err_inv h2 with h3 | ⟨vb, hvb, h4⟩
                · have := ih b s st hnc.2 h3 sc cb hcb locals hag code (pre ++ ca ++ [.jumpIfFalse (cb.length + 3)])
                    ([.jumpIfFalse 2, .push (.bool true), .jump 1, .push (.bool false)] ++ post) stk (by simp [hcode])
                  simpa only [List.length_append, List.length_cons, List.length_nil, Nat.zero_add] using this
                · have r3 := sim_expr_ok p tbl n b s vb hnc.2 hvb sc cb hcb locals hag.agree code
                    (pre ++ ca ++ [.jumpIfFalse (cb.length + 3)])
                    ([.jumpIfFalse 2, .push (.bool true), .jump 1, .push (.bool false)] ++ post) stk (by simp [hcode])
                  simp only [List.length_append, List.length_cons, List.length_nil, Nat.zero_add] at r3
                  refine StopsWith.after r3 ?_
                  have hj : code[pre.length + ca.length + 1 + cb.length]? = some (.jumpIfFalse 2) := by locate hcode
                  cases vb with
                  | bool rb => simp [M.pure_apply, errStep] at h4
                  | _ =>
                    simp only [M.internalErr, errStep, Option.some.injEq] at h4; subst h4
                    exact StopsWith.now (by simp only [VM.step, hj])
            | _ =>
              simp only [M.internalErr, errStep, Option.some.injEq] at h2; subst h2
              exact StopsWith.now (by simp only [VM.step, hi])
    | or a b =>
      simp only [noCall, Bool.and_eq_true] at hnc
      cases hca : compileExpr sc a with
      | none => simp [compileExpr, hca] at hc
      | some ca =>
        cases hcb : compileExpr sc b with
        | none => simp [compileExpr, hca, hcb] at hc
        | some cb =>
          simp only [compileExpr, hca, hcb, Option.bind_eq_bind, Option.bind_some, Option.some.injEq] at hc
          subst hc
          simp only [eval] at h
          rcases bind_err_inv h with h1 | ⟨va, hva, h2⟩
          · exact ih a s st hnc.1 h1 sc ca hca locals hag code pre
              ([.jumpIfTrue (cb.length + 1)] ++ cb ++ [.jumpIfFalse 2, .push (.bool true), .jump 1, .push (.bool false)] ++ post) stk
              (by simp [hcode])
          · rw [(eval_noCall_pure p n a s hnc.1).1] at h2
            have r1 := sim_expr_ok p tbl n a s va hnc.1 hva sc ca hca locals hag.agree code pre
              ([.jumpIfTrue (cb.length + 1)] ++ cb ++ [.jumpIfFalse 2, .push (.bool true), .jump 1, .push (.bool false)] ++ post) stk
              (by simp [hcode])
            refine StopsWith.after r1 ?_
            have hi : code[pre.length + ca.length]? = some (.jumpIfTrue (cb.length + 1)) := by locate hcode
            cases va with
            | bool bv =>
              cases bv with
              | true => simp [M.pure_apply, errStep] at h2
              | false =>
                have r2 : Reach tbl code locals (pre.length + ca.length, .bool false :: stk) (pre.length + ca.length + 1, stk) :=
                  Reach.one (by simp only [VM.step, hi]; rfl)
                refine StopsWith.after r2 ?_
                rcases bind_err_inv h2 with h3 | ⟨vb, hvb, h4⟩
                · have := ih b s st hnc.2 h3 sc cb hcb locals hag code (pre ++ ca ++ [.jumpIfTrue (cb.length + 1)])
                    ([.jumpIfFalse 2, .push (.bool true), .jump 1, .push (.bool false)] ++ post) stk (by simp [hcode])
                  simpa only [List.length_append, List.length_cons, List.length_nil, Nat.zero_add] using this
                · have r3 := sim_expr_ok p tbl n b s vb hnc.2 hvb sc cb hcb locals hag.agree code
                    (pre ++ ca ++ [.jumpIfTrue (cb.length + 1)])
                    ([.jumpIfFalse 2, .push (.bool true), .jump 1, .push (.bool false)] ++ post) stk (by simp [hcode])
                  simp only [List.length_append, List.length_cons, List.length_nil, Nat.zero_add] at r3
                  refine StopsWith.after r3 ?_
                  have hj : code[pre.length + ca.length + 1 + cb.length]? = some (.jumpIfFalse 2) := by locate hcode
                  cases vb with
                  | bool rb => simp [M.pure_apply, errStep] at h4
                  | _ =>
                    simp only [M.internalErr, errStep, Option.some.injEq] at h4; subst h4
                    exact StopsWith.now (by simp only [VM.step, hj])
            | _ =>
              simp only [M.internalErr, errStep, Option.some.injEq] at h2; subst h2
              exact StopsWith.now (by simp only [VM.step, hi])
    | _ => simp [noCall] at hnc

end Verif.Model.Lang.VM
