/-
Helper lemmas for C20: list / finite-map laws of Verif.Spec.Containers and composition of the generic
transaction machine.  Core Lean only.
-/
import Verif.Spec.Containers
namespace Verif.Proofs.Containers
open Verif.Spec.Containers

variable {α : Type}

theorem readAt_ok (xs : List α) (i : Int) (h0 : 0 ≤ i) (h1 : i < xs.length) :
    ∃ h : i.toNat < xs.length, readAt xs i = .ok xs[i.toNat] := by
  have h : i.toNat < xs.length := by omega
  refine ⟨h, ?_⟩
  simp [readAt, h0, List.getElem?_eq_getElem h]

theorem readAt_err_iff (xs : List α) (i : Int) : readAt xs i = .error .index ↔ (i < 0 ∨ (xs.length : Int) ≤ i) := by
  unfold readAt
  by_cases h0 : 0 ≤ i
  · simp only [h0, if_true]
    cases hx : xs[i.toNat]? with
    | none =>
      have := List.getElem?_eq_none_iff.1 hx
      simp; omega
    | some x =>
      have : i.toNat < xs.length := by
        rcases List.getElem?_eq_some_iff.1 hx with ⟨h, _⟩; exact h
      simp; omega
  · simp [h0] <;> omega

theorem writeAt_err_iff (xs : List α) (i : Int) (x : α) :
    writeAt xs i x = .error .index ↔ (i < 0 ∨ (xs.length : Int) ≤ i) := by
  unfold writeAt validIdx
  by_cases h : 0 ≤ i ∧ i < xs.length
  · simp [h.1, h.2] <;> omega
  · have : ¬ (decide (0 ≤ i) && decide (i < (xs.length : Int))) = true := by simpa using h
    simp [this] <;> omega

theorem writeAt_ok (xs : List α) (i : Int) (x : α) (h0 : 0 ≤ i) (h1 : i < xs.length) :
    writeAt xs i x = .ok (xs.set i.toNat x) := by
  simp [writeAt, validIdx, h0, h1]

theorem removeAt_err_iff (xs : List α) (i : Int) : removeAt xs i = .error .index ↔ (i < 0 ∨ (xs.length : Int) ≤ i) := by
  unfold removeAt
  by_cases h0 : 0 ≤ i
  · simp only [h0, if_true]
    cases hx : xs[i.toNat]? with
    | none =>
      have := List.getElem?_eq_none_iff.1 hx
      simp; omega
    | some x =>
      have : i.toNat < xs.length := by
        rcases List.getElem?_eq_some_iff.1 hx with ⟨h, _⟩; exact h
      simp; omega
  · simp [h0] <;> omega

theorem insertAt_err_iff (xs : List α) (i : Int) (x : α) :
    insertAt xs i x = .error .index ↔ (i < 0 ∨ (xs.length : Int) < i) := by
  unfold insertAt
  by_cases h : 0 ≤ i ∧ i ≤ xs.length
  · simp [h] <;> omega
  · simp [h] <;> omega

theorem insert_then_remove (xs ys : List α) (i : Int) (x : α) (h : insertAt xs i x = .ok ys) :
    removeAt ys i = .ok (x, xs) := by
  unfold insertAt at h
  split at h
  · rename_i hi
    cases h
    have hn : i.toNat ≤ xs.length := by omega
    have hl : (xs.take i.toNat).length = i.toNat := by simp [hn]
    unfold removeAt
    simp only [hi.1, if_true]
    have hget : (xs.take i.toNat ++ x :: xs.drop i.toNat)[i.toNat]? = some x := by
      rw [List.getElem?_append_right (by omega)]; simp [hl]
    simp only [hget]
    congr 2
    rw [List.eraseIdx_append_of_length_le (by omega)]
    simp [hl]
  · cases h

theorem remove_then_insert (xs ys : List α) (i : Int) (x : α) (h : removeAt xs i = .ok (x, ys)) :
    insertAt ys i x = .ok xs := by
  unfold removeAt at h
  split at h
  · rename_i h0
    split at h
    · rename_i y hy
      cases h
      obtain ⟨hlt, hx⟩ := List.getElem?_eq_some_iff.1 hy
      unfold insertAt
      have hlen : (xs.eraseIdx i.toNat).length = xs.length - 1 := List.length_eraseIdx_of_lt hlt
      have : 0 ≤ i ∧ i ≤ ((xs.eraseIdx i.toNat).length : Int) := by omega
      simp only [this, and_self, if_true]
      congr 1
      rw [List.eraseIdx_eq_take_drop_succ]
      have h1 : (xs.take i.toNat ++ xs.drop (i.toNat + 1)).take i.toNat = xs.take i.toNat := by
        rw [List.take_append_of_le_length (by simp; omega)]; simp [List.take_take]
      have h2 : (xs.take i.toNat ++ xs.drop (i.toNat + 1)).drop i.toNat = xs.drop (i.toNat + 1) := by
        rw [List.drop_append_of_le_length (by simp; omega)]; simp
      rw [h1, h2, ← hx, List.getElem_cons_drop hlt, List.take_append_drop]
    · cases h
  · cases h

theorem slice_ok_iff (xs ys : List α) (a b : Int) :
    slice xs a b = .ok ys ↔
      (0 ≤ a ∧ a ≤ b ∧ b ≤ xs.length ∧ ys = (xs.drop a.toNat).take (b.toNat - a.toNat)) := by
  unfold slice
  by_cases h : 0 ≤ a ∧ a ≤ b ∧ b ≤ xs.length
  · simp only [h, and_self, if_true, true_and]
    constructor
    · intro e; cases e; rfl
    · intro e; rw [e]
  · simp only [h, if_false]
    constructor
    · intro e; cases e
    · intro e; exact absurd ⟨e.1, e.2.1, e.2.2.1⟩ h

theorem slice_elems (xs ys : List α) (a b : Int) (h : slice xs a b = .ok ys) :
    ys.length = (b - a).toNat ∧ ∀ j, j < ys.length → ys[j]? = xs[a.toNat + j]? := by
  obtain ⟨h0, h1, h2, rfl⟩ := (slice_ok_iff xs ys a b).1 h
  constructor
  · simp; omega
  · intro j hj
    have hj' : j < b.toNat - a.toNat := by
      have := hj; simp at this; omega
    rw [List.getElem?_take, if_pos hj', List.getElem?_drop]

theorem slice_err_iff (xs : List α) (a b : Int) :
    slice xs a b = .error .index ↔ (a < 0 ∨ b < a ∨ (xs.length : Int) < b) := by
  unfold slice
  by_cases h : 0 ≤ a ∧ a ≤ b ∧ b ≤ xs.length
  · simp [h] <;> omega
  · simp [h] <;> omega

theorem reverse_read (xs : List α) (i : Int) (h0 : 0 ≤ i) (h1 : i < xs.length) :
    readAt (reverse xs) i = readAt xs ((xs.length : Int) - 1 - i) := by
  have hn : i.toNat < xs.length := by omega
  have e1 : ((xs.length : Int) - 1 - i).toNat = xs.length - 1 - i.toNat := by omega
  have h2 : 0 ≤ (xs.length : Int) - 1 - i := by omega
  simp only [readAt, reverse, h0, h2, if_true, e1]
  rw [List.getElem?_reverse hn]

theorem mem_filter_iff (p : α → Bool) (xs : List α) (x : α) : x ∈ filter p xs ↔ x ∈ xs ∧ p x = true := by
  simp [filter]

theorem map_read {β : Type} (f : α → β) (xs : List α) (i : Nat) : (map f xs)[i]? = (xs[i]?).map f := by
  simp [map]

/-! ### dictionaries -/
section Dict
variable {κ ν : Type} [DecidableEq κ]

theorem dGet_cons (e : κ × ν) (d : Dict κ ν) (k : κ) :
    dGet (e :: d) k = if k = e.1 then some e.2 else dGet d k := by
  obtain ⟨k', v⟩ := e; simp [dGet]

theorem dErase_cons (e : κ × ν) (d : Dict κ ν) (k : κ) :
    dErase (e :: d) k = if e.1 = k then dErase d k else e :: dErase d k := by
  by_cases h : e.1 = k <;> simp [dErase, List.filter_cons, h]

theorem dGet_erase_same (d : Dict κ ν) (k : κ) : dGet (dErase d k) k = none := by
  induction d with
  | nil => rfl
  | cons e d ih =>
    rw [dErase_cons]; split
    · exact ih
    · rename_i h; rw [dGet_cons, if_neg (fun x => h x.symm)]; exact ih

theorem dGet_erase_other (d : Dict κ ν) (k k' : κ) (h : k' ≠ k) : dGet (dErase d k) k' = dGet d k' := by
  induction d with
  | nil => rfl
  | cons e d ih =>
    rw [dErase_cons]; split
    · rename_i he; rw [dGet_cons, if_neg (he ▸ h)]; exact ih
    · rw [dGet_cons, dGet_cons, ih]

theorem dGet_append_single (d : Dict κ ν) (k k' : κ) (v : ν) :
    dGet (d ++ [(k, v)]) k' = match dGet d k' with | some x => some x | none => if k' = k then some v else none := by
  induction d with
  | nil => simp [dGet]
  | cons e d ih =>
    rw [List.cons_append, dGet_cons, dGet_cons]
    split
    · rfl
    · exact ih

theorem dGet_put_same (d : Dict κ ν) (k : κ) (v : ν) : dGet (dPut d k v) k = some v := by
  simp [dPut, dGet_append_single, dGet_erase_same]

theorem dGet_put_other (d : Dict κ ν) (k k' : κ) (v : ν) (h : k' ≠ k) : dGet (dPut d k v) k' = dGet d k' := by
  rw [dPut, dGet_append_single, dGet_erase_other d k k' h]
  cases dGet d k' <;> simp [h]

theorem mem_dKeys_iff (d : Dict κ ν) (k : κ) : k ∈ dKeys d ↔ dHas d k = true := by
  induction d with
  | nil => simp [dKeys, dHas, dGet]
  | cons e d ih =>
    simp only [dHas, dGet_cons] at ih ⊢
    by_cases h : k = e.1
    · simp [dKeys, h]
    · simp only [dKeys, List.map_cons, List.mem_cons, h, false_or, if_false]
      exact ih

theorem dwf_nil : DWF ([] : Dict κ ν) := by simp [DWF, dKeys]

theorem dwf_erase (d : Dict κ ν) (k : κ) (h : DWF d) : DWF (dErase d k) := by
  unfold DWF dKeys dErase
  exact h.sublist ((List.filter_sublist).map _)

theorem dwf_put (d : Dict κ ν) (k : κ) (v : ν) (h : DWF d) : DWF (dPut d k v) := by
  have hw := dwf_erase d k h
  have hnot : k ∉ dKeys (dErase d k) := by
    intro hm
    have := (mem_dKeys_iff _ k).1 hm
    simp [dHas, dGet_erase_same] at this
  unfold DWF dKeys dPut at *
  rw [List.map_append, List.nodup_append]
  refine ⟨hw, by simp, ?_⟩
  intro a ha b hb
  simp at hb
  subst hb
  intro e; subst e; exact hnot ha

theorem dGet_of_mem (d : Dict κ ν) (hw : DWF d) (k : κ) (v : ν) (hm : (k, v) ∈ d) : dGet d k = some v := by
  induction d with
  | nil => cases hm
  | cons e d ih =>
    have hw' : DWF d := by
      have := hw; simp [DWF, dKeys] at this; simpa [DWF, dKeys] using this.2
    rw [dGet_cons]
    rcases List.mem_cons.1 hm with h | h
    · subst h; simp
    · have hne : k ≠ e.1 := by
        intro hk
        have := hw; simp only [DWF, dKeys, List.map_cons, List.nodup_cons] at this
        exact this.1 (List.mem_map.2 ⟨(k, v), h, hk⟩)
      rw [if_neg hne]; exact ih hw' h

theorem mem_of_dGet (d : Dict κ ν) (k : κ) (v : ν) (hg : dGet d k = some v) : (k, v) ∈ d := by
  induction d with
  | nil => simp [dGet] at hg
  | cons e d ih =>
    rw [dGet_cons] at hg
    split at hg
    · rename_i h
      have : e.2 = v := by simpa using hg
      exact List.mem_cons.2 (.inl (by rw [h, ← this]))
    · exact List.mem_cons.2 (.inr (ih hg))

omit [DecidableEq κ] in
theorem zip_keys_values (d : Dict κ ν) : (dKeys d).zip (dValues d) = d := by
  induction d with
  | nil => rfl
  | cons e d ih => simp [dKeys, dValues] at ih ⊢; exact ih

end Dict

/-! ### the transaction machine -/
section Iter
variable {σ μ : Type} (apply : σ → μ → Except Err σ) (size : σ → Nat)

/-- While an iteration is active a program either fails with the mutation error or leaves the
    container exactly as it was — according to whether it attempts a mutation. -/
theorem runProg_guarded (p : Prog μ) (n : Nat) (c : σ) :
    runProg apply size (n + 1) c p = if p.attempts (size c) then .error .mutation else .ok c := by
  induction p generalizing n with
  | skip => simp [runProg, Prog.attempts]
  | mutate m => simp [runProg, Prog.attempts]
  | seq p q ihp ihq =>
    simp only [runProg, Prog.attempts]
    rw [ihp]
    by_cases hp : p.attempts (size c) = true
    · simp [hp]
    · simp [hp, ihq]
  | iter j body ih =>
    simp only [runProg, Prog.attempts]
    by_cases hj : j < size c
    · simp [hj, ih]
    · simp [hj]

/-- every container a program passes through satisfies an invariant the mutations preserve -/
theorem runProg_invariant (P : σ → Prop) (hP : ∀ c m c', P c → apply c m = .ok c' → P c')
    (p : Prog μ) (n : Nat) (c c' : σ) (hc : P c) (h : runProg apply size n c p = .ok c') : P c' := by
  induction p generalizing n c c' with
  | skip => simp [runProg] at h; exact h ▸ hc
  | mutate m =>
    simp only [runProg] at h
    split at h
    · exact hP c m c' hc h
    · cases h
  | seq p q ihp ihq =>
    simp only [runProg] at h
    split at h
    · rename_i c1 h1; exact ihq n c1 c' (ihp n c c1 hc h1) h
    · cases h
  | iter j body ih =>
    simp only [runProg] at h
    split at h
    · exact ih (n + 1) c c' hc h
    · cases h; exact hc

end Iter

section Machine
variable {σ ω β ε : Type} (step : σ → ω → Except ε (σ × β))

theorem execOps_append_ok (s s1 : σ) (ops1 ops2 : List ω) (l1 : List β)
    (h : execOps step s ops1 = (.ok s1, l1)) :
    execOps step s (ops1 ++ ops2) = ((execOps step s1 ops2).1, l1 ++ (execOps step s1 ops2).2) := by
  induction ops1 generalizing s l1 with
  | nil => simp [execOps] at h; obtain ⟨rfl, rfl⟩ := h; simp
  | cons op rest ih =>
    simp only [execOps] at h
    split at h
    · simp at h
    · rename_i s2 o hs
      have h1 : (execOps step s2 rest).1 = .ok s1 := by simpa using congrArg Prod.fst h
      have h2 : o :: (execOps step s2 rest).2 = l1 := by simpa using congrArg Prod.snd h
      have := ih s2 (execOps step s2 rest).2 (Prod.ext h1 rfl)
      simp only [List.cons_append, execOps, hs, this, ← h2]

theorem runHist_append (s : σ) (h1 h2 : List (List ω)) :
    runHist step s (h1 ++ h2) =
      ((runHist step (runHist step s h1).1 h2).1,
       (runHist step s h1).2 ++ (runHist step (runHist step s h1).1 h2).2) := by
  induction h1 generalizing s with
  | nil => simp [runHist]
  | cons tx rest ih => simp [runHist, ih]

theorem runTx_commit (s : σ) (tx : List ω) (h : (runTx step s tx).2.outcome = none) :
    execOps step s tx = (.ok (runTx step s tx).1, (runTx step s tx).2.logs) := by
  unfold runTx at h ⊢
  split
  · rename_i s' logs he; simp [he]
  · rename_i e logs he; simp [he] at h

/-- a history in which every transaction commits is the in-memory run of the concatenated operations -/
theorem runHist_all_commit (s : σ) (h : List (List ω))
    (hc : ∀ o ∈ (runHist step s h).2, o.outcome = none) :
    execOps step s h.flatten = (.ok (runHist step s h).1, ((runHist step s h).2.map (·.logs)).flatten) := by
  induction h generalizing s with
  | nil => simp [execOps, runHist]
  | cons tx rest ih =>
    have h1 : (runTx step s tx).2.outcome = none := hc _ (by simp [runHist])
    have h2 := ih (runTx step s tx).1 (fun o ho => hc o (by simp [runHist, ho]))
    rw [List.flatten_cons, execOps_append_ok step s _ tx _ _ (runTx_commit step s tx h1), h2]
    simp [runHist]

end Machine
end Verif.Proofs.Containers
