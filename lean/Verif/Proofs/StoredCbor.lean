import Verif.Model.Codec.StoredCbor
/-! Helper lemmas for C44: the CBOR item layer (`decode ∘ enc = id`). -/
namespace Verif.Proofs.StoredCbor
open Verif.Model.Codec.StoredCbor

theorem beNat_append_single (xs : Bytes) (b : UInt8) : beNat (xs ++ [b]) = beNat xs * 256 + b.toNat := by
  simp [beNat, List.foldl_append]

theorem length_beBytes (k n : Nat) : (beBytes k n).length = k := by
  induction k generalizing n with
  | zero => simp [beBytes]
  | succ k ih => simp [beBytes, ih]

theorem beNat_beBytes (k n : Nat) : beNat (beBytes k n) = n % 256 ^ k := by
  induction k generalizing n with
  | zero => simp [beBytes, beNat, Nat.mod_one]
  | succ k ih =>
    simp only [beBytes, beNat_append_single, ih]
    have h : (UInt8.ofNat (n % 256)).toNat = n % 256 := by
      simp [UInt8.toNat_ofNat']
    rw [h, Nat.pow_succ, Nat.mul_comm (256 ^ k) 256, Nat.mod_mul]
    omega

theorem beNat_beBytes_of_lt {k n : Nat} (h : n < 256 ^ k) : beNat (beBytes k n) = n := by
  rw [beNat_beBytes, Nat.mod_eq_of_lt h]

theorem lt_pow_byteLen (n : Nat) : n < 256 ^ (n.log2 / 8 + 1) := by
  have h1 : n < 2 ^ (n.log2 + 1) := Nat.lt_log2_self
  have h2 : (256 : Nat) ^ (n.log2 / 8 + 1) = 2 ^ (8 * (n.log2 / 8 + 1)) := by
    rw [Nat.pow_mul]
  rw [h2]
  exact Nat.lt_of_lt_of_le h1 (Nat.pow_le_pow_right (by decide) (by omega))

theorem beNat_natBytes (n : Nat) : beNat (natBytes n) = n := by
  unfold natBytes
  split
  · next h => simp [h, beNat]
  · exact beNat_beBytes_of_lt (lt_pow_byteLen n)

theorem toNat_initialByte {maj ai : Nat} (hm : maj < 8) (ha : ai < 32) :
    (initialByte maj ai).toNat = maj * 32 + ai := by
  simp [initialByte, UInt8.toNat_ofNat']
  omega

theorem take_beBytes_append (k n : Nat) (rest : Bytes) : (beBytes k n ++ rest).take k = beBytes k n := by
  rw [List.take_append_of_le_length (by simp [length_beBytes])]
  simp [List.take_of_length_le, length_beBytes]

theorem drop_beBytes_append (k n : Nat) (rest : Bytes) : (beBytes k n ++ rest).drop k = rest := by
  have := List.drop_append_of_le_length (l₁ := beBytes k n) (l₂ := rest) (i := k) (by simp [length_beBytes])
  simp [length_beBytes]

theorem takeArg_beBytes {maj ai k lo arg : Nat} (rest : Bytes) (hlo : lo ≤ arg) (hhi : arg < 256 ^ k) :
    takeArg maj ai k lo (beBytes k arg ++ rest) = .ok (maj, ai, arg, rest) := by
  unfold takeArg
  simp only [List.length_append, length_beBytes, take_beBytes_append, drop_beBytes_append,
    beNat_beBytes_of_lt hhi]
  have h1 : ¬ (k + rest.length < k) := by omega
  have h2 : ¬ (arg < lo) := by omega
  simp [h1, h2]

/-- the head decoder inverts the head encoder; `ai` is the argument itself below 24 and ≥ 24 otherwise -/
theorem decHead_head {maj arg : Nat} (rest : Bytes) (hm : maj < 8) (ha : arg < 2 ^ 64)
    (h7 : maj = 7 → arg < 256) :
    ∃ ai, decHead (head maj arg ++ rest) = .ok (maj, ai, arg, rest) ∧ (arg < 24 → ai = arg) ∧ (24 ≤ arg → ai ≥ 24) := by
  unfold head
  by_cases c1 : arg < 24
  · refine ⟨arg, ?_, fun _ => rfl, fun h => by omega⟩
    simp only [c1, if_true, List.cons_append, List.nil_append, decHead,
      toNat_initialByte hm (show arg < 32 by omega)]
    have e1 : (maj * 32 + arg) / 32 = maj := by omega
    have e2 : (maj * 32 + arg) % 32 = arg := by omega
    simp [e1, e2, c1]
  · by_cases c2 : arg < 256
    · refine ⟨24, ?_, fun h => by omega, fun _ => by omega⟩
      simp only [c1, c2, if_true, if_false, List.cons_append, decHead,
        toNat_initialByte hm (show 24 < 32 by omega)]
      have e1 : (maj * 32 + 24) / 32 = maj := by omega
      have e2 : (maj * 32 + 24) % 32 = 24 := by omega
      simp only [e1, e2]
      simp only [show ¬ (24 < 24) by omega, if_false, if_true]
      exact takeArg_beBytes rest (by omega) (by simpa using c2)
    · have hm7 : maj ≠ 7 := fun h => c2 (h7 h)
      by_cases c3 : arg < 65536
      · refine ⟨25, ?_, fun h => by omega, fun _ => by omega⟩
        simp only [c1, c2, c3, if_true, if_false, List.cons_append, decHead,
          toNat_initialByte hm (show 25 < 32 by omega)]
        have e1 : (maj * 32 + 25) / 32 = maj := by omega
        have e2 : (maj * 32 + 25) % 32 = 25 := by omega
        simp only [e1, e2]
        simp only [show ¬ (25 < 24) by omega, show ¬ (25 = 24) by omega, hm7, if_false, if_true]
        exact takeArg_beBytes rest (by omega) (by simpa using c3)
      · by_cases c4 : arg < 4294967296
        · refine ⟨26, ?_, fun h => by omega, fun _ => by omega⟩
          simp only [c1, c2, c3, c4, if_true, if_false, List.cons_append, decHead,
            toNat_initialByte hm (show 26 < 32 by omega)]
          have e1 : (maj * 32 + 26) / 32 = maj := by omega
          have e2 : (maj * 32 + 26) % 32 = 26 := by omega
          simp only [e1, e2]
          simp only [show ¬ (26 < 24) by omega, show ¬ (26 = 24) by omega, show ¬ (26 = 25) by omega,
            hm7, if_false, if_true]
          exact takeArg_beBytes rest (by omega) (by simpa using c4)
        · refine ⟨27, ?_, fun h => by omega, fun _ => by omega⟩
          simp only [c1, c2, c3, c4, if_true, if_false, List.cons_append, decHead,
            toNat_initialByte hm (show 27 < 32 by omega)]
          have e1 : (maj * 32 + 27) / 32 = maj := by omega
          have e2 : (maj * 32 + 27) % 32 = 27 := by omega
          simp only [e1, e2]
          simp only [show ¬ (27 < 24) by omega, show ¬ (27 = 24) by omega, show ¬ (27 = 25) by omega,
            show ¬ (27 = 26) by omega, hm7, if_false, if_true]
          exact takeArg_beBytes rest (by omega) (by simpa using ha)

theorem length_head_pos (maj arg : Nat) : 1 ≤ (head maj arg).length := by
  unfold head
  split <;> (try split) <;> (try split) <;> (try split) <;> simp

mutual
theorem need_le (i : Item) : need i + 1 ≤ 2 * (enc i).length := by
  cases i with
  | uint n => simp only [need, enc]; have := length_head_pos 0 n; omega
  | nint n => simp only [need, enc]; have := length_head_pos 1 n; omega
  | bytes b => simp only [need, enc, List.length_append]; have := length_head_pos 2 b.length; omega
  | text b => simp only [need, enc, List.length_append]; have := length_head_pos 3 b.length; omega
  | simple n => simp only [need, enc]; have := length_head_pos 7 n; omega
  | tag t x =>
    simp only [need, enc, List.length_append]
    have := length_head_pos 6 t
    have := need_le x
    omega
  | array xs =>
    simp only [need, enc, List.length_append]
    have := length_head_pos 4 xs.length
    have := needMany_le xs
    omega
theorem needMany_le (xs : List Item) : needMany xs ≤ 2 * (encMany xs).length := by
  cases xs with
  | nil => simp [needMany]
  | cons x xs =>
    simp only [needMany, encMany, List.length_append]
    have := need_le x
    have := needMany_le xs
    omega
end

mutual
theorem decItem_enc (i : Item) (f : Nat) (rest : Bytes) (hw : i.wf = true) (hf : need i ≤ f) :
    decItem f (enc i ++ rest) = .ok (i, rest) := by
  cases f with
  | zero => cases i <;> simp [need] at hf
  | succ f =>
    cases i with
    | uint n =>
      simp only [Item.wf, decide_eq_true_eq] at hw
      obtain ⟨ai, h, _, _⟩ := decHead_head (maj := 0) rest (by omega) hw (by omega)
      simp [decItem, enc, h]
    | nint n =>
      simp only [Item.wf, decide_eq_true_eq] at hw
      obtain ⟨ai, h, _, _⟩ := decHead_head (maj := 1) rest (by omega) hw (by omega)
      simp [decItem, enc, h]
    | bytes b =>
      simp only [Item.wf, decide_eq_true_eq] at hw
      obtain ⟨ai, h, _, _⟩ := decHead_head (maj := 2) (b ++ rest) (by omega) hw (by omega)
      simp [decItem, enc, h, List.append_assoc]
    | text b =>
      simp only [Item.wf, decide_eq_true_eq] at hw
      obtain ⟨ai, h, _, _⟩ := decHead_head (maj := 3) (b ++ rest) (by omega) hw (by omega)
      simp [decItem, enc, h, List.append_assoc]
    | simple n =>
      simp only [Item.wf, Bool.or_eq_true, Bool.and_eq_true, decide_eq_true_eq] at hw
      obtain ⟨ai, h, h1, h2⟩ := decHead_head (maj := 7) rest (by omega) (arg := n) (by omega) (by omega)
      have hne : ¬ (ai = 24 ∧ n < 32) := by
        intro ⟨ha, hn⟩
        rcases hw with hw | hw
        · have := h1 hw; omega
        · omega
      simp [decItem, enc, h, hne]
    | tag t x =>
      simp only [Item.wf, Bool.and_eq_true, decide_eq_true_eq] at hw
      obtain ⟨ai, h, _, _⟩ := decHead_head (maj := 6) (enc x ++ rest) (by omega) hw.1 (by omega)
      have ih := decItem_enc x f rest hw.2 (by simp only [need] at hf; omega)
      simp [decItem, enc, h, List.append_assoc, ih]
    | array xs =>
      simp only [Item.wf, Bool.and_eq_true, decide_eq_true_eq] at hw
      obtain ⟨ai, h, _, _⟩ := decHead_head (maj := 4) (encMany xs ++ rest) (by omega) hw.1 (by omega)
      have ih := decMany_enc xs f rest hw.2 (by simp only [need] at hf; omega)
      simp [decItem, enc, h, List.append_assoc, ih]
theorem decMany_enc (xs : List Item) (f : Nat) (rest : Bytes) (hw : wfMany xs = true) (hf : needMany xs ≤ f) :
    decMany f xs.length (encMany xs ++ rest) = .ok (xs, rest) := by
  cases xs with
  | nil => cases f <;> simp [decMany, encMany]
  | cons x xs =>
    cases f with
    | zero => simp [needMany] at hf
    | succ f =>
      simp only [wfMany, Bool.and_eq_true] at hw
      simp only [needMany] at hf
      have ih1 := decItem_enc x f (encMany xs ++ rest) hw.1 (by omega)
      have ih2 := decMany_enc xs f rest hw.2 (by omega)
      simp [decMany, encMany, List.append_assoc, ih1, ih2]
end

/-- the CBOR item layer round-trips, with any trailing bytes left unread -/
theorem decode_enc (i : Item) (rest : Bytes) (hw : i.wf = true) : decode (enc i ++ rest) = .ok (i, rest) := by
  unfold decode
  apply decItem_enc i _ rest hw
  have := need_le i
  simp only [List.length_append]
  omega

end Verif.Proofs.StoredCbor
