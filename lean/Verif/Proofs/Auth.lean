/-
Helper lemmas for C06 (authorization algebra).  Core Lean only.
-/
import Verif.Model.Auth
import Verif.Spec.Auth
namespace Verif.Proofs.Auth
open Verif.Model.Auth Verif.Spec.Auth

variable {ε : Type} [DecidableEq ε]

/-- `den` and `sat` coincide: the denotation of an authorization is the set of holder sets that
    satisfy it as a requirement. -/
theorem den_iff_sat (a : Access ε) (H : List ε) : den a H ↔ sat a H = true := by
  cases a with
  | prim p => cases p <;> simp [den, sat]
  | set k S => cases k <;> simp [den, sat]
  | map m => simp [den, sat]

theorem sat_nil_of_nonempty (k : SetKind) (S : List ε) (h : S ≠ []) : sat (.set k S) ([] : List ε) = false := by
  cases S with
  | nil => exact absurd rfl h
  | cons x xs => cases k <;> simp [sat]

/-! ### `insertKey` / `insertAll` are set union -/

theorem mem_insertKey (es : List ε) (x y : ε) : y ∈ insertKey es x ↔ y ∈ es ∨ y = x := by
  unfold insertKey
  split
  · rename_i h
    have : x ∈ es := by simpa using h
    constructor
    · intro h; exact .inl h
    · rintro (h | h)
      · exact h
      · exact h ▸ this
  · simp

theorem mem_insertAll (es xs : List ε) (y : ε) : y ∈ insertAll es xs ↔ y ∈ es ∨ y ∈ xs := by
  unfold insertAll
  induction xs generalizing es with
  | nil => simp
  | cons x xs ih =>
    simp only [List.foldl_cons, List.mem_cons]
    rw [ih, mem_insertKey]
    constructor
    · rintro ((h | h) | h)
      · exact .inl h
      · exact .inr (.inl h)
      · exact .inr (.inr h)
    · rintro (h | h | h)
      · exact .inl (.inl h)
      · exact .inl (.inr h)
      · exact .inr h

theorem mem_keyIntersection (a b : List ε) (y : ε) : y ∈ keyIntersection a b ↔ y ∈ a ∧ y ∈ b := by
  simp [keyIntersection]

theorem mem_entitlementImage (m : Mapping ε) (e y : ε) :
    y ∈ entitlementImage m e ↔ (e, y) ∈ m.relations ∨ (m.includesIdentity = true ∧ y = e) := by
  have key : y ∈ insertAll [] ((m.relations.filter (fun r => r.1 == e)).map (·.2)) ↔ (e, y) ∈ m.relations := by
    rw [mem_insertAll]
    simp only [List.not_mem_nil, false_or, List.mem_map, List.mem_filter]
    constructor
    · rintro ⟨⟨i, o⟩, ⟨hm, hi⟩, ho⟩
      simp at hi ho; subst hi; subst ho; exact hm
    · intro h
      exact ⟨(e, y), ⟨h, by simp⟩, rfl⟩
  unfold entitlementImage
  cases hid : m.includesIdentity
  · simp only [Bool.false_eq_true, if_false, false_and, or_false]
    exact key
  · simp only [if_true, true_and, mem_insertKey]
    rw [key]

theorem mem_imageOutput_aux (m : Mapping ε) (es acc : List ε) (y : ε) :
    y ∈ es.foldl (fun out e => insertAll out (entitlementImage m e)) acc ↔
      y ∈ acc ∨ ∃ e, e ∈ es ∧ y ∈ entitlementImage m e := by
  induction es generalizing acc with
  | nil => simp
  | cons x xs ih =>
    simp only [List.foldl_cons]
    rw [ih, mem_insertAll]
    constructor
    · rintro ((h | h) | ⟨e, he, hy⟩)
      · exact .inl h
      · exact .inr ⟨x, by simp, h⟩
      · exact .inr ⟨e, by simp [he], hy⟩
    · rintro (h | ⟨e, he, hy⟩)
      · exact .inl (.inl h)
      · rcases List.mem_cons.mp he with rfl | he
        · exact .inl (.inr hy)
        · exact .inr ⟨e, he, hy⟩

theorem mem_imageOutput (m : Mapping ε) (es : List ε) (y : ε) :
    y ∈ imageOutput m es ↔ ∃ e, e ∈ es ∧ y ∈ entitlementImage m e := by
  unfold imageOutput
  rw [mem_imageOutput_aux]
  simp

theorem mem_applyMap (m : Mapping ε) (H : List ε) (y : ε) :
    y ∈ applyMap m H ↔ ∃ h, h ∈ H ∧ y ∈ entitlementImage m h := by
  unfold applyMap
  simp only [List.mem_flatMap, List.mem_append, List.mem_map, List.mem_filter]
  constructor
  · rintro ⟨h, hh, hy⟩
    refine ⟨h, hh, (mem_entitlementImage m h y).mpr ?_⟩
    rcases hy with ⟨⟨i, o⟩, ⟨hm, hi⟩, ho⟩ | hy
    · simp at hi ho; subst hi; subst ho; exact .inl hm
    · by_cases hid : m.includesIdentity = true
      · simp [hid] at hy; exact .inr ⟨hid, hy⟩
      · simp [hid] at hy
  · rintro ⟨h, hh, hy⟩
    refine ⟨h, hh, ?_⟩
    rcases (mem_entitlementImage m h y).mp hy with hm | ⟨hid, rfl⟩
    · exact .inl ⟨(h, y), ⟨hm, by simp⟩, rfl⟩
    · right; simp [hid]

/-! ### `permits` = set semantics -/

theorem permits_iff (req held : Access ε) (hr : IsAuth req) (hh : IsAuth held) :
    permits req held = true ↔ ∀ H : List ε, den held H → sat req H = true := by
  cases req with
  | map m => exact absurd hr (by simp [IsAuth])
  | prim p =>
    have hp : p = .all := hr
    subst hp
    cases held with
    | map m => exact absurd hh (by simp [IsAuth])
    | prim q =>
      have hq : q = .all := hh
      subst hq
      simp [permits, sat]
    | set k S => cases k <;> simp [permits, sat]
  | set k S =>
    have hS : S ≠ [] := hr
    cases held with
    | map m => exact absurd hh (by simp [IsAuth])
    | prim q =>
      have hq : q = .all := hh
      subst hq
      have : sat (.set k S) ([] : List ε) = false := sat_nil_of_nonempty k S hS
      simp only [permits]
      constructor
      · intro h; exact absurd h (by decide)
      · intro h
        have := h [] (by simp [den])
        simp_all
    | set k' T =>
      cases k <;> cases k'
      · -- conj / conj : S ⊆ T
        simp only [permits, den, sat, List.all_eq_true, List.contains_iff_mem]
        constructor
        · intro h H hH s hs; exact hH s (h s hs)
        · intro h s hs; exact h T (fun t ht => ht) s hs
      · -- req conj S, held disj T : all equal
        simp only [permits, den, sat, List.all_eq_true, List.contains_iff_mem, beq_iff_eq]
        constructor
        · rintro h H ⟨t, ht, htH⟩ s hs
          rw [← h t ht s hs]; exact htH
        · intro h t ht s hs
          have := h [t] ⟨t, ht, by simp⟩ s hs
          have : s = t := by simpa using this
          exact this.symm
      · -- req disj S, held conj T : not disjoint
        simp only [permits, den, sat, List.any_eq_true, List.contains_iff_mem]
        constructor
        · rintro ⟨s, hs, hsT⟩ H hH; exact ⟨s, hs, hH s hsT⟩
        · intro h; exact h T (fun t ht => ht)
      · -- disj / disj : T ⊆ S
        simp only [permits, den, sat, List.all_eq_true, List.any_eq_true, List.contains_iff_mem]
        constructor
        · rintro h H ⟨t, ht, htH⟩; exact ⟨t, h t ht, htH⟩
        · intro h t ht
          obtain ⟨s, hs, hst⟩ := h [t] ⟨t, ht, by simp⟩
          have : s = t := by simpa using hst
          exact this ▸ hs

theorem permits_unauth_left (x : Access ε) (hx : IsAuth x) : permits (.prim .all) x = true := by
  cases x with
  | map m => exact absurd hx (by simp [IsAuth])
  | prim q => have hq : q = .all := hx; subst hq; simp [permits]
  | set k S => simp [permits]

theorem equal_den (a b : Access ε) (ha : IsAuth a) (hb : IsAuth b) (h : equal a b = true) :
    ∀ H : List ε, den a H ↔ den b H := by
  cases a with
  | map m => exact absurd ha (by simp [IsAuth])
  | prim p =>
    cases b with
    | prim q => have : p = q := by simpa [equal] using h
                subst this; intro H; exact Iff.rfl
    | set k S => simp [equal] at h
    | map m => simp [equal] at h
  | set k S =>
    cases b with
    | prim q => simp [equal] at h
    | map m => simp [equal] at h
    | set k' T =>
      simp only [equal, Bool.and_eq_true] at h
      obtain ⟨⟨_, h1⟩, h2⟩ := h
      intro H
      constructor
      · intro hd
        exact (den_iff_sat _ H).mpr ((permits_iff _ _ hb ha).mp h2 H hd)
      · intro hd
        exact (den_iff_sat _ H).mpr ((permits_iff _ _ ha hb).mp h1 H hd)

/-! ### `intersect` -/

theorem isAuth_accessFromSet (k : SetKind) (es : List ε) : IsAuth (accessFromSet k es) := by
  unfold accessFromSet
  cases es with
  | nil => simp [IsAuth, unauthorized]
  | cons x xs => simp [IsAuth]

theorem intersect_non_set' (a b : Access ε) (h : (∀ k es, a ≠ .set k es) ∨ (∀ k es, b ≠ .set k es)) :
    intersect a b = unauthorized := by
  cases a with
  | prim p => simp [intersect]
  | map m => simp [intersect]
  | set k S =>
    cases b with
    | prim p => cases k <;> simp [intersect]
    | map m => cases k <;> simp [intersect]
    | set k' T =>
      rcases h with h | h
      · exact absurd rfl (h k S)
      · exact absurd rfl (h k' T)

theorem intersect_isAuth (a b : Access ε) (ha : IsAuth a) (hb : IsAuth b) : IsAuth (intersect a b) := by
  cases a with
  | map m => exact absurd ha (by simp [IsAuth])
  | prim p => simp [intersect, IsAuth, unauthorized]
  | set k S =>
    cases b with
    | map m => exact absurd hb (by simp [IsAuth])
    | prim p => cases k <;> simp [intersect, IsAuth, unauthorized]
    | set k' T =>
      cases k <;> cases k' <;> simp only [intersect]
      · exact isAuth_accessFromSet _ _
      · split
        · exact hb
        · simp [IsAuth, unauthorized]
      · split
        · exact ha
        · simp [IsAuth, unauthorized]
      · simp [IsAuth, unauthorized]

theorem den_unauthorized (H : List ε) : den (unauthorized : Access ε) H := by
  simp [den, unauthorized]

theorem exists_mem_of_ne_nil (S : List ε) (h : S ≠ []) : ∃ x, x ∈ S := by
  cases S with
  | nil => exact absurd rfl h
  | cons x xs => exact ⟨x, by simp⟩

theorem intersect_den (a b : Access ε) (ha : IsAuth a) (hb : IsAuth b) :
    ∀ H : List ε, den a H ∨ den b H → den (intersect a b) H := by
  intro H hH
  cases a with
  | map m => exact absurd ha (by simp [IsAuth])
  | prim p => rw [intersect_non_set' _ _ (.inl (by simp))]; exact den_unauthorized H
  | set k S =>
    cases b with
    | map m => exact absurd hb (by simp [IsAuth])
    | prim p => rw [intersect_non_set' _ _ (.inr (by simp))]; exact den_unauthorized H
    | set k' T =>
      have hS : S ≠ [] := ha
      have hT : T ≠ [] := hb
      cases k <;> cases k' <;> simp only [intersect]
      · -- conj / conj
        unfold accessFromSet
        split
        · exact den_unauthorized H
        · simp only [den]
          intro y hy
          have := (mem_keyIntersection S T y).mp hy
          rcases hH with h | h
          · exact h y this.1
          · exact h y this.2
      · -- conj S / disj T
        split
        · rename_i hsub
          rcases hH with h | h
          · obtain ⟨t, ht⟩ := exists_mem_of_ne_nil T hT
            have : t ∈ S := by
              have := List.all_eq_true.mp hsub t ht
              simpa using this
            exact ⟨t, ht, h t this⟩
          · exact h
        · exact den_unauthorized H
      · -- disj S / conj T
        split
        · rename_i hsub
          rcases hH with h | h
          · exact h
          · obtain ⟨t, ht⟩ := exists_mem_of_ne_nil S hS
            have : t ∈ T := by
              have := List.all_eq_true.mp hsub t ht
              simpa using this
            exact ⟨t, ht, h t this⟩
        · exact den_unauthorized H
      · exact den_unauthorized H

/-! ### `image` -/

theorem image_set_eq (m : Mapping ε) (k : SetKind) (es : List ε) (r : Access ε)
    (h : image m (.set k es) = some r) :
    imageUnrepresentable m k es = false ∧
    r = (if (imageOutput m es).isEmpty || imageDisjEmptyMember m k es then unauthorized
         else .set k (imageOutput m es)) := by
  simp only [image] at h
  split at h
  · exact absurd h (by simp)
  · rename_i hu
    refine ⟨by simpa using hu, ?_⟩
    split at h <;> rename_i hc
    · simp only [hc, if_true]; exact (Option.some.inj h).symm
    · simp only [hc]; exact (Option.some.inj h).symm

theorem image_isAuth (m : Mapping ε) (a r : Access ε) (ha : IsAuth a) (h : image m a = some r) : IsAuth r := by
  cases a with
  | map mm => exact absurd ha (by simp [IsAuth])
  | prim p =>
    simp only [image] at h
    rw [← Option.some.inj h]; exact ha
  | set k es =>
    obtain ⟨_, hr⟩ := image_set_eq m k es r h
    rw [hr]
    split
    · simp [IsAuth, unauthorized]
    · rename_i hc
      simp only [IsAuth]
      intro hnil
      apply hc
      simp [hnil]

theorem image_den (m : Mapping ε) (a r : Access ε) (ha : IsAuth a) (h : image m a = some r) :
    ∀ H : List ε, den a H → den r (applyMap m H) := by
  intro H hH
  cases a with
  | map mm => exact absurd ha (by simp [IsAuth])
  | prim p =>
    have hp : p = .all := ha
    subst hp
    simp only [image] at h
    rw [← Option.some.inj h]; simp [den]
  | set k es =>
    obtain ⟨_, hr⟩ := image_set_eq m k es r h
    rw [hr]
    split
    · exact den_unauthorized _
    · rename_i hc
      simp only [Bool.or_eq_true, not_or] at hc
      cases k
      · -- conjunction: every output comes from a member the holder has
        simp only [den]
        intro y hy
        obtain ⟨e, he, hye⟩ := (mem_imageOutput m es y).mp hy
        exact (mem_applyMap m H y).mpr ⟨e, hH e he, hye⟩
      · -- disjunction: the member the holder has maps to something
        simp only [den]
        obtain ⟨e, he, heH⟩ := hH
        have hne : entitlementImage m e ≠ [] := by
          intro hnil
          apply hc.2
          simp only [imageDisjEmptyMember, beq_self_eq_true, Bool.true_and, List.any_eq_true]
          exact ⟨e, he, by simp [hnil]⟩
        obtain ⟨y, hy⟩ := exists_mem_of_ne_nil _ hne
        exact ⟨y, (mem_imageOutput m es y).mpr ⟨e, he, hy⟩, (mem_applyMap m H y).mpr ⟨e, heH, hy⟩⟩

/-- what `image` says when the result is an entitlement set -/
theorem image_set_result (m : Mapping ε) (k : SetKind) (es : List ε) (k' : SetKind) (out : List ε)
    (h : image m (.set k es) = some (.set k' out)) :
    k' = k ∧ out = imageOutput m es ∧ out ≠ [] ∧
    (k = .disj → ∀ e, e ∈ es → entitlementImage m e ≠ [] ∧ (entitlementImage m e).length ≤ 1) := by
  obtain ⟨hu, hr⟩ := image_set_eq m k es _ h
  split at hr
  · simp [unauthorized] at hr
  · rename_i hc
    simp only [Bool.or_eq_true, not_or] at hc
    injection hr with hk ho
    refine ⟨hk, ho, ?_, ?_⟩
    · rw [ho]; intro hnil; apply hc.1; simp [hnil]
    · intro hk e he
      subst hk
      constructor
      · intro hnil
        apply hc.2
        simp only [imageDisjEmptyMember, beq_self_eq_true, Bool.true_and, List.any_eq_true]
        exact ⟨e, he, by simp [hnil]⟩
      · simp only [imageUnrepresentable, beq_self_eq_true, Bool.true_and] at hu
        have := List.any_eq_false.mp hu e he
        simpa using this

/-- … and conversely: a non-empty output without an offending disjunction member is returned as a set -/
theorem image_set_of_nonempty (m : Mapping ε) (k : SetKind) (es : List ε) (r : Access ε)
    (h : image m (.set k es) = some r) (hne : imageOutput m es ≠ [])
    (hd : k = .disj → ∀ e, e ∈ es → entitlementImage m e ≠ []) :
    r = .set k (imageOutput m es) := by
  obtain ⟨_, hr⟩ := image_set_eq m k es r h
  rw [hr]
  split
  · rename_i hc
    simp only [Bool.or_eq_true] at hc
    rcases hc with hc | hc
    · exact absurd (by simpa using hc) hne
    · simp only [imageDisjEmptyMember, Bool.and_eq_true, beq_iff_eq, List.any_eq_true] at hc
      obtain ⟨hk, e, he, hemp⟩ := hc
      exact absurd (by simpa using hemp) (hd hk e he).elim
  · rfl

theorem eq_of_mem_length_le_one (l : List ε) (h : l.length ≤ 1) (x y : ε) (hx : x ∈ l) (hy : y ∈ l) : x = y := by
  match l, h with
  | [], _ => simp at hx
  | [z], _ => simp at hx hy; rw [hx, hy]
  | _ :: _ :: _, h => simp at h

theorem image_mono (m : Mapping ε) (a b ra rb : Access ε) (ha : IsAuth a) (hb : IsAuth b)
    (hab : permits b a = true) (h1 : image m a = some ra) (h2 : image m b = some rb) :
    permits rb ra = true := by
  have hra := image_isAuth m a ra ha h1
  cases rb with
  | map mm => exact absurd (image_isAuth m b _ hb h2) (by simp [IsAuth])
  | prim q =>
    have hq : q = .all := image_isAuth m b _ hb h2
    subst hq
    exact permits_unauth_left ra hra
  | set kb' outB =>
    cases b with
    | map mm => exact absurd hb (by simp [IsAuth])
    | prim p => simp [image] at h2
    | set kb B =>
      obtain ⟨hk, hoB, hneB, hdB⟩ := image_set_result m kb B kb' outB h2
      subst hk
      cases a with
      | map mm => exact absurd ha (by simp [IsAuth])
      | prim p =>
        have hp : p = .all := ha
        subst hp
        simp [permits] at hab
      | set ka A =>
        have hA : A ≠ [] := ha
        obtain ⟨y0, hy0⟩ := exists_mem_of_ne_nil outB hneB
        rw [hoB] at hy0
        obtain ⟨b0, hb0, hyb0⟩ := (mem_imageOutput m B y0).mp hy0
        cases kb' <;> cases ka
        · -- conj B ⊆ conj A
          simp only [permits, List.all_eq_true, List.contains_iff_mem] at hab
          have hsub : ∀ y, y ∈ imageOutput m B → y ∈ imageOutput m A := by
            intro y hy
            obtain ⟨e, he, hye⟩ := (mem_imageOutput m B y).mp hy
            exact (mem_imageOutput m A y).mpr ⟨e, hab e he, hye⟩
          have hneA : imageOutput m A ≠ [] := by
            intro hnil
            have := hsub y0 hy0
            rw [hnil] at this
            simp at this
          rw [image_set_of_nonempty m .conj A ra h1 hneA (by intro h; cases h), hoB]
          simp only [permits, List.all_eq_true, List.contains_iff_mem]
          exact hsub
        · -- req conj B, held disj A: every member of A equals every member of B
          simp only [permits, List.all_eq_true, beq_iff_eq] at hab
          have hAeq : ∀ a', a' ∈ A → a' = b0 := fun a' ha' => hab a' ha' b0 hb0
          obtain ⟨a0, ha0⟩ := exists_mem_of_ne_nil A hA
          have hBeq : ∀ b', b' ∈ B → b' = b0 := fun b' hb' => (hab a0 ha0 b' hb').symm.trans (hAeq a0 ha0)
          have hneA : imageOutput m A ≠ [] := by
            intro hnil
            have : y0 ∈ imageOutput m A := (mem_imageOutput m A y0).mpr ⟨a0, ha0, by rw [hAeq a0 ha0]; exact hyb0⟩
            rw [hnil] at this
            simp at this
          have hnoEmpty : ∀ e, e ∈ A → entitlementImage m e ≠ [] := by
            intro e he hnil
            rw [hAeq e he] at hnil
            rw [hnil] at hyb0
            simp at hyb0
          have hraEq := image_set_of_nonempty m .disj A ra h1 hneA (fun _ => hnoEmpty)
          rw [hraEq] at h1
          obtain ⟨_, _, _, hdA⟩ := image_set_result m .disj A .disj _ h1
          rw [hraEq, hoB]
          simp only [permits, List.all_eq_true, beq_iff_eq]
          intro o ho e he
          obtain ⟨a', ha', hoa⟩ := (mem_imageOutput m A o).mp ho
          obtain ⟨b', hb', heb⟩ := (mem_imageOutput m B e).mp he
          rw [hAeq a' ha'] at hoa
          rw [hBeq b' hb'] at heb
          have hlen := (hdA rfl a0 ha0).2
          rw [hAeq a0 ha0] at hlen
          exact eq_of_mem_length_le_one _ hlen o e hoa heb
        · -- req disj B, held conj A: a common member, whose image is non-empty
          simp only [permits, List.any_eq_true, List.contains_iff_mem] at hab
          obtain ⟨x, hxB, hxA⟩ := hab
          obtain ⟨y, hy⟩ := exists_mem_of_ne_nil _ (hdB rfl x hxB).1
          have hyA : y ∈ imageOutput m A := (mem_imageOutput m A y).mpr ⟨x, hxA, hy⟩
          have hneA : imageOutput m A ≠ [] := by
            intro hnil; rw [hnil] at hyA; simp at hyA
          rw [image_set_of_nonempty m .conj A ra h1 hneA (by intro h; cases h), hoB]
          simp only [permits, List.any_eq_true, List.contains_iff_mem]
          exact ⟨y, (mem_imageOutput m B y).mpr ⟨x, hxB, hy⟩, hyA⟩
        · -- disj A ⊆ disj B
          simp only [permits, List.all_eq_true, List.contains_iff_mem] at hab
          obtain ⟨a0, ha0⟩ := exists_mem_of_ne_nil A hA
          obtain ⟨y, hy⟩ := exists_mem_of_ne_nil _ (hdB rfl a0 (hab a0 ha0)).1
          have hneA : imageOutput m A ≠ [] := by
            intro hnil
            have : y ∈ imageOutput m A := (mem_imageOutput m A y).mpr ⟨a0, ha0, hy⟩
            rw [hnil] at this; simp at this
          rw [image_set_of_nonempty m .disj A ra h1 hneA (fun _ e he => (hdB rfl e (hab e he)).1), hoB]
          simp only [permits, List.all_eq_true, List.contains_iff_mem]
          intro o ho
          obtain ⟨e, he, hoe⟩ := (mem_imageOutput m A o).mp ho
          exact (mem_imageOutput m B o).mpr ⟨e, hab e he, hoe⟩

end Verif.Proofs.Auth
