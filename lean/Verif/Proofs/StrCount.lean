import Verif.Proofs.StrIndex
/-! C19: `count`, `split` equal their cluster-list specs; `split` then `join` gives back the string. -/
namespace Verif.Proofs.Str
open Verif.Model.Str
open Verif.Spec.Str (alignedPrefix spanLen)

/-- an aligned occurrence at the head covers exactly `spanLen` clusters -/
theorem aligned_span : ∀ (rest : List Bytes) (needle : Bytes), alignedPrefix rest needle = true →
    spanLen rest needle ≤ rest.length ∧ (rest.take (spanLen rest needle)).flatten = needle
  | rest, [], _ => by cases rest <;> simp [spanLen]
  | [], n :: ns, h => by simp [alignedPrefix] at h
  | c :: cs, n :: ns, h => by
    simp only [alignedPrefix] at h
    split at h
    · rename_i hp
      obtain ⟨hm, he⟩ := aligned_span cs _ h
      obtain ⟨t, ht⟩ := List.isPrefixOf_iff_prefix.mp hp
      refine ⟨by simp only [spanLen, List.length_cons]; omega, ?_⟩
      simp only [spanLen, Nat.add_comm 1, List.take_succ_cons, List.flatten_cons, he]
      rw [← ht]; simp
    · cases h

/-- the segmentation assumption of the model, as far as `count` / `split` use it: every aligned
occurrence of the needle spans as many clusters as the needle has on its own -/
def SegStable (cs : List Bytes) (needle : Bytes) (nlen : Nat) : Prop :=
  ∀ i, alignedPrefix (cs.drop i) needle = true → spanLen (cs.drop i) needle = nlen

theorem SegStable.drop {cs : List Bytes} {needle : Bytes} {nlen : Nat} (h : SegStable cs needle nlen) (k : Nat) :
    SegStable (cs.drop k) needle nlen := by
  intro i hi
  rw [List.drop_drop] at hi ⊢
  exact h _ hi

theorem wf_drop {cs : List Bytes} (hw : ∀ c ∈ cs, c ≠ []) (k : Nat) : ∀ c ∈ cs.drop k, c ≠ [] :=
  fun c hc => hw c (List.mem_of_mem_drop hc)

/-- what `indexOf` answers on a well-formed string, in terms of the spec -/
theorem indexOf_cases (cs : List Bytes) (hw : ∀ c ∈ cs, c ≠ []) (needle : Bytes) (hn : needle ≠ []) :
    (Verif.Spec.Str.indexOf cs needle 0 = none ∧ (⟨cs⟩ : Str).indexOf needle = none) ∨
    ∃ i, Verif.Spec.Str.indexOf cs needle 0 = some i ∧ (⟨cs⟩ : Str).indexOf needle = some (i, startOf cs i) ∧
      i < cs.length ∧ alignedPrefix (cs.drop i) needle = true := by
  have h := indexOf_eq_spec ⟨cs⟩ hw needle hn
  cases hs : Verif.Spec.Str.indexOf cs needle 0 with
  | none => left; rw [hs] at h; exact ⟨rfl, h⟩
  | some i =>
    right
    rw [hs] at h
    obtain ⟨k, hk, hl, hal, _⟩ := spec_indexOf_some _ _ _ _ hs
    have : i = k := by omega
    subst this
    exact ⟨i, rfl, h, hl, hal⟩

theorem countLoop_eq_spec (needle : Bytes) (hn : needle ≠ []) (nlen : Nat) : ∀ (fuel : Nat) (cs : List Bytes),
    (∀ c ∈ cs, c ≠ []) → SegStable cs needle nlen →
    countLoop needle nlen fuel ⟨cs⟩ = Verif.Spec.Str.count needle fuel cs
  | 0, _, _, _ => rfl
  | fuel + 1, cs, hw, hs => by
    simp only [countLoop, Verif.Spec.Str.count]
    rcases indexOf_cases cs hw needle hn with ⟨h1, h2⟩ | ⟨i, h1, h2, _, hal⟩
    · rw [h1, h2]
    · rw [h1, h2]
      simp only [Str.dropClusters]
      rw [hs i hal]
      rw [countLoop_eq_spec needle hn nlen fuel _ (wf_drop hw _) (hs.drop _)]

theorem splitLoop_eq_spec (sep : Bytes) (hn : sep ≠ []) (nlen : Nat) : ∀ (fuel : Nat) (cs : List Bytes),
    (∀ c ∈ cs, c ≠ []) → SegStable cs sep nlen →
    splitLoop sep nlen fuel ⟨cs⟩ = (Verif.Spec.Str.split sep fuel cs).map Str.mk
  | 0, _, _, _ => rfl
  | fuel + 1, cs, hw, hs => by
    simp only [splitLoop, Verif.Spec.Str.split]
    rcases indexOf_cases cs hw sep hn with ⟨h1, h2⟩ | ⟨i, h1, h2, _, hal⟩
    · rw [h1, h2]; rfl
    · rw [h1, h2]
      simp only [Str.dropClusters, List.map_cons]
      rw [hs i hal]
      rw [splitLoop_eq_spec sep hn nlen fuel _ (wf_drop hw _) (hs.drop _)]

theorem spec_split_ne_nil (sep : Bytes) : ∀ (fuel : Nat) (cs : List Bytes), Verif.Spec.Str.split sep fuel cs ≠ []
  | 0, _ => by simp [Verif.Spec.Str.split]
  | fuel + 1, cs => by
    simp only [Verif.Spec.Str.split]
    split <;> simp

theorem joinBytes_cons (sep x : Bytes) {l : List Bytes} (h : l ≠ []) :
    joinBytes sep (x :: l) = x ++ sep ++ joinBytes sep l := by
  cases l with
  | nil => exact absurd rfl h
  | cons y r => rfl

/-- joining the parts of the spec's split with the separator gives back the bytes -/
theorem spec_split_join (sep : Bytes) : ∀ (fuel : Nat) (cs : List Bytes),
    joinBytes sep ((Verif.Spec.Str.split sep fuel cs).map List.flatten) = cs.flatten
  | 0, cs => by simp [Verif.Spec.Str.split, joinBytes]
  | fuel + 1, cs => by
    simp only [Verif.Spec.Str.split]
    cases hi : Verif.Spec.Str.indexOf cs sep 0 with
    | none => simp [joinBytes]
    | some i =>
      obtain ⟨k, hk, hl, hal, _⟩ := spec_indexOf_some _ _ _ _ hi
      have : i = k := by omega
      subst this
      simp only [List.map_cons]
      rw [joinBytes_cons _ _ (by simpa using spec_split_ne_nil sep fuel _), spec_split_join sep fuel]
      obtain ⟨_, he⟩ := aligned_span _ _ hal
      -- cs = take i ++ (the spanned clusters) ++ the rest
      conv => rhs; rw [← List.take_append_drop i cs, List.flatten_append]
      rw [List.append_assoc]
      congr 1
      conv => rhs; rw [← List.take_append_drop (spanLen (cs.drop i) sep) (cs.drop i), List.flatten_append, he]
      rw [List.drop_drop]

theorem joinBytes_nil_sep : ∀ (l : List Bytes), joinBytes [] l = l.flatten
  | [] => rfl
  | [x] => by simp [joinBytes]
  | x :: y :: r => by
    have := joinBytes_nil_sep (y :: r)
    simp only [joinBytes, List.append_nil, List.flatten_cons] at this ⊢
    rw [this]

end Verif.Proofs.Str
