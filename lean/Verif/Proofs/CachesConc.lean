import Verif.Model.Caches
/-! Helper lemmas for C36 (interleaving semantics of memo-cell reads; pools).  Core only. -/
namespace Verif.Proofs.CachesConc
open Verif.Model.Caches

variable {α : Type}

/-- thread-local state is compatible with the pure value `v` and the shared cell -/
def PcOk (v : α) (cell : Option α) (pc : PC α) : Prop :=
  pc = .start ∨ pc = .sawEmpty ∨ (pc = .finished v ∧ cell = some v)

def CellOk (v : α) (cell : Option α) : Prop := cell = none ∨ cell = some v

def Inv (v : α) (c : Config α) : Prop := CellOk v c.cell ∧ ∀ pc ∈ c.pcs, PcOk v c.cell pc

theorem step_cell_some (pr : Protocol) (v : α) (pc : PC α) :
    (stepThread pr v (some v) pc).1 = some v := by
  cases pc <;> cases pr <;> simp [stepThread]

theorem step_cell_ok (pr : Protocol) (v : α) (cell : Option α) (pc : PC α) (h : CellOk v cell) :
    CellOk v (stepThread pr v cell pc).1 := by
  rcases h with h | h <;> subst h <;> cases pc <;> cases pr <;> simp [stepThread, CellOk]

theorem step_pc_ok (pr : Protocol) (v : α) (cell : Option α) (pc : PC α) (hc : CellOk v cell)
    (hp : PcOk v cell pc) : PcOk v (stepThread pr v cell pc).1 (stepThread pr v cell pc).2 := by
  rcases hc with hc | hc <;> subst hc
  · rcases hp with hp | hp | ⟨_, hp⟩
    · subst hp; cases pr <;> simp [stepThread, PcOk]
    · subst hp; cases pr <;> simp [stepThread, PcOk]
    · cases hp
  · rcases hp with hp | hp | ⟨hp, _⟩ <;> subst hp <;> cases pr <;> simp [stepThread, PcOk]

/-- a step of one thread keeps the other threads' local states compatible -/
theorem other_pc_ok (pr : Protocol) (v : α) (cell : Option α) (pc other : PC α) (hc : CellOk v cell)
    (ho : PcOk v cell other) : PcOk v (stepThread pr v cell pc).1 other := by
  rcases ho with ho | ho | ⟨ho, hcell⟩
  · exact Or.inl ho
  · exact Or.inr (Or.inl ho)
  · subst hcell
    exact Or.inr (Or.inr ⟨ho, step_cell_some pr v pc⟩)

theorem stepAt_inv (protos : List Protocol) (initOf : Nat → α) (v : α) (hpure : ∀ i, initOf i = v)
    (c : Config α) (i : Nat) (h : Inv v c) : Inv v (stepAt protos initOf c i) := by
  unfold stepAt
  cases hpc : c.pcs[i]? with
  | none => exact h
  | some pc =>
    cases hpr : protos[i]? with
    | none => exact h
    | some pr =>
      simp only [hpure]
      have hmem : pc ∈ c.pcs := List.mem_of_getElem? hpc
      refine ⟨step_cell_ok pr v c.cell pc h.1, ?_⟩
      intro q hq
      rcases List.mem_or_eq_of_mem_set hq with hq | hq
      · exact other_pc_ok pr v c.cell pc q h.1 (h.2 q hq)
      · subst hq; exact step_pc_ok pr v c.cell pc h.1 (h.2 pc hmem)

theorem exec_inv (protos : List Protocol) (initOf : Nat → α) (v : α) (hpure : ∀ i, initOf i = v)
    (schedule : List Nat) : ∀ c, Inv v c → Inv v (exec protos initOf c schedule) := by
  induction schedule with
  | nil => intro c h; exact h
  | cons i rest ih => intro c h; exact ih _ (stepAt_inv protos initOf v hpure c i h)

theorem initial_inv (n : Nat) (v : α) (cell : Option α) (h : CellOk v cell) : Inv v (initial n cell) := by
  refine ⟨h, ?_⟩
  intro pc hpc
  simp [initial, List.mem_replicate] at hpc
  exact Or.inl hpc.2

/-! progress -/

def rank : PC α → Nat
  | .start => 2
  | .sawEmpty => 1
  | .finished _ => 0

def rankAt (c : Config α) (i : Nat) : Nat :=
  match c.pcs[i]? with
  | some pc => rank pc
  | none => 0

theorem step_rank (pr : Protocol) (mine : α) (cell : Option α) (pc : PC α) :
    rank (stepThread pr mine cell pc).2 ≤ rank pc - 1 := by
  cases pc <;> cases pr <;> cases cell <;> simp [stepThread, rank]

theorem stepAt_length (protos : List Protocol) (initOf : Nat → α) (c : Config α) (j : Nat) :
    (stepAt protos initOf c j).pcs.length = c.pcs.length := by
  unfold stepAt
  cases c.pcs[j]? <;> cases protos[j]? <;> simp

theorem stepAt_some (protos : List Protocol) (initOf : Nat → α) (c : Config α) (j : Nat) (pc : PC α) (pr : Protocol)
    (hpc : c.pcs[j]? = some pc) (hpr : protos[j]? = some pr) :
    stepAt protos initOf c j =
      { cell := (stepThread pr (initOf j) c.cell pc).1, pcs := c.pcs.set j (stepThread pr (initOf j) c.cell pc).2 } := by
  simp [stepAt, hpc, hpr]

theorem stepAt_rank_le (protos : List Protocol) (initOf : Nat → α) (c : Config α) (i j : Nat) :
    rankAt (stepAt protos initOf c j) i ≤ rankAt c i := by
  cases hpc : c.pcs[j]? with
  | none => simp [stepAt, hpc]
  | some pc =>
    cases hpr : protos[j]? with
    | none => simp [stepAt, hpc, hpr]
    | some pr =>
      rw [stepAt_some protos initOf c j pc pr hpc hpr]
      by_cases hij : j = i
      · subst hij
        obtain ⟨hlt, _⟩ := List.getElem?_eq_some_iff.mp hpc
        have hL : (c.pcs.set j (stepThread pr (initOf j) c.cell pc).2)[j]? = some (stepThread pr (initOf j) c.cell pc).2 := by
          simp [List.getElem?_set, hlt]
        simp only [rankAt, hL, hpc]
        exact Nat.le_trans (step_rank pr (initOf j) c.cell pc) (Nat.sub_le _ _)
      · have hL : (c.pcs.set j (stepThread pr (initOf j) c.cell pc).2)[i]? = c.pcs[i]? := by
          simp [List.getElem?_set, hij]
        simp only [rankAt, hL]
        exact Nat.le_refl _

theorem stepAt_rank_self (protos : List Protocol) (initOf : Nat → α) (c : Config α) (i : Nat)
    (hlen : protos.length = c.pcs.length) : rankAt (stepAt protos initOf c i) i ≤ rankAt c i - 1 := by
  cases hpc : c.pcs[i]? with
  | none => simp [stepAt, rankAt, hpc]
  | some pc =>
    obtain ⟨hlt, _⟩ := List.getElem?_eq_some_iff.mp hpc
    have hlt' : i < protos.length := by omega
    cases hpr : protos[i]? with
    | none => rw [List.getElem?_eq_none_iff] at hpr; omega
    | some pr =>
      rw [stepAt_some protos initOf c i pc pr hpc hpr]
      have hL : (c.pcs.set i (stepThread pr (initOf i) c.cell pc).2)[i]? = some (stepThread pr (initOf i) c.cell pc).2 := by
        simp [List.getElem?_set, hlt]
      simp only [rankAt, hL, hpc]
      exact step_rank pr (initOf i) c.cell pc

theorem exec_rank (protos : List Protocol) (initOf : Nat → α) (i : Nat) (schedule : List Nat) :
    ∀ c : Config α, protos.length = c.pcs.length →
      rankAt (exec protos initOf c schedule) i ≤ rankAt c i - schedule.count i := by
  induction schedule with
  | nil => intro c _; simp [exec]
  | cons j rest ih =>
    intro c hlen
    have hlen' : protos.length = (stepAt protos initOf c j).pcs.length := by
      rw [stepAt_length]; exact hlen
    have h1 := ih (stepAt protos initOf c j) hlen'
    simp only [exec, List.foldl_cons] at h1 ⊢
    by_cases hji : j = i
    · subst hji
      have h2 := stepAt_rank_self protos initOf c j hlen
      simp only [List.count_cons_self]
      omega
    · have h2 := stepAt_rank_le protos initOf c i j
      have : (j == i) = false := by simp [hji]
      simp only [List.count_cons, this]
      simp
      omega

theorem exec_length (protos : List Protocol) (initOf : Nat → α) (schedule : List Nat) :
    ∀ c : Config α, (exec protos initOf c schedule).pcs.length = c.pcs.length := by
  induction schedule with
  | nil => intro c; rfl
  | cons j rest ih =>
    intro c
    simp only [exec, List.foldl_cons]
    have := ih (stepAt protos initOf c j)
    simp only [exec] at this
    rw [this, stepAt_length]

theorem rank_zero_finished (pc : PC α) (h : rank pc = 0) : ∃ w, pc = .finished w := by
  cases pc with
  | start => simp [rank] at h
  | sawEmpty => simp [rank] at h
  | finished w => exact ⟨w, rfl⟩

/-! pools -/

theorem find_of_any (A : List (String × String)) (f : String) (h : A.any (fun a => a.1 == f) = true) :
    ∃ a, A.reverse.find? (fun a => a.1 == f) = some a := by
  have : (A.reverse.find? (fun a => a.1 == f)).isSome = true := by
    rw [List.find?_isSome]
    rcases List.any_eq_true.mp h with ⟨a, ha, hf⟩
    exact ⟨a, List.mem_reverse.mpr ha, hf⟩
  exact Option.isSome_iff_exists.mp this

theorem assign_eq (A : List (String × String)) :
    ∀ o₁ o₂ : Obj, o₁.map Prod.fst = o₂.map Prod.fst →
      (∀ f ∈ o₁.map Prod.fst, A.any (fun a => a.1 == f) = true) → assign o₁ A = assign o₂ A := by
  intro o₁
  induction o₁ with
  | nil => intro o₂ h _; cases o₂ with
    | nil => rfl
    | cons _ _ => simp at h
  | cons x xs ih =>
    intro o₂ h hall
    cases o₂ with
    | nil => simp at h
    | cons y ys =>
      simp only [List.map_cons, List.cons.injEq] at h
      have hx := hall x.1 (by simp)
      rcases find_of_any A x.1 hx with ⟨a, ha⟩
      have hy : A.reverse.find? (fun a => a.1 == y.1) = some a := by rw [← h.1]; exact ha
      have hrest := ih ys h.2 (fun f hf => hall f (by simp only [List.map_cons, List.mem_cons]; exact Or.inr hf))
      simp only [assign, List.map_cons, ha, hy, List.cons.injEq] at hrest ⊢
      exact ⟨by rw [h.1], hrest⟩

end Verif.Proofs.CachesConc
