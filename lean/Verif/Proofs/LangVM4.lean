import Verif.Proofs.LangVM3
/-
Forward simulation (C34), third stage, part 3: call-free statements of layer L0 (declaration,
assignment to a variable, if / else, while with break / continue, return, expression statement).
-/
namespace Verif.Model.Lang.VM
open Verif.Model.Lang

macro "locate2 " h:ident : tactic =>
  `(tactic| (subst $h; simp [List.getElem?_append, List.getElem?_cons, resolve_length];
             repeat' (first | rfl | omega | split)))

macro "lenomega" : tactic =>
  `(tactic| (simp only [List.length_append, List.length_cons, List.length_nil, resolve_length] <;> omega))

theorem resolve_split3 (brk cont L : Nat) (cc ct : List Instr) (i : Instr) (hcc : noMarks cc = true)
    (hi : isMark i = false) :
    resolve brk cont L (cc ++ [i] ++ ct) = cc ++ [i] ++ resolve brk cont (L + cc.length + 1) ct := by
  rw [resolve_append, resolve_append, resolve_noMarks _ _ cc _ hcc, resolve_noMarks _ _ [i] _ (noMarks_single hi)]
  rw [show L + (cc ++ [i]).length = L + cc.length + 1 by lenomega]

theorem resolve_split5 (brk cont L : Nat) (cc ct ce : List Instr) (i j : Instr) (hcc : noMarks cc = true)
    (hi : isMark i = false) (hj : isMark j = false) :
    resolve brk cont L (cc ++ [i] ++ ct ++ [j] ++ ce) =
      cc ++ [i] ++ resolve brk cont (L + cc.length + 1) ct ++ [j] ++
        resolve brk cont (L + cc.length + 1 + ct.length + 1) ce := by
  rw [resolve_append, resolve_append, resolve_split3 _ _ _ _ _ _ hcc hi, resolve_noMarks _ _ [j] _ (noMarks_single hj)]
  rw [show L + (cc ++ [i] ++ ct ++ [j]).length = L + cc.length + 1 + ct.length + 1 by lenomega]

theorem Exec.trans_nil {tbl f tr1 f' e} (h1 : Exec tbl f tr1 (.at f')) (h2 : Exec tbl f' [] e) :
    Exec tbl f tr1 e := by
  simpa using h1.trans h2

/-! ### monad inversion with states and traces -/

theorem Res.eta_ok {α} {r : Res α} {a : α} (h : r.out = .ok a) : r = ⟨.ok a, r.st, r.tr⟩ := by
  cases r; simp_all

theorem bind_eq_ok {α β} {m : M α} {f : α → M β} {s : State} {b : β} {s' : State} {tr : List String}
    (h : (m >>= f) s = ⟨.ok b, s', tr⟩) :
    ∃ a s1 tr1 tr2, m s = ⟨.ok a, s1, tr1⟩ ∧ f a s1 = ⟨.ok b, s', tr2⟩ ∧ tr = tr1 ++ tr2 := by
  have ho : ((m >>= f) s).out = .ok b := by rw [h]
  obtain ⟨a, ha, hb⟩ := bind_ok_inv ho
  rw [M.bind_ok _ _ _ _ ha] at h
  simp only [Res.mk.injEq] at h
  refine ⟨a, (m s).st, (m s).tr, (f a (m s).st).tr, Res.eta_ok ha, ?_, h.2.2.symm⟩
  rw [Res.eta_ok hb, h.2.1]

/-- a call-free expression that yields a value leaves state and trace alone -/
theorem eval_eq_pure {p : Program} {n e s v s1 tr1} (hn : noCall e = true) (h : eval p n e s = ⟨.ok v, s1, tr1⟩) :
    (eval p n e s).out = .ok v ∧ s = s1 ∧ tr1 = [] := by
  have := eval_noCall_pure p n e s hn
  rw [h] at this
  exact ⟨by rw [h], this.1.symm, this.2⟩

theorem lvWrite_var {x : String} {w vx : Value} {s : State} {env' : Env} (hl : s.env.lookup x = some vx)
    (hu : s.env.update x w = some env') : lvWrite ⟨.var x, []⟩ w s = ⟨.ok (), ⟨env'⟩, []⟩ := by
  have h1 : getVar x s = ⟨.ok vx, s, []⟩ := by simp [getVar, hl]
  have h2 : setVar x w s = ⟨.ok (), ⟨env'⟩, []⟩ := by simp [setVar, hu]
  show (getVar x >>= fun c => M.ofExcept (pathSet c [] w) >>= fun c' => setVar x c') s = _
  rw [M.bind_ok _ _ _ vx (by rw [h1])]
  simp only [h1, pathSet, M.ofExcept]
  rw [M.bind_ok _ _ _ w (by rfl)]
  simp [M.pure, h2]

/-! ### what the machine does for a statement -/

/-- the machine's counterpart of a statement evaluation that ends with `flow`: it runs (emitting `tr`)
to the end of the statement's code / to the loop exit / to the loop head with locals satisfying `Q`,
or the activation returns the value -/
def Sim (tbl : Table) (code : List Instr) (stk : List Value) (pc : Nat) (locals : Locals) (tr : List String)
    (endpc brk cont : Nat) (Q : Locals → Prop) : Flow → Prop
  | .ret v => Exec tbl ⟨code, pc, stk, locals⟩ tr (.ret v)
  | .normal => ∃ l', Exec tbl ⟨code, pc, stk, locals⟩ tr (.at ⟨code, endpc, stk, l'⟩) ∧ Q l'
  | .brk => ∃ l', Exec tbl ⟨code, pc, stk, locals⟩ tr (.at ⟨code, brk, stk, l'⟩) ∧ Q l'
  | .cont => ∃ l', Exec tbl ⟨code, pc, stk, locals⟩ tr (.at ⟨code, cont, stk, l'⟩) ∧ Q l'

theorem Sim.after {tbl code stk pc0 l0 tr1 pc locals tr2 endpc brk cont Q flow}
    (h1 : Exec tbl ⟨code, pc0, stk, l0⟩ tr1 (.at ⟨code, pc, stk, locals⟩))
    (h2 : Sim tbl code stk pc locals tr2 endpc brk cont Q flow) :
    Sim tbl code stk pc0 l0 (tr1 ++ tr2) endpc brk cont Q flow := by
  cases flow with
  | ret v => exact h1.trans h2
  | normal => obtain ⟨l', e, q⟩ := h2; exact ⟨l', h1.trans e, q⟩
  | brk => obtain ⟨l', e, q⟩ := h2; exact ⟨l', h1.trans e, q⟩
  | cont => obtain ⟨l', e, q⟩ := h2; exact ⟨l', h1.trans e, q⟩

theorem Sim.weaken {tbl code stk pc locals tr endpc brk cont Q Q' flow}
    (h : Sim tbl code stk pc locals tr endpc brk cont Q flow) (hq : ∀ l, Q l → Q' l) :
    Sim tbl code stk pc locals tr endpc brk cont Q' flow := by
  cases flow with
  | ret v => exact h
  | normal => obtain ⟨l', e, q⟩ := h; exact ⟨l', e, hq _ q⟩
  | brk => obtain ⟨l', e, q⟩ := h; exact ⟨l', e, hq _ q⟩
  | cont => obtain ⟨l', e, q⟩ := h; exact ⟨l', e, hq _ q⟩

/-- for a flow other than `normal` the end position of the statement is irrelevant -/
theorem Sim.endpc {tbl code stk pc locals tr endpc endpc' brk cont Q flow}
    (h : Sim tbl code stk pc locals tr endpc brk cont Q flow) (hf : flow = .normal → endpc' = endpc) :
    Sim tbl code stk pc locals tr endpc' brk cont Q flow := by
  cases flow with
  | normal => rw [hf rfl]; exact h
  | _ => exact h

/-- scope, environment and locals after a statement: the scope grew by `ext` (declarations), which
is the compiler's new scope when the statement completed normally -/
def Post (cs cs' : CState) (env' : Env) (flow : Flow) (l' : Locals) : Prop :=
  ∃ ext, Rel l' cs'.next (ext ++ cs.sc) env' ∧ (flow = .normal → cs'.sc = ext ++ cs.sc)

/-- the simulation of the expressions in statement position (value case): the state is unchanged and
the machine, emitting the same trace, pushes the value -/
def TopSim (okE : Expr → Bool) (p : Program) (tbl : Table) (n : Nat) : Prop :=
  ∀ e s v s1 tr, eval p n e s = ⟨.ok v, s1, tr⟩ → okE e = true →
  ∀ sc c, compileExpr sc e = some c → ∀ locals, AgreeS sc s.env locals →
  ∀ code pre post stk, code = pre ++ c ++ post →
    s = s1 ∧ Exec tbl ⟨code, pre.length, stk, locals⟩ tr (.at ⟨code, pre.length + c.length, v :: stk, locals⟩)

theorem topSim_noCall (p : Program) (tbl : Table) (n : Nat) : TopSim noCall p tbl n := by
  intro e s v s1 tr h hnc sc c hc locals hag code pre post stk hcode
  obtain ⟨hv, hs, ht⟩ := eval_eq_pure hnc h
  subst ht
  exact ⟨hs, Exec.of_reach (sim_expr_ok p tbl n e s v hnc hv sc c hc locals hag.agree code pre post stk hcode)⟩

def StmtSim (okE : Expr → Bool) (p : Program) (tbl : Table) (n : Nat) : Prop :=
  ∀ retTy st s flow s' tr, exec p n retTy st s = ⟨.ok flow, s', tr⟩ → okS okE st = true →
  ∀ cs c cs', compileStmt retTy cs st = some (c, cs') → ∀ locals, Rel locals cs.next cs.sc s.env →
  ∀ code pre post stk brk cont L, L = pre.length → code = pre ++ resolve brk cont L c ++ post →
    L + c.length ≤ brk → cont ≤ L →
    Sim tbl code stk L locals tr (L + c.length) brk cont (Post cs cs' s'.env flow) flow

def StmtsSim (okE : Expr → Bool) (p : Program) (tbl : Table) (n : Nat) : Prop :=
  ∀ retTy ss s flow s' tr, execStmts p n retTy ss s = ⟨.ok flow, s', tr⟩ → okB okE ss = true →
  ∀ cs c cs', compileBlock retTy cs ss = some (c, cs') → ∀ locals, Rel locals cs.next cs.sc s.env →
  ∀ code pre post stk brk cont L, L = pre.length → code = pre ++ resolve brk cont L c ++ post →
    L + c.length ≤ brk → cont ≤ L →
    Sim tbl code stk L locals tr (L + c.length) brk cont (Post cs cs' s'.env flow) flow

def BlockSim (okE : Expr → Bool) (p : Program) (tbl : Table) (n : Nat) : Prop :=
  ∀ retTy ss s flow s' tr, execBlock p n retTy ss s = ⟨.ok flow, s', tr⟩ → okB okE ss = true →
  ∀ cs c cs', compileBlock retTy cs ss = some (c, cs') → ∀ locals, Rel locals cs.next cs.sc s.env →
  ∀ code pre post stk brk cont L, L = pre.length → code = pre ++ resolve brk cont L c ++ post →
    L + c.length ≤ brk → cont ≤ L →
    Sim tbl code stk L locals tr (L + c.length) brk cont
      (fun l' => Rel l' cs.next cs.sc s'.env) flow

theorem block_step (okE : Expr → Bool) (p : Program) (tbl : Table) (n : Nat) (hL' : StmtsSim okE p tbl n) :
    BlockSim okE p tbl (n + 1) := by
  intro retTy ss s flow s' tr h hnc cs c cs' hc locals hrel code pre post stk brk cont L hL hcode hb hcn
  simp only [execBlock, Res.mk.injEq] at h
  obtain ⟨ho, hs, ht⟩ := h
  have h0 : execStmts p n retTy ss s = ⟨.ok flow, (execStmts p n retTy ss s).st, tr⟩ := by
    rw [← ht]; exact Res.eta_ok ho
  have := hL' retTy ss s flow _ tr h0 hnc cs c cs' hc locals hrel code pre post stk brk cont L hL hcode hb hcn
  refine this.weaken ?_
  rintro l' ⟨ext, hr, _⟩
  rw [← hs]
  exact hrel.restore hr

theorem stmts_step (okE : Expr → Bool) (p : Program) (tbl : Table) (n : Nat) (hS : StmtSim okE p tbl n)
    (hL' : StmtsSim okE p tbl n) : StmtsSim okE p tbl (n + 1) := by
  intro retTy ss s flow s' tr h hnc cs c cs' hc locals hrel code pre post stk brk cont L hL hcode hb hcn
  subst hL
  cases ss with
  | nil =>
    simp only [compileBlock, Option.some.injEq, Prod.mk.injEq] at hc
    obtain ⟨hc1, hc2⟩ := hc; subst hc1 hc2
    have : (⟨.ok .normal, s, []⟩ : Res Flow) = ⟨.ok flow, s', tr⟩ := h
    simp only [Res.mk.injEq, Outcome.ok.injEq] at this
    obtain ⟨hf, hs, ht⟩ := this; subst hf hs ht
    exact ⟨locals, by simpa using Exec.refl _, [], by simpa using hrel, fun _ => by simp⟩
  | cons st rest =>
    simp only [okB, Bool.and_eq_true] at hnc
    cases h1 : compileStmt retTy cs st with
    | none => simp [compileBlock, h1] at hc
    | some r1 =>
      obtain ⟨c1, cs1⟩ := r1
      cases h2 : compileBlock retTy cs1 rest with
      | none => simp [compileBlock, h1, h2] at hc
      | some r2 =>
        obtain ⟨c2, cs2⟩ := r2
        simp only [compileBlock, h1, h2, Option.bind_eq_bind, Option.bind_some, Option.some.injEq, Prod.mk.injEq] at hc
        obtain ⟨hc1, hc2⟩ := hc; subst hc1 hc2
        simp only [execStmts] at h
        obtain ⟨f1, s1, tr1, tr2, he1, hk, htr⟩ := bind_eq_ok h
        have hcode1 : code = pre ++ resolve brk cont pre.length c1 ++ (resolve brk cont (pre.length + c1.length) c2 ++ post) := by
          rw [hcode, resolve_append]; simp
        have hle := compileBlock_next_le retTy rest cs1 c2 cs2 h2
        have sim1 := hS retTy st s f1 s1 tr1 he1 hnc.1 cs c1 cs1 h1 locals hrel code pre _ stk brk cont _ rfl hcode1
          (by simp only [List.length_append] at hb; omega) hcn
        subst htr
        cases f1 with
        | normal =>
          obtain ⟨l1, e1, ext1, hr1, hsc1⟩ := sim1
          have hsc := hsc1 rfl
          rw [← hsc] at hr1
          have hcode2 : code = (pre ++ resolve brk cont pre.length c1) ++
              resolve brk cont (pre.length + c1.length) c2 ++ post := by
            rw [hcode1]; simp
          have sim2 := hL' retTy rest s1 flow s' tr2 hk hnc.2 cs1 c2 cs2 h2 l1 hr1 code _ post stk brk cont
            (pre.length + c1.length) (by simp [resolve_length]) hcode2
            (by simp only [List.length_append] at hb; omega) (by omega)
          have sim2' := Sim.after e1 sim2
          rw [show pre.length + (c1 ++ c2).length = pre.length + c1.length + c2.length by simp; omega]
          refine sim2'.weaken ?_
          rintro l ⟨ext2, hr2, hn2⟩
          refine ⟨ext2 ++ ext1, by rw [hsc] at hr2; simpa using hr2, fun hn => ?_⟩
          rw [hn2 hn, hsc]; simp
        | brk =>
          have : (⟨.ok .brk, s1, []⟩ : Res Flow) = ⟨.ok flow, s', tr2⟩ := hk
          simp only [Res.mk.injEq, Outcome.ok.injEq] at this
          obtain ⟨hf, hs, ht⟩ := this; subst hf hs ht
          refine (Sim.weaken (Sim.endpc (by simpa using sim1) (by simp)) ?_)
          rintro l ⟨ext1, hr1, _⟩
          exact ⟨ext1, hr1.mono hle, by simp⟩
        | cont =>
          have : (⟨.ok .cont, s1, []⟩ : Res Flow) = ⟨.ok flow, s', tr2⟩ := hk
          simp only [Res.mk.injEq, Outcome.ok.injEq] at this
          obtain ⟨hf, hs, ht⟩ := this; subst hf hs ht
          refine (Sim.weaken (Sim.endpc (by simpa using sim1) (by simp)) ?_)
          rintro l ⟨ext1, hr1, _⟩
          exact ⟨ext1, hr1.mono hle, by simp⟩
        | ret v =>
          have : (⟨.ok (.ret v), s1, []⟩ : Res Flow) = ⟨.ok flow, s', tr2⟩ := hk
          simp only [Res.mk.injEq, Outcome.ok.injEq] at this
          obtain ⟨hf, hs, ht⟩ := this; subst hf hs ht
          refine (Sim.weaken (Sim.endpc (by simpa using sim1) (by simp)) ?_)
          rintro l ⟨ext1, hr1, _⟩
          exact ⟨ext1, hr1.mono hle, by simp⟩

/-- after a normally completed statement the machine goes on quietly to `endpc'` -/
theorem Sim.then {tbl code stk pc locals tr endpc endpc' brk cont Q flow}
    (h : Sim tbl code stk pc locals tr endpc brk cont Q flow)
    (hj : ∀ l', Exec tbl ⟨code, endpc, stk, l'⟩ [] (.at ⟨code, endpc', stk, l'⟩)) :
    Sim tbl code stk pc locals tr endpc' brk cont Q flow := by
  cases flow with
  | normal => obtain ⟨l', e, q⟩ := h; exact ⟨l', by simpa using e.trans (hj l'), q⟩
  | _ => exact h

/-- a statement evaluation of the form `pure flow0` -/
theorem pure_inv {flow0 flow : Flow} {s s' : State} {tr : List String}
    (h : (⟨.ok flow0, s, []⟩ : Res Flow) = ⟨.ok flow, s', tr⟩) : flow = flow0 ∧ s = s' ∧ tr = [] := by
  simp only [Res.mk.injEq, Outcome.ok.injEq] at h
  exact ⟨h.1.symm, h.2.1, h.2.2.symm⟩

theorem stmt_step (okE : Expr → Bool) (hnmE : ∀ e sc c, okE e = true → compileExpr sc e = some c → noMarks c = true)
    (p : Program) (tbl : Table) (n : Nat) (hE : TopSim okE p tbl n)
    (hB : BlockSim okE p tbl n) (hS : StmtSim okE p tbl n) : StmtSim okE p tbl (n + 1) := by
  intro retTy st s flow s' tr h hnc cs c cs' hc locals hrel code pre post stk brk cont L hL hcode hb hcn
  subst hL
  have hag := hrel.agreeS
  cases st with
  | decl isLet x ty e =>
    simp only [okS] at hnc
    cases he : compileExpr cs.sc e with
    | none => simp [compileStmt, he] at hc
    | some ce =>
      simp only [compileStmt, he, Option.bind_eq_bind, Option.bind_some, Option.some.injEq, Prod.mk.injEq] at hc
      obtain ⟨hc1, hc2⟩ := hc; subst hc1 hc2
      simp only [exec] at h
      obtain ⟨v, s1, tr1, tr2, hev, hk, htr⟩ := bind_eq_ok h
      have hnm : noMarks (ce ++ [.box ty, .setLocal cs.next]) = true := by
        rw [noMarks_append, hnmE _ _ _ hnc he]; rfl
      rw [resolve_noMarks _ _ _ _ hnm] at hcode
      obtain ⟨hs1, r1⟩ := hE e s v s1 tr1 hev hnc cs.sc ce he locals hag code pre
        ([.box ty, .setLocal cs.next] ++ post) stk (by simp [hcode])
      subst hs1
      have : (⟨.ok .normal, ⟨(x, box ty v) :: s.env⟩, []⟩ : Res Flow) = ⟨.ok flow, s', tr2⟩ := hk
      simp only [Res.mk.injEq, Outcome.ok.injEq] at this
      obtain ⟨hf, hs, ht⟩ := this; subst hf hs ht
      have htr' : tr = tr1 := by simpa using htr
      subst htr' 
      have hi1 : code[pre.length + ce.length]? = some (.box ty) := by locate hcode
      have hi2 : code[pre.length + ce.length + 1]? = some (.setLocal cs.next) := by locate hcode
      have e2 : Exec tbl ⟨code, pre.length + ce.length, v :: stk, locals⟩ [] (.at ⟨code, pre.length + ce.length + 1, box ty v :: stk, locals⟩) :=
        Exec.one (by simp only [VM.step, hi1])
      have e3 : Exec tbl ⟨code, pre.length + ce.length + 1, box ty v :: stk, locals⟩ []
          (.at ⟨code, pre.length + ce.length + 1 + 1, stk, locals.set cs.next (box ty v)⟩) :=
        Exec.one (by simp only [VM.step, hi2])
      refine ⟨locals.set cs.next (box ty v), ?_, [(x, cs.next)], ?_, fun _ => rfl⟩
      · have := (r1.trans_nil e2).trans e3
        simpa [Nat.add_assoc] using this
      · exact .cons (hrel.set_ge (Nat.le_refl _) _) (by simp [Locals.get_set]) (Nat.lt_succ_self _)
  | expr e =>
    simp only [okS] at hnc
    cases he : compileExpr cs.sc e with
    | none => simp [compileStmt, he] at hc
    | some ce =>
      simp only [compileStmt, he, Option.bind_eq_bind, Option.bind_some, Option.some.injEq, Prod.mk.injEq] at hc
      obtain ⟨hc1, hc2⟩ := hc; subst hc1 hc2
      simp only [exec] at h
      obtain ⟨v, s1, tr1, tr2, hev, hk, htr⟩ := bind_eq_ok h
      have hnm : noMarks (ce ++ [.drop]) = true := by
        rw [noMarks_append, hnmE _ _ _ hnc he]; rfl
      rw [resolve_noMarks _ _ _ _ hnm] at hcode
      obtain ⟨hs1, r1⟩ := hE e s v s1 tr1 hev hnc cs.sc ce he locals hag code pre
        ([.drop] ++ post) stk (by simp [hcode])
      subst hs1
      obtain ⟨hf, hs, ht⟩ := pure_inv hk; subst hf hs ht
      have htr' : tr = tr1 := by simpa using htr
      subst htr' 
      have hi1 : code[pre.length + ce.length]? = some .drop := by locate hcode
      have e2 : Exec tbl ⟨code, pre.length + ce.length, v :: stk, locals⟩ [] (.at ⟨code, pre.length + ce.length + 1, stk, locals⟩) :=
        Exec.one (by simp only [VM.step, hi1])
      refine ⟨locals, ?_, [], by simpa using hrel, fun _ => by simp⟩
      have := r1.trans_nil e2
      simpa [Nat.add_assoc] using this
  | ret oe =>
    cases oe with
    | none =>
      simp only [compileStmt, Option.some.injEq, Prod.mk.injEq] at hc
      obtain ⟨hc1, hc2⟩ := hc; subst hc1 hc2
      simp only [exec] at h
      obtain ⟨hf, hs, ht⟩ := pure_inv h; subst hf hs ht
      rw [resolve_noMarks _ _ _ _ (by rfl)] at hcode
      have hi1 : code[pre.length]? = some .ret := by locate hcode
      exact Exec.ret (by simp only [VM.step, hi1])
    | some e =>
      simp only [okS] at hnc
      cases he : compileExpr cs.sc e with
      | none => simp [compileStmt, he] at hc
      | some ce =>
        simp only [compileStmt, he, Option.bind_eq_bind, Option.bind_some, Option.some.injEq, Prod.mk.injEq] at hc
        obtain ⟨hc1, hc2⟩ := hc; subst hc1 hc2
        simp only [exec] at h
        obtain ⟨v, s1, tr1, tr2, hev, hk, htr⟩ := bind_eq_ok h
        have hnm : noMarks (ce ++ [.box retTy, .retValue]) = true := by
          rw [noMarks_append, hnmE _ _ _ hnc he]; rfl
        rw [resolve_noMarks _ _ _ _ hnm] at hcode
        obtain ⟨hs1, r1⟩ := hE e s v s1 tr1 hev hnc cs.sc ce he locals hag code pre
          ([.box retTy, .retValue] ++ post) stk (by simp [hcode])
        subst hs1
        obtain ⟨hf, hs, ht⟩ := pure_inv hk; subst hf hs ht
        have htr' : tr = tr1 := by simpa using htr
        subst htr' 
        have hi1 : code[pre.length + ce.length]? = some (.box retTy) := by locate hcode
        have hi2 : code[pre.length + ce.length + 1]? = some .retValue := by locate hcode
        have e2 : Exec tbl ⟨code, pre.length + ce.length, v :: stk, locals⟩ [] (.at ⟨code, pre.length + ce.length + 1, box retTy v :: stk, locals⟩) :=
          Exec.one (by simp only [VM.step, hi1])
        have e3 : Exec tbl ⟨code, pre.length + ce.length + 1, box retTy v :: stk, locals⟩ [] (.ret (box retTy v)) :=
          Exec.ret (by simp only [VM.step, hi2])
        have := (r1.trans_nil e2).trans e3
        simpa [Sim] using this
  | break_ =>
    simp only [compileStmt, Option.some.injEq, Prod.mk.injEq] at hc
    obtain ⟨hc1, hc2⟩ := hc; subst hc1 hc2
    simp only [exec] at h
    obtain ⟨hf, hs, ht⟩ := pure_inv h; subst hf hs ht
    simp only [resolve, resolveIns] at hcode
    have hi1 : code[pre.length]? = some (.jump (brk - pre.length - 1)) := by locate hcode
    simp only [List.length_cons, List.length_nil] at hb
    refine ⟨locals, ?_, [], by simpa using hrel, fun hn => by cases hn⟩
    have := Exec.one (tbl := tbl) (f := ⟨code, pre.length, stk, locals⟩) (by simp only [VM.step, hi1]; rfl)
    rw [show pre.length + 1 + (brk - pre.length - 1) = brk by omega] at this
    exact this
  | continue_ =>
    simp only [compileStmt, Option.some.injEq, Prod.mk.injEq] at hc
    obtain ⟨hc1, hc2⟩ := hc; subst hc1 hc2
    simp only [exec] at h
    obtain ⟨hf, hs, ht⟩ := pure_inv h; subst hf hs ht
    simp only [resolve, resolveIns] at hcode
    have hi1 : code[pre.length]? = some (.jumpBack (pre.length - cont)) := by locate hcode
    refine ⟨locals, ?_, [], by simpa using hrel, fun hn => by cases hn⟩
    have := Exec.one (tbl := tbl) (f := ⟨code, pre.length, stk, locals⟩) (by simp only [VM.step, hi1]; rfl)
    rw [show pre.length - (pre.length - cont) = cont by omega] at this
    exact this
  | assign tgt ty e =>
    cases tgt with
    | var x =>
      simp only [okS] at hnc
      cases he : compileExpr cs.sc e with
      | none => simp [compileStmt, he] at hc
      | some ce =>
        cases hx : cs.sc.slot x with
        | none => simp [compileStmt, he, hx] at hc
        | some i =>
          simp only [compileStmt, he, hx, Option.bind_eq_bind, Option.bind_some, Option.some.injEq, Prod.mk.injEq] at hc
          obtain ⟨hc1, hc2⟩ := hc; subst hc1 hc2
          simp only [exec] at h
          obtain ⟨lv, s0, tr0, tr0', hlv, h, htr0⟩ := bind_eq_ok h
          cases n with
          | zero => simp [evalTarget, M.outOfFuel] at hlv
          | succ m =>
            have : (⟨.ok ⟨.var x, []⟩, s, []⟩ : Res LVal) = ⟨.ok lv, s0, tr0⟩ := hlv
            simp only [Res.mk.injEq, Outcome.ok.injEq] at this
            obtain ⟨hl, hs0, ht0⟩ := this; subst hl hs0 ht0
            obtain ⟨v, s1, tr1, tr2, hev, hk, htr⟩ := bind_eq_ok h
            have hnm : noMarks (ce ++ [.box ty, .setLocal i]) = true := by
              rw [noMarks_append, hnmE _ _ _ hnc he]; rfl
            rw [resolve_noMarks _ _ _ _ hnm] at hcode
            obtain ⟨hs1, r1⟩ := hE e s v s1 tr1 hev hnc cs.sc ce he locals hag code pre
              ([.box ty, .setLocal i] ++ post) stk (by simp [hcode])
            subst hs1
            obtain ⟨_, vx, hlk, _⟩ := hrel.slot hx
            obtain ⟨env', hu, hrel'⟩ := hrel.update hx (box ty v)
            obtain ⟨u, s2, tr3, tr4, hw, hk2, htr2⟩ := bind_eq_ok hk
            rw [lvWrite_var hlk hu] at hw
            simp only [Res.mk.injEq, Outcome.ok.injEq] at hw
            obtain ⟨_, hs2, ht3⟩ := hw; subst hs2 ht3
            obtain ⟨hf, hs, ht⟩ := pure_inv hk2; subst hf hs ht htr2
            have htr' : tr = tr1 := by simpa [htr] using htr0
            subst htr' 
            have hi1 : code[pre.length + ce.length]? = some (.box ty) := by locate hcode
            have hi2 : code[pre.length + ce.length + 1]? = some (.setLocal i) := by locate hcode
            have e2 : Exec tbl ⟨code, pre.length + ce.length, v :: stk, locals⟩ [] (.at ⟨code, pre.length + ce.length + 1, box ty v :: stk, locals⟩) :=
              Exec.one (by simp only [VM.step, hi1])
            have e3 : Exec tbl ⟨code, pre.length + ce.length + 1, box ty v :: stk, locals⟩ []
                (.at ⟨code, pre.length + ce.length + 1 + 1, stk, locals.set i (box ty v)⟩) :=
              Exec.one (by simp only [VM.step, hi2])
            refine ⟨locals.set i (box ty v), ?_, [], by simpa using hrel', fun _ => by simp⟩
            have := (r1.trans_nil e2).trans e3
            simpa [Nat.add_assoc] using this
    | _ => simp [compileStmt] at hc
  | swap l lty r rty => simp [compileStmt] at hc
  | ite c0 t oe =>
    cases hcc : compileExpr cs.sc c0 with
    | none => cases oe <;> simp [compileStmt, hcc] at hc
    | some cc =>
      cases hct : compileBlock retTy cs t with
      | none => cases oe <;> simp [compileStmt, hcc, hct] at hc
      | some r1 =>
        obtain ⟨ct, cs1⟩ := r1
        have hle1 := compileBlock_next_le retTy t cs ct cs1 hct
        cases oe with
        | none =>
          simp only [okS, Bool.and_eq_true, and_true] at hnc
          have hnmc := hnmE _ _ _ hnc.1 hcc
          simp only [compileStmt, hcc, hct, Option.bind_eq_bind, Option.bind_some, Option.some.injEq, Prod.mk.injEq] at hc
          obtain ⟨hc1, hc2⟩ := hc; subst hc1 hc2
          simp only [exec] at h
          obtain ⟨vc, s1, tr1, tr2, hev, hk, htr⟩ := bind_eq_ok h
          subst htr
          have hcode2 : code = (pre ++ cc ++ [Instr.jumpIfFalse ct.length]) ++
              resolve brk cont (pre.length + cc.length + 1) ct ++ post := by
            rw [hcode, resolve_split3 _ _ _ _ _ _ hnmc rfl]; simp
          obtain ⟨hs1, r1⟩ := hE c0 s vc s1 tr1 hev hnc.1 cs.sc cc hcc locals hag code pre
            ([Instr.jumpIfFalse ct.length] ++ resolve brk cont (pre.length + cc.length + 1) ct ++ post) stk
            (by simp [hcode2])
          subst hs1
          have hi : code[pre.length + cc.length]? = some (.jumpIfFalse ct.length) := by locate2 hcode2
          have hlen : pre.length + (cc ++ [Instr.jumpIfFalse ct.length] ++ ct).length = pre.length + cc.length + 1 + ct.length := by
            lenomega
          rw [hlen] at hb ⊢
          cases vc with
          | bool bv =>
            cases bv with
            | true =>
              have e2 : Exec tbl ⟨code, pre.length + cc.length, .bool true :: stk, locals⟩ []
                  (.at ⟨code, pre.length + cc.length + 1, stk, locals⟩) :=
                Exec.one (by simp only [VM.step, hi]; rfl)
              have sim := hB retTy t s flow s' tr2 hk hnc.2 cs ct cs1 hct locals hrel code _ post stk brk cont
                (pre.length + cc.length + 1) (by lenomega) hcode2 (by omega) (by omega)
              refine (Sim.after (r1.trans_nil e2) sim).weaken ?_
              intro l hr
              exact ⟨[], by simpa using hr.mono hle1, fun _ => by simp⟩
            | false =>
              obtain ⟨hf, hs, ht⟩ := pure_inv hk; subst hf hs ht
              have e2 : Exec tbl ⟨code, pre.length + cc.length, .bool false :: stk, locals⟩ []
                  (.at ⟨code, pre.length + cc.length + 1 + ct.length, stk, locals⟩) :=
                Exec.one (by simp only [VM.step, hi]; rfl)
              exact ⟨locals, r1.trans e2, [], by simpa using hrel.mono hle1, fun _ => by simp⟩
          | _ =>
            have : (⟨.internalErr .typeMismatch, s, []⟩ : Res Flow) = ⟨.ok flow, s', tr2⟩ := hk
            simp at this
        | some eb =>
          cases hce : compileBlock retTy ⟨cs.sc, cs1.next⟩ eb with
          | none => simp [compileStmt, hcc, hct, hce] at hc
          | some r2 =>
            obtain ⟨ce, cs2⟩ := r2
            have hle2 := compileBlock_next_le retTy eb ⟨cs.sc, cs1.next⟩ ce cs2 hce
            simp only [okS, Bool.and_eq_true] at hnc
            have hnmc := hnmE _ _ _ hnc.1.1 hcc
            simp only [compileStmt, hcc, hct, hce, Option.bind_eq_bind, Option.bind_some, Option.some.injEq, Prod.mk.injEq] at hc
            obtain ⟨hc1, hc2⟩ := hc; subst hc1 hc2
            simp only [exec] at h
            obtain ⟨vc, s1, tr1, tr2, hev, hk, htr⟩ := bind_eq_ok h
            subst htr
            have hcode2 : code = (pre ++ cc ++ [Instr.jumpIfFalse (ct.length + 1)]) ++
                resolve brk cont (pre.length + cc.length + 1) ct ++
                ([Instr.jump ce.length] ++ resolve brk cont (pre.length + cc.length + 1 + ct.length + 1) ce ++ post) := by
              rw [hcode, resolve_split5 _ _ _ _ _ _ _ _ hnmc rfl rfl]; simp
            have hcode3 : code = (pre ++ cc ++ [Instr.jumpIfFalse (ct.length + 1)] ++
                resolve brk cont (pre.length + cc.length + 1) ct ++ [Instr.jump ce.length]) ++
                resolve brk cont (pre.length + cc.length + 1 + ct.length + 1) ce ++ post := by
              rw [hcode2]; simp
            obtain ⟨hs1, r1⟩ := hE c0 s vc s1 tr1 hev hnc.1.1 cs.sc cc hcc locals hag code pre
              ([Instr.jumpIfFalse (ct.length + 1)] ++ resolve brk cont (pre.length + cc.length + 1) ct ++
                ([Instr.jump ce.length] ++ resolve brk cont (pre.length + cc.length + 1 + ct.length + 1) ce ++ post)) stk
              (by simp [hcode2])
            subst hs1
            have hi : code[pre.length + cc.length]? = some (.jumpIfFalse (ct.length + 1)) := by locate2 hcode2
            have hj : code[pre.length + cc.length + 1 + ct.length]? = some (.jump ce.length) := by locate2 hcode2
            have hlen : pre.length + (cc ++ [Instr.jumpIfFalse (ct.length + 1)] ++ ct ++ [Instr.jump ce.length] ++ ce).length =
                pre.length + cc.length + 1 + ct.length + 1 + ce.length := by lenomega
            rw [hlen] at hb ⊢
            cases vc with
            | bool bv =>
              cases bv with
              | true =>
                have e2 : Exec tbl ⟨code, pre.length + cc.length, .bool true :: stk, locals⟩ []
                    (.at ⟨code, pre.length + cc.length + 1, stk, locals⟩) :=
                  Exec.one (by simp only [VM.step, hi]; rfl)
                have sim := hB retTy t s flow s' tr2 hk hnc.1.2 cs ct cs1 hct locals hrel code _ _ stk brk cont
                  (pre.length + cc.length + 1) (by lenomega) hcode2 (by omega) (by omega)
                have ej : ∀ l', Exec tbl ⟨code, pre.length + cc.length + 1 + ct.length, stk, l'⟩ []
                    (.at ⟨code, pre.length + cc.length + 1 + ct.length + 1 + ce.length, stk, l'⟩) :=
                  fun l' => Exec.one (by simp only [VM.step, hj])
                refine ((Sim.after (r1.trans_nil e2) sim).then ej).weaken ?_
                intro l hr
                exact ⟨[], by simpa using hr.mono (Nat.le_trans hle1 hle2), fun _ => by simp⟩
              | false =>
                have e2 : Exec tbl ⟨code, pre.length + cc.length, .bool false :: stk, locals⟩ []
                    (.at ⟨code, pre.length + cc.length + 1 + (ct.length + 1), stk, locals⟩) :=
                  Exec.one (by simp only [VM.step, hi]; rfl)
                have sim := hB retTy eb s flow s' tr2 hk hnc.2 ⟨cs.sc, cs1.next⟩ ce cs2 hce locals (hrel.mono hle1) code _ post stk
                  brk cont (pre.length + cc.length + 1 + ct.length + 1) (by lenomega) hcode3 (by omega) (by omega)
                rw [show pre.length + cc.length + 1 + (ct.length + 1) = pre.length + cc.length + 1 + ct.length + 1 by omega] at e2
                refine (Sim.after (r1.trans_nil e2) sim).weaken ?_
                intro l hr
                exact ⟨[], by simpa using hr.mono hle2, fun _ => by simp⟩
            | _ =>
              have : (⟨.internalErr .typeMismatch, s, []⟩ : Res Flow) = ⟨.ok flow, s', tr2⟩ := hk
              simp at this
  | «while» c0 body =>
    have hnc0 := hnc
    simp only [okS, Bool.and_eq_true] at hnc
    cases hcc : compileExpr cs.sc c0 with
    | none => simp [compileStmt, hcc] at hc
    | some cc =>
      cases hcb : compileBlock retTy cs body with
      | none => simp [compileStmt, hcc, hcb] at hc
      | some r1 =>
        obtain ⟨cb, cs1⟩ := r1
        have hle1 := compileBlock_next_le retTy body cs cb cs1 hcb
        have hnmc := hnmE _ _ _ hnc.1 hcc
        have hc0 := hc
        simp only [compileStmt, hcc, hcb, Option.bind_eq_bind, Option.bind_some, Option.some.injEq, Prod.mk.injEq] at hc
        obtain ⟨hc1, hc2⟩ := hc; subst hc1 hc2
        have hp : patchLoop (cc.length + 1) (cc.length + 1 + cb.length + 1) cb =
            resolve (pre.length + cc.length + 1 + cb.length + 1) pre.length (pre.length + cc.length + 1) cb := by
          rw [patchLoop_eq pre.length, show pre.length + (cc.length + 1 + cb.length + 1) = pre.length + cc.length + 1 + cb.length + 1 by omega,
            show pre.length + (cc.length + 1) = pre.length + cc.length + 1 by omega]
        have hnmW : noMarks (cc ++ [Instr.jumpIfFalse (cb.length + 1)] ++ patchLoop (cc.length + 1) (cc.length + 1 + cb.length + 1) cb ++
            [Instr.jumpBack (cc.length + 1 + cb.length)]) = true := by
          rw [hp, noMarks_append, noMarks_append, noMarks_append, hnmc, noMarks_resolve]; rfl
        have hcode2 : code = (pre ++ cc ++ [Instr.jumpIfFalse (cb.length + 1)]) ++
            resolve (pre.length + cc.length + 1 + cb.length + 1) pre.length (pre.length + cc.length + 1) cb ++
            ([Instr.jumpBack (cc.length + 1 + cb.length)] ++ post) := by
          rw [hcode, resolve_noMarks _ _ _ _ hnmW, hp]; simp
        have hlen : pre.length + (cc ++ [Instr.jumpIfFalse (cb.length + 1)] ++ patchLoop (cc.length + 1) (cc.length + 1 + cb.length + 1) cb ++
            [Instr.jumpBack (cc.length + 1 + cb.length)]).length = pre.length + cc.length + 1 + cb.length + 1 := by
          rw [hp]; lenomega
        simp only [exec] at h
        obtain ⟨vc, s1, tr1, tr2, hev, hk, htr⟩ := bind_eq_ok h
        subst htr
        obtain ⟨hs1, r1⟩ := hE c0 s vc s1 tr1 hev hnc.1 cs.sc cc hcc locals hag code pre
          ([Instr.jumpIfFalse (cb.length + 1)] ++
            resolve (pre.length + cc.length + 1 + cb.length + 1) pre.length (pre.length + cc.length + 1) cb ++
            ([Instr.jumpBack (cc.length + 1 + cb.length)] ++ post)) stk
          (by simp [hcode2])
        subst hs1
        have hi : code[pre.length + cc.length]? = some (.jumpIfFalse (cb.length + 1)) := by locate2 hcode2
        have hj : code[pre.length + cc.length + 1 + cb.length]? = some (.jumpBack (cc.length + 1 + cb.length)) := by
          locate2 hcode2
        cases vc with
        | bool bv =>
          cases bv with
          | false =>
            obtain ⟨hf, hs, ht⟩ := pure_inv hk; subst hf hs ht
            have e2 : Exec tbl ⟨code, pre.length + cc.length, .bool false :: stk, locals⟩ []
                (.at ⟨code, pre.length + cc.length + 1 + (cb.length + 1), stk, locals⟩) :=
              Exec.one (by simp only [VM.step, hi]; rfl)
            rw [hlen]
            rw [show pre.length + cc.length + 1 + (cb.length + 1) = pre.length + cc.length + 1 + cb.length + 1 by omega] at e2
            exact ⟨locals, r1.trans e2, [], by simpa using hrel.mono hle1, fun _ => by simp⟩
          | true =>
            have e2 : Exec tbl ⟨code, pre.length + cc.length, .bool true :: stk, locals⟩ []
                (.at ⟨code, pre.length + cc.length + 1, stk, locals⟩) :=
              Exec.one (by simp only [VM.step, hi]; rfl)
            have e12 := r1.trans_nil e2
            obtain ⟨fb, sb, trb, trr, hblk, hk2, htr2⟩ := bind_eq_ok hk
            have simb := hB retTy body s fb sb trb hblk hnc.2 cs cb cs1 hcb locals hrel code _ _ stk
              (pre.length + cc.length + 1 + cb.length + 1) pre.length
              (pre.length + cc.length + 1) (by lenomega) hcode2 (by omega) (by omega)
            have ej : ∀ l', Exec tbl ⟨code, pre.length + cc.length + 1 + cb.length, stk, l'⟩ []
                (.at ⟨code, pre.length, stk, l'⟩) := by
              intro l'
              have := Exec.one (tbl := tbl) (f := ⟨code, pre.length + cc.length + 1 + cb.length, stk, l'⟩)
                (by simp only [VM.step, hj]; rfl)
              rw [show pre.length + cc.length + 1 + cb.length - (cc.length + 1 + cb.length) = pre.length by omega] at this
              exact this
            subst htr2
            cases fb with
            | normal =>
              obtain ⟨l1, eb1, hr1⟩ := simb
              have hrec := hS retTy (.while c0 body) sb flow s' trr hk2 hnc0 cs _ _ hc0 l1 hr1 code pre post stk brk cont
                pre.length rfl hcode hb hcn
              have := Sim.after ((e12.trans eb1).trans (ej l1)) hrec
              simpa using this
            | cont =>
              obtain ⟨l1, eb1, hr1⟩ := simb
              have hrec := hS retTy (.while c0 body) sb flow s' trr hk2 hnc0 cs _ _ hc0 l1 hr1 code pre post stk brk cont
                pre.length rfl hcode hb hcn
              have := Sim.after (e12.trans eb1) hrec
              simpa using this
            | brk =>
              obtain ⟨l1, eb1, hr1⟩ := simb
              obtain ⟨hf, hs, ht⟩ := pure_inv hk2; subst hf hs ht
              rw [hlen]
              exact ⟨l1, by simpa using e12.trans eb1, [], by simpa using hr1.mono hle1, fun _ => by simp⟩
            | ret v =>
              obtain ⟨hf, hs, ht⟩ := pure_inv hk2; subst hf hs ht
              have : Exec tbl ⟨code, pre.length, stk, locals⟩ (tr1 ++ trb) (.ret v) := e12.trans simb
              simpa [Sim] using this
        | _ =>
          have : (⟨.internalErr .typeMismatch, s, []⟩ : Res Flow) = ⟨.ok flow, s', tr2⟩ := hk
          simp at this

/-- **Forward simulation, value case, call-free statements of L0** (all fuel levels) -/
theorem sim_all (p : Program) (tbl : Table) :
    ∀ n, StmtSim noCall p tbl n ∧ BlockSim noCall p tbl n ∧ StmtsSim noCall p tbl n
  | 0 => by
    refine ⟨?_, ?_, ?_⟩
    · intro retTy st s flow s' tr h; simp [exec, M.outOfFuel] at h
    · intro retTy ss s flow s' tr h; simp [execBlock, M.outOfFuel] at h
    · intro retTy ss s flow s' tr h; simp [execStmts, M.outOfFuel] at h
  | n + 1 => by
    obtain ⟨a, b, c⟩ := sim_all p tbl n
    exact ⟨stmt_step noCall (fun e sc c => compileExpr_noMarks sc e c) p tbl n (topSim_noCall p tbl n) b a,
      block_step noCall p tbl n c, stmts_step noCall p tbl n a c⟩

/-- a function body: if the evaluator's block ends with `return v` (or runs to its end, then `void`),
the machine started on the body's code returns that value with the same trace -/
theorem sim_body_gen (okE : Expr → Bool) (p : Program) (tbl : Table) (n : Nat) (hB : BlockSim okE p tbl n)
    (retTy : Ty) (ss : List Stmt) (s s' : State) (flow : Flow) (tr : List String)
    (h : execBlock p n retTy ss s = ⟨.ok flow, s', tr⟩) (hnc : okB okE ss = true)
    (hbc : flow ≠ .brk ∧ flow ≠ .cont)
    (cs cs' : CState) (c : List Instr) (hc : compileBlock retTy cs ss = some (c, cs')) (hnm : noMarks c = true)
    (locals : Locals) (hrel : Rel locals cs.next cs.sc s.env) :
    Exec tbl ⟨c, 0, [], locals⟩ tr (.ret (match flow with | .ret w => w | _ => .void)) := by
  have sim := hB retTy ss s flow s' tr h hnc cs c cs' hc locals hrel c [] [] [] c.length 0 0 rfl
    (by simp [resolve_noMarks _ _ _ _ hnm]) (by omega) (by omega)
  cases flow with
  | ret w => exact sim
  | normal =>
    obtain ⟨l', e, _⟩ := sim
    have : Exec tbl ⟨c, 0 + c.length, [], l'⟩ [] (.ret .void) := Exec.ret (by simp [VM.step])
    simpa using e.trans this
  | brk => exact absurd rfl hbc.1
  | cont => exact absurd rfl hbc.2

theorem sim_body (p : Program) (tbl : Table) (n : Nat) (retTy : Ty) (ss : List Stmt) (s s' : State)
    (flow : Flow) (tr : List String) (v : Value)
    (h : execBlock p n retTy ss s = ⟨.ok flow, s', tr⟩) (hnc : noCallB ss = true)
    (hv : flow = .ret v ∨ (flow = .normal ∧ v = .void))
    (cs cs' : CState) (c : List Instr) (hc : compileBlock retTy cs ss = some (c, cs')) (hnm : noMarks c = true)
    (locals : Locals) (hrel : Rel locals cs.next cs.sc s.env) :
    Exec tbl ⟨c, 0, [], locals⟩ tr (.ret v) := by
  have := sim_body_gen noCall p tbl n (sim_all p tbl n).2.1 retTy ss s s' flow tr h hnc
    (by rcases hv with hv | ⟨hv, _⟩ <;> subst hv <;> simp) cs cs' c hc hnm locals hrel
  rcases hv with hv | ⟨hv, hvv⟩
  · subst hv; exact this
  · subst hv hvv; exact this

end Verif.Model.Lang.VM
