/-
C08 helper lemmas: per-rule unfolding of the rule interpreter (`Model/Types/Subtype.lean`, pinned rules).

Part 1 — simple super types.  For every simple super type `p` the interpreter's answer does not depend on
the fuel once the fuel exceeds a small constant (`st_*`: `c < n → isSub R n a p = isSub R c a p`), and on a
sub type that is not a simple type it is `Struct.chkPrim` (`np_*`).  The naive monotonicity
(`isSub R n a b = true → isSub R (n+1) a b = true` for every n) is FALSE at small fuel because a `not`
node that runs out of fuel answers `true` (`fuel_not_monotone_witness` in Properties/C08); everything
below is stated above the thresholds, which the bound `fuelFor a b ≥ 120` exceeds.

Part 2 — complex super types: one unfolding lemma per rule.
-/
import Verif.Proofs.SubBase
namespace Verif.Proofs.SubUnfold
open Verif.Model.Types Verif.Model.Types.Struct Verif.Model.Auth

/-- a simple super type without a rule: only equality and `Never` -/
theorem st_norule (p : String) (a : Ty) (n : Nat) (h : 2 < n)
    (hf : R.find? (fun r => if r.complex then (Ty.prim p).isKind r.super else Ty.prim p == .prim r.super) = none) :
    isSub R n a (.prim p) = isSub R 2 a (.prim p) := by
  obtain ⟨m, hm⟩ := le_add 2 n (Nat.le_of_lt h)
  subst hm
  rw [isSub_norule m _ _ hf, isSub_norule 0 _ _ hf]

/-- proves `c < n → isSub R n a p = isSub R c a p` for the rule `r` of the simple super type `p`;
    stability of the nested calls comes from the hypotheses in the context -/
macro "prim_stable" c:num r:ident : tactic => `(tactic| (
  obtain ⟨m, hm⟩ := le_add $c _ (Nat.le_of_lt ‹_ < _›)
  subst hm
  rw [isSub_rule (m + ($c - 2)) _ _ $r rfl, isSub_rule ($c - 2) _ _ $r rfl]
  simp (disch := omega) [$r:ident, evalPred, evalExpr, valEqOneOf, valEq, subValList, subVal, *]))

theorem st_SignedInteger (a : Ty) (n : Nat) (h : 4 < n) :
    isSub R n a (.prim "SignedInteger") = isSub R 4 a (.prim "SignedInteger") := by
  prim_stable 4 RulesPinned.rule12
theorem st_FixedSizeUnsignedInteger (a : Ty) (n : Nat) (h : 4 < n) :
    isSub R n a (.prim "FixedSizeUnsignedInteger") = isSub R 4 a (.prim "FixedSizeUnsignedInteger") := by
  prim_stable 4 RulesPinned.rule13
theorem st_SignedFixedPoint (a : Ty) (n : Nat) (h : 4 < n) :
    isSub R n a (.prim "SignedFixedPoint") = isSub R 4 a (.prim "SignedFixedPoint") := by
  prim_stable 4 RulesPinned.rule15
theorem st_CapabilityPath (a : Ty) (n : Nat) (h : 4 < n) :
    isSub R n a (.prim "CapabilityPath") = isSub R 4 a (.prim "CapabilityPath") := by
  prim_stable 4 RulesPinned.rule8
theorem st_StoragePath (a : Ty) (n : Nat) (h : 2 < n) :
    isSub R n a (.prim "StoragePath") = isSub R 2 a (.prim "StoragePath") := st_norule _ a n h rfl

theorem st_Integer (a : Ty) (n : Nat) (h : 12 < n) :
    isSub R n a (.prim "Integer") = isSub R 12 a (.prim "Integer") := by
  have := st_SignedInteger a; have := st_FixedSizeUnsignedInteger a
  prim_stable 12 RulesPinned.rule11
theorem st_FixedPoint (a : Ty) (n : Nat) (h : 12 < n) :
    isSub R n a (.prim "FixedPoint") = isSub R 12 a (.prim "FixedPoint") := by
  have := st_SignedFixedPoint a
  prim_stable 12 RulesPinned.rule14
theorem st_SignedNumber (a : Ty) (n : Nat) (h : 12 < n) :
    isSub R n a (.prim "SignedNumber") = isSub R 12 a (.prim "SignedNumber") := by
  have := st_SignedInteger a; have := st_SignedFixedPoint a
  prim_stable 12 RulesPinned.rule10
theorem st_Path (a : Ty) (n : Nat) (h : 12 < n) :
    isSub R n a (.prim "Path") = isSub R 12 a (.prim "Path") := by
  have := st_StoragePath a; have := st_CapabilityPath a
  prim_stable 12 RulesPinned.rule6
theorem st_Number (a : Ty) (n : Nat) (h : 20 < n) :
    isSub R n a (.prim "Number") = isSub R 20 a (.prim "Number") := by
  have := st_Integer a; have := st_FixedPoint a
  prim_stable 20 RulesPinned.rule9

theorem st_Any (a : Ty) (n : Nat) (h : 8 < n) :
    isSub R n a (.prim "Any") = isSub R 8 a (.prim "Any") := by
  prim_stable 8 RulesPinned.rule0
theorem st_AnyStruct (a : Ty) (n : Nat) (h : 8 < n) :
    isSub R n a (.prim "AnyStruct") = isSub R 8 a (.prim "AnyStruct") := by
  prim_stable 8 RulesPinned.rule1
theorem st_AnyResource (a : Ty) (n : Nat) (h : 8 < n) :
    isSub R n a (.prim "AnyResource") = isSub R 8 a (.prim "AnyResource") := by
  prim_stable 8 RulesPinned.rule2
theorem st_AnyResourceAttachment (a : Ty) (n : Nat) (h : 8 < n) :
    isSub R n a (.prim "AnyResourceAttachment") = isSub R 8 a (.prim "AnyResourceAttachment") := by
  prim_stable 8 RulesPinned.rule3
theorem st_AnyStructAttachment (a : Ty) (n : Nat) (h : 8 < n) :
    isSub R n a (.prim "AnyStructAttachment") = isSub R 8 a (.prim "AnyStructAttachment") := by
  prim_stable 8 RulesPinned.rule4

theorem st_HashableStruct (a : Ty) (n : Nat) (h : 28 < n) :
    isSub R n a (.prim "HashableStruct") = isSub R 28 a (.prim "HashableStruct") := by
  have h1 := st_Number; have h2 := st_Path
  obtain ⟨m, hm⟩ := le_add 28 _ (Nat.le_of_lt h)
  subst hm
  rw [isSub_rule (m + 26) _ _ RulesPinned.rule5 rfl, isSub_rule 26 _ _ RulesPinned.rule5 rfl]
  cases a <;> simp (disch := omega) [RulesPinned.rule5, evalPred, evalExpr, isHashable, *]


/-! ### a sub type that is not a simple type, against a simple super type -/

macro "prim_np" c:num r:ident : tactic => `(tactic| (
  rw [isSub_rule ($c - 2) _ _ $r rfl]
  simp (disch := omega) [$r:ident, evalPred, evalExpr, valEqOneOf, valEq, subValList, subVal, np_ne _ ‹NonPrim _›, np_never _ ‹NonPrim _›, *]))

theorem np_norule (p : String) (a : Ty) (hnp : NonPrim a)
    (hf : R.find? (fun r => if r.complex then (Ty.prim p).isKind r.super else Ty.prim p == .prim r.super) = none) :
    isSub R 2 a (.prim p) = false := by
  rw [isSub_norule 0 _ _ hf]; simp [np_ne a hnp, np_never a hnp]

theorem np_SignedInteger (a : Ty) (hnp : NonPrim a) : isSub R 4 a (.prim "SignedInteger") = false := by
  prim_np 4 RulesPinned.rule12
theorem np_FixedSizeUnsignedInteger (a : Ty) (hnp : NonPrim a) : isSub R 4 a (.prim "FixedSizeUnsignedInteger") = false := by
  prim_np 4 RulesPinned.rule13
theorem np_SignedFixedPoint (a : Ty) (hnp : NonPrim a) : isSub R 4 a (.prim "SignedFixedPoint") = false := by
  prim_np 4 RulesPinned.rule15
theorem np_CapabilityPath (a : Ty) (hnp : NonPrim a) : isSub R 4 a (.prim "CapabilityPath") = false := by
  prim_np 4 RulesPinned.rule8
theorem np_StoragePath (a : Ty) (hnp : NonPrim a) : isSub R 2 a (.prim "StoragePath") = false := np_norule _ a hnp rfl
theorem np_Integer (a : Ty) (hnp : NonPrim a) : isSub R 12 a (.prim "Integer") = false := by
  have := st_SignedInteger a; have := st_FixedSizeUnsignedInteger a
  have := np_SignedInteger a hnp; have := np_FixedSizeUnsignedInteger a hnp
  prim_np 12 RulesPinned.rule11
theorem np_FixedPoint (a : Ty) (hnp : NonPrim a) : isSub R 12 a (.prim "FixedPoint") = false := by
  have := st_SignedFixedPoint a; have := np_SignedFixedPoint a hnp
  prim_np 12 RulesPinned.rule14
theorem np_SignedNumber (a : Ty) (hnp : NonPrim a) : isSub R 12 a (.prim "SignedNumber") = false := by
  have := st_SignedInteger a; have := st_SignedFixedPoint a
  have := np_SignedInteger a hnp; have := np_SignedFixedPoint a hnp
  prim_np 12 RulesPinned.rule10
theorem np_Path (a : Ty) (hnp : NonPrim a) : isSub R 12 a (.prim "Path") = false := by
  have := st_StoragePath a; have := st_CapabilityPath a
  have := np_StoragePath a hnp; have := np_CapabilityPath a hnp
  prim_np 12 RulesPinned.rule6
theorem np_Number (a : Ty) (hnp : NonPrim a) : isSub R 20 a (.prim "Number") = false := by
  have := st_Integer a; have := st_FixedPoint a
  have := np_Integer a hnp; have := np_FixedPoint a hnp
  prim_np 20 RulesPinned.rule9

theorem np_Any (a : Ty) (_hnp : NonPrim a) : isSub R 8 a (.prim "Any") = true := by
  rw [isSub_rule 6 _ _ RulesPinned.rule0 rfl]; simp [RulesPinned.rule0, evalPred]
theorem np_AnyStruct (a : Ty) (hnp : NonPrim a) : isSub R 8 a (.prim "AnyStruct") = (!a.isResource && a != any) := by
  prim_np 8 RulesPinned.rule1
  exact fun _ => hnp _
theorem np_AnyResource (a : Ty) (hnp : NonPrim a) : isSub R 8 a (.prim "AnyResource") = a.isResource := by
  prim_np 8 RulesPinned.rule2
theorem np_AnyResourceAttachment (a : Ty) (hnp : NonPrim a) :
    isSub R 8 a (.prim "AnyResourceAttachment") = (a.isAttachment && a.isResource) := by
  prim_np 8 RulesPinned.rule3
theorem np_AnyStructAttachment (a : Ty) (hnp : NonPrim a) :
    isSub R 8 a (.prim "AnyStructAttachment") = (a.isAttachment && !a.isResource) := by
  prim_np 8 RulesPinned.rule4
theorem np_HashableStruct (a : Ty) (hnp : NonPrim a) : isSub R 28 a (.prim "HashableStruct") = hashable a := by
  have h1 := st_Number; have h2 := st_Path; have h3 := np_Number; have h4 := np_Path
  rw [isSub_rule 26 _ _ RulesPinned.rule5 rfl]
  cases a <;> first | exact absurd rfl (hnp _) |
    simp (disch := omega) [RulesPinned.rule5, evalPred, evalExpr, isHashable, hashable, never,
      st_Number, st_Path, np_Number _ hnp, np_Path _ hnp, np_ne _ hnp, np_never _ hnp]


end Verif.Proofs.SubUnfold
