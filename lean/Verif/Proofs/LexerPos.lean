import Verif.Proofs.LexerTotal
/-!
C37 — the input is never modified, and the position theorem on the tokens of a run.
-/
namespace Verif.Proofs.LexerPos
open Verif.Model.Front Verif.Model.Front.Lexer Verif.Proofs.Lexer Verif.Proofs.LexerTotal Verif.Spec.Tokens

@[simp] theorem fail_input (l : L) (e : LexErr) : (l.fail e).input = l.input := (fail_fields l e).1
@[simp] theorem next_input (l : L) : (next l).1.input = l.input := rfl
@[simp] theorem backupOne_input (l : L) : (backupOne l).input = l.input := by
  unfold backupOne; split <;> simp
@[simp] theorem emit_input' (ty : Nat) (nl : Bool) (rs : Int × Pos) (c : Bool) (l : L) :
    (emit ty nl rs c l).input = l.input := emit_input _ _ _ _ _
@[simp] theorem emitType_input' (ty : Nat) (l : L) : (emitType ty l).input = l.input := emit_input _ _ _ _ _
@[simp] theorem emitError_input (l : L) : (emitError l).input = l.input := by
  unfold emitError; split <;> simp
@[simp] theorem acceptOne_input (c : Rune) (l : L) : (acceptOne c l).1.input = l.input := by
  simp only [acceptOne]; split <;> simp
theorem acceptWhileN_input (n : Nat) (f : Rune → Bool) (l : L) : (acceptWhileN n f l).input = l.input := by
  induction n generalizing l with
  | zero => simp [acceptWhileN]
  | succ n ih => simp only [acceptWhileN]; split <;> simp [ih]
@[simp] theorem acceptWhile_input (f : Rune → Bool) (l : L) : (acceptWhile f l).input = l.input :=
  acceptWhileN_input _ _ _
theorem scanStringN_input (n : Nat) (l : L) : (scanStringN n l).input = l.input := by
  induction n generalizing l with
  | zero => simp [scanStringN]
  | succ n ih =>
    simp only [scanStringN]
    repeat' split
    all_goals simp [ih]
@[simp] theorem scanString_input (l : L) : (scanString l).input = l.input := scanStringN_input _ _
@[simp] theorem scanFixed_input (l : L) : (scanFixedPointRemainder l).input = l.input := by
  simp only [scanFixedPointRemainder]; split <;> simp
@[simp] theorem scanDecimal_input (l : L) : (scanDecimalOrFixedPointRemainder l).1.input = l.input := by
  simp only [scanDecimalOrFixedPointRemainder]; split <;> simp

attribute [local irreducible] emit emitType emitError next backupOne acceptWhile scanString acceptOne
  scanFixedPointRemainder scanDecimalOrFixedPointRemainder L.fail

theorem numberStep_input (l : L) : (numberStep l).input = l.input := by
  simp only [numberStep]
  repeat' split
  all_goals simp

theorem identifierStep_input (l : L) : (identifierStep l).input = l.input := by
  simp only [identifierStep]
  repeat' split
  all_goals simp

theorem blockCommentStep_input (k : Nat) (l : L) : (blockCommentStep k l).2.input = l.input := by
  simp only [blockCommentStep]
  repeat' split
  all_goals simp

theorem rootStep_input (l : L) : (rootStep l).2.input = l.input := by
  simp only [rootStep, lexError]
  repeat' split
  all_goals simp

theorem step_input (st : St) (l : L) : (step st l).2.input = l.input := by
  cases st with
  | root => exact rootStep_input l
  | number => exact numberStep_input l
  | space nl => simp [step, scanSpace]
  | identifier => exact identifierStep_input l
  | string => simp [step]
  | lineComment => simp [step]
  | blockComment k => exact blockCommentStep_input k l

theorem run_input (fuel : Nat) (st : St) (l : L) : (run fuel st l).2.input = l.input := by
  induction fuel generalizing st l with
  | zero => rfl
  | succ n ih =>
    simp only [run]
    split
    · exact step_input st l
    · split
      · exact step_input st l
      · rw [ih, step_input]

theorem lexWith_input (limit : Nat) (inp : Bytes) : (lexWith limit inp).final.input = inp :=
  run_input _ _ _

/-- positions of the tokens of a run, newest first -/
theorem lexWith_exact (limit : Nat) (inp : Bytes) : ExactRev inp (lexWith limit inp).final.toks := by
  have := lexWith_exactRev limit inp
  rwa [lexWith_input] at this

theorem exactRev_all (inp : Bytes) : ∀ (ts : List Token), ExactRev inp ts → AllGood inp ts →
    ∀ t ∈ ts, isError t = false → Exact inp t
  | [], _, _ => fun t ht => by simp at ht
  | t :: ts, h, hg => by
    intro t' ht' hne
    have hgts : AllGood inp ts := fun x hx => hg x (List.mem_cons_of_mem _ hx)
    rcases List.mem_cons.1 ht' with rfl | ht'
    · exact h.1 hgts hne (hg _ List.mem_cons_self)
    · exact exactRev_all inp ts h.2 hgts t' ht' hne

end Verif.Proofs.LexerPos
