/-
C08 helper lemmas, part 2: per-rule unfolding of the rule interpreter for the complex super types
(optional, dictionary, arrays, reference, composite, interface, intersection, function, capability,
inclusive range).  Each lemma states `isSub R (m + c) a SUPER` for *every* sub type `a` in terms of the
components, with the exact fuel the nested calls receive.
-/
import Verif.Proofs.SubUnfold
namespace Verif.Proofs.SubUnfold
open Verif.Model.Types Verif.Model.Types.Struct Verif.Model.Auth

theorem ty_beq (a b : Ty) : (a == b) = decide (a = b) := by
  by_cases h : a = b <;> simp [h]

theorem find_opt (e : Ty) : R.find? (fun r => if r.complex then (Ty.opt e).isKind r.super else (Ty.opt e) == .prim r.super) = some RulesPinned.rule16 := rfl
theorem find_dict (k v : Ty) : R.find? (fun r => if r.complex then (Ty.dict k v).isKind r.super else (Ty.dict k v) == .prim r.super) = some RulesPinned.rule17 := rfl
theorem find_varArr (e : Ty) : R.find? (fun r => if r.complex then (Ty.varArr e).isKind r.super else (Ty.varArr e) == .prim r.super) = some RulesPinned.rule18 := rfl
theorem find_constArr (e : Ty) (n : Nat) : R.find? (fun r => if r.complex then (Ty.constArr e n).isKind r.super else (Ty.constArr e n) == .prim r.super) = some RulesPinned.rule19 := rfl
theorem find_ref (au : Access String) (t : Ty) : R.find? (fun r => if r.complex then (Ty.ref au t).isKind r.super else (Ty.ref au t) == .prim r.super) = some RulesPinned.rule20 := rfl
theorem find_comp (n : String) (k : Kind) (cs : List String) (b : Bool) : R.find? (fun r => if r.complex then (Ty.comp n k cs b).isKind r.super else (Ty.comp n k cs b) == .prim r.super) = some RulesPinned.rule21 := rfl
theorem find_iface (i : Iface) : R.find? (fun r => if r.complex then (Ty.iface i).isKind r.super else (Ty.iface i) == .prim r.super) = some RulesPinned.rule22 := rfl
theorem find_inter (is : List Iface) : R.find? (fun r => if r.complex then (Ty.inter is).isKind r.super else (Ty.inter is) == .prim r.super) = some RulesPinned.rule23 := rfl
theorem find_fn (v : Bool) (p r : Ty) : R.find? (fun r' => if r'.complex then (Ty.fn v p r).isKind r'.super else (Ty.fn v p r) == .prim r'.super) = some RulesPinned.rule24 := rfl
theorem find_capAny : R.find? (fun r => if r.complex then Ty.capAny.isKind r.super else Ty.capAny == .prim r.super) = some RulesPinned.rule25 := rfl
theorem find_cap (t : Ty) : R.find? (fun r => if r.complex then (Ty.cap t).isKind r.super else (Ty.cap t) == .prim r.super) = some RulesPinned.rule25 := rfl
theorem find_range (t : Ty) : R.find? (fun r => if r.complex then (Ty.range t).isKind r.super else (Ty.range t) == .prim r.super) = some RulesPinned.rule25 := rfl

theorem isSubC_opt (m : Nat) (a s : Ty) :
    isSub R (m + 8) a (.opt s) = (a == .opt s || (a == never ||
      match a with
      | .opt x => isSub R (m + 2) x s
      | _ => isSub R (m + 2) a s)) := by
  rw [isSub_rule (m + 6) a _ _ (find_opt s)]
  cases a <;> simp [RulesPinned.rule16, evalPred, evalExpr, field, Ty.isKind, subVal, Pred.isSwitch]

theorem isSubC_dict (m : Nat) (a k v : Ty) :
    isSub R (m + 8) a (.dict k v) = (a == .dict k v || (a == never ||
      match a with
      | .dict k' v' => isSub R (m + 2) v' v && isSub R (m + 1) k' k
      | _ => false)) := by
  rw [isSub_rule (m + 6) a _ _ (find_dict k v)]
  cases a <;> simp [RulesPinned.rule17, evalPred, evalExpr, field, Ty.isKind, subVal]

theorem isSubC_varArr (m : Nat) (a e : Ty) :
    isSub R (m + 8) a (.varArr e) = (a == .varArr e || (a == never ||
      match a with
      | .varArr x => isSub R (m + 2) x e
      | _ => false)) := by
  rw [isSub_rule (m + 6) a _ _ (find_varArr e)]
  cases a <;> simp [RulesPinned.rule18, evalPred, evalExpr, field, Ty.isKind, subVal]

theorem isSubC_constArr (m : Nat) (a e : Ty) (n : Nat) :
    isSub R (m + 8) a (.constArr e n) = (a == .constArr e n || (a == never ||
      match a with
      | .constArr x n' => n == n' && isSub R (m + 1) x e
      | _ => false)) := by
  rw [isSub_rule (m + 6) a _ _ (find_constArr e n)]
  cases a <;> simp [RulesPinned.rule19, evalPred, evalExpr, field, Ty.isKind, subVal, valEqOneOf, valEq]

theorem isSubC_ref (m : Nat) (a t : Ty) (au : Access String) :
    isSub R (m + 8) a (.ref au t) = (a == .ref au t || (a == never ||
      match a with
      | .ref au' x => permits au au' && isSub R (m + 1) x t
      | _ => false)) := by
  rw [isSub_rule (m + 6) a _ _ (find_ref au t)]
  cases a <;> simp [RulesPinned.rule20, evalPred, evalExpr, field, Ty.isKind, subVal]


theorem isSubC_comp (m : Nat) (a : Ty) (n : String) (k : Kind) (cs : List String) (b : Bool) :
    isSub R (m + 12) a (.comp n k cs b) = (a == .comp n k cs b || a == never) := by
  rw [isSub_rule (m + 10) a _ _ (find_comp n k cs b)]
  cases a <;> simp [RulesPinned.rule21, evalPred, evalExpr, field, Ty.isKind, Pred.isSwitch, valEqOneOf, valEq]

theorem isSubC_iface (m : Nat) (a : Ty) (i : Iface) :
    isSub R (m + 12) a (.iface i) = (a == .iface i || (a == never ||
      match a with
      | .comp _ k cs _ => k == i.kind && cs.contains i.name
      | .inter is => (interSet is).contains i.name
      | .iface j => j.confs.contains i.name
      | _ => false)) := by
  rw [isSub_rule (m + 10) a _ _ (find_iface i)]
  cases a <;> simp [RulesPinned.rule22, evalPred, evalExpr, field, Ty.isKind, Pred.isSwitch, valEqOneOf, valEq]

theorem isSubC_inter (m : Nat) (a : Ty) (sup : List Iface) :
    isSub R (m + 20) a (.inter sup) = (a == .inter sup || (a == never ||
      match a with
      | .inter sb => subset (interSet sup) (interSet sb)
      | .comp _ _ cs _ => subset (interSet sup) cs
      | .iface i => subset (interSet sup) i.confs
      | _ => false)) := by
  rw [isSub_rule (m + 18) a _ _ (find_inter sup)]
  cases a <;> simp [RulesPinned.rule23, evalPred, evalExpr, field, Ty.isKind, subVal, Pred.isSwitch, Expr.isOneOf, valEqOneOf, valEq, ty_beq, never]


/-- the predicate of the function rule's `forAll` over parameters: `target <: source` (contravariance) -/
def paramPred : Pred :=
  .subtype (.member (.member (.ident "target") "TypeAnnotation") "Type") (.member (.member (.ident "source") "TypeAnnotation") "Type")

theorem field_ta (t : Ty) : field (.ty t) "TypeAnnotation" = .param t := by cases t <;> rfl

theorem forAll_nil (k : Nat) (env : Env) (p : Pred) : forAllPairs R (k + 1) env p [] [] = true := by
  simp [forAllPairs]

theorem fld_fn1 (v p r) : field (.ty (.fn v p r)) "Purity" = .purity v := rfl
theorem fld_fn2 (v p r) : field (.ty (.fn v p r)) "TypeParameters" = .tys [] := rfl
theorem fld_fn3 (v p r) : field (.ty (.fn v p r)) "Parameters" = .tys p.toList := rfl
theorem fld_fn4 (v p r) : field (.ty (.fn v p r)) "Arity" = .nil := rfl
theorem fld_fn5 (v p r) : field (.ty (.fn v p r)) "IsConstructor" = .bool false := rfl

theorem isSubC_fn_fn (m : Nat) (v : Bool) (p r : Ty) (v' : Bool) (p' r' : Ty) :
    isSub R (m + 12) (.fn v p r) (.fn v' p' r') = (Ty.fn v p r == .fn v' p' r' ||
      ((v == v' || v) &&
          (forAllPairs R (m + 5) { sub := .ty (.fn v p r), super := .ty (.fn v' p' r') } paramPred p.toList p'.toList &&
           isSub R (m + 3) r r'))) := by
  rw [isSub_rule (m + 10) _ _ _ (find_fn v' p' r')]
  simp only [RulesPinned.rule24, evalPred, evalExpr, fld_fn1, fld_fn2, fld_fn3, fld_fn4, fld_fn5, Ty.isKind]
  simp [valEqOneOf, valEq, forAll_nil, paramPred, never, ty_beq]

/-- a sub type that is not a function type is below a function type only if it is `Never` -/
theorem isSubC_fn_other (m : Nat) (a : Ty) (h : ∀ v p r, a ≠ .fn v p r) (v' : Bool) (p' r' : Ty) :
    isSub R (m + 12) a (.fn v' p' r') = (a == never) := by
  rw [isSub_rule (m + 10) _ _ _ (find_fn v' p' r')]
  cases a <;> first | exact absurd rfl (h _ _ _) | simp [RulesPinned.rule24, evalPred, evalExpr, Ty.isKind, ty_beq]


/-! ### parameterized types: `Capability`, `Capability<T>`, `InclusiveRange<T>` -/

theorem find_IR : R.find? (fun r => if r.complex then (Ty.prim "InclusiveRange").isKind r.super else (Ty.prim "InclusiveRange") == .prim r.super) = none := rfl

theorem isSub_one (a b : Ty) : isSub R 1 a b = (a == b) := by simp [isSub, check]
theorem isSub_self (k : Nat) (t : Ty) : isSub R (k + 1) t t = true := by simp [isSub]

/-- the base type `InclusiveRange` is not below a parameterized type (any fuel) -/
theorem isSub_IR_param (k : Nat) (x : Ty) (hx : x = .capAny ∨ (∃ t, x = .cap t) ∨ ∃ t, x = .range t) :
    isSub R k (.prim "InclusiveRange") x = false := by
  have hf : R.find? (fun r => if r.complex then x.isKind r.super else x == .prim r.super) = some RulesPinned.rule25 := by
    rcases hx with rfl | ⟨t, rfl⟩ | ⟨t, rfl⟩ <;> rfl
  have hne : (Ty.prim "InclusiveRange" == x) = false := by
    rcases hx with rfl | ⟨t, rfl⟩ | ⟨t, rfl⟩ <;> rfl
  match k with
  | 0 => rfl
  | 1 => rw [isSub_one, hne]
  | 2 => rw [isSub_rule 0 _ _ _ hf, hne]; simp [never, evalPred]
  | 3 => rw [isSub_rule 1 _ _ _ hf, hne]; simp [never, evalPred, RulesPinned.rule25]
  | k + 4 => rw [isSub_rule (k + 2) _ _ _ hf, hne]; simp [never, evalPred, RulesPinned.rule25, evalExpr, Ty.isKind]

/-- `Capability` is not below `InclusiveRange` (any fuel) -/
theorem isSub_capAny_IR (k : Nat) : isSub R k .capAny (.prim "InclusiveRange") = false := by
  match k with
  | 0 => rfl
  | 1 => rw [isSub_one]; rfl
  | k + 2 => rw [isSub_norule k _ _ find_IR]; rfl

/-- `Capability <: Capability<T>` fails (any fuel) -/
theorem isSub_capAny_cap (k : Nat) (t : Ty) : isSub R k .capAny (.cap t) = false := by
  have hne : (Ty.capAny == Ty.cap t) = false := by simp [ty_beq]
  match k with
  | 0 => rfl
  | 1 => rw [isSub_one, hne]
  | 2 => rw [isSub_rule 0 _ _ _ (find_cap t), hne]; simp [never, evalPred, ty_beq]
  | 3 => rw [isSub_rule 1 _ _ _ (find_cap t), hne]; simp [never, evalPred, ty_beq, RulesPinned.rule25]
  | 4 => rw [isSub_rule 2 _ _ _ (find_cap t), hne]; simp [never, evalPred, ty_beq, RulesPinned.rule25, evalExpr, Ty.isKind]
  | 5 => rw [isSub_rule 3 _ _ _ (find_cap t), hne]; simp [never, evalPred, ty_beq, RulesPinned.rule25, evalExpr, Ty.isKind]
  | k + 6 => rw [isSub_rule (k + 4) _ _ _ (find_cap t), hne]; simp [never, evalPred, ty_beq, RulesPinned.rule25, evalExpr, Ty.isKind, field, valEqOneOf, valEq]

theorem isSubC_capAny (m : Nat) (a : Ty) :
    isSub R (m + 12) a .capAny = (a == .capAny || (a == never ||
      match a with
      | .cap _ => true
      | _ => false)) := by
  rw [isSub_rule (m + 10) a _ _ find_capAny]
  cases a <;> simp [RulesPinned.rule25, evalPred, evalExpr, field, Ty.isKind, subVal, valEqOneOf, valEq, isSub_self,
    isSub_IR_param _ _ (Or.inl rfl)]

end Verif.Proofs.SubUnfold
