/-
C08 helper lemmas, part 2: per-rule unfolding of the rule interpreter for the complex super types
(optional, dictionary, arrays, reference, composite, interface, intersection, function, capability,
inclusive range).  Each lemma states `isSub R (m + c) a SUPER` for *every* sub type `a` in terms of the
components, with the exact fuel the nested calls receive.
-/
import Verif.Proofs.SubBase
namespace Verif.Proofs.SubUnfold
open Verif.Model.Types Verif.Model.Types.Struct Verif.Model.Auth

theorem find_opt (e : Ty) : R.find? (fun r => if r.complex then (Ty.opt e).isKind r.super else (Ty.opt e) == .prim r.super) = some RulesPinned.rule16 := rfl
theorem find_dict (k v : Ty) : R.find? (fun r => if r.complex then (Ty.dict k v).isKind r.super else (Ty.dict k v) == .prim r.super) = some RulesPinned.rule17 := rfl
theorem find_varArr (e : Ty) : R.find? (fun r => if r.complex then (Ty.varArr e).isKind r.super else (Ty.varArr e) == .prim r.super) = some RulesPinned.rule18 := rfl
theorem find_constArr (e : Ty) (n : Nat) : R.find? (fun r => if r.complex then (Ty.constArr e n).isKind r.super else (Ty.constArr e n) == .prim r.super) = some RulesPinned.rule19 := rfl
theorem find_ref (au : Access String) (t : Ty) : R.find? (fun r => if r.complex then (Ty.ref au t).isKind r.super else (Ty.ref au t) == .prim r.super) = some RulesPinned.rule20 := rfl

theorem isSubC_opt (m : Nat) (a s : Ty) :
    isSub R (m + 8) a (.opt s) = (a == .opt s || (a == never ||
      match a with
      | .opt x => isSub R (m + 2) x s
      | _ => isSub R (m + 2) a s)) := by
  rw [isSub_rule (m + 6) a _ _ (find_opt s)]
  cases a <;> simp [RulesPinned.rule16, evalPred, evalExpr, field, Ty.isKind, subVal, Pred.isSwitch]

theorem isSubC_dict (m : Nat) (a k v : Ty) :
    isSub R (m + 8) a (.dict k v) = (a == .dict k v || (a == never ||
      match a with
      | .dict k' v' => isSub R (m + 2) v' v && isSub R (m + 1) k' k
      | _ => false)) := by
  rw [isSub_rule (m + 6) a _ _ (find_dict k v)]
  cases a <;> simp [RulesPinned.rule17, evalPred, evalExpr, field, Ty.isKind, subVal]

theorem isSubC_varArr (m : Nat) (a e : Ty) :
    isSub R (m + 8) a (.varArr e) = (a == .varArr e || (a == never ||
      match a with
      | .varArr x => isSub R (m + 2) x e
      | _ => false)) := by
  rw [isSub_rule (m + 6) a _ _ (find_varArr e)]
  cases a <;> simp [RulesPinned.rule18, evalPred, evalExpr, field, Ty.isKind, subVal]

theorem isSubC_constArr (m : Nat) (a e : Ty) (n : Nat) :
    isSub R (m + 8) a (.constArr e n) = (a == .constArr e n || (a == never ||
      match a with
      | .constArr x n' => n == n' && isSub R (m + 1) x e
      | _ => false)) := by
  rw [isSub_rule (m + 6) a _ _ (find_constArr e n)]
  cases a <;> simp [RulesPinned.rule19, evalPred, evalExpr, field, Ty.isKind, subVal, valEqOneOf, valEq]

theorem isSubC_ref (m : Nat) (a t : Ty) (au : Access String) :
    isSub R (m + 8) a (.ref au t) = (a == .ref au t || (a == never ||
      match a with
      | .ref au' x => permits au au' && isSub R (m + 1) x t
      | _ => false)) := by
  rw [isSub_rule (m + 6) a _ _ (find_ref au t)]
  cases a <;> simp [RulesPinned.rule20, evalPred, evalExpr, field, Ty.isKind, subVal]


end Verif.Proofs.SubUnfold
