import Verif.Proofs.Str
/-! C19: the aligned search returns the *first* cluster-aligned occurrence (minimality and
completeness), for every segmentation into non-empty clusters.  Core only. -/
namespace Verif.Proofs.Str
open Verif.Model.Str
open Verif.Spec.Str (alignedPrefix)

theorem occursAt_bound {bytes needle : Bytes} (hn : needle ≠ []) {a : Nat}
    (h : occursAt bytes needle a = true) : a + needle.length ≤ bytes.length := by
  unfold occursAt at h
  have hp := List.isPrefixOf_iff_prefix.mp h
  have hl := hp.length_le
  rw [List.length_drop] at hl
  have : 0 < needle.length := List.length_pos_iff.mpr hn
  omega

/-- `strings.Index` from `s` on returns the least offset `≥ s` of an occurrence -/
theorem indexFrom_complete (bytes needle : Bytes) (hn : needle ≠ []) : ∀ (fuel s : Nat),
    bytes.length < fuel + s →
    (indexFrom bytes needle fuel s = none → ∀ a, s ≤ a → occursAt bytes needle a = false) ∧
    (∀ abs, indexFrom bytes needle fuel s = some abs → ∀ a, s ≤ a → a < abs → occursAt bytes needle a = false)
  | 0, s, hf => by
    refine ⟨fun _ a ha => ?_, fun abs h => by simp [indexFrom] at h⟩
    cases ho : occursAt bytes needle a with
    | false => rfl
    | true => have := occursAt_bound hn ho; omega
  | fuel + 1, s, hf => by
    simp only [indexFrom]
    split
    · rename_i hlen
      refine ⟨fun _ a ha => ?_, fun abs h => by simp at h⟩
      cases ho : occursAt bytes needle a with
      | false => rfl
      | true => have := occursAt_bound hn ho; omega
    · split
      · rename_i ho
        refine ⟨fun h => by simp at h, fun abs h a ha hlt => ?_⟩
        simp at h; omega
      · rename_i ho
        have ih := indexFrom_complete bytes needle hn fuel (s + 1) (by omega)
        refine ⟨fun h a ha => ?_, fun abs h a ha hlt => ?_⟩
        · by_cases e : a = s
          · subst e; simpa using ho
          · exact ih.1 h a (by omega)
        · by_cases e : a = s
          · subst e; simpa using ho
          · exact ih.2 abs h a (by omega) hlt

/-- a candidate byte offset that passes both boundary tests, with the cluster index found -/
def Good (cs : List Bytes) (bytes needle : Bytes) (i abs : Nat) : Prop :=
  occursAt bytes needle abs = true ∧
    ∃ rest, seekStart cs 0 abs 0 = some (i, rest) ∧ isEnd rest abs (abs + needle.length) = true

/-- the loop returns the least good candidate `≥ s` -/
theorem loop_complete (cs : List Bytes) (bytes needle : Bytes) (hn : needle ≠ []) : ∀ (fuel s : Nat),
    bytes.length ≤ fuel + s →
    (indexOfLoop cs bytes needle fuel s = none → ∀ i a, s ≤ a → ¬ Good cs bytes needle i a) ∧
    (∀ i abs, indexOfLoop cs bytes needle fuel s = some (i, abs) →
      s ≤ abs ∧ ∀ j a, s ≤ a → a < abs → ¬ Good cs bytes needle j a)
  | 0, s, hf => by
    refine ⟨fun _ i a ha hg => ?_, fun i abs h => by simp [indexOfLoop] at h⟩
    have := occursAt_bound hn hg.1
    have : 0 < needle.length := List.length_pos_iff.mpr hn
    omega
  | fuel + 1, s, hf => by
    simp only [indexOfLoop]
    split
    · rename_i hs
      refine ⟨fun _ i a ha hg => ?_, fun i abs h => by simp at h⟩
      have := occursAt_bound hn hg.1
      have : 0 < needle.length := List.length_pos_iff.mpr hn
      omega
    · have hif := indexFrom_complete bytes needle hn (bytes.length + 1) s (by omega)
      split
      · rename_i hnone
        refine ⟨fun _ i a ha hg => ?_, fun i abs h => by simp at h⟩
        have := hif.1 hnone a ha
        rw [hg.1] at this; cases this
      · rename_i a0 ha0
        have hle := (indexFrom_some _ _ _ _ _ ha0).1
        have ih := loop_complete cs bytes needle hn fuel (s + 1) (by omega)
        -- a good candidate `≥ s` that is not `a0` itself is `≥ s + 1`; if `a0` fails, none is at `s`
        have notAtS : (∀ j, ¬ Good cs bytes needle j a0) → ∀ j a, s ≤ a → Good cs bytes needle j a → s + 1 ≤ a := by
          intro hbad j a ha hg
          by_cases e : a = s
          · subst e
            have : a0 = a := by
              by_cases e2 : a0 = a
              · exact e2
              · have := hif.2 a0 ha0 a (Nat.le_refl _) (by omega)
                rw [hg.1] at this; cases this
            subst this
            exact absurd hg (hbad j)
          · omega
        split
        · rename_i ci rest hseek
          split
          · rename_i hend
            refine ⟨fun h => by simp at h, fun i abs h => ?_⟩
            simp at h
            obtain ⟨h1, h2⟩ := h
            subst h1; subst h2
            refine ⟨hle, fun j a ha hlt hg => ?_⟩
            have := hif.2 a0 ha0 a ha hlt
            rw [hg.1] at this; cases this
          · rename_i hend
            have hbad : ∀ j, ¬ Good cs bytes needle j a0 := by
              rintro j ⟨_, rest', hs', he'⟩
              rw [hseek] at hs'
              simp at hs'
              obtain ⟨_, hr⟩ := hs'
              subst hr
              exact hend he'
            refine ⟨fun h i a ha hg => ?_, fun i abs h => ?_⟩
            · exact ih.1 h i a (notAtS hbad i a ha hg) hg
            · obtain ⟨h1, h2⟩ := ih.2 i abs h
              exact ⟨by omega, fun j a ha hlt hg => h2 j a (notAtS hbad j a ha hg) hlt hg⟩
        · rename_i hseek
          have hbad : ∀ j, ¬ Good cs bytes needle j a0 := by
            rintro j ⟨_, rest', hs', _⟩
            rw [hseek] at hs'
            cases hs'
          refine ⟨fun h i a ha hg => ?_, fun i abs h => ?_⟩
          · exact ih.1 h i a (notAtS hbad i a ha hg) hg
          · obtain ⟨h1, h2⟩ := ih.2 i abs h
            exact ⟨by omega, fun j a ha hlt hg => h2 j a (notAtS hbad j a ha hg) hlt hg⟩

/-! ### the boundary tests are complete on non-empty clusters -/

theorem seekStart_complete : ∀ (cs : List Bytes) (cur ci i : Nat), (∀ c ∈ cs, c ≠ []) → i < cs.length →
    seekStart cs cur (cur + (cs.take i).flatten.length) ci = some (ci + i, cs.drop i)
  | [], _, _, _, _, h => by simp at h
  | c :: cs, cur, ci, 0, _, _ => by simp [seekStart]
  | c :: cs, cur, ci, i + 1, hw, h => by
    have hc : 0 < c.length := List.length_pos_iff.mpr (hw c (by simp))
    simp only [seekStart, List.take_succ_cons, List.flatten_cons, List.length_append, List.drop_succ_cons]
    have h1 : ¬ (cur + (c.length + (cs.take i).flatten.length) = cur) := by omega
    have h2 : ¬ (cur > cur + (c.length + (cs.take i).flatten.length)) := by omega
    simp only [h1, h2, if_false]
    have := seekStart_complete cs (cur + c.length) (ci + 1) i (fun x hx => hw x (List.mem_cons_of_mem _ hx))
      (by simpa using h)
    rw [show cur + (c.length + (cs.take i).flatten.length) = cur + c.length + (cs.take i).flatten.length by omega,
      this]
    congr 2; omega

theorem isEnd_complete : ∀ (rest : List Bytes) (cur m : Nat), 1 ≤ m → m ≤ rest.length →
    isEnd rest cur (cur + (rest.take m).flatten.length) = true
  | [], _, m, h1, h2 => by simp at h2; omega
  | c :: cs, cur, 1, _, _ => by simp [isEnd]
  | c :: cs, cur, m + 2, _, h2 => by
    have ih := isEnd_complete cs (cur + c.length) (m + 1) (by omega) (by simpa using h2)
    simp only [isEnd, List.take_succ_cons, List.flatten_cons, List.length_append]
    split
    · rfl
    · have h3 : ¬ (cur + c.length > cur + (c.length + (cs.take (m + 1)).flatten.length)) := by omega
      rw [if_neg h3]
      rw [show cur + (c.length + (cs.take (m + 1)).flatten.length) =
        cur + c.length + (cs.take (m + 1)).flatten.length by omega]
      exact ih

/-- an aligned prefix is a whole number of leading clusters -/
theorem take_of_aligned : ∀ (rest : List Bytes) (needle : Bytes), alignedPrefix rest needle = true →
    ∃ m, m ≤ rest.length ∧ (rest.take m).flatten = needle
  | rest, [], _ => ⟨0, by simp, by simp⟩
  | [], n :: ns, h => by simp [alignedPrefix] at h
  | c :: cs, n :: ns, h => by
    simp only [alignedPrefix] at h
    split at h
    · rename_i hp
      obtain ⟨m, hm, he⟩ := take_of_aligned cs _ h
      obtain ⟨t, ht⟩ := List.isPrefixOf_iff_prefix.mp hp
      refine ⟨m + 1, by simp; omega, ?_⟩
      simp only [List.take_succ_cons, List.flatten_cons, he]
      rw [← ht]; simp
    · cases h

theorem startOf_lt (cs : List Bytes) (hw : ∀ c ∈ cs, c ≠ []) : ∀ (j i : Nat), j < i → i ≤ cs.length →
    startOf cs j < startOf cs i := by
  induction cs with
  | nil => intro j i hji hi; simp at hi; omega
  | cons c cs ih =>
    intro j i hji hi
    have hc : 0 < c.length := List.length_pos_iff.mpr (hw c (by simp))
    cases i with
    | zero => omega
    | succ i =>
      cases j with
      | zero => simp [startOf]; omega
      | succ j =>
        have := ih (fun x hx => hw x (List.mem_cons_of_mem _ hx)) j i (by omega) (by simpa using hi)
        simp only [startOf, List.take_succ_cons, List.flatten_cons, List.length_append] at this ⊢
        omega

/-- on non-empty clusters: the candidates that pass both tests are exactly the starts of the
cluster-aligned occurrences -/
theorem good_iff (s : Str) (hw : s.wf) (needle : Bytes) (hn : needle ≠ []) (i abs : Nat) :
    Good s.clusters s.bytes needle i abs ↔
      i < s.clusters.length ∧ abs = startOf s.clusters i ∧ alignedPrefix (s.clusters.drop i) needle = true := by
  constructor
  · rintro ⟨hocc, rest, hs, he⟩
    obtain ⟨k, hk, hi, hr, ho⟩ := seekStart_some _ _ _ _ _ _ hs
    have hi' : i = k := by omega
    subst hi'
    have hoff : abs = startOf s.clusters i := by simp [startOf, ho]
    refine ⟨hk, hoff, ?_⟩
    obtain ⟨m, hm⟩ := isEnd_true _ _ _ he
    subst hr
    have hpre : needle <+: (s.clusters.drop i).flatten := by
      have := hocc
      unfold occursAt Str.bytes at this
      rw [hoff, drop_startOf] at this
      exact List.isPrefixOf_iff_prefix.mp this
    have hpre2 : ((s.clusters.drop i).take m).flatten <+: (s.clusters.drop i).flatten := by
      refine ⟨((s.clusters.drop i).drop m).flatten, ?_⟩
      rw [← List.flatten_append, List.take_append_drop]
    have hlen : ((s.clusters.drop i).take m).flatten.length = needle.length := by omega
    have heq : ((s.clusters.drop i).take m).flatten = needle :=
      List.prefix_of_prefix_length_le hpre2 hpre (by omega) |>.eq_of_length hlen
    exact aligned_of_take _ m _ heq
  · rintro ⟨hi, habs, hal⟩
    subst habs
    obtain ⟨m, hm, he⟩ := take_of_aligned _ _ hal
    have hm1 : 1 ≤ m := by
      cases m with
      | zero => simp at he; exact absurd he.symm (by simpa using hn)
      | succ m => omega
    refine ⟨?_, s.clusters.drop i, ?_, ?_⟩
    · unfold occursAt Str.bytes
      rw [drop_startOf, List.isPrefixOf_iff_prefix, ← he]
      refine ⟨((s.clusters.drop i).drop m).flatten, ?_⟩
      rw [← List.flatten_append, List.take_append_drop]
    · have := seekStart_complete s.clusters 0 0 i hw hi
      simpa [startOf] using this
    · have := isEnd_complete (s.clusters.drop i) (startOf s.clusters i) m hm1 hm
      rw [he] at this
      exact this

/-! ### the spec's `indexOf` -/

theorem spec_indexOf_some : ∀ (cs : List Bytes) (needle : Bytes) (b i : Nat),
    Verif.Spec.Str.indexOf cs needle b = some i →
      ∃ k, i = b + k ∧ k < cs.length ∧ alignedPrefix (cs.drop k) needle = true ∧
        ∀ j, j < k → alignedPrefix (cs.drop j) needle = false
  | [], _, _, _, h => by simp [Verif.Spec.Str.indexOf] at h
  | c :: cs, needle, b, i, h => by
    simp only [Verif.Spec.Str.indexOf] at h
    split at h
    · rename_i ha
      simp at h
      exact ⟨0, by omega, by simp, by simpa using ha, fun j hj => by omega⟩
    · rename_i ha
      obtain ⟨k, hk, hl, hal, hmin⟩ := spec_indexOf_some cs needle (b + 1) i h
      refine ⟨k + 1, by omega, by simp; omega, by simpa using hal, fun j hj => ?_⟩
      cases j with
      | zero => simpa using ha
      | succ j => simpa using hmin j (by omega)

theorem spec_indexOf_none : ∀ (cs : List Bytes) (needle : Bytes) (b : Nat),
    Verif.Spec.Str.indexOf cs needle b = none → ∀ j, j < cs.length → alignedPrefix (cs.drop j) needle = false
  | [], _, _, _, j, hj => by simp at hj
  | c :: cs, needle, b, h, j, hj => by
    simp only [Verif.Spec.Str.indexOf] at h
    split at h
    · cases h
    · rename_i ha
      cases j with
      | zero => simpa using ha
      | succ j => simpa using spec_indexOf_none cs needle (b + 1) h j (by simpa using hj)

/-- **the byte search with boundary tests is the cluster-list search** -/
theorem indexOf_eq_spec (s : Str) (hw : s.wf) (needle : Bytes) (hn : needle ≠ []) :
    s.indexOf needle = (Verif.Spec.Str.indexOf s.clusters needle 0).map (fun i => (i, startOf s.clusters i)) := by
  have hl : needle.length ≠ 0 := by simpa using hn
  have hloop := loop_complete s.clusters s.bytes needle hn s.bytes.length 0 (by omega)
  have hidx : s.indexOf needle = if s.bytes.length = 0 then none
      else indexOfLoop s.clusters s.bytes needle s.bytes.length 0 := by
    unfold Str.indexOf; simp [hl]
  -- the model's answer, described without the loop
  have hmodel : (s.indexOf needle = none → ∀ i a, ¬ Good s.clusters s.bytes needle i a) ∧
      (∀ i abs, s.indexOf needle = some (i, abs) →
        Good s.clusters s.bytes needle i abs ∧ ∀ j a, a < abs → ¬ Good s.clusters s.bytes needle j a) := by
    rw [hidx]
    split
    · rename_i hz
      refine ⟨fun _ i a hg => ?_, fun i abs h => by cases h⟩
      have := occursAt_bound hn hg.1
      have : 0 < needle.length := List.length_pos_iff.mpr hn
      omega
    · refine ⟨fun h i a => hloop.1 h i a (Nat.zero_le _), fun i abs h => ?_⟩
      obtain ⟨hocc, rest, hs, he⟩ := loop_some _ _ _ _ _ _ _ h
      exact ⟨⟨hocc, rest, hs, he⟩, fun j a hlt => (hloop.2 i abs h).2 j a (Nat.zero_le _) hlt⟩
  cases hspec : Verif.Spec.Str.indexOf s.clusters needle 0 with
  | none =>
    have hnone := spec_indexOf_none _ _ _ hspec
    cases hm : s.indexOf needle with
    | none => rfl
    | some r =>
      obtain ⟨i, abs⟩ := r
      have hg := (good_iff s hw needle hn i abs).1 (hmodel.2 i abs hm).1
      have := hnone i hg.1
      rw [hg.2.2] at this; cases this
  | some i =>
    obtain ⟨k, hk, hlen, hal, hmin⟩ := spec_indexOf_some _ _ _ _ hspec
    have hk' : i = k := by omega
    subst hk'
    have hgood : Good s.clusters s.bytes needle i (startOf s.clusters i) :=
      (good_iff s hw needle hn i _).2 ⟨hlen, rfl, hal⟩
    cases hm : s.indexOf needle with
    | none => exact absurd hgood (hmodel.1 hm i _)
    | some r =>
      obtain ⟨i', abs⟩ := r
      obtain ⟨hg', hmin'⟩ := hmodel.2 i' abs hm
      have hg := (good_iff s hw needle hn i' abs).1 hg'
      -- `i'` is not after `i` (no good candidate before `abs`), and not before (`i` is the first aligned)
      have h1 : ¬ i < i' := by
        intro hlt
        have := startOf_lt s.clusters hw i i' hlt (by omega)
        rw [← hg.2.1] at this
        exact hmin' i _ this hgood
      have h2 : ¬ i' < i := by
        intro hlt
        have := hmin i' hlt
        rw [hg.2.2] at this; cases this
      have : i' = i := by omega
      subst this
      simp [hg.2.1]

end Verif.Proofs.Str
