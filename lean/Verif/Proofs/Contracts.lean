import Verif.Model.Contracts
/-! Helper lemmas for C26 (core Lean only). -/
namespace Verif.Proofs.Contracts
open Verif.Model.Contracts

def NodupKeys (s : Store) : Prop := (s.map (·.1)).Nodup

theorem find_some_mem : ∀ (s : Store) (k : Key) (e : Entry), s.find k = some e → (k, e) ∈ s
  | [], _, _, h => by simp [Store.find] at h
  | (k', e') :: rest, k, e, h => by
    simp only [Store.find] at h
    split at h
    · rename_i hk
      simp at h
      subst hk h
      exact List.mem_cons_self
    · exact List.mem_cons_of_mem _ (find_some_mem rest k e h)

theorem find_none_not_mem : ∀ (s : Store) (k : Key), s.find k = none → ∀ e, (k, e) ∉ s
  | [], _, _, _ => by simp
  | (k', e') :: rest, k, h, e => by
    simp only [Store.find] at h
    split at h
    · simp at h
    · rename_i hk
      intro hm
      rcases List.mem_cons.1 hm with hm | hm
      · simp at hm; exact hk hm.1.symm
      · exact find_none_not_mem rest k h e hm

theorem mem_find_of_nodup : ∀ (s : Store), NodupKeys s → ∀ k e, (k, e) ∈ s → s.find k = some e
  | [], _, _, _, h => by simp at h
  | (k', e') :: rest, hn, k, e, h => by
    simp only [NodupKeys, List.map_cons, List.nodup_cons] at hn
    simp only [Store.find]
    rcases List.mem_cons.1 h with h | h
    · simp at h
      simp [h.1, h.2]
    · split
      · rename_i hk
        subst hk
        exact absurd (List.mem_map.2 ⟨(k', e), h, rfl⟩) hn.1
      · exact mem_find_of_nodup rest hn.2 k e h

theorem nodup_erase (s : Store) (k : Key) (h : NodupKeys s) : NodupKeys (s.erase k) := by
  unfold NodupKeys Store.erase
  exact List.Nodup.sublist (List.Sublist.map _ List.filter_sublist) h

theorem not_mem_keys_erase (s : Store) (k : Key) : k ∉ (s.erase k).map (·.1) := by
  simp [Store.erase]

theorem nodup_set (s : Store) (k : Key) (e : Entry) (h : NodupKeys s) : NodupKeys (s.set k e) := by
  unfold Store.set NodupKeys
  simp only [List.map_cons, List.nodup_cons]
  exact ⟨not_mem_keys_erase s k, nodup_erase s k h⟩

theorem mem_names (s : Store) (a n : Nat) : n ∈ s.names a ↔ ∃ e, ((a, n), e) ∈ s := by
  simp only [Store.names, List.mem_map, List.mem_filter]
  constructor
  · rintro ⟨⟨⟨a', n'⟩, e⟩, ⟨hm, ha⟩, hn⟩
    simp at ha hn
    subst ha hn
    exact ⟨e, hm⟩
  · rintro ⟨e, hm⟩
    exact ⟨((a, n), e), ⟨hm, by simp⟩, rfl⟩

theorem nodup_names (s : Store) (a : Nat) (h : NodupKeys s) : (s.names a).Nodup := by
  unfold Store.names
  have h1 : ((s.filter (fun p => p.1.1 = a)).map (·.1)).Nodup :=
    List.Nodup.sublist (List.Sublist.map _ List.filter_sublist) h
  have : (s.filter (fun p => decide (p.1.1 = a))).map (fun p => p.1.2) =
      ((s.filter (fun p => decide (p.1.1 = a))).map (·.1)).map (·.2) := by simp
  rw [this]
  rw [List.Nodup, List.pairwise_map]
  refine List.Pairwise.imp_of_mem ?_ h1
  intro x y hx hy hxy
  simp only [List.mem_map, List.mem_filter] at hx hy
  obtain ⟨p, ⟨_, hpa⟩, rfl⟩ := hx
  obtain ⟨q, ⟨_, hqa⟩, rfl⟩ := hy
  simp at hpa hqa
  intro h2
  exact hxy (Prod.ext (hpa.trans hqa.symm) h2)

/-! invariant along runs -/

theorem doUpdate_nodup (F : Facts) (t t' : TxState) (a n s : Nat) (h : NodupKeys t.store)
    (hs : doUpdate F t a n s = .ok t') : NodupKeys t'.store := by
  unfold doUpdate at hs
  split at hs
  · simp at hs
  · split at hs
    · simp at hs
    · split at hs
      · simp at hs
      · split at hs
        · simp at hs
        · simp at hs
          subst hs
          exact nodup_set _ _ _ h

theorem step_nodup (F : Facts) (t t' : TxState) (op : Op) (o : Obs) (h : NodupKeys t.store)
    (hs : step F t op = .ok (t', o)) : NodupKeys t'.store := by
  cases op <;> simp only [step] at hs
  · -- add
    repeat (split at hs; · simp at hs)
    simp at hs
    rw [← hs.1]
    exact nodup_set _ _ _ h
  · split at hs
    · rename_i t'' hu
      simp at hs
      rw [← hs.1]
      exact doUpdate_nodup F t t'' _ _ _ h hu
    · simp at hs
  · split at hs
    · rename_i t'' hu
      simp at hs
      rw [← hs.1]
      exact doUpdate_nodup F t t'' _ _ _ h hu
    · simp at hs
      rw [← hs.1]; exact h
  · split at hs
    · simp at hs
      rw [← hs.1]; exact h
    · split at hs
      · simp at hs
      · simp at hs
        rw [← hs.1]
        exact nodup_erase _ _ h
  all_goals (simp at hs; try (rw [← hs.1]; exact h))

theorem runOps_nodup (F : Facts) : ∀ (ops : List Op) (t : TxState) (acc : List Obs),
    NodupKeys t.store → NodupKeys (runOps F t ops acc).1.store
  | [], t, acc, h => by simpa [runOps] using h
  | op :: ops, t, acc, h => by
    simp only [runOps]
    split
    · rename_i t' o hs
      exact runOps_nodup F ops t' _ (step_nodup F t t' op o h hs)
    · exact h

theorem runTx_nodup (F : Facts) (s : Store) (tx : List Op) (h : NodupKeys s) : NodupKeys (runTx F s tx).1 := by
  unfold runTx
  have := runOps_nodup F tx { store := s, recorded := [] } [] h
  split
  rename_i t o heq
  rw [heq] at this
  split
  · exact this
  · exact h

theorem runHist_nodup (F : Facts) : ∀ (hist : List (List Op)) (s : Store), NodupKeys s →
    NodupKeys (runHist F s hist).1
  | [], s, h => by simpa [runHist] using h
  | tx :: rest, s, h => by
    simp only [runHist]
    exact runHist_nodup F rest _ (runTx_nodup F s tx h)

theorem runHist_append (F : Facts) : ∀ (h1 h2 : List (List Op)) (s : Store),
    runHist F s (h1 ++ h2) =
      ((runHist F (runHist F s h1).1 h2).1, (runHist F s h1).2 ++ (runHist F (runHist F s h1).1 h2).2)
  | [], h2, s => by simp [runHist]
  | tx :: rest, h2, s => by
    simp only [List.cons_append, runHist]
    rw [runHist_append F rest h2]

theorem runTx_abort (F : Facts) (s : Store) (tx : List Op) (h : (runTx F s tx).2.outcome ≠ none) :
    (runTx F s tx).1 = s := by
  unfold runTx at h ⊢
  split
  rename_i t o heq
  simp only [heq] at h ⊢
  split
  · rename_i ho
    split at h <;> simp_all
  · rfl

end Verif.Proofs.Contracts
