/-
Host-failure propagation (C28).  An execution is a tree of frames and host calls; the i-th host call
(in execution order) may be made to fail by returning an error or by panicking (`plan`).  Every host
call goes through a method of `runtime.ExternalInterface` (the `Site` flags are what
`vtool gen-hostfacts` extracts for that method).  Two frames catch failures — the documented
exceptions — and `runtime.Recover` at the top turns whatever was raised into the returned error.

Core Lean only.
-/
namespace Verif.Model.HostProp

inductive Mode where
  | err | panic
  deriving DecidableEq, Repr

/-- Shape of one `ExternalInterface` method (FX). -/
structure Site where
  /-- the inner call runs inside `errors.WrapPanic`: a host panic becomes an `ExternalError` panic -/
  wrapPanic : Bool
  /-- the inner call's error is wrapped (`WrappedExternalError`) and returned to the caller -/
  returnsErr : Bool
  deriving DecidableEq, Repr

/-- What travels up the Go stack after a failure of host call number `c`. -/
inductive Raise where
  /-- `errors.ExternalError` carrying the injected failure -/
  | ext (c : Nat)
  /-- a user error wrapping the external error (`InvalidPublicKeyError{Err: …}`) -/
  | user (c : Nat)
  /-- the host's panic value itself, not wrapped (call site outside `WrapPanic`) -/
  | raw (c : Nat)
  deriving DecidableEq, Repr

def Raise.carrier : Raise → Nat
  | .ext c | .user c | .raw c => c

def Raise.isRaw : Raise → Bool
  | .raw _ => true
  | _ => false

inductive Tree where
  | nop
  /-- a host call through method `m` -/
  | call (m : Nat)
  /-- `ValidatePublicKey` called by the public-key validation handler: a returned error becomes an
      invalid-key *user* error (a panic is not converted) -/
  | pkValidate (m : Nat)
  | seq (a b : Tree)
  /-- `contracts.tryUpdate`: recovers user and external errors raised inside and reports a failed
      deployment result; the program continues -/
  | tryUpdate (t : Tree)
  /-- a host call whose *returned error* the caller turns into a `nil` result and continues
      (`BLS.aggregateSignatures` / `BLS.aggregatePublicKeys`: "if the crypto layer produces an error, we
      have invalid input, return nil") — not among the documented exceptions -/
  | absorbErr (m : Nat)
  deriving Repr

structure St where
  /-- number of host calls made so far -/
  counter : Nat := 0
  /-- failures absorbed by a `tryUpdate` frame -/
  caught : List Nat := []
  /-- failures dropped at a call site that does not return the error -/
  swallowed : List Nat := []
  /-- failures turned into a `nil` result by an `absorbErr` caller -/
  absorbed : List Nat := []
  deriving Repr

def callStep (site : Site) (plan : Nat → Option Mode) (pk : Bool) (st : St) : St × Option Raise :=
  let c := st.counter
  let st1 := { st with counter := c + 1 }
  match plan c with
  | none => (st1, none)
  | some .panic => (st1, some (if site.wrapPanic then .ext c else .raw c))
  | some .err =>
    if site.returnsErr then (st1, some (if pk then .user c else .ext c))
    else ({ st1 with swallowed := c :: st1.swallowed }, none)

def run (sites : Nat → Site) (plan : Nat → Option Mode) : Tree → St → St × Option Raise
  | .nop, st => (st, none)
  | .call m, st => callStep (sites m) plan false st
  | .pkValidate m, st => callStep (sites m) plan true st
  | .seq a b, st =>
    match run sites plan a st with
    | (st1, none) => run sites plan b st1
    | (st1, some r) => (st1, some r)
  | .tryUpdate t, st =>
    match run sites plan t st with
    | (st1, some (.ext c)) => ({ st1 with caught := c :: st1.caught }, none)
    | (st1, some (.user c)) => ({ st1 with caught := c :: st1.caught }, none)
    | r => r
  | .absorbErr m, st =>
    match plan st.counter with
    | some .err =>
      if (sites m).returnsErr then ({ st with counter := st.counter + 1, absorbed := st.counter :: st.absorbed }, none)
      else callStep (sites m) plan false st
    | _ => callStep (sites m) plan false st

def Tree.hasAbsorb : Tree → Bool
  | .absorbErr _ => true
  | .seq a b => a.hasAbsorb || b.hasAbsorb
  | .tryUpdate t => t.hasAbsorb
  | _ => false

/-- The result the embedder sees. -/
inductive Res where
  | ok
  /-- an error is returned; `external`: `errors.As(ExternalError)`; it carries the failure of call `carrier` -/
  | error (external : Bool) (carrier : Nat)
  /-- a Go panic left the runtime's entry point -/
  | escaped (carrier : Nat)
  deriving DecidableEq, Repr

/-- `topRecover`: the executor entry points run under `defer Recover(...)` (FX). -/
def top (topRecover : Bool) : Option Raise → Res
  | none => .ok
  | some (.ext c) => if topRecover then .error true c else .escaped c
  | some (.user c) => if topRecover then .error true c else .escaped c
  | some (.raw c) => if topRecover then .error false c else .escaped c

def execute (sites : Nat → Site) (topRecover : Bool) (plan : Nat → Option Mode) (t : Tree) : Res × St :=
  let (st, r) := run sites plan t {}
  (top topRecover r, st)

/-- number of host calls a tree makes when nothing fails -/
def Tree.calls : Tree → Nat
  | .nop => 0 | .call _ => 1 | .pkValidate _ => 1 | .absorbErr _ => 1 | .seq a b => a.calls + b.calls | .tryUpdate t => t.calls

end Verif.Model.HostProp
