/-!
Process-wide caches and memo cells (properties C31 and C36).  Core Lean only.

Go mechanisms modelled:
* a memo cell — `sync.Once` + field, `atomic.Pointer[T]` (nil = empty), one key of a `sync.Map` — is an
  `Option α`; a cache (`interpreter.smallIntegerValueCache`, `sema.EntitlementMapAccess.images`) is a
  table of such cells;
* the *fill path* of a cache: a pure initialiser `init : κ → α` (the cached value depends on the key
  only) and the charges `fillCharges k` that the fill path reports to the gauge of whichever execution
  happens to fill the cell (`[]` for an unmetered fill path — the side condition that fact extraction
  `gen-cachefacts` establishes for every cache site of /repo);
* a program, as far as metering and caches are concerned: a tree of gauge calls and cache reads whose
  continuation depends on the *value* read, ending in a result.  Program text and storage state are
  inside the tree (the tree is a function of program and state); the cache state is the only thing
  that is threaded from outside.

Part 1 (C31): sequential semantics `run`, history = any list of earlier programs.
Part 2 (C36): threads as sequences of atomic actions on a shared cell with an interleaving
semantics; pools.
-/
namespace Verif.Model.Caches

/-- one gauge call: `MeterComputation(kind, intensity)` or `MeterMemory(kind, amount)` -/
inductive Charge where
  | comp (kind : Nat) (intensity : Nat)
  | mem (kind : Nat) (amount : Nat)
  deriving DecidableEq, Repr

/-- a table of memo cells; `none` = not filled yet -/
abbrev Table (κ α : Type) := κ → Option α

def Table.empty {κ α : Type} : Table κ α := fun _ => none

def Table.set {κ α : Type} [DecidableEq κ] (t : Table κ α) (k : κ) (v : α) : Table κ α :=
  fun k' => if k' = k then some v else t k'

/-- the fill path of a cache -/
structure Fill (κ α : Type) where
  init : κ → α
  fillCharges : κ → List Charge

/-- `Get`: `Load`; on a miss `new` (reporting `fillCharges`) and `Store`. -/
def Table.read {κ α : Type} [DecidableEq κ] (f : Fill κ α) (t : Table κ α) (k : κ) : α × Table κ α × List Charge :=
  match t k with
  | some v => (v, t, [])
  | none => (f.init k, t.set k (f.init k), f.fillCharges k)

/-- a program as seen by the gauges and the caches -/
inductive Prog (κ α ρ : Type) where
  | done (result : ρ)
  | charge (c : Charge) (rest : Prog κ α ρ)
  | read (key : κ) (cont : α → Prog κ α ρ)

/-- outcome of a run: result, the sequence of gauge calls, the cache state left behind -/
structure Outcome (κ α ρ : Type) where
  result : ρ
  charges : List Charge
  cache : Table κ α

def run {κ α ρ : Type} [DecidableEq κ] (f : Fill κ α) : Prog κ α ρ → Table κ α → Outcome κ α ρ
  | .done r, t => ⟨r, [], t⟩
  | .charge c p, t => let o := run f p t; ⟨o.result, c :: o.charges, o.cache⟩
  | .read k cont, t =>
    let r := t.read f k
    let o := run f (cont r.1) r.2.1
    ⟨o.result, r.2.2 ++ o.charges, o.cache⟩

/-- the cache state after a history of earlier programs (their results are irrelevant) -/
def after {κ α ρ : Type} [DecidableEq κ] (f : Fill κ α) (history : List (Prog κ α ρ)) (t : Table κ α) : Table κ α :=
  history.foldl (fun t q => (run f q t).cache) t

/-- every filled cell holds the initialiser's value for its key -/
def Consistent {κ α : Type} (f : Fill κ α) (t : Table κ α) : Prop := ∀ k v, t k = some v → v = f.init k

/-- the side condition: no fill path reports anything to a gauge -/
def Unmetered {κ α : Type} (f : Fill κ α) : Prop := ∀ k, f.fillCharges k = []

/-! ### The small-integer value cache (`interpreter/integer.go`) -/

/-- the 20 integer static types of `smallIntegerValueCache.new` -/
inductive IntTy where
  | int | int8 | int16 | int32 | int64 | int128 | int256
  | uint | uint8 | uint16 | uint32 | uint64 | uint128 | uint256
  | word8 | word16 | word32 | word64 | word128 | word256
  deriving DecidableEq, Repr

def IntTy.ofName : String → Option IntTy
  | "Int" => some .int | "Int8" => some .int8 | "Int16" => some .int16 | "Int32" => some .int32
  | "Int64" => some .int64 | "Int128" => some .int128 | "Int256" => some .int256
  | "UInt" => some .uint | "UInt8" => some .uint8 | "UInt16" => some .uint16 | "UInt32" => some .uint32
  | "UInt64" => some .uint64 | "UInt128" => some .uint128 | "UInt256" => some .uint256
  | "Word8" => some .word8 | "Word16" => some .word16 | "Word32" => some .word32 | "Word64" => some .word64
  | "Word128" => some .word128 | "Word256" => some .word256
  | _ => none

/-- `some w`: the Go conversion applied to the `int8` argument is `uintW(value)`; `none`: signed (value kept).
`UInt`, `UInt128/256`, `Word128/256` go through `uint64(value)`. -/
def IntTy.convWidth : IntTy → Option Nat
  | .int | .int8 | .int16 | .int32 | .int64 | .int128 | .int256 => none
  | .uint8 | .word8 => some 8
  | .uint16 | .word16 => some 16
  | .uint32 | .word32 => some 32
  | .uint | .uint64 | .uint128 | .uint256 | .word64 | .word128 | .word256 => some 64

/-- the pure initialiser of the small-integer cache: key (type, int8 value) ↦ numeric value -/
def smallIntInit (k : IntTy × Int) : Int :=
  match k.1.convWidth with
  | none => k.2
  | some w => k.2 % (2 ^ w : Int)

/-- the cache's fill path as extracted: `metered` says whether gen-cachefacts found a metering hit -/
def smallIntFill (metered : Bool) : Fill (IntTy × Int) Int :=
  { init := smallIntInit, fillCharges := fun _ => if metered then [Charge.mem 0 1] else [] }

/-! ## Part 2: concurrency (C36)

Threads execute atomic actions on one shared memo cell.  Each thread reads the cell through one of
the protocols found in /repo:

* `once`     : `once.Do(func(){ cell = init })` then read  — one atomic action;
* `loadStore`: `p := cell.Load(); if p == nil { v := init; cell.Store(v); return v }; return p`
               (`atomic.Pointer` sites, `smallIntegerValueCache.Get`) — two atomic actions with a
               window in which other threads may run;
* `loadOrStore`: `Load`, on a miss `LoadOrStore(init)` (`EntitlementMapAccess.images`).

`initOf i` is what thread `i` computes when it finds the cell empty; purity of the initialiser is
the hypothesis `∀ i, initOf i = v` of the theorems. -/

inductive Protocol where
  | once | loadStore | loadOrStore
  deriving DecidableEq, Repr

/-- thread-local control state -/
inductive PC (α : Type) where
  | start
  | sawEmpty          -- loaded `nil`; will compute and store next
  | finished (v : α)  -- obtained `v`
  deriving DecidableEq, Repr

structure Config (α : Type) where
  cell : Option α
  pcs : List (PC α)

/-- one atomic action of a thread with protocol `pr` that computes `mine` on a miss -/
def stepThread {α : Type} (pr : Protocol) (mine : α) (cell : Option α) (pc : PC α) : Option α × PC α :=
  match pc with
  | .finished v => (cell, .finished v)
  | .start =>
    match pr, cell with
    | .once, some v => (some v, .finished v)
    | .once, none => (some mine, .finished mine)
    | _, some v => (some v, .finished v)
    | _, none => (none, .sawEmpty)
  | .sawEmpty =>
    match pr, cell with
    | .loadOrStore, some v => (some v, .finished v)      -- LoadOrStore returns the existing value
    | _, _ => (some mine, .finished mine)                 -- Store overwrites

/-- thread `i` of the schedule performs its next atomic action (no-op when out of range) -/
def stepAt {α : Type} (protos : List Protocol) (initOf : Nat → α) (c : Config α) (i : Nat) : Config α :=
  match c.pcs[i]?, protos[i]? with
  | some pc, some pr =>
    let r := stepThread pr (initOf i) c.cell pc
    { cell := r.1, pcs := c.pcs.set i r.2 }
  | _, _ => c

/-- an interleaving is a list of thread indices -/
def exec {α : Type} (protos : List Protocol) (initOf : Nat → α) (c : Config α) (schedule : List Nat) : Config α :=
  schedule.foldl (stepAt protos initOf) c

def initial {α : Type} (n : Nat) (cell : Option α) : Config α := { cell := cell, pcs := List.replicate n .start }

/-! ### Pools

A `sync.Pool` hands out either a previously `Put` object (in any state) or a fresh one.  The
object's observable state is its list of field values.  `get` = take any object, `clear` it, then
apply the per-use initialisation. -/

/-- a pooled object: field name ↦ value (as text) -/
abbrev Obj := List (String × String)

/-- assign the listed fields (later assignments win) -/
def assign (o : Obj) (assignments : List (String × String)) : Obj :=
  o.map (fun fv => match assignments.reverse.find? (fun a => a.1 == fv.1) with
    | some a => (fv.1, a.2)
    | none => fv)

/-- fields of `o` not assigned by `assignments` -/
def unassigned (fields : List String) (assignments : List (String × String)) : List String :=
  fields.filter (fun f => !(assignments.any (fun a => a.1 == f)))

/-- `clear` is complete when every field is assigned by `clear` or by the per-use initialisation that follows it -/
def clearComplete (fields : List String) (clearA useA : List (String × String)) : Bool :=
  (unassigned fields (clearA ++ useA)).isEmpty

end Verif.Model.Caches
