/-
Code-shaped model of /repo/stdlib/random.go: `RevertibleRandom`, `getUint64RandomNumber`,
`getBigRandomNumber`, as a function of the byte stream delivered by the host's `ReadRandom`.

The random generator is a list of bytes; one `ReadRandom(buf)` call takes `len(buf)` bytes from the
front (the harness scripts the host the same way and fails the call when fewer bytes remain, which
the model reports as `exhausted`).  `uint64` values are `Nat`s; the only `uint64` operation that can
exceed 64 bits, `(mask << 1) | 1`, is reduced modulo 2^64 explicitly.
-/
namespace Verif.Model.Random

abbrev Bytes := List UInt8

/-- the fixed-size unsigned integer types admitted by the type bound of `revertibleRandom` -/
inductive Ty where
  | u8 | u16 | u32 | u64 | u128 | u256 | w8 | w16 | w32 | w64 | w128 | w256
  deriving DecidableEq, Repr

/-- `sema.NumericType.ByteSize()` -/
def Ty.byteSize : Ty → Nat
  | .u8 | .w8 => 1 | .u16 | .w16 => 2 | .u32 | .w32 => 4 | .u64 | .w64 => 8
  | .u128 | .w128 => 16 | .u256 | .w256 => 32

/-- which of the two Go functions `RevertibleRandom` dispatches to -/
def Ty.isBig : Ty → Bool
  | .u128 | .w128 | .u256 | .w256 => true
  | _ => false

inductive Out where
  /-- returned value, number of `ReadRandom` calls made, size of each call's buffer -/
  | ok (v : Nat) (draws : Nat) (drawSize : Nat)
  /-- `panic(ZeroModuloError)`: a user error -/
  | zeroModulo
  /-- the host's `ReadRandom` failed (source exhausted) during call number `draws + 1` -/
  | exhausted (draws : Nat)
  /-- a Go slice expression out of range (`buffer[:byteSize]` with `byteSize > len(buffer)`) -/
  | goPanic
  /-- loop fuel ran out (shown impossible) -/
  | diverge
  deriving DecidableEq, Repr

/-- big-endian value of a byte string (`binary.BigEndian.Uint64` on the zero-padded buffer,
    `big.Int.SetBytes`) -/
def beNat (bs : Bytes) : Nat := bs.foldl (fun acc b => acc * 256 + b.toNat) 0

/-- `big.Int.BitLen` -/
def bitLen (n : Nat) : Nat := if n = 0 then 0 else Nat.log2 n + 1

/-- The mask loop of `getUint64RandomNumber`:
    `for max&mask != max { bitSize++; mask = (mask << 1) | 1 }` on `uint64`. -/
def maskLoop (max : Nat) : Nat → Nat → Nat → Option (Nat × Nat)
  | 0, _, _ => none
  | fuel + 1, mask, bitSize =>
    if max &&& mask != max then maskLoop max fuel (((mask <<< 1) ||| 1) % 2 ^ 64) (bitSize + 1)
    else some (mask, bitSize)

/-- one `ReadRandom` call for `n` bytes -/
def readRandom (n : Nat) (src : Bytes) : Option (Bytes × Bytes) :=
  if n ≤ src.length then some (src.take n, src.drop n) else none

/-- candidate produced by one draw: big-endian value of the drawn bytes, truncated by the mask -/
def candidate (mask : Nat) (bs : Bytes) : Nat := beNat bs &&& mask

/-- The rejection loop `for { getRandomBytes; random &= mask; if random <= max { return random } }`. -/
def sample (byteSize mask max : Nat) : Nat → Bytes → Nat → Out
  | 0, _, _ => .diverge
  | fuel + 1, src, draws =>
    match readRandom byteSize src with
    | none => .exhausted draws
    | some (bs, rest) =>
      let random := candidate mask bs
      if random ≤ max then .ok random (draws + 1) byteSize
      else sample byteSize mask max fuel rest (draws + 1)

/-- mask, bit size, byte size as computed by the two Go functions (`none`: the uint64 loop did not
    stop, impossible for `max < 2^64`) -/
def params (ty : Ty) (max : Nat) : Option (Nat × Nat × Nat) :=
  if ty.isBig then
    let bitSize := bitLen max
    let byteSize := (bitSize + 7) >>> 3
    let mask := (1 <<< bitSize) - 1
    some (mask, bitSize, byteSize)
  else
    match maskLoop max 65 0 0 with
    | none => none
    | some (mask, bitSize) => some (mask, bitSize, (bitSize + 7) >>> 3)

/-- `RevertibleRandom(generator, _, ty, moduloValue)`; `modulo = none` is the call without argument. -/
def revertibleRandom (ty : Ty) (modulo : Option Nat) (src : Bytes) : Out :=
  match modulo with
  | none =>
    match readRandom ty.byteSize src with
    | none => .exhausted 0
    | some (bs, _) => .ok (beNat bs) 1 ty.byteSize
  | some m =>
    if m = 0 then .zeroModulo else
    let max := m - 1
    match params ty max with
    | none => .diverge
    | some (mask, _, byteSize) =>
      if byteSize > ty.byteSize then .goPanic   -- buffer[:byteSize] / buffer[8-byteSize:]
      else sample byteSize mask max (src.length + 1) src 0

/-- the same outcome observed after one more (rejected) draw -/
def Out.bump : Out → Out
  | .ok v d s => .ok v (d + 1) s
  | .exhausted d => .exhausted (d + 1)
  | o => o

/-- all byte strings of length `n`, in lexicographic order -/
def allBytes : Nat → List Bytes
  | 0 => [[]]
  | n + 1 => (List.range 256).flatMap fun b => (allBytes n).map fun bs => UInt8.ofNat b :: bs

end Verif.Model.Random
