import Verif.Model.Num.Types
import Verif.Spec.Conv
/-!
C16 — hand port of the numeric converter functions of `/repo/interpreter`
(`ConvertInt … ConvertInt256`, `ConvertUInt …`, `ConvertUnsigned`, `ConvertWord`, `ConvertWord128/256`,
`ConvertFix64`, `ConvertFix64WithRounding`, `ConvertUFix64`, `ConvertUFix64WithRounding`,
`ConvertFix128`, `ConvertUFix128`, the `ToInt` methods they call, `fix128BigIntToFix64/UFix64`, and
`Fix128.ToFix64` / `UFix128.ToUFix64` of onflow/fixed-point used by the rounding variants).

A value is `(type, raw)`; Go `int`, `int64`, `uint64`, `*big.Int` are all `Int`, with the fixed-width
conversions written out as `wrapS` / `wrapU` exactly where the Go code converts.  Core Lean only.
(`Rounding` is shared with the spec; nothing else of `Spec.Conv` is used here.)
-/
namespace Verif.Model.Convert
open Verif.Model.NumT
open Verif.Spec.Conv (Rounding)

abbrev R := Except CErr Int

def fix64Factor : Int := 100000000                      -- sema.Fix64Factor
def fix128Factor : Int := 1000000000000000000000000     -- fixedpoint.Fix128FactorAsBigInt (10^24)
def fix64To128Factor : Int := 10000000000000000         -- fixedpoint.Fix64ToFix128FactorAsBigInt (10^16)

/-- the types whose values implement `BigNumberValue` (`ToBigInt(gauge)`); the type switches of the
    converters test this arm before `NumberValue` -/
def isBigNumber : NumTy → Bool
  | .int | .int128 | .int256 | .uint | .uint64 | .uint128 | .uint256
  | .word64 | .word128 | .word256 => true
  | _ => false

/-- `value.ToInt()` (Go `int`, 64 bits) of the types that take the `NumberValue` arm -/
def toInt (src : NumTy) (raw : Int) : R :=
  match src with
  | .fix64 => .ok (Int.tdiv raw fix64Factor)                 -- int(v / sema.Fix64Factor), int64 `/`
  | .ufix64 => .ok (wrapS 64 (raw / fix64Factor))            -- int(uint64 / factor)
  | .fix128 =>                                               -- big.Int.Quo, IsInt64 check
    let ip := Int.tdiv raw fix128Factor
    if isInt64 ip then .ok (bigInt64 ip) else .error .overflow
  | .ufix128 =>                                              -- big.Int.Div (Euclidean), IsInt64 check
    let ip := raw / fix128Factor
    if isInt64 ip then .ok (bigInt64 ip) else .error .overflow
  | _ => .ok raw                                             -- int(v) of an 8..64-bit signed / 8..32-bit unsigned

/-- signed native targets Int8/16/32 (`ConvertInt8` …): both arms range-check -/
def toSintNative (n : Nat) (src : NumTy) (raw : Int) : R :=
  let hi : Int := 2 ^ (n - 1) - 1
  let lo : Int := -(2 ^ (n - 1))
  if isBigNumber src then
    if raw > hi then .error .overflow else if raw < lo then .error .underflow
    else .ok (wrapS n (bigInt64 raw))
  else do
    let v ← toInt src raw
    if v > hi then .error .overflow else if v < lo then .error .underflow else .ok (wrapS n v)

/-- `ConvertInt64`: the `NumberValue` arm has no range check (`int64(v)`) -/
def toInt64 (src : NumTy) (raw : Int) : R :=
  if isBigNumber src then
    if raw > 2 ^ 63 - 1 then .error .overflow else if raw < -(2 ^ 63) then .error .underflow
    else .ok (bigInt64 raw)
  else do
    let v ← toInt src raw
    .ok (wrapS 64 v)

/-- the `*big.Int` both arms of the big-width converters produce -/
def toBig (src : NumTy) (raw : Int) : R :=
  if isBigNumber src then .ok raw
  else do let v ← toInt src raw; .ok (wrapS 64 v)           -- big.NewInt(int64(value.ToInt()))

/-- `ConvertInt128` / `ConvertInt256` -/
def toSintBig (n : Nat) (src : NumTy) (raw : Int) : R := do
  let v ← toBig src raw
  if v > 2 ^ (n - 1) - 1 then .error .overflow else if v < -(2 ^ (n - 1)) then .error .underflow else .ok v

/-- `ConvertInt` -/
def toIntUnbounded (src : NumTy) (raw : Int) : R := toBig src raw

/-- `ConvertUInt` -/
def toUIntUnbounded (src : NumTy) (raw : Int) : R :=
  if isBigNumber src then
    if raw < 0 then .error .underflow else .ok raw
  else do
    let v ← toInt src raw
    if v < 0 then .error .underflow else .ok (wrapU 64 v)     -- uint64(v)

/-- `ConvertUnsigned[T]` with `maxNumber` (`-1` for uint64: no upper check in the `NumberValue` arm) -/
def toUintNative (n : Nat) (src : NumTy) (raw : Int) : R :=
  let maxBig : Int := 2 ^ n - 1
  let maxNumber : Int := if n = 64 then -1 else 2 ^ n - 1
  if isBigNumber src then
    if raw > maxBig then .error .overflow else if raw < 0 then .error .underflow
    else .ok (wrapU n (bigInt64 raw))
  else do
    let v ← toInt src raw
    if maxNumber > 0 ∧ v > maxNumber then .error .overflow else if v < 0 then .error .underflow
    else .ok (wrapU n v)

/-- `ConvertUInt128` / `ConvertUInt256` -/
def toUintBig (n : Nat) (src : NumTy) (raw : Int) : R := do
  let v ← toBig src raw
  if v > 2 ^ n - 1 then .error .overflow else if v < 0 then .error .underflow else .ok v

/-- `ConvertWord[T]` -/
def toWordNative (n : Nat) (src : NumTy) (raw : Int) : R :=
  if isBigNumber src then .ok (wrapU n (bigInt64 raw))
  else do let v ← toInt src raw; .ok (wrapU n v)

/-- `ConvertWord128` / `ConvertWord256` (`big.Int.Mod` is Euclidean) -/
def toWordBig (n : Nat) (src : NumTy) (raw : Int) : R := do
  let v ← toBig src raw
  if v > 2 ^ n - 1 ∨ v < 0 then .ok (v % 2 ^ n) else .ok v

/-- `NewUnmeteredFix64ValueWithInteger` -/
def fix64WithInteger (i : Int) : R :=
  if i < -92233720368 then .error .underflow           -- sema.Fix64TypeMinInt
  else if i > 92233720368 then .error .overflow        -- sema.Fix64TypeMaxInt
  else .ok (wrapS 64 (i * fix64Factor))

/-- `values.NewUnmeteredUFix64ValueWithInteger` -/
def ufix64WithInteger (i : Int) : R :=
  if i > 184467440737 then .error .overflow            -- sema.UFix64TypeMaxInt
  else .ok (wrapU 64 (i * fix64Factor))

/-- `fix128BigIntToFix64` (after the fixes 0500a04 and "range check after truncation") -/
def fix128BigIntToFix64 (b : Int) : R :=
  let q := Int.tdiv b fix64To128Factor
  if q > 2 ^ 63 - 1 then .error .overflow else if q < -(2 ^ 63) then .error .underflow
  else .ok (bigInt64 q)

/-- `fix128BigIntToUFix64` -/
def fix128BigIntToUFix64 (b : Int) : R :=
  let q := Int.tdiv b fix64To128Factor
  if q < 0 then .error .underflow else if ¬ isUint64 q then .error .overflow
  else .ok (bigUint64 q)

/-- `ConvertFix64` -/
def toFix64 (src : NumTy) (raw : Int) : R :=
  match src with
  | .fix64 => .ok raw
  | .ufix64 => if raw > 2 ^ 63 - 1 then .error .overflow else .ok (wrapS 64 raw)
  | .fix128 | .ufix128 => fix128BigIntToFix64 raw
  | _ =>
    if isBigNumber src then
      if ¬ isInt64 raw then .error .overflow else fix64WithInteger (bigInt64 raw)
    else do let v ← toInt src raw; fix64WithInteger (wrapS 64 v)

/-- `ConvertUFix64` -/
def toUFix64 (src : NumTy) (raw : Int) : R :=
  match src with
  | .ufix64 => .ok raw
  | .fix64 => if raw < 0 then .error .underflow else .ok (wrapU 64 raw)
  | .fix128 | .ufix128 => fix128BigIntToUFix64 raw
  | _ =>
    if isBigNumber src then
      if raw < 0 then .error .underflow
      else if ¬ isUint64 raw then .error .overflow
      else ufix64WithInteger (bigUint64 raw)
    else do
      let v ← toInt src raw
      if v < 0 then .error .underflow else ufix64WithInteger (wrapU 64 v)

/-- `NewFix128ValueFromBigIntWithRangeCheck` -/
def fix128RangeCheck (v : Int) : R :=
  if v < -(2 ^ 127) then .error .underflow else if v > 2 ^ 127 - 1 then .error .overflow else .ok v

/-- `NewUFix128ValueFromBigIntWithRangeCheck` -/
def ufix128RangeCheck (v : Int) : R :=
  if v < 0 then .error .underflow else if v > 2 ^ 128 - 1 then .error .overflow else .ok v

/-- the scaled integer computed by `ConvertFix128` / `ConvertUFix128` before the range check
    (`self` = the target's own type, returned unchanged) -/
def scaledTo128 (src : NumTy) (raw : Int) : R :=
  match src with
  | .fix64 | .ufix64 => .ok (raw * fix64To128Factor)
  | .fix128 | .ufix128 => .ok raw
  | _ =>
    if isBigNumber src then .ok (raw * fix128Factor)
    else do let v ← toInt src raw; .ok (wrapS 64 v * fix128Factor)

def toFix128 (src : NumTy) (raw : Int) : R :=
  if src = .fix128 then .ok raw else do let s ← scaledTo128 src raw; fix128RangeCheck s

def toUFix128 (src : NumTy) (raw : Int) : R :=
  if src = .ufix128 then .ok raw else do let s ← scaledTo128 src raw; ufix128RangeCheck s

/-! ### onflow/fixed-point: narrowing with a rounding mode -/

inductive FixErr where | posOverflow | negOverflow | underflow
  deriving DecidableEq, Repr

/-- `ushouldRound64(q, r, b, round)` with `b = 10^16` -/
def shouldRound (q r b : Int) : Rounding → Bool
  | .towardZero => false
  | .awayFromZero => r ≠ 0
  | .nearestHalfAway =>
    if r > 0x7fffffffffffffff then true
    else if 2 * r > b then true else if 2 * r < b then false else true
  | .nearestHalfEven =>
    if r > 0x7fffffffffffffff then true
    else if 2 * r > b then true else if 2 * r < b then false else q % 2 = 1

/-- `UFix128.ToUFix64(round)` on the raw 128-bit unsigned integer `a` -/
def libToUFix64 (a : Int) (round : Rounding) : Except FixErr Int :=
  if a = 0 then .ok 0
  else if ¬ (a / 2 ^ 64 < fix64To128Factor) then .error .posOverflow     -- !ult64(a.Hi, scaleFactor)
  else
    let quo := a / fix64To128Factor
    let rem := a % fix64To128Factor
    if shouldRound quo rem fix64To128Factor round then
      if quo + 1 ≥ 2 ^ 64 then .error .posOverflow else .ok (quo + 1)
    else if quo = 0 then .error .underflow
    else .ok quo

/-- `Fix128.ToFix64(round)`: `Abs`, `ToUFix64`, `applySign` / `ApplySign` -/
def libToFix64 (a : Int) (round : Rounding) : Except FixErr Int :=
  let neg := a < 0
  let abs : Int := a.natAbs
  match libToUFix64 abs round with
  | .error .posOverflow => .error (if neg then .negOverflow else .posOverflow)
  | .error e => .error e
  | .ok u =>
    if ¬ neg then (if u > 2 ^ 63 - 1 then .error .posOverflow else .ok u)
    else if u = 2 ^ 63 then .ok (-(2 ^ 63))
    else if u > 2 ^ 63 - 1 then .error .negOverflow
    else .ok (-u)

/-- `handleFixedPointConversionError` -/
def handleConvErr : Except FixErr Int → R
  | .ok v => .ok v
  | .error .posOverflow => .error .overflow
  | .error .negOverflow => .error .underflow
  | .error .underflow => .error .underflow

/-- `ConvertFix64WithRounding` -/
def toFix64Rounding (src : NumTy) (raw : Int) (round : Rounding) : R :=
  match src with
  | .fix128 => handleConvErr (libToFix64 raw round)
  | .ufix128 => do
    let u ← handleConvErr (libToUFix64 raw round)
    if u > 2 ^ 63 - 1 then .error .overflow else .ok (wrapS 64 u)
  | _ => toFix64 src raw

/-- `ConvertUFix64WithRounding` -/
def toUFix64Rounding (src : NumTy) (raw : Int) (round : Rounding) : R :=
  match src with
  | .ufix128 => handleConvErr (libToUFix64 raw round)
  | .fix128 => if raw < 0 then .error .underflow else handleConvErr (libToUFix64 raw round)
  | _ => toUFix64 src raw

/-- The converter function `tgt(x)` (`round = none`) / `tgt(x, rounding: r)` (only Fix64 and UFix64
    accept a rounding rule; the checker rejects it elsewhere) on the source value `(src, raw)`. -/
def convert (tgt src : NumTy) (raw : Int) (round : Option Rounding) : R :=
  match tgt with
  | .int => toIntUnbounded src raw
  | .int8 => toSintNative 8 src raw
  | .int16 => toSintNative 16 src raw
  | .int32 => toSintNative 32 src raw
  | .int64 => toInt64 src raw
  | .int128 => toSintBig 128 src raw
  | .int256 => toSintBig 256 src raw
  | .uint => toUIntUnbounded src raw
  | .uint8 => toUintNative 8 src raw
  | .uint16 => toUintNative 16 src raw
  | .uint32 => toUintNative 32 src raw
  | .uint64 => toUintNative 64 src raw
  | .uint128 => toUintBig 128 src raw
  | .uint256 => toUintBig 256 src raw
  | .word8 => toWordNative 8 src raw
  | .word16 => toWordNative 16 src raw
  | .word32 => toWordNative 32 src raw
  | .word64 => toWordNative 64 src raw
  | .word128 => toWordBig 128 src raw
  | .word256 => toWordBig 256 src raw
  | .fix64 => match round with | none => toFix64 src raw | some r => toFix64Rounding src raw r
  | .ufix64 => match round with | none => toUFix64 src raw | some r => toUFix64Rounding src raw r
  | .fix128 => toFix128 src raw
  | .ufix128 => toUFix128 src raw

end Verif.Model.Convert
