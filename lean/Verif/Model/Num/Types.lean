/-
The 24 concrete numeric types of Cadence as data (core Lean only): kind, width, scale, bounds of the
raw (scaled) integer.  Shared vocabulary of the conversion model (C16) and the text/byte model (C17).
A numeric value is a pair (type, raw integer); for fixed-point types the denoted number is
`raw / 10^scale`.
(Own namespace `Verif.Model.NumT`: self-contained, independent of the arithmetic translator's files.)
-/
namespace Verif.Model.NumT

inductive NumTy where
  | int | int8 | int16 | int32 | int64 | int128 | int256
  | uint | uint8 | uint16 | uint32 | uint64 | uint128 | uint256
  | word8 | word16 | word32 | word64 | word128 | word256
  | fix64 | ufix64 | fix128 | ufix128
  deriving DecidableEq, Repr, Inhabited

inductive NumKind where
  | sint | uint | word | sfix | ufix
  deriving DecidableEq, Repr

namespace NumTy

def all : List NumTy :=
  [int, int8, int16, int32, int64, int128, int256,
   uint, uint8, uint16, uint32, uint64, uint128, uint256,
   word8, word16, word32, word64, word128, word256,
   fix64, ufix64, fix128, ufix128]

def name : NumTy → String
  | int => "Int" | int8 => "Int8" | int16 => "Int16" | int32 => "Int32" | int64 => "Int64"
  | int128 => "Int128" | int256 => "Int256"
  | uint => "UInt" | uint8 => "UInt8" | uint16 => "UInt16" | uint32 => "UInt32" | uint64 => "UInt64"
  | uint128 => "UInt128" | uint256 => "UInt256"
  | word8 => "Word8" | word16 => "Word16" | word32 => "Word32" | word64 => "Word64"
  | word128 => "Word128" | word256 => "Word256"
  | fix64 => "Fix64" | ufix64 => "UFix64" | fix128 => "Fix128" | ufix128 => "UFix128"

def ofName? (s : String) : Option NumTy := all.find? (fun t => t.name == s)

def kind : NumTy → NumKind
  | int | int8 | int16 | int32 | int64 | int128 | int256 => .sint
  | uint | uint8 | uint16 | uint32 | uint64 | uint128 | uint256 => .uint
  | word8 | word16 | word32 | word64 | word128 | word256 => .word
  | fix64 | fix128 => .sfix
  | ufix64 | ufix128 => .ufix

/-- width in bits; 0 for the unbounded `Int` / `UInt` -/
def bits : NumTy → Nat
  | int | uint => 0
  | int8 | uint8 | word8 => 8
  | int16 | uint16 | word16 => 16
  | int32 | uint32 | word32 => 32
  | int64 | uint64 | word64 | fix64 | ufix64 => 64
  | int128 | uint128 | word128 | fix128 | ufix128 => 128
  | int256 | uint256 | word256 => 256

/-- number of decimal fractional digits -/
def scale : NumTy → Nat
  | fix64 | ufix64 => 8
  | fix128 | ufix128 => 24
  | _ => 0

def signed (t : NumTy) : Bool := t.kind == .sint || t.kind == .sfix
def fixed (t : NumTy) : Bool := t.kind == .sfix || t.kind == .ufix
def isWord (t : NumTy) : Bool := t.kind == .word

/-- least raw value (`none`: unbounded below) -/
def minRaw (t : NumTy) : Option Int :=
  if t.signed then (if t.bits = 0 then none else some (-(2 : Int) ^ (t.bits - 1))) else some 0

/-- greatest raw value (`none`: unbounded above) -/
def maxRaw (t : NumTy) : Option Int :=
  if t.bits = 0 then none
  else if t.signed then some ((2 : Int) ^ (t.bits - 1) - 1) else some ((2 : Int) ^ t.bits - 1)

def aboveMax (t : NumTy) (x : Int) : Prop := match t.maxRaw with | some m => x > m | none => False
def belowMin (t : NumTy) (x : Int) : Prop := match t.minRaw with | some m => x < m | none => False

instance (t : NumTy) (x : Int) : Decidable (t.aboveMax x) := by
  unfold aboveMax; split <;> infer_instance
instance (t : NumTy) (x : Int) : Decidable (t.belowMin x) := by
  unfold belowMin; split <;> infer_instance

/-- `x` is a raw value of type `t` -/
def inRange (t : NumTy) (x : Int) : Prop := ¬ t.belowMin x ∧ ¬ t.aboveMax x
instance (t : NumTy) (x : Int) : Decidable (t.inRange x) := by unfold inRange; infer_instance

/-- fixed byte size of the big-endian form (0 for `Int` / `UInt`) -/
def byteSize (t : NumTy) : Nat := t.bits / 8

end NumTy

/-- error kinds raised by the conversion / parsing code -/
inductive CErr where
  | overflow | underflow
  | unreachable     -- `errors.NewUnreachableError()` / a Go run-time panic
  deriving DecidableEq, Repr, Inhabited

def CErr.name : CErr → String
  | .overflow => "overflow" | .underflow => "underflow" | .unreachable => "unreachable"

instance : DecidableEq (Except CErr Int)
  | .ok a, .ok b => if h : a = b then isTrue (by rw [h]) else isFalse (by intro e; cases e; exact h rfl)
  | .error a, .error b => if h : a = b then isTrue (by rw [h]) else isFalse (by intro e; cases e; exact h rfl)
  | .ok _, .error _ => isFalse (by intro e; cases e)
  | .error _, .ok _ => isFalse (by intro e; cases e)

/-- Go conversion to an unsigned `n`-bit type: reduction into `[0, 2^n)` -/
def wrapU (n : Nat) (x : Int) : Int := x % (2 : Int) ^ n
/-- Go conversion to a signed `n`-bit type: reduction into `[-2^(n-1), 2^(n-1))` -/
def wrapS (n : Nat) (x : Int) : Int := (x + (2 : Int) ^ (n - 1)) % (2 : Int) ^ n - (2 : Int) ^ (n - 1)

/-- `(*big.Int).IsInt64` / `IsUint64` -/
def isInt64 (x : Int) : Prop := -(2 : Int) ^ 63 ≤ x ∧ x < (2 : Int) ^ 63
def isUint64 (x : Int) : Prop := 0 ≤ x ∧ x < (2 : Int) ^ 64
instance (x : Int) : Decidable (isInt64 x) := by unfold isInt64; infer_instance
instance (x : Int) : Decidable (isUint64 x) := by unfold isUint64; infer_instance

/-- `(*big.Int).Int64()`: the low 64 bits of the magnitude with the sign applied, as an int64
    (equal to `x` when `isInt64 x`; the low 64 bits of the two's complement of `x` in general) -/
def bigInt64 (x : Int) : Int := wrapS 64 x
/-- `(*big.Int).Uint64()`: the low 64 bits of the magnitude -/
def bigUint64 (x : Int) : Int := ((x.natAbs % 2 ^ 64 : Nat) : Int)
end Verif.Model.NumT
