/-
M-NUM, hand-written part: the vocabulary used by the regenerated definitions of `Verif.Gen.NumGo`
(core Lean only).  Go integers of every width and `*big.Int` values are modelled as `Int`; the
fixed-width behaviour of Go's operators is made explicit by the wrap functions below, which the
translator (`vtool gen-numgo`) applies at every fixed-width `+ - * / << ` and conversion.

Trusted reading of Go (validated on every run by the `num` stream, exhaustively at 8 bits):
* `+ - *` on a sized integer type = exact result reduced into the type (`wrapS n` / `wrapU n`);
* `/` and `%` truncate toward zero (`Int.tdiv`, `Int.tmod`); division by zero is a Go run-time panic;
* `x << k` on a sized type = `x * 2^k` reduced into the type (0 once `k ≥ n`), `x >> k` = `⌊x / 2^k⌋`;
* `big.Int`: `Add Sub Mul Neg Abs` exact, `Quo`/`Rem` truncated, `Div`/`Mod` Euclidean, `Cmp`, `Sign`,
  `Lsh` = `* 2^k`, `Rsh` = `⌊/ 2^k⌋`, `And Or Xor Not` on the infinite two's-complement expansion.
-/
namespace Verif.Model.Num

/-- error kinds of the numeric methods (panics raised / errors returned by the Go code) -/
inductive NumErr where
  | overflow | underflow | divZero | negativeShift
  | invalidOperands      -- operand of another type (outside the model's domain: never produced)
  | unreachable          -- `errors.NewUnreachableError()` (e.g. `Negate` on unsigned types)
  | goPanic              -- a Go run-time panic (integer division by zero, nil dereference, …)
  | userError            -- another user error (e.g. metering's "invalid left shift of non-Int64")
  | nilValue             -- no error, but the method returns a nil value (a panic swallowed by `recover()`)
  deriving DecidableEq, Repr, Inhabited

deriving instance DecidableEq for Except

def NumErr.name : NumErr → String
  | .overflow => "overflow" | .underflow => "underflow" | .divZero => "divzero"
  | .negativeShift => "negshift" | .invalidOperands => "invalidoperands"
  | .unreachable => "unreachable" | .goPanic => "gopanic" | .nilValue => "nil" | .userError => "usererror"

/-- reduction into the unsigned `n`-bit range `[0, 2^n)` -/
@[reducible] def wrapU (n : Nat) (x : Int) : Int := x % (2 : Int) ^ n

/-- reduction into the signed `n`-bit range `[-2^(n-1), 2^(n-1))` -/
@[reducible] def wrapS (n : Nat) (x : Int) : Int := (x + (2 : Int) ^ (n - 1)) % (2 : Int) ^ n - (2 : Int) ^ (n - 1)

namespace Go

/-- `x.Cmp(y)` -/
def cmp (x y : Int) : Int := if x < y then -1 else if x = y then 0 else 1
/-- `x.Sign()` -/
def sign (x : Int) : Int := cmp x 0

/-- `x.IsUint64()` / `x.IsInt64()` -/
def isUint64 (x : Int) : Prop := 0 ≤ x ∧ x < 2 ^ 64
def isInt64 (x : Int) : Prop := -(2 ^ 63) ≤ x ∧ x < 2 ^ 63
instance (x : Int) : Decidable (isUint64 x) := by unfold isUint64; infer_instance
instance (x : Int) : Decidable (isInt64 x) := by unfold isInt64; infer_instance

/-- `x.Uint64()`: the low 64 bits of `|x|` (Go: "undefined" when `x` is not representable; the
    implementation returns the low word of the magnitude) -/
def uint64 (x : Int) : Int := (x.natAbs % 2 ^ 64 : Nat)
/-- `x.Int64()`: low 64 bits of the magnitude, sign applied, wrapped -/
def int64 (x : Int) : Int :=
  wrapS 64 (if x < 0 then -((x.natAbs % 2 ^ 64 : Nat) : Int) else ((x.natAbs % 2 ^ 64 : Nat) : Int))

/-- bitwise complement on the infinite two's-complement expansion -/
def bnot (x : Int) : Int := -x - 1

/-- `&`, `|`, `^` on the infinite two's-complement expansion (Go's semantics for signed integers and
    for `big.Int`), defined from the `Nat` operations by sign cases (core Lean has no `Int.land`) -/
def land (x y : Int) : Int :=
  if 0 ≤ x then
    if 0 ≤ y then ((x.toNat &&& y.toNat : Nat) : Int)
    else x - ((x.toNat &&& (bnot y).toNat : Nat) : Int)
  else
    if 0 ≤ y then y - ((y.toNat &&& (bnot x).toNat : Nat) : Int)
    else bnot (((bnot x).toNat ||| (bnot y).toNat : Nat) : Int)

def lor (x y : Int) : Int :=
  if 0 ≤ x then
    if 0 ≤ y then ((x.toNat ||| y.toNat : Nat) : Int)
    else bnot (bnot y - (((bnot y).toNat &&& x.toNat : Nat) : Int))
  else
    if 0 ≤ y then bnot (bnot x - (((bnot x).toNat &&& y.toNat : Nat) : Int))
    else bnot (((bnot x).toNat &&& (bnot y).toNat : Nat) : Int)

def xor (x y : Int) : Int :=
  if 0 ≤ x then
    if 0 ≤ y then ((x.toNat ^^^ y.toNat : Nat) : Int)
    else bnot ((x.toNat ^^^ (bnot y).toNat : Nat) : Int)
  else
    if 0 ≤ y then bnot (((bnot x).toNat ^^^ y.toNat : Nat) : Int)
    else (((bnot x).toNat ^^^ (bnot y).toNat : Nat) : Int)

/-- fixed-width `x << k` before reduction into the type: the bits shifted beyond `n` positions are
    lost anyway, so for `k ≥ n` the (reduced) result is 0.  `k ≥ 0` is guarded by the caller. -/
def shl (n : Nat) (x k : Int) : Int := if k ≥ n then 0 else x * 2 ^ k.toNat
/-- fixed-width arithmetic / logical `x >> k` (`x` in range of its type): floor division -/
def shr (n : Nat) (x k : Int) : Int := if k ≥ n then (if x < 0 then -1 else 0) else x / 2 ^ k.toNat

/-- `z.Lsh(x, k)` -/
def bigLsh (x k : Int) : Int := x * 2 ^ k.toNat
/-- `z.Rsh(x, k)`: arithmetic shift = floor division by `2^k` (`Int.shiftRight`) -/
def bigRsh (x k : Int) : Int := x >>> k.toNat

/-- `x.Bit(i)`: bit `i` of the (infinite two's-complement) expansion of `x` -/
def bit (x i : Int) : Int := (x >>> i.toNat) % 2

/-- `len(x.Bits())` on a 64-bit platform: number of 64-bit words of `|x|` -/
def wordLen (x : Int) : Int := ((x.natAbs.log2 + 64) / 64 * (if x = 0 then 0 else 1) : Nat)
/-- `x.BitLen()` -/
def bitLen (x : Int) : Int := (if x = 0 then 0 else x.natAbs.log2 + 1 : Nat)

/-! Byte-level helpers of `interpreter/value_int128.go` and `values/big.go`, ported by hand
    (the translator maps calls to them onto these definitions; domain: operands within the
    `bits`-wide range, as at every call site). -/

/-- `toTwosComplement(res, x, bits)`: `SignedBigIntToSizedBigEndianBytes` read back unsigned -/
def toTwosComplement (x : Int) (bits : Int) : Int := x % 2 ^ bits.toNat

/-- `truncate(x, maxWords)`: keep the low `maxWords` 64-bit words of the magnitude, keep the sign -/
def truncateWords (x : Int) (maxWords : Int) : Int :=
  if x < 0 then -((x.natAbs % 2 ^ (64 * maxWords.toNat) : Nat) : Int)
  else ((x.natAbs % 2 ^ (64 * maxWords.toNat) : Nat) : Int)

end Go
end Verif.Model.Num
