import Verif.Model.Num.Types
/-!
C17 — hand port of the textual and byte encodings of numbers:
`toString` (`format/int.go`, `format/fix.go`), `T.fromString` (`interpreter.StringValueParsers`:
`signedIntValueParser` = `strconv.ParseInt(s, 10, n)`, `unsignedIntValueParser` = `strconv.ParseUint`,
`bigIntValueParser` = `big.Int.SetString(s, 10)` + range check, `unsignedParser` (sign prefix rejected),
`fixedpoint.ParseFix64 …` = `parseFixedPoint` + `checkAndConvertFixedPoint` + `CheckRange`),
`toBigEndianBytes` and `T.fromBigEndianBytes` (`values/big.go`, `padWithZeroes`, the
`New<T>ValueFromBigEndianBytes` constructors, `NativeFromBigEndianBytesFunction`).
Strings are `List Char`, byte arrays `List UInt8`, values raw integers.  Core Lean only.

Modelled library contracts (validated by the `text` stream): `strconv.ParseInt/ParseUint` in base 10
(optional sign only for ParseInt, at least one digit, no underscores, range error → error),
`big.Int.SetString(s, 10)` (optional `+`/`-`, at least one digit, nothing else), `strings.Split`.
-/
namespace Verif.Model.Text
open Verif.Model.NumT

/-! ### decimal digits -/

def isDigit (c : Char) : Bool := '0' ≤ c && c ≤ '9'
def digitVal (c : Char) : Nat := c.toNat - '0'.toNat
def digitChar (d : Nat) : Char := Char.ofNat (d + '0'.toNat)

/-- value of a digit string, most significant first -/
def ofDigits (ds : List Char) : Nat := ds.foldl (fun a c => a * 10 + digitVal c) 0

/-- decimal digits of `n`, most significant first, no leading zeros (`"0"` for 0): `strconv.FormatUint`,
    `big.Int.Text(10)` on a magnitude -/
def natDigits (n : Nat) : List Char :=
  if h : n < 10 then [digitChar n] else natDigits (n / 10) ++ [digitChar (n % 10)]
decreasing_by omega

/-- `strconv.FormatInt` / `big.Int.Text(10)` / `fmt.Sprint` of an integer -/
def intText (x : Int) : List Char := if x < 0 then '-' :: natDigits x.natAbs else natDigits x.natAbs

/-- a non-empty string of decimal digits -/
def parseDigits (s : List Char) : Option Nat :=
  if s ≠ [] ∧ s.all isDigit then some (ofDigits s) else none

/-- `big.Int.SetString(s, 10)` and the syntax of `strconv.ParseInt(s, 10, _)`: optional sign, digits -/
def setString (s : List Char) : Option Int :=
  match s with
  | [] => none
  | c :: rest =>
    if c = '+' then (parseDigits rest).map (fun n => (n : Int))
    else if c = '-' then (parseDigits rest).map (fun n => -(n : Int))
    else (parseDigits (c :: rest)).map (fun n => (n : Int))

def hasSignPrefix (s : List Char) : Bool :=
  match s with
  | [] => false
  | c :: _ => c = '+' || c = '-'

/-! ### toString -/

def padLeft (s : List Char) (c : Char) (n : Nat) : List Char := List.replicate (n - s.length) c ++ s

/-- `format.Fix64` / `format.UFix64` / `formatFixedPointBigInt` with the type's scale: truncated quotient
    and remainder; a `-` is written separately only when the integer part is zero -/
def fixText (scale : Nat) (raw : Int) : List Char :=
  let f : Int := (10 : Int) ^ scale
  let integer := Int.tdiv raw f
  let fraction := Int.tmod raw f
  let neg := fraction < 0
  (if neg ∧ integer = 0 then ['-'] else []) ++ intText integer ++ ['.'] ++
    padLeft (natDigits fraction.natAbs) '0' scale

def toString (t : NumTy) (raw : Int) : List Char :=
  if t.fixed then fixText t.scale raw else intText raw

/-! ### fromString -/

def filterRange (t : NumTy) (v : Option Int) : Option Int :=
  v.bind (fun x => if t.inRange x then some x else none)

/-- `strings.Split(v, ".")` has exactly two parts -/
def splitDot (s : List Char) : Option (List Char × List Char) :=
  match s.span (· != '.') with
  | (a, '.' :: b) => if b.all (· != '.') then some (a, b) else none
  | _ => none

/-- bounds of a fixed-point type as (integer part, |fractional part|), truncated division:
    `Fix64TypeMinIntBig`, `Fix64TypeMinFractionalBig`, … -/
def minInt (t : NumTy) : Int := Int.tdiv (t.minRaw.getD 0) ((10 : Int) ^ t.scale)
def minFrac (t : NumTy) : Int := (Int.tmod (t.minRaw.getD 0) ((10 : Int) ^ t.scale)).natAbs
def maxInt (t : NumTy) : Int := Int.tdiv (t.maxRaw.getD 0) ((10 : Int) ^ t.scale)
def maxFrac (t : NumTy) : Int := (Int.tmod (t.maxRaw.getD 0) ((10 : Int) ^ t.scale)).natAbs

/-- `fixedpoint.CheckRange` -/
def checkRange (negative : Bool) (uint frac minI minF maxI maxF : Int) : Bool :=
  if negative ∧ minI = 0 ∧ (uint ≠ 0 ∨ frac ≠ 0) then false else
  let iv := if negative then -uint else uint
  let lowOk :=
    if iv < minI then false
    else if iv = minI then (if minI < 0 then ¬ (frac > minF) else ¬ (frac < minF))
    else true
  let highOk :=
    if iv < maxI then true
    else if iv = maxI then (if maxI ≥ 0 then ¬ (frac > maxF) else ¬ (frac < maxF))
    else false
  lowOk && highOk

/-- `fixedpoint.Parse(U)Fix64/128`: `parseFixedPoint`, `checkAndConvertFixedPoint` -/
def parseFixed (t : NumTy) (s : List Char) : Option Int :=
  match splitDot s with
  | none => none
  | some (ip, fp) =>
    let negative := match s with | c :: _ => decide (c = '-') | [] => false
    match setString ip with
    | none => none
    | some integer =>
      if hasSignPrefix fp then none else
      match setString fp with
      | none => none
      | some fractional =>
        let uint : Int := integer.natAbs
        let parsedScale := fp.length
        if parsedScale > t.scale then none else
        -- NOTE (current code): `CheckRange` receives the fractional digits as parsed, although the
        -- bounds' fractional parts are at the type's scale ("92233720368.6": 6 ≤ 54775807)
        if ¬ checkRange negative uint fractional (minInt t) (minFrac t) (maxInt t) (maxFrac t) then none else
        -- ConvertToFixedPointBigInt (scale ≤ targetScale)
        let r := uint * (10 : Int) ^ t.scale + fractional * (10 : Int) ^ (t.scale - parsedScale)
        let v := if negative then -r else r
        -- the value constructors take the low bits: `n.Int64()`, `n.Uint64()`, `Fix128FromBigInt`, `UFix128FromBigInt`
        some (match t with
          | .fix64 => bigInt64 v
          | .ufix64 => bigUint64 v
          | .fix128 => wrapS 128 v
          | _ => v % (2 : Int) ^ 128)

/-- `T.fromString(s)` -/
def fromString (t : NumTy) (s : List Char) : Option Int :=
  match t.kind with
  | .sint => filterRange t (setString s)                       -- ParseInt / SetString + inRange
  | .uint | .word =>
    if t.bits ≠ 0 ∧ t.bits ≤ 64 then filterRange t ((parseDigits s).map (fun n => (n : Int)))  -- ParseUint
    else if hasSignPrefix s then none                          -- unsignedParser
    else filterRange t (setString s)
  | .sfix => parseFixed t s
  | .ufix => if hasSignPrefix s then none else parseFixed t s

/-! ### big-endian bytes -/

/-- the `k` low-order bytes of `n`, most significant first (`FillBytes`, `PutUint16/32/64`) -/
def beBytes : Nat → Nat → List UInt8
  | 0, _ => []
  | k + 1, n => beBytes k (n / 256) ++ [UInt8.ofNat (n % 256)]

/-- `big.Int.SetBytes` / `binary.BigEndian.UintN` -/
def ofBeBytes (bs : List UInt8) : Nat := bs.foldl (fun a b => a * 256 + b.toNat) 0

/-- `big.Int.Bytes()`: minimal big-endian magnitude (empty for 0) -/
def minBytes (n : Nat) : List UInt8 :=
  if h : n = 0 then [] else minBytes (n / 256) ++ [UInt8.ofNat (n % 256)]
decreasing_by omega

/-- `x.toBigEndianBytes()` -/
def toBigEndianBytes (t : NumTy) (raw : Int) : List UInt8 :=
  if t.bits ≠ 0 then
    -- fixed size: two's complement
    beBytes t.byteSize (raw % (2 : Int) ^ t.bits).toNat
  else if t.signed then
    -- values.SignedBigIntToBigEndianBytes
    if raw < 0 then
      let bytes := (minBytes (-raw - 1).toNat).map (fun b => b ^^^ 0xff)
      match bytes with
      | [] => [0xff]
      | b :: _ => if b &&& 0x80 = 0 then 0xff :: bytes else bytes
    else if raw = 0 then [0]
    else
      let bytes := minBytes raw.toNat
      match bytes with
      | b :: _ => if b &&& 0x80 ≠ 0 then 0 :: bytes else bytes
      | [] => bytes
  else
    -- values.UnsignedBigIntToBigEndianBytes
    if raw = 0 then [0] else minBytes raw.toNat

/-- `values.BigEndianBytesToSignedBigInt` -/
def bytesToSigned (b : List UInt8) : Int :=
  match b with
  | [] => 0
  | b0 :: _ =>
    if b0 &&& 0x80 ≠ 0 then -((ofBeBytes (b.map (fun x => x ^^^ 0xff)) : Nat) + 1 : Int)
    else (ofBeBytes b : Nat)

/-- `T.fromBigEndianBytes(bytes)` (`NativeFromBigEndianBytesFunction` + the per-type constructor) -/
def fromBigEndianBytes (t : NumTy) (b : List UInt8) : Option Int :=
  if t.byteSize ≠ 0 ∧ b.length > t.byteSize then none
  else if t.bits = 0 ∨ (t.bits > 64 ∧ ¬ t.fixed) then
    -- Int, UInt, Int128/256, UInt128/256, Word128/256: no padding
    some (if t.signed then bytesToSigned b else (ofBeBytes b : Nat))
  else
    -- padWithZeroes + fixed-width read; signed types reinterpret the top bit
    let u : Int := (ofBeBytes b : Nat)
    some (if t.signed then wrapS t.bits u else u)

end Verif.Model.Text
